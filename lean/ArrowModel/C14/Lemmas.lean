import ArrowModel.C14.Model
namespace ArrowModel.C14

theorem runBytes_append {S B O : Type} (step : S → B → S × List O) (s : S) (xs ys : List B) :
    runBytes step s (xs ++ ys) =
      ((runBytes step (runBytes step s xs).1 ys).1,
       (runBytes step s xs).2 ++ (runBytes step (runBytes step s xs).1 ys).2) := by
  induction xs generalizing s with
  | nil => simp [runBytes]
  | cons x xs ih => simp [runBytes, ih, List.append_assoc]

theorem runChunks_eq_flatten {S B O : Type} (step : S → B → S × List O)
    (feed : S → List B → S × List O) (h : ∀ s c, feed s c = runBytes step s c)
    (s : S) (cs : List (List B)) :
    runChunks feed s cs = runBytes step s cs.flatten := by
  induction cs generalizing s with
  | nil => simp [runChunks, runBytes]
  | cons c cs ih => simp [runChunks, ih, h, runBytes_append]

theorem bulkLoop_eq_runBytes {S B O : Type} (iter : S → List B → S × List O × Nat)
    (step : S → B → S × List O)
    (h0 : ∀ s b bs, (iter s (b :: bs)).2.2 = 0 →
      runBytes step s (b :: bs) = ((iter s (b :: bs)).1, (iter s (b :: bs)).2.1))
    (hk : ∀ s b bs, (iter s (b :: bs)).2.2 ≠ 0 →
      runBytes step s ((b :: bs).take (iter s (b :: bs)).2.2) = ((iter s (b :: bs)).1, (iter s (b :: bs)).2.1))
    (s : S) (buf : List B) : bulkLoop iter s buf = runBytes step s buf := by
  induction h : buf.length using Nat.strongRecOn generalizing s buf with
  | _ n ih =>
    cases buf with
    | nil => simp [bulkLoop, runBytes]
    | cons b bs =>
      rw [bulkLoop]
      by_cases hz : (iter s (b :: bs)).2.2 = 0
      · simp only [hz, ↓reduceDIte]; exact (h0 s b bs hz).symm
      · simp only [hz, ↓reduceDIte]
        have hlen : ((b :: bs).drop (iter s (b :: bs)).2.2).length < n := by
          simp only [List.length_drop, List.length_cons] at *; omega
        rw [ih _ hlen _ _ rfl]
        conv => rhs; rw [← List.take_append_drop (iter s (b :: bs)).2.2 (b :: bs)]
        rw [runBytes_append, hk s b bs hz]
open ArrowModel.Generated.C14
variable {P O : Type}
/-- every source item the models were written against (constants, guard conditions, statement
order of the copy / scan arms) is still found in /repo by `tools/translate.py`; an edit of one
of those expressions makes the item LOST and this lemma — and with it every obligation — fail -/
theorem c14_ties_intact :
    IPC_MARKER_BYTE_lost = false ∧
    IPC_MARKER_LEN_lost = false ∧
    IPC_HEADER_LEN_lost = false ∧
    IPC_HEADER_FULL_lost = false ∧
    IPC_MSG_SLICE_START_lost = false ∧
    IPC_BODY_SLICE_START_lost = false ∧
    IPC_HEADER_COPY_FROM_lost = false ∧
    IPC_FINISH_OK_READ_lost = false ∧
    IPC_EOS_SIZE_lost = false ∧
    JSON_NUMBER_CLOSE_lost = false ∧
    JSON_BATCH_STOP_lost = false ∧
    JSON_STRING_SCAN_lost = false ∧
    JSON_UNICODE_HIGH_LAST_lost = false ∧
    JSON_UNICODE_LOW_LAST_lost = false ∧
    JSON_LITERAL_RESUME_lost = false ∧
    CSV_RECORD_DONE_lost = false ∧
    CSV_FLUSH_PARTIAL_GUARD_lost = false ∧
    CSV_TO_READ_lost = false ∧
    CSV_BUFREADER_STOP_lost = false ∧
    AVRO_DATA_COPY_lost = false ∧
    AVRO_SYNC_COPY_lost = false ∧
    VLQ_ZIGZAG_SHIFT_lost = false ∧
    AVROD_PREFIX_ARM_lost = false ∧
    AVROD_LOOP_HEAD_lost = false ∧
    AVROD_SWITCH_FORCES_FLUSH_lost = false ∧
    AVRO_SYNC_LEN_lost = false ∧
    AVRO_SYNC_REMAINING_lost = false ∧
    AVRO_SYNC_OFFSET_BASE_lost = false ∧
    VLQ_MAX_SHIFT_lost = false ∧
    VLQ_LAST_LIMIT_lost = false ∧
    VLQ_PAYLOAD_MASK_lost = false ∧
    VLQ_SHIFT_STEP_lost = false ∧
    VLQ_CONT_BIT_lost = false := by decide

/-- the values the shape items carry, as the models use them -/
theorem c14_shape_values :
    JSON_NUMBER_CLOSE = 1 ∧ JSON_BATCH_STOP = 1 ∧ JSON_STRING_SCAN = 1 ∧ JSON_UNICODE_HIGH_LAST = 3 ∧
    JSON_UNICODE_LOW_LAST = 9 ∧ JSON_LITERAL_RESUME = 1 ∧ CSV_RECORD_DONE = 1 ∧ CSV_FLUSH_PARTIAL_GUARD = 0 ∧
    CSV_TO_READ = 0 ∧ CSV_BUFREADER_STOP = 0 ∧ AVRO_DATA_COPY = 0 ∧ AVRO_SYNC_COPY = 0 ∧ VLQ_ZIGZAG_SHIFT = 1 ∧
    IPC_FINISH_OK_READ = 0 ∧ IPC_EOS_SIZE = 0 ∧ AVROD_PREFIX_ARM = 0 ∧ AVROD_LOOP_HEAD = 0 ∧
    AVROD_SWITCH_FORCES_FLUSH = 0 := by decide

theorem ipc_header_consts : IPC_HEADER_LEN = IPC_HEADER_FULL := by decide

/-- the zero-copy slices start at offset 0 of the chunk (regenerated together with their guards) -/
theorem ipc_msg_slice (buffer : Bytes) : buffer.drop IPC_MSG_SLICE_START = buffer := by
  simp [show IPC_MSG_SLICE_START = 0 by decide]
theorem ipc_body_slice (buffer : Bytes) : buffer.drop IPC_BODY_SLICE_START = buffer := by
  simp [show IPC_BODY_SLICE_START = 0 by decide]

theorem ipc_failed_absorb (pr : IpcParams P O) (e : IpcErr) (ctx : P) (xs : Bytes) :
    runBytes (ipcStep pr) ⟨.failed e, ctx⟩ xs = (⟨.failed e, ctx⟩, []) := by
  induction xs with
  | nil => simp [runBytes]
  | cons x xs ih => simp [runBytes, ipcStep, ipcStepNoBody, ih]

theorem ipc_run_header (pr : IpcParams P O) (ctx : P) (cont : Bool) (xs buf : Bytes)
    (h1 : buf.length < IPC_HEADER_FULL) (h2 : buf.length + xs.length ≤ IPC_HEADER_FULL) :
    runBytes (ipcStep pr) ⟨.header buf cont, ctx⟩ xs =
      if (buf ++ xs).length = IPC_HEADER_FULL then (headerDone ctx (buf ++ xs) cont, [])
      else (⟨.header (buf ++ xs) cont, ctx⟩, []) := by
  induction xs generalizing buf with
  | nil => simp [runBytes]; omega
  | cons x xs ih =>
    have hc := ipc_header_consts
    simp only [runBytes, ipcStep, ipcStepNoBody]
    have hg : ¬ IPC_HEADER_LEN ≤ buf.length := by omega
    simp only [hg, ↓reduceIte]
    by_cases hfull : (buf ++ [x]).length = IPC_HEADER_FULL
    · have hx : xs = [] := by
        simp at hfull h2; cases xs with
        | nil => rfl
        | cons _ _ => simp at h2; omega
      subst hx
      simp [hfull, runBytes]
    · simp only [hfull, ↓reduceIte]
      have := ih (buf ++ [x]) (by simp at hfull h2 ⊢; omega) (by simp at h2 ⊢; omega)
      simp only [this, List.append_assoc, List.singleton_append, List.nil_append]
theorem ipc_run_message (pr : IpcParams P O) (ctx : P) (size : Nat) (xs buf : Bytes)
    (h1 : buf.length < size) (h2 : buf.length + xs.length ≤ size) :
    runBytes (ipcStep pr) ⟨.message size buf, ctx⟩ xs =
      if (buf ++ xs).length = size then messageDone pr ctx (buf ++ xs)
      else (⟨.message size (buf ++ xs), ctx⟩, []) := by
  induction xs generalizing buf with
  | nil => simp [runBytes]; omega
  | cons x xs ih =>
    simp only [runBytes, ipcStep, ipcStepNoBody]
    have hg : ¬ size ≤ buf.length := by omega
    simp only [hg, ↓reduceIte]
    by_cases hfull : (buf ++ [x]).length = size
    · have hx : xs = [] := by
        simp at hfull h2; cases xs with
        | nil => rfl
        | cons _ _ => simp at h2; omega
      subst hx
      simp [hfull, runBytes]
    · simp only [hfull, ↓reduceIte]
      have := ih (buf ++ [x]) (by simp at hfull h2 ⊢; omega) (by simp at h2 ⊢; omega)
      simp only [this, List.append_assoc, List.singleton_append, List.nil_append]

theorem ipc_run_body (pr : IpcParams P O) (ctx : P) (md : Bytes) (bl : Nat) (xs buf : Bytes)
    (h1 : buf.length < bl) (h2 : buf.length + xs.length ≤ bl) :
    runBytes (ipcStep pr) ⟨.body md bl buf, ctx⟩ xs =
      if (buf ++ xs).length ≠ bl then (⟨.body md bl (buf ++ xs), ctx⟩, [])
      else bodyDone pr ctx md (buf ++ xs) := by
  induction xs generalizing buf with
  | nil => simp [runBytes]; omega
  | cons x xs ih =>
    simp only [runBytes, ipcStep]
    have hg : ¬ (¬ buf.isEmpty ∧ bl ≤ buf.length) := by omega
    have h0 : ¬ bl = 0 := by omega
    simp only [hg, h0, ↓reduceIte]
    by_cases hfull : (buf ++ [x]).length = bl
    · have hx : xs = [] := by
        simp at hfull h2; cases xs with
        | nil => rfl
        | cons _ _ => simp at h2; omega
      subst hx
      simp [hfull, runBytes]
    · simp only [ne_eq, hfull, not_false_eq_true, ↓reduceIte]
      have := ih (buf ++ [x]) (by simp at hfull h2 ⊢; omega) (by simp at h2 ⊢; omega)
      simp only [this, List.append_assoc, List.singleton_append, List.nil_append]

/-- a halted iteration (nothing consumed) leaves a state that absorbs every further byte -/
theorem ipcIterNoBody_halt (pr : IpcParams P O) (s : IpcState P) (b : Nat) (bs : Bytes)
    (hb : ∀ md bl buf, s.ph ≠ .body md bl buf)
    (hz : (ipcIterNoBody pr s (b :: bs)).2.2 = 0) :
    runBytes (ipcStep pr) s (b :: bs) = ((ipcIterNoBody pr s (b :: bs)).1, (ipcIterNoBody pr s (b :: bs)).2.1) := by
  obtain ⟨ph, ctx⟩ := s
  cases ph with
  | header buf cont =>
    simp only [ipcIterNoBody, ipc_msg_slice] at hz ⊢
    by_cases hg : IPC_HEADER_LEN ≤ buf.length
    · simp [hg, runBytes, ipcStep, ipcStepNoBody, ipc_failed_absorb]
    · simp only [hg, ↓reduceIte] at hz
      split at hz <;> simp at hz <;> omega
  | message size buf =>
    simp only [ipcIterNoBody, ipc_msg_slice] at hz ⊢
    by_cases hg : size ≤ buf.length
    · simp [hg, runBytes, ipcStep, ipcStepNoBody, ipc_failed_absorb]
    · simp only [hg, ↓reduceIte] at hz
      split at hz
      · simp at hz; omega
      · split at hz <;> simp at hz <;> omega
  | body md bl buf => exact absurd rfl (hb md bl buf)
  | finished => simp [ipcIterNoBody, runBytes, ipcStep, ipcStepNoBody, ipc_failed_absorb]
  | failed e => simp [ipcIterNoBody, ipc_failed_absorb]

theorem ipcIterNoBody_run (pr : IpcParams P O) (s : IpcState P) (b : Nat) (bs : Bytes)
    (hb : ∀ md bl buf, s.ph ≠ .body md bl buf)
    (hz : (ipcIterNoBody pr s (b :: bs)).2.2 ≠ 0) :
    runBytes (ipcStep pr) s ((b :: bs).take (ipcIterNoBody pr s (b :: bs)).2.2) =
      ((ipcIterNoBody pr s (b :: bs)).1, (ipcIterNoBody pr s (b :: bs)).2.1) := by
  obtain ⟨ph, ctx⟩ := s
  have hc := ipc_header_consts
  cases ph with
  | header buf cont =>
    simp only [ipcIterNoBody, ipc_msg_slice] at hz ⊢
    by_cases hg : IPC_HEADER_LEN ≤ buf.length
    · simp [hg] at hz
    · simp only [hg, ↓reduceIte]
      rw [apply_ite (fun r : IpcState P × List O × Nat => r.2.2)]
      simp only [ite_self]
      rw [ipc_run_header pr ctx cont _ buf (by omega) (by simp [List.length_take]; omega)]
      split <;> simp_all
  | message size buf =>
    simp only [ipcIterNoBody, ipc_msg_slice] at hz ⊢
    by_cases hg : size ≤ buf.length
    · simp [hg] at hz
    · simp only [hg, ↓reduceIte]
      by_cases hzc : buf.isEmpty ∧ (b :: bs).length > size
      · simp only [hzc, and_self, ↓reduceIte]
        have hbe : buf = [] := by simpa using hzc.1
        subst hbe
        rw [ipc_run_message pr ctx size _ [] (by simp at hg ⊢; omega) (by simp [List.length_take]; omega)]
        have : (List.take size (b :: bs)).length = size := by
          simp [List.length_take]; have := hzc.2; simp at this; omega
        simp [this]
      · simp only [hzc, ↓reduceIte]
        rw [apply_ite (fun r : IpcState P × List O × Nat => r.2.2)]
        simp only [ite_self]
        rw [ipc_run_message pr ctx size _ buf (by omega) (by simp [List.length_take]; omega)]
        split <;> simp_all
  | body md bl buf => exact absurd rfl (hb md bl buf)
  | finished => simp [ipcIterNoBody] at hz
  | failed e => simp [ipcIterNoBody] at hz
theorem ipcStep_noBody (pr : IpcParams P O) (s : IpcState P) (b : Nat)
    (hb : ∀ md bl buf, s.ph ≠ .body md bl buf) : ipcStep pr s b = ipcStepNoBody pr s b := by
  obtain ⟨ph, ctx⟩ := s
  cases ph <;> simp [ipcStep] at hb ⊢

theorem bodyDone_noBody (pr : IpcParams P O) (ctx : P) (md body : Bytes) :
    ∀ md' bl buf, (bodyDone pr ctx md body).1.ph ≠ .body md' bl buf := by
  intro md' bl buf
  simp only [bodyDone]
  split <;> simp

theorem ipcIter_halt (pr : IpcParams P O) (s : IpcState P) (b : Nat) (bs : Bytes)
    (hz : (ipcIter pr s (b :: bs)).2.2 = 0) :
    runBytes (ipcStep pr) s (b :: bs) = ((ipcIter pr s (b :: bs)).1, (ipcIter pr s (b :: bs)).2.1) := by
  by_cases hb : ∀ md bl buf, s.ph ≠ .body md bl buf
  · have e : ipcIter pr s (b :: bs) = ipcIterNoBody pr s (b :: bs) := by
      obtain ⟨ph, ctx⟩ := s
      cases ph <;> simp [ipcIter] at hb ⊢
    rw [e] at hz ⊢
    exact ipcIterNoBody_halt pr s b bs hb hz
  · obtain ⟨ph, ctx⟩ := s
    cases ph with
    | body md bl buf =>
      simp only [ipcIter, ipc_body_slice] at hz ⊢
      by_cases hg : ¬ buf.isEmpty ∧ bl ≤ buf.length
      · simp [hg, runBytes, ipcStep, ipc_failed_absorb]
      · simp only [hg, ↓reduceIte] at hz ⊢
        by_cases hzc : buf.isEmpty ∧ (b :: bs).length ≥ bl
        · simp only [hzc, and_self, ↓reduceIte] at hz ⊢
          by_cases hbl : bl = 0
          · subst hbl
            simp only [↓reduceIte, List.take_zero] at hz ⊢
            have hn := bodyDone_noBody pr ctx md []
            have := ipcIterNoBody_halt pr (bodyDone pr ctx md []).1 b bs hn hz
            simp only [runBytes] at this ⊢
            simp only [ipcStep, hg, ↓reduceIte]
            rw [ipcStep_noBody pr _ b hn] at this
            simp only [Prod.mk.injEq] at this ⊢
            refine ⟨this.1, ?_⟩
            rw [List.append_assoc, this.2]
          · simp [hbl] at hz
        · simp only [hzc, ↓reduceIte] at hz
          have hbe : buf.length < bl := by
            simp at hg hzc
            by_cases he : buf = []
            · subst he; simp at hzc ⊢; omega
            · have := hg he; omega
          split at hz <;> simp at hz <;> omega
    | _ => simp at hb

theorem ipcIter_run (pr : IpcParams P O) (s : IpcState P) (b : Nat) (bs : Bytes)
    (hz : (ipcIter pr s (b :: bs)).2.2 ≠ 0) :
    runBytes (ipcStep pr) s ((b :: bs).take (ipcIter pr s (b :: bs)).2.2) =
      ((ipcIter pr s (b :: bs)).1, (ipcIter pr s (b :: bs)).2.1) := by
  by_cases hb : ∀ md bl buf, s.ph ≠ .body md bl buf
  · have e : ipcIter pr s (b :: bs) = ipcIterNoBody pr s (b :: bs) := by
      obtain ⟨ph, ctx⟩ := s
      cases ph <;> simp [ipcIter] at hb ⊢
    rw [e] at hz ⊢
    exact ipcIterNoBody_run pr s b bs hb hz
  · obtain ⟨ph, ctx⟩ := s
    cases ph with
    | body md bl buf =>
      simp only [ipcIter, ipc_body_slice] at hz ⊢
      by_cases hg : ¬ buf.isEmpty ∧ bl ≤ buf.length
      · simp [hg] at hz
      · simp only [hg, ↓reduceIte] at hz ⊢
        by_cases hzc : buf.isEmpty ∧ (b :: bs).length ≥ bl
        · simp only [hzc, and_self, ↓reduceIte] at hz ⊢
          have hbe : buf = [] := by simpa using hzc.1
          subst hbe
          by_cases hbl : bl = 0
          · subst hbl
            simp only [↓reduceIte, List.take_zero] at hz ⊢
            have hn := bodyDone_noBody pr ctx md []
            have := ipcIterNoBody_run pr (bodyDone pr ctx md []).1 b bs hn hz
            obtain ⟨k, hk⟩ := Nat.exists_eq_succ_of_ne_zero hz
            rw [hk] at this ⊢
            simp only [List.take_succ_cons, runBytes] at this ⊢
            simp only [ipcStep, hg, ↓reduceIte]
            rw [ipcStep_noBody pr _ b hn] at this
            simp only [Prod.mk.injEq] at this ⊢
            refine ⟨this.1, ?_⟩
            rw [List.append_assoc, this.2]
          · simp only [hbl, ↓reduceIte]
            rw [ipc_run_body pr ctx md bl _ [] (by simp; omega) (by simp [List.length_take]; omega)]
            have : (List.take bl (b :: bs)).length = bl := by
              simp [List.length_take]; have := hzc.2; simp at this; omega
            simp [this]
        · simp only [hzc, ↓reduceIte] at hz ⊢
          have hbe : buf.length < bl := by
            simp at hg hzc
            by_cases he : buf = []
            · subst he; simp at hzc ⊢; omega
            · have := hg he; omega
          rw [apply_ite (fun r : IpcState P × List O × Nat => r.2.2)]
          simp only [ite_self]
          rw [ipc_run_body pr ctx md bl _ buf hbe (by simp [List.length_take]; omega)]
          split <;> simp_all
    | _ => simp at hb

/-- **Refinement (IPC).** -/
theorem ipcFeed_eq_runBytes (pr : IpcParams P O) (s : IpcState P) (chunk : Bytes) :
    ipcFeed pr s chunk = runBytes (ipcStep pr) s chunk :=
  bulkLoop_eq_runBytes (ipcIter pr) (ipcStep pr) (ipcIter_halt pr) (ipcIter_run pr) s chunk

/-! ## Avro VLQ / block decoder -/

theorem blk_failed_absorb (e : BlkErr) (xs : Bytes) :
    runBytes blkStep (.failed e) xs = (.failed e, []) := by
  induction xs with
  | nil => simp [runBytes]
  | cons x xs ih => simp [runBytes, blkStep, ih]

theorem vlqLong_pos (v : Vlq) (x : Nat) (xs : Bytes) : (vlqLong v (x :: xs)).2 ≠ 0 := by
  simp only [vlqLong]; split <;> simp

theorem vlqLong_le (v : Vlq) (xs : Bytes) : (vlqLong v xs).2 ≤ xs.length := by
  induction xs generalizing v with
  | nil => simp [vlqLong]
  | cons x xs ih =>
    simp only [vlqLong]; split
    · have := ih ‹_›; simp; omega
    · simp
    · simp

theorem blk_run_count (v : Vlq) (xs : Bytes) :
    runBytes blkStep (.count v) (xs.take (vlqLong v xs).2) =
      match (vlqLong v xs).1 with
      | .more v' => (.count v', [])
      | .done x => (afterCount x, [])
      | .err => (.failed .varint, []) := by
  induction xs generalizing v with
  | nil => simp [vlqLong, runBytes]
  | cons x xs ih =>
    simp only [vlqLong]
    cases h : vlqByte v x with
    | more v' => simp [runBytes, blkStep, h, ih]
    | done y => simp [runBytes, blkStep, h]
    | err => simp [runBytes, blkStep, h]

theorem blk_run_size (v : Vlq) (c : Nat) (xs : Bytes) :
    runBytes blkStep (.size v c) (xs.take (vlqLong v xs).2) =
      match (vlqLong v xs).1 with
      | .more v' => (.size v' c, [])
      | .done x => (afterSize c x, [])
      | .err => (.failed .varint, []) := by
  induction xs generalizing v with
  | nil => simp [vlqLong, runBytes]
  | cons x xs ih =>
    simp only [vlqLong]
    cases h : vlqByte v x with
    | more v' => simp [runBytes, blkStep, h, ih]
    | done y => simp [runBytes, blkStep, h]
    | err => simp [runBytes, blkStep, h]

theorem blk_run_data (c : Nat) (xs d : Bytes) (rem : Nat) (h1 : 0 < rem) (h2 : xs.length ≤ rem) :
    runBytes blkStep (.data c d rem) xs =
      if rem - xs.length = 0 then (.sync c (d ++ xs) syncZero AVRO_SYNC_REMAINING, [])
      else (.data c (d ++ xs) (rem - xs.length), []) := by
  induction xs generalizing d rem with
  | nil => simp [runBytes]; omega
  | cons x xs ih =>
    simp only [runBytes, blkStep]
    have h0 : ¬ rem = 0 := by omega
    simp only [h0, ↓reduceIte]
    by_cases hr : rem - 1 = 0
    · have hx : xs = [] := by
        cases xs with
        | nil => rfl
        | cons _ _ => simp at h2; omega
      subst hx
      simp [hr, runBytes]
    · simp only [hr, ↓reduceIte]
      simp at h2
      rw [ih (d ++ [x]) (rem - 1) (by omega) (by omega)]
      simp only [List.append_assoc, List.singleton_append, List.length_cons, List.nil_append]
      have : rem - 1 - xs.length = rem - (xs.length + 1) := by omega
      rw [this]

theorem writeAt_writeAt (sy : Bytes) (off x : Nat) (xs : Bytes) :
    writeAt (writeAt sy off [x]) (off + 1) xs = writeAt sy off (x :: xs) := by
  unfold writeAt
  by_cases h : off ≤ sy.length
  · have t : (List.take off sy).length = off := by simp [List.length_take]; omega
    have e1 : List.take (off + 1) (List.take off sy ++ [x] ++ List.drop (off + [x].length) sy) = List.take off sy ++ [x] := by
      have : (List.take off sy ++ [x]).length = off + 1 := by simp [t]
      rw [List.take_append_of_le_length (by omega), List.take_of_length_le (by omega)]
    have e2 : List.drop (off + 1 + xs.length) (List.take off sy ++ [x] ++ List.drop (off + [x].length) sy) = List.drop (off + (x :: xs).length) sy := by
      have : (List.take off sy ++ [x]).length = off + 1 := by simp [t]
      rw [List.drop_append, this]
      have : List.drop (off + 1 + xs.length) (List.take off sy ++ [x]) = [] := by
        apply List.drop_of_length_le; omega
      rw [this]; simp only [List.nil_append, List.drop_drop, List.length_cons, List.length_nil]
      congr 1; omega
    rw [e1, e2]; simp
  · have t : List.take off sy = sy := List.take_of_length_le (by omega)
    have d1 : ∀ k, List.drop (off + k) sy = [] := fun k => List.drop_of_length_le (by omega)
    rw [t, d1, d1]
    simp only [List.append_nil]
    rw [List.take_of_length_le (by simp; omega), List.drop_of_length_le (by simp; omega)]
    simp
theorem writeAt_nil (sy : Bytes) (off : Nat) : writeAt sy off [] = sy := by
  simp [writeAt]

theorem blk_run_sync (c : Nat) (d : Bytes) (xs sy : Bytes) (rem : Nat)
    (h1 : 0 < rem) (h3 : rem ≤ AVRO_SYNC_OFFSET_BASE) (h2 : xs.length ≤ rem) :
    runBytes blkStep (.sync c d sy rem) xs =
      if rem - xs.length = 0 then (blkInit, [⟨c, d, writeAt sy (AVRO_SYNC_OFFSET_BASE - rem) xs⟩])
      else (.sync c d (writeAt sy (AVRO_SYNC_OFFSET_BASE - rem) xs) (rem - xs.length), []) := by
  induction xs generalizing sy rem with
  | nil => simp [runBytes, writeAt_nil]; omega
  | cons x xs ih =>
    simp only [runBytes, blkStep, blkStepSync]
    have h0 : ¬ (rem = 0 ∨ AVRO_SYNC_OFFSET_BASE < rem) := by omega
    simp only [h0, ↓reduceIte]
    by_cases hr : rem - 1 = 0
    · have hx : xs = [] := by
        cases xs with
        | nil => rfl
        | cons _ _ => simp at h2; omega
      subst hx
      simp [hr, runBytes]
    · simp only [hr, ↓reduceIte]
      simp at h2
      rw [ih _ (rem - 1) (by omega) (by omega) (by omega)]
      have e : AVRO_SYNC_OFFSET_BASE - (rem - 1) = AVRO_SYNC_OFFSET_BASE - rem + 1 := by omega
      rw [e, writeAt_writeAt]
      simp only [List.length_cons, List.nil_append]
      have : rem - 1 - xs.length = rem - (xs.length + 1) := by omega
      rw [this]

theorem blkIterSync_halt (c : Nat) (d sy : Bytes) (rem b : Nat) (bs : Bytes)
    (hz : (blkIterSync c d sy rem (b :: bs)).2.2 = 0) :
    runBytes blkStep (.sync c d sy rem) (b :: bs) =
      ((blkIterSync c d sy rem (b :: bs)).1, (blkIterSync c d sy rem (b :: bs)).2.1) := by
  simp only [blkIterSync] at hz ⊢
  by_cases hg : rem = 0 ∨ AVRO_SYNC_OFFSET_BASE < rem
  · simp [hg, runBytes, blkStep, blkStepSync, blk_failed_absorb]
  · simp only [hg, ↓reduceIte] at hz
    split at hz <;> simp at hz <;> omega

theorem blkIterSync_run (c : Nat) (d sy : Bytes) (rem b : Nat) (bs : Bytes)
    (hz : (blkIterSync c d sy rem (b :: bs)).2.2 ≠ 0) :
    runBytes blkStep (.sync c d sy rem) ((b :: bs).take (blkIterSync c d sy rem (b :: bs)).2.2) =
      ((blkIterSync c d sy rem (b :: bs)).1, (blkIterSync c d sy rem (b :: bs)).2.1) := by
  simp only [blkIterSync] at hz ⊢
  by_cases hg : rem = 0 ∨ AVRO_SYNC_OFFSET_BASE < rem
  · simp [hg] at hz
  · simp only [hg, ↓reduceIte]
    rw [apply_ite (fun r : BlkState × List Block × Nat => r.2.2)]
    simp only [ite_self]
    rw [blk_run_sync c d _ sy rem (by omega) (by omega) (by simp [List.length_take]; omega)]
    have : (List.take (min (b :: bs).length rem) (b :: bs)).length = min (b :: bs).length rem := by
      simp [List.length_take]
    rw [this]
    split <;> simp

theorem blkStep_data_zero (c : Nat) (d : Bytes) (xs : Bytes) :
    runBytes blkStep (.data c d 0) xs = 
      match xs with
      | [] => (.data c d 0, [])
      | _ :: _ => runBytes blkStep (.sync c d syncZero AVRO_SYNC_REMAINING) xs := by
  cases xs with
  | nil => simp [runBytes]
  | cons x xs => simp [runBytes, blkStep]

theorem blkIter_halt (s : BlkState) (b : Nat) (bs : Bytes) (hz : (blkIter s (b :: bs)).2.2 = 0) :
    runBytes blkStep s (b :: bs) = ((blkIter s (b :: bs)).1, (blkIter s (b :: bs)).2.1) := by
  cases s with
  | count v =>
    exfalso; simp only [blkIter] at hz
    have := vlqLong_pos v b bs
    split at hz <;> simp_all
  | size v c =>
    exfalso; simp only [blkIter] at hz
    have := vlqLong_pos v b bs
    split at hz <;> simp_all
  | data c d rem =>
    simp only [blkIter] at hz ⊢
    by_cases hr : rem = 0
    · subst hr
      simp only [↓reduceIte] at hz ⊢
      rw [blkStep_data_zero]
      exact blkIterSync_halt c d syncZero _ b bs hz
    · simp only [hr, ↓reduceIte] at hz
      split at hz <;> simp at hz <;> omega
  | sync c d sy rem => exact blkIterSync_halt c d sy rem b bs hz
  | failed e => simp [blkIter, blk_failed_absorb]

theorem blkIter_run (s : BlkState) (b : Nat) (bs : Bytes) (hz : (blkIter s (b :: bs)).2.2 ≠ 0) :
    runBytes blkStep s ((b :: bs).take (blkIter s (b :: bs)).2.2) =
      ((blkIter s (b :: bs)).1, (blkIter s (b :: bs)).2.1) := by
  cases s with
  | count v =>
    simp only [blkIter] at hz ⊢
    have := blk_run_count v (b :: bs)
    split <;> simp_all
  | size v c =>
    simp only [blkIter] at hz ⊢
    have := blk_run_size v c (b :: bs)
    split <;> simp_all
  | data c d rem =>
    simp only [blkIter] at hz ⊢
    by_cases hr : rem = 0
    · subst hr
      simp only [↓reduceIte] at hz ⊢
      obtain ⟨k, hk⟩ := Nat.exists_eq_succ_of_ne_zero hz
      have := blkIterSync_run c d syncZero _ b bs hz
      rw [hk] at this ⊢
      rw [List.take_succ_cons] at this ⊢
      rw [blkStep_data_zero]
      exact this
    · simp only [hr, ↓reduceIte]
      rw [apply_ite (fun r : BlkState × List Block × Nat => r.2.2)]
      simp only [ite_self]
      rw [blk_run_data c _ d rem (by omega) (by simp [List.length_take]; omega)]
      have : (List.take (min rem (b :: bs).length) (b :: bs)).length = min rem (b :: bs).length := by
        simp [List.length_take]
      rw [this]
      split <;> simp
  | sync c d sy rem => exact blkIterSync_run c d sy rem b bs hz
  | failed e => simp [blkIter] at hz

/-- **Refinement (Avro block decoder).** -/
theorem blkFeed_eq_runBytes (s : BlkState) (chunk : Bytes) :
    blkFeed s chunk = runBytes blkStep s chunk :=
  bulkLoop_eq_runBytes blkIter blkStep blkIter_halt blkIter_run s chunk

/-! ## JSON tape decoder -/

@[simp] theorem pushByte_curRow (t : Tape) (b : Nat) : (t.pushByte b).curRow = t.curRow := rfl
@[simp] theorem pushBytes_curRow (t : Tape) (b : Bytes) : (t.pushBytes b).curRow = t.curRow := rfl
@[simp] theorem pushEl_curRow (t : Tape) (e : TapeEl) : (t.pushEl e).curRow = t.curRow := rfl
@[simp] theorem closeStr_curRow (t : Tape) (mk : Nat → TapeEl) : (t.closeStr mk).curRow = t.curRow := rfl

theorem jFail_spec (s : JState) : (jFail s).1.tape = s.tape ∧ (jFail s).2 = [] := by simp [jFail]

theorem jValue_curRow (s : JState) (rest : List JSt) (b : Nat) :
    (jValue s rest b).1.tape.curRow = s.tape.curRow ∧ (jValue s rest b).2 = [] := by
  unfold jValue
  repeat' split
  all_goals simp [jFail]

theorem jFlush_curRow (cfg : JCfg) (s : JState) (n : Nat) (h : s.tape.curRow ≤ n) :
    (jFlush cfg s).1.tape.curRow ≤ s.tape.curRow ∧ ∀ t ∈ (jFlush cfg s).2, t.curRow ≤ n := by
  unfold jFlush
  repeat' split
  all_goals simp [Tape.empty]
  exact h

theorem jStartRow_curRow (cfg : JCfg) (hb : 1 ≤ cfg.batchSize) (s : JState) (b : Nat)
    (h : s.tape.curRow ≤ cfg.batchSize) :
    (jStartRow cfg s b).1.tape.curRow ≤ cfg.batchSize ∧ ∀ t ∈ (jStartRow cfg s b).2, t.curRow ≤ cfg.batchSize := by
  unfold jStartRow
  by_cases hfull : s.tape.curRow ≥ cfg.batchSize
  · have hf := jFlush_curRow cfg s cfg.batchSize h
    simp only [hfull, ↓reduceIte]
    -- after a flush attempt: either error (state unchanged) or cleared / still ≤
    have hcase : (jFlush cfg s).1.err.isSome = true ∨ (jFlush cfg s).1.tape.curRow = 0 := by
      unfold jFlush
      repeat' split
      all_goals simp_all [Tape.empty]
      all_goals omega
    rcases hcase with he | h0
    · simp only [he, ↓reduceIte]
      exact ⟨by omega, hf.2⟩
    · split
      · exact ⟨by omega, hf.2⟩
      · split <;> split <;> simp only [List.mem_append, (jValue_curRow _ _ _).1, (jValue_curRow _ _ _).2, List.not_mem_nil, or_false, h0] <;>
          first | exact ⟨by omega, hf.2⟩ | skip
  · simp only [hfull, ↓reduceIte]
    have hlt : s.tape.curRow + 1 ≤ cfg.batchSize := by omega
    split
    · simp at *; omega
    · split <;> split <;> simp [(jValue_curRow _ _ _).1, (jValue_curRow _ _ _).2] <;> omega

theorem jStepMain_curRow (cfg : JCfg) (hb : 1 ≤ cfg.batchSize) (s : JState) (b : Nat)
    (h : s.tape.curRow ≤ cfg.batchSize) :
    (jStepMain cfg s b).1.tape.curRow ≤ cfg.batchSize ∧ ∀ t ∈ (jStepMain cfg s b).2, t.curRow ≤ cfg.batchSize := by
  have hs := jStartRow_curRow cfg hb s b h
  unfold jStepMain
  repeat' split
  all_goals first
    | exact hs
    | (simp [jFail, (jValue_curRow _ _ _).1, (jValue_curRow _ _ _).2]; done)
    | (simp [jFail, (jValue_curRow _ _ _).1, (jValue_curRow _ _ _).2]; omega)
    | (simp only []; split <;> simp [jFail] <;> omega)
    | (simp only []; split <;> simp [jFail])

theorem jStep_curRow (cfg : JCfg) (hb : 1 ≤ cfg.batchSize) (s : JState) (b : Nat)
    (h : s.tape.curRow ≤ cfg.batchSize) :
    (jStep cfg s b).1.tape.curRow ≤ cfg.batchSize ∧ ∀ t ∈ (jStep cfg s b).2, t.curRow ≤ cfg.batchSize := by
  unfold jStep
  split
  · simp [h]
  · split
    · split
      · simp [h]
      · exact jStepMain_curRow cfg hb _ b (by simpa using h)
    · exact jStepMain_curRow cfg hb s b h

theorem jRun_curRow (cfg : JCfg) (hb : 1 ≤ cfg.batchSize) (s : JState) (xs : Bytes)
    (h : s.tape.curRow ≤ cfg.batchSize) :
    (runBytes (jStep cfg) s xs).1.tape.curRow ≤ cfg.batchSize ∧
      ∀ t ∈ (runBytes (jStep cfg) s xs).2, t.curRow ≤ cfg.batchSize := by
  induction xs generalizing s with
  | nil => simp [runBytes, h]
  | cons x xs ih =>
    have h1 := jStep_curRow cfg hb s x h
    have h2 := ih _ h1.1
    simp only [runBytes, List.mem_append]
    exact ⟨h2.1, fun t ht => ht.elim (h1.2 t) (h2.2 t)⟩
theorem json_err_absorb (cfg : JCfg) (s : JState) (h : s.err.isSome) (xs : Bytes) :
    runBytes (jStep cfg) s xs = (s, []) := by
  induction xs with
  | nil => simp [runBytes]
  | cons x xs ih => simp [runBytes, jStep, h, ih]

theorem pushByte_pushBytes (t : Tape) (x : Nat) (xs : Bytes) :
    (t.pushByte x).pushBytes xs = t.pushBytes (x :: xs) := by
  simp [Tape.pushByte, Tape.pushBytes]

theorem pushBytes_nil (t : Tape) : t.pushBytes [] = t := by simp [Tape.pushBytes]

/-- `skip_chrs(b'\\\\', b'"')` + `extend_from_slice`: a run of bytes without `\\` and `"` inside a
string is copied to the tape buffer, exactly as stepping through it byte by byte -/
theorem json_string_run (cfg : JCfg) (s : JState) (rest : List JSt) (run : Bytes)
    (he : s.err = none) (hs : s.stack = .string :: rest) (hr : ∀ b ∈ run, b ≠ 92 ∧ b ≠ 34) :
    runBytes (jStep cfg) s run = ({ s with tape := s.tape.pushBytes run }, []) := by
  induction run generalizing s with
  | nil => simp [runBytes, pushBytes_nil]
  | cons x xs ih =>
    have hx := hr x (by simp)
    have step : jStep cfg s x = ({ s with tape := s.tape.pushByte x }, []) := by
      simp [jStep, he, hs, jStepMain, hx.1, hx.2]
    simp only [runBytes, step]
    rw [ih _ (by simpa using he) (by simpa using hs) (fun b hb => hr b (by simp [hb]))]
    simp [pushByte_pushBytes]

/-- `advance_until(not a number char)` + `extend_from_slice` in `Number` -/
theorem json_number_run (cfg : JCfg) (s : JState) (rest : List JSt) (run : Bytes)
    (he : s.err = none) (hs : s.stack = .number :: rest) (hr : ∀ b ∈ run, numChar b = true) :
    runBytes (jStep cfg) s run = ({ s with tape := s.tape.pushBytes run }, []) := by
  induction run generalizing s with
  | nil => simp [runBytes, pushBytes_nil]
  | cons x xs ih =>
    have hx := hr x (by simp)
    have step : jStep cfg s x = ({ s with tape := s.tape.pushByte x }, []) := by
      simp [jStep, he, hs, hx]
    simp only [runBytes, step]
    rw [ih _ (by simpa using he) (by simpa using hs) (fun b hb => hr b (by simp [hb]))]
    simp [pushByte_pushBytes]

/-- states whose arm starts with `skip_whitespace` / `advance_until(not ws and not ',')` -/
def skipsByte (s : JState) (b : Nat) : Bool :=
  match s.stack with
  | [] => jsonWs b
  | .topLevelList :: _ => jsonWs b || b == 44
  | .object _ :: _ => jsonWs b || b == 44
  | .list _ :: _ => jsonWs b || b == 44
  | .value :: _ => jsonWs b
  | .colon :: _ => jsonWs b
  | _ => false

/-- `skip_whitespace` / `advance_until`: a run of skippable bytes changes nothing -/
theorem json_skip_run (cfg : JCfg) (s : JState) (run : Bytes)
    (he : s.err = none) (hr : ∀ b ∈ run, skipsByte s b = true) :
    runBytes (jStep cfg) s run = (s, []) := by
  induction run with
  | nil => simp [runBytes]
  | cons x xs ih =>
    have hx := hr x (by simp)
    have step : jStep cfg s x = (s, []) := by
      unfold skipsByte at hx
      unfold jStep jStepMain
      simp only [he, Option.isSome_none, Bool.false_eq_true, ↓reduceIte]
      split at hx <;> simp_all
    simp only [runBytes, step]
    rw [ih (fun b hb => hr b (by simp [hb]))]
    simp

/-- the `zip` loop over a literal: feeding the remaining expected bytes completes it -/
theorem json_literal_run (cfg : JCfg) (s : JState) (lit : Lit) (rest : List JSt) (idx : Nat)
    (he : s.err = none) (hs : s.stack = .literal lit idx :: rest) (hi : idx < lit.bytes.length) :
    runBytes (jStep cfg) s (lit.bytes.drop idx) =
      ({ s with tape := s.tape.pushEl lit.element, stack := rest }, []) := by
  induction hk : lit.bytes.length - idx generalizing s idx with
  | zero => omega
  | succ k ih =>
    have hd : lit.bytes.drop idx = lit.bytes[idx] :: lit.bytes.drop (idx + 1) := by
      rw [List.drop_eq_getElem_cons hi]
    rw [hd]
    simp only [runBytes]
    by_cases hlast : idx + 1 = lit.bytes.length
    · have : jStep cfg s lit.bytes[idx] = ({ s with tape := s.tape.pushEl lit.element, stack := rest }, []) := by
        simp [jStep, he, hs, jStepMain, hlast]
      rw [this]
      have : lit.bytes.drop (idx + 1) = [] := by rw [hlast]; simp
      simp [this, runBytes]
    · have : jStep cfg s lit.bytes[idx] = ({ s with stack := .literal lit (idx + 1) :: rest }, []) := by
        simp [jStep, he, hs, jStepMain, hlast]
      rw [this]
      rw [ih _ (idx + 1) (by simpa using he) (by simp) (by omega) (by omega)]
      simp

/-! ## VLQ values and block contents -/

/-- reachable states of `VLQDecoder`: `k` continuation bytes seen so far -/
def VlqInv (v : Vlq) (k : Nat) : Prop := k ≤ 9 ∧ v.shift = 7 * k ∧ v.acc < 2 ^ (7 * k)

theorem vlq_payload (b : Nat) : b &&& VLQ_PAYLOAD_MASK = b % 128 := by
  have := Nat.and_two_pow_sub_one_eq_mod b 7
  simpa [VLQ_PAYLOAD_MASK] using this

set_option maxRecDepth 100000 in
theorem vlq_cont_small : ∀ b, b < 256 → ((b &&& VLQ_CONT_BIT = 0) ↔ b < 128) := by decide

theorem vlq_acc_add (v : Vlq) (k b : Nat) (h : VlqInv v k) :
    v.acc ||| ((b &&& VLQ_PAYLOAD_MASK) <<< v.shift) = v.acc + (b % 128) * 2 ^ (7 * k) := by
  rw [vlq_payload, h.2.1, Nat.or_comm, ← Nat.shiftLeft_add_eq_or_of_lt h.2.2, Nat.shiftLeft_eq, Nat.add_comm]

theorem vlq_step_more (v v' : Vlq) (k b : Nat) (h : VlqInv v k) (hb : b < 256)
    (hs : vlqByte v b = .more v') : VlqInv v' (k + 1) ∧ v'.acc = v.acc + (b % 128) * 2 ^ (7 * k) := by
  unfold vlqByte at hs
  split at hs
  · simp at hs
  · rename_i hne
    simp only at hs
    split at hs
    · simp at hs
    · rename_i hc
      simp only [VlqRes.more.injEq] at hs
      subst hs
      have hadd := vlq_acc_add v k b h
      have hge : 128 ≤ b := by
        have := (not_congr (vlq_cont_small b hb)).mp hc; omega
      -- shift ≠ 63 here, else the guard would have fired (b ≥ 2)
      have hk : k ≤ 8 := by
        rcases Nat.lt_or_ge k 9 with h9 | h9
        · omega
        · exfalso; apply hne
          have : k = 9 := by have := h.1; omega
          subst this
          refine ⟨by rw [h.2.1]; rfl, ?_⟩
          show b ≥ 2; omega
      refine ⟨⟨by omega, by simp [h.2.1, VLQ_SHIFT_STEP, Nat.mul_add], ?_⟩, hadd⟩
      simp only [hadd]
      have : b % 128 < 128 := Nat.mod_lt _ (by decide)
      have e : 2 ^ (7 * (k + 1)) = 128 * 2 ^ (7 * k) := by
        rw [show 7 * (k + 1) = 7 + 7 * k by omega, Nat.pow_add]
      rw [e]
      have := h.2.2
      calc v.acc + b % 128 * 2 ^ (7 * k) < 2 ^ (7 * k) + b % 128 * 2 ^ (7 * k) := by omega
        _ = (b % 128 + 1) * 2 ^ (7 * k) := by rw [Nat.add_mul]; omega
        _ ≤ 128 * 2 ^ (7 * k) := Nat.mul_le_mul_right _ (by omega)

theorem vlq_step_done (v : Vlq) (k b : Nat) (x : Int) (h : VlqInv v k) (hb : b < 256)
    (hs : vlqByte v b = .done x) :
    x = zigzag (v.acc + (b % 128) * 2 ^ (7 * k)) ∧ v.acc + (b % 128) * 2 ^ (7 * k) < 2 ^ 64 := by
  unfold vlqByte at hs
  split at hs
  · simp at hs
  · rename_i hne
    simp only at hs
    split at hs
    · rename_i hc
      simp only [VlqRes.done.injEq] at hs
      rw [vlq_acc_add v k b h] at hs
      refine ⟨hs.symm, ?_⟩
      have hlt : b < 128 := (vlq_cont_small b hb).mp hc
      have hmod : b % 128 = b := Nat.mod_eq_of_lt hlt
      rw [hmod]
      rcases Nat.lt_or_ge k 9 with h9 | h9
      · have h1 : v.acc + b * 2 ^ (7 * k) < 128 * 2 ^ (7 * k) := by
          have := h.2.2
          calc v.acc + b * 2 ^ (7 * k) < 2 ^ (7 * k) + b * 2 ^ (7 * k) := by omega
            _ = (b + 1) * 2 ^ (7 * k) := by rw [Nat.add_mul]; omega
            _ ≤ 128 * 2 ^ (7 * k) := Nat.mul_le_mul_right _ (by omega)
        have h2 : 128 * 2 ^ (7 * k) ≤ 2 ^ 64 := by
          have : 128 * 2 ^ (7 * k) = 2 ^ (7 * k + 7) := by rw [Nat.pow_add]; simp [Nat.mul_comm]
          rw [this]; exact Nat.pow_le_pow_right (by decide) (by omega)
        omega
      · have hk : k = 9 := by have := h.1; omega
        subst hk
        have hb2 : b < 2 := by
          rcases Nat.lt_or_ge b 2 with h2 | h2
          · exact h2
          · exfalso; apply hne; exact ⟨by rw [h.2.1]; rfl, h2⟩
        have := h.2.2
        have : b * 2 ^ (7 * 9) ≤ 2 ^ 63 := by
          have : b ≤ 1 := by omega
          calc b * 2 ^ (7 * 9) ≤ 1 * 2 ^ (7 * 9) := Nat.mul_le_mul_right _ this
            _ = 2 ^ 63 := by decide
        have e1 : (2:Nat) ^ (7 * 9) = 2 ^ 63 := by decide
        have hacc : v.acc < 2 ^ 63 := by have := h.2.2; rwa [e1] at this
        rw [e1] at this ⊢
        omega
    · simp at hs
theorem vlq_inv_init : VlqInv ⟨0, 0⟩ 0 := ⟨by omega, rfl, by simp⟩

theorem vlq_inv_fits (v : Vlq) (k : Nat) (h : VlqInv v k) : v.acc < 2 ^ 63 ∧ v.shift ≤ 63 := by
  refine ⟨Nat.lt_of_lt_of_le h.2.2 (Nat.pow_le_pow_right (by decide) (by have := h.1; omega)), ?_⟩
  rw [h.2.1]; have := h.1; omega

theorem vlqByte_cont (v : Vlq) (k b : Nat) (h : VlqInv v k) (hk : k ≤ 8) (hb : 128 ≤ b ∧ b < 256) :
    ∃ v', vlqByte v b = .more v' := by
  unfold vlqByte
  have h1 : ¬ (v.shift = VLQ_MAX_SHIFT ∧ b ≥ VLQ_LAST_LIMIT) := by
    rw [h.2.1]; show ¬ (7 * k = 63 ∧ _); omega
  have h2 : ¬ (b &&& VLQ_CONT_BIT = 0) := by
    rw [vlq_cont_small b hb.2]; omega
  simp [h1, h2]

theorem vlqByte_term (v : Vlq) (k t : Nat) (h : VlqInv v k) (hk : k ≤ 8 ∨ t < 2) (ht : t < 128) :
    ∃ x, vlqByte v t = .done x := by
  unfold vlqByte
  have h1 : ¬ (v.shift = VLQ_MAX_SHIFT ∧ t ≥ VLQ_LAST_LIMIT) := by
    rw [h.2.1]; show ¬ (7 * k = 63 ∧ t ≥ 2); omega
  have h2 : t &&& VLQ_CONT_BIT = 0 := (vlq_cont_small t (by omega)).mpr ht
  simp [h1, h2]

/-- from a reachable state, continuation bytes followed by a terminator decode to the varint
value of the whole group sequence -/
theorem vlqLong_value (v : Vlq) (k : Nat) (xs : Bytes) (t : Nat) (h : VlqInv v k)
    (hxs : ∀ b ∈ xs, 128 ≤ b ∧ b < 256) (ht : t < 128)
    (hlen : k + xs.length ≤ 8 ∨ (k + xs.length = 9 ∧ t < 2)) :
    vlqLong v (xs ++ [t]) =
      (.done (zigzag (v.acc + 2 ^ (7 * k) * varintVal (xs ++ [t]))), xs.length + 1) := by
  induction xs generalizing v k with
  | nil =>
    obtain ⟨x, hx⟩ := vlqByte_term v k t h (by simp at hlen; omega) ht
    have := vlq_step_done v k t x h (by omega) hx
    simp [vlqLong, hx, varintVal, this.1, Nat.mul_comm]
  | cons b bs ih =>
    have hb := hxs b (by simp)
    obtain ⟨v', hv'⟩ := vlqByte_cont v k b h (by simp at hlen; omega) hb
    have hm := vlq_step_more v v' k b h hb.2 hv'
    have := ih v' (k + 1) hm.1 (fun c hc => hxs c (by simp [hc])) (by simp at hlen ⊢; omega)
    simp only [List.cons_append, vlqLong, hv', this, hm.2, varintVal]
    congr 2
    have e : 2 ^ (7 * (k + 1)) = 2 ^ (7 * k) * 128 := by
      rw [show 7 * (k + 1) = 7 * k + 7 by omega, Nat.pow_add]
    rw [e, Nat.mul_add, Nat.add_assoc, Nat.mul_assoc, Nat.mul_comm (b % 128)]

/-- ten continuation bytes: the guard `shift == 63 && byte >= 0x02` rejects the tenth -/
theorem vlqByte_overlong (v : Vlq) (b : Nat) (h : VlqInv v 9) (hb : 2 ≤ b) : vlqByte v b = .err := by
  unfold vlqByte
  have : v.shift = VLQ_MAX_SHIFT ∧ b ≥ VLQ_LAST_LIMIT := ⟨by rw [h.2.1]; rfl, hb⟩
  simp [this]

theorem avro_sync_consts : AVRO_SYNC_LEN = 16 ∧ AVRO_SYNC_REMAINING = 16 ∧ AVRO_SYNC_OFFSET_BASE = 16 := by decide

theorem writeAt_full (sync : Bytes) (h : sync.length = 16) : writeAt syncZero 0 sync = sync := by
  simp [writeAt, syncZero, avro_sync_consts.1, h]

theorem blk_sync_complete (c : Nat) (d sync : Bytes) (h : sync.length = 16) :
    runBytes blkStep (.sync c d syncZero AVRO_SYNC_REMAINING) sync = (blkInit, [⟨c, d, sync⟩]) := by
  have hc := avro_sync_consts
  rw [blk_run_sync c d sync syncZero AVRO_SYNC_REMAINING (by omega) (by omega) (by omega)]
  have e : AVRO_SYNC_OFFSET_BASE - AVRO_SYNC_REMAINING = 0 := by omega
  have e2 : AVRO_SYNC_REMAINING - sync.length = 0 := by omega
  simp [e, e2, writeAt_full sync h]

theorem blk_data_then_sync (c : Nat) (data sync : Bytes) (h : sync.length = 16) :
    runBytes blkStep (.data c [] data.length) (data ++ sync) = (blkInit, [⟨c, data, sync⟩]) := by
  rw [runBytes_append]
  by_cases hn : data.length = 0
  · have : data = [] := List.eq_nil_of_length_eq_zero hn
    subst this
    simp only [runBytes, List.length_nil, List.nil_append]
    rw [blkStep_data_zero]
    have hs := blk_sync_complete c [] sync h
    cases sync with
    | nil => simp at h
    | cons x xs => simp [hs]
  · rw [blk_run_data c data [] data.length (by omega) (by omega)]
    simp [blk_sync_complete c data sync h]

/-- a complete OCF block — count varint, size varint, `size` data bytes, 16 sync bytes — is
decoded to exactly that block, and the decoder is back in its initial state -/
theorem blk_parses_block_lemma (cb sb data sync : Bytes) (c : Nat)
    (hc : vlqLong ⟨0, 0⟩ cb = (.done (c : Int), cb.length))
    (hs : vlqLong ⟨0, 0⟩ sb = (.done (data.length : Int), sb.length))
    (hsync : sync.length = 16) :
    runBytes blkStep blkInit (cb ++ sb ++ data ++ sync) = (blkInit, [⟨c, data, sync⟩]) := by
  have h1 := blk_run_count ⟨0, 0⟩ cb
  rw [hc] at h1; simp only [List.take_length] at h1
  have h2 := blk_run_size ⟨0, 0⟩ c sb
  rw [hs] at h2; simp only [List.take_length] at h2
  rw [List.append_assoc, List.append_assoc, runBytes_append]
  simp only [blkInit, h1, afterCount]
  have : ¬ ((c : Int) < 0) := by omega
  simp only [this, ↓reduceIte, Int.toNat_natCast, List.nil_append]
  rw [runBytes_append, h2]
  simp only [afterSize]
  have : ¬ ((data.length : Int) < 0) := by omega
  simp only [this, ↓reduceIte, Int.toNat_natCast, List.nil_append]
  exact blk_data_then_sync c data sync hsync

/-! ## CSV record decoder -/

/-- `bulkLoop_eq_runBytes` under an invariant on (state, remaining buffer) -/
theorem bulkLoop_eq_runBytes_inv {S B O : Type} (iter : S → List B → S × List O × Nat)
    (step : S → B → S × List O) (Inv : S → List B → Prop)
    (h0 : ∀ s b bs, Inv s (b :: bs) → (iter s (b :: bs)).2.2 = 0 →
      runBytes step s (b :: bs) = ((iter s (b :: bs)).1, (iter s (b :: bs)).2.1))
    (hk : ∀ s b bs, Inv s (b :: bs) → (iter s (b :: bs)).2.2 ≠ 0 →
      runBytes step s ((b :: bs).take (iter s (b :: bs)).2.2) = ((iter s (b :: bs)).1, (iter s (b :: bs)).2.1))
    (hp : ∀ s b bs, Inv s (b :: bs) → (iter s (b :: bs)).2.2 ≠ 0 →
      Inv (iter s (b :: bs)).1 ((b :: bs).drop (iter s (b :: bs)).2.2))
    (s : S) (buf : List B) (hi : Inv s buf) : bulkLoop iter s buf = runBytes step s buf := by
  induction h : buf.length using Nat.strongRecOn generalizing s buf with
  | _ n ih =>
    cases buf with
    | nil => simp [bulkLoop, runBytes]
    | cons b bs =>
      rw [bulkLoop]
      by_cases hz : (iter s (b :: bs)).2.2 = 0
      · simp only [hz, ↓reduceDIte]; exact (h0 s b bs hi hz).symm
      · simp only [hz, ↓reduceDIte]
        have hlen : ((b :: bs).drop (iter s (b :: bs)).2.2).length < n := by
          simp only [List.length_drop, List.length_cons] at *; omega
        rw [ih _ hlen _ _ (hp s b bs hi hz) rfl]
        conv => rhs; rw [← List.take_append_drop (iter s (b :: bs)).2.2 (b :: bs)]
        rw [runBytes_append, hk s b bs hi hz]

theorem csv_err_absorb (cfg : CsvCfg) (s : CsvState) (h : s.err = true) (xs : Bytes) :
    runBytes (csvStep cfg) s xs = (s, []) := by
  induction xs with
  | nil => simp [runBytes]
  | cons x xs ih => simp [runBytes, csvStep, h, ih]

/-- `scan_and_copy`: a run of ordinary bytes inside a field is appended to the field -/
theorem csv_plain_run (cfg : CsvCfg) (s : CsvState) (run : Bytes) (he : s.err = false)
    (hs : s.st = .inField ∨ s.st = .inQuoted) (hr : ∀ c ∈ run, csvPlain c = true) (hne : run ≠ []) :
    runBytes (csvStep cfg) s run = ({ s with hasRead := true, field := s.field ++ run }, []) := by
  induction run generalizing s with
  | nil => exact absurd rfl hne
  | cons x xs ih =>
    have hx := hr x (by simp)
    have hx' : x ≠ 44 ∧ x ≠ 34 ∧ x ≠ 13 ∧ x ≠ 10 := by
      simp [csvPlain] at hx; omega
    have step : csvStep cfg s x = ({ s with hasRead := true, field := s.field ++ [x] }, []) := by
      rcases hs with h | h <;> simp [csvStep, he, h, hx'.1, hx'.2.1, isTerm, hx'.2.2.1, hx'.2.2.2]
    simp only [runBytes, step]
    cases xs with
    | nil => simp [runBytes]
    | cons y ys =>
      rw [ih _ (by simpa using he) (by simpa using hs) (fun c hc => hr c (by simp [hc])) (by simp)]
      simp

def csvInv (s : CsvState) (buf : Bytes) : Prop :=
  s.err = true ∨ s.hasRead = true ∨ ¬ (buf.length ≥ 3 ∧ buf.take 3 = csvBom)

theorem csvFlush_hasRead (s : CsvState) : (csvFlush s).1.hasRead = s.hasRead := by
  unfold csvFlush; repeat' split
  all_goals rfl

theorem csvEndRecord_hasRead (cfg : CsvCfg) (s : CsvState) (st' : CsvSt) :
    (csvEndRecord cfg s st').1.hasRead = s.hasRead := by
  unfold csvEndRecord
  simp only
  repeat' split
  all_goals first | rfl | (rw [csvFlush_hasRead])

theorem csvStartField_hasRead (cfg : CsvCfg) (s : CsvState) (c : Nat) :
    (csvStartField cfg s c).1.hasRead = s.hasRead := by
  unfold csvStartField
  repeat' split
  all_goals first | rfl | (rw [csvEndRecord_hasRead])

theorem csvStartRecord_hasRead (cfg : CsvCfg) (s : CsvState) (c : Nat) :
    (csvStartRecord cfg s c).1.hasRead = s.hasRead := by
  unfold csvStartRecord
  split
  · rfl
  · exact csvStartField_hasRead cfg s c

theorem csvStep_hasRead (cfg : CsvCfg) (s : CsvState) (c : Nat) (he : s.err = false) :
    (csvStep cfg s c).1.hasRead = true := by
  unfold csvStep
  simp only [he, Bool.false_eq_true, ↓reduceIte]
  repeat' split
  all_goals first
    | rfl
    | (rw [csvStartRecord_hasRead])
    | (rw [csvStartField_hasRead])
    | (rw [csvEndRecord_hasRead])

theorem take_takeWhile_length {α : Type} (p : α → Bool) (l : List α) :
    l.take (l.takeWhile p).length = l.takeWhile p := by
  induction l with
  | nil => rfl
  | cons x xs ih =>
    by_cases h : p x
    · simp [h, ih]
    · simp [h]

theorem mem_takeWhile_sat {α : Type} (p : α → Bool) (l : List α) : ∀ c ∈ l.takeWhile p, p c = true := by
  induction l with
  | nil => simp
  | cons x xs ih =>
    by_cases h : p x
    · simp only [List.takeWhile_cons, h, ↓reduceIte, List.mem_cons]
      intro c hc; rcases hc with rfl | hc
      · exact h
      · exact ih c hc
    · simp [h]

theorem csvIter_halt (cfg : CsvCfg) (s : CsvState) (b : Nat) (bs : Bytes)
    (hz : (csvIter cfg s (b :: bs)).2.2 = 0) :
    runBytes (csvStep cfg) s (b :: bs) = ((csvIter cfg s (b :: bs)).1, (csvIter cfg s (b :: bs)).2.1) := by
  unfold csvIter at hz ⊢
  by_cases he : s.err = true
  · simp [he, csv_err_absorb]
  · simp only [he, Bool.false_eq_true, ↓reduceIte] at hz ⊢
    split at hz
    · simp at hz
    · split at hz
      · rename_i h; have := h.2
        change (List.takeWhile csvPlain (b :: bs)).length = 0 at hz; omega
      · simp at hz

theorem csvIter_run (cfg : CsvCfg) (s : CsvState) (b : Nat) (bs : Bytes) (hi : csvInv s (b :: bs))
    (hz : (csvIter cfg s (b :: bs)).2.2 ≠ 0) :
    runBytes (csvStep cfg) s ((b :: bs).take (csvIter cfg s (b :: bs)).2.2) =
      ((csvIter cfg s (b :: bs)).1, (csvIter cfg s (b :: bs)).2.1) := by
  unfold csvIter at hz ⊢
  by_cases he : s.err = true
  · simp [he] at hz
  · have he' : s.err = false := by simpa using he
    simp only [he, Bool.false_eq_true, ↓reduceIte] at hz ⊢
    by_cases hbom : (!s.hasRead) = true ∧ (b :: bs).length ≥ 3 ∧ (b :: bs).take 3 = csvBom
    · exfalso
      rcases hi with h | h | h
      · exact he h
      · simp [h] at hbom
      · exact h hbom.2
    · simp only [hbom, ↓reduceIte] at hz ⊢
      by_cases hrun : (s.st = .inField ∨ s.st = .inQuoted) ∧ ((b :: bs).takeWhile csvPlain).length > 0
      · simp only [hrun, and_self, ↓reduceIte]
        rw [take_takeWhile_length]
        have := csv_plain_run cfg s _ he' hrun.1 (mem_takeWhile_sat csvPlain (b :: bs))
          (by intro h; rw [h] at hrun; simp at hrun)
        rw [this]; simp [he']
      · simp only [hrun, ↓reduceIte, List.take_succ_cons, List.take_zero, runBytes]
        simp

theorem csvIter_inv (cfg : CsvCfg) (s : CsvState) (b : Nat) (bs : Bytes)
    (hz : (csvIter cfg s (b :: bs)).2.2 ≠ 0) : (csvIter cfg s (b :: bs)).1.hasRead = true := by
  unfold csvIter at hz ⊢
  by_cases he : s.err = true
  · simp [he] at hz
  · have he' : s.err = false := by simpa using he
    simp only [he, Bool.false_eq_true, ↓reduceIte] at hz ⊢
    split
    · rfl
    · split
      · rfl
      · exact csvStep_hasRead cfg s b he'

/-- **Refinement (CSV).** -/
theorem csvFeed_eq_runBytes (cfg : CsvCfg) (s : CsvState) (chunk : Bytes) (hi : csvInv s chunk) :
    csvFeed cfg s chunk = runBytes (csvStep cfg) s chunk :=
  bulkLoop_eq_runBytes_inv (csvIter cfg) (csvStep cfg) csvInv
    (fun s b bs _ hz => csvIter_halt cfg s b bs hz)
    (fun s b bs hi hz => csvIter_run cfg s b bs hi hz)
    (fun s b bs _ hz => Or.inr (Or.inl (csvIter_inv cfg s b bs hz))) s chunk hi

theorem csvRun_hasRead (cfg : CsvCfg) (s : CsvState) (xs : Bytes) (hne : xs ≠ []) :
    (runBytes (csvStep cfg) s xs).1.hasRead = true ∨ (runBytes (csvStep cfg) s xs).1.err = true := by
  induction xs generalizing s with
  | nil => exact absurd rfl hne
  | cons x xs ih =>
    simp only [runBytes]
    by_cases he : s.err = true
    · right; have := csv_err_absorb cfg s he (x :: xs); simp only [runBytes] at this
      have h1 := congrArg Prod.fst this; simp only at h1; rw [h1]; exact he
    · have he' : s.err = false := by simpa using he
      have h1 := csvStep_hasRead cfg s x he'
      cases xs with
      | nil => left; simpa [runBytes] using h1
      | cons y ys => exact ih _ (by simp)

theorem csv_runChunks (cfg : CsvCfg) (s : CsvState) (cs : List Bytes)
    (h : csvInv s cs.flatten) :
    runChunks (csvFeed cfg) s cs = runBytes (csvStep cfg) s cs.flatten := by
  induction cs generalizing s with
  | nil => simp [runChunks, runBytes]
  | cons c cs ih =>
    have hc : csvInv s c := by
      rcases h with h | h | h
      · exact Or.inl h
      · exact Or.inr (Or.inl h)
      · refine Or.inr (Or.inr ?_)
        intro hb; apply h
        simp only [List.flatten_cons, List.length_append]
        refine ⟨by omega, ?_⟩
        rw [List.take_append_of_le_length hb.1]; exact hb.2
    have hfeed := csvFeed_eq_runBytes cfg s c hc
    have hnext : csvInv (runBytes (csvStep cfg) s c).1 cs.flatten := by
      by_cases hne : c = []
      · subst hne; simpa [runBytes] using h
      · rcases csvRun_hasRead cfg s c hne with h1 | h1
        · exact Or.inr (Or.inl h1)
        · exact Or.inl h1
    simp only [runChunks, hfeed, List.flatten_cons, runBytes_append]
    rw [ih _ hnext]

/-! ## JSON: the full bulk loop -/

theorem scanAbsorb_nil (s : JState) : scanAbsorb s [] = s := by
  unfold scanAbsorb; split <;> simp [pushBytes_nil]

/-- the bulk scan of any arm equals stepping through the scanned run -/
theorem json_scan_run (cfg : JCfg) (s : JState) (run : Bytes) (he : s.err = none)
    (hr : ∀ b ∈ run, scanPred s b = true) :
    runBytes (jStep cfg) s run = (scanAbsorb s run, []) := by
  cases run with
  | nil => simp [runBytes, scanAbsorb_nil]
  | cons x xs =>
    match hs : s.stack with
    | .string :: rest =>
      have := json_string_run cfg s rest (x :: xs) he hs (fun b hb => by
        have := hr b hb; simp [scanPred, hs] at this; exact this)
      simp [this, scanAbsorb, hs]
    | .number :: rest =>
      have := json_number_run cfg s rest (x :: xs) he hs (fun b hb => by
        have := hr b hb; simpa [scanPred, hs] using this)
      simp [this, scanAbsorb, hs]
    | [] =>
      have := json_skip_run cfg s (x :: xs) he (fun b hb => by
        have := hr b hb; simpa [scanPred, skipsByte, hs] using this)
      simp [this, scanAbsorb, hs]
    | .topLevelList :: rest =>
      have := json_skip_run cfg s (x :: xs) he (fun b hb => by
        have := hr b hb; simpa [scanPred, skipsByte, hs] using this)
      simp [this, scanAbsorb, hs]
    | .object st :: rest =>
      have := json_skip_run cfg s (x :: xs) he (fun b hb => by
        have := hr b hb; simpa [scanPred, skipsByte, hs] using this)
      simp [this, scanAbsorb, hs]
    | .list st :: rest =>
      have := json_skip_run cfg s (x :: xs) he (fun b hb => by
        have := hr b hb; simpa [scanPred, skipsByte, hs] using this)
      simp [this, scanAbsorb, hs]
    | .value :: rest =>
      have := json_skip_run cfg s (x :: xs) he (fun b hb => by
        have := hr b hb; simpa [scanPred, skipsByte, hs] using this)
      simp [this, scanAbsorb, hs]
    | .colon :: rest =>
      have := json_skip_run cfg s (x :: xs) he (fun b hb => by
        have := hr b hb; simpa [scanPred, skipsByte, hs] using this)
      simp [this, scanAbsorb, hs]
    | .escape :: rest => have := hr x (by simp); simp [scanPred, hs] at this
    | .unicode _ _ _ :: rest => have := hr x (by simp); simp [scanPred, hs] at this
    | .literal _ _ :: rest => have := hr x (by simp); simp [scanPred, hs] at this

theorem jIter_halt (cfg : JCfg) (s : JState) (b : Nat) (bs : Bytes)
    (hz : (jIter cfg s (b :: bs)).2.2 = 0) :
    runBytes (jStep cfg) s (b :: bs) = ((jIter cfg s (b :: bs)).1, (jIter cfg s (b :: bs)).2.1) := by
  unfold jIter at hz ⊢
  by_cases he : s.err.isSome = true
  · simp [he, json_err_absorb]
  · simp only [he, Bool.false_eq_true, ↓reduceIte] at hz ⊢
    exfalso
    split at hz
    · rename_i h
      have hl := congrArg List.length h
      simp only [List.length_drop, List.length_cons, List.length_nil] at hl
      simp only at hz
      omega
    · simp at hz

theorem jIter_run (cfg : JCfg) (s : JState) (b : Nat) (bs : Bytes)
    (hz : (jIter cfg s (b :: bs)).2.2 ≠ 0) :
    runBytes (jStep cfg) s ((b :: bs).take (jIter cfg s (b :: bs)).2.2) =
      ((jIter cfg s (b :: bs)).1, (jIter cfg s (b :: bs)).2.1) := by
  unfold jIter at hz ⊢
  by_cases he : s.err.isSome = true
  · simp [he] at hz
  · have he' : s.err = none := by
      cases h : s.err with
      | none => rfl
      | some e => simp [h] at he
    simp only [he, Bool.false_eq_true, ↓reduceIte] at hz ⊢
    have hrun := json_scan_run cfg s ((b :: bs).takeWhile (scanPred s)) he' (mem_takeWhile_sat _ _)
    have hsplit := List.take_append_drop ((b :: bs).takeWhile (scanPred s)).length (b :: bs)
    rw [take_takeWhile_length] at hsplit
    split
    · rename_i h
      simp only
      rw [take_takeWhile_length, hrun]
    · rename_i c rest h
      simp only
      have hb : (b :: bs) = (b :: bs).takeWhile (scanPred s) ++ c :: rest := by
        rw [← h]; exact hsplit.symm
      have htake : (b :: bs).take (((b :: bs).takeWhile (scanPred s)).length + 1) =
          (b :: bs).takeWhile (scanPred s) ++ [c] := by
        conv => lhs; arg 2; rw [hb]
        rw [List.take_length_add_append]; simp
      rw [htake, runBytes_append, hrun]
      simp [runBytes]

/-- **Refinement (JSON), full loop.** -/
theorem jFeedBulk_eq_runBytes (cfg : JCfg) (s : JState) (chunk : Bytes) :
    jFeedBulk cfg s chunk = runBytes (jStep cfg) s chunk :=
  bulkLoop_eq_runBytes (jIter cfg) (jStep cfg) (jIter_halt cfg) (jIter_run cfg) s chunk

/-! ## Avro streaming decoder: decode / flush state machine -/

/-- rows with the schema they were decoded under, in delivery order -/
def avTagged {R : Type} (out : List (Nat × List R)) : List (Nat × R) :=
  out.flatMap (fun b => b.2.map (fun r => (b.1, r)))

/-- rows still buffered, tagged with the active schema -/
def avBuffered {R : Type} (s : AvState R) : List (Nat × R) := s.rows.map (fun r => (s.active.getD 0, r))

/-- a decoder between frames: nothing pending, no error, room in the batch, buffered rows valid -/
structure AvClean {R : Type} (cfg : AvCfg R) (s : AvState R) : Prop where
  noErr : s.err = false
  notAwaiting : s.awaiting = false
  noPending : s.pending = none
  capPos : 0 < s.cap
  capLe : s.cap ≤ cfg.batchSize
  rowsValid : s.rows.all cfg.valid = true
  emptyIff : s.cap = cfg.batchSize → s.rows = []

/-- a well-formed frame for schema `fp`: prefix `p`, then a complete row body -/
structure AvFrame {R : Type} (cfg : AvCfg R) (p body : Bytes) (fp : Nat) (r : R) : Prop where
  pfx : ∀ rest, cfg.pfx (p ++ body ++ rest) = .found fp p.length
  row : cfg.row fp body = .ok body.length r
  known : cfg.known fp = true
  valid : cfg.valid r = true
  pne : p ≠ []
  bne : body ≠ []

theorem avDecode_nil {R : Type} (cfg : AvCfg R) (fuel : Nat) (s : AvState R) : avDecode cfg fuel s [] = (s, 0) := by
  cases fuel <;> simp [avDecode]

theorem avDecode_row {R : Type} (cfg : AvCfg R) (fuel : Nat) (s : AvState R) (body : Bytes) (fp : Nat) (r : R)
    (hb : body ≠ []) (hc : s.cap ≠ 0) (he : s.err = false) (ha : s.awaiting = true) (hact : s.active = some fp)
    (hrow : cfg.row fp body = .ok body.length r) :
    avDecode cfg (fuel + 2) s body =
      ({ s with cap := s.cap - 1, awaiting := false, rows := s.rows ++ [r] }, body.length) := by
  have hbe : body.isEmpty = false := by cases body <;> simp_all
  simp [avDecode, hbe, hc, he, ha, hact, hrow, avDecode_nil]

theorem drop_pfx (p body : Bytes) : (p ++ body).drop p.length = body := by simp

/-- a frame whose schema is already active, or arrives while the batch is empty: decoded whole -/
theorem avDecode_frame_same {R : Type} (cfg : AvCfg R) (fuel : Nat) (s : AvState R) (p body : Bytes) (fp : Nat) (r : R)
    (hc : AvClean cfg s) (hf : AvFrame cfg p body fp r) (hcase : s.active = some fp ∨ s.cap = cfg.batchSize) :
    avDecode cfg (fuel + 3) s (p ++ body) =
      ({ s with active := some fp, cap := s.cap - 1, awaiting := false, rows := s.rows ++ [r] }, p.length + body.length) := by
  have hpb : (p ++ body).isEmpty = false := by have := hf.pne; cases p <;> simp_all
  have hcap : s.cap ≠ 0 := by have := hc.capPos; omega
  have hpfx := hf.pfx []
  simp only [List.append_nil] at hpfx
  rw [avDecode]
  simp only [hpb, hcap, hc.noErr, hc.notAwaiting, Bool.false_eq_true, or_self, ↓reduceIte, hpfx, drop_pfx]
  rcases hcase with hact | hfull
  · simp only [avFingerprint, hact, ↓reduceIte]
    have hnp : (if s.cap = cfg.batchSize then avApplyPending s else s) = s := by
      split
      · simp [avApplyPending, hc.noPending]
      · rfl
    rw [hnp, avDecode_row cfg fuel { s with awaiting := true } body fp r hf.bne hcap hc.noErr rfl hact hf.row]
    all_goals simp [hact, hc.noErr]
  · by_cases hact : s.active = some fp
    · simp only [avFingerprint, hact, ↓reduceIte]
      have hnp : (if s.cap = cfg.batchSize then avApplyPending s else s) = s := by
        simp [avApplyPending, hc.noPending]
      rw [hnp, avDecode_row cfg fuel { s with awaiting := true } body fp r hf.bne hcap hc.noErr rfl hact hf.row]
      all_goals simp [hact, hc.noErr]
    · simp only [avFingerprint, hact, ↓reduceIte, hf.known, hfull, Nat.lt_irrefl]
      simp only [avApplyPending]
      have hbs : cfg.batchSize ≠ 0 := by omega
      rw [avDecode_row cfg fuel _ body fp r hf.bne (by simpa using hbs) (by simpa using hc.noErr) rfl rfl hf.row]
      simp [hfull, hc.noErr, hc.noPending]

/-- a frame of another schema while rows are buffered: only the prefix is consumed, the schema
becomes pending, the capacity drops to 0 (the caller must flush) and the body is awaited -/
theorem avDecode_frame_switch {R : Type} (cfg : AvCfg R) (fuel : Nat) (s : AvState R) (p body : Bytes) (fp : Nat) (r : R)
    (hc : AvClean cfg s) (hf : AvFrame cfg p body fp r) (hact : s.active ≠ some fp) (hlt : s.cap < cfg.batchSize) :
    avDecode cfg (fuel + 2) s (p ++ body) =
      ({ s with pending := some fp, cap := 0, awaiting := true }, p.length) := by
  have hpb : (p ++ body).isEmpty = false := by have := hf.pne; cases p <;> simp_all
  have hcap : s.cap ≠ 0 := by have := hc.capPos; omega
  have hpfx := hf.pfx []
  simp only [List.append_nil] at hpfx
  have hne : s.cap ≠ cfg.batchSize := by omega
  rw [avDecode]
  simp only [hpb, hcap, hc.noErr, hc.notAwaiting, Bool.false_eq_true, or_self, ↓reduceIte, hpfx, drop_pfx,
    avFingerprint, hact, hf.known, hlt]
  have : (0 : Nat) ≠ cfg.batchSize := by omega
  simp [this, avDecode]

/-- what the caller's loop does after the last decode of a frame: the row `r` has just been
appended to a state that is otherwise between frames -/
theorem av_after_row {R : Type} (cfg : AvCfg R) (extra : Bool) (s1 : AvState R)
    (he : s1.err = false) (haw : s1.awaiting = false) (hp : s1.pending = none)
    (hlt : s1.cap < cfg.batchSize) (hv : s1.rows.all cfg.valid = true) :
    ∃ s' out,
      (if s1.cap = 0 then (avFlush cfg s1) else if extra then (avFlush cfg s1) else (s1, [])) = (s', out) ∧
      AvClean cfg s' ∧ avTagged out ++ avBuffered s' = avBuffered s1 := by
  have hne : s1.cap ≠ cfg.batchSize := by omega
  have hbs : 0 < cfg.batchSize := by omega
  have hflush : avFlush cfg s1 = ({ s1 with cap := cfg.batchSize, rows := [] }, [(s1.active.getD 0, s1.rows)]) := by
    simp [avFlush, hne, hv, avApplyPending, hp]
  by_cases h0 : s1.cap = 0
  · refine ⟨{ s1 with cap := cfg.batchSize, rows := [] }, [(s1.active.getD 0, s1.rows)], by simp only [h0, ↓reduceIte]; exact hflush, ⟨he, haw, hp, hbs, Nat.le_refl _, by simp, fun _ => rfl⟩, ?_⟩
    simp [avTagged, avBuffered]
  · by_cases hx : extra = true
    · refine ⟨{ s1 with cap := cfg.batchSize, rows := [] }, [(s1.active.getD 0, s1.rows)], by simp only [h0, hx, ↓reduceIte]; exact hflush, ⟨he, haw, hp, hbs, Nat.le_refl _, by simp, fun _ => rfl⟩, ?_⟩
      simp [avTagged, avBuffered]
    · refine ⟨s1, [], by simp [h0, hx], ⟨he, haw, hp, by omega, by omega, hv, fun h => absurd h hne⟩, ?_⟩
      simp [avTagged]

theorem fuel3 (l : Nat) : 2 * l + 4 = (2 * l + 1) + 3 := by omega
theorem fuel2 (l : Nat) : 2 * l + 4 = (2 * l + 2) + 2 := by omega

/-- **One well-formed frame, any flush flag.** From a decoder between frames, pushing exactly one
frame consumes it entirely, leaves the decoder between frames, and delivers-or-buffers exactly the
old buffered rows followed by the new row under the frame's schema — whether or not the frame
switches the schema while rows are buffered (the forced flush) and whether or not the caller
flushes afterwards. -/
theorem avPush_frame {R : Type} (cfg : AvCfg R) (extra : Bool) (fuel : Nat) (s : AvState R) (p body : Bytes)
    (fp : Nat) (r : R) (acc : List (Nat × List R)) (hc : AvClean cfg s) (hf : AvFrame cfg p body fp r) :
    ∃ s' out, avPush cfg extra (fuel + 2) (s, p ++ body) acc = ((s', []), acc ++ out) ∧
      AvClean cfg s' ∧ avTagged out ++ avBuffered s' = avBuffered s ++ [(fp, r)] := by
  by_cases hcase : s.active = some fp ∨ s.cap = cfg.batchSize
  · -- decoded in one go
    have hd := avDecode_frame_same cfg (2 * (p ++ body).length + 1) s p body fp r hc hf hcase
    rw [← fuel3] at hd
    obtain ⟨s', out, hif, hcl, htag⟩ := av_after_row cfg extra
      { s with active := some fp, cap := s.cap - 1, awaiting := false, rows := s.rows ++ [r] }
      hc.noErr rfl hc.noPending (by have := hc.capPos; have := hc.capLe; simp; omega)
      (by simp [List.all_append, hc.rowsValid, hf.valid])
    refine ⟨s', out, ?_, hcl, ?_⟩
    · rw [avPush]
      simp only [hd]
      have hdrop : (p ++ body).drop (p.length + body.length) = [] := by simp
      rw [hdrop]
      simp only [hc.noErr, Bool.false_eq_true, ↓reduceIte, List.isEmpty_nil, Bool.true_or] at hif ⊢
      by_cases h0 : s.cap - 1 = 0
      · simp only [h0, ↓reduceIte] at hif ⊢
        rw [hif]
      · simp only [h0, ↓reduceIte] at hif ⊢
        by_cases hx : extra = true
        · simp only [hx, ↓reduceIte] at hif ⊢
          rw [hif]
        · simp only [hx, Bool.false_eq_true, ↓reduceIte] at hif ⊢
          simp only [Prod.mk.injEq] at hif
          rw [← hif.1, ← hif.2]; simp
    · rw [htag]
      rcases hcase with hact | hfull
      · simp [avBuffered, hact]
      · simp [avBuffered, hc.emptyIff hfull]
  · -- schema switch with rows buffered: forced flush, then the body
    have hact : s.active ≠ some fp := fun h => hcase (Or.inl h)
    have hlt : s.cap < cfg.batchSize := by
      have := hc.capLe; have : s.cap ≠ cfg.batchSize := fun h => hcase (Or.inr h); omega
    have hbs : 0 < cfg.batchSize := by omega
    have hd := avDecode_frame_switch cfg (2 * (p ++ body).length + 2) s p body fp r hc hf hact hlt
    rw [← fuel2] at hd
    -- the state after the forced flush: new schema active, empty batch, body awaited
    let s2 : AvState R := { s with active := some fp, pending := none, cap := cfg.batchSize, rows := [], awaiting := true }
    have hfl : avFlush cfg { s with pending := some fp, cap := 0, awaiting := true } = (s2, [(s.active.getD 0, s.rows)]) := by
      have : (0 : Nat) ≠ cfg.batchSize := by omega
      simp [avFlush, this, hc.rowsValid, avApplyPending, s2]
    have hd2 := avDecode_row cfg (2 * body.length + 2) s2 body fp r hf.bne (by simp [s2]; omega) hc.noErr rfl rfl hf.row
    rw [← fuel2] at hd2
    obtain ⟨s', out, hif, hcl, htag⟩ := av_after_row cfg extra
      { s2 with cap := s2.cap - 1, awaiting := false, rows := s2.rows ++ [r] }
      hc.noErr rfl rfl (by simp [s2]; omega) (by simp [s2, hf.valid])
    refine ⟨s', (s.active.getD 0, s.rows) :: out, ?_, hcl, ?_⟩
    · have hbe : body.isEmpty = false := by have := hf.bne; cases body <;> simp_all
      rw [avPush]
      simp only [hd, hc.noErr, Bool.false_eq_true, ↓reduceIte, drop_pfx, hfl, hbe, Bool.or_self]
      have hfl' := hfl
      simp only [hc.noErr] at hfl'
      have he2 : s2.err = false := hc.noErr
      simp only [hfl', he2, Bool.or_self, Bool.false_eq_true, ↓reduceIte]
      rw [avPush]
      simp only [hd2, List.drop_length, he2, Bool.false_eq_true, ↓reduceIte, List.isEmpty_nil, Bool.true_or] at hif ⊢
      by_cases h0 : s2.cap - 1 = 0
      · simp only [h0, ↓reduceIte] at hif ⊢
        rw [hif]; simp
      · simp only [h0, ↓reduceIte] at hif ⊢
        by_cases hx : extra = true
        · simp only [hx, ↓reduceIte] at hif ⊢
          rw [hif]; simp
        · simp only [hx, Bool.false_eq_true, ↓reduceIte] at hif ⊢
          simp only [Prod.mk.injEq] at hif
          rw [← hif.1, ← hif.2]
    · have : avTagged ((s.active.getD 0, s.rows) :: out) = avBuffered s ++ avTagged out := by
        simp [avTagged, avBuffered]
      rw [this, List.append_assoc, htag]
      simp [avBuffered, s2]

/-- the caller's schedule over frame-aligned chunks: chunk `i` is pushed (appended to the rolling
buffer) with its own "flush afterwards" flag -/
def avSchedule {R : Type} (cfg : AvCfg R) (fuel : Nat) :
    (AvState R × Bytes) × List (Nat × List R) → List (Bytes × Bool) → (AvState R × Bytes) × List (Nat × List R)
  | st, [] => st
  | st, (c, fl) :: rest => avSchedule cfg fuel (avPush cfg fl (fuel + 2) (st.1.1, st.1.2 ++ c) st.2) rest

theorem avFlush_clean {R : Type} (cfg : AvCfg R) (s : AvState R) (hc : AvClean cfg s) :
    avTagged (avFlush cfg s).2 = avBuffered s ∧ (avFlush cfg s).1.err = false := by
  by_cases h : s.cap = cfg.batchSize
  · simp [avFlush, h, avTagged, avBuffered, hc.emptyIff h, avApplyPending, hc.noPending, hc.noErr]
  · simp [avFlush, h, hc.rowsValid, avTagged, avBuffered, avApplyPending, hc.noPending, hc.noErr]

theorem avSchedule_frames {R : Type} (cfg : AvCfg R) (fuel : Nat)
    (frames : List (Bytes × Bytes × Nat × R)) (flags : List Bool) (hlen : flags.length = frames.length)
    (hf : ∀ f ∈ frames, AvFrame cfg f.1 f.2.1 f.2.2.1 f.2.2.2)
    (s : AvState R) (acc : List (Nat × List R)) (hc : AvClean cfg s) :
    ∃ s' out, avSchedule cfg fuel ((s, []), acc) ((frames.map (fun f => f.1 ++ f.2.1)).zip flags) = ((s', []), acc ++ out) ∧
      AvClean cfg s' ∧
      avTagged out ++ avBuffered s' = avBuffered s ++ frames.map (fun f => (f.2.2.1, f.2.2.2)) := by
  induction frames generalizing flags s acc with
  | nil => exact ⟨s, [], by simp [avSchedule], hc, by simp [avTagged]⟩
  | cons f fs ih =>
    cases flags with
    | nil => simp at hlen
    | cons fl fls =>
      obtain ⟨s1, out1, h1, hc1, ht1⟩ := avPush_frame cfg fl fuel s f.1 f.2.1 f.2.2.1 f.2.2.2 acc hc (hf f (by simp))
      obtain ⟨s2, out2, h2, hc2, ht2⟩ := ih fls (by simpa using hlen) (fun g hg => hf g (by simp [hg])) s1 (acc ++ out1) hc1
      refine ⟨s2, out1 ++ out2, ?_, hc2, ?_⟩
      · simp only [List.map_cons, List.zip_cons_cons, avSchedule, List.nil_append, h1, h2, List.append_assoc]
      · have : avTagged (out1 ++ out2) = avTagged out1 ++ avTagged out2 := by simp [avTagged]
        rw [this, List.append_assoc, ht2, ← List.append_assoc, ht1]
        simp
end ArrowModel.C14
