/-
C14 specification: what "independent of how the input is chunked" means.

A push decoder is a state machine that is handed consecutive chunks of one byte sequence.
The property appeals to three naive notions, defined here over lists:

* `runBytes step`   — the reference semantics: feed the bytes one at a time;
* `runChunks feed`  — what a producer does: hand over an arbitrary list of chunks
                      (empty chunks allowed) and concatenate what comes out;
* `oneShot`         — the pull reader: the decoder given the whole input at once.

plus the naive value-level definitions the wire formats refer to (little-endian u32,
base-128 varint value, zig-zag).  Import-free.
-/
namespace ArrowModel.C14

/-- Reference semantics of a byte-at-a-time transducer: the final state and all outputs in order. -/
def runBytes {S B O : Type} (step : S → B → S × List O) : S → List B → S × List O
  | s, [] => (s, [])
  | s, b :: bs =>
    let r := step s b
    let r2 := runBytes step r.1 bs
    (r2.1, r.2 ++ r2.2)

/-- A producer hands the decoder a list of chunks (some may be empty); outputs are concatenated. -/
def runChunks {S B O : Type} (feed : S → List B → S × List O) : S → List (List B) → S × List O
  | s, [] => (s, [])
  | s, c :: cs =>
    let r := feed s c
    let r2 := runChunks feed r.1 cs
    (r2.1, r.2 ++ r2.2)

/-- What a user of a push decoder observes after the producer is done: everything emitted, in
order, and the verdict of the end-of-input call (`finish`/final `flush`). -/
def observe {S O R : Type} (fin : S → R) (r : S × List O) : List O × R := (r.2, fin r.1)

/-- A partition of `xs` into consecutive chunks (empty chunks allowed). -/
def IsPartition {B : Type} (cs : List (List B)) (xs : List B) : Prop := cs.flatten = xs

/-- all `2^(n-1)` partitions of a non-empty list into non-empty consecutive chunks -/
def partitions {B : Type} : List B → List (List (List B))
  | [] => [[]]
  | [x] => [[[x]]]
  | x :: y :: rest =>
    let ps := partitions (y :: rest)
    ps.map (fun p => [x] :: p) ++ ps.map (fun p => match p with
      | [] => [[x]]
      | c :: cs => (x :: c) :: cs)

/-- little-endian value of a byte string -/
def leVal : List Nat → Nat
  | [] => 0
  | b :: bs => b + 256 * leVal bs

/-- value of a base-128 varint payload: 7-bit groups, least significant group first -/
def varintVal : List Nat → Nat
  | [] => 0
  | b :: bs => b % 128 + 128 * varintVal bs

/-- zig-zag decoding: 0,1,2,3,4,… ↦ 0,-1,1,-2,2,… -/
def zigzag (v : Nat) : Int :=
  if v % 2 = 0 then ((v / 2 : Nat) : Int) else -((v / 2 : Nat) : Int) - 1

/-- zig-zag encoding of an integer as a natural number (the inverse of `zigzag`) -/
def zigzagEnc (i : Int) : Nat :=
  if 0 ≤ i then 2 * i.toNat else 2 * (-i - 1).toNat + 1

/-- varint encoding (the writer side; used only to state round-trip facts) -/
def varintEnc (fuel : Nat) (v : Nat) : List Nat :=
  match fuel with
  | 0 => [v % 128]
  | fuel + 1 => if v < 128 then [v] else (v % 128 + 128) :: varintEnc fuel (v / 128)

/-! ### IPC stream framing, as a one-shot parse of the whole byte sequence
(the pull reader `StreamReader`: length prefix, optional continuation marker, metadata,
body; a zero length or the end of the bytes at a message boundary ends the stream). -/

/-- result of reading the whole stream at once -/
inductive FrameEnd
  | eos            -- explicit end-of-stream marker (zero length)
  | clean          -- input ended exactly at a message boundary
  | truncated      -- input ended inside a prefix / metadata / body
  | badMeta        -- metadata rejected by the flatbuffer layer
  deriving DecidableEq, Repr

/-- One-shot framing: returns the `(metadata, body)` pairs in order, how the parse ended and the
unread bytes after an end-of-stream marker.  `marker` is the 4-byte continuation marker and
`parseMeta` the flatbuffer layer's body-length function.  `fuel` bounds the number of
messages (any value ≥ the input length suffices). -/
def frames (marker : List Nat) (parseMeta : List Nat → Option Nat) :
    Nat → List Nat → List (List Nat × List Nat) × FrameEnd × List Nat
  | 0, _ => ([], .truncated, [])
  | fuel + 1, xs =>
    if xs = [] then ([], .clean, []) else
    if xs.length < 4 then ([], .truncated, []) else
    let (pre, rest) := if xs.take 4 = marker then (xs.drop 4 |>.take 4, xs.drop 8) else (xs.take 4, xs.drop 4)
    if pre.length < 4 then ([], .truncated, []) else
    let size := leVal pre
    if size = 0 then ([], .eos, rest) else
    if rest.length < size then ([], .truncated, []) else
    let md := rest.take size
    match parseMeta md with
    | none => ([], .badMeta, [])
    | some bl =>
      let rest2 := rest.drop size
      if rest2.length < bl then ([], .truncated, []) else
      let r := frames marker parseMeta fuel (rest2.drop bl)
      ((md, rest2.take bl) :: r.1, r.2)

end ArrowModel.C14
