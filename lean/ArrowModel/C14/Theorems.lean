import ArrowModel.C14.Lemmas
/-
C14 property statements: incremental decoders are independent of how the input is chunked.

Shape of the argument (DESIGN.md §4 C14):
  (1) refinement — the bulk code path of a decoder (`…Feed`, built from one function per Rust
      loop iteration) equals feeding the bytes one at a time (`runBytes …Step`);
  (2) hence every partition of the same bytes into chunks — empty chunks included — gives
      the same outputs in the same order, the same final state, and so the same verdict of
      the end-of-input call;
  (3) the one-shot reader is the decoder fed the whole input as one chunk.
-/
namespace ArrowModel.C14
open ArrowModel.Generated.C14

/-! ## Generic theorems (any decoder) -/

/-- **Chunking independence, generic.**  If a decoder's chunk-feeding function `feed` is
refined by a byte-at-a-time transducer `step`, then for *every* list of chunks `cs` — any
number of chunks, any sizes, empty chunks anywhere — handing the chunks over one by one
produces exactly the outputs (same order) and the final state of handing over the
concatenation as a single chunk. -/
theorem chunking_independent {S B O : Type} (step : S → B → S × List O)
    (feed : S → List B → S × List O) (h : ∀ s c, feed s c = runBytes step s c)
    (s : S) (cs : List (List B)) (xs : List B) (hp : IsPartition cs xs) :
    runChunks feed s cs = feed s xs := by
  rw [runChunks_eq_flatten step feed h, h, hp]

/-- Any two ways of cutting the same bytes are indistinguishable, including through the
end-of-input verdict `fin` (`finish()` / last `flush()`): same rows, same order, same ok/err. -/
theorem chunking_independent_observe {S B O R : Type} (step : S → B → S × List O)
    (feed : S → List B → S × List O) (h : ∀ s c, feed s c = runBytes step s c) (fin : S → R)
    (s : S) (cs cs' : List (List B)) (hp : cs.flatten = cs'.flatten) :
    observe fin (runChunks feed s cs) = observe fin (runChunks feed s cs') := by
  rw [runChunks_eq_flatten step feed h, runChunks_eq_flatten step feed h, hp]

/-- The one-shot reader (whole input as one chunk) equals the push decoder fed one byte at a
time — the two extreme partitions. -/
theorem oneShot_eq_bytewise {S B O : Type} (step : S → B → S × List O)
    (feed : S → List B → S × List O) (h : ∀ s c, feed s c = runBytes step s c)
    (s : S) (xs : List B) :
    feed s xs = runChunks feed s (xs.map fun b => [b]) := by
  rw [runChunks_eq_flatten step feed h, h]
  congr 1
  induction xs with
  | nil => rfl
  | cons x xs ih => simp [← ih]

/-- Empty chunks are invisible: `decode(&[])` between any two chunks changes nothing. -/
theorem empty_chunks_invisible {S B O : Type} (step : S → B → S × List O)
    (feed : S → List B → S × List O) (h : ∀ s c, feed s c = runBytes step s c)
    (s : S) (cs : List (List B)) :
    runChunks feed s (cs.filter fun c => !c.isEmpty) = runChunks feed s cs := by
  rw [runChunks_eq_flatten step feed h, runChunks_eq_flatten step feed h]
  congr 1
  induction cs with
  | nil => rfl
  | cons c cs ih =>
    cases c with
    | nil => simpa using ih
    | cons x c => simp [ih]

/-- The refinement principle used for every decoder below: a loop around an iteration
function that consumes `k` bytes at a time is a byte-at-a-time machine as soon as *each
iteration* equals stepping through the `k` bytes it consumed (bulk copies, `memchr` skips,
zero-copy slices), and a halted iteration (`k = 0`: error return) leaves a state that
swallows all further bytes silently. -/
theorem bulk_refines_bytewise {S B O : Type} (iter : S → List B → S × List O × Nat)
    (step : S → B → S × List O)
    (h0 : ∀ s b bs, (iter s (b :: bs)).2.2 = 0 →
      runBytes step s (b :: bs) = ((iter s (b :: bs)).1, (iter s (b :: bs)).2.1))
    (hk : ∀ s b bs, (iter s (b :: bs)).2.2 ≠ 0 →
      runBytes step s ((b :: bs).take (iter s (b :: bs)).2.2) =
        ((iter s (b :: bs)).1, (iter s (b :: bs)).2.1))
    (s : S) (buf : List B) : bulkLoop iter s buf = runBytes step s buf :=
  bulkLoop_eq_runBytes iter step h0 hk s buf

/-- the harness's exhaustive enumeration `partitions xs` really consists of partitions of `xs` -/
theorem partitions_are_partitions {B : Type} (xs : List B) :
    ∀ p ∈ partitions xs, IsPartition p xs := by
  induction xs with
  | nil => intro p hp; simp [partitions] at hp; subst hp; rfl
  | cons x xs ih =>
    cases xs with
    | nil => intro p hp; simp [partitions] at hp; subst hp; rfl
    | cons y rest =>
      intro p hp
      simp only [partitions, List.mem_append, List.mem_map] at hp
      rcases hp with ⟨q, hq, rfl⟩ | ⟨q, hq, rfl⟩
      · have := ih q hq; simp only [IsPartition] at this ⊢; simp [this]
      · have := ih q hq
        cases q with
        | nil => simp [IsPartition] at this
        | cons c cs => simp only [IsPartition] at this ⊢; simp [← this]

example : partitions [1, 2, 3] = [[[1], [2], [3]], [[1], [2, 3]], [[1, 2], [3]], [[1, 2, 3]]] := by decide


/-! ## IPC `StreamDecoder` -/

section ipc
variable {P O : Type}

/-- **Refinement (IPC).** `StreamDecoder::decode` driven by the documented caller loop — header
bytes copied `min(buffer.len(), 4 - read)` at a time, metadata and body either sliced
zero-copy out of the chunk or accumulated in the scratch buffer — is the byte-at-a-time
machine `ipcStep`, for every flatbuffer layer `pr` and every state. -/
theorem ipc_refinement (pr : IpcParams P O) (s : IpcState P) (chunk : Bytes) :
    ipcFeed pr s chunk = runBytes (ipcStep pr) s chunk :=
  ipcFeed_eq_runBytes pr s chunk

/-- **Chunking independence (IPC).** For every partition of the stream bytes the decoder emits
the same record batches in the same order, ends in the same state (same schema/dictionaries
`ctx`), and `finish()` (or the first, sticky, error) gives the same verdict as for the whole
stream in one buffer. -/
theorem ipc_chunking_independent (pr : IpcParams P O) (ctx : P) (cs : List Bytes) (xs : Bytes)
    (hp : IsPartition cs xs) :
    observe ipcFinish (runChunks (ipcFeed pr) (ipcInit ctx) cs) =
      observe ipcFinish (ipcFeed pr (ipcInit ctx) xs) := by
  rw [chunking_independent (ipcStep pr) (ipcFeed pr) (ipc_refinement pr) _ cs xs hp]

/-- Same statement from any intermediate state (a decoder that has already seen some chunks). -/
theorem ipc_chunking_independent_state (pr : IpcParams P O) (s : IpcState P) (cs : List Bytes) :
    runChunks (ipcFeed pr) s cs = ipcFeed pr s cs.flatten :=
  chunking_independent (ipcStep pr) (ipcFeed pr) (ipc_refinement pr) s cs _ rfl

/-- Errors are sticky and silent: after the first error no chunking can make the decoder emit
anything more or change the verdict. -/
theorem ipc_error_sticky (pr : IpcParams P O) (e : IpcErr) (ctx : P) (cs : List Bytes) :
    runChunks (ipcFeed pr) ⟨.failed e, ctx⟩ cs = (⟨.failed e, ctx⟩, []) := by
  rw [ipc_chunking_independent_state, ipc_refinement, ipc_failed_absorb]

/-- Bytes after the end-of-stream marker are an error in every chunking (never silently
ignored in one chunking and rejected in another). -/
theorem ipc_data_after_eos (pr : IpcParams P O) (ctx : P) (b : Nat) (bs : Bytes) :
    ipcFeed pr ⟨.finished, ctx⟩ (b :: bs) = (⟨.failed .eosData, ctx⟩, []) := by
  rw [ipc_refinement]; simp [runBytes, ipcStep, ipcStepNoBody, ipc_failed_absorb]

/-- **A message with an empty body is dispatched as soon as its metadata is complete.** The
decoder does not wait for a further byte (`while !buffer.is_empty() || pending empty body`):
a stream that ends — legally, without EOS marker — right after a schema or a zero-row batch
delivers it, as the one-shot reader does, and `finish()` then succeeds. -/
theorem ipc_empty_body_dispatched (pr : IpcParams P O) (ctx : P) (md : Bytes)
    (hmd : 0 < md.length) (hp : pr.parseMeta md = some 0) :
    ipcFeed pr ⟨.message md.length [], ctx⟩ md = bodyDone pr ctx md [] := by
  rw [ipc_refinement, ipc_run_message pr ctx md.length md [] (by simpa using hmd) (by simp)]
  simp [messageDone, hp]

example : ipcMarker = [255, 255, 255, 255] := by decide

/-- non-trivial instance: marker + length 2 + 2 metadata bytes + 1 body byte, cut three ways -/
example :
    let pr : IpcParams Unit (Bytes × Bytes) := ⟨fun _ => some 1, fun _ m b => .ok ((), [(m, b)])⟩
    let xs := [255, 255, 255, 255, 2, 0, 0, 0, 7, 8, 9]
    observe ipcFinish (runChunks (ipcFeed pr) (ipcInit ()) [[255, 255], [], [255, 255, 2, 0, 0], [0, 7, 8, 9]])
      = observe ipcFinish (ipcFeed pr (ipcInit ()) xs) :=
  ipc_chunking_independent _ _ _ _ rfl

end ipc

/-! ## Avro `VLQDecoder` and `BlockDecoder` -/

/-- **Refinement (Avro block decoder).** `BlockDecoder::decode` (+ the `flush` that follows it in
`Reader::read`): varints consumed by `VLQDecoder::long`, block data copied
`min(bytes_remaining, buf.len())` at a time, the 16 byte sync marker filled from offset
`16 - bytes_remaining` — equals the byte-at-a-time machine `blkStep`. -/
theorem blk_refinement (s : BlkState) (chunk : Bytes) :
    blkFeed s chunk = runBytes blkStep s chunk :=
  blkFeed_eq_runBytes s chunk

/-- **Chunking independence (Avro OCF blocks).** Whatever sizes `fill_buf` returns, the same
blocks (count, data, sync marker) come out in the same order and the decoder ends in the same
state (so the same error, or the same partial block). -/
theorem blk_chunking_independent (cs : List Bytes) (xs : Bytes) (hp : IsPartition cs xs) :
    runChunks blkFeed blkInit cs = blkFeed blkInit xs :=
  chunking_independent blkStep blkFeed blk_refinement _ cs xs hp

theorem blk_chunking_independent_state (s : BlkState) (cs : List Bytes) :
    runChunks blkFeed s cs = blkFeed s cs.flatten :=
  chunking_independent blkStep blkFeed blk_refinement s cs _ rfl

/-- `VLQDecoder::long` resumed on a second buffer continues exactly where the first buffer
stopped: a varint cut anywhere decodes to the same value / error, and the total number of
bytes consumed is the same. -/
theorem vlq_chunking (v v' : Vlq) (xs ys : Bytes) (h : (vlqLong v xs).1 = .more v') :
    vlqLong v (xs ++ ys) = ((vlqLong v' ys).1, xs.length + (vlqLong v' ys).2) := by
  induction xs generalizing v with
  | nil => simp [vlqLong] at h; subst h; simp
  | cons x xs ih =>
    simp only [List.cons_append, vlqLong] at h ⊢
    cases hb : vlqByte v x with
    | more w => simp only [hb] at h ⊢; rw [ih w h]; simp; omega
    | done y => simp [hb] at h
    | err => simp [hb] at h

/-- …and a varint that is complete (or in error) inside the first buffer is unaffected by what
follows. -/
theorem vlq_complete_prefix (v : Vlq) (xs ys : Bytes) (h : ∀ v', (vlqLong v xs).1 ≠ .more v') :
    vlqLong v (xs ++ ys) = vlqLong v xs := by
  induction xs generalizing v with
  | nil => simp [vlqLong] at h
  | cons x xs ih =>
    simp only [List.cons_append, vlqLong] at h ⊢
    cases hb : vlqByte v x with
    | more w => simp only [hb] at h ⊢; rw [ih w h]
    | done y => simp
    | err => simp

example : (vlqLong ⟨0, 0⟩ [0x80 + 22, 0x03]).1 = .done 203 := by decide

/-- **The varint decoder computes the Avro value.** From the initial state, `n ≤ 9`
continuation bytes (high bit set) followed by a terminator decode — however the bytes are
split across `long()` calls, by `vlq_chunking` — to the zig-zag decoding of the base-128 value
of the whole sequence; a 10-byte varint is accepted exactly when its last byte is 0 or 1. -/
theorem vlq_decodes_varint (xs : Bytes) (t : Nat) (hxs : ∀ b ∈ xs, 128 ≤ b ∧ b < 256) (ht : t < 128)
    (hlen : xs.length ≤ 8 ∨ (xs.length = 9 ∧ t < 2)) :
    vlqLong ⟨0, 0⟩ (xs ++ [t]) = (.done (zigzag (varintVal (xs ++ [t]))), xs.length + 1) := by
  have := vlqLong_value ⟨0, 0⟩ 0 xs t vlq_inv_init hxs ht (by omega)
  simpa using this

/-- **No `u64` overflow in `in_progress`.** In every reachable state the accumulator is below
`2^63` and the shift at most 63 (so `<< self.shift` never shifts out of range), and a completed
value is below `2^64`: the guard `shift == 63 && byte >= 0x02` is exactly strong enough. -/
theorem vlq_accumulator_fits_u64 (v : Vlq) (k b : Nat) (h : VlqInv v k) (hb : b < 256) :
    v.acc < 2 ^ 63 ∧ v.shift ≤ 63 ∧
    (∀ v', vlqByte v b = .more v' → VlqInv v' (k + 1)) ∧
    (∀ x, vlqByte v b = .done x → v.acc + (b % 128) * 2 ^ (7 * k) < 2 ^ 64) :=
  ⟨(vlq_inv_fits v k h).1, (vlq_inv_fits v k h).2,
   fun v' hv => (vlq_step_more v v' k b h hb hv).1,
   fun x hx => (vlq_step_done v k b x h hb hx).2⟩

/-- An eleventh group is never read: after nine continuation bytes any byte ≥ 2 is an error. -/
theorem vlq_overlong_rejected (v : Vlq) (b : Nat) (h : VlqInv v 9) (hb : 2 ≤ b) :
    vlqByte v b = .err := vlqByte_overlong v b h hb

/-- zig-zag decoding inverts zig-zag encoding -/
theorem zigzag_roundtrip (i : Int) : zigzag (zigzagEnc i) = i := by
  unfold zigzag zigzagEnc
  by_cases h : 0 ≤ i
  · simp only [h, ↓reduceIte]
    have : 2 * i.toNat % 2 = 0 := by omega
    simp only [this, ↓reduceIte]
    omega
  · simp only [h, ↓reduceIte]
    have : (2 * (-i - 1).toNat + 1) % 2 ≠ 0 := by omega
    simp only [this, ↓reduceIte]
    omega

example : vlqLong ⟨0, 0⟩ ([0xFF, 0xFF, 0xFF, 0xFF, 0xFF, 0xFF, 0xFF, 0xFF, 0xFF] ++ [1]) =
    (.done (-9223372036854775808), 10) := by decide

/-- **A complete OCF block is decoded to exactly that block.** Count varint, size varint,
`size` data bytes and the 16 sync bytes (`AVRO_SYNC_LEN`, offset `16 - bytes_remaining`) in
*any* chunking (by `blk_chunking_independent`) yield the block `(count, data, sync)` and leave
the decoder in its initial state, ready for the next block. -/
theorem blk_parses_block (cb sb data sync : Bytes) (c : Nat) (cs : List Bytes)
    (hc : vlqLong ⟨0, 0⟩ cb = (.done (c : Int), cb.length))
    (hs : vlqLong ⟨0, 0⟩ sb = (.done (data.length : Int), sb.length))
    (hsync : sync.length = 16) (hp : IsPartition cs (cb ++ sb ++ data ++ sync)) :
    runChunks blkFeed blkInit cs = (blkInit, [⟨c, data, sync⟩]) := by
  rw [blk_chunking_independent cs _ hp, blk_refinement]
  exact blk_parses_block_lemma cb sb data sync c hc hs hsync

example : runChunks blkFeed blkInit [[4, 6, 1], [2, 3, 9, 9, 9, 9, 9, 9, 9, 9], [], [9, 9, 9, 9, 9, 9, 9, 9]] =
    (blkInit, [⟨2, [1, 2, 3], List.replicate 16 9⟩]) :=
  blk_parses_block [4] [6] [1, 2, 3] (List.replicate 16 9) 2 _ (by decide) (by decide) (by decide) (by simp [IsPartition])

/-! ## JSON `TapeDecoder` / `Decoder` -/

/-- **Chunking independence (JSON).** The JSON decoder model (`TapeDecoder::decode` read one byte
at a time, `flush` whenever a new row would exceed the batch size) fed any partition of the
input emits the same batches (same tape: elements, string bytes, offsets, row count) in the
same order, ends in the same state, and the final `flush()` gives the same last batch and the
same ok / `decode` error / `flush` error verdict. -/
theorem json_chunking_independent (cfg : JCfg) (cs : List Bytes) (xs : Bytes) (hp : IsPartition cs xs) :
    observe (jFinish cfg) (runChunks (jFeed cfg) jInit cs) = observe (jFinish cfg) (jFeed cfg jInit xs) := by
  rw [chunking_independent (jStep cfg) (jFeed cfg) (fun _ _ => rfl) _ cs xs hp]

theorem json_chunking_independent_state (cfg : JCfg) (s : JState) (cs : List Bytes) :
    runChunks (jFeed cfg) s cs = jFeed cfg s cs.flatten :=
  chunking_independent (jStep cfg) (jFeed cfg) (fun _ _ => rfl) s cs _ rfl

/-- **No emitted batch exceeds the batch size** (for `batch_size ≥ 1`), in any chunking: every
batch flushed mid-stream and the batch of the final `flush()` has at most `batch_size` rows. -/
theorem json_batch_size_bound (cfg : JCfg) (hb : 1 ≤ cfg.batchSize) (cs : List Bytes) :
    (∀ t ∈ (runChunks (jFeed cfg) jInit cs).2, t.curRow ≤ cfg.batchSize) ∧
    (∀ t ∈ (jFinish cfg (runChunks (jFeed cfg) jInit cs).1).1, t.curRow ≤ cfg.batchSize) := by
  rw [json_chunking_independent_state]
  have h := jRun_curRow cfg hb jInit cs.flatten (by simp [jInit, Tape.empty])
  refine ⟨h.2, ?_⟩
  intro t ht
  simp only [jFeed] at ht
  generalize (runBytes (jStep cfg) jInit cs.flatten).1 = s at h ht
  have hf := jFlush_curRow cfg s cfg.batchSize h.1
  unfold jFinish at ht
  repeat' split at ht
  all_goals first | exact hf.2 t ht | simp at ht

/-- Errors are sticky (JSON): after a syntax or flush error nothing more is emitted. -/
theorem json_error_sticky (cfg : JCfg) (s : JState) (h : s.err.isSome) (cs : List Bytes) :
    runChunks (jFeed cfg) s cs = (s, []) := by
  rw [json_chunking_independent_state]; exact json_err_absorb cfg s h _

/-- **Refinement (JSON), full loop.** `TapeDecoder::decode` as written — every round of
`while !iter.is_empty()` first scans a run of bytes in bulk (`skip_chrs`/`memchr2` in `String`,
`advance_until` in `Number`, whitespace / comma skipping in the value, colon, object, list and
top-level arms) and then handles the byte that stopped the scan; `flush` when a new row would
exceed the batch size — equals the byte-at-a-time machine `jStep`, for every state and chunk. -/
theorem json_refinement (cfg : JCfg) (s : JState) (chunk : Bytes) :
    jFeedBulk cfg s chunk = runBytes (jStep cfg) s chunk :=
  jFeedBulk_eq_runBytes cfg s chunk

/-- **Chunking independence (JSON), for the bulk loop.** -/
theorem json_bulk_chunking_independent (cfg : JCfg) (cs : List Bytes) (xs : Bytes) (hp : IsPartition cs xs) :
    observe (jFinish cfg) (runChunks (jFeedBulk cfg) jInit cs) = observe (jFinish cfg) (jFeedBulk cfg jInit xs) := by
  rw [chunking_independent (jStep cfg) (jFeedBulk cfg) (json_refinement cfg) _ cs xs hp]

/-- the bulk loop never emits a batch above the batch size either -/
theorem json_bulk_batch_size_bound (cfg : JCfg) (hb : 1 ≤ cfg.batchSize) (cs : List Bytes) :
    (∀ t ∈ (runChunks (jFeedBulk cfg) jInit cs).2, t.curRow ≤ cfg.batchSize) ∧
    (∀ t ∈ (jFinish cfg (runChunks (jFeedBulk cfg) jInit cs).1).1, t.curRow ≤ cfg.batchSize) := by
  have e : runChunks (jFeedBulk cfg) jInit cs = runChunks (jFeed cfg) jInit cs := by
    rw [chunking_independent (jStep cfg) (jFeedBulk cfg) (json_refinement cfg) _ cs _ rfl,
        json_chunking_independent_state, json_refinement]; rfl
  rw [e]; exact json_batch_size_bound cfg hb cs

/-- The individual bulk scans equal stepping through the scanned run (the lemmas behind
`json_refinement`): `skip_chrs`/`memchr2` inside a string, `advance_until` inside a number,
whitespace (and comma) skipping, and the `zip` over the rest of a literal. -/
theorem json_scan_refinement (cfg : JCfg) (s : JState) (rest : List JSt) (run : Bytes)
    (he : s.err = none) :
    (s.stack = .string :: rest → (∀ b ∈ run, b ≠ 92 ∧ b ≠ 34) →
      runBytes (jStep cfg) s run = ({ s with tape := s.tape.pushBytes run }, [])) ∧
    (s.stack = .number :: rest → (∀ b ∈ run, numChar b = true) →
      runBytes (jStep cfg) s run = ({ s with tape := s.tape.pushBytes run }, [])) ∧
    ((∀ b ∈ run, skipsByte s b = true) → runBytes (jStep cfg) s run = (s, [])) ∧
    (∀ lit idx, s.stack = .literal lit idx :: rest → idx < lit.bytes.length →
      runBytes (jStep cfg) s (lit.bytes.drop idx) =
        ({ s with tape := s.tape.pushEl lit.element, stack := rest }, [])) :=
  ⟨fun hs hr => json_string_run cfg s rest run he hs hr,
   fun hs hr => json_number_run cfg s rest run he hs hr,
   fun hr => json_skip_run cfg s run he hr,
   fun lit idx hs hi => json_literal_run cfg s lit rest idx he hs hi⟩

/-- non-trivial instance: `"a\n" 12 tr|ue` cut inside the escape, the number and the literal -/
example :
    let cfg : JCfg := ⟨2, false, fun _ => true⟩
    observe (jFinish cfg) (runChunks (jFeed cfg) jInit [[34, 97, 92], [110, 34, 32, 49], [], [50, 32, 116, 114], [117, 101, 10]])
      = observe (jFinish cfg) (jFeed cfg jInit [34, 97, 92, 110, 34, 32, 49, 50, 32, 116, 114, 117, 101, 10]) :=
  json_chunking_independent _ _ _ rfl

/-! ## CSV `RecordDecoder` / `Decoder` -/

/-- the input does not begin with a UTF-8 byte order mark -/
def NoBom (xs : Bytes) : Prop := ¬ (xs.length ≥ 3 ∧ xs.take 3 = csvBom)

/-- **Refinement (CSV).** One round of csv-core's `read_record_dfa` as driven by
`RecordDecoder::decode` — `scan_and_copy` of a run of ordinary bytes inside a field, otherwise
one DFA step, with record validation / skipping / batching — equals the byte-at-a-time machine
`csvStep`, for every decoder state that has already read something, and for a fresh decoder
whenever the chunk does not start with a complete UTF-8 BOM. -/
theorem csv_refinement (cfg : CsvCfg) (s : CsvState) (chunk : Bytes)
    (h : s.hasRead = true ∨ NoBom chunk) :
    csvFeed cfg s chunk = runBytes (csvStep cfg) s chunk :=
  csvFeed_eq_runBytes cfg s chunk (Or.inr h)

/-- **Chunking independence (CSV), for inputs without a leading BOM.** Every partition of the
input gives the same batches (same rows, same field boundaries and contents, same order), the
same final state and — through `csvFinish` (EOF transition: an unterminated last record is
completed; last `flush`) — the same last batch and ok/error verdict as the single-chunk run. -/
theorem csv_chunking_independent (cfg : CsvCfg) (toSkip : Nat) (cs : List Bytes) (xs : Bytes)
    (hp : IsPartition cs xs) (hb : NoBom xs) :
    observe (csvFinish cfg) (runChunks (csvFeed cfg) (csvInit toSkip) cs) =
      observe (csvFinish cfg) (csvFeed cfg (csvInit toSkip) xs) := by
  have h1 := csv_runChunks cfg (csvInit toSkip) cs (by rw [hp]; exact Or.inr (Or.inr hb))
  rw [h1, hp, csv_refinement cfg _ xs (Or.inr hb)]

/-- …and from any state that has already consumed input (e.g. after the header), with no
condition on the bytes. -/
theorem csv_chunking_independent_state (cfg : CsvCfg) (s : CsvState) (cs : List Bytes)
    (h : s.hasRead = true) :
    runChunks (csvFeed cfg) s cs = csvFeed cfg s cs.flatten := by
  rw [csv_runChunks cfg s cs (Or.inr (Or.inl h)), csv_refinement cfg s _ (Or.inl h)]

/-- **The BOM exception is real (the model reproduces the defect found in the code).**
csv-core strips a UTF-8 BOM only when its *first* input buffer holds all three BOM bytes;
arrow-csv forwards chunks as they arrive.  For the input `EF BB BF 'a' '\n'` the single-chunk
run yields the row `["a"]`, the chunking `[EF] [BB BF 'a' '\n']` yields `["\u{feff}a"]`:
chunking independence fails exactly there (`finding:csv-bom-split`). -/
theorem csv_bom_chunk_dependent :
    let cfg : CsvCfg := ⟨1, 4⟩
    observe (csvFinish cfg) (runChunks (csvFeed cfg) (csvInit 0) [[0xEF, 0xBB, 0xBF, 97, 10]]) =
        ([], [[[[97]]]], false) ∧
    observe (csvFinish cfg) (runChunks (csvFeed cfg) (csvInit 0) [[0xEF], [0xBB, 0xBF, 97, 10]]) =
        ([], [[[[0xEF, 0xBB, 0xBF, 97]]]], false) := by
  constructor <;> simp [observe, runChunks, csvFeed, bulkLoop, csvIter, csvInit, csvBom, csvStep, csvStartRecord,
    csvStartField, csvEndRecord, csvFlush, csvFinish, isTerm, csvPlain, termState, rowsValid, utf8Valid, utf8One,
    charBoundary]

/-- Errors are sticky (CSV): after a field-count or UTF-8 error nothing more is emitted. -/
theorem csv_error_sticky (cfg : CsvCfg) (s : CsvState) (h : s.err = true) (cs : List Bytes) :
    runChunks (csvFeed cfg) s cs = (s, []) := by
  rw [csv_runChunks cfg s cs (Or.inl h)]; exact csv_err_absorb cfg s h _

/-- non-trivial instance: `a,"b` | `""c"` CR | LF `d,e` cut inside the quoted field, inside the
doubled quote and between CR and LF -/
example :
    let cfg : CsvCfg := ⟨2, 1⟩
    observe (csvFinish cfg) (runChunks (csvFeed cfg) (csvInit 0) [[97, 44, 34, 98, 34], [34, 99, 34, 13], [], [10, 100, 44, 101]])
      = observe (csvFinish cfg) (csvFeed cfg (csvInit 0) [97, 44, 34, 98, 34, 34, 99, 34, 13, 10, 100, 44, 101]) :=
  csv_chunking_independent _ _ _ _ rfl (by simp [NoBom, csvBom])

/-! ## Avro streaming `Decoder`: decode / flush state machine -/

/-- everything the caller receives: the batches flushed along the way and the final `flush()`,
as (schema, row) pairs in order -/
def avDelivered {R : Type} (cfg : AvCfg R) (st : (AvState R × Bytes) × List (Nat × List R)) : List (Nat × R) :=
  avTagged (st.2 ++ (avFlush cfg st.1.1).2)

/-
FULL STATEMENT (not proved): for every list of well-formed frames, every chunking of the
concatenated bytes whose cuts fall at frame boundaries or inside frame prefixes (row bodies are
atomic in the model, so that is the chunk grammar it speaks about; several frames per chunk and
empty chunks included) and every flush policy, `avDelivered` and the final verdict equal those of
the reference schedule (one frame per call, flush after each).
PROVED BELOW: the case of frame-aligned chunks (exactly one frame per `decode` call) under
*every* flush policy, for every batch size ≥ 1 and every sequence of schema switches.
MISSING: chunks holding several frames or a cut inside a prefix — needs the loop invariant of
`avPush` for a buffer that still holds unconsumed bytes after the forced flush (the recursion of
`avPush` is handled here only for the one-frame buffer) and prefix-stability hypotheses on `pfx`.
These chunkings are covered by the correspondence run (op `avrod`) only.
-/

/-- **Flush-policy independence for frame-aligned chunks (partial).** Feeding well-formed frames
one per `decode` call, the caller may flush after any subset of the calls (`flags`) — only when
the decoder demands it, after every frame, every k-th frame … — and always receives exactly the
rows of the frames, in order, each under the schema its frame announced; the decoder ends
without error and with an empty rolling buffer.  In particular a frame that switches the schema
while rows of the previous schema are buffered (forced flush, pending schema, awaited body) loses
and reorders nothing.  Hence any two flush policies, and the reference policy "flush after each
frame", deliver the same (row, schema) sequence. -/
theorem avrod_frame_aligned_flush_independent_partial {R : Type} (cfg : AvCfg R) (hbs : 0 < cfg.batchSize)
    (fuel : Nat) (frames : List (Bytes × Bytes × Nat × R)) (flags flags' : List Bool)
    (hl : flags.length = frames.length) (hl' : flags'.length = frames.length)
    (hf : ∀ f ∈ frames, AvFrame cfg f.1 f.2.1 f.2.2.1 f.2.2.2) :
    let chunks := frames.map (fun f => f.1 ++ f.2.1)
    let run := fun fl => avSchedule cfg fuel ((avInit cfg, []), []) (chunks.zip fl)
    avDelivered cfg (run flags) = frames.map (fun f => (f.2.2.1, f.2.2.2)) ∧
    avDelivered cfg (run flags) = avDelivered cfg (run flags') ∧
    (run flags).1.1.err = false ∧ (run flags).1.2 = [] := by
  have hinit : AvClean cfg (avInit cfg) :=
    ⟨rfl, rfl, rfl, hbs, Nat.le_refl _, by simp [avInit], fun _ => rfl⟩
  have key : ∀ fl : List Bool, fl.length = frames.length →
      avDelivered cfg (avSchedule cfg fuel ((avInit cfg, []), []) ((frames.map (fun f => f.1 ++ f.2.1)).zip fl)) =
        frames.map (fun f => (f.2.2.1, f.2.2.2)) ∧
      (avSchedule cfg fuel ((avInit cfg, []), []) ((frames.map (fun f => f.1 ++ f.2.1)).zip fl)).1.1.err = false ∧
      (avSchedule cfg fuel ((avInit cfg, []), []) ((frames.map (fun f => f.1 ++ f.2.1)).zip fl)).1.2 = [] := by
    intro fl hfl
    obtain ⟨s', out, h, hc, ht⟩ := avSchedule_frames cfg fuel frames fl hfl hf (avInit cfg) [] hinit
    rw [h]
    have hfin := avFlush_clean cfg s' hc
    refine ⟨?_, hc.noErr, rfl⟩
    simp only [avDelivered, List.nil_append]
    have : avTagged (out ++ (avFlush cfg s').2) = avTagged out ++ avTagged (avFlush cfg s').2 := by simp [avTagged]
    rw [this, hfin.1, ht]
    simp [avBuffered, avInit]
  intro chunks run
  exact ⟨(key flags hl).1, (key flags hl).1.trans (key flags' hl').1.symm, (key flags hl).2.1, (key flags hl).2.2⟩

/-- non-vacuity: a toy framing (prefix `[1, schema]`, one-byte rows), batch size 2, the frame
sequence A,A,B,A — a switch with rows buffered and one with an empty batch — and two policies -/
example :
    let cfg : AvCfg Nat := ⟨2,
      fun d => match d with | 1 :: fp :: _ => .found fp 2 | [] => .needMore | [1] => .needMore | _ => .mismatch,
      fun fp => fp < 2,
      fun _ d => match d with | [] => .incomplete | b :: _ => .ok 1 b,
      fun _ => true⟩
    let frames : List (Bytes × Bytes × Nat × Nat) := [([1, 0], [7], 0, 7), ([1, 0], [8], 0, 8), ([1, 1], [9], 1, 9), ([1, 0], [5], 0, 5)]
    avDelivered cfg (avSchedule cfg 3 ((avInit cfg, []), []) ((frames.map (fun f => f.1 ++ f.2.1)).zip [false, false, false, false]))
      = [(0, 7), (0, 8), (1, 9), (0, 5)] := by
  intro cfg frames
  exact (avrod_frame_aligned_flush_independent_partial cfg (by decide) 3 frames [false, false, false, false]
    [true, true, true, true] rfl rfl (by
      intro f hf
      simp only [frames, List.mem_cons, List.not_mem_nil, or_false] at hf
      rcases hf with rfl | rfl | rfl | rfl <;> exact ⟨fun _ => rfl, rfl, rfl, rfl, by simp, by simp⟩)).1

end ArrowModel.C14
