/-
C15 — specification level.

The property speaks about *byte ranges of a file* and about a reader that is an abstract
"program": in a control state it either needs no I/O or asks for a list of byte ranges, and
what it does next is a function of the bytes of those ranges.  The synchronous reference run
(`idealRun`) hands the program `file[r]` for every range it asks for, directly from the file.
Everything here is import-free and uses lists of naturals for bytes.
-/
namespace ArrowModel.C15

/-- half-open byte range `start..stop` (Rust `Range<u64>`; offsets are naturals, the `u64`
bound is an assumption of the model) -/
structure Range where
  start : Nat
  stop : Nat
deriving DecidableEq, Repr, Inhabited

/-- `a` contains `b`: the comparison `PushBuffers::has_range` / `get_bytes` perform -/
def Range.covers (a b : Range) : Bool := decide (a.start ≤ b.start) && decide (b.stop ≤ a.stop)

/-- the range is well formed and lies inside a file of `n` bytes -/
def Range.within (r : Range) (n : Nat) : Prop := r.start ≤ r.stop ∧ r.stop ≤ n

instance (r : Range) (n : Nat) : Decidable (r.within n) := by unfold Range.within; infer_instance

/-- `file[r]` -/
def fileSlice (file : List Nat) (r : Range) : List Nat := (file.drop r.start).take (r.stop - r.start)

/-- which front-end call drives the decoder: `try_decode` (one batch per call) or
`try_next_reader` (one reader = all batches of a row group per call) -/
inductive Mode where
  | batch
  | reader
deriving DecidableEq, Repr

/-- what a productive step hands to the caller -/
inductive Emit (β : Type) where
  | batch (b : β)
  | reader (bs : List β)
  | finished
deriving Repr, DecidableEq

/-- is this `DecodeResult::Finished` -/
def Emit.isFinished {β} : Emit β → Bool
  | .finished => true
  | _ => false

/-- the rows (batches) carried by an emission -/
def Emit.rows {β} : Emit β → List β
  | .batch b => [b]
  | .reader bs => bs
  | .finished => []

/-- An abstract reader program over control states `σ` producing batches `β`.

* `request s = some rs` — in state `s` the program cannot continue without the bytes of `rs`
  (the `WaitingOnFilterData` / `WaitingOnData` states; `rs` is `DataRequest::ranges`);
  `none` — the next step is pure.
* `step m s chunks` — one transition; `chunks` are the bytes of the requested ranges, in order
  (`[]` when nothing was requested).  It may emit.
* `rank` strictly decreases on every step that does not emit: the program cannot spin. -/
structure Prog (σ β : Type) where
  request : σ → Option (List Range)
  step : Mode → σ → List (List Nat) → σ × Option (Emit β)
  rank : σ → Nat
  rank_step : ∀ m s chunks, (step m s chunks).2 = none → rank (step m s chunks).1 < rank s

/-- the ranges a state asks for (`[]` if none) -/
def Prog.req {σ β} (P : Prog σ β) (s : σ) : List Range := (P.request s).getD []

/-- one transition of the synchronous reference: the requested ranges are read from the file -/
def idealMicro {σ β} (P : Prog σ β) (file : List Nat) (m : Mode) (s : σ) : σ × Option (Emit β) :=
  P.step m s ((P.req s).map (fileSlice file))

/-- run the reference until it emits (one `try_decode` / `try_next_reader` call with the whole
file at hand) -/
def idealPoll {σ β} (P : Prog σ β) (file : List Nat) (m : Mode) (s : σ) : σ × Emit β :=
  match h : idealMicro P file m s with
  | (s', some e) => (s', e)
  | (s', none) => idealPoll P file m s'
termination_by P.rank s
decreasing_by
  have := P.rank_step m s ((P.req s).map (fileSlice file))
  unfold idealMicro at h
  rw [h] at this
  exact this rfl

/-- the first `n` emissions of the synchronous reference run, a finished decoder keeps
answering `finished` (as `ParquetDecoderState::Finished` does) -/
def idealRun {σ β} (P : Prog σ β) (file : List Nat) (m : Mode) : Nat → σ → Bool → List (Emit β)
  | 0, _, _ => []
  | n + 1, s, true => Emit.finished :: idealRun P file m n s true
  | n + 1, s, false =>
    let r := idealPoll P file m s
    r.2 :: idealRun P file m n r.1 r.2.isFinished

/-! ### Offset / limit budget (`RowBudget`) — the naive statement -/

/-- rows that survive `offset`/`limit` out of `n` selected rows -/
def rowsAfterSpec (offset : Nat) (limit : Option Nat) (n : Nat) : Nat :=
  match limit with
  | some l => min (n - offset) l
  | none => n - offset

end ArrowModel.C15
