import ArrowModel.C15.Spec
import ArrowModel.Generated.C15
/-
C15 — model of the push decoder's I/O side.

* `PushBuffers` mirrors `parquet/src/util/push_buffers.rs` operation by operation.
* `Dec` / `micro` / `poll` mirror the part of `RowGroupReaderBuilder::try_transition`
  (`WaitingOnFilterData`, `WaitingOnData` arms), `DataRequest::{needed_ranges, get_chunks,
  try_into_in_memory_row_group}` and `ParquetPushDecoder::{try_decode, try_next_reader,
  push_ranges, clear_all_ranges}` that touches the buffers, for an arbitrary reader program.
* `ctlStep` / `rgProg` mirror the control part: `RowGroupDecoderState`, `RowGroupFrontier::
  next_readable_row_group`, `RemainingRowGroups::try_next_reader`, `ParquetDecoderState`,
  `RowBudget`, with the Parquet-specific computations (which ranges a projection/selection
  needs, predicate evaluation, array decoding) as abstract functions in `Cfg`.
* `asyncPoll` mirrors `ParquetRecordBatchStream::poll_next_inner` (`RequestState`).

The nested Rust loops (`try_build`, `RemainingRowGroups::try_next_reader`,
`next_readable_row_group`, `try_next_batch`) are flattened into one loop over single
transitions (`micro`); `Prog.rank` is the measure that makes that loop terminate.
-/
namespace ArrowModel.C15

/-! ## `PushBuffers` -/

/-- `PushBuffers{offset, file_len, ranges, buffers}`.  `ranges` and `buffers` are only ever
pushed / removed together, so they are kept as one list of pairs (`PushBuffers::iter`). -/
structure PushBuffers where
  offset : Nat := 0
  fileLen : Nat := 0
  entries : List (Range × List Nat) := []
deriving Repr

namespace PushBuffers

/-- `PushBuffers::push_range`: rejects a buffer whose length differs from
`range.end.saturating_sub(range.start)`; otherwise appends.  `none` = `Err`. -/
def pushRange (pb : PushBuffers) (r : Range) (buf : List Nat) : Option PushBuffers :=
  if r.stop - r.start ≠ buf.length then none
  else some { pb with entries := pb.entries ++ [(r, buf)] }

/-- the loop of `PushBuffers::push_ranges`: ranges pushed before a failing one stay pushed -/
def pushZip (pb : PushBuffers) : List (Range × List Nat) → PushBuffers × Bool
  | [] => (pb, true)
  | (r, b) :: es =>
    match pb.pushRange r b with
    | some pb' => pushZip pb' es
    | none => (pb, false)

/-- `PushBuffers::push_ranges` (second component `false` = `Err`) -/
def pushRanges (pb : PushBuffers) (rs : List Range) (bufs : List (List Nat)) : PushBuffers × Bool :=
  if rs.length ≠ bufs.length then (pb, false) else pb.pushZip (rs.zip bufs)

/-- `PushBuffers::has_range`: some ONE held range contains the requested range (no coalescing) -/
def hasRange (pb : PushBuffers) (r : Range) : Bool :=
  pb.entries.any (fun e => e.1.covers r)

/-- `<PushBuffers as ChunkReader>::get_bytes(start, length)`: the first held range containing
`start .. start+length`, sliced.  `none` = `Err(NeedMoreDataRange)`. -/
def getBytes (pb : PushBuffers) (start length : Nat) : Option (List Nat) :=
  match pb.entries.find? (fun e => decide (e.1.start ≤ start) && decide (start + length ≤ e.1.stop)) with
  | some e => some ((e.2.drop (start - e.1.start)).take length)
  | none => none

/-- `<PushBuffers as ChunkReader>::get_read(start)` -/
def getRead (pb : PushBuffers) (start : Nat) : PushBuffers := { pb with offset := pb.offset + start }

/-- `<PushBuffers as Read>::read(buf)` with `buf.len() = n`: all-or-nothing -/
def read (pb : PushBuffers) (n : Nat) : Option (List Nat × PushBuffers) :=
  match pb.entries.find? (fun e => decide (e.1.start ≤ pb.offset) && decide (pb.offset + n ≤ e.1.stop)) with
  | some e => some ((e.2.drop (pb.offset - e.1.start)).take n, { pb with offset := pb.offset + n })
  | none => none

/-- `PushBuffers::clear_ranges`: drops the entries whose range is *exactly* one of `rs` -/
def clearRanges (pb : PushBuffers) (rs : List Range) : PushBuffers :=
  { pb with entries := pb.entries.filter (fun e => !rs.any (fun r => r.start == e.1.start && r.stop == e.1.stop)) }

/-- `PushBuffers::clear_all_ranges` -/
def clearAll (pb : PushBuffers) : PushBuffers := { pb with entries := [] }

/-- `PushBuffers::buffered_bytes` -/
def bufferedBytes (pb : PushBuffers) : Nat := (pb.entries.map (fun e => e.1.stop - e.1.start)).sum

/-- `DataRequest::needed_ranges` -/
def neededRanges (pb : PushBuffers) (req : List Range) : List Range :=
  req.filter (fun r => !pb.hasRange r)

/-- `DataRequest::get_chunks` (`none` = the "Internal Error missing data" branch) -/
def getChunks (pb : PushBuffers) (req : List Range) : Option (List (List Nat)) :=
  req.mapM (fun r => pb.getBytes r.start (r.stop - r.start))

end PushBuffers

/-! ## The decoder around an arbitrary reader program -/

/-- what one `try_decode` / `try_next_reader` call returns: `DecodeResult::{NeedsData, Data,
Finished}` or `Err` -/
inductive Event (β : Type) where
  | needsData (rs : List Range)
  | emit (e : Emit β)
  | error
deriving Repr

/-- decoder = control state + `PushBuffers` + "is `ParquetDecoderState::Finished`" -/
structure Dec (σ : Type) where
  ctl : σ
  buffers : PushBuffers
  finished : Bool := false

/-- One transition.  In a state with a data request (`WaitingOn…`): compute
`needed_ranges`; if some are missing return `NeedsData(missing)` and stay; otherwise
`get_chunks`, `clear_ranges(request)` and continue with the bytes.  Other states step purely. -/
def micro {σ β} (P : Prog σ β) (m : Mode) (d : Dec σ) : Dec σ × Option (Event β) :=
  match P.request d.ctl with
  | some req =>
    if (d.buffers.neededRanges req).isEmpty then
      match d.buffers.getChunks req with
      | some chunks =>
        let r := P.step m d.ctl chunks
        ({ ctl := r.1, buffers := d.buffers.clearRanges req,
           finished := match r.2 with | some e => e.isFinished | none => false },
         r.2.map Event.emit)
      | none => ({ d with finished := true }, some .error)
    else (d, some (.needsData (d.buffers.neededRanges req)))
  | none =>
    let r := P.step m d.ctl []
    ({ ctl := r.1, buffers := d.buffers,
       finished := match r.2 with | some e => e.isFinished | none => false },
     r.2.map Event.emit)

theorem micro_rank {σ β} (P : Prog σ β) (m : Mode) (d d' : Dec σ)
    (h : micro P m d = (d', none)) : P.rank d'.ctl < P.rank d.ctl := by
  unfold micro at h
  split at h
  · rename_i req hreq
    split at h
    · split at h
      · rename_i chunks hc
        simp only [Prod.mk.injEq, Option.map_eq_none_iff] at h
        have := P.rank_step m d.ctl chunks h.2
        rw [← h.1]; exact this
      · simp at h
    · simp at h
  · simp only [Prod.mk.injEq, Option.map_eq_none_iff] at h
    have := P.rank_step m d.ctl [] h.2
    rw [← h.1]; exact this

/-- the loop of `try_next_batch` / `try_next_reader` (and the loops below it) -/
def pollLoop {σ β} (P : Prog σ β) (m : Mode) (d : Dec σ) : Dec σ × Event β :=
  match h : micro P m d with
  | (d', some e) => (d', e)
  | (d', none) => pollLoop P m d'
termination_by P.rank d.ctl
decreasing_by exact micro_rank P m d d' h

/-- `ParquetPushDecoder::try_decode` (`m = batch`) / `try_next_reader` (`m = reader`) -/
def poll {σ β} (P : Prog σ β) (m : Mode) (d : Dec σ) : Dec σ × Event β :=
  if d.finished then (d, .emit .finished) else pollLoop P m d

/-- `ParquetPushDecoder::push_ranges`: `Err` on a finished decoder; an `Err` from
`PushBuffers::push_ranges` leaves the decoder in `ParquetDecoderState::Finished`
(the state was `mem::replace`d before the `?`). -/
def Dec.push {σ} (d : Dec σ) (es : List (Range × List Nat)) : Dec σ × Bool :=
  if d.finished then (d, false)
  else
    let r := d.buffers.pushRanges (es.map (·.1)) (es.map (·.2))
    ({ d with buffers := r.1, finished := !r.2 }, r.2)

/-- `ParquetPushDecoder::clear_all_ranges` -/
def Dec.clear {σ} (d : Dec σ) : Dec σ := { d with buffers := d.buffers.clearAll }

/-- what the I/O side may do between calls -/
inductive Action where
  | push (es : List (Range × List Nat))
  | poll
  | clear
deriving Repr

/-- run a schedule; one event per `poll` -/
def runSched {σ β} (P : Prog σ β) (m : Mode) : List Action → Dec σ → List (Event β)
  | [], _ => []
  | .push es :: as, d => runSched P m as (d.push es).1
  | .clear :: as, d => runSched P m as d.clear
  | .poll :: as, d => (poll P m d).2 :: runSched P m as (poll P m d).1

/-- the decoder state after a schedule -/
def endSched {σ β} (P : Prog σ β) (m : Mode) : List Action → Dec σ → Dec σ
  | [], d => d
  | .push es :: as, d => endSched P m as (d.push es).1
  | .clear :: as, d => endSched P m as d.clear
  | .poll :: as, d => endSched P m as (poll P m d).1

def Event.emits {β} : List (Event β) → List (Emit β)
  | [] => []
  | .emit e :: es => e :: Event.emits es
  | _ :: es => Event.emits es

/-- genuine file slices for a list of ranges -/
def slices (file : List Nat) (rs : List Range) : List (Range × List Nat) :=
  rs.map (fun r => (r, fileSlice file r))

/-- One *productive* call under a responsive I/O layer: call; while the answer is
`NeedsData(ms)` push `adv k ms` (as genuine file slices) and call again.  `adv` is the
adversary: which ranges it supplies for a request (`k` = calls left, so it may differ from
call to call). -/
def settle {σ β} (P : Prog σ β) (file : List Nat) (m : Mode) (adv : Nat → List Range → List Range) :
    Nat → Dec σ → Dec σ × Option (Emit β)
  | 0, d => (d, none)
  | k + 1, d =>
    match poll P m d with
    | (d', .needsData ms) => settle P file m adv k (d'.push (slices file (adv k ms))).1
    | (d', .emit e) => (d', some e)
    | (d', .error) => (d', none)

/-- `n` productive calls under a responsive I/O layer -/
def driveRun {σ β} (P : Prog σ β) (file : List Nat) (m : Mode) (adv : Nat → List Range → List Range) :
    Nat → Dec σ → List (Emit β)
  | 0, _ => []
  | n + 1, d =>
    match settle P file m adv (P.rank d.ctl + 2) d with
    | (d', some e) => e :: driveRun P file m adv n d'
    | (_, none) => []

/-! ## `ParquetRecordBatchStream` (`RequestState`) -/

/-- `RequestState`: `outstanding ranges k` is a fetch future that returns `Pending` `k` more
times before it is `Ready` with the requested bytes -/
inductive ReqState where
  | none
  | outstanding (ranges : List Range) (pendingLeft : Nat)
  | done
deriving Repr

structure AsyncSt (σ : Type) where
  dec : Dec σ
  rs : ReqState := .none
  /-- the executor / I/O oracle: how often each future to come is pending -/
  pend : List Nat := []
  /-- every fetch issued so far (`begin_request`) -/
  fetched : List (List Range) := []
  /-- `get_byte_ranges` is one future (`true`) or the default: one `get_bytes` future per
  range, awaited in sequence (`false`) -/
  vectored : Bool := true

/-- result of one `poll_next` -/
inductive PollRes (β : Type) where
  | pending
  | ready (e : Emit β)
  | error
deriving Repr

/-- `ParquetRecordBatchStream::poll_next_inner` (`m = batch`), resp. the loop of
`next_row_group` (`m = reader`; there `Pending` is the suspended `future.await`).  The
fetched data is the genuine file content (the `AsyncFileReader` contract).  `fuel` bounds the
`loop`; `asyncPoll_fuel` shows `2·rank + 4` suffices. -/
def asyncPoll {σ β} (P : Prog σ β) (file : List Nat) (m : Mode) : Nat → AsyncSt σ → AsyncSt σ × PollRes β
  | 0, a => (a, .error)
  | fuel + 1, a =>
    match a.rs with
    | .none =>
      match poll P m a.dec with
      | (d', .needsData ranges) =>
        let n := if a.vectored then 1 else ranges.length
        asyncPoll P file m fuel
          { a with dec := d', rs := .outstanding ranges (a.pend.take n).sum, pend := a.pend.drop n,
                   fetched := a.fetched ++ [ranges] }
      | (d', .emit .finished) => ({ a with dec := d', rs := .done }, .ready .finished)
      | (d', .emit e) => ({ a with dec := d', rs := .none }, .ready e)
      | (d', .error) => ({ a with dec := d', rs := .done }, .error)
    | .outstanding ranges (k + 1) => ({ a with rs := .outstanding ranges k }, .pending)
    | .outstanding ranges 0 =>
      let r := a.dec.push (slices file ranges)
      if r.2 then asyncPoll P file m fuel { a with dec := r.1, rs := .none }
      else ({ a with dec := r.1, rs := .done }, .error)
    | .done => (a, .ready .finished)

/-! ## The control side: `RowBudget`, `RowGroupFrontier`, `RowGroupDecoderState` -/

/-- `RowBudget{offset, limit}` -/
structure RowBudget where
  offset : Option Nat
  limit : Option Nat
deriving DecidableEq, Repr

namespace RowBudget

/-- `RowBudget::is_exhausted` -/
def isExhausted (b : RowBudget) : Bool := b.limit == some Generated.C15.BUDGET_EXHAUSTED_LIMIT

/-- `RowBudget::rows_after` -/
def rowsAfter (b : RowBudget) (rowsBefore : Nat) : Nat :=
  let afterOffset := rowsBefore - b.offset.getD Generated.C15.BUDGET_DEFAULT_OFFSET
  match b.limit with
  | some l => min afterOffset l
  | none => afterOffset

/-- `RowBudget::selected_row_limit` (`saturating_add` never saturates for naturals) -/
def selectedRowLimit (b : RowBudget) : Option Nat :=
  b.limit.map (· + b.offset.getD Generated.C15.BUDGET_SELECTED_DEFAULT_OFFSET)

/-- `RowBudget::advance` -/
def advance (b : RowBudget) (rowsBefore rowsAfter : Nat) : RowBudget :=
  { offset := b.offset.map (fun o => o - (rowsBefore - rowsAfter)),
    limit := if rowsAfter ≠ Generated.C15.BUDGET_ADVANCE_SKIP_WHEN then b.limit.map (· - rowsAfter) else b.limit }

end RowBudget

/-- The Parquet-specific computations the state machine calls, as abstract functions.
`Plan` = `ReadPlanBuilder` (selection so far), `Chunks` = column chunks already fetched,
`GSel` = the file-level `RowSelection`, `Batch` = a decoded `RecordBatch`. -/
structure Cfg (Plan Chunks GSel Batch : Type) where
  /-- `filter.predicates.len()` (0 for no filter) -/
  numPreds : Nat
  /-- `RowGroupFrontier::row_group_num_rows` -/
  rowCount : Nat → Nat
  /-- `RowSelection::row_count` -/
  gselCount : GSel → Nat
  /-- `RowSelection::split_off(n)`: (the first `n` rows, what stays behind) -/
  gselSplit : GSel → Nat → GSel × GSel
  /-- `ReadPlanBuilder::new(batch_size).with_selection(sel).with_row_selection_policy(..)` -/
  initPlan : Option GSel → Plan
  /-- `ReadPlanBuilder::selects_any` -/
  selectsAny : Plan → Bool
  /-- `column_chunks = None` -/
  noChunks : Chunks
  /-- `DataRequestBuilder … predicate.projection() … build()`: ranges for predicate `k` -/
  filterRanges : (rg k : Nat) → Plan → Chunks → List Range
  /-- `try_into_in_memory_row_group` + `with_predicate_options`: evaluate predicate `k` on the bytes -/
  evalPred : (rg k : Nat) → RowBudget → Plan → Chunks → List (List Nat) → Plan × Chunks
  /-- `plan_builder.num_rows_selected().unwrap_or(row_count)` -/
  rowsSelected : Plan → Nat → Nat
  /-- `.limited(row_count).with_offset(..).with_limit(..).build_limited()` -/
  budgetPlan : RowBudget → Plan → Nat → Plan
  /-- `DataRequestBuilder … self.projection … build()`: ranges for the output columns -/
  dataRanges : (rg : Nat) → Plan → Chunks → List Range
  /-- `try_into_in_memory_row_group` + `ParquetRecordBatchReader::new`: all batches of the row group -/
  mkReader : (rg : Nat) → Plan → Chunks → List (List Nat) → List Batch

/-- `RowGroupInfo` -/
structure RGInfo (Plan : Type) where
  rgIdx : Nat
  rowCount : Nat
  plan : Plan
  budget : RowBudget

/-- `RowGroupDecoderState` (`k` = `FilterInfo::next_predicate`, `chunks` =
`DataRequest::column_chunks`).  `DataRequest::ranges` is not stored: it was computed by
`DataRequestBuilder::build` from the plan and chunks that the `WaitingOn…` state still
carries unchanged, so `ctlRequest` recomputes it.  The predicate cache is not modelled. -/
inductive RGState (Plan Chunks : Type) where
  | start (info : RGInfo Plan)
  | filters (info : RGInfo Plan) (chunks : Chunks) (k : Nat)
  | waitingOnFilterData (info : RGInfo Plan) (k : Nat) (chunks : Chunks)
  | startData (info : RGInfo Plan) (chunks : Chunks)
  | waitingOnData (info : RGInfo Plan) (chunks : Chunks)
  | finished

/-- `RowGroupFrontier` -/
structure Frontier (GSel : Type) where
  rowGroups : List Nat
  selection : Option GSel
  budget : RowBudget
  hasPredicates : Bool

/-- `ParquetDecoderState` + `RemainingRowGroups` + `RowGroupReaderBuilder` without the buffers.
`decoding = some bs` is `DecodingRowGroup` with `bs` the batches its reader still yields;
`filterAvail` is `RowGroupReaderBuilder::filter.is_some()` (it is `take()`n while predicates
are being evaluated). -/
structure Ctl (Plan Chunks GSel Batch : Type) where
  frontier : Frontier GSel
  filterAvail : Bool
  rg : RGState Plan Chunks
  decoding : Option (List Batch)

section control
variable {Plan Chunks GSel Batch : Type}

/-- result of one iteration of `RowGroupFrontier::next_readable_row_group` -/
inductive FrontierOut (Plan : Type) where
  | exhausted
  | skip
  | read (info : RGInfo Plan)

/-- one iteration of the loop in `RowGroupFrontier::next_readable_row_group`
(with `plan_selected_row_group` inlined) -/
def frontierStep (cfg : Cfg Plan Chunks GSel Batch) (f : Frontier GSel) : Frontier GSel × FrontierOut Plan :=
  match f.rowGroups with
  | [] => (f, .exhausted)
  | rg :: rest =>
    if f.budget.isExhausted || (match f.selection with | some s => cfg.gselCount s == 0 | none => false) then
      ({ f with selection := none, rowGroups := [] }, .exhausted)   -- clear_remaining
    else
      let rowCount := cfg.rowCount rg
      let plan (f' : Frontier GSel) (sel : Option GSel) (selected : Nat) : Frontier GSel × FrontierOut Plan :=
        if f.hasPredicates || f.budget.rowsAfter selected != 0 then
          ({ f' with rowGroups := rest },
           .read { rgIdx := rg, rowCount := rowCount, plan := cfg.initPlan sel, budget := f.budget })
        else
          ({ f' with rowGroups := rest, budget := f.budget.advance selected (f.budget.rowsAfter selected) }, .skip)
      match f.selection with
      | some s =>
        let sp := cfg.gselSplit s rowCount
        let selected := cfg.gselCount sp.1
        if selected == 0 then ({ f with selection := some sp.2, rowGroups := rest }, .skip)
        else plan { f with selection := some sp.2 } (if selected == rowCount then none else some sp.1) selected
      | none => plan f none rowCount

/-- One transition of the control state: `ParquetDecoderState::transition` /
`try_next_batch` / `try_next_reader` around `RemainingRowGroups::try_next_reader` around
`RowGroupReaderBuilder::try_transition`, one arm per call.  `chunks` are the bytes of the
state's data request (only the two `WaitingOn…` arms use them). -/
def ctlStep (cfg : Cfg Plan Chunks GSel Batch) (m : Mode) (c : Ctl Plan Chunks GSel Batch)
    (chunks : List (List Nat)) : Ctl Plan Chunks GSel Batch × Option (Emit Batch) :=
  match c.decoding with
  | some bs =>
    -- `DecodingRowGroup`
    match m with
    | .reader => ({ c with decoding := none }, some (.reader bs))
    | .batch =>
      match bs with
      | b :: rest => ({ c with decoding := some rest }, some (.batch b))
      | [] => ({ c with decoding := none }, none)
  | none =>
    -- `ReadingRowGroup`
    match c.rg with
    | .finished =>
      -- `!has_active_row_group()`: ask the frontier
      match frontierStep cfg c.frontier with
      | (f, .exhausted) => ({ c with frontier := f }, some .finished)
      | (f, .skip) => ({ c with frontier := f }, none)
      | (f, .read info) => ({ c with frontier := f, rg := .start info }, none)
    | .start info =>
      if !c.filterAvail || cfg.numPreds == 0 then
        -- `self.filter.take()` is `None`, or has no predicates (then it is not put back)
        ({ c with filterAvail := false, rg := .startData info cfg.noChunks }, none)
      else ({ c with filterAvail := false, rg := .filters info cfg.noChunks 1 }, none)
    | .filters info chunksHeld k =>
      if !cfg.selectsAny info.plan then
        -- ruled out entire row group: `Finished { remaining_budget: budget }`
        ({ c with filterAvail := true, rg := .finished,
                  frontier := { c.frontier with budget := info.budget } }, none)
      else
        ({ c with rg := .waitingOnFilterData info k chunksHeld }, none)
    | .waitingOnFilterData info k chunksHeld =>
      let r := cfg.evalPred info.rgIdx k info.budget info.plan chunksHeld chunks
      let info' := { info with plan := r.1 }
      if k ≥ cfg.numPreds then
        -- `AdvanceResult::Done`: put the filter back
        ({ c with filterAvail := true, rg := .startData info' r.2 }, none)
      else ({ c with rg := .filters info' r.2 (k + 1) }, none)
    | .startData info chunksHeld =>
      -- `RowBudget::apply_to_plan`
      let before := cfg.rowsSelected info.plan info.rowCount
      let after := info.budget.rowsAfter before
      let remaining := info.budget.advance before after
      if before == 0 || after == 0 then
        ({ c with rg := .finished, frontier := { c.frontier with budget := remaining } }, none)
      else
        let plan := cfg.budgetPlan info.budget info.plan info.rowCount
        ({ c with rg := .waitingOnData { info with plan := plan, budget := remaining } chunksHeld }, none)
    | .waitingOnData info chunksHeld =>
      let bs := cfg.mkReader info.rgIdx info.plan chunksHeld chunks
      let c' := { c with rg := .finished, frontier := { c.frontier with budget := info.budget } }
      -- `RowGroupBuildResult::Data` → `DecodingRowGroup`; the caller looks at the reader at once
      match m with
      | .reader => (c', some (.reader bs))
      | .batch =>
        match bs with
        | b :: rest => ({ c' with decoding := some rest }, some (.batch b))
        | [] => (c', none)

/-- the outstanding `DataRequest` of a control state (`DataRequestBuilder::build` with the
predicate's projection, resp. the output projection) -/
def ctlRequest (cfg : Cfg Plan Chunks GSel Batch) (c : Ctl Plan Chunks GSel Batch) : Option (List Range) :=
  match c.decoding, c.rg with
  | none, .waitingOnFilterData info k chunks => some (cfg.filterRanges info.rgIdx k info.plan chunks)
  | none, .waitingOnData info chunks => some (cfg.dataRanges info.rgIdx info.plan chunks)
  | _, _ => none

def rgRank (p : Nat) : RGState Plan Chunks → Nat
  | .finished => 0
  | .waitingOnData .. => 1
  | .startData .. => 2
  | .waitingOnFilterData _ k _ => 2 * (p - k) + 3
  | .filters _ _ k => 2 * (p - k) + 4
  | .start _ => 2 * p + 5

/-- termination measure of the flattened loops -/
def ctlRank (cfg : Cfg Plan Chunks GSel Batch) (c : Ctl Plan Chunks GSel Batch) : Nat :=
  c.frontier.rowGroups.length * (2 * cfg.numPreds + 6) + rgRank cfg.numPreds c.rg
    + (match c.decoding with | some _ => 1 | none => 0)

theorem frontierStep_length (cfg : Cfg Plan Chunks GSel Batch) (f : Frontier GSel) :
    (frontierStep cfg f).2 ≠ .exhausted →
      (frontierStep cfg f).1.rowGroups.length + 1 = f.rowGroups.length := by
  unfold frontierStep
  split
  · simp
  · rename_i rg rest hrg
    dsimp only
    repeat' split
    all_goals simp [hrg]

theorem ctlStep_rank (cfg : Cfg Plan Chunks GSel Batch) (m : Mode) (c : Ctl Plan Chunks GSel Batch)
    (chunks : List (List Nat)) (h : (ctlStep cfg m c chunks).2 = none) :
    ctlRank cfg (ctlStep cfg m c chunks).1 < ctlRank cfg c := by
  unfold ctlStep at h ⊢
  split
  · rename_i bs hd
    split
    · simp [hd] at h
    · split
      · simp [hd] at h
      · simp only [ctlRank, hd]; omega
  · rename_i hd
    split
    · rename_i hrg
      split
      · rename_i f hf; simp [hd, hrg, hf] at h
      · rename_i f hf
        have := frontierStep_length cfg c.frontier
        rw [hf] at this
        have := this (by simp)
        dsimp only at this
        have e : c.frontier.rowGroups.length * (2 * cfg.numPreds + 6)
            = f.rowGroups.length * (2 * cfg.numPreds + 6) + (2 * cfg.numPreds + 6) := by
          rw [← this, Nat.add_mul, Nat.one_mul]
        simp only [ctlRank, hd, hrg, rgRank]
        omega
      · rename_i f info hf
        have := frontierStep_length cfg c.frontier
        rw [hf] at this
        have := this (by simp)
        dsimp only at this
        have e : c.frontier.rowGroups.length * (2 * cfg.numPreds + 6)
            = f.rowGroups.length * (2 * cfg.numPreds + 6) + (2 * cfg.numPreds + 6) := by
          rw [← this, Nat.add_mul, Nat.one_mul]
        simp only [ctlRank, hd, hrg, rgRank]
        omega
    · rename_i info hrg
      split <;> (simp only [ctlRank, hd, hrg, rgRank]; omega)
    · rename_i info ch k hrg
      split <;> (simp only [ctlRank, hd, hrg, rgRank]; omega)
    · rename_i info k ch hrg
      dsimp only
      split <;> (simp only [ctlRank, hd, hrg, rgRank]; omega)
    · rename_i info ch hrg
      dsimp only
      split <;> (simp only [ctlRank, hd, hrg, rgRank]; omega)
    · rename_i info ch hrg
      dsimp only
      split
      · simp [hd, hrg] at h
      · split
        · rename_i heq; simp [hd, hrg, heq] at h
        · simp only [ctlRank, hd, hrg, rgRank]; omega

/-- the push decoder's control side as a reader program -/
def rgProg (cfg : Cfg Plan Chunks GSel Batch) : Prog (Ctl Plan Chunks GSel Batch) Batch where
  request := ctlRequest cfg
  step := ctlStep cfg
  rank := ctlRank cfg
  rank_step := ctlStep_rank cfg

/-- `ParquetPushDecoderBuilder::build`: all state a fresh decoder starts from -/
def buildCtl (cfg : Cfg Plan Chunks GSel Batch) (rowGroups : List Nat) (selection : Option GSel)
    (offset limit : Option Nat) (hasFilter : Bool) : Ctl Plan Chunks GSel Batch :=
  { frontier := { rowGroups := rowGroups, selection := selection, budget := ⟨offset, limit⟩,
                  hasPredicates := hasFilter && cfg.numPreds != 0 },
    filterAvail := hasFilter, rg := .finished, decoding := none }

/-- `ParquetPushDecoder::is_at_row_group_boundary` -/
def atBoundary (d : Dec (Ctl Plan Chunks GSel Batch)) : Bool :=
  !d.finished && d.ctl.decoding.isNone && (match d.ctl.rg with | .finished => true | _ => false)

/-- `into_builder().build()` with unchanged options: `RemainingRowGroups::into_parts`,
`builder_from_remaining`, `build` — remaining row groups, remaining selection, remaining
budget, the filter as it is, `has_predicates` recomputed, buffers carried over. -/
def rebuild (cfg : Cfg Plan Chunks GSel Batch) (d : Dec (Ctl Plan Chunks GSel Batch)) :
    Option (Dec (Ctl Plan Chunks GSel Batch)) :=
  if atBoundary d then
    some { ctl := buildCtl cfg d.ctl.frontier.rowGroups d.ctl.frontier.selection
                    d.ctl.frontier.budget.offset d.ctl.frontier.budget.limit d.ctl.filterAvail,
           buffers := d.buffers, finished := false }
  else none

end control

/-! ## A table-driven program (used by the driver to replay observed phases) -/

/-- phase `i` needs `ranges` and then yields `batches` batches (`none`: a filter phase, or
a row group whose reader is never built) -/
structure Phase where
  ranges : List Range
  batches : Option Nat
deriving Repr

/-- control state of the table program: remaining phases and the batches still to hand out -/
structure TabSt where
  todo : List Phase
  decoding : Option (List (Nat × Nat))
  idx : Nat

def tabRequest (s : TabSt) : Option (List Range) :=
  match s.decoding, s.todo with
  | none, p :: _ => some p.ranges
  | _, _ => none

def tabStep (m : Mode) (s : TabSt) (_chunks : List (List Nat)) : TabSt × Option (Emit (Nat × Nat)) :=
  match s.decoding with
  | some bs =>
    match m with
    | .reader => ({ s with decoding := none }, some (.reader bs))
    | .batch =>
      match bs with
      | b :: rest => ({ s with decoding := some rest }, some (.batch b))
      | [] => ({ s with decoding := none }, none)
  | none =>
    match s.todo with
    | [] => (s, some .finished)
    | p :: rest =>
      let s' : TabSt := { todo := rest, decoding := none, idx := s.idx + 1 }
      match p.batches with
      | none => (s', none)
      | some n =>
        let bs := (List.range n).map (fun j => (s.idx, j))
        match m with
        | .reader => (s', some (.reader bs))
        | .batch =>
          match bs with
          | b :: rest' => ({ s' with decoding := some rest' }, some (.batch b))
          | [] => (s', none)

def tabRank (s : TabSt) : Nat := 2 * s.todo.length + (match s.decoding with | some _ => 1 | none => 0)

theorem tabStep_rank (m : Mode) (s : TabSt) (chunks : List (List Nat)) (h : (tabStep m s chunks).2 = none) :
    tabRank (tabStep m s chunks).1 < tabRank s := by
  unfold tabStep at h ⊢
  split
  · rename_i bs hd
    split
    · simp [hd] at h
    · split
      · simp [hd] at h
      · simp only [tabRank, hd]; omega
  · rename_i hd
    split
    · rename_i ht; simp [hd, ht] at h
    · rename_i p rest ht
      dsimp only
      split
      · simp only [tabRank, hd, ht, List.length_cons]; omega
      · rename_i n hn
        split
        · simp [hd, ht, hn] at h
        · split
          · rename_i heq; simp [hd, ht, hn, heq] at h
          · simp only [tabRank, hd, ht, List.length_cons]; omega

def tabProg : Prog TabSt (Nat × Nat) where
  request := tabRequest
  step := tabStep
  rank := tabRank
  rank_step := tabStep_rank

end ArrowModel.C15
