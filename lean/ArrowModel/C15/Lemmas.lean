import ArrowModel.C15.Model
/-
C15 — helper lemmas: slices of slices, the `PushBuffers` invariant, one transition of the
decoder against the synchronous reference, the poll loop.
-/
namespace ArrowModel.C15

/-! ### file slices -/

theorem fileSlice_length (file : List Nat) (r : Range) (h : r.within file.length) :
    (fileSlice file r).length = r.stop - r.start := by
  unfold Range.within at h
  simp [fileSlice]; omega

/-- a slice of a slice is a slice -/
theorem slice_slice (file : List Nat) (a b s n : Nat) (h1 : a ≤ s) (h2 : s + n ≤ b) :
    (((file.drop a).take (b - a)).drop (s - a)).take n = (file.drop s).take n := by
  rw [List.drop_take, List.drop_drop, List.take_take]
  have e1 : a + (s - a) = s := by omega
  have e2 : min n (b - a - (s - a)) = n := by omega
  rw [e1, e2]

theorem covers_iff (a b : Range) : a.covers b = true ↔ a.start ≤ b.start ∧ b.stop ≤ a.stop := by
  simp [Range.covers]

theorem covers_trans (a b c : Range) (h1 : a.covers b = true) (h2 : b.covers c = true) :
    a.covers c = true := by
  rw [covers_iff] at *; omega

theorem covers_refl (a : Range) : a.covers a = true := by simp [Range.covers]

/-! ### the buffer invariant -/

/-- every held buffer is the file content of its range, and the range lies in the file -/
def Inv (file : List Nat) (pb : PushBuffers) : Prop :=
  ∀ e ∈ pb.entries, e.1.within file.length ∧ e.2 = fileSlice file e.1

/-- entries that are genuine file slices -/
def Genuine (file : List Nat) (es : List (Range × List Nat)) : Prop :=
  ∀ e ∈ es, e.1.within file.length ∧ e.2 = fileSlice file e.1

theorem genuine_slices (file : List Nat) (rs : List Range) (h : ∀ r ∈ rs, r.within file.length) :
    Genuine file (slices file rs) := by
  intro e he
  simp only [slices, List.mem_map] at he
  obtain ⟨r, hr, rfl⟩ := he
  exact ⟨h r hr, rfl⟩

theorem hasRange_iff (pb : PushBuffers) (r : Range) :
    pb.hasRange r = true ↔ ∃ e ∈ pb.entries, e.1.covers r = true := by
  simp [PushBuffers.hasRange, List.any_eq_true]

theorem getBytes_of_entry (file : List Nat) (pb : PushBuffers) (hinv : Inv file pb) (s n : Nat)
    (h : ∃ e ∈ pb.entries, e.1.start ≤ s ∧ s + n ≤ e.1.stop) :
    pb.getBytes s n = some (fileSlice file ⟨s, s + n⟩) := by
  unfold PushBuffers.getBytes
  obtain ⟨e, he, h1, h2⟩ := h
  cases hf : pb.entries.find? (fun e => decide (e.1.start ≤ s) && decide (s + n ≤ e.1.stop)) with
  | none =>
    rw [List.find?_eq_none] at hf
    have := hf e he
    simp [h1, h2] at this
  | some e' =>
    have hmem := List.mem_of_find?_eq_some hf
    have hp := List.find?_some hf
    simp only [Bool.and_eq_true, decide_eq_true_eq] at hp
    obtain ⟨hw, hd⟩ := hinv e' hmem
    simp only [hd, fileSlice]
    rw [slice_slice file e'.1.start e'.1.stop s n hp.1 hp.2]
    congr 2
    omega

theorem getBytes_none (pb : PushBuffers) (s n : Nat) (h : pb.hasRange ⟨s, s + n⟩ = false) :
    pb.getBytes s n = none := by
  unfold PushBuffers.getBytes
  cases hf : pb.entries.find? (fun e => decide (e.1.start ≤ s) && decide (s + n ≤ e.1.stop)) with
  | none => rfl
  | some e' =>
    have hmem := List.mem_of_find?_eq_some hf
    have hp := List.find?_some hf
    have : pb.hasRange ⟨s, s + n⟩ = true := by
      rw [hasRange_iff]; exact ⟨e', hmem, by simpa [Range.covers] using hp⟩
    rw [h] at this; cases this

theorem pushRange_genuine (file : List Nat) (pb : PushBuffers) (r : Range) (h : r.within file.length) :
    pb.pushRange r (fileSlice file r) = some { pb with entries := pb.entries ++ [(r, fileSlice file r)] } := by
  unfold PushBuffers.pushRange
  rw [fileSlice_length file r h]; simp

theorem pushZip_genuine (file : List Nat) (es : List (Range × List Nat)) (hg : Genuine file es) :
    ∀ pb : PushBuffers, pb.pushZip es = ({ pb with entries := pb.entries ++ es }, true) := by
  induction es with
  | nil => intro pb; simp [PushBuffers.pushZip]
  | cons e es ih =>
    intro pb
    obtain ⟨r, b⟩ := e
    have h1 := hg (r, b) (by simp)
    have hb : b = fileSlice file r := h1.2
    subst hb
    simp only [PushBuffers.pushZip]
    rw [pushRange_genuine file pb r h1.1]
    simp only
    rw [ih (fun e he => hg e (by simp [he]))]
    simp

theorem pushRanges_genuine (file : List Nat) (pb : PushBuffers) (es : List (Range × List Nat))
    (hg : Genuine file es) :
    pb.pushRanges (es.map (·.1)) (es.map (·.2)) = ({ pb with entries := pb.entries ++ es }, true) := by
  unfold PushBuffers.pushRanges
  simp only [List.length_map, ne_eq, not_true_eq_false, if_false]
  have : (es.map (·.1)).zip (es.map (·.2)) = es := by
    induction es with
    | nil => rfl
    | cons e es ih => simp [ih (fun e he => hg e (by simp [he]))]
  rw [this]
  exact pushZip_genuine file es hg pb

theorem inv_append (file : List Nat) (pb : PushBuffers) (es : List (Range × List Nat))
    (hinv : Inv file pb) (hg : Genuine file es) :
    Inv file { pb with entries := pb.entries ++ es } := by
  intro e he
  simp only [List.mem_append] at he
  rcases he with he | he
  · exact hinv e he
  · exact hg e he

theorem inv_clearRanges (file : List Nat) (pb : PushBuffers) (rs : List Range) (hinv : Inv file pb) :
    Inv file (pb.clearRanges rs) := by
  intro e he
  simp only [PushBuffers.clearRanges, List.mem_filter] at he
  exact hinv e he.1

theorem inv_clearAll (file : List Nat) (pb : PushBuffers) : Inv file pb.clearAll := by
  intro e he; simp [PushBuffers.clearAll] at he

/-- pushing only appends: whatever `push_ranges` answers, nothing that was available is lost -/
theorem pushZip_entries (es : List (Range × List Nat)) :
    ∀ pb : PushBuffers, ∃ extra, (pb.pushZip es).1.entries = pb.entries ++ extra := by
  induction es with
  | nil => intro pb; exact ⟨[], by simp [PushBuffers.pushZip]⟩
  | cons e es ih =>
    intro pb
    obtain ⟨r, b⟩ := e
    simp only [PushBuffers.pushZip]
    cases h : pb.pushRange r b with
    | none => exact ⟨[], by simp⟩
    | some pb' =>
      simp only
      obtain ⟨extra, hx⟩ := ih pb'
      unfold PushBuffers.pushRange at h
      split at h
      · cases h
      · cases h
        exact ⟨(r, b) :: extra, by simp [hx]⟩

/-! ### chunks of a satisfied request -/

theorem getChunks_of_covered (file : List Nat) (pb : PushBuffers) (hinv : Inv file pb) (req : List Range)
    (hw : ∀ r ∈ req, r.start ≤ r.stop) (hc : ∀ r ∈ req, pb.hasRange r = true) :
    pb.getChunks req = some (req.map (fileSlice file)) := by
  unfold PushBuffers.getChunks
  induction req with
  | nil => rfl
  | cons r rs ih =>
    have hr := hc r (by simp)
    rw [hasRange_iff] at hr
    obtain ⟨e, he, hcov⟩ := hr
    rw [covers_iff] at hcov
    have hle := hw r (by simp)
    have hb := getBytes_of_entry file pb hinv r.start (r.stop - r.start)
      ⟨e, he, hcov.1, by omega⟩
    have e1 : r.start + (r.stop - r.start) = r.stop := by omega
    rw [e1] at hb
    simp only [List.mapM_cons, hb, List.map_cons]
    rw [ih (fun r hr => hw r (by simp [hr])) (fun r hr => hc r (by simp [hr]))]
    rfl

theorem neededRanges_nil_iff (pb : PushBuffers) (req : List Range) :
    (pb.neededRanges req).isEmpty = true ↔ ∀ r ∈ req, pb.hasRange r = true := by
  simp [PushBuffers.neededRanges, List.isEmpty_iff, List.filter_eq_nil_iff]

/-! ### one transition against the reference -/

/-- every range the program ever asks for lies inside the file -/
def WF {σ β} (P : Prog σ β) (file : List Nat) : Prop :=
  ∀ s rs, P.request s = some rs → ∀ r ∈ rs, r.within file.length

theorem idealPoll_eq {σ β} (P : Prog σ β) (file : List Nat) (m : Mode) (s : σ) :
    idealPoll P file m s =
      match idealMicro P file m s with
      | (s', some e) => (s', e)
      | (s', none) => idealPoll P file m s' := by
  rw [idealPoll]
  split <;> rename_i h <;> simp [h]

theorem pollLoop_eq {σ β} (P : Prog σ β) (m : Mode) (d : Dec σ) :
    pollLoop P m d =
      match micro P m d with
      | (d', some e) => (d', e)
      | (d', none) => pollLoop P m d' := by
  rw [pollLoop]
  split <;> rename_i h <;> simp [h]

/-- what one transition does, given the invariant -/
inductive MicroOut {σ β} (P : Prog σ β) (file : List Nat) (m : Mode) (d : Dec σ) :
    Dec σ × Option (Event β) → Prop where
  | needs (req : List Range) (hreq : P.request d.ctl = some req)
      (hne : (d.buffers.neededRanges req).isEmpty = false) :
      MicroOut P file m d (d, some (.needsData (d.buffers.neededRanges req)))
  | step (d' : Dec σ) (hctl : d'.ctl = (idealMicro P file m d.ctl).1) (hinv : Inv file d'.buffers)
      (hfin : d'.finished = match (idealMicro P file m d.ctl).2 with | some e => e.isFinished | none => false)
      (hcov : ∀ r ∈ P.req d.ctl, d.buffers.hasRange r = true) :
      MicroOut P file m d (d', (idealMicro P file m d.ctl).2.map Event.emit)

theorem micro_out {σ β} (P : Prog σ β) (file : List Nat) (m : Mode) (d : Dec σ)
    (hinv : Inv file d.buffers) (hwf : WF P file) : MicroOut P file m d (micro P m d) := by
  unfold micro
  cases hreq : P.request d.ctl with
  | none =>
    simp only
    have hq : P.req d.ctl = [] := by simp [Prog.req, hreq]
    have : idealMicro P file m d.ctl = P.step m d.ctl [] := by simp [idealMicro, hq]
    rw [← this]
    exact MicroOut.step _ rfl hinv rfl (by simp [hq])
  | some req =>
    simp only
    have hq : P.req d.ctl = req := by simp [Prog.req, hreq]
    cases hne : (d.buffers.neededRanges req).isEmpty with
    | false => simp only [Bool.false_eq_true, if_false]; exact MicroOut.needs req hreq hne
    | true =>
      simp only [if_true]
      have hc := (neededRanges_nil_iff d.buffers req).1 hne
      have hw : ∀ r ∈ req, r.start ≤ r.stop := fun r hr => (hwf d.ctl req hreq r hr).1
      rw [getChunks_of_covered file d.buffers hinv req hw hc]
      simp only
      have : idealMicro P file m d.ctl = P.step m d.ctl (req.map (fileSlice file)) := by
        simp [idealMicro, hq]
      rw [← this]
      exact MicroOut.step _ rfl (inv_clearRanges file d.buffers req hinv) rfl (by rw [hq]; exact hc)

/-- what one `try_decode` / `try_next_reader` call does, given the invariant -/
structure PollOut {σ β} (P : Prog σ β) (file : List Nat) (m : Mode) (d : Dec σ) (r : Dec σ × Event β) : Prop where
  inv : Inv file r.1.buffers
  noError : r.2 ≠ .error
  needs : ∀ ms, r.2 = .needsData ms →
    idealPoll P file m r.1.ctl = idealPoll P file m d.ctl ∧ r.1.finished = false ∧
    P.rank r.1.ctl ≤ P.rank d.ctl ∧
    ∃ req, P.request r.1.ctl = some req ∧ ms = r.1.buffers.neededRanges req ∧ ms ≠ []
  emits : ∀ e, r.2 = .emit e →
    (r.1.ctl, e) = idealPoll P file m d.ctl ∧ r.1.finished = e.isFinished

theorem pollLoop_out {σ β} (P : Prog σ β) (file : List Nat) (m : Mode) (hwf : WF P file) :
    ∀ (n : Nat) (d : Dec σ), P.rank d.ctl < n → Inv file d.buffers → d.finished = false →
      PollOut P file m d (pollLoop P m d) := by
  intro n
  induction n with
  | zero => intro d h; omega
  | succ n ih =>
    intro d hn hinv hfin
    rw [pollLoop_eq]
    have hm := micro_out P file m d hinv hwf
    generalize hmd : micro P m d = md at hm
    cases hm with
    | needs req hreq hne =>
      simp only
      refine ⟨hinv, by simp, ?_, by simp⟩
      intro ms hms
      simp only [Event.needsData.injEq] at hms
      refine ⟨rfl, hfin, Nat.le_refl _, req, hreq, hms.symm, ?_⟩
      rw [← hms]; intro h; simp [h] at hne
    | step d' hctl hinv' hfin' hcov =>
      cases hi : (idealMicro P file m d.ctl).2 with
      | some e =>
        simp only [hi, Option.map_some]
        refine ⟨hinv', by simp, by simp, ?_⟩
        intro e' he'
        simp only [Event.emit.injEq] at he'
        subst he'
        rw [idealPoll_eq]
        have : idealMicro P file m d.ctl = ((idealMicro P file m d.ctl).1, some e) := by rw [← hi]
        rw [this]; simp only
        refine ⟨by rw [hctl], ?_⟩
        rw [hfin', hi]
      | none =>
        simp only [hi, Option.map_none]
        have hrank : P.rank d'.ctl < P.rank d.ctl := by
          rw [hctl]; unfold idealMicro at hi ⊢; exact P.rank_step m d.ctl _ hi
        have hfd : d'.finished = false := by rw [hfin', hi]
        have ih' := ih d' (by omega) hinv' hfd
        have hp : idealPoll P file m d.ctl = idealPoll P file m d'.ctl := by
          rw [idealPoll_eq P file m d.ctl]
          have : idealMicro P file m d.ctl = ((idealMicro P file m d.ctl).1, none) := by rw [← hi]
          rw [this, hctl]
        refine ⟨ih'.inv, ih'.noError, ?_, ?_⟩
        · intro ms hms
          obtain ⟨h1, h2, h3, h4⟩ := ih'.needs ms hms
          exact ⟨by rw [h1, hp], h2, by omega, h4⟩
        · intro e he
          obtain ⟨h1, h2⟩ := ih'.emits e he
          exact ⟨by rw [h1, hp], h2⟩

theorem poll_out {σ β} (P : Prog σ β) (file : List Nat) (m : Mode) (hwf : WF P file) (d : Dec σ)
    (hinv : Inv file d.buffers) (hfin : d.finished = false) : PollOut P file m d (poll P m d) := by
  unfold poll
  simp only [hfin, Bool.false_eq_true, if_false]
  exact pollLoop_out P file m hwf (P.rank d.ctl + 1) d (by omega) hinv hfin

/-- a call in a state whose request is already satisfied consumes the request: it emits, or
it stops later, at a strictly smaller rank -/
theorem poll_covered {σ β} (P : Prog σ β) (file : List Nat) (m : Mode) (hwf : WF P file) (d : Dec σ)
    (hinv : Inv file d.buffers) (hfin : d.finished = false)
    (hcov : ∀ r ∈ P.req d.ctl, d.buffers.hasRange r = true) :
    ∀ ms, (poll P m d).2 = .needsData ms → P.rank (poll P m d).1.ctl < P.rank d.ctl := by
  unfold poll
  simp only [hfin, Bool.false_eq_true, if_false]
  rw [pollLoop_eq]
  have hm := micro_out P file m d hinv hwf
  generalize hmd : micro P m d = md at hm
  cases hm with
  | needs req hreq hne =>
    exfalso
    have hq : P.req d.ctl = req := by simp [Prog.req, hreq]
    rw [hq] at hcov
    have := (neededRanges_nil_iff d.buffers req).2 hcov
    rw [this] at hne; cases hne
  | step d' hctl hinv' hfin' _ =>
    cases hi : (idealMicro P file m d.ctl).2 with
    | some e => simp [hi]
    | none =>
      simp only [hi, Option.map_none]
      have hrank : P.rank d'.ctl < P.rank d.ctl := by
        rw [hctl]; unfold idealMicro at hi ⊢; exact P.rank_step m d.ctl _ hi
      have hfd : d'.finished = false := by rw [hfin', hi]
      have out := pollLoop_out P file m hwf (P.rank d'.ctl + 1) d' (by omega) hinv' hfd
      intro ms hms
      have := (out.needs ms hms).2.2.1
      omega

/-- pushing genuine data: same control state, invariant kept, nothing lost, the new entries held -/
theorem push_genuine {σ} (file : List Nat) (d : Dec σ) (es : List (Range × List Nat))
    (hg : Genuine file es) (hfin : d.finished = false) :
    (d.push es).1 = { d with buffers := { d.buffers with entries := d.buffers.entries ++ es } } ∧
    (d.push es).2 = true := by
  unfold Dec.push
  simp only [hfin, Bool.false_eq_true, if_false]
  rw [pushRanges_genuine file d.buffers es hg]
  simp [hfin]

theorem hasRange_append (pb : PushBuffers) (es : List (Range × List Nat)) (r : Range) :
    ({ pb with entries := pb.entries ++ es } : PushBuffers).hasRange r =
      (pb.hasRange r || es.any (fun e => e.1.covers r)) := by
  simp [PushBuffers.hasRange, List.any_append]

end ArrowModel.C15
