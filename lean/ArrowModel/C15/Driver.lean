import ArrowModel.Common.Proto
import ArrowModel.C15.Spec
import ArrowModel.C15.Model
/-
C15 driver: one case per line → one canonical answer per line.

* `pb`  — `PushBuffers` unit operations on a file with a fixed byte pattern; the answer is
  computed by the model; every `get_bytes` is also checked against the specification
  ("a held range covers the request ⇒ exactly `file[request]`, otherwise `need`").
* `rd`  — the decoder state machine (`micro`/`poll`/`Dec.push`/`clearRanges`) instantiated
  with the table program of the observed phases, run over the explicit schedule of the case.
* `as`  — `asyncPoll` over the same table program with the pending pattern of the case.
-/
namespace ArrowModel.C15
open ArrowModel.Proto

def parseRange (s : String) : Option Range :=
  match s.splitOn "-" with
  | [a, b] => do pure ⟨← a.toNat?, ← b.toNat?⟩
  | _ => none

def parseRanges (s : String) : Option (List Range) :=
  if s = "-" then some [] else (s.splitOn "+").mapM parseRange

def showRanges (rs : List Range) : String :=
  if rs.isEmpty then "-" else "+".intercalate (rs.map (fun r => s!"{r.start}-{r.stop}"))

def parsePhase (s : String) : Option Phase :=
  match s.splitOn "/" with
  | [r, k] => do
    let rs ← parseRanges r
    if k = "x" then pure ⟨rs, none⟩ else pure ⟨rs, some (← k.toNat?)⟩
  | _ => none

def parsePhases (s : String) : Option (List Phase) :=
  if s = "-" then some [] else (s.splitOn ";").mapM parsePhase

def parseMode (s : String) : Option Mode :=
  if s = "d" then some .batch else if s = "n" then some .reader else none

/-- the byte pattern of the `pb` file -/
def pat (i : Nat) : Nat := (i * 31 + 7) % 251
def patSlice (start len : Nat) : List Nat := (List.range len).map (fun i => pat (start + i))
def patFile (n : Nat) : List Nat := patSlice 0 n

def okErr (b : Bool) : String := if b then "ok" else "err"

/-- one `pb` operation: new buffers and the answer token -/
def pbOp (pb : PushBuffers) (op : String) : Option (PushBuffers × String) :=
  let k := (op.take 1).toString
  let rest := (op.drop 1).toString
  match k with
  | "p" => do
    let rs ← parseRanges rest
    match rs with
    | [r] =>
      match pb.pushRange r (patSlice r.start (r.stop - r.start)) with
      | some pb' => pure (pb', "ok")
      | none => pure (pb, "err")
    | _ =>
      let r := pb.pushRanges rs (rs.map (fun r => patSlice r.start (r.stop - r.start)))
      pure (r.1, okErr r.2)
  | "q" =>
    match rest.splitOn ":" with
    | [r, n] => do
      let r ← parseRange r
      let n ← n.toNat?
      match pb.pushRange r (patSlice r.start n) with
      | some pb' => pure (pb', "ok")
      | none => pure (pb, "err")
    | _ => none
  | "Q" =>
    match rest.splitOn ":" with
    | [r, n] => do
      let rs ← parseRanges r
      let k ← n.toNat?
      let bufs := rs.map (fun r => patSlice r.start (r.stop - r.start))
      let bufs :=
        if k = 99 then bufs.dropLast
        else bufs.mapIdx (fun i b => if i = k then (if b.isEmpty then [0] else b.dropLast) else b)
      let r := pb.pushRanges rs bufs
      pure (r.1, okErr r.2)
    | _ => none
  | "g" =>
    match rest.splitOn ":" with
    | [s, n] => do
      let s ← s.toNat?
      let n ← n.toNat?
      let model := match pb.getBytes s n with
        | some b => s!"ok:{toHex b}"
        | none => s!"need:{s}-{s + n}"
      -- specification: some ONE held range covers the request ⇒ exactly the file bytes
      let spec := if pb.hasRange ⟨s, s + n⟩ then s!"ok:{toHex (fileSlice (patFile pb.fileLen) ⟨s, s + n⟩)}"
                  else s!"need:{s}-{s + n}"
      pure (pb, if model = spec then model else s!"MODEL-SPEC-MISMATCH model={model} spec={spec}")
    | _ => none
  | "r" =>
    match rest.splitOn ":" with
    | s :: ns => do
      let s ← s.toNat?
      let ns ← ns.mapM (·.toNat?)
      let rd := pb.getRead s
      let (_, out) := ns.foldl (fun (acc : PushBuffers × List String) n =>
        match acc.1.read n with
        | some (b, rd') => (rd', acc.2 ++ [toHex b])
        | none => (acc.1, acc.2 ++ ["eof"])) (rd, [])
      pure (pb, "rd:" ++ "/".intercalate out)
    | _ => none
  | "l" => some (pb, s!"len:{pb.fileLen}")
  | _ => none

def runPb (flen : Nat) (ops : String) : String :=
  if ops = "-" then "-" else
  let r := (ops.splitOn ";").foldl (fun (acc : Option (PushBuffers × List String)) op =>
    match acc with
    | none => none
    | some (pb, out) =>
      match pbOp pb op with
      | some (pb', tok) => some (pb', out ++ [tok])
      | none => none) (some ({ fileLen := flen }, []))
  match r with
  | some (_, out) =>
    match out.find? (·.startsWith "MODEL-SPEC-MISMATCH") with
    | some m => m
    | none => ",".intercalate out
  | none => "bad-op"

inductive SAct where
  | push (rs : List Range)
  | poll
  | clear
  | rebuild
  | pollOther
  | short (r : Range)

def parseAct (s : String) : Option SAct :=
  let k := (s.take 1).toString
  if k = "P" then (parseRanges (s.drop 1).toString).map SAct.push
  else if k = "T" then some .poll
  else if k = "C" then some .clear
  else if k = "B" then some .rebuild
  else if k = "U" then some .pollOther
  else if k = "W" then (parseRanges (s.drop 1).toString).map SAct.push   -- `with_buffers`: held before the first call
  else if k = "X" then (parseRange (s.drop 1).toString).map SAct.short
  else none

def parseSched (s : String) : Option (List SAct) :=
  if s = "-" then some [] else (s.splitOn ",").mapM parseAct

def showEvent (e : Event (Nat × Nat)) : String :=
  match e with
  | .needsData rs => "N" ++ showRanges rs
  | .emit (.batch _) => "D"
  | .emit (.reader bs) => s!"R{bs.length}"
  | .emit .finished => "F"
  | .error => "E"

structure RdSt where
  /-- `ParquetMetaDataPushDecoder`: `Data` and `Finished` coincide (`DecodeState::Finished` is set
  when the metadata is returned) -/
  md : Bool := false
  d : Dec TabSt
  boundary : Bool := true
  errored : Bool := false
  out : List String := []

def pollWith (m : Mode) (st : RdSt) : RdSt :=
  let r := poll tabProg m st.d
  let fin := st.md && (match r.2 with | .emit (.batch _) => true | _ => false)
  { md := st.md, d := if fin then { r.1 with finished := true } else r.1, out := st.out ++ [showEvent r.2],
    boundary := (match r.2 with | .emit (.reader _) => true | _ => false),
    errored := (match r.2 with | .error => true | _ => false) }

/-- the schedule loop of the harness: stop at an error; `B` succeeds exactly at a row-group
boundary (initially, and right after a reader was handed out) -/
def rdStep (m : Mode) (st : RdSt) (a : SAct) : RdSt :=
  if st.errored then st else
  match a with
  | .push rs =>
    let r := st.d.push (rs.map (fun r => (r, List.replicate (r.stop - r.start) 0)))
    { st with d := r.1, out := if r.2 then st.out else st.out ++ ["p0"] }
  | .clear => { st with d := st.d.clear }
  | .rebuild =>
    if st.boundary && !st.d.finished then { st with out := st.out ++ ["b1"] }
    else { st with out := st.out ++ ["b0"] }
  | .short r =>
    -- a buffer one byte short of its range: `push_range` rejects it and the decoder is left Finished
    let res := st.d.push [(r, List.replicate (r.stop - r.start - 1) 0)]
    { st with d := res.1, out := st.out ++ [if res.2 then "x1" else "x0"] }
  | .poll => pollWith m st
  | .pollOther => pollWith (match m with | .batch => .reader | .reader => .batch) st

def runRd (m : Mode) (flen : Nat) (phases : List Phase) (sched : List SAct) (md : Bool := false) : String :=
  let st0 : RdSt := { md := md, d := { ctl := { todo := phases, decoding := none, idx := 0 }, buffers := { fileLen := flen } } }
  let st := sched.foldl (rdStep m) st0
  -- `buffered_bytes()` at the end (a finished decoder holds nothing)
  let bb := if st.d.finished then 0 else st.d.buffers.bufferedBytes
  let evs := if st.out.isEmpty then "-" else ",".intercalate st.out
  s!"{evs} bb={bb}"

def showPoll (r : PollRes (Nat × Nat)) : String :=
  match r with
  | .pending => "P"
  | .ready (.batch _) => "D"
  | .ready (.reader bs) => s!"R{bs.length}"
  | .ready .finished => "F"
  | .error => "E"

/-- poll the stream until it ends -/
def asLoop (m : Mode) (file : List Nat) : Nat → AsyncSt TabSt → String → AsyncSt TabSt × String
  | 0, a, acc => (a, acc)
  | n + 1, a, acc =>
    let r := asyncPoll tabProg file m (2 * tabRank a.dec.ctl + 8) a
    let acc := acc ++ showPoll r.2
    match r.2 with
    | .ready .finished => (r.1, acc)
    | .error => (r.1, acc)
    | _ => asLoop m file n r.1 acc

def runAs (m : Mode) (vectored : Bool) (pend : List Nat) (flen : Nat) (phases : List Phase) : String :=
  let a0 : AsyncSt TabSt :=
    { dec := { ctl := { todo := phases, decoding := none, idx := 0 }, buffers := { fileLen := flen } },
      pend := pend, vectored := vectored }
  -- the table program never looks at the bytes: an all-zero file of the right length
  let budget := 4 * phases.length + (phases.map (fun p => p.batches.getD 0)).sum + pend.sum + 16
  let r := asLoop m (List.replicate flen 0) budget a0 ""
  s!"{r.2} {showRanges r.1.fetched.flatten}"

def handle (toks : List String) : String :=
  match toks with
  | ["pb", flen, ops] =>
    match flen.toNat? with
    | some n => runPb n ops
    | none => "bad-op"
  | ["rd", _file, _opts, mode, flen, phases, sched] =>
    match parseMode mode, flen.toNat?, parsePhases phases, parseSched sched with
    | some m, some n, some ps, some sc => runRd m n ps sc
    | _, _, _, _ => "bad-op"
  | ["as", _file, _opts, mode, vectored, _meta, pend, flen, phases] =>
    match parseMode mode, parseList (·.toNat?) pend, flen.toNat?, parsePhases phases with
    | some m, some pd, some n, some ps => runAs m (vectored = "1") pd n ps
    | _, _, _, _ => "bad-op"
  -- the metadata push decoder: same buffer discipline, one range per request, the last phase yields
  -- the metadata (`D`); it never releases buffers, so `buffered_bytes` is not part of the answer
  | ["md", _file, _pol, flen, phases, sched] =>
    match flen.toNat?, parsePhases phases, parseSched sched with
    | some n, some ps, some sc =>
      let r := runRd .batch n ps sc true
      (r.splitOn " bb=").headD r
    | _, _, _ => "bad-op"
  -- oracle-only: `into_builder` with changed (row-preserving) options; phases are not predictable
  | ["rb", _file, _opts, _mode, _sched] => "SKIP"
  -- out-of-domain probe (a cancelled `next_row_group` future): recorded, never compared
  | ["cn", _file, _opts, _k] => "SKIP"
  | _ => "bad-op"

end ArrowModel.C15
