import ArrowModel.C15.Lemmas
/-
C15 — property theorems.  "The push decoder (and the async stream that drives it) return
what the synchronous run returns, whatever the I/O layer does; every requested range lies in
the file and supplying the requested ranges always allows progress."

`file` is any byte list, `P` any reader program (`rgProg cfg` is the push decoder's control
side), the buffers are any `PushBuffers` that hold genuine file content (`Inv`).  Nothing is
bounded: schedules, programs, files and adversaries are universally quantified.
-/
namespace ArrowModel.C15

/-! ## `PushBuffers` -/

/-- **`has_range r → get_bytes r = file[r]`.**  Whatever was pushed (any order, duplicates,
overlaps, supersets), if `has_range` says a range is available then `get_bytes` returns
exactly the file's bytes for it. -/
theorem getBytes_of_hasRange (file : List Nat) (pb : PushBuffers) (hinv : Inv file pb) (r : Range)
    (hr : r.start ≤ r.stop) (h : pb.hasRange r = true) :
    pb.getBytes r.start (r.stop - r.start) = some (fileSlice file r) := by
  rw [hasRange_iff] at h
  obtain ⟨e, he, hc⟩ := h
  rw [covers_iff] at hc
  have := getBytes_of_entry file pb hinv r.start (r.stop - r.start) ⟨e, he, hc.1, by omega⟩
  have e1 : r.start + (r.stop - r.start) = r.stop := by omega
  rw [e1] at this
  exact this

/-- non-vacuity: a buffer holding two genuine slices of a 10-byte file -/
example : Inv [0, 1, 2, 3, 4, 5, 6, 7, 8, 9]
    { fileLen := 10, entries := [(⟨2, 6⟩, [2, 3, 4, 5]), (⟨4, 9⟩, [4, 5, 6, 7, 8])] } := by
  intro e he
  simp at he
  rcases he with rfl | rfl <;> exact ⟨by decide, by decide⟩

/-- conversely `get_bytes` answers `NeedMoreDataRange` exactly when `has_range` is false:
the two functions agree on what "available" means (one held buffer containing the range). -/
theorem getBytes_none_iff (pb : PushBuffers) (s n : Nat) :
    pb.getBytes s n = none ↔ pb.hasRange ⟨s, s + n⟩ = false := by
  constructor
  · intro h
    cases hh : pb.hasRange ⟨s, s + n⟩ with
    | false => rfl
    | true =>
      rw [hasRange_iff] at hh
      obtain ⟨e, he, hc⟩ := hh
      rw [covers_iff] at hc
      unfold PushBuffers.getBytes at h
      cases hf : pb.entries.find? (fun e => decide (e.1.start ≤ s) && decide (s + n ≤ e.1.stop)) with
      | none =>
        rw [List.find?_eq_none] at hf
        have := hf e he
        dsimp only at hc
        simp only [Bool.and_eq_true, decide_eq_true_eq, not_and] at this
        exact absurd hc.2 (this hc.1)
      | some e' => rw [hf] at h; cases h
  · exact getBytes_none pb s n

/-- **Non-coalescing, as written**: two adjacent held ranges do not make their union available. -/
example : ({ fileLen := 8, entries := [(⟨0, 4⟩, [0, 1, 2, 3]), (⟨4, 8⟩, [4, 5, 6, 7])] } : PushBuffers).hasRange ⟨0, 8⟩ = false := by
  decide

/-- **Pushing genuine file slices keeps the invariant** (`push_ranges` accepts them all). -/
theorem push_preserves_inv (file : List Nat) (pb : PushBuffers) (hinv : Inv file pb)
    (es : List (Range × List Nat)) (hg : Genuine file es) :
    (pb.pushRanges (es.map (·.1)) (es.map (·.2))).2 = true ∧
    Inv file (pb.pushRanges (es.map (·.1)) (es.map (·.2))).1 := by
  rw [pushRanges_genuine file pb es hg]
  exact ⟨rfl, inv_append file pb es hinv hg⟩

/-- `push_range` rejects a buffer whose length is not the range's length (a short read can
never enter the buffers). -/
theorem pushRange_rejects_wrong_length (pb : PushBuffers) (r : Range) (buf : List Nat)
    (h : buf.length ≠ r.stop - r.start) : pb.pushRange r buf = none := by
  unfold PushBuffers.pushRange
  rw [if_pos (by omega)]

/-- **Monotonicity**: pushing more — whatever `push_ranges` answers, even an `Err` half way —
never turns `has_range` false. -/
theorem hasRange_mono_push (pb : PushBuffers) (rs : List Range) (bufs : List (List Nat)) (r : Range)
    (h : pb.hasRange r = true) : (pb.pushRanges rs bufs).1.hasRange r = true := by
  unfold PushBuffers.pushRanges
  split
  · exact h
  · obtain ⟨extra, hx⟩ := pushZip_entries (rs.zip bufs) pb
    rw [hasRange_iff] at h ⊢
    obtain ⟨e, he, hc⟩ := h
    exact ⟨e, by rw [hx]; simp [he], hc⟩

/-- **Independence of push order, duplicates, supersets and extra pushes**: if every range held
by `pb` is contained in some range held by `pb'` (a permutation, a duplication, widened
ranges, additional ranges, the whole file), everything available in `pb` is available in
`pb'` … -/
theorem hasRange_of_dominated (pb pb' : PushBuffers)
    (hdom : ∀ e ∈ pb.entries, ∃ e' ∈ pb'.entries, e'.1.covers e.1 = true) (r : Range)
    (h : pb.hasRange r = true) : pb'.hasRange r = true := by
  rw [hasRange_iff] at h ⊢
  obtain ⟨e, he, hc⟩ := h
  obtain ⟨e', he', hc'⟩ := hdom e he
  exact ⟨e', he', covers_trans _ _ _ hc' hc⟩

/-- … and `get_bytes` returns the same bytes from both. -/
theorem getBytes_schedule_independent (file : List Nat) (pb pb' : PushBuffers)
    (hinv : Inv file pb) (hinv' : Inv file pb')
    (hdom : ∀ e ∈ pb.entries, ∃ e' ∈ pb'.entries, e'.1.covers e.1 = true) (r : Range)
    (hr : r.start ≤ r.stop) (h : pb.hasRange r = true) :
    pb'.getBytes r.start (r.stop - r.start) = pb.getBytes r.start (r.stop - r.start) := by
  rw [getBytes_of_hasRange file pb hinv r hr h,
    getBytes_of_hasRange file pb' hinv' r hr (hasRange_of_dominated pb pb' hdom r h)]

/-- permutations in particular -/
theorem hasRange_perm (pb pb' : PushBuffers) (hp : pb.entries.Perm pb'.entries) (r : Range) :
    pb.hasRange r = pb'.hasRange r := by
  cases h : pb.hasRange r with
  | true =>
    exact (hasRange_of_dominated pb pb' (fun e he => ⟨e, hp.subset he, covers_refl _⟩) r h).symm
  | false =>
    cases h' : pb'.hasRange r with
    | false => rfl
    | true =>
      have := hasRange_of_dominated pb' pb (fun e he => ⟨e, hp.symm.subset he, covers_refl _⟩) r h'
      rw [h] at this; cases this

/-- whatever is available lies inside the file -/
theorem hasRange_within_file (file : List Nat) (pb : PushBuffers) (hinv : Inv file pb) (r : Range)
    (h : pb.hasRange r = true) : r.stop ≤ file.length := by
  rw [hasRange_iff] at h
  obtain ⟨e, he, hc⟩ := h
  rw [covers_iff] at hc
  have := (hinv e he).1.2
  omega

/-- **`clear_ranges` releases exactly-matching buffers only**: the invariant is kept, and a range
that is available through a buffer which is not literally one of the cleared ranges (e.g. a
wider buffer pushed early) stays available. -/
theorem clearRanges_spec (file : List Nat) (pb : PushBuffers) (hinv : Inv file pb) (rs : List Range) :
    Inv file (pb.clearRanges rs) ∧
    ∀ e ∈ pb.entries, e.1 ∉ rs → ∀ r, e.1.covers r = true → (pb.clearRanges rs).hasRange r = true := by
  refine ⟨inv_clearRanges file pb rs hinv, ?_⟩
  intro e he hne r hc
  rw [hasRange_iff]
  refine ⟨e, ?_, hc⟩
  simp only [PushBuffers.clearRanges, List.mem_filter, Bool.not_eq_true', List.any_eq_false,
    Bool.and_eq_true, beq_iff_eq, not_and]
  refine ⟨he, ?_⟩
  intro x hx h1 h2
  apply hne
  have : x = e.1 := by cases x; cases h : e.1; simp_all
  rw [← this]; exact hx

/-! ## The decoder under an arbitrary schedule -/

/-- all pushes of a schedule deliver genuine file content (any ranges, any grouping) -/
def GenuineSched (file : List Nat) (acts : List Action) : Prop :=
  ∀ a ∈ acts, ∀ es, a = .push es → Genuine file es

theorem idealRun_congr {σ β} (P : Prog σ β) (file : List Nat) (m : Mode) (s s' : σ)
    (h : idealPoll P file m s = idealPoll P file m s') (n : Nat) :
    idealRun P file m n s false = idealRun P file m n s' false := by
  cases n with
  | zero => rfl
  | succ n => simp only [idealRun, h]

/-- **Schedule independence (safety).**  For EVERY schedule — pushes of genuine file bytes in
any order, any grouping, any number of calls, duplicates, supersets, unrelated ranges, the
whole file, before or after they are asked for; `clear_all_ranges` at any time; decode calls
at any time — the sequence of results other than `NeedsData` is exactly the sequence the
synchronous run (every request served from the file) produces in as many calls, and no call
fails.  Proof: induction over the schedule; a call's result depends on the buffers only
through `has_range`/`get_bytes` of the requested ranges, which are the file's bytes. -/
theorem schedule_independence {σ β} (P : Prog σ β) (file : List Nat) (m : Mode) (hwf : WF P file)
    (acts : List Action) (hg : GenuineSched file acts) :
    ∀ d : Dec σ, Inv file d.buffers →
      Event.emits (runSched P m acts d) =
        idealRun P file m (Event.emits (runSched P m acts d)).length d.ctl d.finished ∧
      Event.error ∉ runSched P m acts d := by
  induction acts with
  | nil => intro d _; simp [runSched, Event.emits, idealRun]
  | cons a as ih =>
    have hgs : GenuineSched file as := fun a ha => hg a (by simp [ha])
    intro d hinv
    cases a with
    | push es =>
      simp only [runSched]
      have hge : Genuine file es := hg (.push es) (by simp) es rfl
      cases hfin : d.finished with
      | true =>
        have : (d.push es).1 = d := by simp [Dec.push, hfin]
        rw [this]; have := ih hgs d hinv; rw [hfin] at this; exact this
      | false =>
        have hp := (push_genuine file d es hge hfin).1
        have := ih hgs (d.push es).1 (by rw [hp]; exact inv_append file d.buffers es hinv hge)
        rw [hp] at this ⊢
        simpa [hfin] using this
    | clear =>
      simp only [runSched]
      exact ih hgs d.clear (inv_clearAll file d.buffers)
    | poll =>
      simp only [runSched]
      cases hfin : d.finished with
      | true =>
        have hp : poll P m d = (d, .emit .finished) := by simp [poll, hfin]
        rw [hp]
        have := ih hgs d hinv
        rw [hfin] at this
        simp only [Event.emits, List.length_cons, idealRun, List.mem_cons, reduceCtorEq, false_or]
        exact ⟨by rw [← this.1], this.2⟩
      | false =>
        have out := poll_out P file m hwf d hinv hfin
        have ih' := ih hgs (poll P m d).1 out.inv
        cases hev : (poll P m d).2 with
        | error => exact absurd hev out.noError
        | needsData ms =>
          obtain ⟨h1, h2, _, _⟩ := out.needs ms hev
          simp only [Event.emits, List.mem_cons, reduceCtorEq, false_or]
          rw [h2] at ih'
          refine ⟨?_, ih'.2⟩
          rw [← idealRun_congr P file m _ _ h1]
          exact ih'.1
        | emit e =>
          obtain ⟨h1, h2⟩ := out.emits e hev
          simp only [Event.emits, List.length_cons, idealRun, List.mem_cons, reduceCtorEq, false_or]
          rw [← h1]
          rw [h2] at ih'
          exact ⟨by rw [← ih'.1], ih'.2⟩

/-- non-vacuity: a schedule that supplies a superset early, polls, supplies a range late, and
clears; all its pushes are genuine slices of the file `[10, …, 17]` -/
example : GenuineSched [10, 11, 12, 13, 14, 15, 16, 17]
    [.push [(⟨0, 6⟩, [10, 11, 12, 13, 14, 15])], .poll, .clear, .poll, .push [(⟨6, 8⟩, [16, 17])], .poll] := by
  intro a ha es he
  subst he
  simp at ha
  rcases ha with rfl | rfl <;> (intro e hx; simp at hx; subst hx; exact ⟨by decide, by decide⟩)

/-- **Requested ranges**: every `NeedsData` a call returns is non-empty, consists of ranges of
the current request that are really not available, and lies inside the file (given the
program's requests do). -/
theorem needsData_ranges {σ β} (P : Prog σ β) (file : List Nat) (m : Mode) (hwf : WF P file)
    (d : Dec σ) (hinv : Inv file d.buffers) (hfin : d.finished = false) (ms : List Range)
    (h : (poll P m d).2 = .needsData ms) :
    ms ≠ [] ∧ ∀ r ∈ ms, r.within file.length ∧ (poll P m d).1.buffers.hasRange r = false ∧
      r ∈ P.req (poll P m d).1.ctl := by
  obtain ⟨_, _, _, req, hreq, hms, hne⟩ := (poll_out P file m hwf d hinv hfin).needs ms h
  refine ⟨hne, ?_⟩
  intro r hr
  rw [hms] at hr
  simp only [PushBuffers.neededRanges, List.mem_filter, Bool.not_eq_true'] at hr
  exact ⟨hwf _ req hreq r hr.1, hr.2, by simp [Prog.req, hreq, hr.1]⟩

/-- **Sufficiency / progress.**  After a call answered `NeedsData ms`, push any genuine data in
which each range of `ms` is contained in ONE pushed range (exactly `ms`, in any order,
duplicated, widened, with extras, the whole file).  Then the next call does not ask for the
same thing again: it returns data / finished, or it asks from a strictly later state of
the program (smaller rank) — it never stays where it was. -/
theorem progress_after_supply {σ β} (P : Prog σ β) (file : List Nat) (m : Mode) (hwf : WF P file)
    (d : Dec σ) (hinv : Inv file d.buffers) (hfin : d.finished = false) (ms : List Range)
    (h : (poll P m d).2 = .needsData ms)
    (es : List (Range × List Nat)) (hg : Genuine file es)
    (hcover : ∀ r ∈ ms, ∃ e ∈ es, e.1.covers r = true) :
    let d1 := ((poll P m d).1.push es).1
    (poll P m d1).2 ≠ .error ∧
    ∀ ms', (poll P m d1).2 = .needsData ms' → P.rank (poll P m d1).1.ctl < P.rank (poll P m d).1.ctl := by
  intro d1
  have out := poll_out P file m hwf d hinv hfin
  obtain ⟨_, hf1, _, req, hreq, hms, _⟩ := out.needs ms h
  have hp := (push_genuine file (poll P m d).1 es hg hf1).1
  have hctl : d1.ctl = (poll P m d).1.ctl := by show ((poll P m d).1.push es).1.ctl = _; rw [hp]
  have hinv1 : Inv file d1.buffers := by
    show Inv file ((poll P m d).1.push es).1.buffers; rw [hp]; exact inv_append file _ es out.inv hg
  have hfin1 : d1.finished = false := by show ((poll P m d).1.push es).1.finished = false; rw [hp]; exact hf1
  have hcov : ∀ r ∈ P.req d1.ctl, d1.buffers.hasRange r = true := by
    intro r hr
    rw [hctl] at hr
    simp only [Prog.req, hreq, Option.getD_some] at hr
    show ((poll P m d).1.push es).1.buffers.hasRange r = true
    rw [hp]; simp only
    rw [hasRange_append]
    cases hh : (poll P m d).1.buffers.hasRange r with
    | true => rfl
    | false =>
      have : r ∈ ms := by
        rw [hms]; simp [PushBuffers.neededRanges, hr, hh]
      obtain ⟨e, he, hc⟩ := hcover r this
      simp only [Bool.false_or, List.any_eq_true]
      exact ⟨e, he, hc⟩
  refine ⟨(poll_out P file m hwf d1 hinv1 hfin1).noError, ?_⟩
  intro ms' hms'
  rw [← hctl]
  exact poll_covered P file m hwf d1 hinv1 hfin1 hcov ms' hms'

/-- **One requested range per call is enough** (the liveness step for an I/O layer that answers
only part of a request): after `NeedsData ms`, genuine data that covers at least one range of
`ms` makes the next call either advance (emit / smaller rank) or ask again for exactly the
ranges of `ms` that are still uncovered — a strictly shorter list.  So every partial answer
strictly decreases the pair (rank, number of missing ranges). -/
theorem progress_partial_supply {σ β} (P : Prog σ β) (file : List Nat) (m : Mode) (hwf : WF P file)
    (d : Dec σ) (hinv : Inv file d.buffers) (hfin : d.finished = false) (ms : List Range)
    (h : (poll P m d).2 = .needsData ms)
    (es : List (Range × List Nat)) (hg : Genuine file es)
    (r0 : Range) (hr0 : r0 ∈ ms) (hc0 : ∃ e ∈ es, e.1.covers r0 = true) :
    let d1 := ((poll P m d).1.push es).1
    ∀ ms', (poll P m d1).2 = .needsData ms' →
      P.rank (poll P m d1).1.ctl < P.rank (poll P m d).1.ctl ∨
      (ms' = ms.filter (fun r => !es.any (fun e => e.1.covers r)) ∧ ms'.length < ms.length) := by
  intro d1 ms' hms'
  have out := poll_out P file m hwf d hinv hfin
  obtain ⟨_, hf1, _, req, hreq, hms, _⟩ := out.needs ms h
  have hp := (push_genuine file (poll P m d).1 es hg hf1).1
  have hctl : d1.ctl = (poll P m d).1.ctl := by show ((poll P m d).1.push es).1.ctl = _; rw [hp]
  have hbuf : d1.buffers = { (poll P m d).1.buffers with entries := (poll P m d).1.buffers.entries ++ es } := by
    show ((poll P m d).1.push es).1.buffers = _; rw [hp]
  have hinv1 : Inv file d1.buffers := by rw [hbuf]; exact inv_append file _ es out.inv hg
  have hfin1 : d1.finished = false := by show ((poll P m d).1.push es).1.finished = false; rw [hp]; exact hf1
  by_cases hall : ∀ r ∈ P.req d1.ctl, d1.buffers.hasRange r = true
  · left; rw [← hctl]; exact poll_covered P file m hwf d1 hinv1 hfin1 hall ms' hms'
  · right
    have hm := micro_out P file m d1 hinv1 hwf
    unfold poll at hms'
    simp only [hfin1, Bool.false_eq_true, if_false] at hms'
    rw [pollLoop_eq] at hms'
    generalize hmd : micro P m d1 = md at hm hms'
    cases hm with
    | step d'' _ _ _ hcov => exact absurd hcov hall
    | needs req' hreq' hne =>
      simp only [Event.needsData.injEq] at hms'
      have hrq : req' = req := by
        rw [hctl, hreq] at hreq'; cases hreq'; rfl
      subst hrq
      have key : d1.buffers.neededRanges req' = ms.filter (fun r => !es.any (fun e => e.1.covers r)) := by
        rw [hms, hbuf]
        simp only [PushBuffers.neededRanges, List.filter_filter]
        apply List.filter_congr
        intro r _
        rw [hasRange_append]
        cases (poll P m d).1.buffers.hasRange r <;> cases es.any (fun e => e.1.covers r) <;> rfl
      rw [← hms', key]
      refine ⟨rfl, ?_⟩
      apply List.length_filter_lt_length_iff_exists.2
      obtain ⟨e, he, hc⟩ := hc0
      refine ⟨r0, hr0, ?_⟩
      simp only [Bool.not_eq_true', Bool.not_eq_false, List.any_eq_true]
      exact ⟨e, he, hc⟩

/-- the adversary answers every request with ranges inside the file among which each requested
range is contained in one supplied range -/
def Responsive (file : List Nat) (adv : Nat → List Range → List Range) : Prop :=
  ∀ k ms, (∀ r ∈ ms, r.within file.length) →
    (∀ r ∈ adv k ms, r.within file.length) ∧ ∀ r ∈ ms, ∃ r' ∈ adv k ms, r'.covers r = true

theorem settle_covered {σ β} (P : Prog σ β) (file : List Nat) (m : Mode) (hwf : WF P file)
    (adv : Nat → List Range → List Range) (hadv : Responsive file adv) :
    ∀ (n : Nat) (d : Dec σ), P.rank d.ctl < n → Inv file d.buffers → d.finished = false →
      (∀ r ∈ P.req d.ctl, d.buffers.hasRange r = true) →
      ∃ d' e, settle P file m adv n d = (d', some e) ∧ (d'.ctl, e) = idealPoll P file m d.ctl ∧
        Inv file d'.buffers ∧ d'.finished = e.isFinished := by
  intro n
  induction n with
  | zero => intro d h; omega
  | succ n ih =>
    intro d hn hinv hfin hcov
    have out := poll_out P file m hwf d hinv hfin
    simp only [settle]
    cases hev : (poll P m d).2 with
    | error => exact absurd hev out.noError
    | emit e =>
      obtain ⟨h1, h2⟩ := out.emits e hev
      have : poll P m d = ((poll P m d).1, Event.emit e) := by rw [← hev]
      rw [this]
      exact ⟨_, e, rfl, h1, out.inv, h2⟩
    | needsData ms =>
      have hlt := poll_covered P file m hwf d hinv hfin hcov ms hev
      have nd := needsData_ranges P file m hwf d hinv hfin ms hev
      obtain ⟨hi, hf1, _, req, hreq, hms, _⟩ := out.needs ms hev
      have hw : ∀ r ∈ ms, r.within file.length := fun r hr => (nd.2 r hr).1
      obtain ⟨hin, hcv⟩ := hadv n ms hw
      have hg := genuine_slices file (adv n ms) hin
      have hp := (push_genuine file (poll P m d).1 _ hg hf1).1
      have : poll P m d = ((poll P m d).1, Event.needsData ms) := by rw [← hev]
      rw [this]; simp only
      have hcover : ∀ r ∈ ms, ∃ e ∈ slices file (adv n ms), e.1.covers r = true := by
        intro r hr
        obtain ⟨r', hr', hc⟩ := hcv r hr
        exact ⟨(r', fileSlice file r'), by simp only [slices, List.mem_map]; exact ⟨r', hr', rfl⟩, hc⟩
      have hcov' : ∀ r ∈ P.req ((poll P m d).1.push (slices file (adv n ms))).1.ctl,
          ((poll P m d).1.push (slices file (adv n ms))).1.buffers.hasRange r = true := by
        intro r hr
        rw [hp] at hr ⊢
        simp only [Prog.req, hreq, Option.getD_some] at hr
        simp only
        rw [hasRange_append]
        cases hh : (poll P m d).1.buffers.hasRange r with
        | true => rfl
        | false =>
          have : r ∈ ms := by rw [hms]; simp [PushBuffers.neededRanges, hr, hh]
          obtain ⟨e, he, hc⟩ := hcover r this
          simp only [Bool.false_or, List.any_eq_true]
          exact ⟨e, he, hc⟩
      have := ih ((poll P m d).1.push (slices file (adv n ms))).1
        (by rw [hp]; simp only; omega)
        (by rw [hp]; exact inv_append file _ _ out.inv hg)
        (by rw [hp]; exact hf1) hcov'
      obtain ⟨d', e, h1, h2, h3, h4⟩ := this
      refine ⟨d', e, h1, ?_, h3, h4⟩
      rw [h2, hp]; simp only; exact hi

/-- **One productive call under a responsive I/O layer.**  However the adversary answers (as long
as each requested range is inside one supplied range), within `rank + 2` calls the decoder
produces exactly what the synchronous run produces, and the buffers still hold genuine data. -/
theorem settle_complete {σ β} (P : Prog σ β) (file : List Nat) (m : Mode) (hwf : WF P file)
    (adv : Nat → List Range → List Range) (hadv : Responsive file adv)
    (d : Dec σ) (hinv : Inv file d.buffers) (hfin : d.finished = false) :
    ∃ d' e, settle P file m adv (P.rank d.ctl + 2) d = (d', some e) ∧
      (d'.ctl, e) = idealPoll P file m d.ctl ∧ Inv file d'.buffers ∧ d'.finished = e.isFinished := by
  have out := poll_out P file m hwf d hinv hfin
  simp only [settle]
  cases hev : (poll P m d).2 with
  | error => exact absurd hev out.noError
  | emit e =>
    obtain ⟨h1, h2⟩ := out.emits e hev
    have : poll P m d = ((poll P m d).1, Event.emit e) := by rw [← hev]
    rw [this]
    exact ⟨_, e, rfl, h1, out.inv, h2⟩
  | needsData ms =>
    have nd := needsData_ranges P file m hwf d hinv hfin ms hev
    obtain ⟨hi, hf1, hrk, req, hreq, hms, _⟩ := out.needs ms hev
    have hw : ∀ r ∈ ms, r.within file.length := fun r hr => (nd.2 r hr).1
    obtain ⟨hin, hcv⟩ := hadv (P.rank d.ctl + 1) ms hw
    have hg := genuine_slices file (adv (P.rank d.ctl + 1) ms) hin
    have hp := (push_genuine file (poll P m d).1 _ hg hf1).1
    have : poll P m d = ((poll P m d).1, Event.needsData ms) := by rw [← hev]
    rw [this]; simp only
    have hcov' : ∀ r ∈ P.req ((poll P m d).1.push (slices file (adv (P.rank d.ctl + 1) ms))).1.ctl,
        ((poll P m d).1.push (slices file (adv (P.rank d.ctl + 1) ms))).1.buffers.hasRange r = true := by
      intro r hr
      rw [hp] at hr ⊢
      simp only [Prog.req, hreq, Option.getD_some] at hr
      simp only
      rw [hasRange_append]
      cases hh : (poll P m d).1.buffers.hasRange r with
      | true => rfl
      | false =>
        have : r ∈ ms := by rw [hms]; simp [PushBuffers.neededRanges, hr, hh]
        obtain ⟨r', hr', hc⟩ := hcv r this
        simp only [Bool.false_or, List.any_eq_true]
        exact ⟨(r', fileSlice file r'), by simp only [slices, List.mem_map]; exact ⟨r', hr', rfl⟩, hc⟩
    have := settle_covered P file m hwf adv hadv (P.rank d.ctl + 1)
      ((poll P m d).1.push (slices file (adv (P.rank d.ctl + 1) ms))).1
      (by rw [hp]; simp only; omega)
      (by rw [hp]; exact inv_append file _ _ out.inv hg)
      (by rw [hp]; exact hf1) hcov'
    obtain ⟨d', e, h1, h2, h3, h4⟩ := this
    refine ⟨d', e, h1, ?_, h3, h4⟩
    rw [h2, hp]; simp only; exact hi

/-- **Schedule independence (completeness).**  Driven by ANY responsive I/O layer — exactly
the requested ranges in any order, each duplicated, widened, with unrelated extras, the whole
file — `n` productive calls return exactly the first `n` results of the synchronous run.
With `schedule_independence` (which also covers unsolicited early pushes and clears) this is
the I/O half of C15 for the push decoder. -/
theorem driveRun_complete {σ β} (P : Prog σ β) (file : List Nat) (m : Mode) (hwf : WF P file)
    (adv : Nat → List Range → List Range) (hadv : Responsive file adv) :
    ∀ (n : Nat) (d : Dec σ), Inv file d.buffers →
      driveRun P file m adv n d = idealRun P file m n d.ctl d.finished := by
  intro n
  induction n with
  | zero => intro d _; rfl
  | succ n ih =>
    intro d hinv
    cases hfin : d.finished with
    | true =>
      have : settle P file m adv (P.rank d.ctl + 2) d = (d, some .finished) := by
        simp [settle, poll, hfin]
      simp only [driveRun, this, idealRun]
      have := ih d hinv
      rw [hfin] at this
      rw [this]
    | false =>
      obtain ⟨d', e, h1, h2, h3, h4⟩ := settle_complete P file m hwf adv hadv d hinv hfin
      simp only [driveRun, h1, idealRun]
      rw [← h2]
      rw [ih d' h3, h4]

/-- non-vacuity: answering with the whole file is responsive -/
example (file : List Nat) : Responsive file (fun _ _ => [⟨0, file.length⟩]) := by
  intro k ms hms
  refine ⟨by intro r hr; simp at hr; subst hr; exact ⟨Nat.zero_le _, Nat.le_refl _⟩, ?_⟩
  intro r hr
  exact ⟨⟨0, file.length⟩, by simp, by rw [covers_iff]; exact ⟨Nat.zero_le _, (hms r hr).2⟩⟩

/-! ## The async stream -/

/-- **A pending future changes nothing**: a `poll_next` that finds the outstanding fetch not
ready returns `Pending` and leaves the decoder, the request and the fetch log untouched — so
the number and placement of `Pending`s cannot influence any later result. -/
theorem asyncPoll_pending {σ β} (P : Prog σ β) (file : List Nat) (m : Mode) (fuel : Nat) (a : AsyncSt σ)
    (ranges : List Range) (k : Nat) (h : a.rs = .outstanding ranges (k + 1)) :
    asyncPoll P file m (fuel + 1) a = ({ a with rs := .outstanding ranges k }, .pending) := by
  simp [asyncPoll, h]

/-- **The stream pushes exactly what was asked for, once ready**: when the outstanding fetch
completes, the bytes of exactly the requested ranges are pushed and decoding resumes — i.e.
the stream is the responsive driver of `settle_complete` with the identity adversary. -/
theorem asyncPoll_ready {σ β} (P : Prog σ β) (file : List Nat) (m : Mode) (fuel : Nat) (a : AsyncSt σ)
    (ranges : List Range) (h : a.rs = .outstanding ranges 0)
    (hw : ∀ r ∈ ranges, r.within file.length) (hfin : a.dec.finished = false) :
    asyncPoll P file m (fuel + 1) a =
      asyncPoll P file m fuel { a with dec := (a.dec.push (slices file ranges)).1, rs := .none } := by
  have := (push_genuine file a.dec _ (genuine_slices file ranges hw) hfin).2
  simp [asyncPoll, h, this]

/-! ## The push decoder's control side (`rgProg`) -/

section control
variable {Plan Chunks GSel Batch : Type}

/-- **Requested ranges lie in the file**, given the range computations
(`InMemoryRowGroup::fetch_ranges` for a predicate / the output projection) do: then all
theorems above apply to the push decoder as modelled. -/
theorem rgProg_wf (cfg : Cfg Plan Chunks GSel Batch) (file : List Nat)
    (hf : ∀ rg k p c, ∀ r ∈ cfg.filterRanges rg k p c, r.within file.length)
    (hd : ∀ rg p c, ∀ r ∈ cfg.dataRanges rg p c, r.within file.length) :
    WF (rgProg cfg) file := by
  intro s rs hreq r hr
  simp only [rgProg, ctlRequest] at hreq
  split at hreq
  · cases hreq; exact hf _ _ _ _ r hr
  · cases hreq; exact hd _ _ _ r hr
  · cases hreq

/-- a small configuration: one predicate, every row group asks for `0..4` to filter and `4..8`
to decode -/
def demoCfg : Cfg Unit Unit Unit Nat where
  numPreds := 1
  rowCount := fun _ => 10
  gselCount := fun _ => 0
  gselSplit := fun s _ => (s, s)
  initPlan := fun _ => ()
  selectsAny := fun _ => true
  noChunks := ()
  filterRanges := fun _ _ _ _ => [⟨0, 4⟩]
  evalPred := fun _ _ _ p c _ => (p, c)
  rowsSelected := fun _ n => n
  budgetPlan := fun _ p _ => p
  dataRanges := fun _ _ _ => [⟨4, 8⟩]
  mkReader := fun rg _ _ chunks => [rg + chunks.length]

/-- non-vacuity of `WF` for the push decoder's program on an 8-byte file -/
example : WF (rgProg demoCfg) [0, 1, 2, 3, 4, 5, 6, 7] :=
  rgProg_wf demoCfg _ (by intro _ _ _ _ r hr; simp [demoCfg] at hr; subst hr; decide)
    (by intro _ _ _ r hr; simp [demoCfg] at hr; subst hr; decide)

/-- the push decoder, any schedule: instance of `schedule_independence` -/
theorem pushDecoder_schedule_independence (cfg : Cfg Plan Chunks GSel Batch) (file : List Nat) (m : Mode)
    (hf : ∀ rg k p c, ∀ r ∈ cfg.filterRanges rg k p c, r.within file.length)
    (hd : ∀ rg p c, ∀ r ∈ cfg.dataRanges rg p c, r.within file.length)
    (acts : List Action) (hg : GenuineSched file acts) (d : Dec (Ctl Plan Chunks GSel Batch))
    (hinv : Inv file d.buffers) :
    Event.emits (runSched (rgProg cfg) m acts d) =
      idealRun (rgProg cfg) file m (Event.emits (runSched (rgProg cfg) m acts d)).length d.ctl d.finished :=
  (schedule_independence (rgProg cfg) file m (rgProg_wf cfg file hf hd) acts hg d hinv).1

/-- the filter bookkeeping invariant (`self.filter.take()` / put back) of a control state -/
def FilterInv (cfg : Cfg Plan Chunks GSel Batch) (c : Ctl Plan Chunks GSel Batch) : Prop :=
  match c.rg with
  | .filters .. => c.frontier.hasPredicates = true ∧ cfg.numPreds ≠ 0 ∧ c.filterAvail = false
  | .waitingOnFilterData .. => c.frontier.hasPredicates = true ∧ cfg.numPreds ≠ 0 ∧ c.filterAvail = false
  | _ => c.frontier.hasPredicates = (c.filterAvail && cfg.numPreds != 0)

theorem frontierStep_hasPredicates (cfg : Cfg Plan Chunks GSel Batch) (f : Frontier GSel) :
    (frontierStep cfg f).1.hasPredicates = f.hasPredicates := by
  unfold frontierStep
  split
  · rfl
  · dsimp only
    repeat' split
    all_goals rfl

/-- the invariant holds initially and is kept by every transition: the filter is always put
back before the row group is left -/
theorem filterInv_step (cfg : Cfg Plan Chunks GSel Batch) (m : Mode) (c : Ctl Plan Chunks GSel Batch)
    (chunks : List (List Nat)) (h : FilterInv cfg c) : FilterInv cfg (ctlStep cfg m c chunks).1 := by
  unfold ctlStep
  split
  · split
    · exact h
    · split <;> exact h
  · split
    · rename_i hrg
      have hp := frontierStep_hasPredicates cfg c.frontier
      simp only [FilterInv, hrg] at h
      split <;> rename_i f _ hf <;> (rw [hf] at hp; simp only at hp; simp only [FilterInv, hrg, hp, h])
    · rename_i info hrg
      simp only [FilterInv, hrg] at h
      split
      · rename_i hc
        simp only [FilterInv, h]
        simp only [Bool.or_eq_true, Bool.not_eq_true', beq_iff_eq] at hc
        rcases hc with hc | hc <;> simp [hc]
      · rename_i hc
        simp only [Bool.or_eq_true, Bool.not_eq_true', beq_iff_eq, not_or, Bool.not_eq_false] at hc
        simp only [FilterInv, h, hc.1]
        simp [hc.2]
    · rename_i info ch k hrg
      simp only [FilterInv, hrg] at h
      split
      · simp only [FilterInv, h.1]; simp [h.2.1]
      · simp only [FilterInv]; exact h
    · rename_i info k ch hrg
      simp only [FilterInv, hrg] at h
      dsimp only
      split
      · simp only [FilterInv, h.1]; simp [h.2.1]
      · simp only [FilterInv]; exact h
    · rename_i info ch hrg
      simp only [FilterInv, hrg] at h
      dsimp only
      split <;> simp only [FilterInv] <;> exact h
    · rename_i info ch hrg
      simp only [FilterInv, hrg] at h
      dsimp only
      split
      · simp only [FilterInv]; exact h
      · split <;> simp only [FilterInv] <;> exact h

theorem filterInv_build (cfg : Cfg Plan Chunks GSel Batch) (rowGroups : List Nat) (selection : Option GSel)
    (offset limit : Option Nat) (hasFilter : Bool) :
    FilterInv cfg (buildCtl cfg rowGroups selection offset limit hasFilter) := by
  simp [FilterInv, buildCtl]

/-- **`into_builder` + `build` at a row-group boundary is the identity** on the decoder state
(remaining row groups, remaining selection, remaining offset/limit budget, filter, buffered
bytes): with unchanged options the rebuilt decoder *is* the old one, so every theorem above
continues to hold across any number of rebuilds at any boundaries. -/
theorem rebuild_eq_self (cfg : Cfg Plan Chunks GSel Batch) (d : Dec (Ctl Plan Chunks GSel Batch))
    (hI : FilterInv cfg d.ctl) (hb : atBoundary d = true) : rebuild cfg d = some d := by
  unfold rebuild
  rw [if_pos hb]
  obtain ⟨c, b, fin⟩ := d
  obtain ⟨f, fa, rg, dec⟩ := c
  obtain ⟨rgs, sel, bud, hp⟩ := f
  cases rg with
  | finished =>
    simp only [atBoundary, Bool.and_eq_true, Bool.not_eq_true', Option.isNone_iff_eq_none, and_true] at hb
    obtain ⟨h1, h2⟩ := hb
    subst h1; subst h2
    simp only [FilterInv] at hI
    subst hI
    rfl
  | _ => simp [atBoundary] at hb

/-- `into_builder` away from a boundary is refused -/
theorem rebuild_refused (cfg : Cfg Plan Chunks GSel Batch) (d : Dec (Ctl Plan Chunks GSel Batch))
    (hb : atBoundary d = false) : rebuild cfg d = none := by
  unfold rebuild; rw [if_neg (by simp [hb])]

end control

/-! ## Offset / limit budget over row groups -/

/-- `RowBudget::rows_after` is the naive offset-then-limit count -/
theorem rowsAfter_spec (b : RowBudget) (n : Nat) :
    b.rowsAfter n = rowsAfterSpec (b.offset.getD 0) b.limit n := by
  unfold RowBudget.rowsAfter rowsAfterSpec
  cases b.limit <;> rfl

theorem advance_eq (b : RowBudget) (n a : Nat) :
    b.advance n a = ⟨b.offset.map (fun o => o - (n - a)), b.limit.map (· - a)⟩ := by
  unfold RowBudget.advance
  by_cases h : a = 0
  · subst h; cases b.limit <;> simp [Generated.C15.BUDGET_ADVANCE_SKIP_WHEN]
  · simp [h, Generated.C15.BUDGET_ADVANCE_SKIP_WHEN]

/-- **Budget distribution**: applying the budget to one row group with `n1` selected rows and the
advanced budget to the next with `n2` selected rows emits, in total, what applying the original
budget to `n1 + n2` rows emits, and leaves the same remaining budget. -/
theorem rowBudget_distributes (b : RowBudget) (n1 n2 : Nat) :
    b.rowsAfter n1 + (b.advance n1 (b.rowsAfter n1)).rowsAfter n2 = b.rowsAfter (n1 + n2) ∧
    (b.advance n1 (b.rowsAfter n1)).advance n2 ((b.advance n1 (b.rowsAfter n1)).rowsAfter n2)
      = b.advance (n1 + n2) (b.rowsAfter (n1 + n2)) := by
  simp only [advance_eq]
  obtain ⟨o, l⟩ := b
  cases o <;> cases l <;>
    simp only [RowBudget.rowsAfter, Generated.C15.BUDGET_DEFAULT_OFFSET, Option.getD_none, Option.getD_some,
      Option.map_none, Option.map_some, RowBudget.mk.injEq, Option.some.injEq, and_true, true_and, Nat.sub_zero] <;>
    omega

/-- the rows each row group of a scan emits, threading the budget (`apply_to_plan` /
`plan_selected_row_group`) -/
def budgetedRows (b : RowBudget) : List Nat → List Nat
  | [] => []
  | n :: ns => b.rowsAfter n :: budgetedRows (b.advance n (b.rowsAfter n)) ns

/-- **Offset/limit over any number of row groups**: the per-row-group budgets add up to the
global offset/limit applied to all selected rows. -/
theorem budgetedRows_sum (ns : List Nat) : ∀ b : RowBudget, (budgetedRows b ns).sum = b.rowsAfter ns.sum := by
  induction ns with
  | nil =>
    intro b
    obtain ⟨o, l⟩ := b
    cases l <;> simp [budgetedRows, RowBudget.rowsAfter]
  | cons n ns ih =>
    intro b
    simp only [budgetedRows, List.sum_cons]
    rw [ih]
    exact (rowBudget_distributes b n ns.sum).1

/-- non-vacuity: offset 25, limit 20 over row groups of 10, 30 and 40 selected rows -/
example : budgetedRows ⟨some 25, some 20⟩ [10, 30, 40] = [0, 15, 5] := by decide

/-! ## Source shapes the model mirrors -/

/-- **T-tie of expression shapes.**  The guard and slicing expressions of `PushBuffers`
(`has_range`, `get_bytes`, `clear_ranges`, `push_range`), `DataRequest::needed_ranges`, the
release of consumed requests, the `WaitingOn…` arms, `push_ranges`' state handling and the two
places where the async stream pushes the fetched bytes are matched against the current source on
every run; an edit to any of them makes this obligation fail (and the check then searches for a
failing input). -/
theorem source_shapes_unchanged :
    (Generated.C15.HAS_RANGE_SHAPE_lost || Generated.C15.GET_BYTES_SHAPE_lost ||
     Generated.C15.READ_SHAPE_lost || Generated.C15.CLEAR_RANGES_SHAPE_lost ||
     Generated.C15.PUSH_RANGE_SHAPE_lost || Generated.C15.NEEDED_RANGES_SHAPE_lost ||
     Generated.C15.GET_CHUNKS_CLEAR_SHAPE_lost || Generated.C15.WAITING_ARMS_SHAPE_lost ||
     Generated.C15.PUSH_DATA_STATE_SHAPE_lost || Generated.C15.ASYNC_POLL_PUSH_SHAPE_lost ||
     Generated.C15.ASYNC_NEXT_RG_PUSH_SHAPE_lost || Generated.C15.FILTER_PUT_BACK_SHAPE_lost) = false := rfl

end ArrowModel.C15
