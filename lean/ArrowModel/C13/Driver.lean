import ArrowModel.Common.Proto
import ArrowModel.C13.Spec
import ArrowModel.C13.Model
import ArrowModel.C13.Float
import ArrowModel.C13.DType
/-
C13 driver: one case line → one canonical answer line, computed by the *model*; where a
specification exists (and the inputs are inside the property's domain) the specification is
evaluated too and `MODEL-SPEC-MISMATCH` is printed when the two differ.
-/
namespace ArrowModel.C13
open ArrowModel.Proto

inductive Val where
  | i (x : Int)
  | s (cs : List Char)
  | b (bs : List Nat)
  | t (xs : List Int)
deriving BEq, Inhabited

inductive Ty where
  | int (lo hi : Int)
  | dec (w p : Nat) (s : Int)
  | bool | str | float (eb fb : Nat) | null | bin | fsb (n : Nat) | iym | idt | imdn
  | ts (u : Nat) | dur (u : Nat) | date32 | date64 | t32 (u : Nat) | t64 (u : Nat)
deriving BEq

def unitIdx (u : String) : Option Nat :=
  match u with | "s" => some 0 | "ms" => some 1 | "us" => some 2 | "ns" => some 3 | _ => none

/-- `time_unit_multiple` -/
def unitMult (u : Nat) : Nat :=
  match u with
  | 0 => 1
  | 1 => Generated.C13.MILLISECONDS
  | 2 => Generated.C13.MICROSECONDS
  | _ => Generated.C13.NANOSECONDS

def parseTy (t : String) : Option Ty :=
  match t with
  | "i8" => some (.int (-128) 127) | "i16" => some (.int (-32768) 32767)
  | "i32" => some (.int (-2147483648) 2147483647)
  | "i64" => some (.int (-9223372036854775808) 9223372036854775807)
  | "u8" => some (.int 0 255) | "u16" => some (.int 0 65535) | "u32" => some (.int 0 4294967295)
  | "u64" => some (.int 0 18446744073709551615)
  | "f16" => some (.float 5 10) | "f32" => some (.float 8 23) | "f64" => some (.float 11 52)
  | "bool" => some .bool
  | "null" => some .null
  | "bin" | "lbin" | "binv" => some .bin
  | "iym" => some .iym | "idt" => some .idt | "imdn" => some .imdn
  | "utf8" | "lutf8" | "utf8v" => some .str
  | "date32" => some .date32 | "date64" => some .date64
  | _ =>
    match t.splitOn ":" with
    | [d, p, s] =>
      let w := match d with | "d32" => some 32 | "d64" => some 64 | "d128" => some 128 | "d256" => some 256 | _ => none
      match w, p.toNat?, Proto.parseInt s with
      | some w, some p, some s => some (.dec w p s)
      | _, _, _ => none
    | ["fsb", n] => n.toNat?.map .fsb
    | ["ts", u] => (unitIdx u).map .ts
    | ["dur", u] => (unitIdx u).map .dur
    | ["t32", u] => (unitIdx u).map .t32
    | ["t64", u] => (unitIdx u).map .t64
    | _ => none

def i32lo : Int := -2147483648
def i32hi : Int := 2147483647
def i64lo : Int := -9223372036854775808
def i64hi : Int := 9223372036854775807

/-- physical integer range of a type stored as an integer -/
def physRange : Ty → Option (Int × Int)
  | .int lo hi => some (lo, hi)
  | .date32 | .t32 _ => some (i32lo, i32hi)
  | .date64 | .ts _ | .dur _ | .t64 _ => some (i64lo, i64hi)
  | _ => none

/-- how a cast is executed -/
inductive Plan where
  | unsupported
  | typeErr
  | skip
  /-- `unary_opt` / `try_unary` with a row function; the `Option` in the middle is the spec
  (reference conversion) when one exists -/
  | rowwise (f : Val → Option Val) (spec : Option (Val → Option Val))
  /-- `unary` over all slots; `none` = panic -/
  | allSlots (f : Val → Option Val) (spec : Option (Val → Option Val))
  | zeros (spec : Option (Val → Option Val))
  | ident

def liftI (f : Int → Option Int) : Val → Option Val
  | .i x => (f x).map .i
  | _ => none

def parseHexStr (s : String) : Option (List Char) := do
  let bs ← parseHex (if s.length = 1 then "-" else (s.drop 1).toString)
  -- strings are ASCII or UTF-8; decode bytes through String.fromUTF8?
  let ba := ByteArray.mk (bs.map (fun b => b.toUInt8)).toArray
  (String.fromUTF8? ba).map String.toList

def showHexStr (cs : List Char) : String :=
  let bs := (String.ofList cs).toUTF8.toList.map (fun b => b.toNat)
  "x" ++ (if bs.isEmpty then "" else toHex bs)

/-- unit change used by Timestamp→Timestamp and Duration→Duration -/
def unitChange (u1 u2 : Nat) : Plan :=
  let a := unitMult u1
  let b := unitMult u2
  if a > b then
    -- from_size / to_size with sizes "units per second": here a finer source has the larger multiple
    .rowwise (liftI (fun x => some (tdivNat x (a / b)))) (some (liftI (divUnitSpec (a / b))))
  else if a = b then .ident
  else .rowwise (liftI (mulChecked 64 (b / a))) (some (liftI (mulUnitSpec i64lo i64hi (b / a))))

def dayMs : Nat := Generated.C13.SECONDS_IN_DAY * Generated.C13.MILLISECONDS

def plan (src dst : Ty) : Plan :=
  if src == dst then .ident else
  if src == .null then .zeros none else
  if (match dst with | .dec w p s => !validDecType w p s | _ => false) then .typeErr else
  match src, dst with
  -- floating point
  | .float eb fb, .dec w p s =>
    let model : Val → Option Val := liftI (fun bits => floatToDec w p s (decodeF eb fb bits.toNat))
    -- the specification (exact product, exact rounding) applies where the binary64 product
    -- `10^s * v` carries no rounding error; elsewhere only the algorithm model is compared
    let spec : Val → Option Val := liftI (fun bits =>
      let v := decodeF eb fb bits.toNat
      match v with
      | .fin neg m e => if prodExact s v then floatToDecSpec p s neg m e else floatToDec w p s v
      | _ => none)
    .rowwise model (some spec)
  | .float eb fb, .int lo hi =>
    .rowwise (liftI (fun bits => floatToInt lo hi (decodeF eb fb bits.toNat)))
      (some (liftI (fun bits => match decodeF eb fb bits.toNat with
        | .fin neg m e => floatToIntSpec lo hi neg m e
        | _ => none)))
  | .int _ _, .float eb fb =>
    .rowwise (liftI (fun x => some (encodeF eb fb
      (if eb = 5 then fconv 5 10 (intToFloat 8 23 x) else intToFloat eb fb x)))) none
  | .float eb1 fb1, .float eb2 fb2 =>
    .rowwise (liftI (fun bits => some (encodeF eb2 fb2 (toFormat eb2 fb2 (decodeF eb1 fb1 bits.toNat))))) none
  | .bool, .float eb fb =>
    .rowwise (liftI (fun x => some (encodeF eb fb (if x = 0 then .fin false 0 (1 - fbias eb - fb) else rneRat eb fb false 1 1)))) none
  | .float eb fb, .bool =>
    .rowwise (liftI (fun bits => some (if floatNonZero (decodeF eb fb bits.toNat) then 1 else 0))) none
  | .dec w _ s, .float eb fb =>
    .allSlots (liftI (fun x => some (encodeF eb fb (decToFloat w s eb fb x)))) none
  | .float _ _, _ | _, .float _ _ => .skip
  -- decimals
  | .dec w1 p1 s1, .dec w2 p2 s2 =>
    let spec := some (liftI (decToDecSpec s1 p2 s2))
    (match decToDec w1 p1 s1 w2 p2 s2 with
     | .typeError => .typeErr
     | .zeros => .zeros spec
     | .identity => .ident
     | .fallible f => .rowwise (liftI f) spec
     | .infallible f => .allSlots (liftI f) spec)
  | .int _ hi, .dec w p s =>
    (match intToDec hi w p s with
     | none => .typeErr
     | some f => .rowwise (liftI f) (some (liftI (intToDecSpec p s))))
  | .dec w _ s, .int lo hi =>
    (match decToInt w s lo hi with
     | none => .typeErr
     | some f => .rowwise (liftI f) (some (liftI (decToIntSpec s lo hi))))
  | .dec _ p s, .str => .rowwise (fun v => match v with | .i x => some (.s (formatDecimal x p s)) | _ => none) none
  | .str, .dec w p s =>
    if s < 0 ∨ s > (maxPrecision w : Int) then .typeErr
    else .rowwise (fun v => match v with | .s cs => (parseDecimal w p s.toNat cs).map .i | _ => none) none
  -- intervals
  | .iym, .imdn => .allSlots (fun v => match v with | .t [m] => some (.t [m, 0, 0]) | _ => none) none
  | .int lo _, .iym => if lo = i32lo then .rowwise (fun v => match v with | .i x => some (.t [x]) | _ => none) none else .skip
  | .idt, .imdn => .allSlots (fun v => match v with | .t [d, ms] => some (.t [0, d, ms * 1000000]) | _ => none) none
  | .dur u, .imdn =>
    .rowwise (fun v => match v with
      | .i x => (mulChecked 64 (Generated.C13.NANOSECONDS / unitMult u) x).map (fun n => .t [0, 0, n])
      | _ => none) none
  | .imdn, .dur u =>
    .rowwise (fun v => match v with
      | .t [m, d, ns] => if m = 0 ∧ d = 0 then some (.i (tdivNat ns (Generated.C13.NANOSECONDS / unitMult u))) else none
      | _ => none) none
  -- byte containers
  | .bin, .bin => .ident
  | .bin, .str =>
    -- `try_from_binary` / `extend_valid_utf8`: a value converts iff it is valid UTF-8
    .rowwise (fun v => match v with
      | .b bs => if ByteArray.validateUTF8 (ByteArray.mk (bs.map (fun b => b.toUInt8)).toArray) then some (.b bs) else none
      | _ => none) none
  | .str, .bin => .ident
  | .fsb _, .bin => .ident
  | .bin, .fsb n => .rowwise (fun v => match v with | .b bs => if bs.length = n then some (.b bs) else none | _ => none) none
  | .int _ hi, .bin =>
    -- `cast_numeric_to_binary`: the little-endian native bytes
    let w : Nat := if hi = 127 ∨ hi = 255 then 1 else if hi = 32767 ∨ hi = 65535 then 2 else if hi = i32hi ∨ hi = 4294967295 then 4 else 8
    .rowwise (fun v => match v with
      | .i x => some (.b (natToBytes w ((x % (2 ^ (8 * w) : Int)).toNat)))
      | _ => none) none
  -- integers, booleans, text
  | .int _ _, .int lo hi => .rowwise (liftI (numCast lo hi)) (some (liftI (intCastSpec lo hi)))
  | .int _ _, .bool => .rowwise (liftI (fun x => some (if x = 0 then 0 else 1))) none
  | .bool, .int _ _ => .rowwise (liftI (fun x => some x)) none
  | .bool, .str => .rowwise (fun v => match v with | .i x => some (.s (formatBool (x ≠ 0))) | _ => none) none
  | .str, .bool => .rowwise (fun v => match v with | .s cs => (parseBool cs).map (fun b => .i (if b then 1 else 0)) | _ => none) none
  | .int _ _, .str => .rowwise (fun v => match v with | .i x => some (.s (formatInt x)) | _ => none) none
  | .str, .int lo hi => .rowwise (fun v => match v with | .s cs => (parseInt lo hi cs).map .i | _ => none) none
  -- temporal
  | .ts u1, .ts u2 => unitChange u1 u2
  | .dur u1, .dur u2 => unitChange u1 u2
  | .ts u, .date64 =>
    (match u with
     | 0 => .rowwise (liftI (mulChecked 64 Generated.C13.MILLISECONDS)) (some (liftI (mulUnitSpec i64lo i64hi Generated.C13.MILLISECONDS)))
     | 1 => .ident
     | _ => .rowwise (liftI (fun x => some (tdivNat x (unitMult u / Generated.C13.MILLISECONDS))))
              (some (liftI (divUnitSpec (unitMult u / Generated.C13.MILLISECONDS)))))
  | .date32, .ts u =>
    let m := Generated.C13.SECONDS_IN_DAY * unitMult u
    if u ≤ 1 then .allSlots (liftI (fun x => some (x * m))) (some (liftI (mulUnitSpec i64lo i64hi m)))
    else .rowwise (liftI (mulChecked 64 m)) (some (liftI (mulUnitSpec i64lo i64hi m)))
  | .date64, .ts u =>
    (match u with
     | 0 => .allSlots (liftI (fun x => some (tdivNat x Generated.C13.MILLISECONDS))) (some (liftI (divUnitSpec Generated.C13.MILLISECONDS)))
     | 1 => .ident
     -- `x.checked_mul(MICROSECONDS / MILLISECONDS)` / `(NANOSECONDS / MILLISECONDS)` (unary_opt / try_unary)
     | _ => let m := unitMult u / Generated.C13.MILLISECONDS
            .rowwise (liftI (mulChecked 64 m)) (some (liftI (mulUnitSpec i64lo i64hi m))))
  | .date32, .date64 => .allSlots (liftI (fun x => some (x * dayMs))) (some (liftI (mulUnitSpec i64lo i64hi dayMs)))
  | .date64, .date32 =>
    .rowwise (liftI (fun x => numCast i32lo i32hi (tdivNat x dayMs)))
      (some (liftI (fun x => intCastSpec i32lo i32hi (divTrunc x dayMs))))
  -- reinterpretations through Int64 / Int32
  | .int _ _, .ts _ | .int _ _, .dur _ => .rowwise (liftI (numCast i64lo i64hi)) (some (liftI (intCastSpec i64lo i64hi)))
  | .ts _, .int lo hi | .dur _, .int lo hi => .rowwise (liftI (numCast lo hi)) (some (liftI (intCastSpec lo hi)))
  | .int lo hi, .date32 => if lo = i32lo ∨ (lo = i64lo ∧ hi = i64hi) then .rowwise (liftI (numCast i32lo i32hi)) none else .unsupported
  | .date32, .int lo hi => if lo = i32lo ∨ (lo = i64lo ∧ hi = i64hi) then .ident else .unsupported
  | .int lo hi, .date64 =>
    if lo = i64lo ∧ hi = i64hi then .ident
    else if lo = i32lo then .allSlots (liftI (fun x => some (x * dayMs))) none   -- Int32 → Date32 → Date64
    else .unsupported
  | .date64, .int lo hi =>
    if lo = i64lo ∧ hi = i64hi then .ident
    else if lo = i32lo then .rowwise (liftI (numCast i32lo i32hi)) none
    else .unsupported
  -- time of day
  | .t32 0, .t32 1 => .rowwise (liftI (mulChecked 32 1000)) (some (liftI (mulUnitSpec i32lo i32hi 1000)))
  | .t32 1, .t32 0 => .allSlots (liftI (fun x => some (tdivNat x 1000))) (some (liftI (divUnitSpec 1000)))
  | .t32 u1, .t64 u2 => .allSlots (liftI (fun x => some (x * (unitMult u2 / unitMult u1)))) none
  | .t64 u1, .t32 u2 => .allSlots (liftI (fun x => some (wrapW 32 (tdivNat x (unitMult u1 / unitMult u2))))) none
  | .t64 2, .t64 3 => .allSlots (liftI (fun x => some (wrapW 64 (x * 1000)))) none
  | .t64 3, .t64 2 => .allSlots (liftI (fun x => some (tdivNat x 1000))) none
  | _, _ => .skip

/-- a value token: `n` / `n:<payload>` / `<payload>` -/
def parseTok (ty : Ty) (t : String) : Option (Val × Bool) :=
  let (valid, pl) : Bool × String :=
    if t = "n" then (false, "")
    else if t.startsWith "n:" then (false, (t.drop 2).toString)
    else (true, t)
  match ty with
  | .iym | .idt | .imdn =>
    if pl = "" then some (.t (match ty with | .iym => [0] | .idt => [0, 0] | _ => [0, 0, 0]), valid)
    else ((pl.splitOn "/").mapM Proto.parseInt).map (fun xs => (.t xs, valid))
  | .bin | .fsb _ =>
    if pl = "" then some (.b [], valid)
    else (parseHex (if pl.length = 1 then "-" else (pl.drop 1).toString)).map (fun bs => (.b bs, valid))
  | .str => if pl = "" then some (.s [], valid) else (parseHexStr pl).map (fun cs => (.s cs, valid))
  | _ => if pl = "" then some (.i 0, valid) else (Proto.parseInt pl).map (fun x => (.i x, valid))

def showVal : Val → String
  | .i x => toString x
  | .s cs => showHexStr cs
  | .b bs => "x" ++ (if bs.isEmpty then "" else toHex bs)
  | .t xs => "/".intercalate (xs.map toString)

def showRows (rows : List (Val × Bool)) : String :=
  showList (fun r => if r.2 then showVal r.1 else "n") rows

def showLogical (rows : List (Option Val)) : String :=
  showList (fun r => match r with | some v => showVal v | none => "n") rows

def zeroOf : Ty → Val
  | .str => .s []
  | .bin | .fsb _ => .b []
  | .iym => .t [0] | .idt => .t [0, 0] | .imdn => .t [0, 0, 0]
  | _ => .i 0

/-- wrap a payload to the physical width of its type (what the harness stores in the buffer) -/
def normPayload (ty : Ty) (r : Val × Bool) : Val × Bool :=
  match ty, r.1 with
  | .int lo hi, .i x => if lo = 0 then (.i (x % (hi + 1)), r.2) else (.i (wrapW (if hi = 127 then 8 else if hi = 32767 then 16 else if hi = i32hi then 32 else 64) x), r.2)
  | _, _ => r

/-- does every valid value lie inside the declared domain of the source type? -/
def inDomain (ty : Ty) (rows : List (Val × Bool)) : Bool :=
  match ty with
  | .dec _ p _ => rows.all (fun r => !r.2 || (match r.1 with | .i x => decide (fitsPrec p x) | _ => true))
  | _ => true

/-- run a plan in one mode; returns the canonical answer of the model and (if defined) of the spec -/
def runPlan (pl : Plan) (dst : Ty) (safe : Bool) (rows : List (Val × Bool)) : String × Option String :=
  let z := zeroOf dst
  let specAns (spec : Option (Val → Option Val)) : Option String :=
    spec.map (fun g =>
      if safe then showLogical (safeSpec g (logical rows))
      else match strictSpec g (logical rows) with
        | some r => showLogical r
        | none => "ERR:cast")
  match pl with
  | .unsupported => ("ERR:unsupported", none)
  | .typeErr => ("ERR:cast", none)
  | .skip => ("SKIP", none)
  | .ident => (showRows rows, none)
  | .zeros spec => (showRows (rows.map (fun r => (.i 0, r.2))), specAns spec)
  | .rowwise f spec =>
    let m := if safe then showRows (unaryOpt f z rows)
             else match tryUnary f z rows with
               | some r => showRows r
               | none => "ERR:cast"
    (m, specAns spec)
  | .allSlots f spec =>
    -- `unary` visits every slot, including null payloads
    let outs := rows.map (fun r => (f r.1, r.2))
    if outs.any (fun o => o.1.isNone) then ("PANIC", specAns spec)
    else (showRows (outs.map (fun o => (o.1.getD z, o.2))), specAns spec)

def checkMS (ms : String × Option String) (dom : Bool) : String :=
  match ms.2 with
  | some sp => if dom ∧ ms.1 ≠ sp ∧ ms.1 ≠ "SKIP" then s!"MODEL-SPEC-MISMATCH model={ms.1} spec={sp}" else ms.1
  | none => ms.1

def parseVals (ty : Ty) (vals : String) : Option (List (Val × Bool)) :=
  (parseList (parseTok ty) vals).map (fun rs => rs.map (normPayload ty))

def handle (toks : List String) : String :=
  match toks with
  | ["cast", _var, src, dst, safe, vals] =>
    match parseTy src, parseTy dst with
    | some s, some d =>
      (match parseVals s vals with
       | some rows => checkMS (runPlan (plan s d) d (safe = "1") rows) (inDomain s rows)
       | none => "bad-op")
    | _, _ => "bad-op"
  | ["enc", _kind, _var, src, dst, safe, vals] =>
    -- an encoded source denotes the logical column only: payloads under nulls are dropped
    match parseTy src, parseTy dst with
    | some s, some d =>
      (match parseVals s vals with
       | some rows =>
         -- list children keep their physical payloads; other encodings denote the logical column only
         let rows := if _kind.startsWith "list" ∨ _kind.startsWith "llist" ∨ _kind.startsWith "lview" ∨ _kind.startsWith "fsl" ∨ _kind.startsWith "struct"
           then rows else rows.map (fun r => if r.2 then r else (zeroOf s, false))
         checkMS (runPlan (plan s d) d (safe = "1") rows) (inDomain s rows)
       | none => "bad-op")
    | _, _ => "bad-op"
  | ["rt", _var, src, mid, vals] =>
    match parseTy src, parseTy mid with
    | some s, some m =>
      (match parseVals s vals with
       | some rows =>
         -- strict there, strict back, with the algorithm model only
         let fwd := runPlan (plan s m) m false rows
         if fwd.1 = "SKIP" ∨ fwd.1.startsWith "ERR" ∨ fwd.1 = "PANIC" then fwd.1 else
         (match parseVals m fwd.1 with
          | some mid => (runPlan (plan m s) s false mid).1
          | none => "bad-op")
       | none => "bad-op")
    | _, _ => "bad-op"
  | ["reenc", _kind, _var, src, vals] =>
    -- re-encodings keep the logical values: the model is the identity on the logical column
    match parseTy src with
    | some s =>
      (match parseVals s vals with
       | some rows => showRows rows
       | none => "bad-op")
    | none => "bad-op"
  | ["cancast", _, _] => "SKIP"
  | ["pdec", _, _, _, _] => "SKIP"
  | ["dtype", cls, h] =>
    if cls ≠ "plain" then "SKIP" else
    match parseHex h with
    | some bs =>
      (match String.fromUTF8? (ByteArray.mk (bs.map (fun b => b.toUInt8)).toArray) with
       | some s => DT.roundTrip s.toList
       | none => "bad-op")
    | none => "bad-op"
  | _ => "bad-op"

end ArrowModel.C13
