/-
C13 — model of `impl Display for DataType` (arrow-schema/src/datatype_display.rs) and of the
tokenizer + recursive-descent parser of arrow-schema/src/datatype_parse.rs.

`display t = render (toks t)`: the display is factored through the token sequence the parser
sees; `render` puts the separators exactly where `Display` puts them (", " after a comma,
": " after a colon, one blank between adjacent words).
Field metadata and escape sequences in quoted names are outside the model (`SKIP`).
-/
namespace ArrowModel.C13.DT

inductive Tok where
  | word (s : String) | int (n : Int) | dq (s : String) | sq (s : String)
  | lp | rp | comma | colon
deriving DecidableEq, Repr

mutual
inductive DType where
  | simple (name : String)
  | timestamp (u : String) (tz : Option String)
  | time32 (u : String) | time64 (u : String) | duration (u : String) | interval (u : String)
  | fixedSizeBinary (n : Int)
  | decimal (name : String) (p : Int) (s : Int)
  | list (kind : String) (nullable : Bool) (t : DType) (fname : String)
  | fixedSizeList (n : Int) (nullable : Bool) (t : DType) (fname : String)
  | struct (fs : Fields)
  | dictionary (k v : DType)
  | map (ename : String) (enullable : Bool) (et : DType) (sorted : Bool)
  | runEndEncoded (rn : String) (rnull : Bool) (rt : DType) (vn : String) (vnull : Bool) (vt : DType)
  | union (mode : String) (fs : UFields)
inductive Fields where
  | nil | cons (name : String) (nullable : Bool) (t : DType) (rest : Fields)
inductive UFields where
  | nil | cons (id : Int) (name : String) (nullable : Bool) (t : DType) (rest : UFields)
end

def simpleNames : List String :=
  ["Null", "Boolean", "Int8", "Int16", "Int32", "Int64", "UInt8", "UInt16", "UInt32", "UInt64",
   "Utf8", "LargeUtf8", "Utf8View", "Binary", "BinaryView", "LargeBinary",
   "Float16", "Float32", "Float64", "Date32", "Date64"]

def listKinds : List String := ["List", "LargeList", "ListView", "LargeListView"]
def decimalNames : List String := ["Decimal32", "Decimal64", "Decimal128", "Decimal256"]
def intervalUnits : List String := ["YearMonth", "DayTime", "MonthDayNano"]

/-- `Token::TimeUnit` words → canonical display form -/
def unitOf (w : String) : Option String :=
  if w = "s" ∨ w = "Second" then some "s"
  else if w = "ms" ∨ w = "Millisecond" then some "ms"
  else if w = "µs" ∨ w = "us" ∨ w = "Microsecond" then some "µs"
  else if w = "ns" ∨ w = "Nanosecond" then some "ns"
  else none

def nn (nullable : Bool) : List Tok := if nullable then [] else [.word "non-null"]

/-! ### display, as a token sequence -/

mutual
def toks : DType → List Tok
  | .simple n => [.word n]
  | .timestamp u none => [.word "Timestamp", .lp, .word u, .rp]
  | .timestamp u (some tz) => [.word "Timestamp", .lp, .word u, .comma, .dq tz, .rp]
  | .time32 u => [.word "Time32", .lp, .word u, .rp]
  | .time64 u => [.word "Time64", .lp, .word u, .rp]
  | .duration u => [.word "Duration", .lp, .word u, .rp]
  | .interval u => [.word "Interval", .lp, .word u, .rp]
  | .fixedSizeBinary n => [.word "FixedSizeBinary", .lp, .int n, .rp]
  | .decimal name p s => [.word name, .lp, .int p, .comma, .int s, .rp]
  | .list kind nullable t fname =>
    [.word kind, .lp] ++ nn nullable ++ toks t ++
      (if fname = "item" then [] else [.comma, .word "field", .colon, .sq fname]) ++ [.rp]
  | .fixedSizeList n nullable t fname =>
    [.word "FixedSizeList", .lp, .int n, .word "x"] ++ nn nullable ++ toks t ++
      (if fname = "item" then [] else [.comma, .word "field", .colon, .sq fname]) ++ [.rp]
  | .struct fs => [.word "Struct", .lp] ++ fieldsToks fs ++ [.rp]
  | .dictionary k v => [.word "Dictionary", .lp] ++ toks k ++ [.comma] ++ toks v ++ [.rp]
  | .map en enull et sorted =>
    [.word "Map", .lp, .dq en, .colon] ++ nn enull ++ toks et ++
      [.comma, .word (if sorted then "sorted" else "unsorted"), .rp]
  | .runEndEncoded rn rnull rt vn vnull vt =>
    [.word "RunEndEncoded", .lp, .dq rn, .colon] ++ nn rnull ++ toks rt ++
      [.comma, .dq vn, .colon] ++ nn vnull ++ toks vt ++ [.rp]
  | .union mode fs => [.word "Union", .lp, .word mode] ++ ufieldsToks fs ++ [.rp]
/-- `fields.map(format_field).join(", ")` -/
def fieldsToks : Fields → List Tok
  | .nil => []
  | .cons name nullable t .nil => [.dq name, .colon] ++ nn nullable ++ toks t
  | .cons name nullable t rest => [.dq name, .colon] ++ nn nullable ++ toks t ++ [.comma] ++ fieldsToks rest
/-- `", " + "{type_id}: ({field})"` for every union field -/
def ufieldsToks : UFields → List Tok
  | .nil => []
  | .cons id name nullable t rest =>
    [.comma, .int id, .colon, .lp, .dq name, .colon] ++ nn nullable ++ toks t ++ [.rp] ++ ufieldsToks rest
end

def isWordy : Tok → Bool
  | .word _ | .int _ | .dq _ | .sq _ => true
  | _ => false

def renderTok : Tok → String
  | .word s => s
  | .int n => toString n
  | .dq s => "\"" ++ s ++ "\""
  | .sq s => "'" ++ s ++ "'"
  | .lp => "(" | .rp => ")" | .comma => ", " | .colon => ": "

/-- separators exactly as `Display` writes them -/
def render : List Tok → String
  | [] => ""
  | [t] => renderTok t
  | a :: b :: r => renderTok a ++ (if isWordy a ∧ isWordy b then " " else "") ++ render (b :: r)

def display (t : DType) : String := render (toks t)

/-! ### tokenizer (`Tokenizer::next`, `parse_word`, `parse_quoted_string`) -/

def isSeparator (c : Char) : Bool := c = '(' || c = ')' || c = ',' || c = ':' || c = ' '

def knownWords : List String :=
  simpleNames ++ listKinds ++ decimalNames ++ intervalUnits ++
  ["FixedSizeList", "s", "Second", "ms", "Millisecond", "µs", "us", "Microsecond", "ns", "Nanosecond",
   "Timestamp", "Time32", "Time64", "Duration", "Interval", "Dictionary", "FixedSizeBinary",
   "Some", "None", "non-null", "nullable", "field", "x", "Struct", "Union", "Sparse", "Dense",
   "Map", "sorted", "unsorted", "RunEndEncoded"]

def parseI64 (s : String) : Option Int :=
  let v : Option Int := match s.toList with
    | '-' :: r => (String.ofList r).toNat?.map (fun n => -(n : Int))
    | '+' :: r => (String.ofList r).toNat?.map (fun n => (n : Int))
    | _ => s.toNat?.map (fun n => (n : Int))
  v.bind (fun x => if -9223372036854775808 ≤ x ∧ x ≤ 9223372036854775807 then some x else none)

inductive TokErr where
  | parse | skip

/-- read up to the closing quote; a backslash is outside the model -/
def takeQuoted (q : Char) : List Char → List Char → Except TokErr (List Char × List Char)
  | [], _ => .error .parse
  | c :: cs, acc =>
    if c = '\\' then .error .skip
    else if c = q then .ok (acc.reverse, cs)
    else takeQuoted q cs (c :: acc)

def tokenizeAux : Nat → List Char → List Tok → Except TokErr (List Tok)
  | 0, _, _ => .error .skip
  | _, [], acc => .ok acc.reverse
  | fuel + 1, c :: cs, acc =>
    if c = ' ' then tokenizeAux fuel cs acc
    else if c = '(' then tokenizeAux fuel cs (.lp :: acc)
    else if c = ')' then tokenizeAux fuel cs (.rp :: acc)
    else if c = ',' then tokenizeAux fuel cs (.comma :: acc)
    else if c = ':' then tokenizeAux fuel cs (.colon :: acc)
    else if c = '"' ∨ c = '\'' then
      match takeQuoted c cs [] with
      | .error e => .error e
      | .ok (w, rest) =>
        if w.isEmpty then .error .parse
        else tokenizeAux fuel rest ((if c = '"' then Tok.dq (String.ofList w) else Tok.sq (String.ofList w)) :: acc)
    else
      let w := (c :: cs).takeWhile (fun c => !isSeparator c)
      let rest := (c :: cs).dropWhile (fun c => !isSeparator c)
      let ws := String.ofList w
      if c = '-' ∨ c.isDigit then
        match parseI64 ws with
        | some n => tokenizeAux fuel rest (.int n :: acc)
        | none => .error .parse
      else if ws ∈ knownWords then tokenizeAux fuel rest (.word ws :: acc)
      else .error .parse

def tokenize (s : List Char) : Except TokErr (List Tok) := tokenizeAux (s.length + 1) s []

/-! ### parser (`Parser::parse_next_type` …) -/

def optNullable : List Tok → Bool × List Tok
  | .word "non-null" :: r => (false, r)
  | .word "nullable" :: r => (true, r)
  | r => (true, r)

/-- `validate_decimal` + the `u8`/`i8` conversions -/
def decimalOk (name : String) (p s : Int) : Bool :=
  let maxp : Int := if name = "Decimal32" then 9 else if name = "Decimal64" then 18 else if name = "Decimal128" then 38 else 76
  decide (0 ≤ p ∧ p ≤ 255 ∧ -128 ≤ s ∧ s ≤ 127 ∧ 1 ≤ p ∧ p ≤ maxp ∧ ¬ (s > 0 ∧ s > p))

def i32Ok (n : Int) : Bool := decide (-2147483648 ≤ n ∧ n ≤ 2147483647)

/-- the optional `, field: 'name'` after a list element type -/
def listFieldName : List Tok → Option (String × List Tok)
  | .comma :: r =>
    (match r with
     | .word "field" :: .colon :: .sq n :: r' => some (n, r')
     | _ => none)
  | r => some ("item", r)

mutual
/-- `parse_next_type` -/
def parseType : Nat → List Tok → Option (DType × List Tok)
  | 0, _ => none
  | fuel + 1, toks =>
    match toks with
    | .word w :: r =>
      if w ∈ simpleNames then some (.simple w, r)
      else if w = "Timestamp" then
        (match r with
         | .lp :: .word u :: r1 =>
           (match unitOf u, r1 with
            | some u, .rp :: r2 => some (.timestamp u none, r2)
            | some u, .comma :: .word "None" :: .rp :: r2 => some (.timestamp u none, r2)
            | some u, .comma :: .word "Some" :: .lp :: .dq tz :: .rp :: .rp :: r2 => some (.timestamp u (some tz), r2)
            | some u, .comma :: .dq tz :: .rp :: r2 => some (.timestamp u (some tz), r2)
            | _, _ => none)
         | _ => none)
      else if w = "Time32" then
        (match r with
         | .lp :: .word u :: .rp :: r2 =>
           (match unitOf u with
            | some u => if u = "s" ∨ u = "ms" then some (.time32 u, r2) else none
            | none => none)
         | _ => none)
      else if w = "Time64" then
        (match r with
         | .lp :: .word u :: .rp :: r2 =>
           (match unitOf u with
            | some u => if u = "µs" ∨ u = "ns" then some (.time64 u, r2) else none
            | none => none)
         | _ => none)
      else if w = "Duration" then
        (match r with
         | .lp :: .word u :: .rp :: r2 => (unitOf u).map (fun u => (.duration u, r2))
         | _ => none)
      else if w = "Interval" then
        (match r with
         | .lp :: .word u :: .rp :: r2 => if u ∈ intervalUnits then some (.interval u, r2) else none
         | _ => none)
      else if w = "FixedSizeBinary" then
        (match r with
         | .lp :: .int n :: .rp :: r2 => if i32Ok n ∧ 0 ≤ n then some (.fixedSizeBinary n, r2) else none
         | _ => none)
      else if w ∈ decimalNames then
        (match r with
         | .lp :: .int p :: .comma :: .int s :: .rp :: r2 =>
           if decimalOk w p s then some (.decimal w p s, r2) else none
         | _ => none)
      else if w = "Dictionary" then
        (match r with
         | .lp :: r1 =>
           (match parseType fuel r1 with
            | some (k, .comma :: r2) =>
              (match parseType fuel r2 with
               | some (v, .rp :: r3) => some (.dictionary k v, r3)
               | _ => none)
            | _ => none)
         | _ => none)
      else if w ∈ listKinds then
        (match r with
         | .lp :: r1 =>
           let (nullable, r2) := optNullable r1
           (match parseType fuel r2 with
            | some (t, r3) =>
              (match listFieldName r3 with
               | some (fname, .rp :: r4) => some (.list w nullable t fname, r4)
               | _ => none)
            | none => none)
         | _ => none)
      else if w = "FixedSizeList" then
        (match r with
         | .lp :: .int n :: .word "x" :: r1 =>
           if ¬ (i32Ok n ∧ 0 ≤ n) then none else
           let (nullable, r2) := optNullable r1
           (match parseType fuel r2 with
            | some (t, r3) =>
              (match listFieldName r3 with
               | some (fname, .rp :: r4) => some (.fixedSizeList n nullable t fname, r4)
               | _ => none)
            | none => none)
         | .lp :: .int n :: .comma :: r1 =>
           if ¬ (i32Ok n ∧ 0 ≤ n) then none else
           (match parseType fuel r1 with
            | some (t, .rp :: r3) => some (.fixedSizeList n true t "item", r3)
            | _ => none)
         | _ => none)
      else if w = "Struct" then
        (match r with
         | .lp :: r1 => (parseFields fuel r1).map (fun (fs, r2) => (.struct fs, r2))
         | _ => none)
      else if w = "Map" then
        (match r with
         | .lp :: .dq en :: .colon :: r1 =>
           let (enull, r2) := optNullable r1
           (match parseType fuel r2 with
            | some (et, .comma :: .word sw :: .rp :: r3) =>
              if sw = "sorted" then some (.map en enull et true, r3)
              else if sw = "unsorted" then some (.map en enull et false, r3) else none
            | _ => none)
         | _ => none)
      else if w = "RunEndEncoded" then
        (match r with
         | .lp :: .dq rn :: .colon :: r1 =>
           let (rnull, r2) := optNullable r1
           (match parseType fuel r2 with
            | some (rt, .comma :: .dq vn :: .colon :: r3) =>
              let (vnull, r4) := optNullable r3
              (match parseType fuel r4 with
               | some (vt, .rp :: r5) => some (.runEndEncoded rn rnull rt vn vnull vt, r5)
               | _ => none)
            | _ => none)
         | _ => none)
      else if w = "Union" then
        (match r with
         | .lp :: .word mode :: r1 =>
           if mode = "Sparse" ∨ mode = "Dense" then
             (parseUFields fuel r1).map (fun (fs, r2) => (.union mode fs, r2))
           else none
         | _ => none)
      else none
    | _ => none
/-- the loop of `parse_struct` (entered after `(`; consumes the closing `)`) -/
def parseFields : Nat → List Tok → Option (Fields × List Tok)
  | 0, _ => none
  | fuel + 1, toks =>
    match toks with
    | .rp :: r => some (.nil, r)
    | .dq name :: .colon :: r1 =>
      let (nullable, r2) := optNullable r1
      (match parseType fuel r2 with
       | some (t, .comma :: r3) => (parseFields fuel r3).map (fun (fs, r4) => (.cons name nullable t fs, r4))
       | some (t, .rp :: r3) => some (.cons name nullable t .nil, r3)
       | _ => none)
    | _ => none
/-- the loop of `parse_union` (entered after the mode; consumes the closing `)`) -/
def parseUFields : Nat → List Tok → Option (UFields × List Tok)
  | 0, _ => none
  | fuel + 1, toks =>
    match toks with
    | .rp :: r => some (.nil, r)
    | .comma :: .int id :: .colon :: .lp :: .dq name :: .colon :: r1 =>
      if ¬ (-128 ≤ id ∧ id ≤ 127) then none else
      let (nullable, r2) := optNullable r1
      (match parseType fuel r2 with
       | some (t, .rp :: r3) => (parseUFields fuel r3).map (fun (fs, r4) => (.cons id name nullable t fs, r4))
       | _ => none)
    | _ => none
end

/-- `Parser::parse`: one type, no trailing content -/
def parse (ts : List Tok) : Option DType :=
  match parseType (ts.length + 1) ts with
  | some (t, []) => some t
  | _ => none

def hexDigit (n : Nat) : Char :=
  if n < 10 then Char.ofNat (n + 48) else Char.ofNat (n - 10 + 97)

def xhex (s : String) : String :=
  String.ofList ('x' :: s.toUTF8.toList.foldr (fun b acc => hexDigit (b.toNat / 16) :: hexDigit (b.toNat % 16) :: acc) [])

/-- the driver's observable: parse the displayed string and display it again -/
def roundTrip (s : List Char) : String :=
  match tokenize s with
  | .error .skip => "SKIP"
  | .error .parse => "ERR:parse"
  | .ok ts =>
    match parse ts with
    | some t => xhex (display t)
    | none => "ERR:parse"

end ArrowModel.C13.DT
