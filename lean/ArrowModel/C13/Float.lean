import ArrowModel.C13.Model
/-
C13 — binary floating point, modelled with integers only.

A float of a format with `eb` exponent bits and `fb` fraction bits is decoded from its bit
pattern into `F`; arithmetic that the Rust code performs in `f64` (`10_f64.powi(scale)`,
`mul * input`, `x as f64`, `/`) is modelled as the exactly rounded (round-to-nearest-even)
operation on the dyadic rationals.
-/
namespace ArrowModel.C13

/-- a float: NaN, ±∞ or the finite value `(-1)^neg · m · 2^e` (zero is `m = 0`) -/
inductive F where
  | nan (neg : Bool)
  | inf (neg : Bool)
  | fin (neg : Bool) (m : Nat) (e : Int)
deriving Repr, DecidableEq, Inhabited

def fbias (eb : Nat) : Int := 2 ^ (eb - 1) - 1

/-- IEEE-754 decoding of a bit pattern -/
def decodeF (eb fb : Nat) (bits : Nat) : F :=
  let frac := bits % 2 ^ fb
  let ex := (bits / 2 ^ fb) % 2 ^ eb
  let neg := decide ((bits / 2 ^ (fb + eb)) % 2 = 1)
  if ex = 2 ^ eb - 1 then (if frac = 0 then .inf neg else .nan neg)
  else if ex = 0 then .fin neg frac (1 - fbias eb - fb)
  else .fin neg (2 ^ fb + frac) ((ex : Int) - fbias eb - fb)

/-- round-to-nearest-even of the positive rational `p / q` (`p, q > 0`) into the format -/
def rneRat (eb fb : Nat) (neg : Bool) (p q : Nat) : F :=
  if p = 0 then .fin neg 0 (1 - fbias eb - fb) else
  let emin : Int := 1 - fbias eb - fb
  let emax : Int := (2 ^ eb - 2 : Nat) - fbias eb - fb
  let quot (e : Int) : Nat := (p * 2 ^ (-e).toNat) / (q * 2 ^ e.toNat)
  let e0 : Int := (Nat.log2 p : Int) - (Nat.log2 q : Int) - fb
  let e1 : Int := if quot e0 < 2 ^ fb then e0 - 1 else e0
  let e : Int := if e1 < emin then emin else e1
  let num := p * 2 ^ (-e).toNat
  let den := q * 2 ^ e.toNat
  let m0 := num / den
  let r := num % den
  let m := if 2 * r > den ∨ (2 * r = den ∧ m0 % 2 = 1) then m0 + 1 else m0
  let (m, e) := if m = 2 ^ (fb + 1) then (2 ^ fb, e + 1) else (m, e)
  if e > emax then .inf neg else .fin neg m e

/-- IEEE-754 encoding of a value produced by `rneRat` -/
def encodeF (eb fb : Nat) : F → Nat
  | .nan neg => (if neg then 2 ^ (fb + eb) else 0) + (2 ^ eb - 1) * 2 ^ fb + 2 ^ (fb - 1)
  | .inf neg => (if neg then 2 ^ (fb + eb) else 0) + (2 ^ eb - 1) * 2 ^ fb
  | .fin neg m e =>
    (if neg then 2 ^ (fb + eb) else 0) +
      (if m < 2 ^ fb then m else ((e + fbias eb + fb).toNat) * 2 ^ fb + (m - 2 ^ fb))

/-- exactly rounded product in binary64 (`*` on `f64`), for a finite positive left factor -/
def fmul64 (a b : F) : F :=
  match a, b with
  | .fin n1 m1 e1, .fin n2 m2 e2 =>
    rneRat 11 52 (n1 != n2) (m1 * m2 * 2 ^ (e1 + e2).toNat) (2 ^ (-(e1 + e2)).toNat)
  | .fin n1 m1 _, .inf n2 => if m1 = 0 then .nan false else .inf (n1 != n2)
  | .inf n1, .fin n2 m2 _ => if m2 = 0 then .nan false else .inf (n1 != n2)
  | .inf n1, .inf n2 => .inf (n1 != n2)
  | _, _ => .nan false

/-- exactly rounded quotient in binary64 for finite operands, `b ≠ 0` -/
def fdiv64 (a b : F) : F :=
  match a, b with
  | .fin n1 m1 e1, .fin n2 m2 e2 =>
    if m2 = 0 then (if m1 = 0 then .nan false else .inf (n1 != n2)) else
    rneRat 11 52 (n1 != n2) (m1 * 2 ^ (e1 - e2).toNat) (m2 * 2 ^ (e2 - e1).toNat)
  | .fin n1 _ _, .inf n2 => .fin (n1 != n2) 0 (-1074)
  | .inf n1, .fin n2 _ _ => .inf (n1 != n2)
  | _, _ => .nan false

/-- `f64::powi` as compiled (compiler-builtins `__powidf2`): square-and-multiply with a
rounding after every product, reciprocal at the end for a negative exponent -/
def powiLoop : Nat → F → Nat → F → F
  | 0, _, _, r => r
  | fuel + 1, a, b, r =>
    let r := if b % 2 = 1 then fmul64 r a else r
    let b := b / 2
    if b = 0 then r else powiLoop fuel (fmul64 a a) b r

def one64 : F := .fin false (2 ^ 52) (-52)
def ten64 : F := .fin false (5 * 2 ^ 50) (-49)

/-- `10_f64.powi(scale)` -/
def powi10 (s : Int) : F :=
  let r := powiLoop 40 ten64 s.natAbs one64
  if s < 0 then fdiv64 one64 r else r

/-- `f64::round` (half away from zero) of a finite value, as an integer -/
def fRound (neg : Bool) (m : Nat) (e : Int) : Int :=
  divRoundHalfAway (if neg then -((m * 2 ^ e.toNat : Nat) : Int) else ((m * 2 ^ e.toNat : Nat) : Int)) (2 ^ (-e).toNat)

/-- truncation toward zero of a finite value (`as` / `ToPrimitive`) -/
def fTrunc (neg : Bool) (m : Nat) (e : Int) : Int :=
  divTrunc (if neg then -((m * 2 ^ e.toNat : Nat) : Int) else ((m * 2 ^ e.toNat : Nat) : Int)) (2 ^ (-e).toNat)

/-- `D::Native::from_f64(x.round())` followed by the precision check of
`cast_floating_point_to_decimal`, for the already computed product `x` -/
def floatProdToDec (w p : Nat) : F → Option Int
  | .fin neg m e =>
    let r := fRound neg m e
    if nativeOk w r ∧ validPrec w p r then some r else none
  | _ => none

/-- `single_float_to_decimal(v as f64, 10_f64.powi(scale))` + precision check -/
def floatToDec (w p : Nat) (s : Int) (v : F) : Option Int :=
  floatProdToDec w p (fmul64 (powi10 s) v)

/-- is the binary64 product `10^s · v` computed without any rounding error (including the
roundings inside `powi`)? -/
def prodExact (s : Int) (v : F) : Bool :=
  match v, fmul64 (powi10 s) v with
  | .fin n1 m1 e1, .fin n2 m2 e2 =>
    -- m1·2^e1·10^s = m2·2^e2 as rationals
    (n1 == n2 || m1 == 0) &&
    decide (m1 * 2 ^ e1.toNat * 10 ^ s.toNat * 2 ^ (-e2).toNat = m2 * 2 ^ e2.toNat * 2 ^ (-e1).toNat * 10 ^ (-s).toNat)
  | .fin _ _ _, _ => false
  | _, _ => true

/-- `num_traits::cast::<float, int>` (`ToPrimitive::to_*` on floats): NaN/∞ fail, otherwise
truncate and range-check -/
def floatToInt (lo hi : Int) : F → Option Int
  | .fin neg m e => numCast lo hi (fTrunc neg m e)
  | _ => none

/-- `x as f64` / `x as f32` for an integer `x` (round to nearest even) -/
def intToFloat (eb fb : Nat) (x : Int) : F :=
  rneRat eb fb (decide (x < 0)) x.natAbs 1

/-- re-round a value into another format (`as f32`, `f16::from_f32`, `f16::from_f64`) -/
def fconv (eb fb : Nat) : F → F
  | .fin neg m e => rneRat eb fb neg (m * 2 ^ e.toNat) (2 ^ (-e).toNat)
  | v => v

/-- `NumCast` into a float format: `f16` goes through `f32` (`n.to_f32().map(f16::from_f32)`) -/
def toFormat (eb fb : Nat) (v : F) : F :=
  if eb = 5 then fconv 5 10 (fconv 8 23 v) else fconv eb fb v

/-- `i256::to_f64`: special cases, otherwise keep the top 64 bits (truncating), convert, scale -/
def i256ToF64 (x : Int) : F :=
  if x = 0 then .fin false 0 (-1074)
  else if x = -(2 ^ 255) then .fin true (2 ^ 52) 203
  else
    let y : Nat := if x < 0 then (-x - 1).toNat else x.toNat
    let k : Nat := 255 - (if y = 0 then 0 else Nat.log2 y + 1)   -- redundant sign bits
    -- n = (x << k) >> 192 (arithmetic), as i64
    let n : Int := (x * 2 ^ k) / 2 ^ 192
    match rneRat 11 52 (decide (n < 0)) n.natAbs 1 with
    | .fin neg m e => fconv 11 52 (.fin neg m (e + 192 - (k : Int)))
    | v => v

/-- `as_float(x) / 10_f64.powi(scale)` (`single_decimal_to_float_lossy`) then the narrowing of
`cast_from_decimal` (`as f32`, `f16::from_f64`) -/
def decToFloat (w : Nat) (s : Int) (eb fb : Nat) (x : Int) : F :=
  let xf : F := if w = 256 then i256ToF64 x else rneRat 11 52 (decide (x < 0)) x.natAbs 1
  let q := fdiv64 xf (powi10 s)
  -- `f16::from_f64` converts through `f32` on x86 with F16C (half 2.x `f64_to_f16_x86_f16c`): double rounding
  if eb = 11 then q else if eb = 5 then fconv 5 10 (fconv 8 23 q) else fconv eb fb q

/-- `value != 0.0` -/
def floatNonZero : F → Bool
  | .fin _ m _ => m != 0
  | _ => true

end ArrowModel.C13
