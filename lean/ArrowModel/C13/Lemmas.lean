import ArrowModel.C13.Model
import ArrowModel.C13.DType
import ArrowModel.C13.Float
/-
C13 — helper lemmas (columns, integer division and rounding, powers of ten, the decimal
precision tables).
-/
namespace ArrowModel.C13
open ArrowModel.Generated.C13

/-! ### columns -/

theorem tryUnary_none_iff {α β} (f : α → Option β) (z : β) (rows : List (α × Bool)) :
    tryUnary f z rows = none ↔ ∃ a, (a, true) ∈ rows ∧ f a = none := by
  induction rows with
  | nil => simp [tryUnary]
  | cons r rs ih =>
    obtain ⟨a, v⟩ := r
    cases v with
    | false =>
      simp only [tryUnary, Option.map_eq_none_iff, ih, List.mem_cons, Prod.mk.injEq, Bool.true_eq_false, and_false, false_or]
    | true =>
      cases hf : f a with
      | none => simp [tryUnary, hf]
      | some b =>
        simp only [tryUnary, hf, Option.map_eq_none_iff, ih, List.mem_cons, Prod.mk.injEq, and_true]
        constructor
        · rintro ⟨a', h1, h2⟩; exact ⟨a', Or.inr h1, h2⟩
        · rintro ⟨a', h1 | h1, h2⟩
          · subst h1; rw [hf] at h2; cases h2
          · exact ⟨a', h1, h2⟩

theorem logical_unaryOpt {α β} (f : α → Option β) (z : β) (rows : List (α × Bool)) :
    logical (unaryOpt f z rows) = safeSpec f (logical rows) := by
  induction rows with
  | nil => rfl
  | cons r rs ih =>
    obtain ⟨a, v⟩ := r
    cases v with
    | false => simp [unaryOpt, logical, safeSpec] at ih ⊢; exact ih
    | true =>
      cases hf : f a <;> simp [unaryOpt, logical, safeSpec, hf] at ih ⊢ <;> exact ih

theorem tryUnary_some_eq {α β} (f : α → Option β) (z : β) (rows : List (α × Bool)) (out : List (β × Bool))
    (h : tryUnary f z rows = some out) : out = unaryOpt f z rows := by
  induction rows generalizing out with
  | nil => simp [tryUnary] at h; simp [unaryOpt, h]
  | cons r rs ih =>
    obtain ⟨a, v⟩ := r
    cases v with
    | false =>
      simp only [tryUnary, Option.map_eq_some_iff] at h
      obtain ⟨t, ht, rfl⟩ := h
      simp [unaryOpt, ih t ht]
    | true =>
      cases hf : f a with
      | none => simp [tryUnary, hf] at h
      | some b =>
        simp only [tryUnary, hf, Option.map_eq_some_iff] at h
        obtain ⟨t, ht, rfl⟩ := h
        simp [unaryOpt, hf, ih t ht]

theorem anyFails_logical_iff {α β} (f : α → Option β) (rows : List (α × Bool)) :
    anyFails f (logical rows) = true ↔ ∃ a, (a, true) ∈ rows ∧ f a = none := by
  induction rows with
  | nil => simp [anyFails, logical]
  | cons r rs ih =>
    obtain ⟨a, v⟩ := r
    simp only [anyFails, logical, List.map_cons, List.any_cons, Bool.or_eq_true] at ih ⊢
    rw [ih]
    cases v with
    | false => simp
    | true =>
      simp only [if_true, Option.isNone_iff_eq_none, List.mem_cons, Prod.mk.injEq, and_true]
      constructor
      · rintro (h | ⟨a', h1, h2⟩)
        · exact ⟨a, Or.inl rfl, h⟩
        · exact ⟨a', Or.inr h1, h2⟩
      · rintro ⟨a', h1 | h1, h2⟩
        · subst h1; exact Or.inl h2
        · exact Or.inr ⟨a', h1, h2⟩

theorem tryUnary_logical {α β} (f : α → Option β) (z : β) (rows : List (α × Bool)) :
    (tryUnary f z rows).map logical = strictSpec f (logical rows) := by
  unfold strictSpec
  cases h : tryUnary f z rows with
  | none =>
    have := (tryUnary_none_iff f z rows).1 h
    rw [← anyFails_logical_iff] at this
    simp [this]
  | some out =>
    have hne : ¬ (anyFails f (logical rows) = true) := by
      rw [anyFails_logical_iff, ← tryUnary_none_iff f z rows, h]; simp
    simp only [Option.map_some, hne, if_false, Bool.false_eq_true]
    rw [tryUnary_some_eq f z rows out h, logical_unaryOpt]

theorem firstFail_isSome_iff {α β} (f : α → Option β) (z : β) (rows : List (α × Bool)) :
    (firstFail f rows).isSome = true ↔ tryUnary f z rows = none := by
  induction rows with
  | nil => simp [firstFail, tryUnary]
  | cons r rs ih =>
    obtain ⟨a, v⟩ := r
    cases v with
    | false => simp [firstFail, tryUnary, ih]
    | true =>
      cases hf : f a <;> simp [firstFail, tryUnary, hf, ih]

theorem firstFail_spec {α β} (f : α → Option β) (rows : List (α × Bool)) (i : Nat)
    (h : firstFail f rows = some i) :
    (∃ a, rows[i]? = some (a, true) ∧ f a = none) ∧
    ∀ j a, j < i → rows[j]? = some (a, true) → (f a).isSome = true := by
  induction rows generalizing i with
  | nil => simp [firstFail] at h
  | cons r rs ih =>
    obtain ⟨a, v⟩ := r
    cases v with
    | false =>
      simp only [firstFail, Option.map_eq_some_iff] at h
      obtain ⟨k, hk, rfl⟩ := h
      obtain ⟨h1, h2⟩ := ih k hk
      refine ⟨by simpa using h1, ?_⟩
      intro j a' hj hget
      cases j with
      | zero => simp at hget
      | succ j => exact h2 j a' (by omega) (by simpa using hget)
    | true =>
      simp only [firstFail] at h
      by_cases hf : (f a).isNone = true
      · simp only [hf, if_true, Option.some.injEq] at h
        subst h
        refine ⟨⟨a, by simp, by simpa using hf⟩, ?_⟩
        intro j a' hj; omega
      · simp only [hf, if_false, Option.map_eq_some_iff, Bool.false_eq_true] at h
        obtain ⟨k, hk, rfl⟩ := h
        obtain ⟨h1, h2⟩ := ih k hk
        refine ⟨by simpa using h1, ?_⟩
        intro j a' hj hget
        cases j with
        | zero =>
          simp at hget; subst hget
          cases hfa : f a <;> simp [hfa] at hf ⊢
        | succ j => exact h2 j a' (by omega) (by simpa using hget)

/-! ### integers, division, rounding -/

theorem numCast_eq_spec (lo hi x : Int) : numCast lo hi x = intCastSpec lo hi x := by
  simp [numCast, intCastSpec, inRange]

/-- Rust's truncating division equals the sign/magnitude definition of the spec -/
theorem tdivNat_eq_divTrunc (x : Int) (d : Nat) : tdivNat x d = divTrunc x d := by
  unfold tdivNat divTrunc
  rcases (by omega : x < 0 ∨ 0 ≤ x) with h | h
  · simp only [h, if_true]
    obtain ⟨n, rfl⟩ : ∃ n : Nat, x = -(n : Int) := ⟨x.natAbs, by omega⟩
    rw [Int.neg_tdiv, Int.natAbs_neg, Int.natAbs_natCast]
    simp [Int.natCast_ediv, Int.tdiv_eq_ediv_of_nonneg]
  · have h' : ¬ x < 0 := by omega
    simp only [h', if_false]
    obtain ⟨n, rfl⟩ : ∃ n : Nat, x = (n : Int) := ⟨x.natAbs, by omega⟩
    simp [Int.tdiv_eq_ediv_of_nonneg]

theorem downRound_eq_spec (m : Nat) (x : Int) :
    downRound (2 * m) x = divRoundHalfAway x (2 * m) := by
  unfold downRound divRoundHalfAway tdivNat tmodNat
  have hhalf : (2 * m) / 2 = m := by omega
  rw [hhalf]
  rcases (by omega : x < 0 ∨ 0 ≤ x) with h | h
  · obtain ⟨n, rfl⟩ : ∃ n : Nat, x = -(n : Int) := ⟨x.natAbs, by omega⟩
    have h0 : ¬ (0 : Int) ≤ -(n : Int) := by omega
    simp only [h0, if_false, h, if_true, Int.neg_tdiv, Int.neg_tmod, Int.natAbs_neg, Int.natAbs_natCast]
    have e1 : (n : Int).tdiv ((2 * m : Nat) : Int) = ((n / (2 * m) : Nat) : Int) := by
      rw [Int.tdiv_eq_ediv_of_nonneg (by omega)]; simp
    have e2 : (n : Int).tmod ((2 * m : Nat) : Int) = ((n % (2 * m) : Nat) : Int) := by
      rw [Int.tmod_eq_emod_of_nonneg (by omega)]; simp
    rw [e1, e2]
    by_cases hc : 2 * (n % (2 * m)) ≥ 2 * m
    · have : -((n % (2 * m) : Nat) : Int) ≤ -(m : Int) := by omega
      simp only [this, if_true, hc]; omega
    · have : ¬ (-((n % (2 * m) : Nat) : Int) ≤ -(m : Int)) := by omega
      simp only [this, if_false, hc]
  · obtain ⟨n, rfl⟩ : ∃ n : Nat, x = (n : Int) := ⟨x.natAbs, by omega⟩
    have h0 : ¬ ((n : Int) < 0) := by omega
    simp only [h, if_true, h0, if_false, Int.natAbs_natCast]
    have e1 : (n : Int).tdiv ((2 * m : Nat) : Int) = ((n / (2 * m) : Nat) : Int) := by
      rw [Int.tdiv_eq_ediv_of_nonneg (by omega)]; simp
    have e2 : (n : Int).tmod ((2 * m : Nat) : Int) = ((n % (2 * m) : Nat) : Int) := by
      rw [Int.tmod_eq_emod_of_nonneg (by omega)]; simp
    rw [e1, e2]
    by_cases hc : 2 * (n % (2 * m)) ≥ 2 * m
    · have : (m : Int) ≤ ((n % (2 * m) : Nat) : Int) := by omega
      simp only [this, if_true, hc]; omega
    · have : ¬ ((m : Int) ≤ ((n % (2 * m) : Nat) : Int)) := by omega
      simp only [this, if_false, hc]

/-! ### powers of ten and the precision tables -/

theorem pow_cast (k : Nat) : ((10 : Int) ^ k) = (((10 ^ k : Nat)) : Int) := by norm_cast

theorem pow10_pos (k : Nat) : (0 : Int) < (10 : Int) ^ k := by
  rw [pow_cast]; have := Nat.pow_pos (a := 10) (n := k) (by decide); omega

theorem pow10_mono {p q : Nat} (h : p ≤ q) : (10 : Int) ^ p ≤ (10 : Int) ^ q := by
  rw [pow_cast, pow_cast]; have := Nat.pow_le_pow_right (n := 10) (by decide) h; omega

theorem fitsPrec_mono {p q : Nat} (h : p ≤ q) (v : Int) (hv : fitsPrec p v) : fitsPrec q v := by
  unfold fitsPrec at *; have := pow10_mono h; omega

theorem fitsPrec_mul (p k : Nat) (x : Int) (hx : fitsPrec p x) : fitsPrec (p + k) (x * (10 : Int) ^ k) := by
  unfold fitsPrec at *
  have hk := pow10_pos k
  rw [Int.pow_add]
  constructor
  · have := Int.mul_lt_mul_of_pos_right hx.1 hk
    rw [Int.neg_mul] at this; exact this
  · exact Int.mul_lt_mul_of_pos_right hx.2 hk

theorem fitsPrec_of_mul (p k : Nat) (x : Int) (hx : fitsPrec p (x * (10 : Int) ^ k)) : fitsPrec p x := by
  unfold fitsPrec at *
  have hk : (1 : Int) ≤ (10 : Int) ^ k := by have := pow10_pos k; omega
  rcases (by omega : x < 0 ∨ 0 ≤ x) with h | h
  · have : x * (10 : Int) ^ k ≤ x * 1 := Int.mul_le_mul_of_nonpos_left (by omega) hk
    omega
  · have : x * 1 ≤ x * (10 : Int) ^ k := Int.mul_le_mul_of_nonneg_left hk h
    omega

theorem wrapW_of_nativeOk (w : Nat) (hw : 1 ≤ w) (v : Int) (h : nativeOk w v) : wrapW w v = v := by
  unfold wrapW; unfold nativeOk at h
  have e : (2 : Int) ^ w = 2 * 2 ^ (w - 1) := by
    obtain ⟨n, rfl⟩ : ∃ n, w = n + 1 := ⟨w - 1, by omega⟩
    simp [Int.pow_succ, Int.mul_comm]
  rw [Int.emod_eq_of_lt (by omega) (by omega)]; omega

theorem wrapW8_id (x : Int) (h1 : -128 ≤ x) (h2 : x < 128) : wrapW 8 x = x :=
  wrapW_of_nativeOk 8 (by decide) x (by unfold nativeOk; simp; omega)

/-- what the theorems need to know about a decimal width: the content of its
`MAX/MIN_FOR_EACH_PRECISION` tables and the size of its native integer -/
structure WidthOK (w : Nat) : Prop where
  pos : 1 ≤ w
  maxp : maxPrecision w ≤ 76
  pow : ∀ k, k ≤ maxPrecision w → pow10Table w k = some ((10 : Int) ^ k)
  powNone : ∀ k, maxPrecision w < k → pow10Table w k = none
  prec : ∀ p v, p ≤ maxPrecision w → (validPrec w p v = true ↔ fitsPrec p v)
  native : ∀ p v, p ≤ maxPrecision w → fitsPrec p v → nativeOk w v
  tenNative : ∀ k, k ≤ maxPrecision w → nativeOk w ((10 : Int) ^ k)

theorem max32 : ∀ k, k < 10 → MAX_DECIMAL32[k]? = some ((10 : Int) ^ k - 1) ∧ MIN_DECIMAL32[k]? = some (-((10 : Int) ^ k - 1)) := by decide
theorem max64 : ∀ k, k < 19 → MAX_DECIMAL64[k]? = some ((10 : Int) ^ k - 1) ∧ MIN_DECIMAL64[k]? = some (-((10 : Int) ^ k - 1)) := by decide
theorem max128 : ∀ k, k < 39 → MAX_DECIMAL128[k]? = some ((10 : Int) ^ k - 1) ∧ MIN_DECIMAL128[k]? = some (-((10 : Int) ^ k - 1)) := by decide

theorem widthOK128 : WidthOK 128 := by
  refine ⟨by decide, by decide, ?_, ?_, ?_, ?_, ?_⟩
  · intro k hk
    have hk' : k < 39 := by simp [maxPrecision, DECIMAL128_MAX_PRECISION] at hk; omega
    simp [pow10Table, (max128 k hk').1]
  · intro k hk
    have hk' : 39 ≤ k := by simp [maxPrecision, DECIMAL128_MAX_PRECISION] at hk; omega
    have hl : MAX_DECIMAL128.length = 39 := by decide
    simp [pow10Table, List.getElem?_eq_none (by omega : MAX_DECIMAL128.length ≤ k)]
  · intro p v hp
    have hp' : p < 39 := by simp [maxPrecision, DECIMAL128_MAX_PRECISION] at hp; omega
    have := max128 p hp'
    simp only [validPrec, List.getD_eq_getElem?_getD, this.1, this.2, fitsPrec]
    simp; omega
  · intro p v hp hv
    have hp' : p ≤ 38 := by simpa [maxPrecision, DECIMAL128_MAX_PRECISION] using hp
    have h38 := fitsPrec_mono hp' v hv
    unfold fitsPrec at h38; unfold nativeOk
    have : (10 : Int) ^ 38 < 2 ^ (128 - 1) := by decide
    omega
  · intro k hk
    have hk' : k ≤ 38 := by simpa [maxPrecision, DECIMAL128_MAX_PRECISION] using hk
    have h1 := pow10_mono hk'
    have h2 := pow10_pos k
    unfold nativeOk
    have : (10 : Int) ^ 38 < 2 ^ (128 - 1) := by decide
    omega

theorem widthOK32 : WidthOK 32 := by
  refine ⟨by decide, by decide, ?_, ?_, ?_, ?_, ?_⟩
  · intro k hk
    have hk' : k < 10 := by simp [maxPrecision, DECIMAL32_MAX_PRECISION] at hk; omega
    simp [pow10Table, (max32 k hk').1]
  · intro k hk
    have hk' : 10 ≤ k := by simp [maxPrecision, DECIMAL32_MAX_PRECISION] at hk; omega
    have hl : MAX_DECIMAL32.length = 10 := by decide
    simp [pow10Table, List.getElem?_eq_none (by omega : MAX_DECIMAL32.length ≤ k)]
  · intro p v hp
    have hp' : p < 10 := by simp [maxPrecision, DECIMAL32_MAX_PRECISION] at hp; omega
    have := max32 p hp'
    simp only [validPrec, List.getD_eq_getElem?_getD, this.1, this.2, fitsPrec]
    simp; omega
  · intro p v hp hv
    have hp' : p ≤ 9 := by simpa [maxPrecision, DECIMAL32_MAX_PRECISION] using hp
    have h := fitsPrec_mono hp' v hv
    unfold fitsPrec at h; unfold nativeOk
    have : (10 : Int) ^ 9 < 2 ^ (32 - 1) := by decide
    omega
  · intro k hk
    have hk' : k ≤ 9 := by simpa [maxPrecision, DECIMAL32_MAX_PRECISION] using hk
    have h1 := pow10_mono hk'
    have h2 := pow10_pos k
    unfold nativeOk
    have : (10 : Int) ^ 9 < 2 ^ (32 - 1) := by decide
    omega

theorem widthOK64 : WidthOK 64 := by
  refine ⟨by decide, by decide, ?_, ?_, ?_, ?_, ?_⟩
  · intro k hk
    have hk' : k < 19 := by simp [maxPrecision, DECIMAL64_MAX_PRECISION] at hk; omega
    simp [pow10Table, (max64 k hk').1]
  · intro k hk
    have hk' : 19 ≤ k := by simp [maxPrecision, DECIMAL64_MAX_PRECISION] at hk; omega
    have hl : MAX_DECIMAL64.length = 19 := by decide
    simp [pow10Table, List.getElem?_eq_none (by omega : MAX_DECIMAL64.length ≤ k)]
  · intro p v hp
    have hp' : p < 19 := by simp [maxPrecision, DECIMAL64_MAX_PRECISION] at hp; omega
    have := max64 p hp'
    simp only [validPrec, List.getD_eq_getElem?_getD, this.1, this.2, fitsPrec]
    simp; omega
  · intro p v hp hv
    have hp' : p ≤ 18 := by simpa [maxPrecision, DECIMAL64_MAX_PRECISION] using hp
    have h := fitsPrec_mono hp' v hv
    unfold fitsPrec at h; unfold nativeOk
    have : (10 : Int) ^ 18 < 2 ^ (64 - 1) := by decide
    omega
  · intro k hk
    have hk' : k ≤ 18 := by simpa [maxPrecision, DECIMAL64_MAX_PRECISION] using hk
    have h1 := pow10_mono hk'
    have h2 := pow10_pos k
    unfold nativeOk
    have : (10 : Int) ^ 18 < 2 ^ (64 - 1) := by decide
    omega

theorem widthOK256 : WidthOK 256 := by
  refine ⟨by decide, by decide, ?_, ?_, ?_, ?_, ?_⟩
  · intro k hk
    have hk' : k < 77 := by simp [maxPrecision, DECIMAL256_MAX_PRECISION] at hk; omega
    simp [pow10Table, DECIMAL256_TABLE_LEN, hk']
  · intro k hk
    have hk' : ¬ k < 77 := by simp [maxPrecision, DECIMAL256_MAX_PRECISION] at hk; omega
    simp [pow10Table, DECIMAL256_TABLE_LEN, hk']
  · intro p v _
    simp only [validPrec, fitsPrec]
    simp; omega
  · intro p v hp hv
    have hp' : p ≤ 76 := by simpa [maxPrecision, DECIMAL256_MAX_PRECISION] using hp
    have h := fitsPrec_mono hp' v hv
    unfold fitsPrec at h; unfold nativeOk
    have : (10 : Int) ^ 76 < 2 ^ (256 - 1) := by decide
    omega
  · intro k hk
    have hk' : k ≤ 76 := by simpa [maxPrecision, DECIMAL256_MAX_PRECISION] using hk
    have h1 := pow10_mono hk'
    have h2 := pow10_pos k
    unfold nativeOk
    have : (10 : Int) ^ 76 < 2 ^ (256 - 1) := by decide
    omega


/-! ### integer text -/

/-- the digit fold of `atoiLoop` -/
def accDigits (neg : Bool) (lo hi : Int) (acc : Option Int) (l : List Char) : Option Int :=
  l.foldl (fun acc c => acc.bind (fun a =>
    let v := if neg then a * 10 - digitVal c else a * 10 + digitVal c
    if lo ≤ v ∧ v ≤ hi then some v else none)) acc

theorem atoiLoop_digits (neg : Bool) (lo hi : Int) (l : List Char) (hl : ∀ c ∈ l, c.isDigit = true)
    (acc : Option Int) (k : Nat) :
    atoiLoop neg lo hi l acc k = (accDigits neg lo hi acc l, k + l.length) := by
  induction l generalizing acc k with
  | nil => simp [atoiLoop, accDigits]
  | cons c cs ih =>
    have hc : isDigit c = true := hl c (by simp)
    simp only [atoiLoop, hc, if_true]
    rw [ih (fun c' h => hl c' (by simp [h]))]
    simp [accDigits, Nat.add_assoc, Nat.add_comm 1]

theorem digitVal_digitChar (n : Nat) (h : n < 10) : digitVal (Nat.digitChar n) = n := by
  have : ∀ n, n < 10 → digitVal (Nat.digitChar n) = n := by decide
  exact this n h

theorem accDigits_pos (lo hi : Int) (hlo : lo ≤ 0) (n : Nat) (hn : (n : Int) ≤ hi) :
    accDigits false lo hi (some 0) (Nat.toDigits 10 n) = some (n : Int) := by
  induction n using Nat.strongRecOn with
  | _ n ih =>
    by_cases h : n < 10
    · rw [Nat.toDigits_of_lt_base h]
      simp [accDigits, digitVal_digitChar n h]; omega
    · rw [Nat.toDigits_of_base_le (by decide) (by omega)]
      unfold accDigits
      rw [List.foldl_append]
      have := ih (n / 10) (by omega) (by omega)
      unfold accDigits at this
      rw [this]
      simp [digitVal_digitChar (n % 10) (by omega)]; omega

theorem accDigits_neg (lo hi : Int) (hhi : 0 ≤ hi) (n : Nat) (hn : lo ≤ -(n : Int)) :
    accDigits true lo hi (some 0) (Nat.toDigits 10 n) = some (-(n : Int)) := by
  induction n using Nat.strongRecOn with
  | _ n ih =>
    by_cases h : n < 10
    · rw [Nat.toDigits_of_lt_base h]
      simp [accDigits, digitVal_digitChar n h]; omega
    · rw [Nat.toDigits_of_base_le (by decide) (by omega)]
      unfold accDigits
      rw [List.foldl_append]
      have := ih (n / 10) (by omega) (by omega)
      unfold accDigits at this
      rw [this]
      simp [digitVal_digitChar (n % 10) (by omega)]; omega

theorem getLast_toDigits_isDigit (n : Nat) : ∃ c, (Nat.toDigits 10 n).getLast? = some c ∧ c.isDigit = true := by
  have hne : Nat.toDigits 10 n ≠ [] := Nat.toDigits_ne_nil
  refine ⟨(Nat.toDigits 10 n).getLast hne, List.getLast?_eq_some_getLast hne, ?_⟩
  exact Nat.isDigit_of_mem_toDigits (by decide) (by decide) (List.getLast_mem hne)

theorem parseInt_formatInt (lo hi x : Int) (hlo : lo ≤ 0) (hhi : 0 ≤ hi) (hx : lo ≤ x ∧ x ≤ hi) :
    parseInt lo hi (formatInt x) = some x := by
  have hdig : ∀ n, ∀ c ∈ Nat.toDigits 10 n, c.isDigit = true :=
    fun n c hc => Nat.isDigit_of_mem_toDigits (by decide) (by decide) hc
  obtain ⟨cl, hcl, hcd⟩ := getLast_toDigits_isDigit x.natAbs
  have hne : Nat.toDigits 10 x.natAbs ≠ [] := Nat.toDigits_ne_nil
  by_cases hneg : x < 0
  · have hfmt : formatInt x = '-' :: Nat.toDigits 10 x.natAbs := by simp [formatInt, hneg]
    have hlast : (formatInt x).getLast? = some cl := by
      rw [hfmt, List.getLast?_cons_of_ne_nil hne]; exact hcl
    have hacc := accDigits_neg lo hi hhi x.natAbs (by omega)
    have hval : -(x.natAbs : Int) = x := by omega
    unfold parseInt
    simp only [hlast, isDigit, hcd, if_true, not_true, if_false]
    rw [hfmt]
    simp only [atoiSigned, atoiLoop_digits true lo hi _ (hdig _), hacc, hval, List.length_cons]
    simp [Nat.add_comm]
  · have hfmt : formatInt x = Nat.toDigits 10 x.natAbs := by simp [formatInt, hneg]
    have hlast : (formatInt x).getLast? = some cl := by rw [hfmt]; exact hcl
    have hacc := accDigits_pos lo hi hlo x.natAbs (by omega)
    have hval : (x.natAbs : Int) = x := by omega
    obtain ⟨c, t, hct⟩ : ∃ c t, Nat.toDigits 10 x.natAbs = c :: t := by
      cases h : Nat.toDigits 10 x.natAbs with
      | nil => exact absurd h hne
      | cons c t => exact ⟨c, t, rfl⟩
    have hc : c.isDigit = true := hdig x.natAbs c (by rw [hct]; simp)
    have hc1 : c ≠ '-' := by intro h; rw [h] at hc; exact absurd hc (by decide)
    have hc2 : c ≠ '+' := by intro h; rw [h] at hc; exact absurd hc (by decide)
    have hsig : atoiSigned lo hi (c :: t) = atoiLoop false lo hi (c :: t) (some 0) 0 := by
      unfold atoiSigned
      split
      · rename_i r h; injection h with h1 _; exact absurd h1 hc1
      · rename_i r h; injection h with h1 _; exact absurd h1 hc2
      · rfl
    unfold parseInt
    simp only [hlast, isDigit, hcd, if_true, not_true, if_false]
    rw [hfmt, hct, hsig, ← hct]
    simp only [atoiLoop_digits false lo hi _ (hdig _), hacc, hval]
    simp

end ArrowModel.C13

/-! ### floating point -/
namespace ArrowModel.C13
open ArrowModel.Generated.C13

theorem precFilter_eq (w p : Nat) (hw : WidthOK w) (hp : p ≤ maxPrecision w) (r : Int) :
    (if nativeOk w r ∧ validPrec w p r = true then some r else none) =
      (if fitsPrec p r then some r else none) := by
  by_cases h1 : fitsPrec p r
  · have h3 := hw.native p _ hp h1
    have h4 := (hw.prec p _ hp).2 h1
    simp [h1, h3, h4]
  · have h4 : ¬ (validPrec w p r = true) := fun h => h1 ((hw.prec p _ hp).1 h)
    simp [h1, h4]

theorem floatProdToDec_exact (w p : Nat) (hw : WidthOK w) (hp : p ≤ maxPrecision w)
    (neg : Bool) (m : Nat) (e : Int) :
    floatProdToDec w p (.fin neg m e) = floatToDecSpec p 0 neg m e := by
  simp only [floatProdToDec, floatToDecSpec, fRound, Int.toNat_zero, Nat.pow_zero, Nat.mul_one, Int.neg_zero]
  exact precFilter_eq w p hw hp _

/-- half-away rounding written as one floor: `⌊(2a + d) / 2d⌋` -/
theorem roundNat_eq (a d : Nat) (hd : 0 < d) :
    (if 2 * (a % d) ≥ d then a / d + 1 else a / d) = (2 * a + d) / (2 * d) := by
  have h := Nat.div_add_mod a d
  have hr := Nat.mod_lt a hd
  generalize a / d = q at *
  generalize a % d = r at *
  by_cases hc : 2 * r ≥ d
  · simp only [hc, if_true]
    symm
    apply Nat.div_eq_of_lt_le
    · have : (q + 1) * (2 * d) = 2 * (d * q) + 2 * d := by
        rw [Nat.add_mul, Nat.mul_comm q (2 * d), Nat.mul_assoc]; omega
      omega
    · have : (q + 1 + 1) * (2 * d) = 2 * (d * q) + 4 * d := by
        rw [Nat.add_mul, Nat.add_mul, Nat.mul_comm q (2 * d), Nat.mul_assoc]; omega
      omega
  · simp only [hc, if_false]
    symm
    apply Nat.div_eq_of_lt_le
    · have : q * (2 * d) = 2 * (d * q) := by rw [Nat.mul_comm q (2 * d), Nat.mul_assoc]
      omega
    · have : (q + 1) * (2 * d) = 2 * (d * q) + 2 * d := by
        rw [Nat.add_mul, Nat.mul_comm q (2 * d), Nat.mul_assoc]; omega
      omega

/-- equal fractions round alike -/
theorem roundNat_congr (a b c d : Nat) (hb : 0 < b) (hd : 0 < d) (h : a * d = c * b) :
    (2 * a + b) / (2 * b) = (2 * c + d) / (2 * d) := by
  rw [← Nat.mul_div_mul_right (2 * a + b) (2 * b) hd, ← Nat.mul_div_mul_right (2 * c + d) (2 * d) hb]
  have e1 : (2 * a + b) * d = (2 * c + d) * b := by
    rw [Nat.add_mul, Nat.add_mul, Nat.mul_assoc, Nat.mul_assoc, h, Nat.mul_comm b d]
  have e2 : 2 * b * d = 2 * d * b := by rw [Nat.mul_assoc, Nat.mul_assoc, Nat.mul_comm b d]
  rw [e1, e2]

theorem dRHA_signed (neg : Bool) (a d : Nat) (hd : 0 < d) :
    divRoundHalfAway (if neg = true then -(a : Int) else (a : Int)) d =
      if neg = true then -(((2 * a + d) / (2 * d) : Nat) : Int) else (((2 * a + d) / (2 * d) : Nat) : Int) := by
  unfold divRoundHalfAway
  cases neg with
  | false =>
    have h0 : ¬ ((a : Int) < 0) := by omega
    simp only [Bool.false_eq_true, if_false, h0, Int.natAbs_natCast, roundNat_eq a d hd]
  | true =>
    simp only [if_true, Int.natAbs_neg, Int.natAbs_natCast, roundNat_eq a d hd]
    by_cases h : (-(a : Int) < 0)
    · simp only [h, if_true]
    · have ha : a = 0 := by omega
      subst ha
      have h0 : (2 * 0 + d) / (2 * d) = 0 := Nat.div_eq_of_lt (by omega)
      simp only [h, if_false, h0]; rfl

/-- **when the binary64 product `x = 10^s · v` carries no rounding error, the cast result is
the exact specification** -/
theorem floatToDec_exact_of_prod (w p : Nat) (s : Int) (hw : WidthOK w) (hp : p ≤ maxPrecision w)
    (neg : Bool) (m : Nat) (e : Int) (m2 : Nat) (e2 : Int)
    (hx : m * 2 ^ e.toNat * 10 ^ s.toNat * 2 ^ (-e2).toNat = m2 * 2 ^ e2.toNat * 2 ^ (-e).toNat * 10 ^ (-s).toNat) :
    floatProdToDec w p (.fin neg m2 e2) = floatToDecSpec p s neg m e := by
  have hd1 : 0 < 2 ^ (-e2).toNat := Nat.pow_pos (by decide)
  have hd2 : 0 < 2 ^ (-e).toNat * 10 ^ (-s).toNat := Nat.mul_pos (Nat.pow_pos (by decide)) (Nat.pow_pos (by decide))
  have hc := roundNat_congr (m2 * 2 ^ e2.toNat) (2 ^ (-e2).toNat) (m * 2 ^ e.toNat * 10 ^ s.toNat)
    (2 ^ (-e).toNat * 10 ^ (-s).toNat) hd1 hd2 (by rw [← Nat.mul_assoc]; exact hx.symm)
  have hval : fRound neg m2 e2 =
      divRoundHalfAway (if neg = true then -((m * 2 ^ e.toNat * 10 ^ s.toNat : Nat) : Int) else ((m * 2 ^ e.toNat * 10 ^ s.toNat : Nat) : Int))
        (2 ^ (-e).toNat * 10 ^ (-s).toNat) := by
    unfold fRound
    rw [dRHA_signed neg _ _ hd1, dRHA_signed neg _ _ hd2, hc]
  simp only [floatProdToDec, floatToDecSpec]
  rw [precFilter_eq w p hw hp]
  simp only [hval]

end ArrowModel.C13

/-! ### DataType display → parse (token level) -/
namespace ArrowModel.C13.DT

/-- the recursive fragment for which display → parse is proved: primitive type names,
decimals, dictionaries and the four list kinds (any nullability, any element field name) -/
def Frag : DType → Prop
  | .simple n => n ∈ simpleNames
  | .decimal name p s => name ∈ decimalNames ∧ decimalOk name p s = true
  | .dictionary k v => Frag k ∧ Frag v
  | .list kind _ t _ => kind ∈ listKinds ∧ Frag t
  | _ => False

def fsize : DType → Nat
  | .dictionary k v => fsize k + fsize v + 1
  | .list _ _ t _ => fsize t + 1
  | _ => 1

def headWord : DType → String
  | .simple n => n
  | .decimal name _ _ => name
  | .dictionary _ _ => "Dictionary"
  | .list kind _ _ _ => kind
  | _ => ""

theorem toks_cons (t : DType) (h : Frag t) : ∃ r, toks t = .word (headWord t) :: r := by
  cases t <;> simp [Frag] at h <;> simp [toks, headWord]

theorem dec_branch : ∀ n ∈ decimalNames, n ∉ simpleNames ∧ n ≠ "Timestamp" ∧ n ≠ "Time32" ∧ n ≠ "Time64" ∧
    n ≠ "Duration" ∧ n ≠ "Interval" ∧ n ≠ "FixedSizeBinary" ∧ n ≠ "non-null" ∧ n ≠ "nullable" := by decide
theorem list_branch : ∀ n ∈ listKinds, n ∉ simpleNames ∧ n ≠ "Timestamp" ∧ n ≠ "Time32" ∧ n ≠ "Time64" ∧
    n ≠ "Duration" ∧ n ≠ "Interval" ∧ n ≠ "FixedSizeBinary" ∧ n ∉ decimalNames ∧ n ≠ "Dictionary" ∧
    n ≠ "non-null" ∧ n ≠ "nullable" := by decide
theorem simple_branch : ∀ n ∈ simpleNames, n ≠ "non-null" ∧ n ≠ "nullable" := by decide
theorem dict_branch : "Dictionary" ∉ simpleNames ∧ "Dictionary" ∉ decimalNames := by decide

theorem headWord_ne (t : DType) (h : Frag t) : headWord t ≠ "non-null" ∧ headWord t ≠ "nullable" := by
  cases t with
  | simple n => exact simple_branch n h
  | decimal name p s => have := dec_branch name h.1; exact ⟨this.2.2.2.2.2.2.2.1, this.2.2.2.2.2.2.2.2⟩
  | dictionary k v => exact ⟨by simp only [headWord]; decide, by simp only [headWord]; decide⟩
  | list kind nullable t fname => have := list_branch kind h.1; exact ⟨this.2.2.2.2.2.2.2.2.2.1, this.2.2.2.2.2.2.2.2.2.2⟩
  | _ => simp [Frag] at h

theorem optNullable_toks (b : Bool) (t : DType) (h : Frag t) (r : List Tok) :
    optNullable (nn b ++ (toks t ++ r)) = (b, toks t ++ r) := by
  obtain ⟨r', hw⟩ := toks_cons t h
  obtain ⟨h1, h2⟩ := headWord_ne t h
  cases b with
  | false => simp [nn, optNullable]
  | true =>
    rw [hw]
    simp only [nn, if_true, List.nil_append, List.cons_append]
    unfold optNullable
    split
    · rename_i r0 he; injection he with he1 _; injection he1 with he2; exact absurd he2 h1
    · rename_i r0 he; injection he with he1 _; injection he1 with he2; exact absurd he2 h2
    · rfl

theorem listFieldName_toks (fname : String) (r : List Tok) :
    listFieldName ((if fname = "item" then [] else [Tok.comma, .word "field", .colon, .sq fname]) ++ (Tok.rp :: r))
      = some (fname, Tok.rp :: r) := by
  by_cases h : fname = "item"
  · simp [h, listFieldName]
  · simp [h, listFieldName]

theorem parseType_toks : ∀ (t : DType) (_ : Frag t) (fuel : Nat) (_ : fsize t ≤ fuel) (rest : List Tok),
    parseType fuel (toks t ++ rest) = some (t, rest)
  | .simple n, h, fuel, hf, rest => by
    obtain ⟨f, rfl⟩ : ∃ f, fuel = f + 1 := ⟨fuel - 1, by simp [fsize] at hf; omega⟩
    simp only [Frag] at h
    simp [toks, parseType, h]
  | .decimal name p s, h, fuel, hf, rest => by
    obtain ⟨f, rfl⟩ : ∃ f, fuel = f + 1 := ⟨fuel - 1, by simp [fsize] at hf; omega⟩
    simp only [Frag] at h
    obtain ⟨b1, b2, b3, b4, b5, b6, b7, _, _⟩ := dec_branch name h.1
    simp [toks, parseType, b1, b2, b3, b4, b5, b6, b7, h.1, h.2]
  | .dictionary k v, h, fuel, hf, rest => by
    obtain ⟨f, rfl⟩ : ∃ f, fuel = f + 1 := ⟨fuel - 1, by simp [fsize] at hf; omega⟩
    simp only [Frag] at h
    simp only [fsize] at hf
    have ik := parseType_toks k h.1 f (by omega) (Tok.comma :: (toks v ++ (Tok.rp :: rest)))
    have iv := parseType_toks v h.2 f (by omega) (Tok.rp :: rest)
    have e : toks (.dictionary k v) ++ rest = .word "Dictionary" :: .lp :: (toks k ++ (Tok.comma :: (toks v ++ (Tok.rp :: rest)))) := by
      simp [toks]
    rw [e]
    simp [parseType, dict_branch.1, dict_branch.2, ik, iv]
  | .list kind nullable t fname, h, fuel, hf, rest => by
    obtain ⟨f, rfl⟩ : ∃ f, fuel = f + 1 := ⟨fuel - 1, by simp [fsize] at hf; omega⟩
    simp only [Frag] at h
    simp only [fsize] at hf
    obtain ⟨b1, b2, b3, b4, b5, b6, b7, b8, b9, _, _⟩ := list_branch kind h.1
    have it := parseType_toks t h.2 f (by omega)
      ((if fname = "item" then [] else [Tok.comma, .word "field", .colon, .sq fname]) ++ (Tok.rp :: rest))
    have e : toks (.list kind nullable t fname) ++ rest = .word kind :: .lp :: (nn nullable ++ (toks t ++
        ((if fname = "item" then [] else [Tok.comma, .word "field", .colon, .sq fname]) ++ (Tok.rp :: rest)))) := by
      simp [toks]
    rw [e]
    simp [parseType, b1, b2, b3, b4, b5, b6, b7, b8, b9, h.1, optNullable_toks nullable t h.2, it, listFieldName_toks]
  | .timestamp _ _, h, _, _, _ => by simp [Frag] at h
  | .time32 _, h, _, _, _ => by simp [Frag] at h
  | .time64 _, h, _, _, _ => by simp [Frag] at h
  | .duration _, h, _, _, _ => by simp [Frag] at h
  | .interval _, h, _, _, _ => by simp [Frag] at h
  | .fixedSizeBinary _, h, _, _, _ => by simp [Frag] at h
  | .fixedSizeList _ _ _ _, h, _, _, _ => by simp [Frag] at h
  | .struct _, h, _, _, _ => by simp [Frag] at h
  | .map _ _ _ _, h, _, _, _ => by simp [Frag] at h
  | .runEndEncoded _ _ _ _ _ _, h, _, _, _ => by simp [Frag] at h
  | .union _ _, h, _, _, _ => by simp [Frag] at h

theorem fsize_le_length : ∀ (t : DType) (_ : Frag t), fsize t ≤ (toks t).length
  | .simple n, _ => by simp [fsize, toks]
  | .decimal _ _ _, _ => by simp [fsize, toks]
  | .dictionary k v, h => by
    have := fsize_le_length k h.1; have := fsize_le_length v h.2
    simp [fsize, toks]; omega
  | .list kind nullable t fname, h => by
    have := fsize_le_length t h.2
    simp [fsize, toks]; omega
  | .timestamp _ _, h => by simp [Frag] at h
  | .time32 _, h => by simp [Frag] at h
  | .time64 _, h => by simp [Frag] at h
  | .duration _, h => by simp [Frag] at h
  | .interval _, h => by simp [Frag] at h
  | .fixedSizeBinary _, h => by simp [Frag] at h
  | .fixedSizeList _ _ _ _, h => by simp [Frag] at h
  | .struct _, h => by simp [Frag] at h
  | .map _ _ _ _, h => by simp [Frag] at h
  | .runEndEncoded _ _ _ _ _ _, h => by simp [Frag] at h
  | .union _ _, h => by simp [Frag] at h

theorem parse_toks (t : DType) (h : Frag t) : parse (toks t) = some t := by
  unfold parse
  have := parseType_toks t h ((toks t).length + 1) (by have := fsize_le_length t h; omega) []
  rw [List.append_nil] at this
  rw [this]

end ArrowModel.C13.DT
