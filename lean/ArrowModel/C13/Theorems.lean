import ArrowModel.C13.Lemmas
/-
C13 — property theorems.  "In strict mode the cast errors exactly when some non-null value
is not representable in the target type; in safe mode it succeeds with nulls at exactly
those rows and the identical values elsewhere; representable values are preserved exactly."

Arrays are `List (payload × validity)`; `logical` forgets the payload under a null.
All statements quantify over every array, every conversion function `f`, every value.
-/
namespace ArrowModel.C13
open ArrowModel.Generated.C13

/-! ## 1. strict / safe duality (`try_unary` vs `unary_opt`), for ANY element conversion -/

/-- **Strict mode fails exactly when some non-null row is not convertible.**
`try_unary(f)` returns an error iff there is a *valid* slot whose value `f` rejects — a
payload under a null never causes an error. -/
theorem strict_errors_iff {α β} (f : α → Option β) (z : β) (rows : List (α × Bool)) :
    tryUnary f z rows = none ↔ ∃ a, (a, true) ∈ rows ∧ f a = none :=
  tryUnary_none_iff f z rows

/-- **Safe mode never fails; the result is null exactly at the input nulls and at the rows
`f` rejects, and `f x` elsewhere** (`safeSpec` is `map (· >>= f)` on the logical column). -/
theorem safe_result {α β} (f : α → Option β) (z : β) (rows : List (α × Bool)) :
    logical (unaryOpt f z rows) = safeSpec f (logical rows) :=
  logical_unaryOpt f z rows

/-- **When strict mode succeeds it returns exactly the safe-mode array** (same values, same
validity, same zero payload under nulls). -/
theorem strict_eq_safe {α β} (f : α → Option β) (z : β) (rows : List (α × Bool))
    (out : List (β × Bool)) (h : tryUnary f z rows = some out) : out = unaryOpt f z rows :=
  tryUnary_some_eq f z rows out h

/-- **Strict mode is the specification's strict cast of the logical column**: an error iff a
non-null value is not representable, otherwise the list of converted values. -/
theorem strict_result {α β} (f : α → Option β) (z : β) (rows : List (α × Bool)) :
    (tryUnary f z rows).map logical = strictSpec f (logical rows) :=
  tryUnary_logical f z rows

/-- **Null payloads never reach `f`**: two arrays denoting the same logical column (whatever
garbage lies under their nulls) cast to the same logical column in both modes, and strict mode
fails on one iff it fails on the other. -/
theorem null_payload_irrelevant {α β} (f : α → Option β) (z : β) (r1 r2 : List (α × Bool))
    (h : logical r1 = logical r2) :
    logical (unaryOpt f z r1) = logical (unaryOpt f z r2) ∧
    (tryUnary f z r1).map logical = (tryUnary f z r2).map logical := by
  rw [logical_unaryOpt, logical_unaryOpt, tryUnary_logical, tryUnary_logical, h]
  exact ⟨rfl, rfl⟩

/-- **The row reported by strict mode is the first valid failing row.** -/
theorem strict_reports_first_failure {α β} (f : α → Option β) (rows : List (α × Bool)) (i : Nat)
    (h : firstFail f rows = some i) :
    (∃ a, rows[i]? = some (a, true) ∧ f a = none) ∧
    ∀ j a, j < i → rows[j]? = some (a, true) → (f a).isSome = true :=
  firstFail_spec f rows i h

/-- non-vacuity: a column with a null whose payload `f` would reject, and a valid failing row -/
example : tryUnary (numCast 0 255) 0 [(300, false), (7, true)] = some [(0, false), (7, true)] ∧
    tryUnary (numCast 0 255) 0 [(300, false), (7, true), (-1, true)] = none ∧
    unaryOpt (numCast 0 255) 0 [(300, false), (7, true), (-1, true)] = [(0, false), (7, true), (0, false)] := by
  decide

/-! ## 2. integer ↔ integer -/

/-- **`num_traits::cast` between integer types succeeds exactly on the target range and
returns the same number.** -/
theorem intCast_exact (lo hi x y : Int) :
    numCast lo hi x = some y ↔ (lo ≤ x ∧ x ≤ hi) ∧ y = x := by
  unfold numCast
  by_cases h : lo ≤ x ∧ x ≤ hi
  · simp [h]; exact eq_comm
  · simp [h]

theorem intCast_eq_spec (lo hi x : Int) : numCast lo hi x = intCastSpec lo hi x :=
  numCast_eq_spec lo hi x

/-- **A lossless widening followed by the narrowing back is the identity** (every ordered pair
of integer types whose ranges are nested). -/
theorem widen_then_narrow (lo1 hi1 lo2 hi2 x : Int) (hlo : lo2 ≤ lo1) (hhi : hi1 ≤ hi2)
    (hx : lo1 ≤ x ∧ x ≤ hi1) :
    (numCast lo2 hi2 x).bind (numCast lo1 hi1) = some x := by
  have : lo2 ≤ x ∧ x ≤ hi2 := by omega
  simp [numCast, this, hx]

example : (numCast (-32768) 32767 (-128)).bind (numCast (-128) 127) = some (-128) := by decide

/-! ## 3. decimals -/

/-- **Integer → decimal(p, s), s ≥ 0**: the cast never fails as a whole, and a value converts
iff `x·10^s` has at most `p` digits, to exactly `x·10^s` (no wrap-around in the native type).
Uses the regenerated `MAX/MIN_DECIMAL*_FOR_EACH_PRECISION` tables through `WidthOK`. -/
theorem intToDec_exact (w p : Nat) (s : Int) (hi : Int) (hw : WidthOK w) (hp : p ≤ maxPrecision w)
    (hs0 : 0 ≤ s) (hs : s ≤ (maxPrecision w : Int)) :
    ∃ f, intToDec hi w p s = some f ∧ ∀ x, f x = intToDecSpec p s x := by
  obtain ⟨k, rfl⟩ : ∃ k : Nat, s = (k : Int) := ⟨s.toNat, by omega⟩
  have hk : k ≤ maxPrecision w := by omega
  have hpow : nativeOk w ((10 : Int) ^ k) := hw.tenNative k hk
  have hneg : ¬ ((k : Int) < 0) := by omega
  refine ⟨_, by simp only [intToDec, hneg, if_false, Int.toNat_natCast, hpow, not_true]; rfl, ?_⟩
  intro x
  simp only [intToDecSpec, hs0, if_true, Int.toNat_natCast]
  by_cases h1 : fitsPrec p (x * (10 : Int) ^ k)
  · have h2 : nativeOk w x := hw.native p x hp (fitsPrec_of_mul p k x h1)
    have h3 := hw.native p _ hp h1
    have h4 := (hw.prec p _ hp).2 h1
    simp [h1, h2, h3, h4]
  · have h4 : ¬ (validPrec w p (x * (10 : Int) ^ k) = true) := fun h => h1 ((hw.prec p _ hp).1 h)
    simp [h1, h4]

/-- **Decimal(_, s) → integer, s ≥ 0**: `x / 10^s` truncated toward zero, representable iff inside
the target integer range. -/
theorem decToInt_exact (w : Nat) (s lo hi : Int) (hw : WidthOK w)
    (hs0 : 0 ≤ s) (hs : s ≤ (maxPrecision w : Int)) :
    ∃ f, decToInt w s lo hi = some f ∧ ∀ x, f x = decToIntSpec s lo hi x := by
  obtain ⟨k, rfl⟩ : ∃ k : Nat, s = (k : Int) := ⟨s.toNat, by omega⟩
  have hk : k ≤ maxPrecision w := by omega
  have hpow : nativeOk w ((10 : Int) ^ k) := hw.tenNative k hk
  have hneg : ¬ ((k : Int) < 0) := by omega
  refine ⟨_, by simp only [decToInt, Int.natAbs_natCast, hpow, not_true, if_false, hneg]; rfl, ?_⟩
  intro x
  simp [decToIntSpec, hs0, numCast, inRange, tdivNat_eq_divTrunc]

/-- **Decimal(p1,s1) → decimal(p2,s2) with s1 ≤ s2 (scale increase).**  The fallible
path equals the exact rescale for *every* input, and the "infallible" wrapping-multiply shortcut
(taken only when the native type is not narrowed and `p1 + (s2-s1) ≤ p2`, a sum now computed in
`i16`) equals it **for inputs that fit the declared precision `p1`** (DESIGN §6 item 4: this
hypothesis cannot be dropped — see the out-of-domain probes of the harness). -/
theorem upscaler_exact (w1 w2 p1 p2 : Nat) (s1 s2 : Int) (hw : WidthOK w2)
    (hp2 : p2 ≤ maxPrecision w2) (hs : s1 ≤ s2) (hk : s2 - s1 ≤ (maxPrecision w2 : Int)) :
    match upscaler w1 p1 s1 w2 p2 s2 with
    | .fallible f => ∀ x, f x = decToDecSpec s1 p2 s2 x
    | .infallible f => ∀ x, fitsPrec p1 x → f x = decToDecSpec s1 p2 s2 x
    | _ => False := by
  obtain ⟨k, hkk⟩ : ∃ k : Nat, s2 - s1 = (k : Int) := ⟨(s2 - s1).toNat, by omega⟩
  have hmp := hw.maxp
  have hkm : k ≤ maxPrecision w2 := by omega
  have hd : wrapW 8 (s2 - s1) = (k : Int) := by rw [hkk]; exact wrapW8_id _ (by omega) (by omega)
  have hspec : ∀ x, decToDecSpec s1 p2 s2 x = if fitsPrec p2 (x * (10 : Int) ^ k) then some (x * (10 : Int) ^ k) else none := by
    intro x; simp [decToDecSpec, rescaleExact, hs, hkk]
  unfold upscaler
  simp only [hd, Int.toNat_natCast, hw.pow k hkm]
  have hneg : ¬ ((k : Int) < 0) := by omega
  simp only [hneg, if_false]
  by_cases hinf : w1 ≤ w2 ∧ (p1 : Int) + (k : Int) ≤ (p2 : Int)
  · simp only [hinf, and_self, if_true]
    have hinf := hinf.2
    intro x hx
    have h1 : fitsPrec p2 (x * (10 : Int) ^ k) := fitsPrec_mono (by omega) _ (fitsPrec_mul p1 k x hx)
    have h2 : nativeOk w2 x := hw.native p2 x hp2 (fitsPrec_mono (by omega) x hx)
    have h3 : nativeOk w2 (x * (10 : Int) ^ k) := hw.native p2 _ hp2 h1
    rw [hspec]
    simp [h1, h2, wrapW_of_nativeOk w2 hw.pos _ h3]
  · simp only [hinf, if_false]
    intro x
    rw [hspec]
    by_cases h1 : fitsPrec p2 (x * (10 : Int) ^ k)
    · have h2 : nativeOk w2 x := hw.native p2 x hp2 (fitsPrec_of_mul p2 k x h1)
      have h3 : nativeOk w2 (x * (10 : Int) ^ k) := hw.native p2 _ hp2 h1
      have h4 := (hw.prec p2 (x * (10 : Int) ^ k) hp2).2 h1
      simp [h1, h2, h3, h4]
    · have h4 : ¬ (validPrec w2 p2 (x * (10 : Int) ^ k) = true) := fun h => h1 ((hw.prec p2 _ hp2).1 h)
      simp [h1, h4]

example : WidthOK 128 ∧ (2 : Int) ≤ 4 := ⟨widthOK128, by decide⟩

/-- **Scale decrease**: the fallible path is the exact quotient rounded half away from zero,
accepted iff it has at most `p2` digits.  *Partial*: for the infallible shortcut only
"the result is the rounded quotient whenever it fits the native output type" is proved; that
`|x| < 10^p1` and `p1 - (s1-s2) < p2` imply it fits `p2` digits is left to the correspondence
run. -/
theorem downscaler_exact_partial (w1 w2 p1 p2 : Nat) (s1 s2 : Int) (hw1 : WidthOK w1) (hw2 : WidthOK w2)
    (hp2 : p2 ≤ maxPrecision w2) (hs : s2 < s1) (hk : s1 - s2 ≤ (maxPrecision w1 : Int)) :
    match downscaler w1 p1 s1 w2 p2 s2 with
    | .fallible f => ∀ x, f x = decToDecSpec s1 p2 s2 x
    | .infallible f => ∀ x, nativeOk w2 (divRoundHalfAway x (10 ^ (s1 - s2).toNat)) →
        f x = some (rescaleExact s1 s2 x)
    | _ => False := by
  obtain ⟨k, hkk⟩ : ∃ k : Nat, s1 - s2 = ((k + 1 : Nat) : Int) := ⟨(s1 - s2).toNat - 1, by omega⟩
  have hmp := hw1.maxp
  have hkm : k + 1 ≤ maxPrecision w1 := by omega
  have hd : wrapW 8 (s1 - s2) = ((k + 1 : Nat) : Int) := by rw [hkk]; exact wrapW8_id _ (by omega) (by omega)
  have hdiv : ((10 : Int) ^ (k + 1)).toNat = 2 * (5 * 10 ^ k) := by
    rw [pow_cast, Int.toNat_natCast, Nat.pow_succ]; omega
  have hdiv' : 10 ^ (k + 1) = 2 * (5 * 10 ^ k) := by rw [Nat.pow_succ]; omega
  have hns : ¬ (s1 ≤ s2) := by omega
  have hrs : ∀ x, rescaleExact s1 s2 x = divRoundHalfAway x (2 * (5 * 10 ^ k)) := by
    intro x; simp [rescaleExact, hns, hkk, hdiv']
  unfold downscaler
  simp only [hd, Int.toNat_natCast, hw1.pow (k + 1) hkm, hdiv]
  have hneg : ¬ (((k + 1 : Nat) : Int) < 0) := by omega
  simp only [hneg, if_false]
  by_cases hinf : w1 ≤ w2 ∧ (p1 : Int) - ((k + 1 : Nat) : Int) < (p2 : Int)
  · simp only [hinf, and_self, if_true]
    intro x hx
    rw [hkk, Int.toNat_natCast, hdiv'] at hx
    rw [hrs, downRound_eq_spec]
    simp [hx]
  · simp only [hinf, if_false]
    intro x
    simp only [decToDecSpec, hrs, downRound_eq_spec]
    by_cases h1 : fitsPrec p2 (divRoundHalfAway x (2 * (5 * 10 ^ k)))
    · have h3 := hw2.native p2 _ hp2 h1
      have h4 := (hw2.prec p2 _ hp2).2 h1
      simp [h1, h3, h4]
    · have h4 : ¬ (validPrec w2 p2 (divRoundHalfAway x (2 * (5 * 10 ^ k))) = true) := fun h => h1 ((hw2.prec p2 _ hp2).1 h)
      simp [h1, h4]

/-- **The documented rounding**: `d = x / div; r = x % div; adjust when |r| ≥ div/2` is
round-half-away-from-zero of the exact quotient, for every even divisor (all `10^k`, k ≥ 1). -/
theorem downscale_rounding (m : Nat) (x : Int) :
    downRound (2 * m) x = divRoundHalfAway x (2 * m) := downRound_eq_spec m x

example : downRound 100 (-250) = -3 ∧ downRound 100 249 = 2 ∧ downRound 100 (-249) = -2 := by decide

/-- the four decimal widths satisfy the table hypotheses (checked against the regenerated
source tables) -/
theorem widths_ok : WidthOK 32 ∧ WidthOK 64 ∧ WidthOK 128 ∧ WidthOK 256 :=
  ⟨widthOK32, widthOK64, widthOK128, widthOK256⟩

/-- **Regression witness** for the former `i8` wrap in `make_upscaler`: Decimal256(76,0) →
Decimal256(76,60) takes the checked path and `10^30` (not representable) is rejected. -/
theorem upscaler_no_i8_wrap :
    (match decToDec 256 76 0 256 76 60 with
     | .fallible f => f ((10 : Int) ^ 30)
     | _ => some 0) = none ∧
    decToDecSpec 0 76 60 ((10 : Int) ^ 30) = none := by
  constructor
  · decide
  · decide

/-! ## 4. text -/

/-- **Integer text round trip, every width and signedness**: formatting any value of an
integer type with range `[lo, hi]` (`lexical_core::write`) and parsing the text back as the
same type (`parser_primitive!` on the atoi contract: optional sign, checked digit
accumulation, white-space trimming) returns the value. -/
theorem int_text_roundtrip (lo hi x : Int) (hlo : lo ≤ 0) (hhi : 0 ≤ hi) (hx : lo ≤ x ∧ x ≤ hi) :
    parseInt lo hi (formatInt x) = some x :=
  parseInt_formatInt lo hi x hlo hhi hx

example : parseInt (-128) 127 (formatInt (-128)) = some (-128) ∧
    parseInt 0 18446744073709551615 (formatInt 18446744073709551615) = some 18446744073709551615 ∧
    parseInt (-128) 127 "128".toList = none := by decide

/-- **Boolean text round trip** (`true`/`false` written by the formatter are accepted by
`cast_single_string_to_boolean`). -/
theorem bool_text_roundtrip (b : Bool) : parseBool (formatBool b) = some b := by
  cases b <;> decide


/-! ## 5. DataType display → parse -/

/-- **A displayed data type parses back to the same data type** — proved by structural
induction for the recursive fragment `Frag`: primitive type names, `Decimal32/64/128/256(p, s)`
(with the parser's precision/scale validation), `Dictionary(k, v)` and
`List/LargeList/ListView/LargeListView(field)` with any nullability and any element field name,
nested to any depth.  `display t = render (toks t)`; the statement is about the parser on the
token sequence.  *Partial*: (a) the remaining constructors (Timestamp, Time, Duration, Interval,
FixedSizeBinary, FixedSizeList, Struct, Map, RunEndEncoded, Union) are modelled and
correspondence-tested but not covered by this theorem; (b) `tokenize (render ts) = ts` is
correspondence-tested only. -/
theorem dtype_display_parse_partial (t : DT.DType) (h : DT.Frag t) : DT.parse (DT.toks t) = some t :=
  DT.parse_toks t h

/-- non-vacuity: `Dictionary(Int32, List(non-null Decimal128(10, 2), field: 'x'))` is in the fragment -/
example : DT.Frag (.dictionary (.simple "Int32") (.list "List" false (.decimal "Decimal128" 10 2) "x")) ∧
    DT.display (.dictionary (.simple "Int32") (.list "List" false (.decimal "Decimal128" 10 2) "x"))
      = "Dictionary(Int32, List(non-null Decimal128(10, 2), field: 'x'))" := by
  constructor
  · simp [DT.Frag, DT.simpleNames, DT.listKinds, DT.decimalNames]; decide
  · decide


/-! ## 6. floating point → decimal / integer -/

/-- **Float → decimal(p, s) is the exact conversion whenever the binary64 product
`10^s · v` is computed without rounding error** (`hx`: the product `m2·2^e2` equals
`m·2^e·10^s` as a rational — always the case for scale 0, and for every product that is
representable): the result is `v·10^s` rounded half away from zero (`f64::round`), accepted iff
it has at most `p` digits.  Where the product itself is rounded (`mul * input` is a binary64
multiplication and `powi` accumulates roundings) the code rounds twice; the harness tags those
rows `float:double-rounding` and compares them with the algorithm model only. -/
theorem floatToDecimal_exact (w p : Nat) (s : Int) (hw : WidthOK w) (hp : p ≤ maxPrecision w)
    (neg : Bool) (m : Nat) (e : Int) (m2 : Nat) (e2 : Int)
    (hx : m * 2 ^ e.toNat * 10 ^ s.toNat * 2 ^ (-e2).toNat = m2 * 2 ^ e2.toNat * 2 ^ (-e).toNat * 10 ^ (-s).toNat) :
    floatProdToDec w p (.fin neg m2 e2) = floatToDecSpec p s neg m e :=
  floatToDec_exact_of_prod w p s hw hp neg m e m2 e2 hx

/-- the rounding step alone: for any finite product `x`, `from_f64(x.round())` + precision
check is the exact half-away-from-zero rounding of the dyadic rational `x` -/
theorem floatRound_exact (w p : Nat) (hw : WidthOK w) (hp : p ≤ maxPrecision w)
    (neg : Bool) (m : Nat) (e : Int) :
    floatProdToDec w p (.fin neg m e) = floatToDecSpec p 0 neg m e :=
  floatProdToDec_exact w p hw hp neg m e

/-- NaN and ±∞ never convert -/
theorem floatNonFinite_none (w p : Nat) : (∀ n, floatProdToDec w p (.nan n) = none) ∧
    ∀ n, floatProdToDec w p (.inf n) = none := ⟨fun _ => rfl, fun _ => rfl⟩

/-- **Float → integer**: truncation toward zero, representable iff inside the target range. -/
theorem floatToInt_exact (lo hi : Int) (neg : Bool) (m : Nat) (e : Int) :
    floatToInt lo hi (.fin neg m e) = floatToIntSpec lo hi neg m e := by
  simp [floatToInt, floatToIntSpec, fTrunc, numCast, inRange]

/-- non-vacuity / the seeded-mutation witness: 4503599627370497.0 (odd, in [2^52, 2^53)) →
Decimal128(20, 0) is 4503599627370497; 0.49999999999999994 → 0; 2.5 → 3; -2.5 → -3 -/
example : floatToDec 128 20 0 (decodeF 11 52 4841369599423283201) = some 4503599627370497 ∧
    floatToDec 128 20 0 (decodeF 11 52 4602678819172646911) = some 0 ∧
    floatToDec 128 20 0 (decodeF 11 52 4612811918334230528) = some 3 ∧
    floatToDec 128 20 0 (decodeF 11 52 13836183955189006336) = some (-3) := by decide


/-! ## 6b. indirections: the cast sees the logical column only -/

/-- **For every indirection, cast ∘ decode depends on the decoded logical column only**: if two
encodings (run-end arrays with any runs outside their windows, dictionaries with unreferenced
values, list children beyond the parent's window, …) decode to the same logical column, the
cast of the decoded rows gives the same logical result in both modes, and strict mode fails on
one iff it fails on the other. -/
theorem encoded_cast_logical_only {ε α β} (decode : ε → List (α × Bool)) (f : α → Option β) (z : β)
    (e1 e2 : ε) (h : logical (decode e1) = logical (decode e2)) :
    logical (unaryOpt f z (decode e1)) = logical (unaryOpt f z (decode e2)) ∧
    (tryUnary f z (decode e1)).map logical = (tryUnary f z (decode e2)).map logical :=
  null_payload_irrelevant f z (decode e1) (decode e2) h

/-- **The run-end "expand" arm as written (take the window, then cast) only sees the logical
window**: two run arrays — whatever their run ends, values, offsets and the runs lying wholly
outside the window — whose windows hold the same logical values cast to the same logical column
in safe mode, and the strict cast of one fails iff the strict cast of the other does (and returns
the same column).  A run outside the window therefore cannot make the strict cast fail. -/
theorem ree_expand_window_only {α β} (f : α → Option β) (z : β) (d : α × Bool)
    (re1 re2 : List Nat) (v1 v2 : List (α × Bool)) (o1 o2 len : Nat)
    (h : ∀ i, i < len →
      (let r := v1.getD (physIdx re1 (o1 + i)) d; if r.2 then some r.1 else none) =
      (let r := v2.getD (physIdx re2 (o2 + i)) d; if r.2 then some r.1 else none)) :
    logical (reeExpandSafe f z d re1 v1 o1 len) = logical (reeExpandSafe f z d re2 v2 o2 len) ∧
    (reeExpandStrict f z d re1 v1 o1 len).map logical = (reeExpandStrict f z d re2 v2 o2 len).map logical := by
  have hl : logical (reeTake d re1 v1 o1 len) = logical (reeTake d re2 v2 o2 len) := by
    unfold logical reeTake
    rw [List.map_map, List.map_map]
    apply List.map_congr_left
    intro i hi
    exact h i (by simpa using hi)
  exact null_payload_irrelevant f z _ _ hl

/-- and the strict expand arm is the specification's strict cast of the window -/
theorem ree_expand_strict_spec {α β} (f : α → Option β) (z : β) (d : α × Bool)
    (re : List Nat) (v : List (α × Bool)) (o len : Nat) :
    (reeExpandStrict f z d re v o len).map logical = strictSpec f (logical (reeTake d re v o len)) :=
  tryUnary_logical f z _

/-- non-vacuity: runs `[1000, 1, 2, 1000]` with ends `[2, 4, 6, 8]`, window `[2, 6)`: the strict
cast to `u8` succeeds although the first and last run hold 1000 -/
example : reeExpandStrict (numCast 0 255) 0 ((0 : Int), false) [2, 4, 6, 8]
    [(1000, true), (1, true), (2, true), (1000, true)] 2 4 = some [(1, true), (1, true), (2, true), (2, true)] := by
  decide

/-! ## 7. tie to the source text -/

/-- **Every constant and every critical expression the theorems above are about is still
present in `/repo` verbatim** (regenerated by `tools/translate.py` on every run): the decimal
tables and limits, and the *shape* of the guards (`is_infallible_cast`, the half-away rounding
arms, `(mul * input).round()`, the safe/strict closures of `cast_integer_to_decimal`,
`unary_opt` / `try_unary`, `num_cast`, the unit-change arms, `parser_primitive!`,
`is_validate_decimal_precision`, and the take-then-cast order of the run-end expand arm).  An edit of any of them makes the item LOST and this
obligation fail, which sends the check into its search mode. -/
theorem source_shapes_present :
    (SHAPE_REE_TAKE_THEN_CAST_lost || SHAPE_UPSCALE_INFALLIBLE_lost ||
     SHAPE_UPSCALE_FALLIBLE_lost ||
     SHAPE_DOWNSCALE_ROUND_lost ||
     SHAPE_DOWNSCALE_INFALLIBLE_lost ||
     SHAPE_DOWNSCALE_HALF_lost ||
     SHAPE_APPLY_DECIMAL_CAST_lost ||
     SHAPE_SAME_TYPE_SHORTCUT_lost ||
     SHAPE_FLOAT_TO_DECIMAL_lost ||
     SHAPE_FLOAT_MUL_lost ||
     SHAPE_DEC_TO_INT_DIV_lost ||
     SHAPE_INT_TO_DEC_SAFE_lost ||
     SHAPE_INT_TO_DEC_STRICT_lost ||
     SHAPE_INT_TO_DEC_DISPATCH_lost ||
     SHAPE_NUMERIC_CAST_lost ||
     SHAPE_NUM_CAST_lost ||
     SHAPE_NUMERIC_UNARY_OPT_lost ||
     SHAPE_TS_UNIT_CHANGE_lost ||
     SHAPE_DATE64_TS_CHECKED_lost ||
     SHAPE_UNARY_OPT_lost ||
     SHAPE_TRY_UNARY_lost ||
     SHAPE_PARSER_PRIMITIVE_lost ||
     SHAPE_VALID_PRECISION_lost ||
     MAX_DECIMAL32_lost ||
     MIN_DECIMAL32_lost ||
     MAX_DECIMAL64_lost ||
     MIN_DECIMAL64_lost ||
     MAX_DECIMAL128_lost ||
     MIN_DECIMAL128_lost ||
     DECIMAL256_TABLE_LEN_lost ||
     DECIMAL32_MAX_PRECISION_lost ||
     DECIMAL64_MAX_PRECISION_lost ||
     DECIMAL128_MAX_PRECISION_lost ||
     DECIMAL256_MAX_PRECISION_lost ||
     DECIMAL32_MAX_SCALE_lost ||
     DECIMAL64_MAX_SCALE_lost ||
     DECIMAL128_MAX_SCALE_lost ||
     DECIMAL256_MAX_SCALE_lost ||
     MAX_CHUNK_DIGITS_lost ||
     MILLISECONDS_lost ||
     MICROSECONDS_lost ||
     NANOSECONDS_lost ||
     SECONDS_IN_DAY_lost) = false := by decide

end ArrowModel.C13
