/-
C13 — specification: what "cast" means on logical values.  Import-free.

A logical column is `List (Option α)` (`none` = null).  An element conversion is a partial
function `f : α → Option β` (`none` = "not representable in the target type").

* safe mode   = map `f` over the non-null rows, null where `f` fails;
* strict mode = the same list when `f` succeeds on every non-null row, an error otherwise.

Exact reference conversions (integers are mathematical `Int`s, decimals are unscaled `Int`s
with a precision `p` and scale `s`, meaning `x · 10^(-s)`).
-/
namespace ArrowModel.C13

/-! ### columns -/

/-- safe-mode cast of a logical column -/
def safeSpec {α β} (f : α → Option β) (xs : List (Option α)) : List (Option β) :=
  xs.map (fun o => o.bind f)

/-- does some non-null row fail to convert? -/
def anyFails {α β} (f : α → Option β) (xs : List (Option α)) : Bool :=
  xs.any (fun o => match o with | some a => (f a).isNone | none => false)

/-- strict-mode cast of a logical column (`none` = the cast returns an error) -/
def strictSpec {α β} (f : α → Option β) (xs : List (Option α)) : Option (List (Option β)) :=
  if anyFails f xs then none else some (safeSpec f xs)

/-! ### integers -/

/-- `x` is a value of the integer type with range `[lo, hi]` -/
def inRange (lo hi x : Int) : Prop := lo ≤ x ∧ x ≤ hi

instance (lo hi x : Int) : Decidable (inRange lo hi x) := by unfold inRange; infer_instance

/-- integer → integer: representable iff inside the target range; value unchanged -/
def intCastSpec (lo hi x : Int) : Option Int := if inRange lo hi x then some x else none

/-! ### decimals -/

/-- a decimal of precision `p` holds unscaled values with at most `p` digits -/
def fitsPrec (p : Nat) (x : Int) : Prop := -(10 ^ p : Int) < x ∧ x < (10 ^ p : Int)

instance (p : Nat) (x : Int) : Decidable (fitsPrec p x) := by unfold fitsPrec; infer_instance

/-- quotient rounded half away from zero (`d > 0`): the documented rounding of a
scale-reducing decimal cast -/
def divRoundHalfAway (x : Int) (d : Nat) : Int :=
  let q := x.natAbs / d
  let r := x.natAbs % d
  let m : Nat := if 2 * r ≥ d then q + 1 else q
  if x < 0 then -(m : Int) else (m : Int)

/-- quotient truncated toward zero -/
def divTrunc (x : Int) (d : Nat) : Int :=
  if x < 0 then -((x.natAbs / d : Nat) : Int) else ((x.natAbs / d : Nat) : Int)

/-- exact rescale of an unscaled decimal from scale `s1` to scale `s2`, rounding half away
from zero when digits are dropped -/
def rescaleExact (s1 s2 : Int) (x : Int) : Int :=
  if s1 ≤ s2 then x * (10 : Int) ^ (s2 - s1).toNat else divRoundHalfAway x (10 ^ (s1 - s2).toNat)

/-- decimal(p1,s1) → decimal(p2,s2): representable iff the rescaled value has at most `p2`
digits -/
def decToDecSpec (s1 : Int) (p2 : Nat) (s2 : Int) (x : Int) : Option Int :=
  let y := rescaleExact s1 s2 x
  if fitsPrec p2 y then some y else none

/-- integer → decimal(p,s): multiply by `10^s` (for a negative scale: divide, truncating
toward zero, as the kernel documents) -/
def intToDecSpec (p : Nat) (s : Int) (x : Int) : Option Int :=
  let y := if 0 ≤ s then x * (10 : Int) ^ s.toNat else divTrunc x (10 ^ (-s).toNat)
  if fitsPrec p y then some y else none

/-- decimal(_,s) → integer with range `[lo, hi]`: divide by `10^s` truncating toward zero -/
def decToIntSpec (s : Int) (lo hi : Int) (x : Int) : Option Int :=
  let y := if 0 ≤ s then divTrunc x (10 ^ s.toNat) else x * (10 : Int) ^ (-s).toNat
  if inRange lo hi y then some y else none

/-! ### unit conversions (timestamps, durations, dates) -/

/-- to a finer unit: multiply, representable iff the product is in range -/
def mulUnitSpec (lo hi : Int) (m : Nat) (x : Int) : Option Int :=
  if inRange lo hi (x * m) then some (x * m) else none

/-- to a coarser unit: divide truncating toward zero (always representable) -/
def divUnitSpec (m : Nat) (x : Int) : Option Int := some (divTrunc x m)

/-! ### binary floating point (a finite float is the dyadic rational `(-1)^neg · m · 2^e`) -/

/-- float → decimal(p, s): `v · 10^s` computed exactly, rounded half away from zero,
representable iff it has at most `p` digits -/
def floatToDecSpec (p : Nat) (s : Int) (neg : Bool) (m : Nat) (e : Int) : Option Int :=
  let num : Nat := m * 2 ^ e.toNat * 10 ^ s.toNat
  let den : Nat := 2 ^ (-e).toNat * 10 ^ (-s).toNat
  let r := divRoundHalfAway (if neg then -(num : Int) else (num : Int)) den
  if fitsPrec p r then some r else none

/-- float → integer with range `[lo, hi]`: truncate toward zero, representable iff in range -/
def floatToIntSpec (lo hi : Int) (neg : Bool) (m : Nat) (e : Int) : Option Int :=
  let r := divTrunc (if neg then -((m * 2 ^ e.toNat : Nat) : Int) else ((m * 2 ^ e.toNat : Nat) : Int)) (2 ^ (-e).toNat)
  if inRange lo hi r then some r else none

end ArrowModel.C13
