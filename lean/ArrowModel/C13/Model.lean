import ArrowModel.Generated.C13
import ArrowModel.C13.Spec
/-
C13 — algorithm model of arrow-cast, mirroring the Rust as written.

Physical arrays are `List (α × Bool)`: the value buffer entry and its validity bit — the
payload under a null is arbitrary and is part of the input.  Element conversions work on
`Int`; fixed-width arithmetic is made explicit with `nativeOk` / `wrapW`.
-/
namespace ArrowModel.C13
open ArrowModel.Generated.C13

/-! ### `PrimitiveArray::unary_opt` / `try_unary` / `unary` -/

/-- `PrimitiveArray::unary_opt`: output buffer zero-initialised (`z`), `op` is called on valid
slots only, a failing slot is cleared in the validity builder. -/
def unaryOpt {α β} (f : α → Option β) (z : β) : List (α × Bool) → List (β × Bool)
  | [] => []
  | (a, true) :: r =>
    (match f a with | some b => (b, true) | none => (z, false)) :: unaryOpt f z r
  | (_, false) :: r => (z, false) :: unaryOpt f z r

/-- `PrimitiveArray::try_unary`: `op` is called on valid slots in order
(`try_for_each_valid_idx`), the first failure aborts the whole cast (`none`). -/
def tryUnary {α β} (f : α → Option β) (z : β) : List (α × Bool) → Option (List (β × Bool))
  | [] => some []
  | (a, true) :: r =>
    match f a with
    | none => none
    | some b => (tryUnary f z r).map (fun t => (b, true) :: t)
  | (_, false) :: r => (tryUnary f z r).map (fun t => (z, false) :: t)

/-- index of the slot `try_unary` reports (first valid slot where `f` fails) -/
def firstFail {α β} (f : α → Option β) : List (α × Bool) → Option Nat
  | [] => none
  | (a, true) :: r => if (f a).isNone then some 0 else (firstFail f r).map (· + 1)
  | (_, false) :: r => (firstFail f r).map (· + 1)

/-- `PrimitiveArray::unary`: `op` is applied to **every** slot, valid or not; validity kept. -/
def unaryAll {α β} (f : α → β) (rows : List (α × Bool)) : List (β × Bool) :=
  rows.map (fun r => (f r.1, r.2))

/-- the logical column an array denotes -/
def logical {α} (rows : List (α × Bool)) : List (Option α) :=
  rows.map (fun r => if r.2 then some r.1 else none)

/-! ### indirections: the run-end "expand" arm of `run_end_encoded_cast` -/

/-- physical run holding logical position `i`: the first run whose end exceeds `i`
(the `while … run_ends[physical_idx] <= logical_idx` loop) -/
def physIdx : List Nat → Nat → Nat
  | [], _ => 0
  | e :: es, i => if i < e then 0 else physIdx es i + 1

/-- `take(values, indices)` over the logical window `[offset, offset + len)` of a run array -/
def reeTake {α} (dflt : α × Bool) (runEnds : List Nat) (values : List (α × Bool)) (offset len : Nat) :
    List (α × Bool) :=
  (List.range len).map (fun i => values.getD (physIdx runEnds (offset + i)) dflt)

/-- the expand arm as written: take the window first, then cast the taken rows
(`try_unary` in strict mode, `unary_opt` in safe mode) -/
def reeExpandStrict {α β} (f : α → Option β) (z : β) (dflt : α × Bool) (runEnds : List Nat)
    (values : List (α × Bool)) (offset len : Nat) : Option (List (β × Bool)) :=
  tryUnary f z (reeTake dflt runEnds values offset len)

def reeExpandSafe {α β} (f : α → Option β) (z : β) (dflt : α × Bool) (runEnds : List Nat)
    (values : List (α × Bool)) (offset len : Nat) : List (β × Bool) :=
  unaryOpt f z (reeTake dflt runEnds values offset len)

/-! ### fixed-width integers -/

/-- `x` fits a signed two's-complement integer of `w` bits -/
def nativeOk (w : Nat) (x : Int) : Prop := -(2 ^ (w - 1) : Int) ≤ x ∧ x < (2 ^ (w - 1) : Int)
instance (w : Nat) (x : Int) : Decidable (nativeOk w x) := by unfold nativeOk; infer_instance

/-- two's-complement wrap-around to `w` bits (`mul_wrapping`, `as iN`) -/
def wrapW (w : Nat) (x : Int) : Int := (x + 2 ^ (w - 1)) % 2 ^ w - 2 ^ (w - 1)

/-- `num_traits::cast` between integer types (`ToPrimitive::to_*`): range check -/
def numCast (lo hi : Int) (x : Int) : Option Int := if lo ≤ x ∧ x ≤ hi then some x else none

/-- Rust `/` on signed integers: truncation toward zero -/
def tdivNat (x : Int) (d : Nat) : Int := x.tdiv (d : Int)
/-- Rust `%` on signed integers: sign follows the dividend -/
def tmodNat (x : Int) (d : Nat) : Int := x.tmod (d : Int)

/-! ### decimals -/

def maxPrecision (w : Nat) : Nat :=
  if w = 32 then DECIMAL32_MAX_PRECISION else if w = 64 then DECIMAL64_MAX_PRECISION
  else if w = 128 then DECIMAL128_MAX_PRECISION else DECIMAL256_MAX_PRECISION

/-- `validate_decimal_precision_and_scale::<T>` (run by `with_precision_and_scale` on the result) -/
def validDecType (w p : Nat) (s : Int) : Bool :=
  decide (1 ≤ p ∧ p ≤ maxPrecision w ∧ s ≤ (maxPrecision w : Int) ∧ ¬ (0 < s ∧ (p : Int) < s))

/-- `T::MAX_FOR_EACH_PRECISION.get(k)`, then `+ 1` — the power of ten the rescalers use.
The 32/64/128-bit tables are the regenerated source tables; the 256-bit table is written as
byte arrays in the source and is modelled by its documented content `10^k - 1`
(`DECIMAL256_TABLE_LEN` entries). -/
def pow10Table (w : Nat) (k : Nat) : Option Int :=
  if w = 32 then MAX_DECIMAL32[k]?.map (· + 1)
  else if w = 64 then MAX_DECIMAL64[k]?.map (· + 1)
  else if w = 128 then MAX_DECIMAL128[k]?.map (· + 1)
  else if k < DECIMAL256_TABLE_LEN then some ((10 : Int) ^ k) else none

/-- `is_valid_decimal_precision` / `validate_decimal_precision`: `MIN[p] ≤ v ≤ MAX[p]` -/
def validPrec (w p : Nat) (v : Int) : Bool :=
  if w = 32 then decide (MIN_DECIMAL32.getD p 0 ≤ v ∧ v ≤ MAX_DECIMAL32.getD p 0)
  else if w = 64 then decide (MIN_DECIMAL64.getD p 0 ≤ v ∧ v ≤ MAX_DECIMAL64.getD p 0)
  else if w = 128 then decide (MIN_DECIMAL128.getD p 0 ≤ v ∧ v ≤ MAX_DECIMAL128.getD p 0)
  else decide (-((10 : Int) ^ p - 1) ≤ v ∧ v ≤ (10 : Int) ^ p - 1)

/-- result of building a rescaler -/
inductive Rescaler where
  /-- the cast fails for the whole array (`make_upscaler` returned `None`) -/
  | typeError
  /-- every row becomes zero (`make_downscaler` returned `None`) -/
  | zeros
  /-- `array.clone()` -/
  | identity
  /-- `f_fallible` + precision check through `unary_opt` / `try_unary` -/
  | fallible (f : Int → Option Int)
  /-- `f_infallible` through `unary` (all slots); `none` = the closure panics -/
  | infallible (f : Int → Option Int)

/-- `make_upscaler::<I, O>` + `apply_decimal_cast`'s precision filter.  `delta_scale` is `i8`
arithmetic (wrapping in release builds); the `is_infallible_cast` sum is computed in `i16`. -/
def upscaler (w1 p1 : Nat) (s1 : Int) (w2 p2 : Nat) (s2 : Int) : Rescaler :=
  let delta := wrapW 8 (s2 - s1)
  if delta < 0 then .typeError else
  match pow10Table w2 delta.toNat with
  | none => .typeError
  | some mul =>
    -- `size_of::<I::Native>() <= size_of::<O::Native>()`: the unchecked closure must not narrow
    let isInfallible := w1 ≤ w2 ∧ (p1 : Int) + delta ≤ (p2 : Int)
    if isInfallible then
      .infallible (fun x => if nativeOk w2 x then some (wrapW w2 (x * mul)) else none)
    else
      .fallible (fun x =>
        if nativeOk w2 x ∧ nativeOk w2 (x * mul) ∧ validPrec w2 p2 (x * mul) then some (x * mul) else none)

/-- the rounding of `make_downscaler`'s `f_fallible`: `d = x / div; r = x % div;
x ≥ 0 ∧ r ≥ half ⇒ d + 1; x < 0 ∧ r ≤ -half ⇒ d - 1` (`half = div / 2`) -/
def downRound (div : Nat) (x : Int) : Int :=
  let d := tdivNat x div
  let r := tmodNat x div
  let half : Int := ((div / 2 : Nat) : Int)
  if 0 ≤ x then (if half ≤ r then d + 1 else d) else (if r ≤ -half then d - 1 else d)

/-- `make_downscaler::<I, O>` (table of the *input* type) + precision filter -/
def downscaler (w1 p1 : Nat) (s1 : Int) (w2 p2 : Nat) (s2 : Int) : Rescaler :=
  let delta := wrapW 8 (s1 - s2)
  if delta < 0 then .zeros else
  match pow10Table w1 delta.toNat with
  | none => .zeros
  | some div =>
    let isInfallible := w1 ≤ w2 ∧ (p1 : Int) - delta < (p2 : Int)
    if isInfallible then
      .infallible (fun x => let y := downRound div.toNat x; if nativeOk w2 y then some y else none)
    else
      .fallible (fun x =>
        let y := downRound div.toNat x
        if nativeOk w2 y ∧ validPrec w2 p2 y then some y else none)

/-- `cast_decimal_to_decimal_same_type` / `cast_decimal_to_decimal` dispatch -/
def decToDec (w1 p1 : Nat) (s1 : Int) (w2 p2 : Nat) (s2 : Int) : Rescaler :=
  if w1 = w2 ∧ s1 = s2 ∧ p1 ≤ p2 then .identity
  else if s1 ≤ s2 then upscaler w1 p1 s1 w2 p2 s2
  else downscaler w1 p1 s1 w2 p2 s2

/-- `cast_integer_to_decimal` for a source integer type with range `[lo, hi]`:
`none` = whole-array error, `some f` = row function (through `unary_opt`/`try_unary`). -/
def intToDec (hi : Int) (w p : Nat) (s : Int) : Option (Int → Option Int) :=
  if s < 0 then
    let k := (-s).toNat
    -- `T::Native::usize_as(10).pow_checked(|s|)` in the *source* type
    if (10 : Int) ^ k > hi then some (fun _ => some 0)
    else some (fun x =>
      let v := tdivNat x (10 ^ k)
      if nativeOk w v ∧ validPrec w p v then some v else none)
  else
    let k := s.toNat
    -- `base.pow_checked(s)` in the decimal's native type
    if ¬ nativeOk w ((10 : Int) ^ k) then none
    else some (fun x =>
      let v := x * (10 : Int) ^ k
      if nativeOk w x ∧ nativeOk w v ∧ validPrec w p v then some v else none)

/-- `cast_decimal_to_integer` to an integer type with range `[lo, hi]` -/
def decToInt (w : Nat) (s : Int) (lo hi : Int) : Option (Int → Option Int) :=
  let k := s.natAbs
  if ¬ nativeOk w ((10 : Int) ^ k) then none
  else if s < 0 then
    some (fun x => let v := x * (10 : Int) ^ k; if nativeOk w v then numCast lo hi v else none)
  else
    some (fun x => numCast lo hi (tdivNat x (10 ^ k)))

/-! ### unit conversions -/

/-- `checked_mul` / `mul_checked` on `i64` (or `i32` with `w = 32`) -/
def mulChecked (w : Nat) (m : Nat) (x : Int) : Option Int :=
  if nativeOk w (x * m) then some (x * m) else none

/-! ### integer text (lexical-core `write`, atoi `from_radix_10_signed_checked` as used by
`parser_primitive!`) -/

/-- `lexical_core::write` of an integer: optional `-`, then the decimal digits -/
def formatInt (x : Int) : List Char :=
  if x < 0 then '-' :: Nat.toDigits 10 x.natAbs else Nat.toDigits 10 x.natAbs

def isDigit (c : Char) : Bool := c.isDigit
def digitVal (c : Char) : Nat := c.toNat - 48

/-- ASCII whitespace of `<[u8]>::trim_ascii*` -/
def isAsciiWs (c : Char) : Bool := c = ' ' || c = '\t' || c = '\n' || c.toNat = 12 || c = '\r'

/-- atoi digit loop with `checked_mul`/`checked_add` (resp. `checked_sub`): stops at the first
non-digit; `none` once the accumulator leaves `[lo, hi]`.  Returns (value, chars consumed). -/
def atoiLoop (neg : Bool) (lo hi : Int) : List Char → Option Int → Nat → Option Int × Nat
  | [], acc, n => (acc, n)
  | c :: cs, acc, n =>
    if isDigit c then
      let acc' := acc.bind (fun a =>
        let v := if neg then a * 10 - digitVal c else a * 10 + digitVal c
        if lo ≤ v ∧ v ≤ hi then some v else none)
      atoiLoop neg lo hi cs acc' (n + 1)
    else (acc, n)

/-- `FromRadix10SignedChecked::from_radix_10_signed_checked` -/
def atoiSigned (lo hi : Int) (s : List Char) : Option Int × Nat :=
  match s with
  | '-' :: r => atoiLoop true lo hi r (some 0) 1
  | '+' :: r => atoiLoop false lo hi r (some 0) 1
  | _ => atoiLoop false lo hi s (some 0) 0

def dropWhileEnd (p : Char → Bool) (s : List Char) : List Char := (s.reverse.dropWhile p).reverse

/-- `Parser::parse` of `parser_primitive!` -/
def parseInt (lo hi : Int) (s : List Char) : Option Int :=
  let lastDigit (t : List Char) : Bool := match t.getLast? with | some c => isDigit c | none => false
  let raw := if lastDigit s then s else dropWhileEnd isAsciiWs s
  if ¬ lastDigit raw then none else
  match atoiSigned lo hi raw with
  | (some n, x) => if x = raw.length then some n else
      let t := raw.dropWhile isAsciiWs
      (match atoiSigned lo hi t with
       | (some n, x) => if x = t.length then some n else none
       | _ => none)
  | _ =>
      let t := raw.dropWhile isAsciiWs
      (match atoiSigned lo hi t with
       | (some n, x) => if x = t.length then some n else none
       | _ => none)

/-! ### decimal text (`format_decimal_str`, `parse_string_to_decimal_native`) -/

/-- `format_decimal_str(&value.to_string(), precision, scale)` -/
def formatDecimal (v : Int) (p : Nat) (s : Int) : List Char :=
  let sign : List Char := if v < 0 then ['-'] else []
  let rest0 := Nat.toDigits 10 v.natAbs
  -- `bound = precision.min(rest.len()) + sign.len()`: at most `precision` digits are kept
  let rest := rest0.take (min p rest0.length)
  if s = 0 then sign ++ rest
  else if s < 0 then sign ++ rest ++ List.replicate (-s).toNat '0'
  else
    let sc := s.toNat
    if rest0.length > sc then
      -- split the (possibly truncated) string `scale` characters from its end
      sign ++ rest.take (rest.length - sc) ++ ['.'] ++ rest.drop (rest.length - sc)
    else sign ++ ['0', '.'] ++ List.replicate (sc - rest0.length) '0' ++ rest0

/-- state of the digit loop of `parse_string_to_decimal_native` -/
structure DecState where
  value : Nat := 0          -- magnitude accumulated so far (sign applied at the end)
  sawDigit : Bool := false
  sawPoint : Bool := false
  fractionals : Nat := 0
  firstDiscarded : Option Nat := none

/-- one byte of the loop; `none` = "Invalid decimal format" -/
def decStep (scale : Nat) (st : DecState) (c : Char) : Option DecState :=
  if isDigit c then
    if st.sawPoint ∧ st.fractionals = scale then
      some { st with sawDigit := true, firstDiscarded := st.firstDiscarded.orElse (fun _ => some (digitVal c)) }
    else
      some { st with sawDigit := true, value := st.value * 10 + digitVal c,
                     fractionals := if st.sawPoint then st.fractionals + 1 else st.fractionals }
  else if c = '.' ∧ ¬ st.sawPoint then some { st with sawPoint := true }
  else none

def decLoop (scale : Nat) : List Char → DecState → Option DecState
  | [], st => some st
  | c :: cs, st => match decStep scale st c with | none => none | some st' => decLoop scale cs st'

/-- Rust `str::trim` restricted to the white space the harness generates (ASCII white space,
U+000B, U+00A0) -/
def isTrimWs (c : Char) : Bool := isAsciiWs c || c.toNat = 11 || c.toNat = 160

/-- `parse_string_to_decimal_native::<T>(s, scale)` followed by the precision check of
`generic_string_to_decimal_cast`.  The 19-digit chunking only batches the same
multiply-add; every intermediate has magnitude ≤ the final one, so "some checked operation
overflowed the native type" is the same as "the final magnitude does not fit". -/
def parseDecimal (w p : Nat) (scale : Nat) (s : List Char) : Option Int :=
  let t := dropWhileEnd isTrimWs (s.dropWhile isTrimWs)
  let (neg, body) := match t with
    | '-' :: r => (true, r)
    | '+' :: r => (false, r)
    | _ => (false, t)
  match decLoop scale body {} with
  | none => none
  | some st =>
    if ¬ st.sawDigit then none else
    let scaledOk : Option Nat :=
      if st.fractionals < scale ∧ st.value ≠ 0 then
        -- `decimal_pow`: exponent must be inside the table
        match pow10Table w (scale - st.fractionals) with
        | none => none
        | some m => some (st.value * m.toNat)
      else some st.value
    match scaledOk with
    | none => none
    | some m =>
      let m' := match st.firstDiscarded with | some d => if d ≥ 5 then m + 1 else m | none => m
      let v : Int := if neg then -(m' : Int) else (m' : Int)
      -- native range of every intermediate: the un-rounded and rounded magnitudes
      let v0 : Int := if neg then -(m : Int) else (m : Int)
      if nativeOk w v0 ∧ nativeOk w v ∧ validPrec w p v then some v else none

/-! ### booleans -/

def formatBool (b : Bool) : List Char := if b then "true".toList else "false".toList

def lowerAscii (c : Char) : Char := if 65 ≤ c.toNat ∧ c.toNat ≤ 90 then Char.ofNat (c.toNat + 32) else c

/-- `cast_single_string_to_boolean` -/
def parseBool (s : List Char) : Option Bool :=
  let t := String.ofList (dropWhileEnd isTrimWs ((s.map lowerAscii).dropWhile isTrimWs))
  if t ∈ ["t", "tr", "tru", "true", "y", "ye", "yes", "on", "1"] then some true
  else if t ∈ ["f", "fa", "fal", "fals", "false", "n", "no", "of", "off", "0"] then some false
  else none

end ArrowModel.C13
