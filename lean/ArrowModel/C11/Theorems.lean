import ArrowModel.C11.Lemmas
/-
C11 — property theorems: the row format is order-preserving, injective and prefix-free.

All statements quantify over *every* value of the field type (byte strings of every length —
the induction runs over the blocks of the variable-length encoding, across the 8-byte
mini-block and 32-byte block boundaries), every `SortOptions` and every schema of flat
fields.  Bytes are `UInt8`; `compareBytes` is what `Row::cmp` computes.  The concrete
sentinel / block constants come from `ArrowModel.Generated.C11` (regenerated from the Rust
source on every run) and the proofs evaluate them (`decide`), so a changed constant that
breaks the ordering breaks the proof.
-/
namespace ArrowModel.C11

/-- **Variable-length blocks preserve order, for all lengths.**  The block sequence that
`encode_blocks::<MINI_BLOCK_SIZE>` / `<BLOCK_SIZE>` write after the `NON_EMPTY_SENTINEL`
(four 8-byte mini-blocks, then 32-byte blocks, continuation byte `0xFF` or the length of the
last block) compares exactly like the raw byte strings, and no block sequence is a proper
prefix of another. -/
theorem blocks_order (a b : List UInt8) :
    compareBytes (encodeNonEmpty a) (encodeNonEmpty b) = compareBytes a b ∧
    (encodeNonEmpty a <+: encodeNonEmpty b → a = b) := by
  have h : cmpStrict (encodeNonEmpty a) (encodeNonEmpty b) = some (compareBytes a b) := by
    rw [encodeNonEmpty_eq, encodeNonEmpty_eq, cmpStrict_cons_same]
    exact encSched_cmp _ 0 a b (Nat.le_refl _)
  refine ⟨compareBytes_of_cmpStrict h, fun hp => ?_⟩
  have := eq_of_prefix_of_cmpStrict h hp
  rw [this, cmpStrict_eq_iff.mpr rfl] at h
  exact (compareBytes_eq_iff.mp (Option.some.inj h).symm)

example : compareBytes (encodeNonEmpty (List.replicate 32 7)) (encodeNonEmpty (List.replicate 33 7)) = .lt :=
  (blocks_order _ _).1.trans (by decide)

/-- **`variable::encode_one` is order preserving** for nullable byte strings under every
`SortOptions` (null sentinel 0 / 0xFF, empty sentinel 1, non-empty sentinel 2, all inverted
except the null sentinel when descending). -/
theorem var_order (o : SortOptions) (a b : Option (List UInt8)) :
    compareBytes (encodeVar o a) (encodeVar o b) = compareVal o compareBytes a b :=
  compareBytes_of_cmpStrict (encodeVar_cmp o a b)

/-- **`variable::encode_one` is prefix-free and injective**: an encoding that is a prefix of
another encoding is that encoding, and equal encodings come from equal values. -/
theorem var_prefix_free (o : SortOptions) (a b : Option (List UInt8))
    (h : encodeVar o a <+: encodeVar o b) : a = b := by
  have hc := encodeVar_cmp o a b
  have he := eq_of_prefix_of_cmpStrict hc h
  rw [he, cmpStrict_eq_iff.mpr rfl] at hc
  have hv : compareVal o compareBytes a b = .eq := (Option.some.inj hc).symm
  match a, b, hv with
  | none, none, _ => rfl
  | none, some _, hv => simp only [compareVal] at hv; split at hv <;> cases hv
  | some _, none, hv => simp only [compareVal] at hv; split at hv <;> cases hv
  | some x, some y, hv =>
    simp only [compareVal] at hv
    have : compareBytes x y = .eq := by
      split at hv
      · cases h' : compareBytes x y <;> rw [h'] at hv <;> first | rfl | cases hv
      · exact hv
    rw [compareBytes_eq_iff.mp this]

example : ¬ (encodeVar ⟨true, false⟩ (some [1, 2]) <+: encodeVar ⟨true, false⟩ (some [1, 2, 0])) :=
  fun h => absurd (var_prefix_free _ _ _ h) (by decide)

/-- **Fixed-width values are ordered like their bytes**: the big-endian bytes with the
sign-bit flip (signed integers, decimals, temporal types), the plain big-endian bytes
(unsigned), the total-order transform followed by the sign-bit flip (f16/f32/f64 bit
patterns — the order is IEEE `totalOrder`: -NaN < -inf < … < -0 < +0 < … < +inf < +NaN) and
the boolean byte compare exactly like the values. -/
theorem fixed_order (t : FTy) (i j : Int) (hi : t.admits (some (.int i)) = true) (hj : t.admits (some (.int j)) = true) :
    compareBytes (encodeFixedBody t i) (encodeFixedBody t j) = compareScalar t (.int i) (.int j) ∧
    (encodeFixedBody t i).length = fixedWidth t :=
  ⟨fixedBody_cmp t i j hi hj, fixedBody_length t i hi⟩

example : (FTy.float 8).admits (some (.int 0x8000000000000000)) = true ∧ (FTy.int true 4).admits (some (.int (-2147483648))) = true := by
  decide

/-- **Field level** (every flat field type, every `SortOptions`): byte comparison of two
encodings equals the logical comparison under the options. -/
theorem field_order (o : SortOptions) (t : FTy) (a b : FVal) (ha : t.admits a = true) (hb : t.admits b = true) :
    compareBytes (encodeField o t a) (encodeField o t b) = compareField o t a b :=
  compareBytes_of_cmpStrict (encodeField_cmp o t a b ha hb)

/-- **Field level prefix-freeness**: no encoding of a field is a proper prefix of another
encoding of the same field (this is what lets rows be compared by `memcmp`). -/
theorem field_prefix_free (o : SortOptions) (t : FTy) (a b : FVal) (ha : t.admits a = true) (hb : t.admits b = true)
    (h : encodeField o t a <+: encodeField o t b) : encodeField o t a = encodeField o t b :=
  eq_of_prefix_of_cmpStrict (encodeField_cmp o t a b ha hb) h

/-- **Row level: byte order = lexicographic tuple order.**  For every schema of flat fields
with per-field options and all well-typed rows, comparing the concatenated encodings
byte-wise gives the lexicographic comparison of the value tuples.  The encoding is a function
of the values only, so this holds for rows produced in one call, appended later, or from
different arrays. -/
theorem row_order (fs : List (FTy × SortOptions)) (r1 r2 : List FVal)
    (h1 : rowAdmits fs r1 = true) (h2 : rowAdmits fs r2 = true) :
    compareBytes (encodeRow fs r1) (encodeRow fs r2) = compareRows fs r1 r2 :=
  compareBytes_of_cmpStrict (encodeRow_cmp fs r1 r2 h1 h2)

example : rowAdmits [(.int true 4, ⟨true, false⟩), (.bin, ⟨false, true⟩)] [some (.int (-5)), some (.bytes [0, 255])] = true := by
  decide

/-- **Row level injectivity**: two rows are byte-equal exactly when all their values are
logically equal (compare equal under the field orders). -/
theorem row_injective (fs : List (FTy × SortOptions)) (r1 r2 : List FVal)
    (h1 : rowAdmits fs r1 = true) (h2 : rowAdmits fs r2 = true) :
    encodeRow fs r1 = encodeRow fs r2 ↔ compareRows fs r1 r2 = .eq := by
  have h := encodeRow_cmp fs r1 r2 h1 h2
  constructor
  · intro he
    rw [he, cmpStrict_eq_iff.mpr rfl] at h
    exact (Option.some.inj h).symm
  · intro hc
    rw [hc] at h
    exact cmpStrict_eq_iff.mp h

/-- **Rows are prefix-free** (so a row followed by anything — e.g. the next field of an
enclosing struct — still compares correctly). -/
theorem row_prefix_free (fs : List (FTy × SortOptions)) (r1 r2 : List FVal)
    (h1 : rowAdmits fs r1 = true) (h2 : rowAdmits fs r2 = true)
    (h : encodeRow fs r1 <+: encodeRow fs r2) : encodeRow fs r1 = encodeRow fs r2 :=
  eq_of_prefix_of_cmpStrict (encodeRow_cmp fs r1 r2 h1 h2) h

/-- **decode ∘ encode, variable-length field** (`decode_blocks` / `decode_binary` after
`encode_one`): decoding an encoding followed by *anything* returns the value and exactly the
bytes that followed — for every length, both directions of the block loop, both sort
directions.  (`encodedLen`:) the encoding has exactly `padded_length` bytes, which is what
`row_lengths` reserves. -/
theorem var_roundtrip (o : SortOptions) (v : Option (List UInt8)) (rest : List UInt8) :
    decodeVar o (encodeVar o v ++ rest) = some (v, rest) ∧
    (encodeVar o v).length = paddedLength (v.map List.length) :=
  ⟨decodeVar_encodeVar o v rest, encodeVar_length o v⟩

example : decodeVar ⟨true, true⟩ (encodeVar ⟨true, true⟩ (some (List.replicate 40 0xFF)) ++ [1, 2, 3])
    = some (some (List.replicate 40 0xFF), [1, 2, 3]) := (var_roundtrip _ _ _).1

/-- **decode ∘ encode, every flat field** (`decode_primitive`, `decode_bool`,
`decode_fixed_size_binary`, `decode_binary` after the matching encoder), with anything
following the field; and the encoded length is the one `row_lengths` computes. -/
theorem field_roundtrip (o : SortOptions) (t : FTy) (v : FVal) (rest : List UInt8) (hv : t.admits v = true) :
    decodeField o t (encodeField o t v ++ rest) = some (v, rest) ∧
    (encodeField o t v).length = fieldLength t v :=
  ⟨decodeField_encodeField o t v rest hv, encodeField_length o t v hv⟩

/-- **Rows decode to the original values** (`convert_rows ∘ convert_columns` on a row of flat
fields): the field decoders, run left to right on the concatenation, return the tuple and
consume the row exactly. -/
theorem row_roundtrip (fs : List (FTy × SortOptions)) (r : List FVal) (h : rowAdmits fs r = true) :
    decodeRow fs (encodeRow fs r) = some r :=
  decodeRow_encodeRow fs r h

/-- a consequence of `row_roundtrip`: the row encoding is injective on values (equal bytes
come from equal value tuples, not just from tuples that compare equal) -/
theorem row_injective_values (fs : List (FTy × SortOptions)) (r1 r2 : List FVal)
    (h1 : rowAdmits fs r1 = true) (h2 : rowAdmits fs r2 = true) (h : encodeRow fs r1 = encodeRow fs r2) : r1 = r2 := by
  have e1 := decodeRow_encodeRow fs r1 h1
  have e2 := decodeRow_encodeRow fs r2 h2
  rw [h, e2] at e1
  exact (Option.some.inj e1).symm

open ArrowModel.Generated.C11 in
/-- **The interval encoders are, as written, products of signed encodings.**  The
translator found `IntervalDayTime::encode` / `decode` and `IntervalMonthDayNano::encode` in
the shape "copy every component's own signed `encode()` into consecutive slices" (an edit such
as `to_be_bytes()` loses the item and this `decide` fails), with contiguous slices of the
component widths 4+4 and 4+4+8. -/
theorem interval_layout_as_written :
    (IVDT_LEN_lost || IVDT_DAYS_END_lost || IVDT_MS_START_lost || IVDT_DEC_DAYS_END_lost || IVMDN_LEN_lost ||
      IVMDN_MONTHS_END_lost || IVMDN_DAYS_START_lost || IVMDN_DAYS_END_lost || IVMDN_NANOS_START_lost ||
      SIGNED_WIDTHS_lost) = false ∧
    IVDT_DAYS_END = IVDT_MS_START ∧ IVDT_DEC_DAYS_END = IVDT_DAYS_END ∧
    IVMDN_MONTHS_END = IVMDN_DAYS_START ∧ IVMDN_DAYS_END = IVMDN_NANOS_START ∧
    ivdtWidths = [4, 4] ∧ ivmdnWidths = [4, 4, 8] := by decide

/-- **A product of signed encodings preserves the lexicographic signed order**
(`IntervalDayTime`, `IntervalMonthDayNano` values, any component widths): the concatenation
of the components' own encodings compares like the component tuples — most significant
first, every component as a *signed* integer. -/
theorem comps_order (ws : List Nat) (a b : List Int) (ha : admitsComps ws a = true) (hb : admitsComps ws b = true) :
    compareBytes (encodeComps ws a) (encodeComps ws b) = lexCompare compareInt a b ∧
    (encodeComps ws a).length = ws.sum ∧ decodeComps ws (encodeComps ws a) = a :=
  ⟨encodeComps_cmp ws a b ha hb, encodeComps_length ws a ha, decodeComps_encode ws a ha⟩

/-- **Interval fields**, as laid out by the Rust source (widths from the regenerated
constants), under every `SortOptions`: byte order = component-wise lexicographic signed
order, with nulls and descending handled like every fixed-width field; decode ∘ encode. -/
theorem interval_order (o : SortOptions) (a b : FVal) :
    ((FTy.prod [4, 4]).admits a = true → (FTy.prod [4, 4]).admits b = true →
      compareBytes (encodeField o (.prod ivdtWidths) a) (encodeField o (.prod ivdtWidths) b)
        = compareField o (.prod [4, 4]) a b ∧
      decodeField o (.prod ivdtWidths) (encodeField o (.prod ivdtWidths) a) = some (a, [])) ∧
    ((FTy.prod [4, 4, 8]).admits a = true → (FTy.prod [4, 4, 8]).admits b = true →
      compareBytes (encodeField o (.prod ivmdnWidths) a) (encodeField o (.prod ivmdnWidths) b)
        = compareField o (.prod [4, 4, 8]) a b ∧
      decodeField o (.prod ivmdnWidths) (encodeField o (.prod ivmdnWidths) a) = some (a, [])) := by
  obtain ⟨_, _, _, _, _, h1, h2⟩ := interval_layout_as_written
  rw [h1, h2]
  refine ⟨fun ha hb => ⟨field_order o _ a b ha hb, ?_⟩, fun ha hb => ⟨field_order o _ a b ha hb, ?_⟩⟩
  · have := (field_roundtrip o _ a [] ha).1
    simpa using this
  · have := (field_roundtrip o _ a [] ha).1
    simpa using this

example : (FTy.prod [4, 4]).admits (some (.ints [0, -1500])) = true ∧
    compareField ⟨false, false⟩ (.prod [4, 4]) (some (.ints [0, -1500])) (some (.ints [0, 2000])) = .lt := by decide

open ArrowModel.Generated.C11 in
/-- **The critical expressions have the shape the model mirrors.**  Guards
(`val.len() <= BLOCK_SIZE`, `row[0] != non_empty_sentinel`, `len <= BLOCK_SIZE` in
`non_null_padded_length`), statement order (length byte / continuation byte written last,
descending inversion over the whole `out[..len]` after the blocks), operand sources (child
options of list / run-end / map = `{descending: false, nulls_first: nulls_first != descending}`,
of struct / fixed-size list / dictionary = the parent's options; struct row = sentinel then
child row; list = elements then `encode_empty`) and `Rows::push` / `clear` are found verbatim
in the source: none of the regenerated SHAPE items is lost (an edit of any of these expressions
loses its item and this `decide` fails). -/
theorem shapes_as_written :
    (SHAPE_ENC_ONE_lost ||
      SHAPE_ENC_ONE_DESC_lost ||
      SHAPE_ENC_BLOCKS_TAIL_lost ||
      SHAPE_PADDED_LEN_lost ||
      SHAPE_ENC_EMPTY_lost ||
      SHAPE_DECODE_GUARD_lost ||
      SHAPE_FIXED_DESC_lost ||
      SHAPE_FIXED_NOT_NULL_DESC_lost ||
      SHAPE_UNSIGNED_lost ||
      SHAPE_CHILD_OPTS_LIST_lost ||
      SHAPE_CHILD_OPTS_REE_lost ||
      SHAPE_CHILD_OPTS_MAP_lost ||
      SHAPE_CHILD_OPTS_STRUCT_lost ||
      SHAPE_CHILD_OPTS_FSL_lost ||
      SHAPE_CHILD_OPTS_DICT_lost ||
      SHAPE_LIST_ENCODE_ONE_lost ||
      SHAPE_STRUCT_ENCODE_lost ||
      SHAPE_REE_ENCODE_lost ||
      SHAPE_ROWS_PUSH_lost ||
      SHAPE_UNION_ENCODE_lost || SHAPE_FROM_BINARY_lost) = false := by decide

/-! ### nested types

`Struct`, `List` kinds, `Map`, `FixedSizeList`, `Dictionary`, `RunEndEncoded`, `Union`, `Null` of
any nesting depth.  `cmpN` (Model.lean) is the logical order: nulls first/last by `nulls_first`;
struct children lexicographically under the struct's options; list elements lexicographically,
a proper prefix first, elements compared under the child options
`{descending: false, nulls_first: nulls_first != descending}` and the whole reversed when
descending (which is how element nulls end up where `nulls_first` says); fixed-size lists
element-wise; maps like lists of (key, value) entries; dictionary and run-end values as their
plain values; union values by type id, then by the value of the common variant under the child
options, the whole reversed when descending.  The only hypothesis on the type is `wfTy`: every
union has one type id < 128 per field, pairwise distinct (what `UnionFields` guarantees). -/

/-- **List step** (`list::encode_one`): with non-empty element rows, the list encoding
(every element row variable-length encoded, then the terminator) compares like the lists of
element rows — lexicographically, a proper prefix first, the whole reversed when descending —
and no list encoding is a proper prefix of another. -/
theorem list_order_step (o : SortOptions) (xs ys : List (List UInt8))
    (hx : ∀ x ∈ xs, x ≠ []) (hy : ∀ y ∈ ys, y ≠ []) :
    compareBytes (listEnc o xs) (listEnc o ys) = swapIf o.descending (lexCompare compareBytes xs ys) ∧
    (listEnc o xs <+: listEnc o ys → listEnc o xs = listEnc o ys) :=
  ⟨compareBytes_of_cmpStrict (listEnc_cmp o xs ys hx hy), eq_of_prefix_of_cmpStrict (listEnc_cmp o xs ys hx hy)⟩

example : compareBytes (listEnc ⟨true, false⟩ [[1], [2]]) (listEnc ⟨true, false⟩ [[1]]) = .lt :=
  (list_order_step _ _ _ (by decide) (by decide)).1.trans (by decide)

/-- **Nested field level, every depth**: for every well-formed type, options and conforming
values, byte comparison of the encodings equals the logical comparison `cmpN`, and no
encoding is a proper prefix of another. -/
theorem nested_order (t : Ty) (o : SortOptions) (a b : Val) (hu : wfTy t = true)
    (ha : conforms t a = true) (hb : conforms t b = true) :
    compareBytes (encode o t a) (encode o t b) = cmpN t o a b ∧
    (encode o t a <+: encode o t b → encode o t a = encode o t b) :=
  ⟨compareBytes_of_cmpStrict (encode_cmpN t o a b hu ha hb), eq_of_prefix_of_cmpStrict (encode_cmpN t o a b hu ha hb)⟩

example : wfTy (.union [7, 0, 9] [.leaf (.float 2), .leaf .bin, .list (.leaf .bool)]) = true ∧
    wfTy (.map (.leaf .bin) (.leaf .bool)) = true ∧
    wfTy (.list (.struct [.leaf (.int true 4), .ree (.leaf .bin)])) = true ∧
    conforms (.list (.struct [.leaf (.int true 4), .ree (.leaf .bin)]))
      (.list [.tuple [.int (-7), .bytes [0, 255]], .null, .tuple [.null, .null]]) = true := by decide

/-- **Rows of nested fields: byte order = lexicographic tuple order**, with per-field
options, for every schema of well-formed fields; rows are byte-equal exactly when they compare
equal, and never proper prefixes of one another. -/
theorem nested_row_order (fs : List (Ty × SortOptions)) (r1 r2 : List Val)
    (hu : ∀ f ∈ fs, wfTy f.1 = true) (h1 : conformsRow fs r1 = true) (h2 : conformsRow fs r2 = true) :
    compareBytes (encodeRowN fs r1) (encodeRowN fs r2) = cmpRowN fs r1 r2 ∧
    (encodeRowN fs r1 = encodeRowN fs r2 ↔ cmpRowN fs r1 r2 = .eq) ∧
    (encodeRowN fs r1 <+: encodeRowN fs r2 → encodeRowN fs r1 = encodeRowN fs r2) := by
  have h := encodeRowN_cmp fs r1 r2 hu h1 h2
  refine ⟨compareBytes_of_cmpStrict h, ⟨fun he => ?_, fun hc => ?_⟩, eq_of_prefix_of_cmpStrict h⟩
  · rw [he, cmpStrict_eq_iff.mpr rfl] at h
    exact (Option.some.inj h).symm
  · rw [hc] at h
    exact cmpStrict_eq_iff.mp h

/-- **Union values, every `SortOptions`** (after the repair of the descending case): the type
id byte and the child row are both inverted when descending, so values of the same variant
compare in descending order and nulls land where `nulls_first` says. -/
example : compareBytes (encode ⟨true, false⟩ (.union [0] [.leaf .bool]) (.union 0 (.int 1)))
    (encode ⟨true, false⟩ (.union [0] [.leaf .bool]) (.union 0 (.int 0))) = .lt :=
  (nested_order _ _ _ _ (by decide) (by decide) (by decide)).1.trans (by decide)

/-- the model's `List` case is `listEnc` of the element encodings -/
theorem encode_list (o : SortOptions) (t : Ty) (vs : List Val) :
    encode o (.list t) (.list vs) = listEnc o (vs.map (encode (childOpts o) t)) :=
  encode_list_eq o t vs

/-- **Rows round-trip through their binary-array form**: slicing the concatenated buffer
by the offsets that `try_into_binary` writes (`from_binary`, then `row(i)`) returns every row
unchanged — so all the statements above transfer to rows that went through a `BinaryArray`. -/
theorem binary_roundtrip (rows : List (List UInt8)) :
    fromBinary (toBinary rows).1 (toBinary rows).2 = rows := by
  have := fromBinary_offsets rows []
  simpa [toBinary] using this

example : fromBinary (toBinary [[1, 2], [], [3]]).1 (toBinary [[1, 2], [], [3]]).2 = [[1, 2], [], [3]] :=
  binary_roundtrip _

end ArrowModel.C11
