import ArrowModel.C11.Spec
import ArrowModel.Generated.C11
/-
C11 — algorithm model of `arrow-row` (row format), mirroring the Rust as written.

A row is the concatenation of its field encodings (`encode_column` is called per column and
advances every row's write offset).  Bytes are `UInt8`, so wrap-around of `!v`, `^ 0x80`
and `len as u8` is the machine's.  Constants come from `ArrowModel.Generated.C11`
(regenerated from `/repo` on every run).
-/
namespace ArrowModel.C11
open ArrowModel.Generated.C11

/-! ### constants (`variable.rs`, `lib.rs::null_sentinel`) -/

def blockSize : Nat := BLOCK_SIZE
def miniBlockCount : Nat := MINI_BLOCK_COUNT
/-- `MINI_BLOCK_SIZE = BLOCK_SIZE / MINI_BLOCK_COUNT` -/
def miniBlockSize : Nat := BLOCK_SIZE / MINI_BLOCK_SIZE_DIVISOR
def blockContinuation : UInt8 := UInt8.ofNat BLOCK_CONTINUATION
def emptySentinel : UInt8 := UInt8.ofNat EMPTY_SENTINEL
def nonEmptySentinel : UInt8 := UInt8.ofNat NON_EMPTY_SENTINEL
def nullValueSentinel : UInt8 := UInt8.ofNat NULL_VALUE_SENTINEL
def validByte : UInt8 := UInt8.ofNat VALID_BYTE
def signMask : UInt8 := UInt8.ofNat SIGN_MASK

/-- `null_sentinel(options)`: `0` when nulls first, `0xFF` otherwise -/
def nullSentinel (o : SortOptions) : UInt8 :=
  if o.nullsFirst then UInt8.ofNat NULL_SENTINEL_FIRST else UInt8.ofNat NULL_SENTINEL_LAST

/-- `for v in bytes { *v = !*v }` -/
def inv (bs : List UInt8) : List UInt8 := bs.map (~~~ ·)

/-- `if opts.descending { invert }` -/
def invIf (d : Bool) (bs : List UInt8) : List UInt8 := if d then inv bs else bs

def zeros (n : Nat) : List UInt8 := List.replicate n 0

/-! ### fixed-width encodings (`fixed.rs`) -/

/-- `to_be_bytes` of the low `w` bytes of `n` -/
def beBytes : Nat → Nat → List UInt8
  | 0, _ => []
  | w + 1, n => UInt8.ofNat (n / 256 ^ w) :: beBytes w (n % 256 ^ w)

/-- `from_be_bytes` -/
def beNat : List UInt8 → Nat
  | [] => 0
  | b :: bs => b.toNat * 256 ^ bs.length + beNat bs

/-- two's complement bit pattern of a `w`-byte signed integer -/
def twos (w : Nat) (i : Int) : Nat := (i % 2 ^ (8 * w)).toNat

/-- the signed value of a `w`-byte two's complement pattern -/
def untwos (w : Nat) (n : Nat) : Int := if n < 2 ^ (8 * w - 1) then n else (n : Int) - 2 ^ (8 * w)

/-- `b[0] ^= 0x80` of `encode_signed!` -/
def flipSign : List UInt8 → List UInt8
  | [] => []
  | b :: bs => (b ^^^ signMask) :: bs

/-- the float transforms `s ^ (((s >> (n-1)) as uN) >> 1)` on an `n`-bit pattern
(`s >> (n-1)` is an arithmetic shift of the signed reinterpretation: all ones or zero);
`sh` and `sh2` are the two shift amounts as written in the source -/
def floatXform (n sh sh2 : Nat) (s : Nat) : Nat :=
  s ^^^ ((if s.testBit sh then 2 ^ n - 1 else 0) >>> sh2)

/-- shift amounts of the f16/f32/f64 impls -/
def floatShifts (w : Nat) : Nat × Nat :=
  if w = 2 then (F16_SHIFT, F16_SHIFT2) else if w = 4 then (F32_SHIFT, F32_SHIFT2) else (F64_SHIFT, F64_SHIFT2)

/-- `FixedLengthEncoding::encode` (value bytes, before the validity byte / inversion) -/
def encodeFixedBody : FTy → Int → List UInt8
  | .int true w, i => flipSign (beBytes w (twos w i))
  | .int false w, i => beBytes w i.toNat
  | .float w, i => flipSign (beBytes w (floatXform (8 * w) (floatShifts w).1 (floatShifts w).2 i.toNat))
  | .bool, i => [if i = 0 then 0 else 1]
  | _, _ => []

/-- `FixedLengthEncoding::decode` -/
def decodeFixedBody : FTy → List UInt8 → Int
  | .int true w, bs => untwos w (beNat (flipSign bs))
  | .int false _, bs => beNat bs
  | .float w, bs => floatXform (8 * w) (floatShifts w).1 (floatShifts w).2 (beNat (flipSign bs))
  | .bool, bs => if bs.head? = some 0 then 0 else 1
  | _, _ => 0

/-- `FixedLengthEncoding::encode` of `IntervalDayTime` / `IntervalMonthDayNano`: every
component's own signed `encode()` (big-endian, sign bit flipped), copied one after the other -/
def encodeComps : List Nat → List Int → List UInt8
  | w :: ws, i :: is => encodeFixedBody (.int true w) i ++ encodeComps ws is
  | _, _ => []

/-- `FixedLengthEncoding::decode` of the interval types: every component's own `decode` on
its slice -/
def decodeComps : List Nat → List UInt8 → List Int
  | [], _ => []
  | w :: ws, bs => decodeFixedBody (.int true w) (bs.take w) :: decodeComps ws (bs.drop w)

/-- component widths of `IntervalDayTime` (days, milliseconds) as laid out by its `encode` -/
def ivdtWidths : List Nat := [IVDT_DAYS_END, IVDT_LEN - IVDT_MS_START]

/-- component widths of `IntervalMonthDayNano` (months, days, nanoseconds) -/
def ivmdnWidths : List Nat :=
  [IVMDN_MONTHS_END, IVMDN_DAYS_END - IVMDN_DAYS_START, IVMDN_LEN - IVMDN_NANOS_START]

/-- encoded width of the value part -/
def fixedWidth : FTy → Nat
  | .int _ w => w
  | .float w => w
  | .bool => 1
  | .fsb n => n
  | .bin => 0
  | .prod ws => ws.sum

/-- `fixed::encode` / `encode_not_null` / `encode_boolean` / `encode_fixed_size_binary` for
one slot: validity byte 1 followed by the (inverted when descending) value bytes; a null is
the null sentinel followed by zeros (the row buffer is zero-initialised) -/
def encodeFixedSlot (o : SortOptions) (width : Nat) : Option (List UInt8) → List UInt8
  | none => nullSentinel o :: zeros width
  | some body => validByte :: invIf o.descending body

/-! ### variable-length encoding (`variable.rs`) -/

/-- `encode_blocks::<SIZE>`: full blocks are followed by `BLOCK_CONTINUATION`, the last
block is zero padded and followed by its length (`SIZE` when it is full).  Only called with
a non-empty value. -/
def encodeBlocks (size : Nat) (val : List UInt8) : List UInt8 :=
  if _h : size = 0 ∨ val.length ≤ size then
    val ++ zeros (size - val.length) ++ [UInt8.ofNat val.length]
  else
    val.take size ++ blockContinuation :: encodeBlocks size (val.drop size)
termination_by val.length
decreasing_by simp [List.length_drop]; omega

/-- `encode_one` for a non-empty value, before inversion: `NON_EMPTY_SENTINEL`, then
mini-blocks for the first `BLOCK_SIZE` bytes; when there is more, the last mini-block's
length byte is overwritten by `BLOCK_CONTINUATION` and full-size blocks follow -/
def encodeNonEmpty (val : List UInt8) : List UInt8 :=
  if val.length ≤ blockSize then
    nonEmptySentinel :: encodeBlocks miniBlockSize val
  else
    nonEmptySentinel ::
      ((encodeBlocks miniBlockSize (val.take blockSize)).dropLast ++ [blockContinuation]
        ++ encodeBlocks blockSize (val.drop blockSize))

/-- `variable::encode_one` -/
def encodeVar (o : SortOptions) : Option (List UInt8) → List UInt8
  | none => [nullSentinel o]
  | some [] => [if o.descending then ~~~emptySentinel else emptySentinel]
  | some val => invIf o.descending (encodeNonEmpty val)

/-- `padded_length` / `non_null_padded_length` -/
def paddedLength : Option Nat → Nat
  | none => 1
  | some len =>
    if len ≤ blockSize then 1 + ((len + miniBlockSize - 1) / miniBlockSize) * (miniBlockSize + 1)
    else miniBlockCount + ((len + blockSize - 1) / blockSize) * (blockSize + 1)

/-- the block loop of `decode_blocks` from block number `k` (the first `MINI_BLOCK_COUNT`
blocks are mini-blocks): returns the data bytes (still inverted when descending) and the
unread rest of the row; `none` where the Rust would index out of bounds -/
def decodeBlocksFrom (desc : Bool) : Nat → Nat → List UInt8 → List UInt8 → Option (List UInt8 × List UInt8)
  | 0, _, _, _ => none
  | fuel + 1, k, row, acc =>
    let size := if k < miniBlockCount then miniBlockSize else blockSize
    match row[size]? with
    | none => none
    | some sentinel =>
      if sentinel ≠ (if desc then ~~~blockContinuation else blockContinuation) then
        let blockLen := if desc then (~~~sentinel).toNat else sentinel.toNat
        some (acc ++ row.take blockLen, row.drop (size + 1))
      else decodeBlocksFrom desc fuel (k + 1) (row.drop (size + 1)) (acc ++ row.take size)

/-- `decode_blocks` + the validity test of `decode_nulls_sentinel` + the final inversion of
`decode_binary`: the decoded value and the rest of the row -/
def decodeVar (o : SortOptions) (row : List UInt8) : Option (Option (List UInt8) × List UInt8) :=
  match row with
  | [] => none
  | b :: rest =>
    if b ≠ (if o.descending then ~~~nonEmptySentinel else nonEmptySentinel) then
      some (if b = nullSentinel o then none else some [], rest)
    else
      match decodeBlocksFrom o.descending (rest.length + 1) 0 rest [] with
      | none => none
      | some (v, rest') => some (if b = nullSentinel o then none else some (invIf o.descending v), rest')

/-! ### one flat field -/

/-- the encoding of one value of a flat field type -/
def encodeField (o : SortOptions) : FTy → FVal → List UInt8
  | .bin, none => encodeVar o none
  | .bin, some (.bytes b) => encodeVar o (some b)
  | .fsb n, none => encodeFixedSlot o n none
  | .fsb _, some (.bytes b) => encodeFixedSlot o b.length (some b)
  | t, none => encodeFixedSlot o (fixedWidth t) none
  | .prod ws, some (.ints is) => encodeFixedSlot o ws.sum (some (encodeComps ws is))
  | t, some (.int i) => encodeFixedSlot o (fixedWidth t) (some (encodeFixedBody t i))
  | _, some (.bytes _) => []
  | _, some (.ints _) => []

/-- `row_lengths` contribution of one value -/
def fieldLength : FTy → FVal → Nat
  | .bin, none => paddedLength none
  | .bin, some (.bytes b) => paddedLength (some b.length)
  | t, _ => 1 + fixedWidth t

/-- `decode_primitive` / `decode_bool` / `decode_fixed_size_binary` / `decode_binary` for one
row: the value and the unread rest of the row -/
def decodeField (o : SortOptions) (t : FTy) (row : List UInt8) : Option (FVal × List UInt8) :=
  match t with
  | .bin =>
    match decodeVar o row with
    | none => none
    | some (v, rest) => some (v.map Scalar.bytes, rest)
  | .fsb n =>
    match row with
    | [] => none
    | b :: rest =>
      if rest.length < n then none else
      some (if b = validByte then some (.bytes (invIf o.descending (rest.take n))) else none, rest.drop n)
  | .prod ws =>
    match row with
    | [] => none
    | b :: rest =>
      if rest.length < ws.sum then none else
      some (if b = validByte then some (.ints (decodeComps ws (invIf o.descending (rest.take ws.sum)))) else none,
        rest.drop ws.sum)
  | t =>
    match row with
    | [] => none
    | b :: rest =>
      if rest.length < fixedWidth t then none else
      some (if b = validByte then some (.int (decodeFixedBody t (invIf o.descending (rest.take (fixedWidth t))))) else none,
        rest.drop (fixedWidth t))

/-- a row of flat fields: concatenation of the field encodings -/
def encodeRow : List (FTy × SortOptions) → List FVal → List UInt8
  | (t, o) :: fs, v :: vs => encodeField o t v ++ encodeRow fs vs
  | _, _ => []

/-- `convert_raw`: decode the fields left to right, each consuming its bytes -/
def decodeRow : List (FTy × SortOptions) → List UInt8 → Option (List FVal)
  | [], [] => some []
  | [], _ :: _ => none
  | (t, o) :: fs, row =>
    match decodeField o t row with
    | none => none
    | some (v, rest) => (decodeRow fs rest).map (v :: ·)

/-- `list::encode_one` for a non-null list whose elements have the row encodings `xs`: every
element row is variable-length encoded, then the empty sentinel terminates the list -/
def listEnc (o : SortOptions) (xs : List (List UInt8)) : List UInt8 :=
  (xs.map (fun x => encodeVar o (some x))).flatten ++ encodeVar o (some [])

/-! ### nested types (`lib.rs::encode_column`, `list.rs`, `run.rs`) -/

inductive Ty
  | leaf (t : FTy)
  /-- `DataType::Null` -/
  | null
  | struct (fs : List Ty)
  /-- List / LargeList / ListView / LargeListView -/
  | list (t : Ty)
  | fsl (n : Nat) (t : Ty)
  /-- Dictionary: encoded as its values -/
  | dict (t : Ty)
  | ree (t : Ty)
  /-- Map: a list of (key, value) entries -/
  | map (k v : Ty)
  /-- Union (sparse or dense) with the type id of every field -/
  | union (ids : List Nat) (kids : List Ty)
  deriving Repr

inductive Val
  | null
  | int (i : Int)
  | bytes (b : List UInt8)
  /-- interval values: the signed components -/
  | ints (is : List Int)
  | tuple (vs : List Val)
  | list (vs : List Val)
  /-- a union value: field position and the value of that field -/
  | union (idx : Nat) (v : Val)
  deriving Repr

/-- options of list / run-end children: `descending: false, nulls_first: nulls_first != descending` -/
def childOpts (o : SortOptions) : SortOptions :=
  { descending := false, nullsFirst := o.nullsFirst != o.descending }

def Val.toFVal : Val → Option FVal
  | .null => some none
  | .int i => some (some (.int i))
  | .bytes b => some (some (.bytes b))
  | .ints is => some (some (.ints is))
  | _ => none

mutual
/-- the encoding of one value of any modelled type under `o` -/
def encode (o : SortOptions) : Ty → Val → List UInt8
  | .leaf t, v =>
    match v.toFVal with
    | some fv => encodeField o t fv
    | none => []
  /- `encode_null_value` -/
  | .null, _ => invIf o.descending [nonEmptySentinel, nullValueSentinel]
  /- `Encoder::Struct`: 0x01 + child row, or null sentinel + the row of all-null children -/
  | .struct fs, .tuple vs => UInt8.ofNat STRUCT_VALID_BYTE :: encodeFields o fs vs
  | .struct fs, _ => nullSentinel o :: encodeNulls o fs
  /- `list::encode_one` -/
  | .list _, .null => encodeVar o none
  | .list _, .list [] => encodeVar o (some [])
  | .list t, .list vs =>
    (vs.map (fun v => encodeVar o (some (encode (childOpts o) t v)))).flatten ++ encodeVar o (some [])
  | .list _, _ => []
  /- `encode_fixed_size_list` -/
  | .fsl _ t, .list vs => UInt8.ofNat FSL_VALID_BYTE :: (vs.map (fun v => encode o t v)).flatten
  | .fsl _ _, _ => [nullSentinel o]
  /- `encode_dictionary_values`: the value's row, or the row of a null value -/
  | .dict t, v => encode o t v
  /- `run::encode` -/
  | .ree t, v => encodeVar o (some (encode (childOpts o) t v))
  /- `Encoder::Map` + `list::encode`: like a list whose element rows are key ++ value -/
  | .map _ _, .null => encodeVar o none
  | .map _ _, .list [] => encodeVar o (some [])
  | .map k v, .list es =>
    (es.map (fun e => encodeVar o (some (
      match e with
      | .tuple [a, b] => encode (childOpts o) k a ++ encode (childOpts o) v b
      | _ => [])))).flatten ++ encodeVar o (some [])
  | .map _ _, _ => []
  /- `Encoder::Union`: the type id byte followed by the child row, which is encoded ascending;
  both are inverted when descending.  A null slot of an enclosing struct/dictionary is
  `new_null_array`: the first field's id with a null child. -/
  | .union ids kids, .union idx v =>
    invIf o.descending (UInt8.ofNat (ids.getD idx 0) :: encodeNth (childOpts o) kids idx v)
  | .union ids kids, _ =>
    invIf o.descending (UInt8.ofNat (ids.getD 0 0) :: encodeNth (childOpts o) kids 0 .null)
def encodeNth (o : SortOptions) : List Ty → Nat → Val → List UInt8
  | t :: _, 0, v => encode o t v
  | _ :: ts, n + 1, v => encodeNth o ts n v
  | [], _, _ => []
def encodeFields (o : SortOptions) : List Ty → List Val → List UInt8
  | t :: ts, v :: vs => encode o t v ++ encodeFields o ts vs
  | _, _ => []
def encodeNulls (o : SortOptions) : List Ty → List UInt8
  | t :: ts => encode o t .null ++ encodeNulls o ts
  | [] => []
end

mutual
/-- the value is in the domain of the type -/
def conforms : Ty → Val → Bool
  | .leaf t, v =>
    match v.toFVal with
    | some fv => t.admits fv
    | none => false
  | .null, .null => true
  | .null, _ => false
  | .struct _, .null => true
  | .struct fs, .tuple vs => conformsAll fs vs
  | .struct _, _ => false
  | .list _, .null => true
  | .list t, .list vs => vs.all (fun v => conforms t v)
  | .list _, _ => false
  | .fsl _ _, .null => true
  | .fsl n t, .list vs => vs.length == n && vs.all (fun v => conforms t v)
  | .fsl _ _, _ => false
  | .dict t, v => conforms t v
  | .ree t, v => conforms t v
  | .map _ _, .null => true
  | .map k v, .list es => es.all (fun e =>
      match e with
      | .tuple [a, b] => conforms k a && conforms v b
      | _ => false)
  | .map _ _, _ => false
  | .union _ kids, .union idx v => conformsNth kids idx v
  | .union _ _, _ => false
def conformsNth : List Ty → Nat → Val → Bool
  | t :: _, 0, v => conforms t v
  | _ :: ts, n + 1, v => conformsNth ts n v
  | [], _, _ => false
def conformsAll : List Ty → List Val → Bool
  | [], [] => true
  | t :: ts, v :: vs => conforms t v && conformsAll ts vs
  | _, _ => false
end

/-- `DataType::is_nested` -/
def Ty.isNested : Ty → Bool
  | .leaf _ => false
  | .null => false
  | .dict t => t.isNested
  | .ree t => t.isNested
  | _ => true

mutual
/-- `RowConverter::supports_datatype`: everything non-nested, lists / structs / run-end of
supported types; a dictionary of a nested type is rejected (`NotYetImplemented`) -/
def supportsDatatype : Ty → Bool
  | .leaf _ => true
  | .null => true
  | .struct fs => supportsAll fs
  | .list t => supportsDatatype t
  | .fsl _ t => supportsDatatype t
  | .dict t => !t.isNested
  | .ree t => supportsDatatype t
  | .map k v => supportsDatatype k && supportsDatatype v
  | .union _ kids => supportsAll kids
def supportsAll : List Ty → Bool
  | [] => true
  | t :: ts => supportsDatatype t && supportsAll ts
end

/-! ### specification of the order of nested values (stated here because `Ty` / `Val` live in this file) -/


/-- the type ids of a union are pairwise distinct -/
def idsDistinct : List Nat → Bool
  | [] => true
  | a :: as => !as.contains a && idsDistinct as

mutual
/-- well-formed types: every union has one non-negative `i8` type id per field, pairwise
distinct (what `UnionFields` guarantees) -/
def wfTy : Ty → Bool
  | .leaf _ => true
  | .null => true
  | .struct fs => wfTyAll fs
  | .list t => wfTy t
  | .fsl _ t => wfTy t
  | .dict t => wfTy t
  | .ree t => wfTy t
  | .map k v => wfTy k && wfTy v
  | .union ids kids =>
    decide (ids.length = kids.length) && ids.all (fun i => decide (i < 128)) && idsDistinct ids && wfTyAll kids
def wfTyAll : List Ty → Bool
  | [] => true
  | t :: ts => wfTy t && wfTyAll ts
end

def nullOrd (o : SortOptions) (aNull bNull : Bool) : Ordering :=
  if aNull then (if bNull then .eq else if o.nullsFirst then .lt else .gt)
  else (if bNull then (if o.nullsFirst then .gt else .lt) else .eq)

mutual
/-- logical order of two values of a nested type under `o` -/
def cmpN : Ty → SortOptions → Val → Val → Ordering
  | .leaf t, o, a, b =>
    match a.toFVal, b.toFVal with
    | some x, some y => compareField o t x y
    | _, _ => .eq
  | .null, _, _, _ => .eq
  | .struct fs, o, .tuple xs, .tuple ys => cmpFieldsN fs o xs ys
  | .struct _, o, .tuple _, _ => nullOrd o false true
  | .struct _, o, _, .tuple _ => nullOrd o true false
  | .struct _, _, _, _ => .eq
  | .list t, o, .list xs, .list ys => swapIf o.descending (lexCompare (cmpN t (childOpts o)) xs ys)
  | .list _, o, .list _, _ => nullOrd o false true
  | .list _, o, _, .list _ => nullOrd o true false
  | .list _, _, _, _ => .eq
  | .fsl _ t, o, .list xs, .list ys => lexCompare (cmpN t o) xs ys
  | .fsl _ _, o, .list _, _ => nullOrd o false true
  | .fsl _ _, o, _, .list _ => nullOrd o true false
  | .fsl _ _, _, _, _ => .eq
  | .dict t, o, a, b => cmpN t o a b
  | .ree t, o, a, b => swapIf o.descending (cmpN t (childOpts o) a b)
  | .map k v, o, .list xs, .list ys =>
    swapIf o.descending (lexCompare (fun x y =>
      match x, y with
      | .tuple [a, b], .tuple [a', b'] => (cmpN k (childOpts o) a a').then (cmpN v (childOpts o) b b')
      | _, _ => .eq) xs ys)
  | .map _ _, o, .list _, _ => nullOrd o false true
  | .map _ _, o, _, .list _ => nullOrd o true false
  | .map _ _, _, _, _ => .eq
  /- unions: by type id, then the value of the common variant under the child options; the
  whole reversed when descending -/
  | .union ids kids, o, .union i x, .union j y =>
    swapIf o.descending ((compareNat (ids.getD i 0) (ids.getD j 0)).then
      (if i = j then cmpNth kids (childOpts o) i x y else .eq))
  | .union _ _, _, _, _ => .eq
def cmpNth : List Ty → SortOptions → Nat → Val → Val → Ordering
  | t :: _, o, 0, x, y => cmpN t o x y
  | _ :: ts, o, n + 1, x, y => cmpNth ts o n x y
  | [], _, _, _, _ => .eq
def cmpFieldsN : List Ty → SortOptions → List Val → List Val → Ordering
  | t :: ts, o, x :: xs, y :: ys => (cmpN t o x y).then (cmpFieldsN ts o xs ys)
  | _, _, _, _ => .eq
end


/-- lexicographic order of two rows of arbitrary fields -/
def cmpRowN : List (Ty × SortOptions) → List Val → List Val → Ordering
  | (t, o) :: fs, a :: as, b :: bs => (cmpN t o a b).then (cmpRowN fs as bs)
  | _, _, _ => .eq

/-- a row conforms to a schema -/
def conformsRow : List (Ty × SortOptions) → List Val → Bool
  | [], [] => true
  | (t, _) :: fs, v :: vs => conforms t v && conformsRow fs vs
  | _, _ => false

/-- a row of arbitrary fields -/
def encodeRowN : List (Ty × SortOptions) → List Val → List UInt8
  | (t, o) :: fs, v :: vs => encode o t v ++ encodeRowN fs vs
  | _, _ => []

/-! ### `Rows` ↔ `BinaryArray` (`try_into_binary`, `from_binary`) -/


/-- the offsets buffer of `Rows` / of the `BinaryArray` made by `try_into_binary` -/
def offsetsFrom (start : Nat) : List (List UInt8) → List Nat
  | [] => [start]
  | r :: rs => start :: offsetsFrom (start + r.length) rs

/-- `Rows::try_into_binary`: the offsets and the concatenated row bytes -/
def toBinary (rows : List (List UInt8)) : List Nat × List UInt8 := (offsetsFrom 0 rows, rows.flatten)

/-- `RowConverter::from_binary` followed by `Rows::row(i)` for every `i`:
`buffer[offsets[i]..offsets[i+1]]` -/
def fromBinary : List Nat → List UInt8 → List (List UInt8)
  | a :: b :: rest, buf => (buf.drop a).take (b - a) :: fromBinary (b :: rest) buf
  | _, _ => []

end ArrowModel.C11
