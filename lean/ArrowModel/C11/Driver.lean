import ArrowModel.Common.Proto
import ArrowModel.C11.Spec
import ArrowModel.C11.Model
/-
C11 driver.  `enc <mode> <schema> <rows>` → the hex of every row's bytes computed by the
model (`-` for no rows).  `<mode>` (how the harness drives the API) is ignored: the encoding
is a function of the values only.  For schemas of flat fields the driver additionally
checks, on the model's own output, the three things the theorems state — decode ∘ encode,
encoded length = length function, byte order of consecutive rows = `compareRows` — and
answers `MODEL-SPEC-MISMATCH` if any fails.  Every supported type is modelled (Map and Union
included, as written in the Rust); `ERR:not-impl` mirrors `RowConverter::supports_datatype`.
-/
namespace ArrowModel.C11
open ArrowModel.Proto

inductive PErr
  | bad
  | skip

instance : Inhabited Ty := ⟨.null⟩
instance : Inhabited Val := ⟨.null⟩

def isDelim (c : Char) : Bool := c = '(' || c = ')' || c = ',' || c = ':' || c = '~' || c = '[' || c = ']'

def word (cs : List Char) : String × List Char :=
  (String.ofList (cs.takeWhile (fun c => !isDelim c)), cs.dropWhile (fun c => !isDelim c))

def expect (c : Char) : List Char → Except PErr (List Char)
  | d :: rest => if c = d then .ok rest else .error .bad
  | [] => .error .bad

def natOf (s : String) : Except PErr Nat :=
  match s.toNat? with
  | some n => .ok n
  | none => .error .bad

def intTy (signed : Bool) (bits : String) : Except PErr Ty := do
  let n ← natOf bits
  if n % 8 = 0 ∧ 0 < n then pure (.leaf (.int signed (n / 8))) else throw .bad

partial def pType (cs : List Char) : Except PErr (Ty × List Char) := do
  let (w, rest) := word cs
  let one (mk : Ty → Ty) : Except PErr (Ty × List Char) := do
    let r ← expect '(' rest
    let (t, r) ← pType r
    let r ← expect ')' r
    pure (mk t, r)
  -- optional `~tag` after a primitive
  let skipTag (t : Ty) : Except PErr (Ty × List Char) :=
    match rest with
    | '~' :: r => pure (t, (word r).2)
    | _ => pure (t, rest)
  if w = "b" then pure (.leaf .bool, rest)
  else if w = "null" then pure (.null, rest)
  else if w = "bin" ∨ w = "lbin" ∨ w = "binv" ∨ w = "utf8" ∨ w = "lutf8" ∨ w = "utf8v" then pure (.leaf .bin, rest)
  else if w = "ivdt" then pure (.leaf (.prod ivdtWidths), rest)
  else if w = "ivmdn" then pure (.leaf (.prod ivmdnWidths), rest)
  else if w = "f16" then pure (.leaf (.float 2), rest)
  else if w = "f32" then pure (.leaf (.float 4), rest)
  else if w = "f64" then pure (.leaf (.float 8), rest)
  else if w.startsWith "fsb" then do
    let n ← natOf (w.drop 3).toString
    pure (.leaf (.fsb n), rest)
  else if w = "S" then do
    let r ← expect '(' rest
    match r with
    | ')' :: r => pure (.struct [], r)
    | _ =>
      let rec loop (r : List Char) (acc : List Ty) : Except PErr (List Ty × List Char) := do
        let (t, r) ← pType r
        match r with
        | ',' :: r => loop r (t :: acc)
        | ')' :: r => pure ((t :: acc).reverse, r)
        | _ => throw .bad
      let (ts, r) ← loop r []
      pure (.struct ts, r)
  else if w = "L" ∨ w = "LL" ∨ w = "LV" ∨ w = "LLV" then one .list
  else if w.startsWith "F" then do
    let n ← natOf (w.drop 1).toString
    one (.fsl n)
  else if w.startsWith "D" then one .dict
  else if w.startsWith "R" then one .ree
  else if w = "M" then do
    let r ← expect '(' rest
    let (k, r) ← pType r
    let r ← expect ',' r
    let (v, r) ← pType r
    let r ← expect ')' r
    pure (.map k v, r)
  else if w.startsWith "U" then do
    -- `Us(...)`, `Ud(...)`, `U<s|d><id>.<id>...(...)`
    let idsTxt := (w.drop 2).toString
    let r ← expect '(' rest
    let rec loopU (r : List Char) (acc : List Ty) : Except PErr (List Ty × List Char) := do
      let (t, r) ← pType r
      match r with
      | ',' :: r => loopU r (t :: acc)
      | ')' :: r => pure ((t :: acc).reverse, r)
      | _ => throw .bad
    let (ts, r) ← loopU r []
    let ids ← if idsTxt = "" then pure (List.range ts.length) else (idsTxt.splitOn ".").mapM natOf
    if ids.length ≠ ts.length then throw .bad
    pure (.union ids ts, r)
  else if w.startsWith "i" then do skipTag (← intTy true (w.drop 1).toString)
  else if w.startsWith "u" then do skipTag (← intTy false (w.drop 1).toString)
  else throw .bad

def pOpts (cs : List Char) : Except PErr (SortOptions × List Char) :=
  match cs with
  | d :: n :: rest =>
    if (d = '0' ∨ d = '1') ∧ (n = '0' ∨ n = '1') then
      pure ({ descending := d = '1', nullsFirst := n = '1' }, rest)
    else throw .bad
  | _ => throw .bad

partial def pSchema (cs : List Char) (acc : List (Ty × SortOptions)) : Except PErr (List (Ty × SortOptions)) := do
  let (t, r) ← pType cs
  let r ← expect ':' r
  let (o, r) ← pOpts r
  match r with
  | [] => pure ((t, o) :: acc).reverse
  | ',' :: r => pSchema r ((t, o) :: acc)
  | _ => throw .bad

def hexBytes (cs : List Char) : Option (List UInt8) :=
  (parseHex (if cs.isEmpty then "-" else String.ofList cs)).map (·.map UInt8.ofNat)

partial def pVal (cs : List Char) : Except PErr (Val × List Char) := do
  let seq (close : Char) (r : List Char) : Except PErr (List Val × List Char) := do
    match r with
    | c :: r' => if c = close then return ([], r') else pure ()
    | [] => throw .bad
    let rec loop (r : List Char) (acc : List Val) : Except PErr (List Val × List Char) := do
      let (v, r) ← pVal r
      match r with
      | ',' :: r => loop r (v :: acc)
      | c :: r => if c = close then pure ((v :: acc).reverse, r) else throw .bad
      | [] => throw .bad
    loop r []
  match cs with
  | '(' :: r => do
    let (vs, r) ← seq ')' r
    pure (.tuple vs, r)
  | '[' :: r => do
    let (vs, r) ← seq ']' r
    pure (.list vs, r)
  | 'n' :: r => pure (.null, r)
  | 'x' :: r =>
    let (w, r') := word r
    match hexBytes w.toList with
    | some b => pure (.bytes b, r')
    | none => throw .bad
  | 'u' :: r => do
    let (w, r) := word r
    let idx ← natOf w
    let r ← expect ':' r
    let (v, r) ← pVal r
    pure (.union idx v, r)
  | _ =>
    let (w, r) := word cs
    match parseInt w with
    | some i => pure (.int i, r)
    | none =>
      -- interval values: signed components separated by `/`
      match (w.splitOn "/").mapM parseInt with
      | some is => if is.length ≥ 2 then pure (.ints is, r) else throw .bad
      | none => throw .bad

partial def pRows (cs : List Char) (acc : List (List Val)) : Except PErr (List (List Val)) :=
  match cs with
  | [] => pure acc.reverse
  | _ => do
    let (v, r) ← pVal cs
    match v with
    | .tuple vs => pRows r (vs :: acc)
    | _ => throw .bad

def hexOf (bs : List UInt8) : String := toHex (bs.map (·.toNat))

/-- the flat view of a schema / row, when every field is a leaf -/
def flatSchema : List (Ty × SortOptions) → Option (List (FTy × SortOptions))
  | [] => some []
  | (.leaf t, o) :: fs => (flatSchema fs).map ((t, o) :: ·)
  | _ => none

def flatRow (vs : List Val) : Option (List FVal) := vs.mapM Val.toFVal

def rowLength : List (FTy × SortOptions) → List FVal → Nat
  | (t, _) :: fs, v :: vs => fieldLength t v + rowLength fs vs
  | _, _ => 0

/-- self-check of the flat model output against the specification -/
def flatCheck (fs : List (FTy × SortOptions)) (rows : List (List FVal)) : Option String :=
  let encs := rows.map (encodeRow fs)
  let bad1 := (rows.zip encs).any (fun (r, e) => !(decodeRow fs e == some r) || e.length != rowLength fs r)
  if bad1 then some "roundtrip/length" else
  let pairs := rows.zip (rows.drop 1)
  if pairs.any (fun (a, b) => compareBytes (encodeRow fs a) (encodeRow fs b) != compareRows fs a b) then some "order"
  else none

def handle (toks : List String) : String :=
  match toks with
  | ["enc", _mode, schema, rows] =>
    match pSchema schema.toList [] with
    | .error .skip => "SKIP"
    | .error .bad => "bad-op"
    | .ok fs =>
      if !(supportsAll (fs.map (·.1))) then "ERR:not-impl" else
      match (if rows = "-" then .ok [] else pRows rows.toList []) with
      | .error .skip => "SKIP"
      | .error .bad => "bad-op"
      | .ok rs =>
        if !(rs.all (fun r => conformsAll (fs.map (·.1)) r)) then "bad-op" else
        let model := showList hexOf (rs.map (encodeRowN fs))
        match flatSchema fs, rs.mapM flatRow with
        | some ffs, some frs =>
          let spec := showList hexOf (frs.map (encodeRow ffs))
          if spec != model then s!"MODEL-SPEC-MISMATCH model={model} flat={spec}" else
          match flatCheck ffs frs with
          | some what => s!"MODEL-SPEC-MISMATCH {what} model={model}"
          | none => model
        | _, _ =>
          -- nested schemas: byte order of consecutive rows = `cmpRowN` (where the theorem applies)
          if fs.all (fun f => wfTy f.1) then
            let pairs := rs.zip (rs.drop 1)
            if pairs.any (fun (a, b) => compareBytes (encodeRowN fs a) (encodeRowN fs b) != cmpRowN fs a b) then
              s!"MODEL-SPEC-MISMATCH nested-order model={model}"
            else model
          else model
  | _ => "bad-op"

end ArrowModel.C11
