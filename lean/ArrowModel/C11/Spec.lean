/-
C11 — specification.  What "order-preserving, injective and invertible" refers to:
logical values of a field, their order under `SortOptions`, the lexicographic order of
tuples, and byte-wise (`memcmp`, then length) comparison of encoded rows.  Import-free.
-/
namespace ArrowModel.C11

/-- `arrow_schema::SortOptions` -/
structure SortOptions where
  descending : Bool
  nullsFirst : Bool
  deriving DecidableEq, Repr

/-- Byte-wise lexicographic comparison — what `Row::cmp` (`<[u8] as Ord>::cmp`, i.e.
`memcmp` on the common prefix, then the lengths) computes. -/
def compareBytes : List UInt8 → List UInt8 → Ordering
  | [], [] => .eq
  | [], _ :: _ => .lt
  | _ :: _, [] => .gt
  | a :: as, b :: bs => if a < b then .lt else if b < a then .gt else compareBytes as bs

/-- a non-null scalar: every fixed-width value is an integer (integers, decimals,
temporal types: their native integer; booleans: 0/1; floats: their bit pattern), every
variable- or fixed-size binary/string value is a byte string -/
inductive Scalar
  | int (i : Int)
  | bytes (b : List UInt8)
  /-- a value with several signed integer components, most significant first
  (IntervalDayTime = (days, milliseconds), IntervalMonthDayNano = (months, days, nanoseconds)) -/
  | ints (is : List Int)
  deriving DecidableEq, Repr

/-- field types without children (`w` = width in bytes) -/
inductive FTy
  | int (signed : Bool) (w : Nat)
  | float (w : Nat)
  | bool
  | bin
  | fsb (n : Nat)
  /-- product of signed integer components of the given widths (bytes), most significant first -/
  | prod (ws : List Nat)
  deriving DecidableEq, Repr

/-- a logical field value; `none` is SQL NULL -/
abbrev FVal := Option Scalar

/-- every component is a signed integer of its width -/
def admitsComps : List Nat → List Int → Bool
  | [], [] => true
  | w :: ws, i :: is =>
    (decide (-(2 ^ (8 * w - 1) : Int) ≤ i ∧ i < 2 ^ (8 * w - 1)) && decide (0 < w)) && admitsComps ws is
  | _, _ => false

/-- the value lies in the domain of the field type -/
def FTy.admits : FTy → FVal → Bool
  | _, none => true
  | .int true w, some (.int i) => decide (-(2 ^ (8 * w - 1) : Int) ≤ i ∧ i < 2 ^ (8 * w - 1)) && decide (0 < w)
  | .int false w, some (.int i) => decide (0 ≤ i ∧ i < 2 ^ (8 * w)) && decide (0 < w)
  | .float w, some (.int i) => decide (0 ≤ i ∧ i < 2 ^ (8 * w)) && decide (w = 2 ∨ w = 4 ∨ w = 8)
  | .bool, some (.int i) => decide (i = 0 ∨ i = 1)
  | .bin, some (.bytes _) => true
  | .fsb n, some (.bytes b) => decide (b.length = n)
  | .prod ws, some (.ints is) => admitsComps ws is
  | _, _ => false

/-- IEEE-754 `totalOrder` key of an `n`-bit pattern: sign-magnitude value, with `-0 < +0`
and NaNs ordered by sign and payload (what `f64::total_cmp` compares). -/
def floatKey (n : Nat) (bits : Int) : Int :=
  if bits < 2 ^ (n - 1) then bits else 2 ^ (n - 1) - 1 - bits

def compareInt (a b : Int) : Ordering := if a < b then .lt else if b < a then .gt else .eq

def compareNat (a b : Nat) : Ordering := if a < b then .lt else if b < a then .gt else .eq

/-- lexicographic comparison of two lists under an element comparison; a proper prefix is
smaller (the order of list values) -/
def lexCompare {α} (cmp : α → α → Ordering) : List α → List α → Ordering
  | [], [] => .eq
  | [], _ :: _ => .lt
  | _ :: _, [] => .gt
  | a :: as, b :: bs => (cmp a b).then (lexCompare cmp as bs)

/-- reverse an ordering when `descending` -/
def swapIf (d : Bool) (r : Ordering) : Ordering := if d then r.swap else r

/-- order of two non-null values of a field type (ascending); multi-component values
(intervals) compare component-wise, lexicographically, each component as a signed integer -/
def compareScalar : FTy → Scalar → Scalar → Ordering
  | .float w, .int a, .int b => compareInt (floatKey (8 * w) a) (floatKey (8 * w) b)
  | _, .int a, .int b => compareInt a b
  | _, .bytes a, .bytes b => compareBytes a b
  | _, .ints a, .ints b => lexCompare compareInt a b
  | _, .int _, .bytes _ => .lt
  | _, .bytes _, .int _ => .gt
  | _, _, _ => .eq

/-- order of two nullable values under `SortOptions`: nulls first or last regardless of
`descending`; non-null values in reverse order when `descending` -/
def compareVal {α} (o : SortOptions) (cmp : α → α → Ordering) : Option α → Option α → Ordering
  | none, none => .eq
  | none, some _ => if o.nullsFirst then .lt else .gt
  | some _, none => if o.nullsFirst then .gt else .lt
  | some a, some b => if o.descending then (cmp a b).swap else cmp a b

def compareField (o : SortOptions) (t : FTy) (a b : FVal) : Ordering :=
  compareVal o (compareScalar t) a b

/-- lexicographic order of two rows (tuples of field values) under per-field options -/
def compareRows : List (FTy × SortOptions) → List FVal → List FVal → Ordering
  | (t, o) :: fs, a :: as, b :: bs => (compareField o t a b).then (compareRows fs as bs)
  | _, _, _ => .eq

/-- a row is well-typed for a schema -/
def rowAdmits : List (FTy × SortOptions) → List FVal → Bool
  | [], [] => true
  | (t, _) :: fs, v :: vs => t.admits v && rowAdmits fs vs
  | _, _ => false

end ArrowModel.C11
