import ArrowModel.C11.Model
namespace ArrowModel.C11

/-- strict comparison: `none` when one list is a proper prefix of the other -/
def cmpStrict : List UInt8 → List UInt8 → Option Ordering
  | [], [] => some .eq
  | [], _ :: _ => none
  | _ :: _, [] => none
  | a :: as, b :: bs => if a < b then some .lt else if b < a then some .gt else cmpStrict as bs

theorem u8_eq_of_not_lt {a b : UInt8} (h1 : ¬ a < b) (h2 : ¬ b < a) : a = b :=
  UInt8.le_antisymm (UInt8.not_lt.mp h2) (UInt8.not_lt.mp h1)

theorem u8_lt_irrefl (a : UInt8) : ¬ a < a := by simp

theorem compareBytes_cons (a b : UInt8) (as bs : List UInt8) :
    compareBytes (a :: as) (b :: bs) = if a < b then .lt else if b < a then .gt else compareBytes as bs := rfl

theorem compareBytes_refl (a : List UInt8) : compareBytes a a = .eq := by
  induction a with
  | nil => rfl
  | cons x xs ih => simp [compareBytes, ih]

theorem compareBytes_eq_iff {a b : List UInt8} : compareBytes a b = .eq ↔ a = b := by
  constructor
  · intro h
    induction a generalizing b with
    | nil => cases b <;> simp_all [compareBytes]
    | cons x xs ih =>
      cases b with
      | nil => simp [compareBytes] at h
      | cons y ys =>
        simp only [compareBytes] at h
        split at h
        · cases h
        · split at h
          · cases h
          · rename_i h1 h2
            rw [u8_eq_of_not_lt h1 h2, ih h]
  · rintro rfl; exact compareBytes_refl a

theorem compareBytes_swap (a b : List UInt8) : (compareBytes a b).swap = compareBytes b a := by
  induction a generalizing b with
  | nil => cases b <;> rfl
  | cons x xs ih =>
    cases b with
    | nil => rfl
    | cons y ys =>
      simp only [compareBytes]
      by_cases h1 : x < y
      · have : ¬ y < x := fun h => by
          rw [UInt8.lt_iff_toNat_lt] at h h1; omega
        simp [h1, this]
      · by_cases h2 : y < x
        · simp [h1, h2]
        · simp [h1, h2, ih]

theorem compareBytes_append_left (p a b : List UInt8) :
    compareBytes (p ++ a) (p ++ b) = compareBytes a b := by
  induction p with
  | nil => rfl
  | cons x xs ih => simp [compareBytes, ih]

theorem compareBytes_append_eqlen {a b : List UInt8} (c d : List UInt8) (h : a.length = b.length) :
    compareBytes (a ++ c) (b ++ d) = (compareBytes a b).then (compareBytes c d) := by
  induction a generalizing b with
  | nil => cases b <;> simp_all [compareBytes]
  | cons x xs ih =>
    cases b with
    | nil => simp at h
    | cons y ys =>
      simp only [List.cons_append, compareBytes]
      by_cases h1 : x < y
      · simp [h1]
      · by_cases h2 : y < x
        · simp [h1, h2]
        · simp only [h1, h2, if_false]; exact ih (by simpa using h)

theorem cmpStrict_eqlen {a b : List UInt8} (h : a.length = b.length) :
    cmpStrict a b = some (compareBytes a b) := by
  induction a generalizing b with
  | nil => cases b <;> simp_all [cmpStrict, compareBytes]
  | cons x xs ih =>
    cases b with
    | nil => simp at h
    | cons y ys =>
      simp only [cmpStrict, compareBytes]
      by_cases h1 : x < y
      · simp [h1]
      · by_cases h2 : y < x
        · simp [h1, h2]
        · simp only [h1, h2, if_false]; exact ih (by simpa using h)

theorem compareBytes_of_cmpStrict {a b : List UInt8} {r : Ordering} (h : cmpStrict a b = some r) :
    compareBytes a b = r := by
  induction a generalizing b with
  | nil => cases b <;> simp_all [cmpStrict, compareBytes]
  | cons x xs ih =>
    cases b with
    | nil => simp [cmpStrict] at h
    | cons y ys =>
      simp only [cmpStrict] at h
      simp only [compareBytes]
      by_cases h1 : x < y
      · simp only [h1, if_true, Option.some.injEq] at h ⊢; subst h; simp
      · by_cases h2 : y < x
        · simp only [h1, h2, if_true, if_false, Option.some.injEq] at h ⊢; subst h; simp
        · simp only [h1, h2, if_false] at h ⊢; exact ih h

theorem cmpStrict_append_left (p a b : List UInt8) : cmpStrict (p ++ a) (p ++ b) = cmpStrict a b := by
  induction p with
  | nil => rfl
  | cons x xs ih => simp [cmpStrict, ih]

/-- the key lifting lemma: strictly comparable prefixes decide, equal prefixes defer -/
theorem compareBytes_append_of_cmpStrict {a b : List UInt8} {r : Ordering} (c d : List UInt8)
    (h : cmpStrict a b = some r) : compareBytes (a ++ c) (b ++ d) = r.then (compareBytes c d) := by
  induction a generalizing b with
  | nil =>
    cases b with
    | nil => simp only [cmpStrict, Option.some.injEq] at h; subst h; simp
    | cons y ys => simp [cmpStrict] at h
  | cons x xs ih =>
    cases b with
    | nil => simp [cmpStrict] at h
    | cons y ys =>
      simp only [cmpStrict] at h
      simp only [List.cons_append, compareBytes]
      by_cases h1 : x < y
      · simp only [h1, if_true, Option.some.injEq] at h ⊢; subst h; simp
      · by_cases h2 : y < x
        · simp only [h1, h2, if_true, if_false, Option.some.injEq] at h ⊢; subst h; simp
        · simp only [h1, h2, if_false] at h ⊢; exact ih h

theorem cmpStrict_append_of_cmpStrict {a b : List UInt8} {r : Ordering} (c d : List UInt8)
    (h : cmpStrict a b = some r) :
    cmpStrict (a ++ c) (b ++ d) = if r = .eq then cmpStrict c d else some r := by
  induction a generalizing b with
  | nil => cases b <;> simp_all [cmpStrict]
  | cons x xs ih =>
    cases b with
    | nil => simp [cmpStrict] at h
    | cons y ys =>
      simp only [cmpStrict] at h
      simp only [List.cons_append, cmpStrict]
      by_cases h1 : x < y
      · simp only [h1, if_true, Option.some.injEq] at h ⊢; subst h; simp
      · by_cases h2 : y < x
        · simp only [h1, h2, if_true, if_false, Option.some.injEq] at h ⊢; subst h; simp
        · simp only [h1, h2, if_false] at h ⊢; exact ih h

theorem u8_not_lt_not {a b : UInt8} : (~~~a < ~~~b) ↔ (b < a) := by
  simp only [UInt8.lt_iff_toNat_lt, UInt8.toNat_not]
  have := a.toNat_lt; have := b.toNat_lt
  have : UInt8.size = 256 := rfl
  omega

theorem cmpStrict_inv {a b : List UInt8} {r : Ordering} (h : cmpStrict a b = some r) :
    cmpStrict (inv a) (inv b) = some r.swap := by
  induction a generalizing b with
  | nil =>
    cases b with
    | nil => simp only [cmpStrict, Option.some.injEq] at h; subst h; simp [inv, cmpStrict]
    | cons y ys => simp [cmpStrict] at h
  | cons x xs ih =>
    cases b with
    | nil => simp [cmpStrict] at h
    | cons y ys =>
      simp only [cmpStrict] at h
      simp only [inv, List.map_cons, cmpStrict, u8_not_lt_not]
      by_cases h1 : x < y
      · have h2 : ¬ y < x := fun h => by
          rw [UInt8.lt_iff_toNat_lt] at h h1; omega
        simp only [h1, if_true, Option.some.injEq] at h; subst h; simp [h1, h2]
      · by_cases h2 : y < x
        · simp only [h1, h2, if_true, if_false, Option.some.injEq] at h; subst h; simp [h2]
        · simp only [h1, h2, if_false] at h ⊢; exact ih h

theorem cmpStrict_eq_iff {a b : List UInt8} : cmpStrict a b = some .eq ↔ a = b := by
  constructor
  · intro h; exact compareBytes_eq_iff.mp (compareBytes_of_cmpStrict h)
  · rintro rfl; rw [cmpStrict_eqlen rfl, compareBytes_refl]

/-- strictly comparable lists are never proper prefixes of one another -/
theorem eq_of_prefix_of_cmpStrict {a b : List UInt8} {r : Ordering} (h : cmpStrict a b = some r)
    (hp : a <+: b) : a = b := by
  induction a generalizing b with
  | nil => cases b <;> simp_all [cmpStrict]
  | cons x xs ih =>
    cases b with
    | nil => simp [cmpStrict] at h
    | cons y ys =>
      rw [List.cons_prefix_cons] at hp
      obtain ⟨rfl, hp⟩ := hp
      simp only [cmpStrict, u8_lt_irrefl, if_false] at h
      rw [ih h hp]


theorem cmpStrict_swap (a b : List UInt8) : cmpStrict b a = (cmpStrict a b).map Ordering.swap := by
  induction a generalizing b with
  | nil => cases b <;> rfl
  | cons x xs ih =>
    cases b with
    | nil => rfl
    | cons y ys =>
      simp only [cmpStrict]
      by_cases h1 : x < y
      · have h2 : ¬ y < x := fun h => by
          rw [UInt8.lt_iff_toNat_lt] at h h1; omega
        simp [h1, h2]
      · by_cases h2 : y < x
        · simp [h1, h2]
        · simp [h1, h2, ih]

def schedSize (k : Nat) : Nat := if k < miniBlockCount then miniBlockSize else blockSize

theorem schedSize_pos (k : Nat) : 0 < schedSize k := by
  unfold schedSize; split <;> decide

theorem schedSize_le (k : Nat) : schedSize k ≤ 32 := by
  unfold schedSize; split <;> decide

/-- the block sequence with its schedule of sizes: blocks `0..MINI_BLOCK_COUNT` are
mini-blocks, later ones full blocks -/
def encSched (k : Nat) (val : List UInt8) : List UInt8 :=
  if val.length ≤ schedSize k then
    val ++ zeros (schedSize k - val.length) ++ [UInt8.ofNat val.length]
  else
    val.take (schedSize k) ++ blockContinuation :: encSched (k + 1) (val.drop (schedSize k))
termination_by val.length
decreasing_by
  have := schedSize_pos k
  simp [List.length_drop]; omega

theorem zeros_succ (n : Nat) : zeros (n + 1) = 0 :: zeros n := rfl

theorem u8_zero_lt {y : UInt8} (h : ¬ (0 : UInt8) < y) : y = 0 := by
  apply UInt8.toNat_inj.mp
  rw [UInt8.lt_iff_toNat_lt] at h
  simp at h ⊢; omega

theorem u8_not_lt_zero (y : UInt8) : ¬ y < 0 := by
  rw [UInt8.lt_iff_toNat_lt]; simp

/-- zero padding followed by a smaller tag sorts before any data of the same block with a
larger tag -/
theorem compare_zeros_lt (ys : List UInt8) (s : Nat) (l1 l2 : UInt8) (hs : ys.length ≤ s) (hl : l1 < l2) :
    compareBytes (zeros s ++ [l1]) (ys ++ zeros (s - ys.length) ++ [l2]) = .lt := by
  induction ys generalizing s with
  | nil =>
    simp only [List.length_nil, Nat.sub_zero, List.nil_append]
    rw [compareBytes_append_left]; simp [compareBytes, hl]
  | cons y ys ih =>
    obtain ⟨s', rfl⟩ : ∃ s', s = s' + 1 := ⟨s - 1, by simp at hs; omega⟩
    simp only [zeros_succ, List.cons_append, compareBytes, List.length_cons, Nat.add_sub_add_right]
    by_cases h0 : (0 : UInt8) < y
    · simp [h0]
    · have := u8_zero_lt h0; subst this
      simp only [u8_lt_irrefl, if_false]
      exact ih s' (by simpa using hs)

theorem u8_ofNat_lt {a b : Nat} (hb : b < 256) (h : a < b) : UInt8.ofNat a < UInt8.ofNat b := by
  rw [UInt8.lt_iff_toNat_lt, UInt8.toNat_ofNat', UInt8.toNat_ofNat']; omega

/-- two last blocks compare like their data (length bytes break ties of zero padding) -/
theorem compare_padded (a b : List UInt8) (s c : Nat) (ha : a.length ≤ s) (hb : b.length ≤ s) (hc : s + c < 256) :
    compareBytes (a ++ zeros (s - a.length) ++ [UInt8.ofNat (a.length + c)])
      (b ++ zeros (s - b.length) ++ [UInt8.ofNat (b.length + c)]) = compareBytes a b := by
  induction a generalizing b s c with
  | nil =>
    cases b with
    | nil => simp [compareBytes_refl, compareBytes]
    | cons y ys =>
      simp only [List.length_nil, Nat.sub_zero, List.nil_append, Nat.zero_add]
      rw [compare_zeros_lt (y :: ys) s _ _ hb (u8_ofNat_lt (by omega) (by simp))]
      rfl
  | cons x xs ih =>
    cases b with
    | nil =>
      rw [← compareBytes_swap]
      simp only [List.length_nil, Nat.sub_zero, List.nil_append, Nat.zero_add]
      rw [compare_zeros_lt (x :: xs) s _ _ ha (u8_ofNat_lt (by omega) (by simp))]
      rfl
    | cons y ys =>
      obtain ⟨s', rfl⟩ : ∃ s', s = s' + 1 := ⟨s - 1, by simp at ha; omega⟩
      simp only [List.cons_append, compareBytes, List.length_cons, Nat.add_sub_add_right]
      by_cases h1 : x < y
      · simp [h1]
      · by_cases h2 : y < x
        · simp [h1, h2]
        · simp only [h1, h2, if_false]
          have := ih ys s' (c + 1) (by simpa using ha) (by simpa using hb) (by omega)
          rw [show xs.length + 1 + c = xs.length + (c + 1) by omega,
              show ys.length + 1 + c = ys.length + (c + 1) by omega]
          exact this

/-- a last block sorts against a continued block like its data against the longer data -/
theorem compare_padded_cont (a t r' : List UInt8) (s : Nat) (l : UInt8) (ha : a.length ≤ s) (ht : t.length = s)
    (hl : l < blockContinuation) (hr : r' ≠ []) :
    compareBytes (a ++ zeros (s - a.length) ++ [l]) (t ++ [blockContinuation]) = compareBytes a (t ++ r') := by
  induction a generalizing t s with
  | nil =>
    have h := compare_zeros_lt t s l blockContinuation (by omega) hl
    simp only [ht, Nat.sub_self, zeros, List.replicate_zero, List.append_nil] at h
    simp only [List.length_nil, Nat.sub_zero, List.nil_append]
    rw [show zeros s = List.replicate s 0 from rfl, h]
    cases t with
    | nil => cases r' with
      | nil => exact absurd rfl hr
      | cons _ _ => rfl
    | cons _ _ => rfl
  | cons x xs ih =>
    cases t with
    | nil => exfalso; simp only [List.length_nil, List.length_cons] at ht ha; omega
    | cons y ts =>
      obtain ⟨s', rfl⟩ : ∃ s', s = s' + 1 := ⟨s - 1, by simp at ha; omega⟩
      simp only [List.cons_append, compareBytes, List.length_cons, Nat.add_sub_add_right]
      by_cases h1 : x < y
      · simp [h1]
      · by_cases h2 : y < x
        · simp [h1, h2]
        · simp only [h1, h2, if_false]
          exact ih ts s' (by simpa using ha) (by simpa using ht)

end ArrowModel.C11
