import ArrowModel.C11.Model
/-
C11 — helper lemmas.  `cmpStrict` is byte-wise comparison that is *undefined* (`none`) when
one list is a proper prefix of the other; `cmpStrict (enc a) (enc b) = some r` therefore
states order preservation and prefix-freeness at once and composes under concatenation.
-/
set_option linter.unusedSimpArgs false
namespace ArrowModel.C11

/-- strict comparison: `none` when one list is a proper prefix of the other -/
def cmpStrict : List UInt8 → List UInt8 → Option Ordering
  | [], [] => some .eq
  | [], _ :: _ => none
  | _ :: _, [] => none
  | a :: as, b :: bs => if a < b then some .lt else if b < a then some .gt else cmpStrict as bs

theorem u8_eq_of_not_lt {a b : UInt8} (h1 : ¬ a < b) (h2 : ¬ b < a) : a = b :=
  UInt8.le_antisymm (UInt8.not_lt.mp h2) (UInt8.not_lt.mp h1)

theorem u8_lt_irrefl (a : UInt8) : ¬ a < a := by simp

theorem compareBytes_cons (a b : UInt8) (as bs : List UInt8) :
    compareBytes (a :: as) (b :: bs) = if a < b then .lt else if b < a then .gt else compareBytes as bs := rfl

theorem compareBytes_refl (a : List UInt8) : compareBytes a a = .eq := by
  induction a with
  | nil => rfl
  | cons x xs ih => simp [compareBytes, ih]

theorem compareBytes_eq_iff {a b : List UInt8} : compareBytes a b = .eq ↔ a = b := by
  constructor
  · intro h
    induction a generalizing b with
    | nil => cases b <;> simp_all [compareBytes]
    | cons x xs ih =>
      cases b with
      | nil => simp [compareBytes] at h
      | cons y ys =>
        simp only [compareBytes] at h
        split at h
        · cases h
        · split at h
          · cases h
          · rename_i h1 h2
            rw [u8_eq_of_not_lt h1 h2, ih h]
  · rintro rfl; exact compareBytes_refl a

theorem compareBytes_swap (a b : List UInt8) : (compareBytes a b).swap = compareBytes b a := by
  induction a generalizing b with
  | nil => cases b <;> rfl
  | cons x xs ih =>
    cases b with
    | nil => rfl
    | cons y ys =>
      simp only [compareBytes]
      by_cases h1 : x < y
      · have : ¬ y < x := fun h => by
          rw [UInt8.lt_iff_toNat_lt] at h h1; omega
        simp [h1, this]
      · by_cases h2 : y < x
        · simp [h1, h2]
        · simp [h1, h2, ih]

theorem compareBytes_append_left (p a b : List UInt8) :
    compareBytes (p ++ a) (p ++ b) = compareBytes a b := by
  induction p with
  | nil => rfl
  | cons x xs ih => simp [compareBytes, ih]

theorem compareBytes_append_eqlen {a b : List UInt8} (c d : List UInt8) (h : a.length = b.length) :
    compareBytes (a ++ c) (b ++ d) = (compareBytes a b).then (compareBytes c d) := by
  induction a generalizing b with
  | nil => cases b <;> simp_all [compareBytes]
  | cons x xs ih =>
    cases b with
    | nil => simp at h
    | cons y ys =>
      simp only [List.cons_append, compareBytes]
      by_cases h1 : x < y
      · simp [h1]
      · by_cases h2 : y < x
        · simp [h1, h2]
        · simp only [h1, h2, if_false]; exact ih (by simpa using h)

theorem cmpStrict_eqlen {a b : List UInt8} (h : a.length = b.length) :
    cmpStrict a b = some (compareBytes a b) := by
  induction a generalizing b with
  | nil => cases b <;> simp_all [cmpStrict, compareBytes]
  | cons x xs ih =>
    cases b with
    | nil => simp at h
    | cons y ys =>
      simp only [cmpStrict, compareBytes]
      by_cases h1 : x < y
      · simp [h1]
      · by_cases h2 : y < x
        · simp [h1, h2]
        · simp only [h1, h2, if_false]; exact ih (by simpa using h)

theorem compareBytes_of_cmpStrict {a b : List UInt8} {r : Ordering} (h : cmpStrict a b = some r) :
    compareBytes a b = r := by
  induction a generalizing b with
  | nil => cases b <;> simp_all [cmpStrict, compareBytes]
  | cons x xs ih =>
    cases b with
    | nil => simp [cmpStrict] at h
    | cons y ys =>
      simp only [cmpStrict] at h
      simp only [compareBytes]
      by_cases h1 : x < y
      · simp only [h1, if_true, Option.some.injEq] at h ⊢; subst h; simp
      · by_cases h2 : y < x
        · simp only [h1, h2, if_true, if_false, Option.some.injEq] at h ⊢; subst h; simp
        · simp only [h1, h2, if_false] at h ⊢; exact ih h

theorem cmpStrict_append_left (p a b : List UInt8) : cmpStrict (p ++ a) (p ++ b) = cmpStrict a b := by
  induction p with
  | nil => rfl
  | cons x xs ih => simp [cmpStrict, ih]

/-- the key lifting lemma: strictly comparable prefixes decide, equal prefixes defer -/
theorem compareBytes_append_of_cmpStrict {a b : List UInt8} {r : Ordering} (c d : List UInt8)
    (h : cmpStrict a b = some r) : compareBytes (a ++ c) (b ++ d) = r.then (compareBytes c d) := by
  induction a generalizing b with
  | nil =>
    cases b with
    | nil => simp only [cmpStrict, Option.some.injEq] at h; subst h; simp
    | cons y ys => simp [cmpStrict] at h
  | cons x xs ih =>
    cases b with
    | nil => simp [cmpStrict] at h
    | cons y ys =>
      simp only [cmpStrict] at h
      simp only [List.cons_append, compareBytes]
      by_cases h1 : x < y
      · simp only [h1, if_true, Option.some.injEq] at h ⊢; subst h; simp
      · by_cases h2 : y < x
        · simp only [h1, h2, if_true, if_false, Option.some.injEq] at h ⊢; subst h; simp
        · simp only [h1, h2, if_false] at h ⊢; exact ih h

theorem cmpStrict_append_of_cmpStrict {a b : List UInt8} {r : Ordering} (c d : List UInt8)
    (h : cmpStrict a b = some r) :
    cmpStrict (a ++ c) (b ++ d) = if r = .eq then cmpStrict c d else some r := by
  induction a generalizing b with
  | nil => cases b <;> simp_all [cmpStrict]
  | cons x xs ih =>
    cases b with
    | nil => simp [cmpStrict] at h
    | cons y ys =>
      simp only [cmpStrict] at h
      simp only [List.cons_append, cmpStrict]
      by_cases h1 : x < y
      · simp only [h1, if_true, Option.some.injEq] at h ⊢; subst h; simp
      · by_cases h2 : y < x
        · simp only [h1, h2, if_true, if_false, Option.some.injEq] at h ⊢; subst h; simp
        · simp only [h1, h2, if_false] at h ⊢; exact ih h

theorem u8_not_lt_not {a b : UInt8} : (~~~a < ~~~b) ↔ (b < a) := by
  simp only [UInt8.lt_iff_toNat_lt, UInt8.toNat_not]
  have := a.toNat_lt; have := b.toNat_lt
  have : UInt8.size = 256 := rfl
  omega

theorem cmpStrict_inv {a b : List UInt8} {r : Ordering} (h : cmpStrict a b = some r) :
    cmpStrict (inv a) (inv b) = some r.swap := by
  induction a generalizing b with
  | nil =>
    cases b with
    | nil => simp only [cmpStrict, Option.some.injEq] at h; subst h; simp [inv, cmpStrict]
    | cons y ys => simp [cmpStrict] at h
  | cons x xs ih =>
    cases b with
    | nil => simp [cmpStrict] at h
    | cons y ys =>
      simp only [cmpStrict] at h
      simp only [inv, List.map_cons, cmpStrict, u8_not_lt_not]
      by_cases h1 : x < y
      · have h2 : ¬ y < x := fun h => by
          rw [UInt8.lt_iff_toNat_lt] at h h1; omega
        simp only [h1, if_true, Option.some.injEq] at h; subst h; simp [h1, h2]
      · by_cases h2 : y < x
        · simp only [h1, h2, if_true, if_false, Option.some.injEq] at h; subst h; simp [h2]
        · simp only [h1, h2, if_false] at h ⊢; exact ih h

theorem cmpStrict_eq_iff {a b : List UInt8} : cmpStrict a b = some .eq ↔ a = b := by
  constructor
  · intro h; exact compareBytes_eq_iff.mp (compareBytes_of_cmpStrict h)
  · rintro rfl; rw [cmpStrict_eqlen rfl, compareBytes_refl]

/-- strictly comparable lists are never proper prefixes of one another -/
theorem eq_of_prefix_of_cmpStrict {a b : List UInt8} {r : Ordering} (h : cmpStrict a b = some r)
    (hp : a <+: b) : a = b := by
  induction a generalizing b with
  | nil => cases b <;> simp_all [cmpStrict]
  | cons x xs ih =>
    cases b with
    | nil => simp [cmpStrict] at h
    | cons y ys =>
      rw [List.cons_prefix_cons] at hp
      obtain ⟨rfl, hp⟩ := hp
      simp only [cmpStrict, u8_lt_irrefl, if_false] at h
      rw [ih h hp]


theorem cmpStrict_swap (a b : List UInt8) : cmpStrict b a = (cmpStrict a b).map Ordering.swap := by
  induction a generalizing b with
  | nil => cases b <;> rfl
  | cons x xs ih =>
    cases b with
    | nil => rfl
    | cons y ys =>
      simp only [cmpStrict]
      by_cases h1 : x < y
      · have h2 : ¬ y < x := fun h => by
          rw [UInt8.lt_iff_toNat_lt] at h h1; omega
        simp [h1, h2]
      · by_cases h2 : y < x
        · simp [h1, h2]
        · simp [h1, h2, ih]

def schedSize (k : Nat) : Nat := if k < miniBlockCount then miniBlockSize else blockSize

theorem schedSize_pos (k : Nat) : 0 < schedSize k := by
  unfold schedSize; split <;> decide

theorem schedSize_le (k : Nat) : schedSize k ≤ 32 := by
  unfold schedSize; split <;> decide

/-- the block sequence with its schedule of sizes: blocks `0..MINI_BLOCK_COUNT` are
mini-blocks, later ones full blocks -/
def encSched (k : Nat) (val : List UInt8) : List UInt8 :=
  if val.length ≤ schedSize k then
    val ++ zeros (schedSize k - val.length) ++ [UInt8.ofNat val.length]
  else
    val.take (schedSize k) ++ blockContinuation :: encSched (k + 1) (val.drop (schedSize k))
termination_by val.length
decreasing_by
  have := schedSize_pos k
  simp [List.length_drop]; omega

theorem zeros_succ (n : Nat) : zeros (n + 1) = 0 :: zeros n := rfl

theorem u8_zero_lt {y : UInt8} (h : ¬ (0 : UInt8) < y) : y = 0 := by
  apply UInt8.toNat_inj.mp
  rw [UInt8.lt_iff_toNat_lt] at h
  simp at h ⊢; omega

theorem u8_not_lt_zero (y : UInt8) : ¬ y < 0 := by
  rw [UInt8.lt_iff_toNat_lt]; simp

/-- zero padding followed by a smaller tag sorts before any data of the same block with a
larger tag -/
theorem compare_zeros_lt (ys : List UInt8) (s : Nat) (l1 l2 : UInt8) (hs : ys.length ≤ s) (hl : l1 < l2) :
    compareBytes (zeros s ++ [l1]) (ys ++ zeros (s - ys.length) ++ [l2]) = .lt := by
  induction ys generalizing s with
  | nil =>
    simp only [List.length_nil, Nat.sub_zero, List.nil_append]
    rw [compareBytes_append_left]; simp [compareBytes, hl]
  | cons y ys ih =>
    obtain ⟨s', rfl⟩ : ∃ s', s = s' + 1 := ⟨s - 1, by simp at hs; omega⟩
    simp only [zeros_succ, List.cons_append, compareBytes, List.length_cons, Nat.add_sub_add_right]
    by_cases h0 : (0 : UInt8) < y
    · simp [h0]
    · have := u8_zero_lt h0; subst this
      simp only [u8_lt_irrefl, if_false]
      exact ih s' (by simpa using hs)

theorem u8_ofNat_lt {a b : Nat} (hb : b < 256) (h : a < b) : UInt8.ofNat a < UInt8.ofNat b := by
  rw [UInt8.lt_iff_toNat_lt, UInt8.toNat_ofNat', UInt8.toNat_ofNat']; omega

/-- two last blocks compare like their data (length bytes break ties of zero padding) -/
theorem compare_padded (a b : List UInt8) (s c : Nat) (ha : a.length ≤ s) (hb : b.length ≤ s) (hc : s + c < 256) :
    compareBytes (a ++ zeros (s - a.length) ++ [UInt8.ofNat (a.length + c)])
      (b ++ zeros (s - b.length) ++ [UInt8.ofNat (b.length + c)]) = compareBytes a b := by
  induction a generalizing b s c with
  | nil =>
    cases b with
    | nil => simp [compareBytes_refl, compareBytes]
    | cons y ys =>
      simp only [List.length_nil, Nat.sub_zero, List.nil_append, Nat.zero_add]
      rw [compare_zeros_lt (y :: ys) s _ _ hb (u8_ofNat_lt (by omega) (by simp))]
      rfl
  | cons x xs ih =>
    cases b with
    | nil =>
      rw [← compareBytes_swap]
      simp only [List.length_nil, Nat.sub_zero, List.nil_append, Nat.zero_add]
      rw [compare_zeros_lt (x :: xs) s _ _ ha (u8_ofNat_lt (by omega) (by simp))]
      rfl
    | cons y ys =>
      obtain ⟨s', rfl⟩ : ∃ s', s = s' + 1 := ⟨s - 1, by simp at ha; omega⟩
      simp only [List.cons_append, compareBytes, List.length_cons, Nat.add_sub_add_right]
      by_cases h1 : x < y
      · simp [h1]
      · by_cases h2 : y < x
        · simp [h1, h2]
        · simp only [h1, h2, if_false]
          have := ih ys s' (c + 1) (by simpa using ha) (by simpa using hb) (by omega)
          rw [show xs.length + 1 + c = xs.length + (c + 1) by omega,
              show ys.length + 1 + c = ys.length + (c + 1) by omega]
          exact this

/-- a last block sorts against a continued block like its data against the longer data -/
theorem compare_padded_cont (a t r' : List UInt8) (s : Nat) (l : UInt8) (ha : a.length ≤ s) (ht : t.length = s)
    (hl : l < blockContinuation) (hr : r' ≠ []) :
    compareBytes (a ++ zeros (s - a.length) ++ [l]) (t ++ [blockContinuation]) = compareBytes a (t ++ r') := by
  induction a generalizing t s with
  | nil =>
    have h := compare_zeros_lt t s l blockContinuation (by omega) hl
    simp only [ht, Nat.sub_self, zeros, List.replicate_zero, List.append_nil] at h
    simp only [List.length_nil, Nat.sub_zero, List.nil_append]
    rw [show zeros s = List.replicate s 0 from rfl, h]
    cases t with
    | nil => cases r' with
      | nil => exact absurd rfl hr
      | cons _ _ => rfl
    | cons _ _ => rfl
  | cons x xs ih =>
    cases t with
    | nil => exfalso; simp only [List.length_nil, List.length_cons] at ht ha; omega
    | cons y ts =>
      obtain ⟨s', rfl⟩ : ∃ s', s = s' + 1 := ⟨s - 1, by simp at ha; omega⟩
      simp only [List.cons_append, compareBytes, List.length_cons, Nat.add_sub_add_right]
      by_cases h1 : x < y
      · simp [h1]
      · by_cases h2 : y < x
        · simp [h1, h2]
        · simp only [h1, h2, if_false]
          exact ih ts s' (by simpa using ha) (by simpa using ht)


theorem encSched_ne_nil (k : Nat) (v : List UInt8) : encSched k v ≠ [] := by
  rw [encSched]; split <;> simp

theorem u8_ofNat_lt_cont {n : Nat} (h : n ≤ 32) : UInt8.ofNat n < blockContinuation := by
  have : blockContinuation = UInt8.ofNat 255 := rfl
  rw [this]; exact u8_ofNat_lt (by omega) (by omega)

/-- a value ending in block `k` against a value continuing past block `k` -/
theorem encSched_last_cont (k : Nat) (a b : List UInt8) (ha : a.length ≤ schedSize k) (hb : ¬ b.length ≤ schedSize k) :
    cmpStrict (encSched k a) (encSched k b) = some (compareBytes a b) := by
  have hs := schedSize_le k
  rw [encSched.eq_1 k a, encSched.eq_1 k b, if_pos ha, if_neg hb]
  have e1 : ∀ X : List UInt8, List.take (schedSize k) b ++ blockContinuation :: X
      = (List.take (schedSize k) b ++ [blockContinuation]) ++ X := by intro X; simp
  rw [e1, ← List.append_nil (a ++ zeros (schedSize k - a.length) ++ [UInt8.ofNat a.length])]
  have hlen : (a ++ zeros (schedSize k - a.length) ++ [UInt8.ofNat a.length]).length
      = (List.take (schedSize k) b ++ [blockContinuation]).length := by
    simp [zeros]; omega
  have hcmp := compare_padded_cont a (b.take (schedSize k)) (b.drop (schedSize k)) (schedSize k)
    (UInt8.ofNat a.length) ha (by simp; omega) (u8_ofNat_lt_cont (by omega))
    (by intro h; have := congrArg List.length h; simp at this; omega)
  rw [List.take_append_drop] at hcmp
  rw [cmpStrict_append_of_cmpStrict _ _ (by rw [cmpStrict_eqlen hlen, hcmp])]
  have hne : compareBytes a b ≠ .eq := by
    intro h; have := compareBytes_eq_iff.mp h; subst this; omega
  simp [hne]

theorem encSched_cmp (n : Nat) : ∀ (k : Nat) (a b : List UInt8), a.length ≤ n →
    cmpStrict (encSched k a) (encSched k b) = some (compareBytes a b) := by
  induction n with
  | zero =>
    intro k a b ha
    have hs := schedSize_pos k
    by_cases hb : b.length ≤ schedSize k
    · rw [encSched.eq_1 k a, encSched.eq_1 k b, if_pos (by omega), if_pos hb]
      rw [cmpStrict_eqlen (by simp [zeros]; omega)]
      have := compare_padded a b (schedSize k) 0 (by omega) hb (by have := schedSize_le k; omega)
      simpa using this
    · exact encSched_last_cont k a b (by omega) hb
  | succ n ih =>
    intro k a b ha
    have hs := schedSize_pos k
    by_cases ha' : a.length ≤ schedSize k
    · by_cases hb : b.length ≤ schedSize k
      · rw [encSched.eq_1 k a, encSched.eq_1 k b, if_pos ha', if_pos hb]
        rw [cmpStrict_eqlen (by simp [zeros]; omega)]
        have := compare_padded a b (schedSize k) 0 ha' hb (by have := schedSize_le k; omega)
        simpa using this
      · exact encSched_last_cont k a b ha' hb
    · by_cases hb : b.length ≤ schedSize k
      · rw [cmpStrict_swap, encSched_last_cont k b a hb ha', ← compareBytes_swap]; simp
      · rw [encSched.eq_1 k a, encSched.eq_1 k b, if_neg ha', if_neg hb]
        have e1 : ∀ (v X : List UInt8), List.take (schedSize k) v ++ blockContinuation :: X
            = (List.take (schedSize k) v ++ [blockContinuation]) ++ X := by intro v X; simp
        rw [e1 a, e1 b]
        have hlen : (List.take (schedSize k) a ++ [blockContinuation]).length
            = (List.take (schedSize k) b ++ [blockContinuation]).length := by
          simp; omega
        rw [cmpStrict_append_of_cmpStrict _ _ (cmpStrict_eqlen hlen)]
        rw [ih (k + 1) (a.drop (schedSize k)) (b.drop (schedSize k)) (by simp; omega)]
        have hab : compareBytes a b = (compareBytes (a.take (schedSize k)) (b.take (schedSize k))).then
            (compareBytes (a.drop (schedSize k)) (b.drop (schedSize k))) := by
          rw [← compareBytes_append_eqlen _ _ (by simp; omega), List.take_append_drop, List.take_append_drop]
        have h2 : compareBytes (List.take (schedSize k) a ++ [blockContinuation]) (List.take (schedSize k) b ++ [blockContinuation])
            = compareBytes (a.take (schedSize k)) (b.take (schedSize k)) := by
          rw [compareBytes_append_eqlen _ _ (by simp; omega)]
          simp [compareBytes]
        rw [h2, hab]
        cases compareBytes (a.take (schedSize k)) (b.take (schedSize k)) <;> simp [Ordering.then]


theorem miniBlockSize_eq : miniBlockSize = 8 := by decide
theorem blockSize_eq : blockSize = 32 := by decide
theorem miniBlockCount_eq : miniBlockCount = 4 := by decide

theorem schedSize_mini {k : Nat} (h : k < 4) : schedSize k = 8 := by
  unfold schedSize; rw [miniBlockCount_eq, if_pos h, miniBlockSize_eq]
theorem schedSize_full {k : Nat} (h : 4 ≤ k) : schedSize k = 32 := by
  unfold schedSize; rw [miniBlockCount_eq, if_neg (by omega), blockSize_eq]

theorem encodeBlocks_ne_nil (s : Nat) (v : List UInt8) : encodeBlocks s v ≠ [] := by
  rw [encodeBlocks]; split <;> simp

/-- within the first `BLOCK_SIZE` bytes `encode_blocks::<MINI_BLOCK_SIZE>` is the schedule -/
theorem encodeBlocks_mini (j : Nat) : ∀ (k : Nat) (v : List UInt8), k + j = 4 → 1 ≤ j → v.length ≤ 8 * j →
    encodeBlocks 8 v = encSched k v := by
  induction j with
  | zero => intro k v _ h; omega
  | succ j ih =>
    intro k v hk _ hv
    have hs : schedSize k = 8 := schedSize_mini (by omega)
    rw [encodeBlocks.eq_1, encSched.eq_1, hs]
    by_cases h8 : v.length ≤ 8
    · simp [h8]
    · have : ¬ ((8 : Nat) = 0 ∨ v.length ≤ 8) := by omega
      rw [dif_neg this, if_neg h8]
      rw [ih (k + 1) (v.drop 8) (by omega) (by omega) (by simp; omega)]

/-- past the first `BLOCK_SIZE` bytes `encode_blocks::<BLOCK_SIZE>` is the schedule -/
theorem encodeBlocks_full (n : Nat) : ∀ (k : Nat) (v : List UInt8), 4 ≤ k → v.length ≤ n →
    encodeBlocks 32 v = encSched k v := by
  induction n with
  | zero =>
    intro k v hk hv
    rw [encodeBlocks.eq_1, encSched.eq_1, schedSize_full hk]
    simp [show v.length ≤ 32 by omega]
  | succ n ih =>
    intro k v hk hv
    rw [encodeBlocks.eq_1, encSched.eq_1, schedSize_full hk]
    by_cases h : v.length ≤ 32
    · simp [h]
    · have : ¬ ((32 : Nat) = 0 ∨ v.length ≤ 32) := by omega
      rw [dif_neg this, if_neg h, ih (k + 1) (v.drop 32) (by omega) (by simp; omega)]

/-- full mini-blocks whose final length byte is overwritten by the continuation byte,
followed by more data, are the schedule of the longer value -/
theorem encodeBlocks_mini_cont (j : Nat) : ∀ (k : Nat) (v w : List UInt8), k + j = 4 → 1 ≤ j → v.length = 8 * j →
    w ≠ [] →
    (encodeBlocks 8 v).dropLast ++ [blockContinuation] ++ encSched 4 w = encSched k (v ++ w) := by
  induction j with
  | zero => intro k v w _ h; omega
  | succ j ih =>
    intro k v w hk _ hv hw
    have hs : schedSize k = 8 := schedSize_mini (by omega)
    have hwl : 0 < w.length := List.length_pos_iff.mpr hw
    rw [encodeBlocks.eq_1, encSched.eq_1 k, hs]
    have hvw : ¬ (v ++ w).length ≤ 8 := by simp; omega
    rw [if_neg hvw]
    by_cases hj : j = 0
    · subst hj
      have h8 : v.length = 8 := by omega
      rw [dif_pos (by omega)]
      simp only [h8, Nat.sub_self, zeros, List.replicate_zero, List.append_nil]
      rw [List.dropLast_concat, List.take_append_of_le_length (by omega), List.drop_append_of_le_length (by omega)]
      rw [List.take_of_length_le (by omega), List.drop_of_length_le (by omega)]
      have : k + 1 = 4 := by omega
      rw [this]; simp
    · have : ¬ ((8 : Nat) = 0 ∨ v.length ≤ 8) := by omega
      rw [dif_neg this]
      have hne := encodeBlocks_ne_nil 8 (v.drop 8)
      rw [show List.take 8 v ++ blockContinuation :: encodeBlocks 8 (List.drop 8 v)
            = (List.take 8 v ++ [blockContinuation]) ++ encodeBlocks 8 (List.drop 8 v) by simp]
      rw [List.dropLast_append_of_ne_nil hne]
      rw [List.take_append_of_le_length (by omega), List.drop_append_of_le_length (by omega)]
      rw [← ih (k + 1) (v.drop 8) w (by omega) (by omega) (by simp; omega) hw]
      simp

theorem encodeNonEmpty_eq (val : List UInt8) : encodeNonEmpty val = nonEmptySentinel :: encSched 0 val := by
  unfold encodeNonEmpty
  rw [miniBlockSize_eq, blockSize_eq]
  by_cases h : val.length ≤ 32
  · rw [if_pos h, encodeBlocks_mini 4 0 val rfl (by omega) (by omega)]
  · rw [if_neg h]
    have hw : val.drop 32 ≠ [] := by
      intro h'; have := congrArg List.length h'; simp at this; omega
    rw [encodeBlocks_full _ 4 (val.drop 32) (Nat.le_refl _) (Nat.le_refl _)]
    rw [encodeBlocks_mini_cont 4 0 (val.take 32) (val.drop 32) rfl (by omega) (by simp; omega) hw]
    rw [List.take_append_drop]


theorem cmpStrict_cons_lt {x y : UInt8} (xs ys : List UInt8) (h : x < y) : cmpStrict (x :: xs) (y :: ys) = some .lt := by
  simp [cmpStrict, h]

theorem cmpStrict_cons_gt {x y : UInt8} (xs ys : List UInt8) (h : y < x) : cmpStrict (x :: xs) (y :: ys) = some .gt := by
  have : ¬ x < y := fun h' => by rw [UInt8.lt_iff_toNat_lt] at h h'; omega
  simp [cmpStrict, h, this]

theorem cmpStrict_cons_same (x : UInt8) (xs ys : List UInt8) : cmpStrict (x :: xs) (x :: ys) = cmpStrict xs ys := by
  simp [cmpStrict]

theorem encodeVar_cons (o : SortOptions) (x : UInt8) (xs : List UInt8) :
    encodeVar o (some (x :: xs)) = invIf o.descending (nonEmptySentinel :: encSched 0 (x :: xs)) := by
  simp [encodeVar, encodeNonEmpty_eq]

/-- variable-length field: strict byte order of encodings = order of values -/
theorem encodeVar_cmp (o : SortOptions) (a b : Option (List UInt8)) :
    cmpStrict (encodeVar o a) (encodeVar o b) = some (compareVal o compareBytes a b) := by
  obtain ⟨d, nf⟩ := o
  cases a with
  | none =>
    cases b with
    | none => rw [cmpStrict_eq_iff.mpr rfl]; rfl
    | some b =>
      cases b with
      | nil => cases d <;> cases nf <;> decide
      | cons y ys =>
        rw [encodeVar_cons]
        cases d <;> cases nf <;>
          simp only [encodeVar, invIf, inv, List.map_cons, compareVal, if_true, if_false, Bool.false_eq_true] <;>
          first
            | exact cmpStrict_cons_lt _ _ (by decide)
            | exact cmpStrict_cons_gt _ _ (by decide)
  | some a =>
    cases b with
    | none =>
      cases a with
      | nil => cases d <;> cases nf <;> decide
      | cons x xs =>
        rw [encodeVar_cons]
        cases d <;> cases nf <;>
          simp only [encodeVar, invIf, inv, List.map_cons, compareVal, if_true, if_false, Bool.false_eq_true] <;>
          first
            | exact cmpStrict_cons_lt _ _ (by decide)
            | exact cmpStrict_cons_gt _ _ (by decide)
    | some b =>
      cases a with
      | nil =>
        cases b with
        | nil => rw [cmpStrict_eq_iff.mpr rfl]; cases d <;> rfl
        | cons y ys =>
          rw [encodeVar_cons]
          cases d <;>
            simp only [encodeVar, invIf, inv, List.map_cons, compareVal, if_true, if_false, Bool.false_eq_true, compareBytes, Ordering.swap] <;>
            first
              | exact cmpStrict_cons_lt _ _ (by decide)
              | exact cmpStrict_cons_gt _ _ (by decide)
      | cons x xs =>
        cases b with
        | nil =>
          rw [encodeVar_cons]
          cases d <;>
            simp only [encodeVar, invIf, inv, List.map_cons, compareVal, if_true, if_false, Bool.false_eq_true, compareBytes, Ordering.swap] <;>
            first
              | exact cmpStrict_cons_lt _ _ (by decide)
              | exact cmpStrict_cons_gt _ _ (by decide)
        | cons y ys =>
          rw [encodeVar_cons, encodeVar_cons]
          have h := encSched_cmp _ 0 (x :: xs) (y :: ys) (Nat.le_refl _)
          have h2 : cmpStrict (nonEmptySentinel :: encSched 0 (x :: xs)) (nonEmptySentinel :: encSched 0 (y :: ys))
              = some (compareBytes (x :: xs) (y :: ys)) := by rw [cmpStrict_cons_same, h]
          cases d
          · simpa [invIf, compareVal] using h2
          · simpa [invIf, compareVal] using cmpStrict_inv h2



theorem beBytes_length (w n : Nat) : (beBytes w n).length = w := by
  induction w generalizing n with
  | zero => rfl
  | succ w ih => simp [beBytes, ih]

theorem u8_ofNat_lt_iff {a b : Nat} (ha : a < 256) (hb : b < 256) : UInt8.ofNat a < UInt8.ofNat b ↔ a < b := by
  rw [UInt8.lt_iff_toNat_lt, UInt8.toNat_ofNat', UInt8.toNat_ofNat']; omega

theorem pow256_succ (w : Nat) : 256 ^ (w + 1) = 256 * 256 ^ w := by rw [Nat.pow_succ]; omega

theorem compare_beBytes (w : Nat) : ∀ (n m : Nat), n < 256 ^ w → m < 256 ^ w →
    compareBytes (beBytes w n) (beBytes w m) = compareNat n m := by
  induction w with
  | zero => intro n m hn hm; simp at hn hm; subst hn; subst hm; rfl
  | succ w ih =>
    intro n m hn hm
    have hB : 0 < 256 ^ w := Nat.pow_pos (by omega)
    rw [pow256_succ] at hn hm
    have hqn : n / 256 ^ w < 256 := Nat.div_lt_of_lt_mul (by rw [Nat.mul_comm]; exact hn)
    have hqm : m / 256 ^ w < 256 := Nat.div_lt_of_lt_mul (by rw [Nat.mul_comm]; exact hm)
    have hn' := Nat.div_add_mod n (256 ^ w)
    have hm' := Nat.div_add_mod m (256 ^ w)
    have hrn := Nat.mod_lt n hB
    have hrm := Nat.mod_lt m hB
    simp only [beBytes, compareBytes, u8_ofNat_lt_iff hqn hqm, u8_ofNat_lt_iff hqm hqn]
    by_cases h1 : n / 256 ^ w < m / 256 ^ w
    · have : n < m := Nat.lt_of_div_lt_div h1
      simp [h1, compareNat, this]
    · by_cases h2 : m / 256 ^ w < n / 256 ^ w
      · have : m < n := Nat.lt_of_div_lt_div h2
        have h3 : ¬ n < m := by omega
        simp [h1, h2, compareNat, this, h3]
      · have hq : n / 256 ^ w = m / 256 ^ w := by omega
        simp only [h1, h2, if_false]
        rw [ih _ _ hrn hrm]
        rw [hq] at hn'
        unfold compareNat
        have e1 : (n % 256 ^ w < m % 256 ^ w) ↔ n < m := by omega
        have e2 : (m % 256 ^ w < n % 256 ^ w) ↔ m < n := by omega
        simp [e1, e2]

theorem beNat_beBytes (w : Nat) : ∀ n, n < 256 ^ w → beNat (beBytes w n) = n := by
  induction w with
  | zero => intro n hn; simp at hn; subst hn; rfl
  | succ w ih =>
    intro n hn
    have hB : 0 < 256 ^ w := Nat.pow_pos (by omega)
    rw [pow256_succ] at hn
    have hqn : n / 256 ^ w < 256 := Nat.div_lt_of_lt_mul (by rw [Nat.mul_comm]; exact hn)
    simp only [beBytes, beNat, beBytes_length, ih _ (Nat.mod_lt n hB), UInt8.toNat_ofNat']
    rw [Nat.mod_eq_of_lt (by omega)]
    have := Nat.div_add_mod n (256 ^ w)
    rw [Nat.mul_comm]; exact this


set_option maxRecDepth 100000 in
theorem xor128 : ∀ b, b < 256 → b ^^^ 128 = if b < 128 then b + 128 else b - 128 := by decide

theorem signMask_eq : signMask = 128 := by decide

theorem u8_flip (q : Nat) (hq : q < 256) :
    UInt8.ofNat q ^^^ signMask = UInt8.ofNat (if q < 128 then q + 128 else q - 128) := by
  apply UInt8.toNat_inj.mp
  rw [signMask_eq, UInt8.toNat_xor, UInt8.toNat_ofNat', UInt8.toNat_ofNat']
  have h1 : q % 2 ^ 8 = q := Nat.mod_eq_of_lt (by omega)
  rw [h1, show (128 : UInt8).toNat = 128 from rfl, xor128 q hq]
  split <;> omega

theorem flipSign_beBytes (w T O : Nat) (hT : T < 256 * 256 ^ w)
    (h : (T < 128 * 256 ^ w ∧ O = T + 128 * 256 ^ w) ∨ (128 * 256 ^ w ≤ T ∧ O + 128 * 256 ^ w = T)) :
    flipSign (beBytes (w + 1) T) = beBytes (w + 1) O := by
  have hB : 0 < 256 ^ w := Nat.pow_pos (by omega)
  have hq : T / 256 ^ w < 256 := Nat.div_lt_of_lt_mul (by rw [Nat.mul_comm]; exact hT)
  simp only [beBytes, flipSign]
  rw [u8_flip _ hq]
  rcases h with ⟨h1, h2⟩ | ⟨h1, h2⟩
  · have hq' : T / 256 ^ w < 128 := Nat.div_lt_of_lt_mul (by rw [Nat.mul_comm]; exact h1)
    subst h2
    rw [if_pos hq', Nat.add_mul_div_right _ _ hB, Nat.add_mul_mod_self_right]
  · have hq' : 128 ≤ T / 256 ^ w := (Nat.le_div_iff_mul_le hB).mpr h1
    subst h2
    have e1 : (O + 128 * 256 ^ w) / 256 ^ w = O / 256 ^ w + 128 := Nat.add_mul_div_right _ _ hB
    have e2 : (O + 128 * 256 ^ w) % 256 ^ w = O % 256 ^ w := Nat.add_mul_mod_self_right _ _ _
    rw [e1, e2, if_neg (by omega)]
    rw [Nat.add_sub_cancel]


theorem two_pow_8 (w : Nat) : 2 ^ (8 * w) = 256 ^ w := by rw [Nat.pow_mul]

theorem two_pow_8_succ (w : Nat) : 2 ^ (8 * (w + 1)) = 256 * 256 ^ w := by
  rw [two_pow_8, Nat.pow_succ]; omega

theorem two_pow_8_pred (w : Nat) : 2 ^ (8 * (w + 1) - 1) = 128 * 256 ^ w := by
  rw [show 8 * (w + 1) - 1 = 8 * w + 7 by omega, Nat.pow_add, two_pow_8]; omega

theorem int_two_pow (k : Nat) : (2 : Int) ^ k = ((2 ^ k : Nat) : Int) := by
  rw [Int.natCast_pow]; rfl

/-- offset-binary image of a two's complement pattern (what the sign-bit flip produces) -/
def offsetBin (w s : Nat) : Nat := if s < 2 ^ (8 * w - 1) then s + 2 ^ (8 * w - 1) else s - 2 ^ (8 * w - 1)

theorem offsetBin_lt (w s : Nat) (hs : s < 2 ^ (8 * (w + 1))) : offsetBin (w + 1) s < 256 ^ (w + 1) := by
  unfold offsetBin
  rw [two_pow_8_succ] at hs
  rw [two_pow_8_pred, Nat.pow_succ]
  split <;> omega

theorem offsetBin_untwos (w s : Nat) (hs : s < 2 ^ (8 * (w + 1))) :
    (offsetBin (w + 1) s : Int) = untwos (w + 1) s + 2 ^ (8 * (w + 1) - 1) := by
  unfold offsetBin untwos
  rw [int_two_pow, int_two_pow]
  rw [two_pow_8_succ] at hs ⊢
  rw [two_pow_8_pred]
  split <;> omega

theorem twos_range (w : Nat) (i : Int) (h1 : -(2 ^ (8 * (w + 1) - 1) : Int) ≤ i) (h2 : i < 2 ^ (8 * (w + 1) - 1)) :
    twos (w + 1) i < 2 ^ (8 * (w + 1)) ∧ untwos (w + 1) (twos (w + 1) i) = i := by
  unfold untwos twos
  simp only [int_two_pow] at h1 h2 ⊢
  rw [two_pow_8_succ, two_pow_8_pred] at *
  have hB : 0 < 256 ^ w := Nat.pow_pos (by omega)
  generalize 256 ^ w = B at *
  have hM : ((256 * B : Nat) : Int) ≠ 0 := by omega
  have h3 := Int.emod_nonneg i hM
  have h4 := Int.emod_lt_of_pos i (show (0 : Int) < ((256 * B : Nat) : Int) by omega)
  have h5 := Int.toNat_of_nonneg h3
  by_cases hi : 0 ≤ i
  · have : i % ((256 * B : Nat) : Int) = i := Int.emod_eq_of_lt hi (by omega)
    constructor
    · omega
    · split <;> omega
  · have : i % ((256 * B : Nat) : Int) = i + ((256 * B : Nat) : Int) := by
      rw [← Int.add_emod_right]
      exact Int.emod_eq_of_lt (by omega) (by omega)
    constructor
    · omega
    · split <;> omega


/-- xor with an all-ones mask is subtraction from the mask -/
theorem xor_mask (k x : Nat) (hx : x < 2 ^ k) : x ^^^ (2 ^ k - 1) = 2 ^ k - 1 - x := by
  apply Nat.eq_of_testBit_eq
  intro i
  rw [Nat.testBit_xor, Nat.testBit_two_pow_sub_one]
  have h : 2 ^ k - 1 - x = 2 ^ k - (x + 1) := by omega
  rw [h, Nat.testBit_two_pow_sub_succ hx]
  by_cases hi : i < k
  · simp [hi]
  · have : x.testBit i = false := Nat.testBit_lt_two_pow (Nat.lt_of_lt_of_le hx (Nat.pow_le_pow_right (by omega) (by omega)))
    simp [hi, this]

/-- the float transform on an `n`-bit pattern with the shifts `n-1` and `1` -/
theorem floatXform_eq (n s : Nat) (hn : 0 < n) (hs : s < 2 ^ n) :
    floatXform n (n - 1) 1 s = if s < 2 ^ (n - 1) then s else 2 ^ (n - 1) + (2 ^ n - 1 - s) := by
  obtain ⟨k, rfl⟩ : ∃ k, n = k + 1 := ⟨n - 1, by omega⟩
  simp only [Nat.add_sub_cancel]
  unfold floatXform
  have hp : 2 ^ (k + 1) = 2 * 2 ^ k := by rw [Nat.pow_succ]; omega
  by_cases h : s < 2 ^ k
  · rw [Nat.testBit_lt_two_pow h]; simp [h]
  · obtain ⟨m, rfl⟩ : ∃ m, s = 2 ^ k + m := ⟨s - 2 ^ k, by omega⟩
    have hm : m < 2 ^ k := by omega
    have hb : (2 ^ k + m).testBit k = true := by
      rw [Nat.testBit_two_pow_add_eq, Nat.testBit_lt_two_pow hm]; rfl
    rw [hb, if_pos rfl, if_neg h]
    have hsh : (2 ^ (k + 1) - 1) >>> 1 = 2 ^ k - 1 := by
      rw [Nat.shiftRight_eq_div_pow]; omega
    rw [hsh]
    apply Nat.eq_of_testBit_eq
    intro i
    rw [Nat.testBit_xor, Nat.testBit_two_pow_sub_one]
    have e : 2 ^ k + (2 ^ (k + 1) - 1 - (2 ^ k + m)) = 2 ^ k + (2 ^ k - (m + 1)) := by omega
    rw [e]
    by_cases hi : i < k
    · rw [Nat.testBit_two_pow_add_gt hi, Nat.testBit_two_pow_add_gt hi, Nat.testBit_two_pow_sub_succ hm]
      simp [hi]
    · by_cases hik : i = k
      · subst hik
        rw [Nat.testBit_two_pow_add_eq, Nat.testBit_two_pow_add_eq, Nat.testBit_lt_two_pow hm,
          Nat.testBit_lt_two_pow (show 2 ^ i - (m + 1) < 2 ^ i by omega)]
        simp
      · have hlt : 2 ^ (k + 1) ≤ 2 ^ i := Nat.pow_le_pow_right (by omega) (by omega)
        rw [Nat.testBit_lt_two_pow (show 2 ^ k + m < 2 ^ i by omega),
          Nat.testBit_lt_two_pow (show 2 ^ k + (2 ^ k - (m + 1)) < 2 ^ i by omega)]
        simp [hi]


/-- the integer a fixed-width scalar is ordered by -/
def scalarKey : FTy → Int → Int
  | .float w, i => floatKey (8 * w) i
  | _, i => i

/-- the constant by which a type's byte key is shifted from its order key -/
def keyOffset : FTy → Int
  | .int true w => 2 ^ (8 * w - 1)
  | .float w => 2 ^ (8 * w - 1)
  | _ => 0

theorem compareScalar_int (t : FTy) (i j : Int) :
    compareScalar t (.int i) (.int j) = compareInt (scalarKey t i) (scalarKey t j) := by
  cases t <;> rfl

theorem compareNat_shift (a b : Nat) (x y c : Int) (ha : (a : Int) = x + c) (hb : (b : Int) = y + c) :
    compareNat a b = compareInt x y := by
  unfold compareNat compareInt
  have e1 : a < b ↔ x < y := by omega
  have e2 : b < a ↔ y < x := by omega
  simp [e1, e2]

theorem flipSign_eq (w s : Nat) (hs : s < 2 ^ (8 * (w + 1))) :
    flipSign (beBytes (w + 1) s) = beBytes (w + 1) (offsetBin (w + 1) s) := by
  have hs' := hs
  rw [two_pow_8_succ] at hs'
  apply flipSign_beBytes w s _ hs'
  unfold offsetBin
  rw [two_pow_8_pred]
  split
  · left; omega
  · right; omega

theorem floatShifts_eq {w : Nat} (h : w = 2 ∨ w = 4 ∨ w = 8) : floatShifts w = (8 * w - 1, 1) := by
  rcases h with rfl | rfl | rfl <;> decide

/-- every fixed-width body is the big-endian image of a key that is the scalar's order key
shifted by a constant of the type -/
theorem fixedBody_key (t : FTy) (i : Int) (h : t.admits (some (.int i)) = true) :
    ∃ k : Nat, ∃ c : Int, encodeFixedBody t i = beBytes (fixedWidth t) k ∧ k < 256 ^ fixedWidth t ∧
      (k : Int) = scalarKey t i + c ∧ c = keyOffset t := by
  cases t with
  | int signed w =>
    cases signed with
    | true =>
      simp only [FTy.admits, Bool.and_eq_true, decide_eq_true_eq] at h
      obtain ⟨⟨h1, h2⟩, hw⟩ := h
      obtain ⟨w', rfl⟩ : ∃ w', w = w' + 1 := ⟨w - 1, by omega⟩
      obtain ⟨hr, hu⟩ := twos_range w' i h1 h2
      refine ⟨offsetBin (w' + 1) (twos (w' + 1) i), _, ?_, offsetBin_lt _ _ hr, ?_, rfl⟩
      · simp only [encodeFixedBody, fixedWidth]; exact flipSign_eq _ _ hr
      · rw [offsetBin_untwos _ _ hr, hu]; rfl
    | false =>
      simp only [FTy.admits, Bool.and_eq_true, decide_eq_true_eq] at h
      obtain ⟨⟨h1, h2⟩, hw⟩ := h
      refine ⟨i.toNat, 0, rfl, ?_, ?_, rfl⟩
      · simp only [fixedWidth]
        rw [← two_pow_8]
        rw [int_two_pow] at h2; omega
      · simp only [scalarKey]; omega
  | float w =>
    simp only [FTy.admits, Bool.and_eq_true, decide_eq_true_eq] at h
    obtain ⟨⟨h1, h2⟩, hw⟩ := h
    obtain ⟨w', rfl⟩ : ∃ w', w = w' + 1 := ⟨w - 1, by omega⟩
    have hbits : i.toNat < 2 ^ (8 * (w' + 1)) := by rw [int_two_pow] at h2; omega
    have hx := floatXform_eq (8 * (w' + 1)) i.toNat (by omega) hbits
    have hxl : floatXform (8 * (w' + 1)) (8 * (w' + 1) - 1) 1 i.toNat < 2 ^ (8 * (w' + 1)) := by
      rw [hx]
      have : 2 ^ (8 * (w' + 1)) = 2 * 2 ^ (8 * (w' + 1) - 1) := by
        rw [two_pow_8_succ, two_pow_8_pred]; omega
      split <;> omega
    refine ⟨offsetBin (w' + 1) (floatXform (8 * (w' + 1)) (8 * (w' + 1) - 1) 1 i.toNat), _, ?_,
      offsetBin_lt _ _ hxl, ?_, rfl⟩
    · simp only [encodeFixedBody, fixedWidth, floatShifts_eq hw]; exact flipSign_eq _ _ hxl
    · rw [offsetBin_untwos _ _ hxl]
      show untwos (w' + 1) _ + 2 ^ (8 * (w' + 1) - 1) = floatKey (8 * (w' + 1)) i + 2 ^ (8 * (w' + 1) - 1)
      congr 1
      unfold untwos floatKey
      rw [hx]
      have hp : 2 ^ (8 * (w' + 1)) = 2 * 2 ^ (8 * (w' + 1) - 1) := by
        rw [two_pow_8_succ, two_pow_8_pred]; omega
      simp only [int_two_pow]
      have hi : (i.toNat : Int) = i := Int.toNat_of_nonneg h1
      generalize 2 ^ (8 * (w' + 1) - 1) = H at *
      generalize 2 ^ (8 * (w' + 1)) = M at *
      by_cases hlt : i.toNat < H
      · have h3 : i < (H : Int) := by omega
        rw [if_pos hlt, if_pos hlt, if_pos h3]; omega
      · have h3 : ¬ i < (H : Int) := by omega
        have h4 : ¬ (H + (M - 1 - i.toNat) < H) := by omega
        rw [if_neg hlt, if_neg h4, if_neg h3]; omega
  | bool =>
    simp only [FTy.admits, decide_eq_true_eq] at h
    refine ⟨i.toNat, 0, ?_, ?_, ?_, rfl⟩
    · rcases h with rfl | rfl <;> decide
    · rcases h with rfl | rfl <;> decide
    · simp only [scalarKey]; omega
  | bin => simp [FTy.admits] at h
  | fsb n => simp [FTy.admits] at h
  | prod ws => simp [FTy.admits] at h

theorem fixedBody_length (t : FTy) (i : Int) (h : t.admits (some (.int i)) = true) :
    (encodeFixedBody t i).length = fixedWidth t := by
  obtain ⟨k, c, h1, _⟩ := fixedBody_key t i h
  rw [h1, beBytes_length]

theorem fixedBody_cmp (t : FTy) (i j : Int) (hi : t.admits (some (.int i)) = true) (hj : t.admits (some (.int j)) = true) :
    compareBytes (encodeFixedBody t i) (encodeFixedBody t j) = compareScalar t (.int i) (.int j) := by
  obtain ⟨k1, c1, e1, l1, v1, d1⟩ := fixedBody_key t i hi
  obtain ⟨k2, c2, e2, l2, v2, d2⟩ := fixedBody_key t j hj
  rw [e1, e2, compare_beBytes _ _ _ l1 l2, compareScalar_int]
  exact compareNat_shift _ _ _ _ c1 v1 (by rw [d1, ← d2]; exact v2)


theorem compareBytes_inv_eqlen {x y : List UInt8} (h : x.length = y.length) :
    compareBytes (inv x) (inv y) = (compareBytes x y).swap :=
  compareBytes_of_cmpStrict (cmpStrict_inv (cmpStrict_eqlen h))

theorem inv_length (x : List UInt8) : (inv x).length = x.length := by simp [inv]
theorem invIf_length (d : Bool) (x : List UInt8) : (invIf d x).length = x.length := by
  cases d <;> simp [invIf, inv]

theorem fixedSlot_cmp (o : SortOptions) (w : Nat) (a b : Option (List UInt8))
    (ha : ∀ x, a = some x → x.length = w) (hb : ∀ x, b = some x → x.length = w) :
    cmpStrict (encodeFixedSlot o w a) (encodeFixedSlot o w b) = some (compareVal o compareBytes a b) := by
  obtain ⟨d, nf⟩ := o
  cases a with
  | none =>
    cases b with
    | none => rw [cmpStrict_eq_iff.mpr rfl]; rfl
    | some y =>
      simp only [encodeFixedSlot, compareVal]
      cases nf
      · exact cmpStrict_cons_gt _ _ (by show validByte < UInt8.ofNat _; decide)
      · exact cmpStrict_cons_lt _ _ (by show UInt8.ofNat _ < validByte; decide)
  | some x =>
    cases b with
    | none =>
      simp only [encodeFixedSlot, compareVal]
      cases nf
      · exact cmpStrict_cons_lt _ _ (by show validByte < UInt8.ofNat _; decide)
      · exact cmpStrict_cons_gt _ _ (by show UInt8.ofNat _ < validByte; decide)
    | some y =>
      have hx := ha x rfl
      have hy := hb y rfl
      simp only [encodeFixedSlot, compareVal, cmpStrict_cons_same]
      rw [cmpStrict_eqlen (by rw [invIf_length, invIf_length, hx, hy])]
      cases d
      · rfl
      · simp only [invIf, if_true]
        rw [compareBytes_inv_eqlen (by rw [hx, hy])]

theorem admitsComps_cons {w : Nat} {ws : List Nat} {i : Int} {is : List Int} :
    admitsComps (w :: ws) (i :: is) = true ↔
      (FTy.int true w).admits (some (.int i)) = true ∧ admitsComps ws is = true := by
  simp [admitsComps, FTy.admits]

theorem encodeComps_length : ∀ (ws : List Nat) (is : List Int), admitsComps ws is = true →
    (encodeComps ws is).length = ws.sum
  | [], [], _ => rfl
  | [], _ :: _, h => by simp [admitsComps] at h
  | _ :: _, [], h => by simp [admitsComps] at h
  | w :: ws, i :: is, h => by
    obtain ⟨h1, h2⟩ := admitsComps_cons.mp h
    simp only [encodeComps, List.length_append, List.sum_cons]
    rw [fixedBody_length _ i h1, encodeComps_length ws is h2]; rfl

/-- **product of signed encodings**: the concatenation of the components' own signed
encodings is ordered like the component tuples, lexicographically -/
theorem encodeComps_cmp : ∀ (ws : List Nat) (a b : List Int), admitsComps ws a = true → admitsComps ws b = true →
    compareBytes (encodeComps ws a) (encodeComps ws b) = lexCompare compareInt a b
  | [], [], [], _, _ => rfl
  | [], _ :: _, _, h, _ => by simp [admitsComps] at h
  | [], [], _ :: _, _, h => by simp [admitsComps] at h
  | _ :: _, [], _, h, _ => by simp [admitsComps] at h
  | _ :: _, _ :: _, [], _, h => by simp [admitsComps] at h
  | w :: ws, i :: is, j :: js, ha, hb => by
    obtain ⟨h1, h2⟩ := admitsComps_cons.mp ha
    obtain ⟨h3, h4⟩ := admitsComps_cons.mp hb
    simp only [encodeComps, lexCompare]
    rw [compareBytes_append_eqlen _ _ (by rw [fixedBody_length _ i h1, fixedBody_length _ j h3]),
      fixedBody_cmp _ i j h1 h3, encodeComps_cmp ws is js h2 h4]
    rfl

theorem encodeField_cmp_fixed (o : SortOptions) (t : FTy) (a b : FVal) (ha : t.admits a = true) (hb : t.admits b = true)
    (h1 : t ≠ .bin) (h2 : ∀ n, t ≠ .fsb n) (h3 : ∀ ws, t ≠ .prod ws) :
    cmpStrict (encodeField o t a) (encodeField o t b) = some (compareField o t a b) := by
  have key : ∀ v : FVal, t.admits v = true → ∃ v' : Option Int,
      encodeField o t v = encodeFixedSlot o (fixedWidth t) (v'.map (encodeFixedBody t)) ∧ v = v'.map Scalar.int ∧
      ∀ i, v' = some i → t.admits (some (.int i)) = true := by
    intro v hv
    match v, hv with
    | none, _ =>
      refine ⟨none, ?_, rfl, by simp⟩
      cases t <;> first | rfl | exact absurd rfl h1 | exact absurd rfl (h2 _) | exact absurd rfl (h3 _)
    | some (.int i), hv =>
      refine ⟨some i, ?_, rfl, ?_⟩
      · cases t <;> first | rfl | exact absurd rfl h1 | exact absurd rfl (h2 _) | exact absurd rfl (h3 _)
      · intro j hj; cases hj; exact hv
    | some (.bytes x), hv =>
      cases t <;> first | (simp [FTy.admits] at hv; done) | exact absurd rfl h1 | exact absurd rfl (h2 _) | exact absurd rfl (h3 _)
    | some (.ints x), hv =>
      cases t <;> first | (simp [FTy.admits] at hv; done) | exact absurd rfl h1 | exact absurd rfl (h2 _) | exact absurd rfl (h3 _)
  obtain ⟨a', ea, rfl, la⟩ := key a ha
  obtain ⟨b', eb, rfl, lb⟩ := key b hb
  rw [ea, eb, fixedSlot_cmp o (fixedWidth t)]
  · cases a' with
    | none => cases b' <;> rfl
    | some i =>
      cases b' with
      | none => rfl
      | some j =>
        simp only [Option.map_some, compareField, compareVal]
        rw [fixedBody_cmp t i j (la i rfl) (lb j rfl)]
  · intro x hx
    cases a' with
    | none => simp at hx
    | some i => simp at hx; subst hx; exact fixedBody_length t i (la i rfl)
  · intro x hx
    cases b' with
    | none => simp at hx
    | some i => simp at hx; subst hx; exact fixedBody_length t i (lb i rfl)

/-- **field level**: strict byte comparison of two encodings of the same field = the
logical comparison of the values (so encodings are also never proper prefixes of one another) -/
theorem encodeField_cmp (o : SortOptions) (t : FTy) (a b : FVal) (ha : t.admits a = true) (hb : t.admits b = true) :
    cmpStrict (encodeField o t a) (encodeField o t b) = some (compareField o t a b) := by
  cases t with
  | bin =>
    have key : ∀ v : FVal, FTy.bin.admits v = true → ∃ v' : Option (List UInt8),
        encodeField o .bin v = encodeVar o v' ∧ v = v'.map Scalar.bytes := by
      intro v hv
      match v, hv with
      | none, _ => exact ⟨none, rfl, rfl⟩
      | some (.bytes x), _ => exact ⟨some x, rfl, rfl⟩
      | some (.int _), hv => simp [FTy.admits] at hv
      | some (.ints _), hv => simp [FTy.admits] at hv
    obtain ⟨a', ea, rfl⟩ := key a ha
    obtain ⟨b', eb, rfl⟩ := key b hb
    rw [ea, eb, encodeVar_cmp]
    cases a' <;> cases b' <;> rfl
  | fsb n =>
    have key : ∀ v : FVal, (FTy.fsb n).admits v = true → ∃ v' : Option (List UInt8),
        encodeField o (.fsb n) v = encodeFixedSlot o n v' ∧ v = v'.map Scalar.bytes ∧ ∀ x, v' = some x → x.length = n := by
      intro v hv
      match v, hv with
      | none, _ => exact ⟨none, rfl, rfl, by simp⟩
      | some (.bytes x), hv =>
        simp only [FTy.admits, decide_eq_true_eq] at hv
        refine ⟨some x, ?_, rfl, ?_⟩
        · simp [encodeField, hv]
        · intro y hy; cases hy; exact hv
      | some (.int _), hv => simp [FTy.admits] at hv
      | some (.ints _), hv => simp [FTy.admits] at hv
    obtain ⟨a', ea, rfl, la⟩ := key a ha
    obtain ⟨b', eb, rfl, lb⟩ := key b hb
    rw [ea, eb, fixedSlot_cmp o n a' b' la lb]
    cases a' <;> cases b' <;> rfl
  | prod ws =>
    have key : ∀ v : FVal, (FTy.prod ws).admits v = true → ∃ v' : Option (List Int),
        encodeField o (.prod ws) v = encodeFixedSlot o ws.sum (v'.map (encodeComps ws)) ∧ v = v'.map Scalar.ints ∧
        ∀ x, v' = some x → admitsComps ws x = true := by
      intro v hv
      match v, hv with
      | none, _ => exact ⟨none, rfl, rfl, by simp⟩
      | some (.ints x), hv => exact ⟨some x, rfl, rfl, by intro y hy; cases hy; exact hv⟩
      | some (.int _), hv => simp [FTy.admits] at hv
      | some (.bytes _), hv => simp [FTy.admits] at hv
    obtain ⟨a', ea, rfl, la⟩ := key a ha
    obtain ⟨b', eb, rfl, lb⟩ := key b hb
    rw [ea, eb, fixedSlot_cmp o ws.sum]
    · cases a' with
      | none => cases b' <;> rfl
      | some x =>
        cases b' with
        | none => rfl
        | some y =>
          simp only [Option.map_some, compareField, compareVal]
          rw [encodeComps_cmp ws x y (la x rfl) (lb y rfl)]
          rfl
    · intro x hx
      cases a' with
      | none => simp at hx
      | some i => simp at hx; subst hx; exact encodeComps_length ws i (la i rfl)
    · intro x hx
      cases b' with
      | none => simp at hx
      | some i => simp at hx; subst hx; exact encodeComps_length ws i (lb i rfl)
  | int s w => exact encodeField_cmp_fixed o (.int s w) a b ha hb (by simp) (by simp) (by simp)
  | float w => exact encodeField_cmp_fixed o (.float w) a b ha hb (by simp) (by simp) (by simp)
  | bool => exact encodeField_cmp_fixed o .bool a b ha hb (by simp) (by simp) (by simp)


theorem encodeRow_cmp (fs : List (FTy × SortOptions)) : ∀ (r1 r2 : List FVal),
    rowAdmits fs r1 = true → rowAdmits fs r2 = true →
    cmpStrict (encodeRow fs r1) (encodeRow fs r2) = some (compareRows fs r1 r2) := by
  induction fs with
  | nil =>
    intro r1 r2 h1 h2
    cases r1 <;> cases r2 <;> simp_all [rowAdmits, encodeRow, compareRows, cmpStrict]
  | cons f fs ih =>
    obtain ⟨t, o⟩ := f
    intro r1 r2 h1 h2
    cases r1 with
    | nil => simp [rowAdmits] at h1
    | cons a as =>
      cases r2 with
      | nil => simp [rowAdmits] at h2
      | cons b bs =>
        simp only [rowAdmits, Bool.and_eq_true] at h1 h2
        simp only [encodeRow, compareRows]
        rw [cmpStrict_append_of_cmpStrict _ _ (encodeField_cmp o t a b h1.1 h2.1), ih as bs h1.2 h2.2]
        cases compareField o t a b <;> rfl


theorem encSched_length_pos (k : Nat) (v : List UInt8) : 0 < (encSched k v).length :=
  List.length_pos_iff.mpr (encSched_ne_nil k v)

theorem u8_ofNat_ne_cont {n : Nat} (h : n ≤ 32) : UInt8.ofNat n ≠ blockContinuation := by
  intro he
  have := u8_ofNat_lt_cont h
  rw [he] at this
  exact u8_lt_irrefl _ this

theorem decodeBlocksFrom_succ (desc : Bool) (fuel k : Nat) (row acc : List UInt8) :
    decodeBlocksFrom desc (fuel + 1) k row acc =
      match row[schedSize k]? with
      | none => none
      | some sentinel =>
        if sentinel ≠ (if desc then ~~~blockContinuation else blockContinuation) then
          some (acc ++ row.take (if desc then (~~~sentinel).toNat else sentinel.toNat), row.drop (schedSize k + 1))
        else decodeBlocksFrom desc fuel (k + 1) (row.drop (schedSize k + 1)) (acc ++ row.take (schedSize k)) := rfl

theorem decodeBlocks_last (k fuel : Nat) (v acc rest : List UInt8) (hv : v.length ≤ schedSize k) (hf : 0 < fuel) :
    decodeBlocksFrom false fuel k (encSched k v ++ rest) acc = some (acc ++ v, rest) := by
  obtain ⟨fuel', rfl⟩ : ∃ f, fuel = f + 1 := ⟨fuel - 1, by omega⟩
  have hs := schedSize_le k
  rw [encSched.eq_1, if_pos hv, decodeBlocksFrom_succ]
  have hlen : (v ++ zeros (schedSize k - v.length)).length = schedSize k := by simp [zeros]; omega
  have hrow : v ++ zeros (schedSize k - v.length) ++ [UInt8.ofNat v.length] ++ rest
      = (v ++ zeros (schedSize k - v.length)) ++ (UInt8.ofNat v.length :: rest) := by simp
  rw [hrow]
  have hidx : ((v ++ zeros (schedSize k - v.length)) ++ (UInt8.ofNat v.length :: rest))[schedSize k]? = some (UInt8.ofNat v.length) := by
    rw [List.getElem?_append_right (by omega), hlen]; simp
  rw [hidx]
  simp only [Bool.false_eq_true, if_false]
  rw [if_pos (u8_ofNat_ne_cont (by omega))]
  have htn : (UInt8.ofNat v.length).toNat = v.length := by
    rw [UInt8.toNat_ofNat']; exact Nat.mod_eq_of_lt (by omega)
  rw [htn]
  have h1 : List.take v.length ((v ++ zeros (schedSize k - v.length)) ++ (UInt8.ofNat v.length :: rest)) = v := by
    rw [List.append_assoc, List.take_left']; rfl
  have h2 : List.drop (schedSize k + 1) ((v ++ zeros (schedSize k - v.length)) ++ (UInt8.ofNat v.length :: rest)) = rest := by
    rw [show schedSize k + 1 = (v ++ zeros (schedSize k - v.length)).length + 1 by omega, List.drop_append]; simp
  rw [h1, h2]

theorem decodeBlocks_asc (n : Nat) : ∀ (k fuel : Nat) (v acc rest : List UInt8), v.length ≤ n →
    (encSched k v).length ≤ fuel →
    decodeBlocksFrom false fuel k (encSched k v ++ rest) acc = some (acc ++ v, rest) := by
  induction n with
  | zero =>
    intro k fuel v acc rest hv hf
    exact decodeBlocks_last k fuel v acc rest (by omega) (by have := encSched_length_pos k v; omega)
  | succ n ih =>
    intro k fuel v acc rest hv hf
    have hs := schedSize_pos k
    by_cases hl : v.length ≤ schedSize k
    · exact decodeBlocks_last k fuel v acc rest hl (by have := encSched_length_pos k v; omega)
    · obtain ⟨fuel', rfl⟩ : ∃ f, fuel = f + 1 := ⟨fuel - 1, by have := encSched_length_pos k v; omega⟩
      rw [encSched.eq_1, if_neg hl] at hf ⊢
      rw [decodeBlocksFrom_succ]
      have htl : (v.take (schedSize k)).length = schedSize k := by simp; omega
      have hrow : List.take (schedSize k) v ++ blockContinuation :: encSched (k + 1) (List.drop (schedSize k) v) ++ rest
          = List.take (schedSize k) v ++ (blockContinuation :: (encSched (k + 1) (List.drop (schedSize k) v) ++ rest)) := by simp
      rw [hrow]
      have hidx : (List.take (schedSize k) v ++ (blockContinuation :: (encSched (k + 1) (List.drop (schedSize k) v) ++ rest)))[schedSize k]?
          = some blockContinuation := by
        rw [List.getElem?_append_right (by omega), htl]; simp
      rw [hidx]
      simp only [Bool.false_eq_true, if_false, ne_eq, not_true_eq_false]
      have h1 : List.take (schedSize k) (List.take (schedSize k) v ++ (blockContinuation :: (encSched (k + 1) (List.drop (schedSize k) v) ++ rest)))
          = v.take (schedSize k) := by
        rw [List.take_left' htl]
      have h2 : List.drop (schedSize k + 1) (List.take (schedSize k) v ++ (blockContinuation :: (encSched (k + 1) (List.drop (schedSize k) v) ++ rest)))
          = encSched (k + 1) (List.drop (schedSize k) v) ++ rest := by
        rw [show schedSize k + 1 = (List.take (schedSize k) v).length + 1 by omega, List.drop_append]; simp
      rw [h1, h2, ih (k + 1) fuel' (v.drop (schedSize k)) _ rest (by simp; omega) (by simp at hf; omega)]
      rw [List.append_assoc, List.take_append_drop]


theorem u8_not_not (x : UInt8) : ~~~(~~~x) = x := by simp
theorem u8_not_inj {x y : UInt8} : ~~~x = ~~~y ↔ x = y := by
  constructor
  · intro h; rw [← u8_not_not x, h, u8_not_not]
  · rintro rfl; rfl

theorem inv_inv (x : List UInt8) : inv (inv x) = x := by
  simp [inv, List.map_map, Function.comp_def]
theorem inv_append (x y : List UInt8) : inv (x ++ y) = inv x ++ inv y := by simp [inv]
theorem inv_take (n : Nat) (x : List UInt8) : inv (x.take n) = (inv x).take n := by simp [inv, List.map_take]
theorem inv_drop (n : Nat) (x : List UInt8) : inv (x.drop n) = (inv x).drop n := by simp [inv, List.map_drop]
theorem inv_getElem? (n : Nat) (x : List UInt8) : (inv x)[n]? = x[n]?.map (~~~ ·) := by simp [inv]

/-- decoding the inverted row with the inverted sentinels is decoding the plain row,
inverted (`decode_blocks` with `options.descending`) -/
theorem decodeBlocks_desc (fuel : Nat) : ∀ (k : Nat) (row acc : List UInt8),
    decodeBlocksFrom true fuel k (inv row) (inv acc)
      = (decodeBlocksFrom false fuel k row acc).map (fun p => (inv p.1, inv p.2)) := by
  induction fuel with
  | zero => intro k row acc; rfl
  | succ fuel ih =>
    intro k row acc
    rw [decodeBlocksFrom_succ, decodeBlocksFrom_succ, inv_getElem?]
    cases h : row[schedSize k]? with
    | none => rfl
    | some s =>
      simp only [Option.map_some, if_true, Bool.false_eq_true, if_false, ne_eq, u8_not_inj, u8_not_not]
      by_cases hs : s = blockContinuation
      · simp only [hs, not_true_eq_false, if_false]
        rw [← inv_drop, ← inv_take, ← inv_append, ih]
      · simp only [hs, not_false_eq_true, if_true, Option.map_some]
        rw [inv_append, inv_take, inv_drop]


theorem decodeVar_cons (o : SortOptions) (b : UInt8) (rest : List UInt8) :
    decodeVar o (b :: rest) =
      if b ≠ (if o.descending then ~~~nonEmptySentinel else nonEmptySentinel) then
        some (if b = nullSentinel o then none else some [], rest)
      else
        match decodeBlocksFrom o.descending (rest.length + 1) 0 rest [] with
        | none => none
        | some (v, rest') => some (if b = nullSentinel o then none else some (invIf o.descending v), rest') := rfl

open ArrowModel.Generated.C11 in
/-- the sentinels are pairwise distinct, also after inversion -/
theorem sentinel_facts :
    UInt8.ofNat NULL_SENTINEL_FIRST ≠ nonEmptySentinel ∧ UInt8.ofNat NULL_SENTINEL_FIRST ≠ ~~~nonEmptySentinel ∧
    UInt8.ofNat NULL_SENTINEL_LAST ≠ nonEmptySentinel ∧ UInt8.ofNat NULL_SENTINEL_LAST ≠ ~~~nonEmptySentinel ∧
    emptySentinel ≠ nonEmptySentinel ∧ ~~~emptySentinel ≠ ~~~nonEmptySentinel ∧
    emptySentinel ≠ UInt8.ofNat NULL_SENTINEL_FIRST ∧ emptySentinel ≠ UInt8.ofNat NULL_SENTINEL_LAST ∧
    ~~~emptySentinel ≠ UInt8.ofNat NULL_SENTINEL_FIRST ∧ ~~~emptySentinel ≠ UInt8.ofNat NULL_SENTINEL_LAST ∧
    nonEmptySentinel ≠ UInt8.ofNat NULL_SENTINEL_FIRST ∧ nonEmptySentinel ≠ UInt8.ofNat NULL_SENTINEL_LAST ∧
    ~~~nonEmptySentinel ≠ UInt8.ofNat NULL_SENTINEL_FIRST ∧ ~~~nonEmptySentinel ≠ UInt8.ofNat NULL_SENTINEL_LAST := by
  decide

/-- **decode ∘ encode** for the variable-length field, with anything following it -/
theorem decodeVar_encodeVar (o : SortOptions) (v : Option (List UInt8)) (rest : List UInt8) :
    decodeVar o (encodeVar o v ++ rest) = some (v, rest) := by
  obtain ⟨d, nf⟩ := o
  obtain ⟨f1, f2, f3, f4, f5, f6, f7, f8, f9, f10, f11, f12, f13, f14⟩ := sentinel_facts
  cases v with
  | none =>
    simp only [encodeVar, List.singleton_append, decodeVar_cons]
    cases d <;> cases nf <;> simp [nullSentinel, f1, f2, f3, f4, f5, f6, f7, f8, f9, f10, f11, f12, f13, f14]
  | some v =>
    cases v with
    | nil =>
      simp only [encodeVar, List.singleton_append, decodeVar_cons]
      cases d <;> cases nf <;> simp [nullSentinel, f1, f2, f3, f4, f5, f6, f7, f8, f9, f10, f11, f12, f13, f14]
    | cons x xs =>
      rw [encodeVar_cons]
      cases d
      · simp only [invIf, Bool.false_eq_true, if_false, List.cons_append, decodeVar_cons, ne_eq, not_true_eq_false]
        rw [decodeBlocks_asc _ 0 _ (x :: xs) [] rest (Nat.le_refl _) (by simp; omega)]
        cases nf <;> simp [nullSentinel, f1, f2, f3, f4, f5, f6, f7, f8, f9, f10, f11, f12, f13, f14]
      · simp only [invIf, if_true, inv, List.map_cons, List.cons_append, decodeVar_cons, ne_eq, not_true_eq_false, if_false]
        have h := decodeBlocks_desc ((List.map (fun x => ~~~x) (encSched 0 (x :: xs)) ++ rest).length + 1) 0
          (encSched 0 (x :: xs) ++ inv rest) []
        rw [inv_append, inv_inv] at h
        simp only [inv, List.map_nil] at h
        rw [h, decodeBlocks_asc _ 0 _ (x :: xs) [] (List.map (fun x => ~~~x) rest) (Nat.le_refl _) (by simp; omega)]
        simp only [Option.map_some, List.nil_append]
        have h2 := inv_inv rest
        simp only [inv] at h2
        rw [h2]
        have h3 := inv_inv (x :: xs)
        simp only [inv] at h3
        rw [h3]
        cases nf <;> simp [nullSentinel, f1, f2, f3, f4, f5, f6, f7, f8, f9, f10, f11, f12, f13, f14]


theorem flipSign_flipSign (x : List UInt8) : flipSign (flipSign x) = x := by
  cases x with
  | nil => rfl
  | cons b bs => simp [flipSign, UInt8.xor_assoc]

theorem floatXform_invol (n s : Nat) (hn : 0 < n) (hs : s < 2 ^ n) :
    floatXform n (n - 1) 1 (floatXform n (n - 1) 1 s) = s := by
  have hp : 2 ^ n = 2 * 2 ^ (n - 1) := by
    obtain ⟨k, rfl⟩ : ∃ k, n = k + 1 := ⟨n - 1, by omega⟩
    rw [Nat.add_sub_cancel, Nat.pow_succ]; omega
  have h1 := floatXform_eq n s hn hs
  have hl : floatXform n (n - 1) 1 s < 2 ^ n := by rw [h1]; split <;> omega
  rw [floatXform_eq n _ hn hl, h1]
  by_cases h : s < 2 ^ (n - 1)
  · simp [h]
  · rw [if_neg h]
    have : ¬ (2 ^ (n - 1) + (2 ^ n - 1 - s) < 2 ^ (n - 1)) := by omega
    rw [if_neg this]; omega

theorem decodeFixedBody_encode (t : FTy) (i : Int) (h : t.admits (some (.int i)) = true) :
    decodeFixedBody t (encodeFixedBody t i) = i := by
  cases t with
  | int signed w =>
    cases signed with
    | true =>
      simp only [FTy.admits, Bool.and_eq_true, decide_eq_true_eq] at h
      obtain ⟨⟨h1, h2⟩, hw⟩ := h
      obtain ⟨w', rfl⟩ : ∃ w', w = w' + 1 := ⟨w - 1, by omega⟩
      obtain ⟨hr, hu⟩ := twos_range w' i h1 h2
      simp only [decodeFixedBody, encodeFixedBody, flipSign_flipSign]
      rw [beNat_beBytes _ _ (by rw [← two_pow_8]; exact hr), hu]
    | false =>
      simp only [FTy.admits, Bool.and_eq_true, decide_eq_true_eq] at h
      obtain ⟨⟨h1, h2⟩, hw⟩ := h
      simp only [decodeFixedBody, encodeFixedBody]
      rw [beNat_beBytes _ _ (by rw [← two_pow_8]; rw [int_two_pow] at h2; omega)]
      omega
  | float w =>
    simp only [FTy.admits, Bool.and_eq_true, decide_eq_true_eq] at h
    obtain ⟨⟨h1, h2⟩, hw⟩ := h
    have hbits : i.toNat < 2 ^ (8 * w) := by rw [int_two_pow] at h2; omega
    have hn : 0 < 8 * w := by omega
    have hx := floatXform_eq (8 * w) i.toNat hn hbits
    have hp : 2 ^ (8 * w) = 2 * 2 ^ (8 * w - 1) := by
      obtain ⟨k, hk⟩ : ∃ k, 8 * w = k + 1 := ⟨8 * w - 1, by omega⟩
      rw [hk, Nat.add_sub_cancel, Nat.pow_succ]; omega
    have hxl : floatXform (8 * w) (8 * w - 1) 1 i.toNat < 2 ^ (8 * w) := by rw [hx]; split <;> omega
    simp only [decodeFixedBody, encodeFixedBody, flipSign_flipSign, floatShifts_eq hw]
    rw [beNat_beBytes _ _ (by rw [← two_pow_8]; exact hxl), floatXform_invol _ _ hn hbits]
    omega
  | bool =>
    simp only [FTy.admits, decide_eq_true_eq] at h
    rcases h with rfl | rfl <;> decide
  | bin => simp [FTy.admits] at h
  | fsb n => simp [FTy.admits] at h
  | prod ws => simp [FTy.admits] at h

theorem invIf_invIf (d : Bool) (x : List UInt8) : invIf d (invIf d x) = x := by
  cases d <;> simp [invIf, inv_inv]

theorem zeros_length (n : Nat) : (zeros n).length = n := by simp [zeros]

theorem validByte_ne_null (o : SortOptions) : nullSentinel o ≠ validByte := by
  obtain ⟨d, nf⟩ := o
  cases nf <;> (show UInt8.ofNat _ ≠ validByte; decide)

/-- decode of one fixed slot followed by anything -/
theorem decodeFixedSlot (o : SortOptions) (w : Nat) (body : Option (List UInt8)) (rest : List UInt8)
    (hb : ∀ x, body = some x → x.length = w) :
    ∃ b r, encodeFixedSlot o w body ++ rest = b :: r ∧ w ≤ r.length ∧ r.drop w = rest ∧
      (b = validByte ↔ body.isSome) ∧ (∀ x, body = some x → invIf o.descending (r.take w) = x) := by
  cases body with
  | none =>
    refine ⟨nullSentinel o, zeros w ++ rest, rfl, by simp [zeros], ?_, ?_, by simp⟩
    · rw [List.drop_left' (zeros_length w)]
    · simp [validByte_ne_null]
  | some x =>
    have hx := hb x rfl
    refine ⟨validByte, invIf o.descending x ++ rest, rfl, by simp [invIf_length, hx], ?_, by simp, ?_⟩
    · rw [List.drop_left' (by rw [invIf_length, hx])]
    · intro y hy; cases hy
      rw [List.take_left' (by rw [invIf_length, hx]), invIf_invIf]


theorem decodeComps_encode : ∀ (ws : List Nat) (is : List Int), admitsComps ws is = true →
    decodeComps ws (encodeComps ws is) = is
  | [], [], _ => rfl
  | [], _ :: _, h => by simp [admitsComps] at h
  | _ :: _, [], h => by simp [admitsComps] at h
  | w :: ws, i :: is, h => by
    obtain ⟨h1, h2⟩ := admitsComps_cons.mp h
    have hl : (encodeFixedBody (.int true w) i).length = w := fixedBody_length _ i h1
    simp only [encodeComps, decodeComps]
    rw [List.take_left' hl, List.drop_left' hl, decodeFixedBody_encode _ i h1, decodeComps_encode ws is h2]

theorem decodeField_fixed (o : SortOptions) (t : FTy) (v : FVal) (rest : List UInt8) (hv : t.admits v = true)
    (h1 : t ≠ .bin) (h2 : ∀ n, t ≠ .fsb n) (h3 : ∀ ws, t ≠ .prod ws) :
    decodeField o t (encodeField o t v ++ rest) = some (v, rest) := by
  have hdec : ∀ (b : UInt8) (r : List UInt8), decodeField o t (b :: r) =
      if r.length < fixedWidth t then none else
      some (if b = validByte then some (.int (decodeFixedBody t (invIf o.descending (r.take (fixedWidth t))))) else none,
        r.drop (fixedWidth t)) := by
    intro b r
    cases t <;> first | rfl | exact absurd rfl h1 | exact absurd rfl (h2 _) | exact absurd rfl (h3 _)
  match v, hv with
  | none, _ =>
    have he : encodeField o t none = encodeFixedSlot o (fixedWidth t) none := by
      cases t <;> first | rfl | exact absurd rfl h1 | exact absurd rfl (h2 _) | exact absurd rfl (h3 _)
    obtain ⟨b, r, e, hl, hd, hb, _⟩ := decodeFixedSlot o (fixedWidth t) none rest (by simp)
    rw [he, e, hdec, if_neg (by omega), hd]
    have : b ≠ validByte := by intro h; simpa using hb.mp h
    simp [this]
  | some (.int i), hv =>
    have he : encodeField o t (some (.int i)) = encodeFixedSlot o (fixedWidth t) (some (encodeFixedBody t i)) := by
      cases t <;> first | rfl | exact absurd rfl h1 | exact absurd rfl (h2 _) | exact absurd rfl (h3 _)
    obtain ⟨b, r, e, hl, hd, hb, hx⟩ := decodeFixedSlot o (fixedWidth t) (some (encodeFixedBody t i)) rest
      (by intro x hx; cases hx; exact fixedBody_length t i hv)
    rw [he, e, hdec, if_neg (by omega), hd, hx _ rfl, decodeFixedBody_encode t i hv]
    have : b = validByte := hb.mpr rfl
    simp [this]
  | some (.bytes x), hv =>
    cases t <;> first | (simp [FTy.admits] at hv; done) | exact absurd rfl h1 | exact absurd rfl (h2 _) | exact absurd rfl (h3 _)
  | some (.ints x), hv =>
    cases t <;> first | (simp [FTy.admits] at hv; done) | exact absurd rfl h1 | exact absurd rfl (h2 _) | exact absurd rfl (h3 _)

/-- **decode ∘ encode at field level**, with anything following the field -/
theorem decodeField_encodeField (o : SortOptions) (t : FTy) (v : FVal) (rest : List UInt8) (hv : t.admits v = true) :
    decodeField o t (encodeField o t v ++ rest) = some (v, rest) := by
  cases t with
  | bin =>
    match v, hv with
    | none, _ =>
      show (match decodeVar o (encodeVar o none ++ rest) with | none => none | some (v, rest) => some (v.map Scalar.bytes, rest)) = _
      rw [decodeVar_encodeVar]; rfl
    | some (.bytes x), _ =>
      show (match decodeVar o (encodeVar o (some x) ++ rest) with | none => none | some (v, rest) => some (v.map Scalar.bytes, rest)) = _
      rw [decodeVar_encodeVar]; rfl
    | some (.int _), hv => simp [FTy.admits] at hv
    | some (.ints _), hv => simp [FTy.admits] at hv
  | fsb n =>
    have hdec : ∀ (b : UInt8) (r : List UInt8), decodeField o (.fsb n) (b :: r) =
        if r.length < n then none else
        some (if b = validByte then some (.bytes (invIf o.descending (r.take n))) else none, r.drop n) := by
      intro b r; rfl
    match v, hv with
    | none, _ =>
      obtain ⟨b, r, e, hl, hd, hb, _⟩ := decodeFixedSlot o n none rest (by simp)
      show decodeField o (.fsb n) (encodeFixedSlot o n none ++ rest) = _
      rw [e, hdec, if_neg (by omega), hd]
      have : b ≠ validByte := by intro h; simpa using hb.mp h
      simp [this]
    | some (.bytes x), hv =>
      simp only [FTy.admits, decide_eq_true_eq] at hv
      obtain ⟨b, r, e, hl, hd, hb, hx⟩ := decodeFixedSlot o n (some x) rest (by intro y hy; cases hy; exact hv)
      show decodeField o (.fsb n) (encodeFixedSlot o x.length (some x) ++ rest) = _
      rw [hv, e, hdec, if_neg (by omega), hd, hx _ rfl]
      have : b = validByte := hb.mpr rfl
      simp [this]
    | some (.int _), hv => simp [FTy.admits] at hv
    | some (.ints _), hv => simp [FTy.admits] at hv
  | prod ws =>
    have hdec : ∀ (b : UInt8) (r : List UInt8), decodeField o (.prod ws) (b :: r) =
        if r.length < ws.sum then none else
        some (if b = validByte then some (.ints (decodeComps ws (invIf o.descending (r.take ws.sum)))) else none, r.drop ws.sum) := by
      intro b r; rfl
    match v, hv with
    | none, _ =>
      obtain ⟨b, r, e, hl, hd, hb, _⟩ := decodeFixedSlot o ws.sum none rest (by simp)
      show decodeField o (.prod ws) (encodeFixedSlot o ws.sum none ++ rest) = _
      rw [e, hdec, if_neg (by omega), hd]
      have : b ≠ validByte := by intro h; simpa using hb.mp h
      simp [this]
    | some (.ints x), hv =>
      have hv' : admitsComps ws x = true := hv
      obtain ⟨b, r, e, hl, hd, hb, hx⟩ := decodeFixedSlot o ws.sum (some (encodeComps ws x)) rest
        (by intro y hy; cases hy; exact encodeComps_length ws x hv')
      show decodeField o (.prod ws) (encodeFixedSlot o ws.sum (some (encodeComps ws x)) ++ rest) = _
      rw [e, hdec, if_neg (by omega), hd, hx _ rfl, decodeComps_encode ws x hv']
      have : b = validByte := hb.mpr rfl
      simp [this]
    | some (.int _), hv => simp [FTy.admits] at hv
    | some (.bytes _), hv => simp [FTy.admits] at hv
  | int s w => exact decodeField_fixed o _ v rest hv (by simp) (by simp) (by simp)
  | float w => exact decodeField_fixed o _ v rest hv (by simp) (by simp) (by simp)
  | bool => exact decodeField_fixed o _ v rest hv (by simp) (by simp) (by simp)

theorem decodeRow_encodeRow (fs : List (FTy × SortOptions)) : ∀ (r : List FVal), rowAdmits fs r = true →
    decodeRow fs (encodeRow fs r) = some r := by
  induction fs with
  | nil => intro r h; cases r <;> simp_all [rowAdmits, encodeRow, decodeRow]
  | cons f fs ih =>
    obtain ⟨t, o⟩ := f
    intro r h
    cases r with
    | nil => simp [rowAdmits] at h
    | cons a as =>
      simp only [rowAdmits, Bool.and_eq_true] at h
      simp only [encodeRow, decodeRow]
      rw [decodeField_encodeField o t a _ h.1]
      show Option.map _ (decodeRow fs (encodeRow fs as)) = _
      rw [ih as h.2]; rfl


theorem encSched_length_full (n : Nat) : ∀ (k : Nat) (v : List UInt8), 4 ≤ k → v.length ≤ n → 1 ≤ v.length →
    (encSched k v).length = 33 * ((v.length + 31) / 32) := by
  induction n with
  | zero => intro k v _ h1 h2; omega
  | succ n ih =>
    intro k v hk hv h1
    rw [encSched.eq_1, schedSize_full hk]
    by_cases h : v.length ≤ 32
    · rw [if_pos h]; simp [zeros]; omega
    · rw [if_neg h]
      simp only [List.length_append, List.length_cons, List.length_take]
      rw [ih (k + 1) (v.drop 32) (by omega) (by simp; omega) (by simp; omega)]
      simp only [List.length_drop]; omega

theorem encSched_length_mini (j : Nat) : ∀ (k : Nat) (v : List UInt8), k + j = 4 → 1 ≤ v.length →
    (encSched k v).length =
      if v.length ≤ 8 * j then 9 * ((v.length + 7) / 8) else 9 * j + 33 * ((v.length - 8 * j + 31) / 32) := by
  induction j with
  | zero =>
    intro k v hk h1
    rw [if_neg (by omega), encSched_length_full _ k v (by omega) (Nat.le_refl _) h1]; omega
  | succ j ih =>
    intro k v hk h1
    rw [encSched.eq_1, schedSize_mini (show k < 4 by omega)]
    by_cases h : v.length ≤ 8
    · rw [if_pos h, if_pos (by omega)]; simp [zeros]; omega
    · rw [if_neg h]
      simp only [List.length_append, List.length_cons, List.length_take]
      rw [ih (k + 1) (v.drop 8) (by omega) (by simp; omega)]
      simp only [List.length_drop]
      split <;> split <;> omega

theorem encodeVar_length (o : SortOptions) (v : Option (List UInt8)) :
    (encodeVar o v).length = paddedLength (v.map List.length) := by
  cases v with
  | none => rfl
  | some v =>
    cases v with
    | nil => simp [encodeVar, paddedLength, blockSize_eq, miniBlockSize_eq]
    | cons x xs =>
      rw [encodeVar_cons, invIf_length]
      simp only [List.length_cons, Option.map_some, paddedLength, blockSize_eq, miniBlockSize_eq, miniBlockCount_eq]
      rw [encSched_length_mini 4 0 (x :: xs) rfl (by simp)]
      simp only [List.length_cons]
      split <;> omega

theorem encodeField_length (o : SortOptions) (t : FTy) (v : FVal) (hv : t.admits v = true) :
    (encodeField o t v).length = fieldLength t v := by
  cases t with
  | bin =>
    match v, hv with
    | none, _ => exact encodeVar_length o none
    | some (.bytes x), _ => exact encodeVar_length o (some x)
    | some (.int _), hv => simp [FTy.admits] at hv
    | some (.ints _), hv => simp [FTy.admits] at hv
  | fsb n =>
    match v, hv with
    | none, _ => simp [encodeField, encodeFixedSlot, fieldLength, fixedWidth, zeros]; omega
    | some (.bytes x), hv =>
      simp only [FTy.admits, decide_eq_true_eq] at hv
      simp [encodeField, encodeFixedSlot, fieldLength, fixedWidth, invIf_length, hv]; omega
    | some (.int _), hv => simp [FTy.admits] at hv
    | some (.ints _), hv => simp [FTy.admits] at hv
  | prod ws =>
    match v, hv with
    | none, _ => simp [encodeField, encodeFixedSlot, fieldLength, fixedWidth, zeros]; omega
    | some (.ints x), hv =>
      have hv' : admitsComps ws x = true := hv
      simp [encodeField, encodeFixedSlot, fieldLength, fixedWidth, invIf_length, encodeComps_length ws x hv']; omega
    | some (.int _), hv => simp [FTy.admits] at hv
    | some (.bytes _), hv => simp [FTy.admits] at hv
  | int s w =>
    match v, hv with
    | none, _ => simp [encodeField, encodeFixedSlot, fieldLength, fixedWidth, zeros]; omega
    | some (.int i), hv =>
      simp [encodeField, encodeFixedSlot, fieldLength, invIf_length, fixedBody_length _ i hv]; omega
    | some (.bytes _), hv => simp [FTy.admits] at hv
    | some (.ints _), hv => simp [FTy.admits] at hv
  | float w =>
    match v, hv with
    | none, _ => simp [encodeField, encodeFixedSlot, fieldLength, fixedWidth, zeros]; omega
    | some (.int i), hv =>
      simp [encodeField, encodeFixedSlot, fieldLength, invIf_length, fixedBody_length _ i hv]; omega
    | some (.bytes _), hv => simp [FTy.admits] at hv
    | some (.ints _), hv => simp [FTy.admits] at hv
  | bool =>
    match v, hv with
    | none, _ => simp [encodeField, encodeFixedSlot, fieldLength, fixedWidth, zeros]
    | some (.int i), hv =>
      simp [encodeField, encodeFixedSlot, fieldLength, invIf_length, fixedBody_length _ i hv]; omega
    | some (.bytes _), hv => simp [FTy.admits] at hv
    | some (.ints _), hv => simp [FTy.admits] at hv


theorem swapIf_then (d : Bool) (a b : Ordering) : swapIf d (a.then b) = (swapIf d a).then (swapIf d b) := by
  cases d <;> cases a <;> cases b <;> rfl

theorem compareVal_some (o : SortOptions) (x y : List UInt8) :
    compareVal o compareBytes (some x) (some y) = swapIf o.descending (compareBytes x y) := rfl

/-- **list step**: if every element row is non-empty, the list encoding (each element
variable-length encoded, then the empty-sentinel terminator) is strictly ordered like the
lists of element rows, lexicographically, a proper prefix first — reversed as a whole when
descending. -/
theorem listEnc_cmp (o : SortOptions) : ∀ (xs ys : List (List UInt8)), (∀ x ∈ xs, x ≠ []) → (∀ y ∈ ys, y ≠ []) →
    cmpStrict (listEnc o xs) (listEnc o ys) = some (swapIf o.descending (lexCompare compareBytes xs ys)) := by
  intro xs
  induction xs with
  | nil =>
    intro ys _ hy
    cases ys with
    | nil => rw [cmpStrict_eq_iff.mpr rfl]; cases o.descending <;> rfl
    | cons y ys =>
      have hne : y ≠ [] := hy y (by simp)
      simp only [listEnc, List.map_nil, List.flatten_nil, List.nil_append, List.map_cons, List.flatten_cons, List.append_assoc]
      rw [← List.append_nil (encodeVar o (some []))]
      rw [cmpStrict_append_of_cmpStrict _ _ (encodeVar_cmp o (some []) (some y)), compareVal_some]
      cases y with
      | nil => exact absurd rfl hne
      | cons b bs => cases o.descending <;> rfl
  | cons x xs ih =>
    intro ys hx hy
    have hxne : x ≠ [] := hx x (by simp)
    cases ys with
    | nil =>
      simp only [listEnc, List.map_nil, List.flatten_nil, List.nil_append, List.map_cons, List.flatten_cons, List.append_assoc]
      rw [← List.append_nil (encodeVar o (some []))]
      rw [cmpStrict_append_of_cmpStrict _ _ (encodeVar_cmp o (some x) (some [])), compareVal_some]
      cases x with
      | nil => exact absurd rfl hxne
      | cons b bs => cases o.descending <;> rfl
    | cons y ys =>
      have h := ih ys (fun z hz => hx z (by simp [hz])) (fun z hz => hy z (by simp [hz]))
      simp only [listEnc, List.map_cons, List.flatten_cons, List.append_assoc] at h ⊢
      rw [cmpStrict_append_of_cmpStrict _ _ (encodeVar_cmp o (some x) (some y)), compareVal_some, h]
      simp only [lexCompare, swapIf_then]
      cases swapIf o.descending (compareBytes x y) <;> rfl

/-- **struct / fixed-size-list step**: a validity byte followed by parts that are pairwise
strictly comparable is strictly ordered lexicographically by the parts -/
theorem concat_cmp : ∀ (xs ys : List (List UInt8)) (rs : List Ordering), xs.length = ys.length → rs.length = xs.length →
    (∀ i (h1 : i < xs.length) (h2 : i < ys.length) (h3 : i < rs.length), cmpStrict xs[i] ys[i] = some rs[i]) →
    cmpStrict xs.flatten ys.flatten = some (rs.foldr Ordering.then .eq) := by
  intro xs
  induction xs with
  | nil =>
    intro ys rs h1 h2 _
    cases ys with
    | nil => cases rs with
      | nil => rfl
      | cons _ _ => simp at h2
    | cons _ _ => simp at h1
  | cons x xs ih =>
    intro ys rs h1 h2 h
    cases ys with
    | nil => simp at h1
    | cons y ys =>
      cases rs with
      | nil => simp at h2
      | cons r rs =>
        have h0 := h 0 (by simp) (by simp) (by simp)
        simp only [List.getElem_cons_zero] at h0
        simp only [List.flatten_cons, List.foldr_cons]
        rw [cmpStrict_append_of_cmpStrict _ _ h0]
        rw [ih ys rs (by simpa using h1) (by simpa using h2)
          (fun i a b c => by
            have := h (i + 1) (by simp; omega) (by simp; omega) (by simp; omega)
            simp only [List.getElem_cons_succ] at this
            exact this)]
        cases r <;> rfl


theorem paddedLength_pos (l : Option Nat) : 0 < paddedLength l := by
  cases l with
  | none => decide
  | some n => simp only [paddedLength, miniBlockCount_eq]; split <;> omega

theorem fieldLength_pos (t : FTy) (v : FVal) : 0 < fieldLength t v := by
  unfold fieldLength
  split <;> first | exact paddedLength_pos _ | omega

theorem encodeField_ne_nil (o : SortOptions) (t : FTy) (v : FVal) (hv : t.admits v = true) : encodeField o t v ≠ [] := by
  intro h
  have h1 := encodeField_length o t v hv
  have h2 := fieldLength_pos t v
  rw [h] at h1
  simp at h1; omega

theorem lexCompare_map {α β} (f : α → β) (cmp : β → β → Ordering) (xs ys : List α) :
    lexCompare cmp (xs.map f) (ys.map f) = lexCompare (fun a b => cmp (f a) (f b)) xs ys := by
  induction xs generalizing ys with
  | nil => cases ys <;> rfl
  | cons x xs ih => cases ys with
    | nil => rfl
    | cons y ys => simp [lexCompare, ih]

theorem lexCompare_congr {α} (c1 c2 : α → α → Ordering) (xs ys : List α)
    (h : ∀ a ∈ xs, ∀ b ∈ ys, c1 a b = c2 a b) : lexCompare c1 xs ys = lexCompare c2 xs ys := by
  induction xs generalizing ys with
  | nil => cases ys <;> rfl
  | cons x xs ih => cases ys with
    | nil => rfl
    | cons y ys =>
      simp only [lexCompare]
      rw [h x (by simp) y (by simp), ih ys (fun a ha b hb => h a (by simp [ha]) b (by simp [hb]))]

/-- the model's list case is `listEnc` of the element rows -/
theorem encode_list_eq (o : SortOptions) (t : Ty) (vs : List Val) :
    encode o (.list t) (.list vs) = listEnc o (vs.map (encode (childOpts o) t)) := by
  cases vs with
  | nil => simp [encode, listEnc]
  | cons v vs => simp [encode, listEnc, List.map_map, Function.comp_def]

theorem encodeVar_ne_nil (o : SortOptions) (v : Option (List UInt8)) : encodeVar o v ≠ [] := by
  intro h
  have h1 := encodeVar_length o v
  have h2 := paddedLength_pos (v.map List.length)
  rw [h] at h1; simp at h1; omega

theorem listEnc_ne_nil (o : SortOptions) (xs : List (List UInt8)) : listEnc o xs ≠ [] := by
  unfold listEnc
  intro h
  have := (List.append_eq_nil_iff.mp h).2
  exact encodeVar_ne_nil o _ this

theorem invIf_ne_nil (d : Bool) (x : List UInt8) (h : x ≠ []) : invIf d x ≠ [] := by
  intro h'
  have := invIf_length d x
  rw [h'] at this
  exact h (List.length_eq_zero_iff.mp this.symm)

/-- a conforming value never has an empty encoding -/
theorem encode_ne_nil : (t : Ty) → (o : SortOptions) → (a : Val) → conforms t a = true → encode o t a ≠ []
  | .leaf t, o, a, h => by
    simp only [conforms] at h
    simp only [encode]
    cases hv : a.toFVal with
    | none => rw [hv] at h; simp at h
    | some fv => rw [hv] at h; exact encodeField_ne_nil o t fv h
  | .null, o, a, _ => by
    simp only [encode]; exact invIf_ne_nil _ _ (by simp)
  | .struct fs, o, a, _ => by cases a <;> simp [encode]
  | .list t, o, a, h => by
    cases a with
    | list vs => rw [encode_list_eq]; exact listEnc_ne_nil o _
    | null => simp only [encode]; exact encodeVar_ne_nil o none
    | int _ => simp [conforms] at h
    | bytes _ => simp [conforms] at h
    | ints _ => simp [conforms] at h
    | tuple _ => simp [conforms] at h
    | union _ _ => simp [conforms] at h
  | .fsl n t, o, a, _ => by cases a <;> simp [encode]
  | .dict t, o, a, h => by
    simp only [conforms] at h
    simp only [encode]; exact encode_ne_nil t o a h
  | .ree t, o, a, _ => by simp only [encode]; exact encodeVar_ne_nil o _
  | .map k v, o, a, h => by
    cases a with
    | list es =>
      cases es with
      | nil => simp only [encode]; exact encodeVar_ne_nil o _
      | cons e es =>
        simp only [encode]
        intro h'
        exact encodeVar_ne_nil o _ (List.append_eq_nil_iff.mp h').2
    | null => simp only [encode]; exact encodeVar_ne_nil o none
    | int _ => simp [conforms] at h
    | bytes _ => simp [conforms] at h
    | ints _ => simp [conforms] at h
    | tuple _ => simp [conforms] at h
    | union _ _ => simp [conforms] at h
  | .union ids kids, o, a, _ => by
    cases a <;> simp only [encode] <;> exact invIf_ne_nil _ _ (by simp)


theorem then_some (r : Ordering) (X : Ordering) :
    (if r = .eq then some X else some r) = some (r.then X) := by cases r <;> rfl

theorem flatten_map_cmp {α} (f : α → List UInt8) (c : α → α → Ordering) : ∀ (xs ys : List α), xs.length = ys.length →
    (∀ x ∈ xs, ∀ y ∈ ys, cmpStrict (f x) (f y) = some (c x y)) →
    cmpStrict (xs.map f).flatten (ys.map f).flatten = some (lexCompare c xs ys) := by
  intro xs
  induction xs with
  | nil => intro ys h _; cases ys with
    | nil => rfl
    | cons _ _ => simp at h
  | cons x xs ih =>
    intro ys h hc
    cases ys with
    | nil => simp at h
    | cons y ys =>
      simp only [List.map_cons, List.flatten_cons, lexCompare]
      rw [cmpStrict_append_of_cmpStrict _ _ (hc x (by simp) y (by simp)),
        ih ys (by simpa using h) (fun a ha b hb => hc a (by simp [ha]) b (by simp [hb])), then_some]

theorem nullHead_lt (o : SortOptions) (X Y : List UInt8) (v : UInt8) (hv : v = 1) :
    cmpStrict (nullSentinel o :: X) (v :: Y) = some (nullOrd o true false) := by
  subst hv
  obtain ⟨d, nf⟩ := o
  cases nf
  · exact cmpStrict_cons_gt _ _ (by show (1 : UInt8) < UInt8.ofNat _; decide)
  · exact cmpStrict_cons_lt _ _ (by show UInt8.ofNat _ < (1 : UInt8); decide)

theorem nullHead_gt (o : SortOptions) (X Y : List UInt8) (v : UInt8) (hv : v = 1) :
    cmpStrict (v :: Y) (nullSentinel o :: X) = some (nullOrd o false true) := by
  subst hv
  obtain ⟨d, nf⟩ := o
  cases nf
  · exact cmpStrict_cons_lt _ _ (by show (1 : UInt8) < UInt8.ofNat _; decide)
  · exact cmpStrict_cons_gt _ _ (by show UInt8.ofNat _ < (1 : UInt8); decide)

theorem listEnc_head (o : SortOptions) (xs : List (List UInt8)) :
    ∃ z R, listEnc o xs = encodeVar o (some z) ++ R := by
  cases xs with
  | nil => exact ⟨[], [], by simp [listEnc]⟩
  | cons x xs => exact ⟨x, _, by simp only [listEnc, List.map_cons, List.flatten_cons, List.append_assoc]; rfl⟩

theorem listNull_lt (o : SortOptions) (xs : List (List UInt8)) :
    cmpStrict (encodeVar o none) (listEnc o xs) = some (nullOrd o true false) := by
  obtain ⟨z, R, h⟩ := listEnc_head o xs
  rw [h, ← List.append_nil (encodeVar o none), cmpStrict_append_of_cmpStrict _ _ (encodeVar_cmp o none (some z))]
  obtain ⟨d, nf⟩ := o
  cases nf <;> simp [compareVal, nullOrd]

theorem listNull_gt (o : SortOptions) (xs : List (List UInt8)) :
    cmpStrict (listEnc o xs) (encodeVar o none) = some (nullOrd o false true) := by
  obtain ⟨z, R, h⟩ := listEnc_head o xs
  rw [h, ← List.append_nil (encodeVar o none), cmpStrict_append_of_cmpStrict _ _ (encodeVar_cmp o (some z) none)]
  obtain ⟨d, nf⟩ := o
  cases nf <;> simp [compareVal, nullOrd]


theorem conforms_struct {fs : List Ty} {a : Val} (h : conforms (.struct fs) a = true) :
    a = .null ∨ ∃ vs, a = .tuple vs ∧ conformsAll fs vs = true := by
  cases a <;> simp [conforms] at h ⊢
  exact h

theorem conforms_list {t : Ty} {a : Val} (h : conforms (.list t) a = true) :
    a = .null ∨ ∃ vs, a = .list vs ∧ ∀ v ∈ vs, conforms t v = true := by
  cases a <;> simp [conforms] at h ⊢
  exact h

theorem conforms_fsl {n : Nat} {t : Ty} {a : Val} (h : conforms (.fsl n t) a = true) :
    a = .null ∨ ∃ vs, a = .list vs ∧ vs.length = n ∧ ∀ v ∈ vs, conforms t v = true := by
  cases a <;> simp [conforms] at h ⊢
  exact h

theorem structValid_eq : UInt8.ofNat Generated.C11.STRUCT_VALID_BYTE = 1 := by decide
theorem fslValid_eq : UInt8.ofNat Generated.C11.FSL_VALID_BYTE = 1 := by decide

/-- the row of one map entry: key row then value row, under the child options -/
def entryEnc (o : SortOptions) (k v : Ty) (e : Val) : List UInt8 :=
  match e with
  | .tuple [a, b] => encode (childOpts o) k a ++ encode (childOpts o) v b
  | _ => []

theorem encode_map_eq (o : SortOptions) (k v : Ty) (es : List Val) :
    encode o (.map k v) (.list es) = listEnc o (es.map (entryEnc o k v)) := by
  cases es with
  | nil => simp [encode, listEnc]
  | cons e es =>
    simp only [encode, listEnc, List.map_map, Function.comp_def, entryEnc, List.map_cons, List.flatten_cons, List.append_assoc]
    rfl

theorem conforms_map {k v : Ty} {a : Val} (h : conforms (.map k v) a = true) :
    a = .null ∨ ∃ es, a = .list es ∧ ∀ e ∈ es, ∃ x y, e = .tuple [x, y] ∧ conforms k x = true ∧ conforms v y = true := by
  cases a <;> simp [conforms] at h ⊢
  rename_i es
  intro e he
  have := h e he
  split at this
  · rename_i x y
    simp only [Bool.and_eq_true] at this
    exact ⟨x, y, rfl, this.1, this.2⟩
  · simp at this

theorem getD_mem (l : List Nat) (j : Nat) (h : j < l.length) : l.getD j 0 ∈ l := by
  induction l generalizing j with
  | nil => simp at h
  | cons a as ih =>
    cases j with
    | zero => simp
    | succ j => simp only [List.getD_cons_succ]; exact List.mem_cons_of_mem _ (ih j (by simpa using h))

theorem idsDistinct_getD (l : List Nat) : ∀ (i j : Nat), idsDistinct l = true → i < l.length → j < l.length →
    l.getD i 0 = l.getD j 0 → i = j := by
  induction l with
  | nil => intro i j _ hi; simp at hi
  | cons a as ih =>
    intro i j hd hi hj e
    simp only [idsDistinct, Bool.and_eq_true, Bool.not_eq_true', List.contains_eq_mem, decide_eq_false_iff_not] at hd
    cases i with
    | zero =>
      cases j with
      | zero => rfl
      | succ j =>
        simp only [List.getD_cons_zero, List.getD_cons_succ] at e
        exact absurd (e ▸ getD_mem as j (by simpa using hj)) hd.1
    | succ i =>
      cases j with
      | zero =>
        simp only [List.getD_cons_zero, List.getD_cons_succ] at e
        exact absurd (e ▸ getD_mem as i (by simpa using hi)) hd.1
      | succ j =>
        simp only [List.getD_cons_succ] at e
        rw [ih i j hd.2 (by simpa using hi) (by simpa using hj) e]

theorem conformsNth_lt : ∀ (ts : List Ty) (i : Nat) (v : Val), conformsNth ts i v = true → i < ts.length
  | [], _, _, h => by simp [conformsNth] at h
  | _ :: _, 0, _, _ => by simp
  | _ :: ts, i + 1, v, h => by
    simp only [conformsNth] at h
    have := conformsNth_lt ts i v h
    simp; omega

theorem conforms_union {ids : List Nat} {kids : List Ty} {a : Val} (h : conforms (.union ids kids) a = true) :
    ∃ i x, a = .union i x ∧ conformsNth kids i x = true := by
  cases a <;> simp [conforms] at h ⊢
  exact ⟨_, _, ⟨rfl, rfl⟩, h⟩

theorem swapIf_true (r : Ordering) : swapIf true r = r.swap := rfl
theorem swapIf_false (r : Ordering) : swapIf false r = r := rfl

theorem compareNat_self (a : Nat) : compareNat a a = .eq := by simp [compareNat]

mutual
/-- **nested order theorem** (no Map / Union): strict byte order of the model's encoding =
the logical order `cmpN`, for every nesting depth -/
theorem encode_cmpN : (t : Ty) → (o : SortOptions) → (a b : Val) → wfTy t = true →
    conforms t a = true → conforms t b = true →
    cmpStrict (encode o t a) (encode o t b) = some (cmpN t o a b)
  | .leaf t, o, a, b, _, ha, hb => by
    simp only [conforms] at ha hb
    simp only [encode, cmpN]
    cases hva : a.toFVal with
    | none => rw [hva] at ha; simp at ha
    | some x =>
      cases hvb : b.toFVal with
      | none => rw [hvb] at hb; simp at hb
      | some y => rw [hva] at ha; rw [hvb] at hb; exact encodeField_cmp o t x y ha hb
  | .null, o, a, b, _, _, _ => by
    simp only [encode, cmpN]; exact cmpStrict_eq_iff.mpr rfl
  | .struct fs, o, a, b, hu, ha, hb => by
    simp only [wfTy] at hu
    rcases conforms_struct ha with rfl | ⟨xs, rfl, hx⟩ <;> rcases conforms_struct hb with rfl | ⟨ys, rfl, hy⟩
    · simp only [encode, cmpN]; exact cmpStrict_eq_iff.mpr rfl
    · simp only [encode, cmpN]; exact nullHead_lt o _ _ _ structValid_eq
    · simp only [encode, cmpN]; exact nullHead_gt o _ _ _ structValid_eq
    · simp only [encode, cmpN, cmpStrict_cons_same]
      exact encodeFields_cmpN fs o xs ys hu hx hy
  | .list t, o, a, b, hu, ha, hb => by
    simp only [wfTy] at hu
    rcases conforms_list ha with rfl | ⟨xs, rfl, hx⟩ <;> rcases conforms_list hb with rfl | ⟨ys, rfl, hy⟩
    · simp only [encode, cmpN]; exact cmpStrict_eq_iff.mpr rfl
    · rw [encode_list_eq]; simp only [encode, cmpN]; exact listNull_lt o _
    · rw [encode_list_eq]; simp only [encode, cmpN]; exact listNull_gt o _
    · rw [encode_list_eq, encode_list_eq]
      simp only [cmpN]
      rw [listEnc_cmp o _ _
        (by intro x hx'; obtain ⟨v, hv, rfl⟩ := List.mem_map.mp hx'; exact encode_ne_nil t _ v (hx v hv))
        (by intro x hx'; obtain ⟨v, hv, rfl⟩ := List.mem_map.mp hx'; exact encode_ne_nil t _ v (hy v hv)),
        lexCompare_map]
      congr 2
      exact lexCompare_congr _ _ xs ys (fun a ha b hb =>
        compareBytes_of_cmpStrict (encode_cmpN t (childOpts o) a b hu (hx a ha) (hy b hb)))
  | .fsl n t, o, a, b, hu, ha, hb => by
    simp only [wfTy] at hu
    rcases conforms_fsl ha with rfl | ⟨xs, rfl, hxl, hx⟩ <;> rcases conforms_fsl hb with rfl | ⟨ys, rfl, hyl, hy⟩
    · simp only [encode, cmpN]; exact cmpStrict_eq_iff.mpr rfl
    · simp only [encode, cmpN]; exact nullHead_lt o _ _ _ fslValid_eq
    · simp only [encode, cmpN]; exact nullHead_gt o _ _ _ fslValid_eq
    · simp only [encode, cmpN, cmpStrict_cons_same]
      exact flatten_map_cmp (fun v => encode o t v) (cmpN t o) xs ys (by omega)
        (fun a ha b hb => encode_cmpN t o a b hu (hx a ha) (hy b hb))
  | .dict t, o, a, b, hu, ha, hb => by
    simp only [wfTy] at hu
    simp only [conforms] at ha hb
    simp only [encode, cmpN]
    exact encode_cmpN t o a b hu ha hb
  | .ree t, o, a, b, hu, ha, hb => by
    simp only [wfTy] at hu
    simp only [conforms] at ha hb
    simp only [encode, cmpN]
    rw [encodeVar_cmp, compareVal_some, compareBytes_of_cmpStrict (encode_cmpN t (childOpts o) a b hu ha hb)]
  | .map k v, o, a, b, hu, ha, hb => by
    simp only [wfTy, Bool.and_eq_true] at hu
    rcases conforms_map ha with rfl | ⟨xs, rfl, hx⟩ <;> rcases conforms_map hb with rfl | ⟨ys, rfl, hy⟩
    · simp only [encode, cmpN]; exact cmpStrict_eq_iff.mpr rfl
    · rw [encode_map_eq]; simp only [encode, cmpN]; exact listNull_lt o _
    · rw [encode_map_eq]; simp only [encode, cmpN]; exact listNull_gt o _
    · rw [encode_map_eq, encode_map_eq]
      simp only [cmpN]
      rw [listEnc_cmp o _ _
        (by
          intro x hx'
          obtain ⟨e, he, rfl⟩ := List.mem_map.mp hx'
          obtain ⟨p, q, rfl, hp, _⟩ := hx e he
          intro h'
          exact encode_ne_nil k _ p hp (List.append_eq_nil_iff.mp h').1)
        (by
          intro x hx'
          obtain ⟨e, he, rfl⟩ := List.mem_map.mp hx'
          obtain ⟨p, q, rfl, hp, _⟩ := hy e he
          intro h'
          exact encode_ne_nil k _ p hp (List.append_eq_nil_iff.mp h').1),
        lexCompare_map]
      congr 2
      exact lexCompare_congr _ _ xs ys (fun x hx' y hy' => by
        obtain ⟨p, q, rfl, hp, hq⟩ := hx x hx'
        obtain ⟨p', q', rfl, hp', hq'⟩ := hy y hy'
        simp only [entryEnc]
        rw [compareBytes_append_of_cmpStrict _ _ (encode_cmpN k (childOpts o) p p' hu.1 hp hp'),
          compareBytes_of_cmpStrict (encode_cmpN v (childOpts o) q q' hu.2 hq hq')])
  | .union ids kids, o, a, b, hu, ha, hb => by
    simp only [wfTy, Bool.and_eq_true, decide_eq_true_eq, List.all_eq_true] at hu
    obtain ⟨⟨⟨hlen, hlt⟩, hnd⟩, hk⟩ := hu
    obtain ⟨i, x, rfl, hx⟩ := conforms_union ha
    obtain ⟨j, y, rfl, hy⟩ := conforms_union hb
    have hi := conformsNth_lt kids i x hx
    have hj := conformsNth_lt kids j y hy
    have hia : ids.getD i 0 < 128 := hlt _ (getD_mem ids i (by omega))
    have hja : ids.getD j 0 < 128 := hlt _ (getD_mem ids j (by omega))
    have key : cmpStrict (UInt8.ofNat (ids.getD i 0) :: encodeNth (childOpts o) kids i x)
        (UInt8.ofNat (ids.getD j 0) :: encodeNth (childOpts o) kids j y)
        = some ((compareNat (ids.getD i 0) (ids.getD j 0)).then
            (if i = j then cmpNth kids (childOpts o) i x y else .eq)) := by
      by_cases h1 : ids.getD i 0 < ids.getD j 0
      · rw [cmpStrict_cons_lt _ _ (u8_ofNat_lt (by omega) h1)]
        simp only [compareNat, if_pos h1]; rfl
      · by_cases h2 : ids.getD j 0 < ids.getD i 0
        · rw [cmpStrict_cons_gt _ _ (u8_ofNat_lt (by omega) h2)]
          simp only [compareNat, if_neg h1, if_pos h2]; rfl
        · have he : ids.getD i 0 = ids.getD j 0 := by omega
          have hij : i = j := idsDistinct_getD ids i j hnd (by omega) (by omega) he
          subst hij
          rw [cmpStrict_cons_same, encodeNth_cmpN kids (childOpts o) i x y hk hx hy, compareNat_self]
          simp
    simp only [encode, cmpN]
    cases hd : o.descending
    · simpa [invIf, swapIf] using key
    · have := cmpStrict_inv key
      simpa [invIf, swapIf, inv] using this
theorem encodeNth_cmpN : (ts : List Ty) → (o : SortOptions) → (i : Nat) → (x y : Val) → wfTyAll ts = true →
    conformsNth ts i x = true → conformsNth ts i y = true →
    cmpStrict (encodeNth o ts i x) (encodeNth o ts i y) = some (cmpNth ts o i x y)
  | [], _, _, _, _, _, hx, _ => by simp [conformsNth] at hx
  | t :: _, o, 0, x, y, hu, hx, hy => by
    simp only [wfTyAll, Bool.and_eq_true] at hu
    simp only [conformsNth] at hx hy
    simp only [encodeNth, cmpNth]
    exact encode_cmpN t o x y hu.1 hx hy
  | _ :: ts, o, i + 1, x, y, hu, hx, hy => by
    simp only [wfTyAll, Bool.and_eq_true] at hu
    simp only [conformsNth] at hx hy
    simp only [encodeNth, cmpNth]
    exact encodeNth_cmpN ts o i x y hu.2 hx hy
theorem encodeFields_cmpN : (ts : List Ty) → (o : SortOptions) → (xs ys : List Val) → wfTyAll ts = true →
    conformsAll ts xs = true → conformsAll ts ys = true →
    cmpStrict (encodeFields o ts xs) (encodeFields o ts ys) = some (cmpFieldsN ts o xs ys)
  | [], o, xs, ys, _, hx, hy => by
    cases xs <;> cases ys <;> simp_all [conformsAll, encodeFields, cmpFieldsN, cmpStrict]
  | t :: ts, o, xs, ys, hu, hx, hy => by
    cases xs with
    | nil => simp [conformsAll] at hx
    | cons x xs =>
      cases ys with
      | nil => simp [conformsAll] at hy
      | cons y ys =>
        simp only [wfTyAll, conformsAll, Bool.and_eq_true] at hu hx hy
        simp only [encodeFields, cmpFieldsN]
        rw [cmpStrict_append_of_cmpStrict _ _ (encode_cmpN t o x y hu.1 hx.1 hy.1),
          encodeFields_cmpN ts o xs ys hu.2 hx.2 hy.2, then_some]
end


theorem encodeRowN_cmp (fs : List (Ty × SortOptions)) : ∀ (r1 r2 : List Val),
    (∀ f ∈ fs, wfTy f.1 = true) → conformsRow fs r1 = true → conformsRow fs r2 = true →
    cmpStrict (encodeRowN fs r1) (encodeRowN fs r2) = some (cmpRowN fs r1 r2) := by
  induction fs with
  | nil =>
    intro r1 r2 _ h1 h2
    cases r1 <;> cases r2 <;> simp_all [conformsRow, encodeRowN, cmpRowN, cmpStrict]
  | cons f fs ih =>
    obtain ⟨t, o⟩ := f
    intro r1 r2 hu h1 h2
    cases r1 with
    | nil => simp [conformsRow] at h1
    | cons a as =>
      cases r2 with
      | nil => simp [conformsRow] at h2
      | cons b bs =>
        simp only [conformsRow, Bool.and_eq_true] at h1 h2
        simp only [encodeRowN, cmpRowN]
        rw [cmpStrict_append_of_cmpStrict _ _ (encode_cmpN t o a b (hu (t, o) (by simp)) h1.1 h2.1),
          ih as bs (fun f hf => hu f (by simp [hf])) h1.2 h2.2, then_some]
theorem offsetsFrom_cons (s : Nat) (rs : List (List UInt8)) : ∃ tl, offsetsFrom s rs = s :: tl := by
  cases rs <;> exact ⟨_, rfl⟩

theorem fromBinary_offsets (rows : List (List UInt8)) : ∀ (pre : List UInt8),
    fromBinary (offsetsFrom pre.length rows) (pre ++ rows.flatten) = rows := by
  induction rows with
  | nil => intro pre; rfl
  | cons r rs ih =>
    intro pre
    obtain ⟨tl, htl⟩ := offsetsFrom_cons (pre.length + r.length) rs
    have h := ih (pre ++ r)
    simp only [List.length_append] at h
    simp only [offsetsFrom, List.flatten_cons]
    rw [htl] at h ⊢
    simp only [fromBinary]
    rw [← List.append_assoc] at *
    rw [h]
    congr 1
    rw [List.append_assoc, List.drop_left' rfl, Nat.add_sub_cancel_left, List.take_left' rfl]

end ArrowModel.C11
