import ArrowModel.C17.Model
import ArrowModel.C17.Spec
import Std.Tactic.BVDecide
/-
C17 — helper lemmas for the Avro part: the writer's varint loop produces the ULEB128 digits,
each of the reader's three varint decoders (`read_varint_slow`, `read_varint_array`,
`VLQDecoder::long`) reads those digits back, zig-zag inverts, and the structural
round-trip induction over schema-typed value trees.
`bv_decide` is used for the 64/32-bit zig-zag identities (axioms `*._native.bv_decide.ax_*`).
-/
namespace ArrowModel.C17.Avro
open ArrowModel.Generated.C17
open ArrowModel.C17

theorem loopCond_iff (zz : BitVec 64) : (zz &&& ~~~(127#64) ≠ 0#64) ↔ 128 ≤ zz.toNat := by
  have h : (zz &&& ~~~(127#64) ≠ 0#64) ↔ (128#64 ≤ zz) := by
    constructor
    · intro h; bv_decide (config := { timeout := 300 })
    · intro h; bv_decide (config := { timeout := 300 })
  rw [h, BitVec.le_def]; rfl

theorem and127 (zz : BitVec 64) : (zz &&& 127#64).toNat = zz.toNat % 128 := by
  rw [BitVec.toNat_and]
  exact Nat.and_two_pow_sub_one_eq_mod zz.toNat 7

theorem varintEnc_eq_uleb (zz : BitVec 64) : varintEnc zz = Spec.uleb zz.toNat := by
  induction h : zz.toNat using Nat.strongRecOn generalizing zz with
  | _ n ih =>
    subst h
    rw [varintEnc, Spec.uleb]
    have hc := loopCond_iff zz
    have ha := and127 zz
    have hm : BitVec.ofNat 64 W_LOOP_MASK = 127#64 := rfl
    have hp : BitVec.ofNat 64 W_PAYLOAD_MASK = 127#64 := rfl
    have hl : BitVec.ofNat 64 W_LAST_MASK = 127#64 := rfl
    rw [hm, hp, hl, ha]
    split
    · rename_i hcond
      have h128 := hc.1 hcond
      have : ¬ zz.toNat < 128 := by omega
      rw [if_neg this]
      have hb : zz.toNat % 128 % 256 ||| W_CONT_BIT = zz.toNat % 128 + 128 := by
        have h2 := Nat.two_pow_add_eq_or_of_lt (i := 7) (b := zz.toNat % 128) (by omega) 1
        simp only [Nat.mul_one] at h2
        rw [Nat.mod_eq_of_lt (by omega), Nat.or_comm]
        show _ = _
        rw [show W_CONT_BIT = 2 ^ 7 from rfl, ← h2]; omega
      rw [hb]
      congr 1
      have hs : (zz >>> W_SHIFT).toNat = zz.toNat / 128 := by
        rw [BitVec.toNat_ushiftRight, Nat.shiftRight_eq_div_pow]; rfl
      rw [ih (zz >>> W_SHIFT).toNat (by rw [hs]; omega) (zz >>> W_SHIFT) rfl, hs]
    · rename_i hcond
      have h1 : zz.toNat < 128 := by
        by_cases h : 128 ≤ zz.toNat
        · exact absurd (hc.2 h) hcond
        · omega
      rw [if_pos h1]
      congr 1; omega

theorem uleb_length_pos (z : Nat) : 0 < (Spec.uleb z).length := by
  rw [Spec.uleb]; split <;> simp

theorem and127_nat (x : Nat) : x &&& 127 = x % 128 := Nat.and_two_pow_sub_one_eq_mod x 7

theorem or_shift (v x c : Nat) (hv : v < 2 ^ c) : v ||| (x <<< c) = v + x * 2 ^ c := by
  rw [Nat.or_comm, ← Nat.shiftLeft_add_eq_or_of_lt hv, Nat.shiftLeft_eq]; omega

theorem slowLoop_cons (f count value byte : Nat) (rest : List Nat) :
    slowLoop (f + 1) count value (byte :: rest) =
      if byte ≤ 127 then
        (if count ≠ 9 ∨ byte < 2 then some (value ||| (((byte &&& 127) <<< (count * 7)) % 2 ^ 64), count + 1) else none)
      else slowLoop f (count + 1) (value ||| (((byte &&& 127) <<< (count * 7)) % 2 ^ 64)) rest := rfl

/-- slow path on the ULEB128 digits of `z` starting at digit `c` with accumulated `v` -/
theorem slowLoop_uleb (z : Nat) : ∀ (c v : Nat) (rest : List Nat), c ≤ 9 → v < 2 ^ (c * 7) →
    z * 2 ^ (c * 7) < 2 ^ 64 →
    slowLoop (10 - c) c v (Spec.uleb z ++ rest) = some (v + z * 2 ^ (c * 7), c + (Spec.uleb z).length) := by
  induction z using Nat.strongRecOn with
  | _ z ih =>
    intro c v rest hc hv hz
    rw [Spec.uleb]
    have hP : 0 < 2 ^ (c * 7) := Nat.pow_pos (by decide)
    obtain ⟨f, hf⟩ : ∃ f, 10 - c = f + 1 := ⟨9 - c, by omega⟩
    split
    · rename_i hlt
      rw [hf]
      simp only [List.cons_append, List.nil_append, slowLoop_cons, List.length_cons, List.length_nil]
      have h1 : z ≤ 127 := by omega
      rw [if_pos h1, and127_nat, Nat.mod_eq_of_lt hlt]
      have hsh : (z <<< (c * 7)) % 2 ^ 64 = z <<< (c * 7) := by
        rw [Nat.shiftLeft_eq]; exact Nat.mod_eq_of_lt hz
      rw [hsh, or_shift v z (c * 7) hv]
      have : c ≠ 9 ∨ z < 2 := by
        by_cases h9 : c = 9
        · subst h9; right
          have : z * 2 ^ 63 < 2 * 2 ^ 63 := by simpa using hz
          exact Nat.lt_of_mul_lt_mul_right this
        · left; exact h9
      rw [if_pos this]
    · rename_i hge
      rw [hf]
      simp only [List.cons_append, slowLoop_cons, List.length_cons]
      have h1 : ¬ (z % 128 + 128 ≤ 127) := by omega
      rw [if_neg h1, and127_nat]
      have hm : (z % 128 + 128) % 128 = z % 128 := by omega
      rw [hm]
      -- c ≤ 8 because z ≥ 128
      have hc8 : c ≤ 8 := by
        by_cases h9 : c = 9
        · subst h9
          have : 128 * 2 ^ 63 ≤ z * 2 ^ 63 := Nat.mul_le_mul_right _ (by omega)
          have h2 : (128 : Nat) * 2 ^ 63 ≥ 2 ^ 64 := by decide
          omega
        · omega
      have hpow : 2 ^ ((c + 1) * 7) = 2 ^ (c * 7) * 128 := by
        rw [Nat.add_mul, Nat.pow_add]
      have hlow : (z % 128) * 2 ^ (c * 7) < 2 ^ 64 :=
        Nat.lt_of_le_of_lt (Nat.mul_le_mul_right _ (Nat.mod_le _ _)) hz
      have hsh : ((z % 128) <<< (c * 7)) % 2 ^ 64 = (z % 128) <<< (c * 7) := by
        rw [Nat.shiftLeft_eq]; exact Nat.mod_eq_of_lt hlow
      rw [hsh, or_shift v _ (c * 7) hv]
      have hf' : f = 10 - (c + 1) := by omega
      rw [hf']
      have hdecomp : z = z % 128 + 128 * (z / 128) := (Nat.mod_add_div z 128).symm
      have hv' : v + z % 128 * 2 ^ (c * 7) < 2 ^ ((c + 1) * 7) := by
        rw [hpow]
        have : z % 128 * 2 ^ (c * 7) ≤ 127 * 2 ^ (c * 7) := Nat.mul_le_mul_right _ (by omega)
        omega
      have hz' : z / 128 * 2 ^ ((c + 1) * 7) < 2 ^ 64 := by
        rw [hpow]
        have : z / 128 * (2 ^ (c * 7) * 128) = (128 * (z / 128)) * 2 ^ (c * 7) := by
          rw [Nat.mul_comm (2 ^ (c * 7)) 128, ← Nat.mul_assoc, Nat.mul_comm (z / 128) 128]
        rw [this]
        exact Nat.lt_of_le_of_lt (Nat.mul_le_mul_right _ (by omega)) hz
      rw [ih (z / 128) (by omega) (c + 1) _ rest (by omega) hv' hz']
      congr 1
      rw [hpow]
      congr 1
      · have : z / 128 * (2 ^ (c * 7) * 128) = (128 * (z / 128)) * 2 ^ (c * 7) := by
          rw [Nat.mul_comm (2 ^ (c * 7)) 128, ← Nat.mul_assoc, Nat.mul_comm (z / 128) 128]
        rw [this, Nat.add_assoc, ← Nat.add_mul, ← hdecomp]
      · omega

theorem arrayLoop_succ (n idx ip b : Nat) (rest : List Nat) :
    arrayLoop (n + 1) idx ip (b :: rest) =
      if b < 128 then some (ip + (b <<< (7 * idx)), idx + 1)
      else arrayLoop n (idx + 1) (ip + (b <<< (7 * idx)) - (128 <<< (7 * idx))) rest := rfl

theorem arrayLoop_zero (idx ip b : Nat) (rest : List Nat) :
    arrayLoop 0 idx ip (b :: rest) =
      if b < 2 then some ((ip + (b <<< (7 * 9)) % 2 ^ 64) % 2 ^ 64, 10) else none := rfl

theorem arrayLoop_uleb (z : Nat) : ∀ (idx ip : Nat) (rest : List Nat), idx ≤ 9 → ip < 2 ^ (7 * idx) →
    z * 2 ^ (7 * idx) < 2 ^ 64 →
    arrayLoop (9 - idx) idx ip (Spec.uleb z ++ rest) = some (ip + z * 2 ^ (7 * idx), idx + (Spec.uleb z).length) := by
  induction z using Nat.strongRecOn with
  | _ z ih =>
    intro idx ip rest hc hv hz
    have hP : 0 < 2 ^ (7 * idx) := Nat.pow_pos (by decide)
    by_cases h9 : idx = 9
    · subst h9
      have hz2 : z < 2 := by
        have : z * 2 ^ 63 < 2 * 2 ^ 63 := by simpa using hz
        exact Nat.lt_of_mul_lt_mul_right this
      rw [Spec.uleb, if_pos (by omega)]
      simp only [Nat.sub_self, List.cons_append, List.nil_append, arrayLoop_zero, List.length_cons, List.length_nil]
      rw [if_pos hz2, Nat.shiftLeft_eq]
      simp only [Nat.reduceMul, Nat.reducePow] at hv ⊢
      clear hz hP ih
      have : z = 0 ∨ z = 1 := by omega
      rcases this with rfl | rfl
      · have h : ip % 18446744073709551616 = ip := Nat.mod_eq_of_lt (by omega)
        simp only [Nat.zero_mul, Nat.zero_mod, Nat.add_zero, Nat.reduceAdd, h]
      · have h : (ip + 9223372036854775808) % 18446744073709551616 = ip + 9223372036854775808 :=
          Nat.mod_eq_of_lt (by omega)
        simp only [Nat.one_mul, Nat.reduceMod, Nat.reduceAdd, h]
    · obtain ⟨n, hn⟩ : ∃ n, 9 - idx = n + 1 := ⟨8 - idx, by omega⟩
      rw [hn, Spec.uleb]
      split
      · rename_i hlt
        simp only [List.cons_append, List.nil_append, arrayLoop_succ, List.length_cons, List.length_nil]
        rw [if_pos hlt, Nat.shiftLeft_eq]
      · rename_i hge
        simp only [List.cons_append, arrayLoop_succ, List.length_cons]
        have h1 : ¬ (z % 128 + 128 < 128) := by omega
        rw [if_neg h1, Nat.shiftLeft_eq, Nat.shiftLeft_eq]
        have hpow : 2 ^ (7 * (idx + 1)) = 2 ^ (7 * idx) * 128 := by
          rw [Nat.mul_add, Nat.pow_add]
        have hc8 : idx ≤ 8 := by omega
        have hn' : n = 9 - (idx + 1) := by omega
        have hsub : ip + (z % 128 + 128) * 2 ^ (7 * idx) - 128 * 2 ^ (7 * idx) = ip + (z % 128) * 2 ^ (7 * idx) := by
          rw [Nat.add_mul]; omega
        rw [hsub, hn']
        have hdecomp : z = z % 128 + 128 * (z / 128) := (Nat.mod_add_div z 128).symm
        have hcomm : z / 128 * (2 ^ (7 * idx) * 128) = (128 * (z / 128)) * 2 ^ (7 * idx) := by
          rw [Nat.mul_comm (2 ^ (7 * idx)) 128, ← Nat.mul_assoc, Nat.mul_comm (z / 128) 128]
        have hv' : ip + z % 128 * 2 ^ (7 * idx) < 2 ^ (7 * (idx + 1)) := by
          rw [hpow]
          have : z % 128 * 2 ^ (7 * idx) ≤ 127 * 2 ^ (7 * idx) := Nat.mul_le_mul_right _ (by omega)
          omega
        have hz' : z / 128 * 2 ^ (7 * (idx + 1)) < 2 ^ 64 := by
          rw [hpow, hcomm]
          exact Nat.lt_of_le_of_lt (Nat.mul_le_mul_right _ (by omega)) hz
        rw [ih (z / 128) (by omega) (idx + 1) _ rest (by omega) hv' hz']
        congr 1
        rw [hpow]
        congr 1
        · rw [hcomm, Nat.add_assoc, ← Nat.add_mul, ← hdecomp]
        · omega

theorem uleb_length_le (k : Nat) : ∀ z, z < 2 ^ (7 * (k + 1)) → (Spec.uleb z).length ≤ k + 1 := by
  induction k with
  | zero => intro z hz; rw [Spec.uleb, if_pos (by simpa using hz)]; simp
  | succ k ih =>
    intro z hz
    rw [Spec.uleb]; split
    · simp
    · simp only [List.length_cons]
      have : z / 128 < 2 ^ (7 * (k + 1)) := by
        have h : 2 ^ (7 * (k + 1 + 1)) = 2 ^ (7 * (k + 1)) * 128 := by rw [Nat.mul_add 7 (k+1) 1, Nat.pow_add]
        rw [h] at hz
        exact Nat.div_lt_of_lt_mul (by rw [Nat.mul_comm]; exact hz)
      have := ih _ this
      omega

theorem uleb_length_le_10 (z : Nat) (hz : z < 2 ^ 64) : (Spec.uleb z).length ≤ 10 :=
  uleb_length_le 9 z (Nat.lt_of_lt_of_le hz (by decide))

theorem uleb_head (z : Nat) : ∃ b t, Spec.uleb z = b :: t ∧ (b < 128 ↔ z < 128) ∧ (z < 128 → b = z ∧ t = []) := by
  rw [Spec.uleb]; split
  · rename_i h; exact ⟨z, [], rfl, by simp [h], fun _ => ⟨rfl, rfl⟩⟩
  · rename_i h; exact ⟨_, _, rfl, by omega, fun h' => absurd h' h⟩

theorem readVarint_cons (first : Nat) (t : List Nat) :
    readVarint (first :: t) =
      if first < 128 then some (first, 1)
      else if 10 ≤ (first :: t).length then readVarintArray ((first :: t).take 10)
      else readVarintSlow (first :: t) := rfl

/-- **`read_varint` inverts the varint loop of `write_long`** on every `u64`, whichever of its
three paths is taken (the path depends on how many bytes follow). -/
theorem readVarint_uleb (z : Nat) (hz : z < 2 ^ 64) (rest : List Nat) :
    readVarint (Spec.uleb z ++ rest) = some (z, (Spec.uleb z).length) := by
  obtain ⟨b, t, hbt, hb, hsmall⟩ := uleb_head z
  have hlen := uleb_length_le_10 z hz
  rw [hbt, List.cons_append, readVarint_cons]
  split
  · rename_i h
    obtain ⟨rfl, rfl⟩ := hsmall (hb.1 h)
    simp
  · split
    · rename_i h10
      -- unrolled path on the first ten bytes
      have htake : (b :: (t ++ rest)).take 10 = Spec.uleb z ++ rest.take (10 - (Spec.uleb z).length) := by
        rw [← List.cons_append, ← hbt, List.take_append]
        rw [List.take_of_length_le hlen]
      rw [htake]
      have := arrayLoop_uleb z 0 0 (rest.take (10 - (Spec.uleb z).length)) (by omega) (by simp) (by simpa using hz)
      simpa [readVarintArray, R_ARRAY_TAKE, hbt] using this
    · have := slowLoop_uleb z 0 0 rest (by omega) (by simp) (by simpa using hz)
      rw [← List.cons_append, ← hbt]
      simpa [readVarintSlow, R_SLOW_TAKE, hbt] using this

theorem readVlq_uleb (z : Nat) (hz : z < 2 ^ 64) (rest : List Nat) :
    readVlq (Spec.uleb z ++ rest) = some (z, rest) := by
  simp [readVlq, readVarint_uleb z hz rest]

theorem zz_roundtrip (x : BitVec 64) : zzDec (zzEnc x) = x := by
  simp only [zzDec, zzEnc, R_ZZ_SHR, R_ZZ_AND, W_ZZ_SHL, W_ZZ_SAR]
  bv_decide (config := { timeout := 300 })

theorem zz32_roundtrip (x : BitVec 32) : zzDec32 ((zzEnc (x.signExtend 64)).truncate 32) = x := by
  simp only [zzDec32, zzEnc, R_ZZ32_SHR, R_ZZ32_AND, W_ZZ_SHL, W_ZZ_SAR]
  bv_decide (config := { timeout := 300 })

theorem zz32_small (x : BitVec 32) : (zzEnc (x.signExtend 64)).toNat < 2 ^ 32 := by
  have : zzEnc (x.signExtend 64) < 4294967296#64 := by
    simp only [zzEnc, W_ZZ_SHL, W_ZZ_SAR]
    bv_decide (config := { timeout := 300 })
  simpa [BitVec.lt_def] using this

/-- **`get_long` inverts `write_long`** for every `i64`, leaving the rest of the buffer. -/
theorem decodeLong_encodeLong (x : BitVec 64) (rest : List Nat) :
    decodeLong (encodeLong x ++ rest) = some (x, rest) := by
  unfold decodeLong encodeLong
  rw [varintEnc_eq_uleb, readVlq_uleb _ (zzEnc x).isLt]
  simp [zz_roundtrip]

/-- **`get_int` inverts `write_int`** for every `i32`. -/
theorem decodeInt_encodeInt (x : BitVec 32) (rest : List Nat) :
    decodeInt (encodeInt x ++ rest) = some (x, rest) := by
  unfold decodeInt encodeInt encodeLong
  rw [varintEnc_eq_uleb, readVlq_uleb _ (zzEnc _).isLt]
  simp only [if_pos (zz32_small x)]
  have : BitVec.ofNat 32 (zzEnc (BitVec.signExtend 64 x)).toNat = (zzEnc (x.signExtend 64)).truncate 32 := by
    apply BitVec.eq_of_toNat_eq; simp
  rw [this, zz32_roundtrip]


theorem and128_small : ∀ z, z < 128 → z &&& 128 = 0 := by decide

theorem and128_big : ∀ r, r < 128 → (r + 128) &&& 128 ≠ 0 := by decide

/-- zig-zag decode as written in `VLQDecoder::long` -/
def blockZz (ip : Nat) : BitVec 64 := (BitVec.ofNat 64 ip >>> B_ZZ_SHR) ^^^ (-(BitVec.ofNat 64 ip &&& 1))

theorem vlqLong_cons (ip shift byte : Nat) (rest : List Nat) :
    vlqLong ip shift (byte :: rest) =
      if shift = 63 ∧ byte ≥ 2 then none
      else if byte &&& 128 = 0 then some (blockZz (ip ||| (((byte &&& 127) <<< shift) % 2 ^ 64)), rest)
      else vlqLong (ip ||| (((byte &&& 127) <<< shift) % 2 ^ 64)) (shift + 7) rest := rfl

theorem vlqLong_uleb (z : Nat) : ∀ (c ip : Nat) (rest : List Nat), c ≤ 9 → ip < 2 ^ (7 * c) →
    z * 2 ^ (7 * c) < 2 ^ 64 →
    vlqLong ip (7 * c) (Spec.uleb z ++ rest) = some (blockZz (ip + z * 2 ^ (7 * c)), rest) := by
  induction z using Nat.strongRecOn with
  | _ z ih =>
    intro c ip rest hc hv hz
    rw [Spec.uleb]
    split
    · rename_i hlt
      simp only [List.cons_append, List.nil_append, vlqLong_cons]
      have hg : ¬ (7 * c = 63 ∧ z ≥ 2) := by
        intro ⟨h1, h2⟩
        have h9 : c = 9 := by omega
        subst h9
        have : z * 2 ^ 63 < 2 * 2 ^ 63 := by simpa using hz
        have := Nat.lt_of_mul_lt_mul_right this
        omega
      rw [if_neg hg, if_pos (and128_small z hlt), and127_nat, Nat.mod_eq_of_lt hlt]
      have hsh : (z <<< (7 * c)) % 2 ^ 64 = z <<< (7 * c) := by
        rw [Nat.shiftLeft_eq]; exact Nat.mod_eq_of_lt hz
      rw [hsh, or_shift ip z (7 * c) hv]
    · rename_i hge
      simp only [List.cons_append, vlqLong_cons]
      have hc8 : c ≤ 8 := by
        by_cases h9 : c = 9
        · subst h9
          have : 128 * 2 ^ 63 ≤ z * 2 ^ 63 := Nat.mul_le_mul_right _ (by omega)
          have h2 : (128 : Nat) * 2 ^ 63 ≥ 2 ^ 64 := by decide
          omega
        · omega
      have hg : ¬ (7 * c = 63 ∧ z % 128 + 128 ≥ 2) := by omega
      rw [if_neg hg, if_neg (and128_big (z % 128) (by omega)), and127_nat]
      have hm : (z % 128 + 128) % 128 = z % 128 := by omega
      rw [hm]
      have hpow : 2 ^ (7 * (c + 1)) = 2 ^ (7 * c) * 128 := by rw [Nat.mul_add, Nat.pow_add]
      have hlow : (z % 128) * 2 ^ (7 * c) < 2 ^ 64 :=
        Nat.lt_of_le_of_lt (Nat.mul_le_mul_right _ (Nat.mod_le _ _)) hz
      have hsh : ((z % 128) <<< (7 * c)) % 2 ^ 64 = (z % 128) <<< (7 * c) := by
        rw [Nat.shiftLeft_eq]; exact Nat.mod_eq_of_lt hlow
      rw [hsh, or_shift ip _ (7 * c) hv]
      have hP : 0 < 2 ^ (7 * c) := Nat.pow_pos (by decide)
      have hdecomp : z = z % 128 + 128 * (z / 128) := (Nat.mod_add_div z 128).symm
      have hcomm : z / 128 * (2 ^ (7 * c) * 128) = (128 * (z / 128)) * 2 ^ (7 * c) := by
        rw [Nat.mul_comm (2 ^ (7 * c)) 128, ← Nat.mul_assoc, Nat.mul_comm (z / 128) 128]
      have hv' : ip + z % 128 * 2 ^ (7 * c) < 2 ^ (7 * (c + 1)) := by
        rw [hpow]
        have : z % 128 * 2 ^ (7 * c) ≤ 127 * 2 ^ (7 * c) := Nat.mul_le_mul_right _ (by omega)
        omega
      have hz' : z / 128 * 2 ^ (7 * (c + 1)) < 2 ^ 64 := by
        rw [hpow, hcomm]
        exact Nat.lt_of_le_of_lt (Nat.mul_le_mul_right _ (by omega)) hz
      have h7 : 7 * c + 7 = 7 * (c + 1) := by omega
      rw [h7, ih (z / 128) (by omega) (c + 1) _ rest (by omega) hv' hz']
      congr 2
      rw [hpow, hcomm, Nat.add_assoc, ← Nat.add_mul, ← hdecomp]

theorem blockZz_roundtrip (x : BitVec 64) : blockZz (zzEnc x).toNat = x := by
  simp only [blockZz, BitVec.ofNat_toNat, BitVec.setWidth_eq, zzEnc, B_ZZ_SHR, W_ZZ_SHL, W_ZZ_SAR]
  bv_decide (config := { timeout := 300 })

theorem leBytes_length (n v : Nat) : (leBytes n v).length = n := by
  induction n generalizing v with
  | zero => rfl
  | succ n ih => simp [leBytes, ih]

theorem leValue_leBytes (n v : Nat) : leValue (leBytes n v) = v % 256 ^ n := by
  induction n generalizing v with
  | zero => simp [leBytes, leValue, Nat.mod_one]
  | succ n ih =>
    simp only [leBytes, leValue, ih]
    rw [Nat.pow_succ, Nat.mul_comm (256 ^ n) 256, Nat.mod_mul]

theorem getFixed_append (bs rest : List Nat) : getFixed bs.length (bs ++ rest) = some (bs, rest) := by
  simp [getFixed]

theorem toInt_ofNat_small (n : Nat) (h : n < 2 ^ 63) : (BitVec.ofNat 64 n).toInt = n := by
  rw [BitVec.toInt_eq_toNat_of_lt (by simp; omega)]
  simp; omega

theorem getBytes_ok (bs rest : List Nat) (h : bs.length < 2 ^ 63) :
    getBytes (encodeLong (BitVec.ofNat 64 bs.length) ++ (bs ++ rest)) = some (bs, rest) := by
  unfold getBytes
  rw [decodeLong_encodeLong]
  have h1 : (BitVec.ofNat 64 bs.length).toInt = bs.length := toInt_ofNat_small _ h
  simp only [h1]
  have : ¬ ((bs.length : Int) < 0) := by omega
  simp [this, getFixed_append]

theorem decodeItems_ok (f : List Nat → Option (Value × List Nat)) (e : Value → List Nat) (vs : List Value)
    (h : ∀ v ∈ vs, ∀ rest, f (e v ++ rest) = some (v, rest)) (rest : List Nat) :
    decodeItems f vs.length ((vs.flatMap e) ++ rest) = some (vs, rest) := by
  induction vs with
  | nil => simp [decodeItems]
  | cons v vs ih =>
    simp only [List.length_cons, List.flatMap_cons, List.append_assoc, decodeItems]
    rw [h v (by simp)]
    simp only
    rw [ih (fun w hw => h w (by simp [hw]))]

theorem encodeItems_eq (s : Schema) (vs : List Value) : encodeItems s vs = vs.flatMap (encode s) := by
  induction vs with
  | nil => simp [encodeItems]
  | cons v vs ih => simp [encodeItems, ih]


/-- the reader's block loop on the writer's "one positive block + terminator" (or lone
terminator) output -/
theorem decodeBlocks_ok (f : List Nat → Option (Value × List Nat)) (e : Value → List Nat) (vs : List Value)
    (h : ∀ v ∈ vs, ∀ rest, f (e v ++ rest) = some (v, rest)) (hlen : vs.length < 2 ^ 31)
    (fuel : Nat) (rest : List Nat) :
    decodeBlocks f (fuel + 2)
      ((if vs.length = 0 then encodeLong 0
        else encodeLong (BitVec.ofNat 64 vs.length) ++ vs.flatMap e ++ encodeLong 0) ++ rest) [] = some (vs, rest) := by
  split
  · rename_i h0
    have : vs = [] := List.length_eq_zero_iff.1 h0
    subst this
    simp [decodeBlocks, decodeLong_encodeLong]
  · rename_i h0
    rw [decodeBlocks, List.append_assoc, List.append_assoc, decodeLong_encodeLong]
    have hne : BitVec.ofNat 64 vs.length ≠ 0 := by
      intro hc
      have := congrArg BitVec.toNat hc
      simp at this
      omega
    have hti := toInt_ofNat_small vs.length (by omega)
    simp only [hne, if_false, hti]
    have hnn : ¬ ((vs.length : Int) < 0) := by omega
    simp only [hnn, if_false, List.length_nil, Nat.zero_add, Int.toNat_natCast, if_pos hlen]
    rw [decodeItems_ok f e vs h]
    simp [decodeBlocks, decodeLong_encodeLong]

/-! ### Avro decimal payloads -/

set_option maxRecDepth 100000 in
theorem and128_zero_iff : ∀ x, x < 256 → ((x &&& 128 = 0) ↔ x < 128) := by decide
set_option maxRecDepth 100000 in
theorem xor255_and128 : ∀ x, x < 256 → (((x ^^^ 255) &&& 128 = 0) ↔ 128 ≤ x) := by decide
set_option maxRecDepth 100000 in
theorem xor0_and128 : ∀ x, x < 256 → (((x ^^^ 0) &&& 128 = 0) ↔ x < 128) := by decide

/-- the sign byte `0x00` / `0xFF` that belongs to a first byte -/
def signOf (b : Nat) : Nat := if 128 ≤ b then 255 else 0

theorem signOf_cases (b : Nat) : signOf b = 0 ∨ signOf b = 255 := by unfold signOf; split <;> simp

/-- `((x ^ s) & 0x80) == 0` says: `x` carries the same sign bit as the sign byte `s` -/
theorem same_sign_iff (x b : Nat) (hx : x < 256) :
    (((x ^^^ signOf b) &&& 128 = 0) ↔ signOf x = signOf b) := by
  unfold signOf
  by_cases hb : 128 ≤ b
  · simp only [hb, if_true]
    rw [xor255_and128 x hx]
    by_cases h : 128 ≤ x <;> simp [h]
  · simp only [hb, if_false]
    rw [xor0_and128 x hx]
    by_cases h : 128 ≤ x <;> simp [h] <;> omega

theorem getD_eq (l : List Nat) (k : Nat) (h : k < l.length) : l.getD k 0 = l[k] := by
  rw [List.getD_eq_getElem?_getD, List.getElem?_eq_getElem h]; rfl

theorem countLeading_le (s : Nat) (be : List Nat) : countLeading s be ≤ be.length := by
  induction be with
  | nil => simp [countLeading]
  | cons b bs ih => simp only [countLeading]; split <;> simp <;> omega

theorem take_countLeading (s : Nat) (be : List Nat) :
    be.take (countLeading s be) = List.replicate (countLeading s be) s := by
  induction be with
  | nil => simp [countLeading]
  | cons b bs ih =>
    simp only [countLeading]
    split
    · rename_i h; subst h; simp [List.replicate_succ, ih]
    · simp

theorem take_le_countLeading (s : Nat) (be : List Nat) (j : Nat) (hj : j ≤ countLeading s be) :
    be.take j = List.replicate j s := by
  have h := take_countLeading s be
  have : be.take j = (be.take (countLeading s be)).take j := by
    rw [List.take_take, Nat.min_eq_left hj]
  rw [this, h, List.take_replicate, Nat.min_eq_left hj]

theorem getD_countLeading_ne (s : Nat) (be : List Nat) (h : countLeading s be < be.length) :
    be.getD (countLeading s be) 0 ≠ s := by
  induction be with
  | nil => simp at h
  | cons b bs ih =>
    simp only [countLeading] at h ⊢
    split
    · rename_i hb
      simp only [hb, if_true, List.length_cons] at h
      simpa using ih (by omega)
    · rename_i hb; simpa using hb

/-- shape of the writer's output: a suffix of `be` obtained by dropping redundant sign bytes only -/
theorem minimal_shape (b0 : Nat) (bs : List Nat) (hall : ∀ b ∈ b0 :: bs, b < 256) :
    ∃ d, minimalTwosComplement (b0 :: bs) = (b0 :: bs).drop d ∧ d < (b0 :: bs).length ∧
      (b0 :: bs).take d = List.replicate d (signOf b0) ∧
      ∃ h t, (b0 :: bs).drop d = h :: t ∧ signOf h = signOf b0 := by
  have hb0 : b0 < 256 := hall b0 (by simp)
  have hs : (if b0 &&& M_SIGN_MASK ≠ 0 then M_NEG_BYTE else M_POS_BYTE) = signOf b0 := by
    unfold signOf
    have := and128_zero_iff b0 hb0
    show (if b0 &&& 128 ≠ 0 then 255 else 0) = _
    by_cases h : 128 ≤ b0
    · have : ¬ (b0 &&& 128 = 0) := fun h0 => by have := (and128_zero_iff b0 hb0).1 h0; omega
      simp [h, this]
    · have : b0 &&& 128 = 0 := (and128_zero_iff b0 hb0).2 (by omega)
      simp [h, this]
  unfold minimalTwosComplement
  simp only [hs]
  generalize hk : countLeading (signOf b0) (b0 :: bs) = k
  have hle := countLeading_le (signOf b0) (b0 :: bs)
  rw [hk] at hle
  by_cases hk0 : k = 0
  · rw [if_pos hk0]
    exact ⟨0, rfl, by simp, by simp, b0, bs, rfl, rfl⟩
  · rw [if_neg hk0]
    by_cases hkl : k = (b0 :: bs).length
    · rw [if_pos hkl]
      refine ⟨(b0 :: bs).length - 1, rfl, by simp, ?_, ?_⟩
      · exact take_le_countLeading _ _ _ (by rw [hk]; omega)
      · -- the last byte is a sign byte
        have hall' := take_countLeading (signOf b0) (b0 :: bs)
        rw [hk, hkl, List.take_length] at hall'
        have hlen : (b0 :: bs).length - 1 < (b0 :: bs).length := by simp
        obtain ⟨h, t, hd⟩ : ∃ h t, (b0 :: bs).drop ((b0 :: bs).length - 1) = h :: t :=
          ⟨_, _, List.drop_eq_getElem_cons hlen⟩
        refine ⟨h, t, hd, ?_⟩
        have hmem : h ∈ (b0 :: bs) := List.mem_of_mem_drop (by rw [hd]; simp)
        rw [hall'] at hmem
        have := List.eq_of_mem_replicate hmem
        rw [this]
        rcases signOf_cases b0 with h0 | h0 <;> rw [h0] <;> simp [signOf]
    · rw [if_neg hkl]
      have hklt : k < (b0 :: bs).length := by omega
      have hne := getD_countLeading_ne (signOf b0) (b0 :: bs) (by rw [hk]; exact hklt)
      rw [hk] at hne
      have hxk : (b0 :: bs).getD k 0 < 256 := by
        rw [getD_eq _ _ hklt]
        exact hall _ (List.getElem_mem _)
      have hmask : M_DROP_MASK = 128 := rfl
      rw [hmask]
      by_cases hsame : ((b0 :: bs).getD k 0 ^^^ signOf b0) &&& 128 = 0
      · rw [if_pos hsame]
        refine ⟨k, rfl, hklt, take_le_countLeading _ _ _ (by rw [hk]; exact Nat.le_refl _), ?_⟩
        refine ⟨(b0 :: bs).getD k 0, (b0 :: bs).drop (k + 1), ?_, (same_sign_iff _ b0 hxk).1 hsame⟩
        rw [getD_eq _ _ hklt]
        exact List.drop_eq_getElem_cons hklt
      · rw [if_neg hsame]
        have hk1 : k - 1 < (b0 :: bs).length := by omega
        refine ⟨k - 1, rfl, hk1, take_le_countLeading _ _ _ (by rw [hk]; omega), ?_⟩
        refine ⟨(b0 :: bs)[k - 1], (b0 :: bs).drop (k - 1 + 1), List.drop_eq_getElem_cons hk1, ?_⟩
        -- byte k-1 is a sign byte
        have ht := take_le_countLeading (signOf b0) (b0 :: bs) k (by rw [hk]; exact Nat.le_refl _)
        have hmem : (b0 :: bs)[k - 1] ∈ (b0 :: bs).take k := by
          rw [List.mem_take_iff_getElem]
          exact ⟨k - 1, by omega, rfl⟩
        rw [ht] at hmem
        rw [List.eq_of_mem_replicate hmem]
        rcases signOf_cases b0 with h0 | h0 <;> rw [h0] <;> simp [signOf]

/-- the reader's sign extension restores the dropped bytes -/
theorem signCast_drop (be : List Nat) (N d : Nat) (s h : Nat) (t : List Nat) (hlen : be.length = N)
    (hd : d < N) (htake : be.take d = List.replicate d s) (hdrop : be.drop d = h :: t)
    (hh : h < 256) (hs : signOf h = s) : signCast N (be.drop d) = some be := by
  unfold signCast
  by_cases hd0 : d = 0
  · subst hd0; simp [hlen]
  · have hl : (be.drop d).length = N - d := by simp [hlen]
    have hne : ¬ ((be.drop d).length = N) := by omega
    have hng : ¬ ((be.drop d).length > N) := by omega
    simp only [hne, if_false, hng]
    rw [hdrop] at hl ⊢
    show some (List.replicate (N - (h :: t).length) (if h &&& S_SIGN_MASK = 0 then 0x00 else S_NEG_BYTE) ++ h :: t) = some be
    have hsb : (if h &&& S_SIGN_MASK = 0 then 0x00 else S_NEG_BYTE) = s := by
      rw [← hs]; unfold signOf
      show (if h &&& 128 = 0 then 0 else 255) = _
      have := and128_zero_iff h hh
      by_cases h128 : 128 ≤ h
      · have : ¬ (h &&& 128 = 0) := fun h0 => by have := (and128_zero_iff h hh).1 h0; omega
        simp [h128, this]
      · have : h &&& 128 = 0 := (and128_zero_iff h hh).2 (by omega)
        simp [h128, this]
    rw [hsb, hl]
    have : N - (N - d) = d := by omega
    rw [this, ← htake, ← hdrop, List.take_append_drop]

/-- **bytes-backed decimal payload round trip** at the byte level -/
theorem signCast_minimal (be : List Nat) (N : Nat) (hlen : be.length = N) (hN : 1 ≤ N)
    (hall : ∀ b ∈ be, b < 256) : signCast N (minimalTwosComplement be) = some be := by
  cases be with
  | nil => simp at hlen; omega
  | cons b0 bs =>
    obtain ⟨d, hm, hd, htake, h, t, hdrop, hs⟩ := minimal_shape b0 bs hall
    rw [hm]
    have hh : h < 256 := hall h (List.mem_of_mem_drop (by rw [hdrop]; simp))
    exact signCast_drop (b0 :: bs) N d (signOf b0) h t hlen (by omega) htake hdrop hh hs

theorem all_eq_replicate (l : List Nat) (s : Nat) (h : l.any (· != s) = false) : l = List.replicate l.length s := by
  induction l with
  | nil => rfl
  | cons a l ih =>
    simp only [List.any_cons, Bool.or_eq_false_iff, bne_eq_false_iff_eq] at h
    rw [List.length_cons, List.replicate_succ, ← ih h.2, h.1]

theorem signOf_signOf (b : Nat) : signOf (signOf b) = signOf b := by
  rcases signOf_cases b with h | h <;> rw [h] <;> simp [signOf]

/-- **fixed(n)-backed decimal payload round trip** at the byte level: whatever
`write_sign_extended` accepts, `sign_cast_to` turns back into the original `N` bytes -/
theorem signCast_writeSignExtended (be out : List Nat) (N n : Nat) (hlen : be.length = N) (hN : 1 ≤ N)
    (hn : 1 ≤ n) (hall : ∀ b ∈ be, b < 256) (hw : writeSignExtended be n = some out) :
    out.length = n ∧ signCast N out = some be := by
  cases be with
  | nil => simp at hlen; omega
  | cons b0 bs =>
    have hb0 : b0 < 256 := hall b0 (by simp)
    have hL : (b0 :: bs).length = bs.length + 1 := rfl
    have hs : (if (b0 :: bs).length > 0 ∧ (b0 :: bs).headD 0 &&& X_SIGN_MASK ≠ 0 then 0xFF else 0x00) = signOf b0 := by
      unfold signOf
      show (if (b0 :: bs).length > 0 ∧ b0 &&& 128 ≠ 0 then 255 else 0) = _
      by_cases h : 128 ≤ b0
      · have : ¬ (b0 &&& 128 = 0) := fun h0 => by have := (and128_zero_iff b0 hb0).1 h0; omega
        simp [h, this]
      · have : b0 &&& 128 = 0 := (and128_zero_iff b0 hb0).2 (by omega)
        simp [h, this]
    unfold writeSignExtended at hw
    simp only [hs] at hw
    by_cases h1 : (b0 :: bs).length = n
    · rw [if_pos h1] at hw
      injection hw with hw; subst hw
      refine ⟨h1, ?_⟩
      unfold signCast; rw [if_pos hlen]
    · rw [if_neg h1] at hw
      by_cases h2 : (b0 :: bs).length > n
      · rw [if_pos h2] at hw
        have hn0 : ¬ (n = 0 ∧ (b0 :: bs).all (· == signOf b0) = true) := by omega
        rw [if_neg hn0] at hw
        split at hw
        · exact absurd hw (by simp)
        · rename_i hok
          injection hw with hw; subst hw
          have hok' := not_or.1 hok
          have hany : ((b0 :: bs).take ((b0 :: bs).length - n)).any (· != signOf b0) = false := by
            simpa using hok'.1
          have hmsb : (((b0 :: bs).getD ((b0 :: bs).length - n) 0 ^^^ signOf b0) &&& 128) = 0 := by
            have := hok'.2; simpa [X_TRUNC_MASK] using this
          have hd : (b0 :: bs).length - n < (b0 :: bs).length := by omega
          have htake := all_eq_replicate _ _ hany
          rw [List.length_take, Nat.min_eq_left (by omega)] at htake
          have hx : (b0 :: bs).getD ((b0 :: bs).length - n) 0 = (b0 :: bs)[(b0 :: bs).length - n] := getD_eq _ _ hd
          have hxlt : (b0 :: bs)[(b0 :: bs).length - n] < 256 := hall _ (List.getElem_mem _)
          rw [hx] at hmsb
          refine ⟨by simp; omega, ?_⟩
          exact signCast_drop (b0 :: bs) N ((b0 :: bs).length - n) (signOf b0) _ _ hlen (by omega) htake
            (List.drop_eq_getElem_cons hd) hxlt ((same_sign_iff _ b0 hxlt).1 hmsb)
      · rw [if_neg h2] at hw
        injection hw with hw; subst hw
        have hgt : n > N := by omega
        refine ⟨by simp; omega, ?_⟩
        unfold signCast
        have hl : (List.replicate (n - (b0 :: bs).length) (signOf b0) ++ b0 :: bs).length = n := by simp; omega
        have e1 : ¬ ((List.replicate (n - (b0 :: bs).length) (signOf b0) ++ b0 :: bs).length = N) := by omega
        have e2 : (List.replicate (n - (b0 :: bs).length) (signOf b0) ++ b0 :: bs).length > N := by omega
        rw [if_neg e1, if_pos e2]
        obtain ⟨j, hj⟩ : ∃ j, n - (b0 :: bs).length = j + 1 := ⟨n - (b0 :: bs).length - 1, by omega⟩
        have hfirst : (List.replicate (n - (b0 :: bs).length) (signOf b0) ++ b0 :: bs).headD 0 = signOf b0 := by
          rw [hj]; simp [List.replicate_succ]
        have hsb : (if (List.replicate (n - (b0 :: bs).length) (signOf b0) ++ b0 :: bs).headD 0 &&& S_SIGN_MASK = 0 then 0x00 else S_NEG_BYTE) = signOf b0 := by
          rw [hfirst]
          rcases signOf_cases b0 with h0 | h0 <;> rw [h0] <;> decide
        simp only [hsb, hl]
        have hex : n - N = n - (b0 :: bs).length := by omega
        have t1 : (List.replicate (n - (b0 :: bs).length) (signOf b0) ++ b0 :: bs).take (n - N) =
            List.replicate (n - (b0 :: bs).length) (signOf b0) := by
          rw [hex]; exact List.take_left' (by simp)
        have t2 : (List.replicate (n - (b0 :: bs).length) (signOf b0) ++ b0 :: bs).drop (n - N) = b0 :: bs := by
          rw [hex]; exact List.drop_left' (by simp)
        have t3 : (List.replicate (n - (b0 :: bs).length) (signOf b0) ++ b0 :: bs).getD (n - N) 0 = b0 := by
          rw [hex, List.getD_eq_getElem?_getD, List.getElem?_append_right (by simp)]; simp
        rw [t1, t2, t3]
        have a1 : (List.replicate (n - (b0 :: bs).length) (signOf b0)).any (· != signOf b0) = false := by
          simp [List.any_replicate]
        have a2 : ¬ (N > 0 ∧ ((b0 ^^^ signOf b0) &&& S_TRUNC_MASK) ≠ 0) := by
          have : (b0 ^^^ signOf b0) &&& 128 = 0 := (same_sign_iff b0 b0 hb0).2 rfl
          intro ⟨_, h⟩; exact h this
        simp [a1, a2]

theorem minimal_length_le (be : List Nat) (hall : ∀ b ∈ be, b < 256) :
    (minimalTwosComplement be).length ≤ be.length := by
  cases be with
  | nil => simp [minimalTwosComplement]
  | cons b0 bs =>
    obtain ⟨d, hm, _, _, _⟩ := minimal_shape b0 bs hall
    rw [hm]; simp

mutual
theorem decode_encode : (s : Schema) → (v : Value) → wt s v = true → ∀ rest,
    decode s (encode s v ++ rest) = some (v, rest)
  | .null, .null, _, rest => by simp [encode, decode]
  | .boolean, .bool b, _, rest => by cases b <;> simp [encode, decode]
  | .int, .int x, _, rest => by simp [encode, decode, decodeInt_encodeInt]
  | .enum _, .int x, _, rest => by simp [encode, decode, decodeInt_encodeInt]
  | .long, .long x, _, rest => by simp [encode, decode, decodeLong_encodeLong]
  | .float, .float b, _, rest => by
      have := getFixed_append (leBytes 4 b.toNat) rest
      rw [leBytes_length] at this
      have hb : BitVec.ofNat 32 (b.toNat % 256 ^ 4) = b := by
        apply BitVec.eq_of_toNat_eq
        simp only [BitVec.toNat_ofNat]
        have := b.isLt
        rw [Nat.mod_eq_of_lt (by omega), Nat.mod_eq_of_lt b.isLt]
      simp only [encode, decode, this, Option.map, leValue_leBytes, hb]
  | .double, .double b, _, rest => by
      have := getFixed_append (leBytes 8 b.toNat) rest
      rw [leBytes_length] at this
      have hb : BitVec.ofNat 64 (b.toNat % 256 ^ 8) = b := by
        apply BitVec.eq_of_toNat_eq
        simp only [BitVec.toNat_ofNat]
        have := b.isLt
        rw [Nat.mod_eq_of_lt (by omega), Nat.mod_eq_of_lt b.isLt]
      simp only [encode, decode, this, Option.map, leValue_leBytes, hb]
  | .bytes, .bytes bs, h, rest => by
      simp only [wt, decide_eq_true_eq] at h
      simp [encode, decode, getBytes_ok bs rest h]
  | .string, .bytes bs, h, rest => by
      simp only [wt, decide_eq_true_eq] at h
      simp [encode, decode, getBytes_ok bs rest h]
  | .fixed n, .fixed bs, h, rest => by
      simp only [wt, decide_eq_true_eq] at h
      subst h
      simp [encode, decode, getFixed_append]
  | .decimal Option.none w, .dec be, h, rest => by
      simp only [wt, Bool.and_eq_true, decide_eq_true_eq, List.all_eq_true] at h
      obtain ⟨⟨⟨h1, h2⟩, h3⟩, h4⟩ := h
      have hlenm : (minimalTwosComplement be).length < 2 ^ 63 :=
        Nat.lt_of_le_of_lt (minimal_length_le be h4) (by omega)
      simp only [encode, decode, List.append_assoc]
      rw [getBytes_ok _ rest hlenm]
      simp only
      rw [signCast_minimal be w h1 h2 h4]
      simp
  | .decimal (Option.some n) w, .dec be, h, rest => by
      simp only [wt, Bool.and_eq_true, decide_eq_true_eq, List.all_eq_true] at h
      obtain ⟨⟨⟨⟨h1, h2⟩, h3⟩, h4⟩, h5⟩ := h
      cases hw : writeSignExtended be n with
      | none => simp [hw] at h5
      | some out =>
        obtain ⟨hl, hsc⟩ := signCast_writeSignExtended be out w n h1 h2 h3 h4 hw
        have hg := getFixed_append out rest
        rw [hl] at hg
        simp only [encode, decode, hw, Option.getD_some, hg, hsc]
        simp
  | .nullable nf s, .none, _, rest => by
      cases nf <;> simp [encode, decode, branchByte, readVlq, readVarint, W_BRANCH_A, W_BRANCH_B, R_FAST_LIMIT]
  | .nullable nf s, .some v, h, rest => by
      simp only [wt] at h
      have ih := decode_encode s v h rest
      cases nf <;> simp [encode, decode, branchByte, readVlq, readVarint, W_BRANCH_A, W_BRANCH_B, R_FAST_LIMIT, ih]
  | .union bs, .union i v, h, rest => by
      simp only [wt] at h
      cases hb : bs[i]? with
      | none => simp [hb] at h
      | some s =>
        simp only [hb, Bool.and_eq_true, decide_eq_true_eq] at h
        simp only [encode, hb, decode, encodeInt, List.append_assoc, decodeLong_encodeLong]
        have hse : (BitVec.ofNat 32 i).signExtend 64 = BitVec.ofNat 64 i := by
          apply BitVec.eq_of_toInt_eq
          rw [BitVec.toInt_signExtend_of_le (by omega)]
          rw [BitVec.toInt_eq_toNat_of_lt (by simp; omega), BitVec.toInt_eq_toNat_of_lt (by simp; omega)]
          simp; omega
        have hti := toInt_ofNat_small i (by omega)
        rw [hse]
        simp only [hti]
        have hnn : ¬ ((i : Int) < 0) := by omega
        simp only [hnn, if_false, Int.toNat_natCast]
        rw [decodeBranch_ok bs i v s hb h.2 rest]
        simp
  | .record fs, .list vs, h, rest => by
      simp only [wt] at h
      simp [encode, decode, decodeFields_encodeFields fs vs h rest]
  | .array s, .list vs, h, rest => by
      simp only [wt, Bool.and_eq_true, decide_eq_true_eq] at h
      simp only [encode, decode, encodeItems_eq]
      have hfuel : ∃ k, ((if vs.length = 0 then encodeLong 0
          else encodeLong (BitVec.ofNat 64 vs.length) ++ vs.flatMap (encode s) ++ encodeLong 0) ++ rest).length + 1 = k + 2 := by
        have hpos : ∀ x, 0 < (encodeLong x).length := by
          intro x; unfold encodeLong; rw [varintEnc]; split <;> simp
        split
        · have := hpos 0
          exact ⟨(encodeLong 0 ++ rest).length - 1, by simp only [List.length_append] at *; omega⟩
        · have := hpos (BitVec.ofNat 64 vs.length)
          refine ⟨(encodeLong (BitVec.ofNat 64 vs.length) ++ vs.flatMap (encode s) ++ encodeLong 0 ++ rest).length - 1, ?_⟩
          simp only [List.length_append] at *; omega
      obtain ⟨k, hk⟩ := hfuel
      rw [hk, decodeBlocks_ok (decode s) (encode s) vs
        (fun v hv rest => decode_encode s v (wtItems_mem s vs h.2 v hv) rest) h.1]
      simp
  | .null, .bool _, h, _ | .null, .int _, h, _ | .null, .long _, h, _ | .null, .float _, h, _
  | .null, .double _, h, _ | .null, .bytes _, h, _ | .null, .fixed _, h, _ | .null, .none, h, _
  | .null, .some _, h, _ | .null, .union _ _, h, _ | .null, .list _, h, _ => by simp [wt] at h
  | .boolean, .null, h, _ | .boolean, .int _, h, _ | .boolean, .long _, h, _ | .boolean, .float _, h, _
  | .boolean, .double _, h, _ | .boolean, .bytes _, h, _ | .boolean, .fixed _, h, _ | .boolean, .none, h, _
  | .boolean, .some _, h, _ | .boolean, .union _ _, h, _ | .boolean, .list _, h, _ => by simp [wt] at h
  | .int, .null, h, _ | .int, .bool _, h, _ | .int, .long _, h, _ | .int, .float _, h, _
  | .int, .double _, h, _ | .int, .bytes _, h, _ | .int, .fixed _, h, _ | .int, .none, h, _
  | .int, .some _, h, _ | .int, .union _ _, h, _ | .int, .list _, h, _ => by simp [wt] at h
  | .enum _, .null, h, _ | .enum _, .bool _, h, _ | .enum _, .long _, h, _ | .enum _, .float _, h, _
  | .enum _, .double _, h, _ | .enum _, .bytes _, h, _ | .enum _, .fixed _, h, _ | .enum _, .none, h, _
  | .enum _, .some _, h, _ | .enum _, .union _ _, h, _ | .enum _, .list _, h, _ => by simp [wt] at h
  | .long, .null, h, _ | .long, .bool _, h, _ | .long, .int _, h, _ | .long, .float _, h, _
  | .long, .double _, h, _ | .long, .bytes _, h, _ | .long, .fixed _, h, _ | .long, .none, h, _
  | .long, .some _, h, _ | .long, .union _ _, h, _ | .long, .list _, h, _ => by simp [wt] at h
  | .float, .null, h, _ | .float, .bool _, h, _ | .float, .int _, h, _ | .float, .long _, h, _
  | .float, .double _, h, _ | .float, .bytes _, h, _ | .float, .fixed _, h, _ | .float, .none, h, _
  | .float, .some _, h, _ | .float, .union _ _, h, _ | .float, .list _, h, _ => by simp [wt] at h
  | .double, .null, h, _ | .double, .bool _, h, _ | .double, .int _, h, _ | .double, .long _, h, _
  | .double, .float _, h, _ | .double, .bytes _, h, _ | .double, .fixed _, h, _ | .double, .none, h, _
  | .double, .some _, h, _ | .double, .union _ _, h, _ | .double, .list _, h, _ => by simp [wt] at h
  | .bytes, .null, h, _ | .bytes, .bool _, h, _ | .bytes, .int _, h, _ | .bytes, .long _, h, _
  | .bytes, .float _, h, _ | .bytes, .double _, h, _ | .bytes, .fixed _, h, _ | .bytes, .none, h, _
  | .bytes, .some _, h, _ | .bytes, .union _ _, h, _ | .bytes, .list _, h, _ => by simp [wt] at h
  | .string, .null, h, _ | .string, .bool _, h, _ | .string, .int _, h, _ | .string, .long _, h, _
  | .string, .float _, h, _ | .string, .double _, h, _ | .string, .fixed _, h, _ | .string, .none, h, _
  | .string, .some _, h, _ | .string, .union _ _, h, _ | .string, .list _, h, _ => by simp [wt] at h
  | .fixed _, .null, h, _ | .fixed _, .bool _, h, _ | .fixed _, .int _, h, _ | .fixed _, .long _, h, _
  | .fixed _, .float _, h, _ | .fixed _, .double _, h, _ | .fixed _, .bytes _, h, _ | .fixed _, .none, h, _
  | .fixed _, .some _, h, _ | .fixed _, .union _ _, h, _ | .fixed _, .list _, h, _ => by simp [wt] at h
  | .nullable _ _, .null, h, _ | .nullable _ _, .bool _, h, _ | .nullable _ _, .int _, h, _ | .nullable _ _, .long _, h, _
  | .nullable _ _, .float _, h, _ | .nullable _ _, .double _, h, _ | .nullable _ _, .bytes _, h, _ | .nullable _ _, .fixed _, h, _
  | .nullable _ _, .union _ _, h, _ | .nullable _ _, .list _, h, _ => by simp [wt] at h
  | .union _, .null, h, _ | .union _, .bool _, h, _ | .union _, .int _, h, _ | .union _, .long _, h, _
  | .union _, .float _, h, _ | .union _, .double _, h, _ | .union _, .bytes _, h, _ | .union _, .fixed _, h, _
  | .union _, .none, h, _ | .union _, .some _, h, _ | .union _, .list _, h, _ => by simp [wt] at h
  | .record _, .null, h, _ | .record _, .bool _, h, _ | .record _, .int _, h, _ | .record _, .long _, h, _
  | .record _, .float _, h, _ | .record _, .double _, h, _ | .record _, .bytes _, h, _ | .record _, .fixed _, h, _
  | .record _, .none, h, _ | .record _, .some _, h, _ | .record _, .union _ _, h, _ => by simp [wt] at h
  | .array _, .null, h, _ | .array _, .bool _, h, _ | .array _, .int _, h, _ | .array _, .long _, h, _
  | .array _, .float _, h, _ | .array _, .double _, h, _ | .array _, .bytes _, h, _ | .array _, .fixed _, h, _
  | .array _, .none, h, _ | .array _, .some _, h, _ | .array _, .union _ _, h, _ => by simp [wt] at h
  | .null, .dec _, h, _ | .boolean, .dec _, h, _ | .int, .dec _, h, _ | .enum _, .dec _, h, _ | .long, .dec _, h, _ | .float, .dec _, h, _ | .double, .dec _, h, _ | .bytes, .dec _, h, _ | .string, .dec _, h, _ | .fixed _, .dec _, h, _ | .nullable _ _, .dec _, h, _ | .union _, .dec _, h, _ | .record _, .dec _, h, _ | .array _, .dec _, h, _ => by simp [wt] at h
  | .decimal _ _, .null, h, _ | .decimal _ _, .bool _, h, _ | .decimal _ _, .int _, h, _ | .decimal _ _, .long _, h, _ | .decimal _ _, .float _, h, _ | .decimal _ _, .double _, h, _ | .decimal _ _, .bytes _, h, _ | .decimal _ _, .fixed _, h, _ | .decimal _ _, .none, h, _ | .decimal _ _, .some _, h, _ | .decimal _ _, .union _ _, h, _ | .decimal _ _, .list _, h, _ => by simp [wt] at h
theorem decodeFields_encodeFields : (fs : List Schema) → (vs : List Value) → wtFields fs vs = true → ∀ rest,
    decodeFields fs (encodeFields fs vs ++ rest) = some (vs, rest)
  | [], [], _, rest => by simp [encodeFields, decodeFields]
  | s :: ss, v :: vs, h, rest => by
      simp only [wtFields, Bool.and_eq_true] at h
      simp [encodeFields, decodeFields, decode_encode s v h.1, decodeFields_encodeFields ss vs h.2]
  | [], _ :: _, h, _ => by simp [wtFields] at h
  | _ :: _, [], h, _ => by simp [wtFields] at h
theorem decodeBranch_ok : (bs : List Schema) → (i : Nat) → (v : Value) → (s : Schema) → bs[i]? = some s →
    wt s v = true → ∀ rest, decodeBranch bs i (encode s v ++ rest) = some (v, rest)
  | [], _, _, _, h, _, _ => by simp at h
  | b :: _, 0, v, s, h, hw, rest => by
      simp only [List.getElem?_cons_zero, Option.some.injEq] at h
      subst h
      simp [decodeBranch, decode_encode b v hw rest]
  | _ :: bs, i + 1, v, s, h, hw, rest => by
      simp only [List.getElem?_cons_succ] at h
      simp [decodeBranch, decodeBranch_ok bs i v s h hw rest]
theorem wtItems_mem : (s : Schema) → (vs : List Value) → wtItems s vs = true → ∀ v ∈ vs, wt s v = true
  | _, [], _, v, hv => by simp at hv
  | s, w :: ws, h, v, hv => by
      simp only [wtItems, Bool.and_eq_true] at h
      rcases List.mem_cons.1 hv with rfl | h'
      · exact h.1
      · exact wtItems_mem s ws h.2 v h'
end

/-! ### the integer a decimal payload denotes; minimality -/

/-- unsigned value of big-endian digits -/
def beU : List Nat → Int
  | [] => 0
  | b :: bs => (b : Int) * (256 : Int) ^ bs.length + beU bs

def sgn (b : Nat) : Int := if b ≥ 128 then (b : Int) - 256 else (b : Int)

theorem foldl_be (bs : List Nat) : ∀ a : Int,
    bs.foldl (fun (a : Int) (x : Nat) => a * 256 + (x : Int)) a = a * (256 : Int) ^ bs.length + beU bs := by
  induction bs with
  | nil => intro a; simp [beU]
  | cons b bs ih =>
    intro a
    rw [List.foldl_cons, ih, List.length_cons, Int.pow_succ]
    have hU : beU (b :: bs) = (b : Int) * (256 : Int) ^ bs.length + beU bs := rfl
    rw [hU]
    generalize (256 : Int) ^ bs.length = P
    generalize beU bs = U
    grind

theorem beSigned_cons (b : Nat) (bs : List Nat) :
    beSigned (b :: bs) = sgn b * (256 : Int) ^ bs.length + beU bs := by
  simp only [beSigned]
  rw [foldl_be]; rfl

theorem pow256_pos (n : Nat) : (0 : Int) < (256 : Int) ^ n := Int.pow_pos (by decide)

theorem beU_bounds (bs : List Nat) (h : ∀ b ∈ bs, b < 256) : 0 ≤ beU bs ∧ beU bs < (256 : Int) ^ bs.length := by
  induction bs with
  | nil => simp [beU]
  | cons b bs ih =>
    have hb : b < 256 := h b (by simp)
    obtain ⟨i1, i2⟩ := ih (fun x hx => h x (by simp [hx]))
    have hU : beU (b :: bs) = (b : Int) * (256 : Int) ^ bs.length + beU bs := rfl
    rw [hU, List.length_cons, Int.pow_succ]
    have hP := pow256_pos bs.length
    generalize (256 : Int) ^ bs.length = P at *
    have h1 : (b : Int) * P ≤ 255 * P := Int.mul_le_mul_of_nonneg_right (by omega) (by omega)
    have h0 : 0 ≤ (b : Int) * P := Int.mul_nonneg (by omega) (by omega)
    constructor <;> omega

theorem sgn_signOf (b : Nat) : sgn (signOf b) = if 128 ≤ b then -1 else 0 := by
  unfold signOf sgn; split <;> simp

/-- dropping a redundant sign byte does not change the value -/
theorem beSigned_drop_sign (x : Nat) (t : List Nat) (_hx : x < 256) :
    beSigned (signOf x :: x :: t) = beSigned (x :: t) := by
  simp only [beSigned, List.foldl_cons]
  congr 1
  unfold signOf
  by_cases h : 128 ≤ x <;> simp [h] <;> omega

theorem beSigned_replicate (d x : Nat) (t : List Nat) (hx : x < 256) :
    beSigned (List.replicate d (signOf x) ++ x :: t) = beSigned (x :: t) := by
  induction d with
  | zero => simp
  | succ d ih =>
    rw [List.replicate_succ, List.cons_append]
    cases d with
    | zero => simpa using beSigned_drop_sign x t hx
    | succ d =>
      rw [List.replicate_succ, List.cons_append] at ih ⊢
      have hss : signOf (signOf x) = signOf x := signOf_signOf x
      have hlt : signOf x < 256 := by rcases signOf_cases x with h | h <;> omega
      have := beSigned_drop_sign (signOf x) (List.replicate d (signOf x) ++ x :: t) hlt
      rw [hss] at this
      rw [this, ih]

/-- **the minimal payload denotes the same integer** -/
theorem beSigned_minimal (be : List Nat) (hall : ∀ b ∈ be, b < 256) :
    beSigned (minimalTwosComplement be) = beSigned be := by
  cases be with
  | nil => simp [minimalTwosComplement]
  | cons b0 bs =>
    obtain ⟨d, hm, hd, htake, h, t, hdrop, hs⟩ := minimal_shape b0 bs hall
    have hh : h < 256 := hall h (List.mem_of_mem_drop (by rw [hdrop]; simp))
    have hsplit : b0 :: bs = List.replicate d (signOf h) ++ h :: t := by
      rw [hs, ← htake, ← hdrop, List.take_append_drop]
    rw [hm, hdrop]
    conv => rhs; rw [hsplit]
    exact (beSigned_replicate d h t hh).symm

/-- no leading byte can be dropped: a single byte, or a first byte that is not the sign byte
belonging to the second -/
def Reduced : List Nat → Prop
  | h0 :: h1 :: _ => h0 ≠ signOf h1
  | _ => True

theorem minimal_reduced (be : List Nat) (hall : ∀ b ∈ be, b < 256) : Reduced (minimalTwosComplement be) := by
  cases be with
  | nil => simp [minimalTwosComplement, Reduced]
  | cons b0 bs =>
    have hb0 : b0 < 256 := hall b0 (by simp)
    have hs : (if b0 &&& M_SIGN_MASK ≠ 0 then M_NEG_BYTE else M_POS_BYTE) = signOf b0 := by
      unfold signOf
      show (if b0 &&& 128 ≠ 0 then 255 else 0) = _
      by_cases h : 128 ≤ b0
      · have : ¬ (b0 &&& 128 = 0) := fun h0 => by have := (and128_zero_iff b0 hb0).1 h0; omega
        simp [h, this]
      · have : b0 &&& 128 = 0 := (and128_zero_iff b0 hb0).2 (by omega)
        simp [h, this]
    unfold minimalTwosComplement
    simp only [hs]
    generalize hk : countLeading (signOf b0) (b0 :: bs) = k
    have hle := countLeading_le (signOf b0) (b0 :: bs)
    rw [hk] at hle
    -- a byte different from its own sign byte is never a sign byte at all
    have notsign : ∀ x y : Nat, x ≠ signOf x → x ≠ signOf y := by
      intro x y h1 h2
      rcases signOf_cases y with h | h <;> rw [h] at h2 <;> subst h2 <;> simp [signOf] at h1
    by_cases hk0 : k = 0
    · rw [if_pos hk0]
      cases bs with
      | nil => simp [Reduced]
      | cons b1 bs' =>
        have : b0 ≠ signOf b0 := by
          intro h
          have hc : countLeading (signOf b0) (b0 :: b1 :: bs') = countLeading (signOf b0) (b1 :: bs') + 1 := by
            conv => lhs; rw [countLeading]
            rw [if_pos h]
          omega
        exact notsign b0 b1 this
    · rw [if_neg hk0]
      by_cases hkl : k = (b0 :: bs).length
      · rw [if_pos hkl]
        have hlen : (b0 :: bs).length - M_KEEP_ONE < (b0 :: bs).length := by simp [M_KEEP_ONE]
        rw [List.drop_eq_getElem_cons hlen]
        have : (b0 :: bs).length - M_KEEP_ONE + 1 = (b0 :: bs).length := by simp [M_KEEP_ONE]
        rw [this, List.drop_length]
        simp [Reduced]
      · rw [if_neg hkl]
        have hklt : k < (b0 :: bs).length := by omega
        have hne := getD_countLeading_ne (signOf b0) (b0 :: bs) (by rw [hk]; exact hklt)
        rw [hk, getD_eq _ _ hklt] at hne
        have hxk : (b0 :: bs)[k] < 256 := hall _ (List.getElem_mem _)
        have hmask : M_DROP_MASK = 128 := rfl
        rw [hmask, getD_eq _ _ hklt]
        by_cases hsame : ((b0 :: bs)[k] ^^^ signOf b0) &&& 128 = 0
        · rw [if_pos hsame, List.drop_eq_getElem_cons hklt]
          have hso := (same_sign_iff _ b0 hxk).1 hsame
          cases hrest : (b0 :: bs).drop (k + 1) with
          | nil => simp [Reduced]
          | cons y ys =>
            show (b0 :: bs)[k] ≠ signOf y
            exact notsign _ y (by rw [hso]; exact hne)
        · rw [if_neg hsame]
          have hk1 : k - 1 < (b0 :: bs).length := by omega
          rw [List.drop_eq_getElem_cons hk1]
          have hkk : k - 1 + 1 = k := by omega
          rw [hkk, List.drop_eq_getElem_cons hklt]
          show (b0 :: bs)[k - 1] ≠ signOf (b0 :: bs)[k]
          have ht := take_le_countLeading (signOf b0) (b0 :: bs) k (by rw [hk]; exact Nat.le_refl _)
          have hmem : (b0 :: bs)[k - 1] ∈ (b0 :: bs).take k := by
            rw [List.mem_take_iff_getElem]
            exact ⟨k - 1, by omega, rfl⟩
          rw [ht] at hmem
          rw [List.eq_of_mem_replicate hmem]
          intro hcontra
          exact hsame ((same_sign_iff _ b0 hxk).2 hcontra.symm)

theorem sgn_bounds (b : Nat) (h : b < 256) : -128 ≤ sgn b ∧ sgn b ≤ 127 := by
  unfold sgn; split <;> constructor <;> omega

/-- an `L+1`-byte two's-complement string denotes a value in `[-128·256^L, 128·256^L)` -/
theorem beSigned_range (b : Nat) (bs : List Nat) (h : ∀ x ∈ b :: bs, x < 256) :
    -(128 * (256 : Int) ^ bs.length) ≤ beSigned (b :: bs) ∧ beSigned (b :: bs) < 128 * (256 : Int) ^ bs.length := by
  rw [beSigned_cons]
  obtain ⟨u0, u1⟩ := beU_bounds bs (fun x hx => h x (by simp [hx]))
  obtain ⟨s0, s1⟩ := sgn_bounds b (h b (by simp))
  have hP := pow256_pos bs.length
  generalize (256 : Int) ^ bs.length = P at *
  have h1 : (-128) * P ≤ sgn b * P := Int.mul_le_mul_of_nonneg_right s0 (by omega)
  have h2 : sgn b * P ≤ 127 * P := Int.mul_le_mul_of_nonneg_right s1 (by omega)
  constructor <;> omega

/-- a reduced string of `T+2` bytes denotes a value that does not fit `T+1` bytes -/
theorem reduced_out_of_range (h0 h1 : Nat) (t : List Nat) (hall : ∀ x ∈ h0 :: h1 :: t, x < 256)
    (hr : Reduced (h0 :: h1 :: t)) :
    128 * (256 : Int) ^ t.length ≤ beSigned (h0 :: h1 :: t) ∨ beSigned (h0 :: h1 :: t) < -(128 * (256 : Int) ^ t.length) := by
  have hh0 : h0 < 256 := hall h0 (by simp)
  have hh1 : h1 < 256 := hall h1 (by simp)
  rw [beSigned_cons]
  have hU : beU (h1 :: t) = (h1 : Int) * (256 : Int) ^ t.length + beU t := rfl
  rw [hU, List.length_cons, Int.pow_succ]
  obtain ⟨u0, u1⟩ := beU_bounds t (fun x hx => hall x (by simp [hx]))
  have hP := pow256_pos t.length
  generalize (256 : Int) ^ t.length = P at *
  generalize beU t = U at *
  have hr' : h0 ≠ signOf h1 := hr
  have m0 : 0 ≤ (h1 : Int) * P := Int.mul_nonneg (by omega) (by omega)
  have m1 : (h1 : Int) * P ≤ 255 * P := Int.mul_le_mul_of_nonneg_right (by omega) (by omega)
  unfold sgn
  by_cases hneg : h0 ≥ 128
  · right
    rw [if_pos hneg]
    by_cases h255 : h0 = 255
    · -- the sign byte is needed: the next byte is positive
      have hh : h1 < 128 := by
        by_cases hc : 128 ≤ h1
        · exact absurd (by simp [signOf, hc, h255]) hr'
        · omega
      have m2 : (h1 : Int) * P ≤ 127 * P := Int.mul_le_mul_of_nonneg_right (by omega) (by omega)
      have e : ((h0 : Int) - 256) * (P * 256) = -(256 * P) := by rw [h255]; grind
      omega
    · have e : ((h0 : Int) - 256) * (P * 256) ≤ (-2) * (P * 256) :=
        Int.mul_le_mul_of_nonneg_right (by omega) (by omega)
      omega
  · left
    rw [if_neg hneg]
    by_cases h00 : h0 = 0
    · have hh : 128 ≤ h1 := by
        by_cases hc : 128 ≤ h1
        · exact hc
        · exact absurd (by simp [signOf, hc, h00]) hr'
      have m2 : 128 * P ≤ (h1 : Int) * P := Int.mul_le_mul_of_nonneg_right (by omega) (by omega)
      have e : (h0 : Int) * (P * 256) = 0 := by rw [h00]; simp
      omega
    · have e : 1 * (P * 256) ≤ (h0 : Int) * (P * 256) :=
        Int.mul_le_mul_of_nonneg_right (by omega) (by omega)
      omega

theorem pow256_mono {a b : Nat} (h : a ≤ b) : (256 : Int) ^ a ≤ (256 : Int) ^ b := by
  obtain ⟨k, rfl⟩ := Nat.exists_eq_add_of_le h
  rw [Int.pow_add]
  have h1 := pow256_pos a
  have h2 := pow256_pos k
  have : (256 : Int) ^ a * 1 ≤ (256 : Int) ^ a * (256 : Int) ^ k := Int.mul_le_mul_of_nonneg_left (by omega) (by omega)
  simpa using this

/-- **the writer's payload is the shortest two's-complement encoding** (Avro spec: "the
two's-complement representation of the unscaled integer value in big-endian byte order" —
minimal, as every other implementation writes it): no byte string denoting the same integer is
shorter. -/
theorem minimal_is_shortest (be bs : List Nat) (hbe : ∀ b ∈ be, b < 256) (hbs : ∀ b ∈ bs, b < 256)
    (hne : bs ≠ []) (hne' : be ≠ []) (hv : beSigned bs = beSigned be) :
    (minimalTwosComplement be).length ≤ bs.length := by
  have hval := beSigned_minimal be hbe
  have hred := minimal_reduced be hbe
  have hmb : ∀ b ∈ minimalTwosComplement be, b < 256 := by
    cases be with
    | nil => exact absurd rfl hne'
    | cons b0 bs0 =>
      obtain ⟨d, hm, _, _, _⟩ := minimal_shape b0 bs0 hbe
      intro b hb; rw [hm] at hb; exact hbe b (List.mem_of_mem_drop hb)
  generalize minimalTwosComplement be = m at *
  cases m with
  | nil => simp
  | cons h0 m1 =>
    cases m1 with
    | nil => cases bs with
      | nil => exact absurd rfl hne
      | cons _ _ => simp
    | cons h1 t =>
      cases bs with
      | nil => exact absurd rfl hne
      | cons c cs =>
        -- if `c :: cs` were shorter, its value would fit `t.length + 1` bytes
        refine Nat.le_of_not_lt (fun hlt => ?_)
        simp only [List.length_cons] at hlt
        have hcs : cs.length ≤ t.length := by omega
        obtain ⟨r0, r1⟩ := beSigned_range c cs hbs
        have hmono := pow256_mono hcs
        have hout := reduced_out_of_range h0 h1 t hmb hred
        rw [hv, ← hval] at r0 r1
        rcases hout with h | h <;> omega
end ArrowModel.C17.Avro
