import ArrowModel.C17.Lemmas
/-
C17 — property theorems, Avro part.  "For every record batch the Avro writer accepts,
reading the produced bytes back with the corresponding reader and the same schema returns
logically equal data" — for the binary value encoding, nullable unions in both branch orders,
general unions, nested records / arrays / maps, object-container-file block framing and
single-object framing.

All statements quantify over every schema tree, every well-typed value tree and every
following byte string `rest` (prefix-decodability), with no size bound other than the ones
the formats themselves impose (64-bit lengths, 2^31 list items).
The text formats (JSON, CSV) are in `TheoremsText.lean`.
-/
namespace ArrowModel.C17.Avro
open ArrowModel.Generated.C17
open ArrowModel.C17

/-- **`write_long` emits the Avro spec's encoding**: the zig-zag of the value written as
base-128 little-endian digits with continuation bits; at most `W_MAXLEN` = 10 bytes, so the
fixed `[0u8; 10]` buffer in `write_long` is never overrun. -/
theorem encodeLong_spec (x : BitVec 64) :
    encodeLong x = Spec.uleb (Spec.zigzag x.toInt) ∧ (encodeLong x).length ≤ W_MAXLEN := by
  have hz : (zzEnc x).toNat = Spec.zigzag x.toInt := by
    unfold Spec.zigzag
    by_cases h : 0 ≤ x.toInt
    · have hm : x.msb = false := by
        rw [BitVec.msb_eq_false_iff_two_mul_lt]
        have := BitVec.toInt_eq_toNat_cond x
        split at this <;> omega
      have hx : x.toInt = x.toNat := BitVec.toInt_eq_toNat_of_msb hm
      have he : zzEnc x = x <<< 1 := by
        have : x.sshiftRight W_ZZ_SAR = 0#64 := by
          rw [BitVec.sshiftRight_eq_of_msb_false hm]
          apply BitVec.eq_of_toNat_eq
          have := (BitVec.msb_eq_false_iff_two_mul_lt).1 hm
          simp only [BitVec.toNat_ushiftRight, W_ZZ_SAR, Nat.shiftRight_eq_div_pow, BitVec.toNat_ofNat]
          omega
        simp [zzEnc, this, W_ZZ_SHL]
      have h2 := (BitVec.msb_eq_false_iff_two_mul_lt).1 hm
      rw [if_pos h, he, hx]
      simp only [BitVec.toNat_shiftLeft, Nat.shiftLeft_eq]
      omega
    · have hm : x.msb = true := by
        cases hmsb : x.msb with
        | true => rfl
        | false => exact absurd (by rw [BitVec.toInt_eq_toNat_of_msb hmsb]; omega) h
      have h2 := (BitVec.msb_eq_true_iff_two_mul_ge).1 hm
      have hx : x.toInt = (x.toNat : Int) - 2 ^ 64 := by
        have := BitVec.toInt_eq_toNat_cond x
        split at this <;> omega
      have he : zzEnc x = ~~~(x <<< 1) := by
        simp only [zzEnc, W_ZZ_SHL, W_ZZ_SAR]
        have : x.sshiftRight 63 = BitVec.allOnes 64 := by
          have : x.msb = true := hm
          bv_decide (config := { timeout := 300 })
        rw [this, BitVec.xor_allOnes]
      rw [if_neg h, he, hx]
      simp only [BitVec.toNat_not, BitVec.toNat_shiftLeft, Nat.shiftLeft_eq]
      have := x.isLt
      omega
  refine ⟨by unfold encodeLong; rw [varintEnc_eq_uleb, hz], ?_⟩
  unfold encodeLong
  rw [varintEnc_eq_uleb]
  exact uleb_length_le_10 _ (zzEnc x).isLt

example : encodeLong (BitVec.ofInt 64 (-9223372036854775808)) =
    [255, 255, 255, 255, 255, 255, 255, 255, 255, 1] := by
  unfold encodeLong; rw [varintEnc_eq_uleb]
  have : (zzEnc (BitVec.ofInt 64 (-9223372036854775808))).toNat = 18446744073709551615 := by decide
  rw [this]
  simp [Spec.uleb]

/-- **Avro `long` round trip** (`get_long ∘ write_long = id`): for every `i64` and whatever
bytes follow, the reader returns the value written and stops exactly after it — on each of
`read_varint`'s three paths (one-byte fast path, unrolled ten-byte path, slow path). -/
theorem long_roundtrip (x : BitVec 64) (rest : List Nat) :
    decodeLong (encodeLong x ++ rest) = some (x, rest) := decodeLong_encodeLong x rest

/-- **Avro `int` round trip** (`get_int ∘ write_int = id`) for every `i32`; the `u32` range
check in `get_int` never fires on writer output. -/
theorem int_roundtrip (x : BitVec 32) (rest : List Nat) :
    decodeInt (encodeInt x ++ rest) = some (x, rest) := decodeInt_encodeInt x rest

/-- **Avro value round trip**: for every schema tree and every value tree the writer accepts
for it, `Decoder::decode` applied to the writer's bytes followed by anything returns exactly
the value and leaves exactly what followed.  Covers null, boolean, int/long (zig-zag varint),
float/double (bit patterns), bytes/string (length prefix), fixed, enum, decimals (bytes- and
fixed-backed), nullable unions in
both branch orders (the writer's `0x00`/`0x02` byte against the reader's `branch != 0` /
`branch == 0` test), general unions, records (concatenation), arrays and maps (the writer's
single positive block + terminator against the reader's block loop). -/
theorem avro_value_roundtrip (s : Schema) (v : Value) (h : wt s v = true) (rest : List Nat) :
    decode s (encode s v ++ rest) = some (v, rest) := decode_encode s v h rest

/-- non-vacuity: a nested, nullable, map-bearing schema with a well-typed value -/
example : wt (.record [.nullable false (.array (.nullable true .string)), Schema.map .long, .union [.null, .double, .fixed 2]])
    (.list [.some (.list [.some (.bytes [0xF0, 0x9F, 0x98, 0x80]), .none]),
            .list [.list [.bytes [107], .long (BitVec.ofInt 64 (-1))]],
            .union 2 (.fixed [1, 2])]) = true := by decide

/-- **Avro decimal, bytes-backed** (`minimal_twos_complement` → `sign_cast_to`): for every
unscaled value, given as the `N` big-endian two's-complement bytes `iN::to_be_bytes` produces
(`N` = 16 for Decimal128, 32 for Decimal256, any `N ≥ 1` here), the reader's sign extension of
the writer's minimal payload is the original `N` bytes — so the value comes back with its sign.
The proof uses the redundancy test `((be[k] ^ sign_byte) & 0x80) == 0` through the regenerated
constant `M_DROP_MASK`; editing that test breaks it. -/
theorem decimal_bytes_roundtrip (be : List Nat) (N : Nat) (hlen : be.length = N) (hN : 1 ≤ N)
    (hbytes : ∀ b ∈ be, b < 256) : signCast N (minimalTwosComplement be) = some be :=
  signCast_minimal be N hlen hN hbytes

/-- 128 as an i128 needs the leading `0x00`; -129 needs the leading `0xFF` -/
example : minimalTwosComplement (List.replicate 15 0 ++ [128]) = [0, 128] ∧
    minimalTwosComplement (List.replicate 14 255 ++ [255, 127]) = [255, 127] ∧
    minimalTwosComplement (List.replicate 15 0 ++ [127]) = [127] := by decide

/-- **The minimal payload denotes the same integer** as the full-width bytes (`beSigned` is
`from_be_bytes` after sign extension). -/
theorem decimal_payload_value (be : List Nat) (hbytes : ∀ b ∈ be, b < 256) :
    beSigned (minimalTwosComplement be) = beSigned be := beSigned_minimal be hbytes

/-- **The payload is the shortest two's-complement encoding** of that integer, as the Avro
specification of `decimal` over `bytes` prescribes and every other implementation writes: no
byte string denoting the same integer is shorter than what `minimal_twos_complement` returns. -/
theorem decimal_payload_shortest (be bs : List Nat) (hbe : ∀ b ∈ be, b < 256) (hbs : ∀ b ∈ bs, b < 256)
    (hne : bs ≠ []) (hne' : be ≠ []) (hv : beSigned bs = beSigned be) :
    (minimalTwosComplement be).length ≤ bs.length := minimal_is_shortest be bs hbe hbs hne hne' hv

example : beSigned [0, 128] = 128 ∧ beSigned [128] = -128 ∧ beSigned [255, 127] = -129 := by decide

/-- **Avro decimal, fixed(n)-backed** (`write_sign_extended` → `sign_cast_to`): whenever the
writer accepts the value for the fixed size `n` (truncating redundant sign bytes, copying, or
sign-extending), it writes exactly `n` bytes and the reader recovers the original `N` bytes. -/
theorem decimal_fixed_roundtrip (be out : List Nat) (N n : Nat) (hlen : be.length = N) (hN : 1 ≤ N)
    (hn : 1 ≤ n) (hbytes : ∀ b ∈ be, b < 256) (hw : writeSignExtended be n = some out) :
    out.length = n ∧ signCast N out = some be :=
  signCast_writeSignExtended be out N n hlen hN hn hbytes hw

example : writeSignExtended (List.replicate 14 255 ++ [255, 127]) 4 = some [255, 255, 255, 127] ∧
    writeSignExtended (List.replicate 14 0 ++ [128, 0]) 1 = none := by decide

/-- **Row / record round trip**: a whole row (the fields of the top-level record in schema
order, as `RecordEncoder::encode` writes them) decodes back field by field. -/
theorem avro_row_roundtrip (fields : List Schema) (row : List Value) (h : wtFields fields row = true)
    (rest : List Nat) : decodeFields fields (encodeRow fields row ++ rest) = some (row, rest) :=
  decodeFields_encodeFields fields row h rest

/-- **Batch round trip**: the concatenation of `n` encoded rows (a block payload, or a raw
binary stream) decodes to the same `n` rows. -/
theorem avro_rows_roundtrip (fields : List Schema) (rows : List (List Value))
    (h : ∀ r ∈ rows, wtFields fields r = true) (rest : List Nat) :
    decodeRows fields rows.length (rows.flatMap (encodeRow fields) ++ rest) = some (rows, rest) := by
  induction rows with
  | nil => simp [decodeRows]
  | cons r rs ih =>
    simp only [List.length_cons, List.flatMap_cons, List.append_assoc, decodeRows]
    rw [avro_row_roundtrip fields r (h r (by simp))]
    simp only
    rw [ih (fun r' hr' => h r' (by simp [hr']))]

/-- **The writer's nullable branch byte is the Avro union index**: the raw byte
`union_value_branch_byte` writes is the one-byte `long` encoding of the branch position
(null-first: null ↦ 0, value ↦ 1; null-second: value ↦ 0, null ↦ 1), which is what an
independent Avro implementation reads. -/
theorem branchByte_is_union_index (nullFirst isNull : Bool) :
    [branchByte nullFirst isNull] =
      encodeLong (BitVec.ofNat 64 (if nullFirst == isNull then 0 else 1)) := by
  have h0 : encodeLong (BitVec.ofNat 64 0) = [0] := by
    unfold encodeLong; rw [varintEnc_eq_uleb, show (zzEnc (BitVec.ofNat 64 0)).toNat = 0 by decide, Spec.uleb]; rfl
  have h1 : encodeLong (BitVec.ofNat 64 1) = [2] := by
    unfold encodeLong; rw [varintEnc_eq_uleb, show (zzEnc (BitVec.ofNat 64 1)).toNat = 2 by decide, Spec.uleb]; rfl
  cases nullFirst <;> cases isNull <;> simp [branchByte, W_BRANCH_A, W_BRANCH_B, h0, h1]

/-- **OCF block framing round trip**: `BlockDecoder::decode` applied to what
`write_ocf_block` wrote (object count, byte size, payload, 16-byte sync marker) followed by
anything returns the same count, payload and marker and stops right after the marker. -/
theorem ocf_block_roundtrip (count : Nat) (payload sync rest : List Nat)
    (hc : count < 2 ^ 63) (hp : payload.length < 2 ^ 63) (hs : sync.length = SYNC_SIZE_W) :
    decodeBlock (ocfBlock count payload sync ++ rest) =
      some ({ count := count, data := payload, sync := sync }, rest) := by
  have hlong : ∀ (n : Nat) (tail : List Nat), n < 2 ^ 63 →
      vlqLong 0 0 (encodeLong (BitVec.ofNat 64 n) ++ tail) = some (BitVec.ofNat 64 n, tail) := by
    intro n tail _
    unfold encodeLong
    rw [varintEnc_eq_uleb]
    have := vlqLong_uleb (zzEnc (BitVec.ofNat 64 n)).toNat 0 0 tail (by omega) (by simp)
      (by simpa using (zzEnc (BitVec.ofNat 64 n)).isLt)
    simp only [Nat.mul_zero, Nat.pow_zero, Nat.mul_one, Nat.zero_add] at this
    rw [this, blockZz_roundtrip]
  unfold decodeBlock ocfBlock
  simp only [List.append_assoc]
  rw [hlong count _ hc]
  simp only [toInt_ofNat_small count hc]
  have h1 : ¬ ((count : Int) < 0) := by omega
  simp only [h1, if_false]
  rw [hlong payload.length _ hp]
  simp only [toInt_ofNat_small _ hp]
  have h2 : ¬ ((payload.length : Int) < 0) := by omega
  simp only [h2, if_false, Int.toNat_natCast]
  have hs' : sync.length = 16 := hs
  have h3 : ¬ ((payload ++ (sync ++ rest)).length < payload.length + SYNC_SIZE_R) := by
    simp only [List.length_append, SYNC_SIZE_R]; omega
  rw [if_neg h3]
  have e1 : (payload ++ (sync ++ rest)).take payload.length = payload := List.take_left' rfl
  have e2 : (payload ++ (sync ++ rest)).drop payload.length = sync ++ rest := List.drop_left' rfl
  have e3 : (sync ++ rest).take SYNC_SIZE_R = sync := List.take_left' hs'
  have e4 : (sync ++ rest).drop SYNC_SIZE_R = rest := List.drop_left' hs'
  rw [e1, e2, e3, e4]

example : (16 : Nat) = SYNC_SIZE_W ∧ SYNC_SIZE_W = SYNC_SIZE_R := by decide

/-- **The OCF magic the writer emits is the one the reader demands** (`Obj\x01`). -/
theorem ocf_magic_agree : OCF_MAGIC_VERSION_W = OCF_MAGIC_VERSION_R ∧ ocfMagic.length = OCF_MAGIC_LEN := by
  decide

/-- **Single-object framing round trip**: the `C3 01` marker, the 8-byte little-endian
fingerprint and the body are recovered from `make_prefix ++ body`. -/
theorem soe_roundtrip (fp : Nat) (hfp : fp < 2 ^ 64) (body : List Nat) :
    soeParse (soeFrame fp body) = some (fp, body) ∧
    (soeFrame fp body).take 2 = [0xC3, 0x01] := by
  have hm : SINGLE_OBJECT_MAGIC.map Int.toNat = [195, 1] := by decide
  have hl := leBytes_length 8 fp
  unfold soeParse soeFrame
  rw [hm]
  refine ⟨?_, by simp⟩
  have h1 : ([195, 1] ++ leBytes 8 fp ++ body).take [195, 1].length = [195, 1] := by simp
  have h2 : [195, 1].length + 8 ≤ ([195, 1] ++ leBytes 8 fp ++ body).length := by
    simp only [List.length_append, hl]; simp
  simp only [h1, h2, and_self, if_true]
  have h3 : (([195, 1] ++ leBytes 8 fp ++ body).drop [195, 1].length).take 8 = leBytes 8 fp := by
    rw [List.append_assoc, List.drop_left' rfl]
    exact List.take_left' hl
  have h4 : ([195, 1] ++ leBytes 8 fp ++ body).drop ([195, 1].length + 8) = body :=
    List.drop_left' (by simp [hl])
  rw [h3, h4, leValue_leBytes]
  have : fp % 256 ^ 8 = fp := Nat.mod_eq_of_lt (by simpa using hfp)
  rw [this]

/-- **The source still has the shape the models were written against.**  Every `SH_*` item of
`tools/items/C17.py` is a regular expression over an exact statement sequence of /repo (block
framing of `encode_blocked_range`, the nullable branch test of the reader, the body of
`minimal_twos_complement` and `sign_cast_to`, the dispatch of `read_varint`, the flush loop of
`decode_hex_to_writer`, the escape table of the JSON tape decoder, the csv writer defaults and the
csv-core parser configuration, …).  An edit of a guard, of the order of two statements or of an
operand makes the item LOST, and this obligation false. -/
theorem source_shapes :
    SH_BLOCK_EMPTY_lost = false ∧
    SH_BLOCK_ONE_lost = false ∧
    SH_LEN_PREFIXED_lost = false ∧
    SH_WRITE_BOOL_lost = false ∧
    SH_FIELD_NULL_lost = false ∧
    SH_BRANCH_BYTE_lost = false ∧
    SH_UNION_ENC_lost = false ∧
    SH_MIN_TWOS_lost = false ∧
    SH_DEC_ENC_lost = false ∧
    SH_OCF_BLOCK_lost = false ∧
    SH_NULLABLE_READ_lost = false ∧
    SH_UNION_TAG_lost = false ∧
    SH_BLOCKWISE_lost = false ∧
    SH_BLOCK_CAP_lost = false ∧
    SH_GET_BYTES_lost = false ∧
    SH_GET_INT_lost = false ∧
    SH_READ_VARINT_lost = false ∧
    SH_SIGN_CAST_lost = false ∧
    SH_HEX_LOOP_lost = false ∧
    SH_HEX_TAIL_lost = false ∧
    SH_HEX_ENC_lost = false ∧
    SH_JSON_STR_lost = false ∧
    SH_TAPE_UNICODE_lost = false ∧
    SH_CSV_WRITER_BUILD_lost = false ∧
    SH_CSV_PARSER_lost = false ∧
    SH_CSV_NULL_lost = false ∧
    SH_LIST_VALUES_lost = false ∧
    SH_MAP_VALUES_lost = false ∧
    SH_VIEW_NULLS_lost = false ∧
    SH_UUID_VIEW_lost = false ∧
    SH_OCF_HEADER_lost = false ∧
    SH_OCF_HEADER_PICK_lost = false ∧
    SH_TRAILING_BYTES_lost = false ∧
    SH_TAPE_ESCAPES_lost = false ∧
    SH_TAPE_STRING_lost = false ∧
    SH_CSV_WRITER_DEFAULTS_lost = false := by
  decide

end ArrowModel.C17.Avro
