import ArrowModel.Generated.C17
/-
C17 — algorithm models (Avro binary encoding, OCF block framing, single-object framing).

Each function mirrors the named Rust function of `/repo`; every literal comes from
`ArrowModel.Generated.C17` (regenerated from the sources on every run).  Bytes are `Nat`s
(`< 256` wherever the Rust type is `u8`), byte strings are `List Nat`.  Fixed-width
wrap-around matters for the zig-zag (`value << 1` overflows `i64`), so 32/64-bit values are
`BitVec`s; the varint accumulators are `Nat`s with an explicit `% 2^64` where the Rust
`u64` expression can exceed 64 bits.

The JSON and CSV models live in `ModelText.lean`.
-/
namespace ArrowModel.C17.Avro
open ArrowModel.Generated.C17

/-! ## Writer side: `arrow-avro/src/writer/encoder.rs` -/

/-- zig-zag line of `write_long`: `((value << 1) ^ (value >> 63)) as u64` -/
def zzEnc (v : BitVec 64) : BitVec 64 := (v <<< W_ZZ_SHL) ^^^ (v.sshiftRight W_ZZ_SAR)

/-- the `while (zz & !0x7F) != 0 { buf[i] = ((zz & 0x7F) as u8) | 0x80; zz >>= 7 }` loop of
`write_long`, followed by the final `buf[i] = (zz & 0x7F) as u8` -/
def varintEnc (zz : BitVec 64) : List Nat :=
  if (zz &&& ~~~(BitVec.ofNat 64 W_LOOP_MASK)) ≠ 0 then
    ((zz &&& BitVec.ofNat 64 W_PAYLOAD_MASK).toNat % 256 ||| W_CONT_BIT) :: varintEnc (zz >>> W_SHIFT)
  else [(zz &&& BitVec.ofNat 64 W_LAST_MASK).toNat % 256]
termination_by zz.toNat
decreasing_by
  rename_i h
  have hz : zz ≠ 0 := by
    intro h0; subst h0; simp at h
  have : zz.toNat ≠ 0 := fun h0 => hz (BitVec.eq_of_toNat_eq (by simpa using h0))
  simp only [BitVec.toNat_ushiftRight, W_SHIFT, Nat.shiftRight_eq_div_pow]
  omega

/-- `write_long(out, value)` -/
def encodeLong (v : BitVec 64) : List Nat := varintEnc (zzEnc v)

/-- `write_int(out, value)` = `write_long(out, value as i64)` -/
def encodeInt (v : BitVec 32) : List Nat := encodeLong (v.signExtend 64)

/-- `union_value_branch_byte(null_order, is_null)`; `nullFirst` = (`null_order` is the default
`NullFirst`) -/
def branchByte (nullFirst isNull : Bool) : Nat := if nullFirst == isNull then W_BRANCH_A else W_BRANCH_B

/-- `n` little-endian bytes of `v` (`to_le_bytes`) -/
def leBytes : Nat → Nat → List Nat
  | 0, _ => []
  | n + 1, v => v % 256 :: leBytes n (v / 256)

/-- `from_le_bytes` -/
def leValue : List Nat → Nat
  | [] => 0
  | b :: bs => b + 256 * leValue bs

/-! ### Avro decimal payloads: big-endian two's-complement unscaled integers -/

/-- the `while k < be.len() && be[k] == sign_byte { k += 1 }` loop of `minimal_twos_complement` -/
def countLeading (s : Nat) : List Nat → Nat
  | [] => 0
  | b :: bs => if b = s then countLeading s bs + 1 else 0

/-- `minimal_twos_complement(be)`: drop leading sign bytes as long as the remaining first byte
still carries the sign bit (`((be[k] ^ sign_byte) & 0x80) == 0`), keeping at least one byte -/
def minimalTwosComplement (be : List Nat) : List Nat :=
  match be with
  | [] => []
  | b0 :: _ =>
    let signByte := if b0 &&& M_SIGN_MASK ≠ 0 then M_NEG_BYTE else M_POS_BYTE
    let k := countLeading signByte be
    if k = 0 then be
    else if k = be.length then be.drop (be.length - M_KEEP_ONE)
    else
      let drop := if ((be.getD k 0 ^^^ signByte) &&& M_DROP_MASK) = 0 then k else k - 1
      be.drop drop

/-- `write_sign_extended(out, src_be, n)`: exactly `n` bytes; `none` = the overflow error -/
def writeSignExtended (src : List Nat) (n : Nat) : Option (List Nat) :=
  let len := src.length
  if len = n then Option.some src
  else
    let signByte := if len > 0 ∧ src.headD 0 &&& X_SIGN_MASK ≠ 0 then 0xFF else 0x00
    if len > n then
      let extra := len - n
      if n = 0 ∧ src.all (· == signByte) then Option.some []
      else if (src.take extra).any (· != signByte) ∨ ((src.getD extra 0 ^^^ signByte) &&& X_TRUNC_MASK) ≠ 0 then Option.none
      else Option.some (src.drop extra)
    else Option.some (List.replicate (n - len) signByte ++ src)

/-- `sign_cast_to::<N>(raw)` of the reader: sign-extend, or validate-and-truncate, to `N` bytes -/
def signCast (N : Nat) (raw : List Nat) : Option (List Nat) :=
  let len := raw.length
  if len = N then Option.some raw
  else
    let first := raw.headD 0
    let signByte := if first &&& S_SIGN_MASK = 0 then 0x00 else S_NEG_BYTE
    if len > N then
      let extra := len - N
      if (raw.take extra).any (· != signByte) then Option.none
      else if N > 0 ∧ ((raw.getD extra 0 ^^^ signByte) &&& S_TRUNC_MASK) ≠ 0 then Option.none
      else Option.some (raw.drop extra)
    else Option.some (List.replicate (N - len) signByte ++ raw)

/-- the integer a big-endian two's-complement byte string denotes (`iN::from_be_bytes` after
sign extension): first byte signed, the others unsigned digits base 256 -/
def beSigned : List Nat → Int
  | [] => 0
  | b :: bs => bs.foldl (fun (a : Int) (x : Nat) => a * 256 + (x : Int)) (if b ≥ 128 then (b : Int) - 256 else (b : Int))

/-- Avro schema tree as the writer's `FieldPlan` / the reader's `Decoder` see it.  A map
`{"type":"map","values":V}` is `array (record [string, V])`: `MapEncoder::encode_map_entries`
emits exactly key-then-value per entry inside `encode_blocked_range`, and `Decoder::Map` reads
`get_bytes` then the value inside `read_blocks`. Logical types are their base type. -/
inductive Schema where
  | null | boolean | int | long | float | double | bytes | string
  | fixed (n : Nat)
  | enum (nsym : Nat)
  | nullable (nullFirst : Bool) (s : Schema)
  | union (branches : List Schema)
  | record (fields : List Schema)
  | array (item : Schema)
  /-- Avro `decimal`: `fixedSize = none` is `bytes`-backed, `some n` is `fixed(n)`-backed; `width` is
  the byte width of the Arrow decimal on both sides (16 for Decimal128, 32 for Decimal256) -/
  | decimal (fixedSize : Option Nat) (width : Nat)

/-- value trees; `bytes` serves both `bytes` and `string`, `int` both `int` and `enum`,
`list` both records (fields in order) and arrays (items) -/
inductive Value where
  | null
  | bool (b : Bool)
  | int (x : BitVec 32)
  | long (x : BitVec 64)
  | float (bits : BitVec 32)
  | double (bits : BitVec 64)
  | bytes (bs : List Nat)
  | fixed (bs : List Nat)
  | none
  | some (v : Value)
  | union (idx : Nat) (v : Value)
  | list (vs : List Value)
  /-- a decimal's unscaled value as its `width` big-endian two's-complement bytes (`to_be_bytes`) -/
  | dec (be : List Nat)

/-- `Schema.map v` -/
def Schema.map (v : Schema) : Schema := .array (.record [.string, v])

mutual
/-- `FieldEncoder::encode` + `Encoder::encode` for one value -/
def encode : Schema → Value → List Nat
  | .null, .null => []
  | .boolean, .bool b => [if b then 1 else 0]                         -- write_bool
  | .int, .int x => encodeInt x                                       -- IntEncoder
  | .enum _, .int x => encodeInt x                                    -- EnumEncoder: write_int(key)
  | .long, .long x => encodeLong x                                    -- LongEncoder
  | .float, .float b => leBytes 4 b.toNat                             -- F32Encoder: to_le_bytes
  | .double, .double b => leBytes 8 b.toNat                           -- F64Encoder
  | .bytes, .bytes bs => encodeLong (BitVec.ofNat 64 bs.length) ++ bs -- write_len_prefixed
  | .string, .bytes bs => encodeLong (BitVec.ofNat 64 bs.length) ++ bs
  | .fixed _, .fixed bs => bs                                         -- FixedEncoder
  | .decimal Option.none _, .dec be =>                                -- DecimalEncoder, bytes-backed
    encodeLong (BitVec.ofNat 64 (minimalTwosComplement be).length) ++ minimalTwosComplement be
  | .decimal (Option.some n) _, .dec be => (writeSignExtended be n).getD []   -- fixed(n)-backed
  | .nullable nf _, .none => [branchByte nf true]                     -- write_optional_index(true)
  | .nullable nf s, .some v => branchByte nf false :: encode s v
  | .union bs, .union i v =>                                          -- UnionEncoder::encode
    match bs[i]? with
    | Option.some s => encodeInt (BitVec.ofNat 32 i) ++ encode s v
    | Option.none => []
  | .record fs, .list vs => encodeFields fs vs                        -- StructEncoder::encode
  | .array s, .list vs =>                                             -- encode_blocked_range
    if vs.length = 0 then encodeLong 0
    else encodeLong (BitVec.ofNat 64 vs.length) ++ encodeItems s vs ++ encodeLong 0
  | _, _ => []
/-- the loop over `encoders` in `StructEncoder::encode` / `RecordEncoder::encode` -/
def encodeFields : List Schema → List Value → List Nat
  | s :: ss, v :: vs => encode s v ++ encodeFields ss vs
  | _, _ => []
/-- `for row in start..end { write_item(out, row)? }` -/
def encodeItems : Schema → List Value → List Nat
  | s, v :: vs => encode s v ++ encodeItems s vs
  | _, [] => []
end

/-- one row of a batch: `RecordEncoder::encode` body for a row (no prefix) -/
def encodeRow (fields : List Schema) (row : List Value) : List Nat := encodeFields fields row

/-! ## Reader side: `arrow-avro/src/reader/{vlq,cursor,record}.rs` -/

/-- `read_varint_slow`: `fuel` is what is left of `.take(10)` -/
def slowLoop : (fuel count value : Nat) → List Nat → Option (Nat × Nat)
  | 0, _, _, _ => Option.none
  | _ + 1, _, _, [] => Option.none
  | f + 1, count, value, byte :: rest =>
    let value := value ||| (((byte &&& R_SLOW_MASK) <<< (count * R_SLOW_SHIFT)) % 2 ^ 64)
    if byte ≤ R_SLOW_TERM then
      (if count ≠ R_SLOW_LAST_COUNT ∨ byte < R_SLOW_LAST_LIMIT then Option.some (value, count + 1) else Option.none)
    else slowLoop f (count + 1) value rest

def readVarintSlow (buf : List Nat) : Option (Nat × Nat) := slowLoop R_SLOW_TAKE 0 0 buf

/-- `read_varint_array`: the `for (idx, b) in buf.into_iter().take(9).enumerate()` loop (`n` =
iterations left) and then the tenth byte -/
def arrayLoop : (n idx inProgress : Nat) → List Nat → Option (Nat × Nat)
  | 0, _, ip, b :: _ =>
    let ip := (ip + (b <<< (R_ARRAY_SHIFT * R_ARRAY_LAST_IDX)) % 2 ^ 64) % 2 ^ 64
    if b < R_ARRAY_LAST_LIMIT then Option.some (ip, 10) else Option.none
  | 0, _, _, [] => Option.none
  | _ + 1, _, _, [] => Option.none
  | n + 1, idx, ip, b :: rest =>
    let ip := ip + (b <<< (R_ARRAY_SHIFT * idx))
    if b < R_ARRAY_CONT then Option.some (ip, idx + 1)
    else arrayLoop n (idx + 1) (ip - (R_ARRAY_SUB <<< (7 * idx))) rest

def readVarintArray (buf : List Nat) : Option (Nat × Nat) := arrayLoop R_ARRAY_TAKE 0 0 buf

/-- `read_varint`: one-byte fast path, the unrolled path when ten bytes are available, the
slow path otherwise; returns the value and the number of bytes read -/
def readVarint (buf : List Nat) : Option (Nat × Nat) :=
  match buf with
  | [] => Option.none
  | first :: _ =>
    if first < R_FAST_LIMIT then Option.some (first, 1)
    else if R_ARRAY_LEN ≤ buf.length then readVarintArray (buf.take R_ARRAY_LEN)
    else readVarintSlow buf

/-- `AvroCursor::read_vlq` -/
def readVlq (buf : List Nat) : Option (Nat × List Nat) :=
  match readVarint buf with
  | Option.none => Option.none
  | Option.some (v, n) => Option.some (v, buf.drop n)

/-- zig-zag line of `get_long`: `(val >> 1) as i64 ^ -((val & 1) as i64)` -/
def zzDec (val : BitVec 64) : BitVec 64 := (val >>> R_ZZ_SHR) ^^^ (-(val &&& BitVec.ofNat 64 R_ZZ_AND))

/-- zig-zag line of `get_int` on the `u32` -/
def zzDec32 (val : BitVec 32) : BitVec 32 := (val >>> R_ZZ32_SHR) ^^^ (-(val &&& BitVec.ofNat 32 R_ZZ32_AND))

/-- `AvroCursor::get_long` -/
def decodeLong (buf : List Nat) : Option (BitVec 64 × List Nat) :=
  match readVlq buf with
  | Option.none => Option.none
  | Option.some (v, rest) => Option.some (zzDec (BitVec.ofNat 64 v), rest)

/-- `AvroCursor::get_int`: the varint must fit `u32` -/
def decodeInt (buf : List Nat) : Option (BitVec 32 × List Nat) :=
  match readVlq buf with
  | Option.none => Option.none
  | Option.some (v, rest) => if v < 2 ^ 32 then Option.some (zzDec32 (BitVec.ofNat 32 v), rest) else Option.none

/-- `AvroCursor::get_fixed(n)` -/
def getFixed (n : Nat) (buf : List Nat) : Option (List Nat × List Nat) :=
  if buf.length < n then Option.none else Option.some (buf.take n, buf.drop n)

/-- `AvroCursor::get_bytes`: a non-negative `long` length, then that many bytes -/
def getBytes (buf : List Nat) : Option (List Nat × List Nat) :=
  match decodeLong buf with
  | Option.none => Option.none
  | Option.some (len, rest) => if len.toInt < 0 then Option.none else getFixed len.toInt.toNat rest

/-- `for _ in 0..count { on_item(buf)? }` of `process_block_items` -/
def decodeItems (f : List Nat → Option (Value × List Nat)) : Nat → List Nat → Option (List Value × List Nat)
  | 0, bs => Option.some ([], bs)
  | n + 1, bs =>
    match f bs with
    | Option.none => Option.none
    | Option.some (v, r) =>
      match decodeItems f n r with
      | Option.none => Option.none
      | Option.some (vs, r') => Option.some (v :: vs, r')

/-- `process_blockwise(buf, on_item, ProcessItems)` (= `read_blocks`): blocks until a zero
count; a negative count is followed by a byte size that is read, checked non-negative and
otherwise ignored; the running total is capped at `i32::MAX`.  Every iteration consumes at
least the count varint, so `fuel = remaining bytes + 1` never runs out on real input. -/
def decodeBlocks (f : List Nat → Option (Value × List Nat)) : (fuel : Nat) → List Nat → List Value → Option (List Value × List Nat)
  | 0, _, _ => Option.none
  | fuel + 1, bs, acc =>
    match decodeLong bs with
    | Option.none => Option.none
    | Option.some (c, rest) =>
      if c = 0 then Option.some (acc, rest)
      else
        let go (count : Nat) (r : List Nat) : Option (List Value × List Nat) :=
          if acc.length + count < 2 ^ 31 then
            match decodeItems f count r with
            | Option.none => Option.none
            | Option.some (vs, r') => decodeBlocks f fuel r' (acc ++ vs)
          else Option.none
        if c.toInt < 0 then
          match decodeLong rest with
          | Option.none => Option.none
          | Option.some (sz, rest2) => if sz.toInt < 0 then Option.none else go (-c.toInt).toNat rest2
        else go c.toInt.toNat rest

mutual
/-- `Decoder::decode` (one value) with the nullable / union / record / array plans -/
def decode : Schema → List Nat → Option (Value × List Nat)
  | .null, bs => Option.some (.null, bs)
  | .boolean, [] => Option.none
  | .boolean, b :: bs => Option.some (.bool (b != 0), bs)              -- get_bool
  | .int, bs => (decodeInt bs).map (fun p => (.int p.1, p.2))
  | .enum _, bs => (decodeInt bs).map (fun p => (.int p.1, p.2))
  | .long, bs => (decodeLong bs).map (fun p => (.long p.1, p.2))
  | .float, bs => (getFixed 4 bs).map (fun p => (.float (BitVec.ofNat 32 (leValue p.1)), p.2))
  | .double, bs => (getFixed 8 bs).map (fun p => (.double (BitVec.ofNat 64 (leValue p.1)), p.2))
  | .bytes, bs => (getBytes bs).map (fun p => (.bytes p.1, p.2))
  | .string, bs => (getBytes bs).map (fun p => (.bytes p.1, p.2))
  | .fixed n, bs => (getFixed n bs).map (fun p => (.fixed p.1, p.2))
  | .decimal Option.none w, bs =>                                      -- read_decimal_bytes_be, size = None
    match getBytes bs with
    | Option.none => Option.none
    | Option.some (raw, rest) => (signCast w raw).map (fun b => (.dec b, rest))
  | .decimal (Option.some n) w, bs =>                                  -- size = Some(n)
    match getFixed n bs with
    | Option.none => Option.none
    | Option.some (raw, rest) => (signCast w raw).map (fun b => (.dec b, rest))
  | .nullable nf s, bs =>                                              -- NullablePlan::ReadTag
    match readVlq bs with
    | Option.none => Option.none
    | Option.some (branch, rest) =>
      let isNotNull := if nf then branch != 0 else branch == 0
      if isNotNull then (decode s rest).map (fun p => (.some p.1, p.2)) else Option.some (.none, rest)
  | .union branches, bs =>                                             -- UnionDecoder::read_tag + emit_to
    match decodeLong bs with
    | Option.none => Option.none
    | Option.some (tag, rest) =>
      if tag.toInt < 0 then Option.none
      else (decodeBranch branches tag.toInt.toNat rest).map (fun p => (.union tag.toInt.toNat p.1, p.2))
  | .record fs, bs => (decodeFields fs bs).map (fun p => (.list p.1, p.2))
  | .array s, bs => (decodeBlocks (decode s) (bs.length + 1) bs []).map (fun p => (.list p.1, p.2))
/-- `for encoding in encodings { encoding.decode(buf)? }` -/
def decodeFields : List Schema → List Nat → Option (List Value × List Nat)
  | [], bs => Option.some ([], bs)
  | s :: ss, bs =>
    match decode s bs with
    | Option.none => Option.none
    | Option.some (v, r) =>
      match decodeFields ss r with
      | Option.none => Option.none
      | Option.some (vs, r') => Option.some (v :: vs, r')
/-- `self.branches.emit_to(reader_idx)?.decode(buf)`: an index past the branches is an error -/
def decodeBranch : List Schema → Nat → List Nat → Option (Value × List Nat)
  | [], _, _ => Option.none
  | s :: _, 0, bs => decode s bs
  | _ :: ss, n + 1, bs => decodeBranch ss n bs
end

/-- decode `n` consecutive rows (`RecordDecoder::decode(buf, count)`) -/
def decodeRows (fields : List Schema) : Nat → List Nat → Option (List (List Value) × List Nat)
  | 0, bs => Option.some ([], bs)
  | n + 1, bs =>
    match decodeFields fields bs with
    | Option.none => Option.none
    | Option.some (row, r) =>
      match decodeRows fields n r with
      | Option.none => Option.none
      | Option.some (rows, r') => Option.some (row :: rows, r')

/-! ## Well-typedness (the writer's precondition: the Arrow array has the schema's type) -/

mutual
def wt : Schema → Value → Bool
  | .null, .null => true
  | .boolean, .bool _ => true
  | .int, .int _ => true
  | .enum n, .int x => decide (0 ≤ x.toInt) && decide (x.toInt < n)
  | .long, .long _ => true
  | .float, .float _ => true
  | .double, .double _ => true
  | .bytes, .bytes bs => decide (bs.length < 2 ^ 63)
  | .string, .bytes bs => decide (bs.length < 2 ^ 63)
  | .fixed n, .fixed bs => decide (bs.length = n)
  | .decimal Option.none w, .dec be =>
    decide (be.length = w) && decide (1 ≤ w) && decide (w < 2 ^ 63) && be.all (· < 256)
  | .decimal (Option.some n) w, .dec be =>
    decide (be.length = w) && decide (1 ≤ w) && decide (1 ≤ n) && be.all (· < 256) && (writeSignExtended be n).isSome
  | .nullable _ _, .none => true
  | .nullable _ s, .some v => wt s v
  | .union bs, .union i v =>
    match bs[i]? with
    | Option.some s => decide (i < 2 ^ 31) && wt s v
    | Option.none => false
  | .record fs, .list vs => wtFields fs vs
  | .array s, .list vs => decide (vs.length < 2 ^ 31) && wtItems s vs
  | _, _ => false
def wtFields : List Schema → List Value → Bool
  | s :: ss, v :: vs => wt s v && wtFields ss vs
  | [], [] => true
  | _, _ => false
def wtItems : Schema → List Value → Bool
  | s, v :: vs => wt s v && wtItems s vs
  | _, [] => true
end

/-! ## Object container file blocks: `Writer::write_ocf_block`, `BlockDecoder::decode` -/

/-- `write_ocf_block`: object count, byte size, payload, sync marker -/
def ocfBlock (count : Nat) (payload sync : List Nat) : List Nat :=
  encodeLong (BitVec.ofNat 64 count) ++ encodeLong (BitVec.ofNat 64 payload.length) ++ payload ++ sync

/-- `VLQDecoder::long` over one buffer: `(in_progress, shift)` state, overflow guard at
`shift == 63 && byte >= 2`, zig-zag at the terminator.  `none` = error or input exhausted. -/
def vlqLong : (inProgress shift : Nat) → List Nat → Option (BitVec 64 × List Nat)
  | _, _, [] => Option.none
  | ip, shift, byte :: rest =>
    if shift = B_OVF_SHIFT ∧ byte ≥ B_OVF_LIMIT then Option.none
    else
      let ip := ip ||| (((byte &&& B_MASK) <<< shift) % 2 ^ 64)
      if byte &&& B_CONT = 0 then
        Option.some ((BitVec.ofNat 64 ip >>> B_ZZ_SHR) ^^^ (-(BitVec.ofNat 64 ip &&& 1)), rest)
      else vlqLong ip (shift + B_SHIFT) rest

structure Block where
  count : Nat
  data : List Nat
  sync : List Nat

/-- `BlockDecoder::decode` on a buffer holding at least one whole block: states
`Count → Size → Data → Sync → Finished`; negative count or size is an error -/
def decodeBlock (buf : List Nat) : Option (Block × List Nat) :=
  match vlqLong 0 0 buf with
  | Option.none => Option.none
  | Option.some (c, r1) =>
    if c.toInt < 0 then Option.none else
    match vlqLong 0 0 r1 with
    | Option.none => Option.none
    | Option.some (sz, r2) =>
      if sz.toInt < 0 then Option.none else
      let n := sz.toInt.toNat
      if r2.length < n + SYNC_SIZE_R then Option.none
      else Option.some ({ count := c.toInt.toNat, data := r2.take n, sync := (r2.drop n).take SYNC_SIZE_R },
                 (r2.drop n).drop SYNC_SIZE_R)

/-- the four magic bytes `Obj\x01` written by `AvroOcfFormat::start_stream` -/
def ocfMagic : List Nat := [0x4F, 0x62, 0x6A, OCF_MAGIC_VERSION_W]

/-! ## Single-object encoding: `Fingerprint::make_prefix` (Rabin) + body -/

/-- `C3 01`, the 8-byte little-endian Rabin fingerprint, the record body -/
def soeFrame (fp : Nat) (body : List Nat) : List Nat :=
  SINGLE_OBJECT_MAGIC.map Int.toNat ++ leBytes 8 fp ++ body

/-- reader side: check the magic, split off the fingerprint -/
def soeParse (buf : List Nat) : Option (Nat × List Nat) :=
  let m := SINGLE_OBJECT_MAGIC.map Int.toNat
  if buf.take m.length = m ∧ m.length + 8 ≤ buf.length then
    Option.some (leValue ((buf.drop m.length).take 8), buf.drop (m.length + 8))
  else Option.none

end ArrowModel.C17.Avro
