/-
C17 — specification-level definitions (import-free).

The property statement appeals to three textbook encodings; they are stated here in the
most naive form available, independent of how arrow-rs implements them:

* Avro `long`: zig-zag (`0,-1,1,-2,… ↦ 0,1,2,3,…`) followed by base-128 little-endian
  digits with a continuation bit (Avro 1.11.1 §"Binary encoding");
* RFC 4180 quoting: a field is quoted iff it contains the delimiter, the quote, CR or LF,
  and a quote inside a quoted field is doubled;
* RFC 8259 strings: `"` `\` and the C0 controls must be escaped, any code point may be
  written as `\uXXXX` (UTF-16 code units, surrogate pairs above the BMP).
-/
namespace ArrowModel.C17.Spec

/-- zig-zag on mathematical integers -/
def zigzag (x : Int) : Nat := if 0 ≤ x then (2 * x).toNat else (-2 * x - 1).toNat

/-- inverse of `zigzag` -/
def unzigzag (z : Nat) : Int := if z % 2 = 0 then (z / 2 : Nat) else -((z / 2 : Nat) : Int) - 1

/-- base-128 digits, least significant first, continuation bit on all but the last -/
def uleb (z : Nat) : List Nat := if z < 128 then [z] else (z % 128 + 128) :: uleb (z / 128)

/-- value of a ULEB128 digit string (continuation bits ignored) -/
def ulebValue : List Nat → Nat
  | [] => 0
  | b :: bs => b % 128 + 128 * ulebValue bs

/-- RFC 4180: must this field be quoted? (`d` delimiter, `q` quote; CR = 13, LF = 10) -/
def csvNeedsQuote (d q : Nat) (field : List Nat) : Bool :=
  field.any (fun b => b == d || b == q || b == 13 || b == 10)

/-- RFC 4180 quoting of one field: double every quote, wrap in quotes -/
def csvQuote (q : Nat) (field : List Nat) : List Nat :=
  q :: (field.flatMap (fun b => if b = q then [q, q] else [b])) ++ [q]

/-- RFC 8259: code points that may not appear raw inside a string -/
def jsonMustEscape (c : Nat) : Bool := c < 0x20 || c == 0x22 || c == 0x5C

/-- a Unicode scalar value: a code point that is not a surrogate -/
def isScalar (c : Nat) : Bool := c < 0xD800 || (0xE000 ≤ c && c < 0x110000)

end ArrowModel.C17.Spec
