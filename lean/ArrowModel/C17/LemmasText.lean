import ArrowModel.C17.ModelText
import ArrowModel.C17.Spec
/-
C17 — helper lemmas for the text formats: the csv-core reader automaton run over the csv-core
writer's output (field by field, record by record), and the JSON tape decoder's
`String`/`Escape`/`Unicode` states run over serde_json's escaped output.
-/
namespace ArrowModel.C17.Csv

structure Cfg (d q : Nat) : Prop where
  dq : d ≠ q
  d10 : d ≠ 10
  d13 : d ≠ 13
  q10 : q ≠ 10
  q13 : q ≠ 13

theorem run_append (d q : Nat) (p : P) (a b : List Nat) : run d q p (a ++ b) = run d q (run d q p a) b := by
  simp [run, List.foldl_append]

theorem run_cons (d q : Nat) (p : P) (c : Nat) (cs : List Nat) : run d q p (c :: cs) = run d q (step d q p c) cs := rfl

theorem run_nil (d q : Nat) (p : P) : run d q p [] = p := rfl

/-- a byte that does not require quotes is copied in `InField` -/
theorem step_inField_plain (d q : Nat) (p : P) (c : Nat) (hp : p.st = .inField) (hc : requiresQuotes d q c = false) :
    step d q p c = { p with cur := p.cur ++ [c] } := by
  simp only [requiresQuotes, Bool.or_eq_false_iff, beq_eq_false_iff_ne, ne_eq] at hc
  obtain ⟨⟨⟨h1, h2⟩, h3⟩, h4⟩ := hc
  simp [step, hp, h1, isTerm, h3, h4]

theorem run_inField_plain (d q : Nat) (f : List Nat) : ∀ (p : P), p.st = .inField →
    (∀ b ∈ f, requiresQuotes d q b = false) → run d q p f = { p with cur := p.cur ++ f } := by
  induction f with
  | nil => intro p _ _; simp [run_nil]
  | cons c f ih =>
    intro p hp hf
    rw [run_cons, step_inField_plain d q p c hp (hf c (by simp))]
    rw [ih { p with cur := p.cur ++ [c] } hp (fun b hb => hf b (by simp [hb]))]
    simp

theorem run_inQuoted_body (d q : Nat) (f : List Nat) : ∀ (p : P), p.st = .inQuoted →
    run d q p (quoteBody q f) = { p with cur := p.cur ++ f } := by
  induction f with
  | nil => intro p _; simp [quoteBody, run_nil]
  | cons c f ih =>
    intro p hp
    by_cases hc : c = q
    · subst hc
      simp only [quoteBody, if_true, run_cons]
      have h1 : step d c p c = { p with st := .inDoubleEscapedQuote } := by simp [step, hp]
      rw [h1]
      have h2 : step d c { p with st := .inDoubleEscapedQuote } c = { p with st := .inQuoted, cur := p.cur ++ [c] } := by
        simp [step]
      rw [h2, ih _ rfl]
      simp [hp]
    · simp only [quoteBody, if_neg hc, run_cons]
      have h1 : step d q p c = { p with cur := p.cur ++ [c] } := by simp [step, hp, hc]
      rw [h1, ih { p with cur := p.cur ++ [c] } hp]
      simp

/-- state after one written field, starting at `StartField` with an empty accumulator -/
def afterField (d q : Nat) (p : P) (f : List Nat) : P :=
  if needsQuotes d q f then { p with st := .inDoubleEscapedQuote, cur := f }
  else if f = [] then p else { p with st := .inField, cur := f }

theorem run_writeField (d q : Nat) (p : P) (f : List Nat) (hp : p.st = .startField) (hc : p.cur = []) :
    run d q p (writeField d q f) = afterField d q p f := by
  unfold writeField afterField
  split
  · -- quoted
    rw [run_cons, run_append]
    have h1 : step d q p q = { p with st := .inQuoted } := by simp [step, hp, stepStartField]
    rw [h1, run_inQuoted_body d q f _ rfl, run_cons, run_nil]
    simp [step, hc]
  · rename_i hn
    have hall : ∀ b ∈ f, requiresQuotes d q b = false := by
      intro b hb
      simp only [needsQuotes, List.any_eq_true, not_exists, not_and, Bool.not_eq_true] at hn
      exact hn b hb
    cases f with
    | nil => simp [run_nil]
    | cons c f =>
      simp only [reduceCtorEq, if_false]
      have hcq := hall c (by simp)
      simp only [requiresQuotes, Bool.or_eq_false_iff, beq_eq_false_iff_ne, ne_eq] at hcq
      obtain ⟨⟨⟨h1, h2⟩, h3⟩, h4⟩ := hcq
      rw [run_cons]
      have hs : step d q p c = { p with st := .inField, cur := p.cur ++ [c] } := by
        simp [step, hp, stepStartField, h1, h2, isTerm, h3, h4]
      rw [hs, run_inField_plain d q f _ rfl (fun b hb => hall b (by simp [hb]))]
      simp [hc]

theorem step_delim_afterField (d q : Nat) (cfg : Cfg d q) (p : P) (f : List Nat) (hp : p.st = .startField) (hc : p.cur = []) :
    step d q (afterField d q p f) d = { p with fields := p.fields ++ [f] } := by
  have := cfg.dq
  unfold afterField
  split
  · simp [step, this, endField, hp, hc]
  · split
    · rename_i h; subst h
      cases p; simp_all [step, stepStartField, endField]
    · cases p; simp_all [step, endField]

theorem step_term_afterField (d q : Nat) (cfg : Cfg d q) (p : P) (f : List Nat) (hp : p.st = .startField) (hc : p.cur = []) :
    step d q (afterField d q p f) 10 = { st := .startRecord, cur := [], fields := [], recs := p.recs ++ [p.fields ++ [f]] } := by
  have h1 := cfg.d10; have h2 := cfg.q10
  have h1' : ¬ (10 = d) := fun h => h1 h.symm
  have h2' : ¬ (10 = q) := fun h => h2 h.symm
  unfold afterField
  split
  · simp [step, h1', h2', isTerm, endRecord]
  · split
    · rename_i h; subst h
      cases p; simp_all [step, stepStartField, isTerm, endRecord]
    · cases p; simp_all [step, isTerm, endRecord]

/-- all fields of a record followed by the line terminator -/
theorem run_writeFields (d q : Nat) (cfg : Cfg d q) (fs : List (List Nat)) (hne : fs ≠ []) : ∀ (p : P),
    p.st = .startField → p.cur = [] →
    run d q p (writeFields d q fs ++ [10]) =
      { st := .startRecord, cur := [], fields := [], recs := p.recs ++ [p.fields ++ fs] } := by
  induction fs with
  | nil => exact absurd rfl hne
  | cons f fs ih =>
    intro p hp hc
    cases fs with
    | nil =>
      simp only [writeFields]
      rw [run_append, run_writeField d q p f hp hc, run_cons, run_nil, step_term_afterField d q cfg p f hp hc]
    | cons g gs =>
      simp only [writeFields, List.append_assoc, List.cons_append]
      rw [run_append, run_writeField d q p f hp hc, run_cons, step_delim_afterField d q cfg p f hp hc]
      have := ih (by simp) { p with fields := p.fields ++ [f] } hp hc
      simp only [writeFields, List.append_assoc, List.cons_append] at this
      rw [this]
      simp

theorem writeField_head (d q : Nat) (f : List Nat) (c : Nat) (rest : List Nat)
    (h : writeField d q f = c :: rest) (cfg : Cfg d q) : isTerm c = false := by
  unfold writeField at h
  split at h
  · simp only [List.cons.injEq] at h
    obtain ⟨h1, _⟩ := h
    subst h1
    simp [isTerm, cfg.q13, cfg.q10]
  · rename_i hn
    subst h
    simp only [needsQuotes, List.any_eq_true, not_exists, not_and, Bool.not_eq_true] at hn
    have := hn c (by simp)
    simp only [requiresQuotes, Bool.or_eq_false_iff, beq_eq_false_iff_ne, ne_eq] at this
    simp [isTerm, this.1.2, this.2]

theorem writeFields_head (d q : Nat) (cfg : Cfg d q) (fs : List (List Nat)) (c : Nat) (rest : List Nat)
    (h : writeFields d q fs = c :: rest) : isTerm c = false := by
  cases fs with
  | nil => simp [writeFields] at h
  | cons f fs =>
    cases fs with
    | nil => exact writeField_head d q f c rest (by simpa [writeFields] using h) cfg
    | cons g gs =>
      simp only [writeFields] at h
      cases hw : writeField d q f with
      | nil =>
        rw [hw] at h
        simp only [List.nil_append, List.cons.injEq] at h
        obtain ⟨h1, _⟩ := h
        subst h1
        simp [isTerm, cfg.d13, cfg.d10]
      | cons c' r' =>
        rw [hw] at h
        simp only [List.cons_append, List.cons.injEq] at h
        rw [← h.1]
        exact writeField_head d q f c' r' hw cfg

theorem writeFields_eq_nil (d q : Nat) (fs : List (List Nat)) (hne : fs ≠ []) (h : writeFields d q fs = []) :
    fs = [[]] := by
  cases fs with
  | nil => exact absurd rfl hne
  | cons f fs =>
    cases fs with
    | nil =>
      simp only [writeFields, writeField] at h
      split at h
      · simp at h
      · subst h; rfl
    | cons g gs => simp [writeFields] at h

/-- one written record, read from `StartRecord` -/
theorem run_writeRecord (d q : Nat) (cfg : Cfg d q) (fs : List (List Nat)) (hne : fs ≠ []) (recs : List (List (List Nat))) :
    run d q { st := .startRecord, cur := [], fields := [], recs := recs } (writeRecord d q fs) =
      { st := .startRecord, cur := [], fields := [], recs := recs ++ [fs] } := by
  unfold writeRecord
  simp only
  split
  · rename_i hb
    have := writeFields_eq_nil d q fs hne hb
    subst this
    have h1 := cfg.q10; have h2 := cfg.q13; have h3 := cfg.dq
    have h1' : ¬ (10 = d) := fun h => cfg.d10 h.symm
    have h2' : ¬ (10 = q) := fun h => h1 h.symm
    simp [run, step, stepStartRecord, stepStartField, isTerm, h1, h2, h1', h2', endRecord]
  · rename_i hb
    cases hw : writeFields d q fs with
    | nil => exact absurd hw hb
    | cons c rest =>
      have hterm := writeFields_head d q cfg fs c rest hw
      have key : run d q { st := .startRecord, cur := [], fields := [], recs := recs } (c :: rest ++ [10]) =
          run d q { st := .startField, cur := [], fields := [], recs := recs } (c :: rest ++ [10]) := by
        simp only [List.cons_append, run_cons]
        congr 1
        simp [step, stepStartRecord, hterm]
      rw [key, ← hw, run_writeFields d q cfg fs hne _ rfl rfl]
      simp

end ArrowModel.C17.Csv

namespace ArrowModel.C17.Json
open ArrowModel.Generated.C17

theorem parseHexDigit_hexDigit : ∀ n, n < 16 → parseHexDigit (hexDigit n) = some n := by decide

theorem hex2_value : ∀ b, b < 32 →
    (((((0 <<< 4 ||| 0) % 65536) <<< 4 ||| b / 16) % 65536) <<< 4 ||| b % 16) % 65536 = b := by decide

theorem parseHex4_ctrl (b : Nat) (hb : b < 32) (tail : List Nat) :
    parseHex4 (0x30 :: 0x30 :: hexDigit (b / 16) :: hexDigit (b % 16) :: tail) = some (b, tail) := by
  have h1 := parseHexDigit_hexDigit (b / 16) (by omega)
  have h2 := parseHexDigit_hexDigit (b % 16) (by omega)
  have h0 : parseHexDigit 0x30 = some 0 := by decide
  simp only [parseHex4, h0, h1, h2, J_HEX_SHIFT]
  rw [hex2_value b hb]

/-- every escape the writer produces is undone by the `Escape` / `Unicode` states -/
theorem unescapeOne_escapeByte (b : Nat) (tail : List Nat)
    (h : b < 0x20 ∨ b = 0x22 ∨ b = 0x5C) :
    ∃ out, escapeByte b = 0x5C :: out ∧ unescapeOne (out ++ tail) = some ([b], tail) ∧ 0 < out.length := by
  unfold escapeByte
  by_cases h22 : b = 0x22
  · subst h22; exact ⟨[0x22], by simp, by simp [unescapeOne], by simp⟩
  by_cases h5c : b = 0x5C
  · subst h5c; exact ⟨[0x5C], by simp, by simp [unescapeOne], by simp⟩
  by_cases h8 : b = 0x08
  · subst h8; exact ⟨[0x62], by simp, by simp [unescapeOne, J_ESC_B], by simp⟩
  by_cases hc : b = 0x0C
  · subst hc; exact ⟨[0x66], by simp, by simp [unescapeOne, J_ESC_F], by simp⟩
  by_cases ha : b = 0x0A
  · subst ha; exact ⟨[0x6E], by simp, by simp [unescapeOne], by simp⟩
  by_cases hd : b = 0x0D
  · subst hd; exact ⟨[0x72], by simp, by simp [unescapeOne], by simp⟩
  by_cases h9 : b = 0x09
  · subst h9; exact ⟨[0x74], by simp, by simp [unescapeOne], by simp⟩
  have hlt : b < 0x20 := by omega
  refine ⟨[0x75, 0x30, 0x30, hexDigit (b / 16), hexDigit (b % 16)], by simp [*], ?_, by simp⟩
  simp only [List.cons_append, List.nil_append, unescapeOne, if_true]
  rw [parseHex4_ctrl b hlt tail]
  have hs : isScalar b = true := by simp [isScalar]; omega
  have hu : utf8 b = [b] := by simp [utf8]; omega
  simp [hs, hu]

theorem escapeByte_raw (b : Nat) (h : ¬ (b < 0x20 ∨ b = 0x22 ∨ b = 0x5C)) : escapeByte b = [b] := by
  unfold escapeByte
  have : b ≠ 0x22 ∧ b ≠ 0x5C ∧ b ≠ 8 ∧ b ≠ 0xC ∧ b ≠ 0xA ∧ b ≠ 0xD ∧ b ≠ 9 ∧ ¬ b < 0x20 := by omega
  simp [this]

theorem unescapeFuel_escapeBody (s : List Nat) (rest : List Nat) : ∀ (fuel : Nat) (acc : List Nat),
    (escapeBody s).length < fuel →
    unescapeFuel fuel (escapeBody s ++ 0x22 :: rest) acc = some (acc ++ s, rest) := by
  induction s with
  | nil =>
    intro fuel acc hf
    obtain ⟨f, rfl⟩ : ∃ f, fuel = f + 1 := ⟨fuel - 1, by omega⟩
    simp [escapeBody, unescapeFuel]
  | cons b s ih =>
    intro fuel acc hf
    obtain ⟨f, rfl⟩ : ∃ f, fuel = f + 1 := ⟨fuel - 1, by omega⟩
    have hbody : escapeBody (b :: s) = escapeByte b ++ escapeBody s := by simp [escapeBody]
    rw [hbody] at hf ⊢
    by_cases h : b < 0x20 ∨ b = 0x22 ∨ b = 0x5C
    · obtain ⟨out, he, hu, hl⟩ := unescapeOne_escapeByte b (escapeBody s ++ 0x22 :: rest) h
      rw [he] at hf ⊢
      simp only [List.cons_append, List.append_assoc, unescapeFuel]
      rw [if_pos trivial, hu]
      simp only
      have hlen : (escapeBody s ++ 0x22 :: rest).length < (out ++ (escapeBody s ++ 0x22 :: rest)).length + 1 := by
        simp only [List.length_append]; omega
      rw [if_pos hlen]
      have := ih f (acc ++ [b]) (by simp only [List.length_cons, List.length_append] at hf; omega)
      rw [this]; simp
    · rw [escapeByte_raw b h] at hf ⊢
      have hb : b ≠ 0x22 ∧ b ≠ 0x5C := by omega
      simp only [List.cons_append, List.nil_append, unescapeFuel, if_neg hb.1, if_neg hb.2]
      have := ih f (acc ++ [b]) (by simp only [List.length_cons, List.length_append, List.length_nil] at hf; omega)
      rw [this]; simp

theorem decodeString_encodeString (s rest : List Nat) :
    decodeString (encodeString s ++ rest) = some (s, rest) := by
  simp only [encodeString, decodeString, List.cons_append, List.append_assoc]
  have := unescapeFuel_escapeBody s rest ((escapeBody s ++ ([0x22] ++ rest)).length + 1) [] (by simp only [List.length_append]; omega)
  simpa using this
/-! ### hex-encoded binary columns -/

theorem decodeHexLoop_eq : ∀ (s buf out : List Nat),
    decodeHexLoop buf out s = (decodeHexSimple s).map (fun r => out ++ (buf ++ r))
  | [], buf, out => by simp [decodeHexLoop, decodeHexSimple]
  | [c], buf, out => by simp [decodeHexLoop, decodeHexSimple, Option.map_map, Function.comp_def]
  | a :: b :: rest, buf, out => by
    rw [decodeHexLoop, decodeHexSimple]
    cases ha : decodeHexDigit a with
    | none => simp
    | some h =>
      cases hb : decodeHexDigit b with
      | none => simp
      | some l =>
        simp only
        split
        · rw [decodeHexLoop_eq rest]
          cases decodeHexSimple rest <;> simp
        · rw [decodeHexLoop_eq rest]
          cases decodeHexSimple rest <;> simp

theorem decodeHexToWriter_eq (s : List Nat) : decodeHexToWriter s = decodeHexSimple s := by
  unfold decodeHexToWriter
  rw [decodeHexLoop_eq]
  cases decodeHexSimple s <;> simp

theorem decodeHexDigit_hexDigit : ∀ n, n < 16 → decodeHexDigit (hexDigit n) = some n := by decide

theorem decodeHexSimple_encodeHex (bs : List Nat) (h : ∀ b ∈ bs, b < 256) :
    decodeHexSimple (encodeHex bs) = some bs := by
  induction bs with
  | nil => simp [encodeHex, decodeHexSimple]
  | cons b bs ih =>
    have hb : b < 256 := h b (by simp)
    have e : encodeHex (b :: bs) = hexDigit (b / 16 % 16) :: hexDigit (b % 16) :: encodeHex bs := by
      simp [encodeHex]
    rw [e, decodeHexSimple, decodeHexDigit_hexDigit _ (by omega), decodeHexDigit_hexDigit _ (by omega),
      ih (fun x hx => h x (by simp [hx]))]
    simp only
    have sh : (b / 16 % 16) <<< J_BIN_SHIFT ||| b % 16 = b / 16 % 16 * 16 + b % 16 := by
      show (b / 16 % 16) <<< 4 ||| b % 16 = _
      rw [← Nat.shiftLeft_add_eq_or_of_lt (by omega : b % 16 < 2 ^ 4), Nat.shiftLeft_eq]
    rw [sh]
    congr 2
    omega
end ArrowModel.C17.Json
