import ArrowModel.C17.LemmasText
/-
C17 — property theorems, text formats.

CSV: "the CSV reader splits fields as RFC 4180 requires" and writer → reader round trip for
every field content (the null sentinel is an ordinary field value: the theorem is about
*all* byte strings, so a sentinel distinct from every value is recovered like any other).
JSON: string tokens written by the writer are decoded back by the reader for every string,
including `"`, `\`, every control character and non-BMP characters; `\uXXXX` escapes of the
Basic Multilingual Plane decode to the escaped character, and surrogate pairs decode to the character they spell in every plane
(`json_surrogate_pair`; false for the `|` form of earlier revisions of `tape.rs`).
-/
namespace ArrowModel.C17.Csv

/-- **The writer's quoting rule is RFC 4180's** (`QuoteStyle::Necessary`): a field is quoted
exactly when it contains the delimiter, the quote, CR or LF; quoting doubles every quote. -/
theorem csv_writeField_spec (d q : Nat) (f : List Nat) :
    writeField d q f = if Spec.csvNeedsQuote d q f then Spec.csvQuote q f else f := by
  have hq : ∀ g : List Nat, quoteBody q g = g.flatMap (fun b => if b = q then [q, q] else [b]) := by
    intro g
    induction g with
    | nil => rfl
    | cons b g ih => by_cases h : b = q <;> simp [quoteBody, h, ih]
  have hn : needsQuotes d q f = Spec.csvNeedsQuote d q f := rfl
  unfold writeField
  rw [hn, hq]
  split <;> simp [Spec.csvQuote]

/-- **CSV round trip** (`split (write records) = records`): for every delimiter/quote pair that
is a legal configuration (distinct, neither CR nor LF), every list of records with at least
one field each and *every* field content — delimiters, quotes, CR, LF, leading/trailing
blanks, empty fields, a lone empty field — the csv-core reader automaton (as configured by
arrow-csv) returns exactly the records the writer was given. -/
theorem csv_roundtrip (d q : Nat) (cfg : Cfg d q) (recs : List (List (List Nat)))
    (h : ∀ r ∈ recs, r ≠ []) : readRecords d q (writeRecords d q recs) = recs := by
  have key : ∀ (rs acc : List (List (List Nat))), (∀ r ∈ rs, r ≠ []) →
      run d q { st := .startRecord, cur := [], fields := [], recs := acc } (writeRecords d q rs) =
        { st := .startRecord, cur := [], fields := [], recs := acc ++ rs } := by
    intro rs
    induction rs with
    | nil => intro acc _; simp [writeRecords, run_nil]
    | cons r rs ih =>
      intro acc hr
      have : writeRecords d q (r :: rs) = writeRecord d q r ++ writeRecords d q rs := by
        simp [writeRecords]
      rw [this, run_append, run_writeRecord d q cfg r (hr r (by simp)) acc,
        ih (acc ++ [r]) (fun r' hr' => hr r' (by simp [hr']))]
      simp
  unfold readRecords
  rw [key recs [] h]
  simp [finish]

/-- arrow-csv's defaults are a legal configuration -/
example : Cfg 44 34 := ⟨by decide, by decide, by decide, by decide, by decide⟩

/-- non-vacuity: delimiters, quotes, CR/LF, a lone empty field and leading blanks -/
example : readRecords 44 34 (writeRecords 44 34 [[[97, 44, 34], [], [32, 98]], [[]], [[13, 10], [34]]]) =
    [[[97, 44, 34], [], [32, 98]], [[]], [[13, 10], [34]]] := by decide

end ArrowModel.C17.Csv

namespace ArrowModel.C17.Json
open ArrowModel.Generated.C17

/-- **JSON string round trip**: for every string (as UTF-8 bytes — quotes, backslashes, all
32 control characters, DEL, multi-byte and non-BMP characters alike) the token the writer
emits (`serde_json` escaping) is decoded by the tape decoder's `String`/`Escape`/`Unicode`
states to the same bytes, consuming exactly the token. -/
theorem json_string_roundtrip (s rest : List Nat) :
    decodeString (encodeString s ++ rest) = some (s, rest) := decodeString_encodeString s rest

example : encodeString [0x22, 0x08, 0xF0, 0x9F, 0x98, 0x80, 0x5C, 0x0A, 0x1F, 0x7F] =
    [0x22, 0x5C, 0x22, 0x5C, 0x62, 0xF0, 0x9F, 0x98, 0x80, 0x5C, 0x5C, 0x5C, 0x6E,
     0x5C, 0x75, 0x30, 0x30, 0x31, 0x66, 0x7F, 0x22] := by decide

/-- **The writer escapes exactly what RFC 8259 requires** and nothing is left raw that must
be escaped: every byte of the escaped body is either outside the must-escape set or part of
an escape sequence introduced by a backslash. -/
theorem json_escapes_required (b : Nat) :
    (Spec.jsonMustEscape b = true → ∃ out, escapeByte b = 0x5C :: out) ∧
    (Spec.jsonMustEscape b = false → escapeByte b = [b]) := by
  constructor
  · intro h
    have hb : b < 0x20 ∨ b = 0x22 ∨ b = 0x5C := by
      simp only [Spec.jsonMustEscape, Bool.or_eq_true, decide_eq_true_eq, beq_iff_eq] at h
      omega
    obtain ⟨out, he, _, _⟩ := unescapeOne_escapeByte b [] hb
    exact ⟨out, he⟩
  · intro h
    apply escapeByte_raw
    simp only [Spec.jsonMustEscape, Bool.or_eq_false_iff, decide_eq_false_iff_not, beq_eq_false_iff_ne] at h
    omega

theorem parseHex4_hex4 (c : Nat) (hc : c < 65536) (tail : List Nat) :
    parseHex4 (hex4 c ++ tail) = some (c, tail) := by
  have h1 := parseHexDigit_hexDigit (c / 4096 % 16) (by omega)
  have h2 := parseHexDigit_hexDigit (c / 256 % 16) (by omega)
  have h3 := parseHexDigit_hexDigit (c / 16 % 16) (by omega)
  have h4 := parseHexDigit_hexDigit (c % 16) (by omega)
  simp only [hex4, List.cons_append, List.nil_append, parseHex4, h1, h2, h3, h4, J_HEX_SHIFT]
  have sh : ∀ a b : Nat, b < 16 → a <<< 4 ||| b = a * 16 + b := by
    intro a b hb
    rw [← Nat.shiftLeft_add_eq_or_of_lt (by simpa using hb), Nat.shiftLeft_eq]
  have e1 : (c / 4096 % 16) <<< 4 ||| c / 256 % 16 = c / 4096 % 16 * 16 + c / 256 % 16 := sh _ _ (by omega)
  rw [e1, Nat.mod_eq_of_lt (show c / 4096 % 16 * 16 + c / 256 % 16 < 65536 by omega)]
  have e2 : (c / 4096 % 16 * 16 + c / 256 % 16) <<< 4 ||| c / 16 % 16 =
      (c / 4096 % 16 * 16 + c / 256 % 16) * 16 + c / 16 % 16 := sh _ _ (by omega)
  rw [e2, Nat.mod_eq_of_lt (show (c / 4096 % 16 * 16 + c / 256 % 16) * 16 + c / 16 % 16 < 65536 by omega)]
  have e3 : ((c / 4096 % 16 * 16 + c / 256 % 16) * 16 + c / 16 % 16) <<< 4 ||| c % 16 =
      ((c / 4096 % 16 * 16 + c / 256 % 16) * 16 + c / 16 % 16) * 16 + c % 16 := sh _ _ (by omega)
  rw [e3, Nat.mod_eq_of_lt (show ((c / 4096 % 16 * 16 + c / 256 % 16) * 16 + c / 16 % 16) * 16 + c % 16 < 65536 by omega)]
  congr 2
  omega

/-- **`\uXXXX` escapes of the Basic Multilingual Plane** (upper- or lower-case digits are both
accepted by `parse_hex`; this is the lower-case spelling) decode to the UTF-8 encoding of the
escaped scalar value. -/
theorem json_u_escape_bmp (c : Nat) (hc : c < 0x10000) (hs : isScalar c = true) (tail : List Nat) :
    unescapeOne (0x75 :: hex4 c ++ tail) = some (utf8 c, tail) := by
  simp only [List.cons_append, unescapeOne, if_true]
  rw [parseHex4_hex4 c hc tail]
  simp [hs]

/-- **Surrogate pairs**: every scalar value above the BMP, spelled as the RFC 8259 pair
`\uHHHH\uLLLL`, decodes to its UTF-8 encoding — in every plane.  (This is the statement that
is *false* for the `|` spelling of `char_from_surrogate_pair` in earlier revisions, where
U+20000 decoded to U+10000; it is proved for the operator the regenerated constant
`J_PAIR_IS_ADD` reports, so reverting the fix breaks this proof.) -/
theorem json_surrogate_pair (c : Nat) (h1 : 0x10000 ≤ c) (h2 : c < 0x110000) (tail : List Nat) :
    unescapeOne (List.drop 1 (escapeU c) ++ tail) = some (utf8 c, tail) := by
  have hv : c - 0x10000 < 0x100000 := by omega
  have hH : 0xD800 + (c - 0x10000) / 1024 < 65536 := by omega
  have hL : 0xDC00 + (c - 0x10000) % 1024 < 65536 := by omega
  have hesc : escapeU c = 0x5C :: 0x75 :: (hex4 (0xD800 + (c - 0x10000) / 1024) ++
      (0x5C :: 0x75 :: hex4 (0xDC00 + (c - 0x10000) % 1024))) := by
    unfold escapeU
    rw [if_neg (by omega)]
    simp
  rw [hesc]
  simp only [List.drop_succ_cons, List.drop_zero, List.cons_append, List.append_assoc, unescapeOne, if_true]
  rw [parseHex4_hex4 _ hH]
  have hns : isScalar (0xD800 + (c - 0x10000) / 1024) = false := by
    simp only [isScalar, Bool.or_eq_false_iff, decide_eq_false_iff_not, Bool.and_eq_false_iff]
    omega
  simp only [hns, Bool.false_eq_true, if_false, List.cons_append]
  rw [parseHex4_hex4 _ hL]
  have hpair : charFromSurrogatePair (0xDC00 + (c - 0x10000) % 1024) (0xD800 + (c - 0x10000) / 1024) = some c := by
    unfold charFromSurrogatePair
    simp only [J_LOW_MIN, J_LOW_MAX, J_HIGH_MIN, J_HIGH_MAX, J_PAIR_HIGH_SUB, J_PAIR_LOW_SUB, J_PAIR_SHIFT,
      J_PAIR_BASE, J_PAIR_IS_ADD]
    have hr : 56320 ≤ 0xDC00 + (c - 0x10000) % 1024 ∧ 0xDC00 + (c - 0x10000) % 1024 ≤ 57343 ∧
        55296 ≤ 0xD800 + (c - 0x10000) / 1024 ∧ 0xD800 + (c - 0x10000) / 1024 ≤ 56319 := by omega
    rw [if_pos hr]
    have hn : (0xD800 + (c - 0x10000) / 1024 - 55296) <<< 10 + (0xDC00 + (c - 0x10000) % 1024 - 56320 + 65536) = c := by
      rw [Nat.shiftLeft_eq]; omega
    simp only [if_true, hn]
    have : isScalar c = true := by
      simp only [isScalar, Bool.or_eq_true, decide_eq_true_eq, Bool.and_eq_true]; omega
    simp [this]
  simp [hpair]

example : List.drop 1 (escapeU 0x20000) = [0x75, 100, 56, 52, 48, 0x5C, 0x75, 100, 99, 48, 48] := by decide

/-- **Chunked hex decoder = simple hex decoder**: `decode_hex_to_writer` decodes through a
`J_BIN_BUF` = 64-byte scratch buffer that it flushes whenever it is full; for every input
(valid or not, any length) the writer receives exactly what the one-pass decoder produces —
nothing is dropped or duplicated at the 64-byte boundaries. -/
theorem json_hex_chunked_refines (s : List Nat) : decodeHexToWriter s = decodeHexSimple s :=
  decodeHexToWriter_eq s

/-- **Binary column round trip** (`BinaryEncoder::encode` → `decode_hex_to_writer`): every
byte string of every length, written as lower-case hex, decodes to itself. -/
theorem json_binary_roundtrip (bs : List Nat) (h : ∀ b ∈ bs, b < 256) :
    decodeHexToWriter (encodeHex bs) = some bs := by
  rw [decodeHexToWriter_eq]; exact decodeHexSimple_encodeHex bs h

/-- non-vacuity: 65 bytes cross the scratch-buffer boundary -/
example : decodeHexToWriter (encodeHex ((List.range 65).map (· + 100))) = some ((List.range 65).map (· + 100)) := by
  decide

end ArrowModel.C17.Json
