import ArrowModel.Generated.C17
namespace ArrowModel.C17.Text
end ArrowModel.C17.Text
