import ArrowModel.Generated.C17
/-
C17 — algorithm models of the text formats.

CSV: arrow-csv delegates quoting to the `csv` crate (`csv::Writer::write_byte_record` →
`csv_core::Writer::{should_quote, needs_quotes}`, `csv_core::quote`) and splitting to
`csv_core::Reader` (driven by `arrow-csv/src/reader/records.rs::RecordDecoder::decode`).
The model mirrors those with arrow-csv's default configuration: `QuoteStyle::Necessary`,
`double_quote = true`, writer terminator `\n`; reader terminator `CRLF` (any of `\r`, `\n`,
`\r\n`), quoting on, no escape byte, no comment byte.

JSON strings: arrow-json writes strings with `serde_json::Serializer::serialize_str`
(`encode_string` in `arrow-json/src/writer/encoder.rs`) and reads them with the
`String` / `Escape` / `Unicode` states of `TapeDecoder::decode`
(`arrow-json/src/reader/tape.rs`).  Strings are byte lists (UTF-8).
-/
namespace ArrowModel.C17.Csv

/-- `requires_quotes[b]` as built by `csv_core::WriterBuilder::build` for delimiter `d`, quote
`q`, `double_quote = true`, terminator `Any(b'\n')`: delimiter, quote, CR and LF -/
def requiresQuotes (d q b : Nat) : Bool := b == d || b == q || b == 13 || b == 10

/-- `csv_core::Writer::needs_quotes` (the 8-way unrolled loop plus tail is `any`) -/
def needsQuotes (d q : Nat) (field : List Nat) : Bool := field.any (requiresQuotes d q)

/-- `csv_core::quote` with `double_quote = true`: copy up to each quote, write it twice -/
def quoteBody (q : Nat) : List Nat → List Nat
  | [] => []
  | b :: bs => if b = q then q :: q :: quoteBody q bs else b :: quoteBody q bs

/-- one field as `write_byte_record` emits it -/
def writeField (d q : Nat) (f : List Nat) : List Nat :=
  if needsQuotes d q f then q :: (quoteBody q f ++ [q]) else f

/-- fields joined by the delimiter -/
def writeFields (d q : Nat) : List (List Nat) → List Nat
  | [] => []
  | [f] => writeField d q f
  | f :: fs => writeField d q f ++ d :: writeFields d q fs

/-- `csv::Writer::write_byte_record` + `write_terminator`: when nothing at all was written for
the record (`record_bytes == 0`: a single empty field) the core writer emits `""` so that the
line is not empty; terminator `\n` -/
def writeRecord (d q : Nat) (fields : List (List Nat)) : List Nat :=
  let body := writeFields d q fields
  (if body = [] then [q, q] else body) ++ [10]

def writeRecords (d q : Nat) (recs : List (List (List Nat))) : List Nat :=
  recs.flatMap (writeRecord d q)

/-- the NFA states of `csv_core::Reader` that consume input (the epsilon states
`EndFieldDelim`, `EndFieldTerm`, `InRecordTerm`, `EndRecord` are folded into the transitions) -/
inductive St where
  | startRecord | startField | inField | inQuoted | inDoubleEscapedQuote | crlf
  deriving DecidableEq, Repr

structure P where
  st : St
  cur : List Nat
  fields : List (List Nat)
  recs : List (List (List Nat))

/-- `Terminator::CRLF.equals(c)` -/
def isTerm (c : Nat) : Bool := c == 13 || c == 10

/-- end of field at a delimiter: `EndFieldDelim → StartField` -/
def endField (p : P) : P := { p with st := .startField, cur := [], fields := p.fields ++ [p.cur] }

/-- end of field at a terminator byte `c`: `EndFieldTerm → InRecordTerm → (CRLF | EndRecord → StartRecord)` -/
def endRecord (p : P) (c : Nat) : P :=
  { st := if c = 13 then .crlf else .startRecord, cur := [], fields := [],
    recs := p.recs ++ [p.fields ++ [p.cur]] }

/-- `transition_nfa` from `StartField` -/
def stepStartField (d q : Nat) (p : P) (c : Nat) : P :=
  if c = q then { p with st := .inQuoted }
  else if c = d then endField p
  else if isTerm c then endRecord p c
  else { p with st := .inField, cur := p.cur ++ [c] }

/-- `transition_nfa` from `StartRecord`: terminator bytes are skipped (empty lines) -/
def stepStartRecord (d q : Nat) (p : P) (c : Nat) : P :=
  if isTerm c then { p with st := .startRecord } else stepStartField d q { p with st := .startField } c

/-- `transition_nfa(state, c)` with the output actions applied -/
def step (d q : Nat) (p : P) (c : Nat) : P :=
  match p.st with
  | .startRecord => stepStartRecord d q p c
  | .crlf => if c = 10 then { p with st := .startRecord } else stepStartRecord d q p c
  | .startField => stepStartField d q p c
  | .inField =>
    if c = d then endField p
    else if isTerm c then endRecord p c
    else { p with cur := p.cur ++ [c] }
  | .inQuoted =>
    if c = q then { p with st := .inDoubleEscapedQuote } else { p with cur := p.cur ++ [c] }
  | .inDoubleEscapedQuote =>
    if c = q then { p with st := .inQuoted, cur := p.cur ++ [c] }
    else if c = d then endField p
    else if isTerm c then endRecord p c
    else { p with st := .inField, cur := p.cur ++ [c] }

/-- `transition_final_nfa`: a record in progress is completed at end of input -/
def finish (p : P) : List (List (List Nat)) :=
  match p.st with
  | .startRecord | .crlf => p.recs
  | _ => p.recs ++ [p.fields ++ [p.cur]]

def run (d q : Nat) (p : P) (input : List Nat) : P := input.foldl (step d q) p

/-- all records of the input (`RecordDecoder::decode` until EOF, then `flush`) -/
def readRecords (d q : Nat) (input : List Nat) : List (List (List Nat)) :=
  finish (run d q { st := .startRecord, cur := [], fields := [], recs := [] } input)

end ArrowModel.C17.Csv

namespace ArrowModel.C17.Json
open ArrowModel.Generated.C17

/-- `HEX_DIGITS[n]` of serde_json's `write_char_escape` (`0123456789abcdef`) -/
def hexDigit (n : Nat) : Nat := if n < 10 then 48 + n else 87 + n

/-- serde_json `ESCAPE` table + `write_char_escape` for one byte -/
def escapeByte (b : Nat) : List Nat :=
  if b = 0x22 then [0x5C, 0x22]            -- \"
  else if b = 0x5C then [0x5C, 0x5C]       -- \\
  else if b = 0x08 then [0x5C, 0x62]       -- \b
  else if b = 0x0C then [0x5C, 0x66]       -- \f
  else if b = 0x0A then [0x5C, 0x6E]       -- \n
  else if b = 0x0D then [0x5C, 0x72]       -- \r
  else if b = 0x09 then [0x5C, 0x74]       -- \t
  else if b < 0x20 then [0x5C, 0x75, 0x30, 0x30, hexDigit (b / 16), hexDigit (b % 16)]  -- \u00XX
  else [b]

/-- `format_escaped_str_contents` -/
def escapeBody (s : List Nat) : List Nat := s.flatMap escapeByte

/-- `encode_string(s, out)`: the quoted, escaped string -/
def encodeString (s : List Nat) : List Nat := 0x22 :: (escapeBody s ++ [0x22])

/-- `parse_hex`: `char::to_digit(16)` -/
def parseHexDigit (b : Nat) : Option Nat :=
  if 48 ≤ b ∧ b ≤ 57 then some (b - 48)
  else if 97 ≤ b ∧ b ≤ 102 then some (b - 87)
  else if 65 ≤ b ∧ b ≤ 70 then some (b - 55)
  else none

/-- four hex digits folded as `*high = (*high << 4) | digit` on a `u16` -/
def parseHex4 (bs : List Nat) : Option (Nat × List Nat) :=
  match bs with
  | a :: b :: c :: e :: rest =>
    match parseHexDigit a, parseHexDigit b, parseHexDigit c, parseHexDigit e with
    | some x, some y, some z, some w =>
      some ((((((x <<< J_HEX_SHIFT ||| y) % 65536) <<< J_HEX_SHIFT ||| z) % 65536) <<< J_HEX_SHIFT ||| w) % 65536, rest)
    | _, _, _, _ => none
  | _ => none

/-- `char::from_u32(c).is_some()` -/
def isScalar (c : Nat) : Bool := c < 0xD800 || (0xE000 ≤ c && c < 0x110000)

/-- `write_char`: UTF-8 encoding of a scalar value (`char::encode_utf8`) -/
def utf8 (c : Nat) : List Nat :=
  if c < 0x80 then [c]
  else if c < 0x800 then [0xC0 + c / 64, 0x80 + c % 64]
  else if c < 0x10000 then [0xE0 + c / 4096, 0x80 + c / 64 % 64, 0x80 + c % 64]
  else [0xF0 + c / 262144, 0x80 + c / 4096 % 64, 0x80 + c / 64 % 64, 0x80 + c % 64]

/-- `char_from_surrogate_pair(low, high)`: the two halves `((high - 0xD800) as u32) << 10` and
`(low - 0xDC00) as u32 + 0x1_0000` are combined with the operator the source uses
(`J_PAIR_IS_ADD` = 1: `+`; 0: the `|` of earlier revisions, which is wrong whenever bit 16 of
the high half is set) -/
def charFromSurrogatePair (low high : Nat) : Option Nat :=
  if J_LOW_MIN ≤ low ∧ low ≤ J_LOW_MAX ∧ J_HIGH_MIN ≤ high ∧ high ≤ J_HIGH_MAX then
    let hi := (high - J_PAIR_HIGH_SUB) <<< J_PAIR_SHIFT
    let lo := (low - J_PAIR_LOW_SUB) + J_PAIR_BASE
    let n := if J_PAIR_IS_ADD = 1 then hi + lo else hi ||| lo
    if isScalar n then some n else none
  else none

/-- the `Escape` and `Unicode` states: input just after a backslash → decoded bytes, rest -/
def unescapeOne (bs : List Nat) : Option (List Nat × List Nat) :=
  match bs with
  | [] => none
  | c :: rest =>
    if c = 0x75 then                                  -- 'u'
      match parseHex4 rest with
      | none => none
      | some (high, rest1) =>
        if isScalar high then some (utf8 high, rest1)
        else
          match rest1 with
          | 0x5C :: 0x75 :: rest2 =>
            match parseHex4 rest2 with
            | none => none
            | some (low, rest3) => (charFromSurrogatePair low high).map (fun n => (utf8 n, rest3))
          | _ => none
    else if c = 0x22 then some ([0x22], rest)
    else if c = 0x5C then some ([0x5C], rest)
    else if c = 0x2F then some ([0x2F], rest)
    else if c = 0x62 then some ([J_ESC_B], rest)
    else if c = 0x66 then some ([J_ESC_F], rest)
    else if c = 0x6E then some ([0x0A], rest)
    else if c = 0x72 then some ([0x0D], rest)
    else if c = 0x74 then some ([0x09], rest)
    else none

/-- the `String` state: input just after the opening quote → string bytes and the input after
the closing quote.  Fuel = input length (every iteration consumes a byte). -/
def unescapeFuel : Nat → List Nat → List Nat → Option (List Nat × List Nat)
  | 0, _, _ => none
  | _ + 1, [], _ => none
  | fuel + 1, c :: rest, acc =>
    if c = 0x22 then some (acc, rest)
    else if c = 0x5C then
      match unescapeOne rest with
      | none => none
      | some (out, rest') => if rest'.length < rest.length + 1 then unescapeFuel fuel rest' (acc ++ out) else none
    else unescapeFuel fuel rest (acc ++ [c])

/-- a whole JSON string token (with both quotes) at the head of the input -/
def decodeString (bs : List Nat) : Option (List Nat × List Nat) :=
  match bs with
  | 0x22 :: rest => unescapeFuel (rest.length + 1) rest []
  | _ => none

/-- RFC 8259 `\uXXXX` form of a scalar value: one escape in the BMP, a surrogate pair above
(used to state that the reader decodes *every* escaped spelling, not only the ones the
writer produces) -/
def hex4 (n : Nat) : List Nat :=
  [hexDigit (n / 4096 % 16), hexDigit (n / 256 % 16), hexDigit (n / 16 % 16), hexDigit (n % 16)]

def escapeU (c : Nat) : List Nat :=
  if c < 0x10000 then 0x5C :: 0x75 :: hex4 c
  else
    let v := c - 0x10000
    (0x5C :: 0x75 :: hex4 (0xD800 + v / 1024)) ++ (0x5C :: 0x75 :: hex4 (0xDC00 + v % 1024))


/-! ### hex-encoded binary columns: `BinaryEncoder::encode` (writer), `decode_hex_to_writer` (reader) -/

/-- `write!(out, "{byte:02x}")` for every byte -/
def encodeHex (bs : List Nat) : List Nat := bs.flatMap (fun b => [hexDigit (b / 16 % 16), hexDigit (b % 16)])

/-- the JSON token of a binary value -/
def encodeBinary (bs : List Nat) : List Nat := 0x22 :: (encodeHex bs ++ [0x22])

/-- `decode_hex_digit` (same digit sets as `parse_hex`) -/
def decodeHexDigit (b : Nat) : Option Nat :=
  if 48 ≤ b ∧ b ≤ 57 then some (b - 48)
  else if 97 ≤ b ∧ b ≤ 102 then some (b - 97 + J_BIN_DIGIT_A)
  else if 65 ≤ b ∧ b ≤ 70 then some (b - 65 + 10)
  else none

/-- the obvious decoder: two digits per byte; a trailing single digit yields its own value
(that is what `decode_hex_to_writer` does with `iter.remainder()`) -/
def decodeHexSimple : List Nat → Option (List Nat)
  | [] => some []
  | [c] => (decodeHexDigit c).map (fun l => [l])
  | a :: b :: rest =>
    match decodeHexDigit a, decodeHexDigit b, decodeHexSimple rest with
    | some h, some l, some r => some (((h <<< J_BIN_SHIFT) ||| l) % 256 :: r)
    | _, _, _ => none

/-- `decode_hex_to_writer` as written: pairs are decoded into a scratch buffer of `J_BIN_BUF`
bytes which is flushed to the writer whenever it is full, the odd remainder digit is appended,
and what is left is flushed at the end.  `buf` = `buffer[..buffered]`, `out` = what the writer
has received.  `none` = the error return (the caller discards the builder). -/
def decodeHexLoop (buf out : List Nat) : List Nat → Option (List Nat)
  | [] => some (out ++ buf)
  | [c] => (decodeHexDigit c).map (fun l => out ++ (buf ++ [l]))
  | a :: b :: rest =>
    match decodeHexDigit a, decodeHexDigit b with
    | some h, some l =>
      let buf' := buf ++ [((h <<< J_BIN_SHIFT) ||| l) % 256]
      if buf'.length = J_BIN_BUF then decodeHexLoop [] (out ++ buf') rest
      else decodeHexLoop buf' out rest
    | _, _ => none

def decodeHexToWriter (s : List Nat) : Option (List Nat) := decodeHexLoop [] [] s

end ArrowModel.C17.Json
