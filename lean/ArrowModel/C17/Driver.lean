import ArrowModel.Common.Proto
import ArrowModel.C17.Spec
import ArrowModel.C17.Model
import ArrowModel.C17.ModelText
/-
C17 driver: one case per line → one canonical answer per line.

Avro ops (`avro`, `soe`, `ocf`, `ocfz`, `dec`) use a compact grammar:

  schema  S ::= n | b | B | i | l | f | d | y | s | x<N> | e<N> | ?S | !S | u(S,…) | r(S,…) | aS | mS | D<p>.<s> | G<n>.<p>.<s> | t1…t9 | U | I
                (`?` nullable null-first, `!` nullable null-second, `m` map = array of (string, value))
  value   V ::= N | T | F | i<int>; | l<int>; | f<hex8>; | d<hex16>; | y<hex>; | s<hex>; | x<hex>;
              | e<int>; | D<16|32>:<int>; | _ | +V | u<idx>:V | r(V…) | a(V…) | m(s<hex>;V …)
  rows    row|row|…        (each row an `r(…)` value of the top-level record schema)

Answers are computed with the model; the model decoder is run on the model's own bytes and
must return the input (`MODEL-SPEC-MISMATCH` otherwise — the theorems say it cannot happen).
-/
namespace ArrowModel.C17
open ArrowModel.Proto
open ArrowModel.C17.Avro

/-! ### parsing the compact grammar (fuel = input length; every call consumes a character) -/

def takeDigits : List Char → List Char × List Char
  | c :: cs => if c.isDigit then let (d, r) := takeDigits cs; (c :: d, r) else ([], c :: cs)
  | [] => ([], [])

def takeUntil (stop : Char) : List Char → List Char × List Char
  | c :: cs => if c = stop then ([], cs) else let (d, r) := takeUntil stop cs; (c :: d, r)
  | [] => ([], [])

mutual
def parseSchema : Nat → List Char → Option (Schema × List Char)
  | 0, _ => none
  | fuel + 1, cs =>
    match cs with
    | 'n' :: r => some (.null, r)
    | 'b' :: r => some (.boolean, r)
    | 'B' :: r => some (.boolean, r)   -- boolean held as a sliced BooleanArray on the Rust side
    | 'i' :: r => some (.int, r)
    | 'l' :: r => some (.long, r)
    | 'f' :: r => some (.float, r)
    | 'd' :: r => some (.double, r)
    | 'y' :: r => some (.bytes, r)
    | 's' :: r => some (.string, r)
    | 'x' :: r => let (d, r') := takeDigits r; (String.ofList d).toNat?.map (fun n => (.fixed n, r'))
    -- decimals: `D<p>.<s>` bytes-backed, `G<n>.<p>.<s>` fixed(n)-backed; the Arrow width is 16 bytes
    -- (Decimal128) for precision ≤ 38 and 32 bytes (Decimal256) above, on the writer and the reader side
    | 'D' :: r =>
      let (p, r1) := takeDigits r
      match r1 with
      | '.' :: r2 =>
        let (_, r3) := takeDigits r2
        (String.ofList p).toNat?.map (fun p => (.decimal none (if p ≤ 38 then 16 else 32), r3))
      | _ => none
    | 'G' :: r =>
      let (n, r1) := takeDigits r
      match r1 with
      | '.' :: r2 =>
        let (p, r3) := takeDigits r2
        match r3 with
        | '.' :: r4 =>
          let (_, r5) := takeDigits r4
          match (String.ofList n).toNat?, (String.ofList p).toNat? with
          | some n, some p => some (.decimal (some n) (if p ≤ 38 then 16 else 32), r5)
          | _, _ => none
        | _ => none
      | _ => none
    -- logical types over int / long: t1 date, t2 time-millis (int); t3 time-micros, t4/t5 timestamp-millis/micros,
    -- t6/t7 local-timestamp-millis/micros, t8/t9 timestamp-nanos / local-timestamp-nanos (long)
    | 't' :: c :: r =>
      if c = '1' ∨ c = '2' then some (.int, r)
      else if c.isDigit then some (.long, r) else none
    -- uuid (string of 36 hex/hyphen characters) and duration (fixed 12) are checked by the harness only
    | 'U' :: r => some (.string, r)
    -- other Arrow layouts of the same Avro type on the writer side: LargeUtf8 / Utf8View, LargeBinary /
    -- BinaryView, LargeList / ListView / FixedSizeList(n)
    | 'S' :: r => some (.string, r)
    | 'V' :: r => some (.string, r)
    | 'Y' :: r => some (.bytes, r)
    | 'W' :: r => some (.bytes, r)
    | 'A' :: r => (parseSchema fuel r).map (fun p => (.array p.1, p.2))
    | 'L' :: r => (parseSchema fuel r).map (fun p => (.array p.1, p.2))
    | 'F' :: r => let (_, r') := takeDigits r; (parseSchema fuel r').map (fun p => (.array p.1, p.2))
    | 'I' :: r => some (.fixed 12, r)
    | 'e' :: r => let (d, r') := takeDigits r; (String.ofList d).toNat?.map (fun n => (.enum n, r'))
    | '?' :: r => (parseSchema fuel r).map (fun p => (.nullable true p.1, p.2))
    | '!' :: r => (parseSchema fuel r).map (fun p => (.nullable false p.1, p.2))
    | 'a' :: r => (parseSchema fuel r).map (fun p => (.array p.1, p.2))
    | 'm' :: r => (parseSchema fuel r).map (fun p => (Schema.map p.1, p.2))
    | 'u' :: '(' :: r => (parseSchemas fuel r).map (fun p => (.union p.1, p.2))
    | 'r' :: '(' :: r => (parseSchemas fuel r).map (fun p => (.record p.1, p.2))
    | _ => none
def parseSchemas : Nat → List Char → Option (List Schema × List Char)
  | 0, _ => none
  | fuel + 1, cs =>
    match cs with
    | ')' :: r => some ([], r)
    | ',' :: r => parseSchemas fuel r
    | _ =>
      match parseSchema fuel cs with
      | none => none
      | some (s, r) => (parseSchemas fuel r).map (fun p => (s :: p.1, p.2))
end

def parseIntTok (cs : List Char) : Option (Int × List Char) :=
  let (d, r) := takeUntil ';' cs
  (parseInt (String.ofList d)).map (fun i => (i, r))

def parseHexTok (cs : List Char) : Option (List Nat × List Char) :=
  let (d, r) := takeUntil ';' cs
  (if d.isEmpty then some [] else parseHex (String.ofList d)).map (fun b => (b, r))

/-- `iN::to_be_bytes` for an `n`-byte two's-complement integer -/
def toBE (n : Nat) (v : Int) : List Nat := (leBytes n (v % (2 : Int) ^ (8 * n)).toNat).reverse

/-- big-endian hex digits → Nat -/
def beNat (bs : List Nat) : Nat := bs.foldl (fun a b => a * 256 + b) 0

mutual
def parseValue : Nat → List Char → Option (Value × List Char)
  | 0, _ => none
  | fuel + 1, cs =>
    match cs with
    | 'N' :: r => some (.null, r)
    | 'T' :: r => some (.bool true, r)
    | 'F' :: r => some (.bool false, r)
    | '_' :: r => some (.none, r)
    | '+' :: r => (parseValue fuel r).map (fun p => (.some p.1, p.2))
    | 'i' :: r => (parseIntTok r).map (fun p => (.int (BitVec.ofInt 32 p.1), p.2))
    | 'e' :: r => (parseIntTok r).map (fun p => (.int (BitVec.ofInt 32 p.1), p.2))
    | 'l' :: r => (parseIntTok r).map (fun p => (.long (BitVec.ofInt 64 p.1), p.2))
    | 'f' :: r => (parseHexTok r).map (fun p => (.float (BitVec.ofNat 32 (beNat p.1)), p.2))
    | 'd' :: r => (parseHexTok r).map (fun p => (.double (BitVec.ofNat 64 (beNat p.1)), p.2))
    | 'y' :: r => (parseHexTok r).map (fun p => (.bytes p.1, p.2))
    | 's' :: r => (parseHexTok r).map (fun p => (.bytes p.1, p.2))
    | 'x' :: r => (parseHexTok r).map (fun p => (.fixed p.1, p.2))
    | 'D' :: r =>
      let (w, r') := takeUntil ':' r
      match (String.ofList w).toNat?, parseIntTok r' with
      | some w, some (v, r'') => some (.dec (toBE w v), r'')
      | _, _ => none
    | 'u' :: r =>
      let (d, r') := takeUntil ':' r
      match (String.ofList d).toNat?, parseValue fuel r' with
      | some i, some (v, r'') => some (.union i v, r'')
      | _, _ => none
    | 'r' :: '(' :: r => (parseValues fuel r).map (fun p => (.list p.1, p.2))
    | 'a' :: '(' :: r => (parseValues fuel r).map (fun p => (.list p.1, p.2))
    | 'm' :: '(' :: r => (parseEntries fuel r).map (fun p => (.list p.1, p.2))
    | _ => none
def parseValues : Nat → List Char → Option (List Value × List Char)
  | 0, _ => none
  | fuel + 1, cs =>
    match cs with
    | ')' :: r => some ([], r)
    | _ =>
      match parseValue fuel cs with
      | none => none
      | some (v, r) => (parseValues fuel r).map (fun p => (v :: p.1, p.2))
def parseEntries : Nat → List Char → Option (List Value × List Char)
  | 0, _ => none
  | fuel + 1, cs =>
    match cs with
    | ')' :: r => some ([], r)
    | _ =>
      match parseValue fuel cs with
      | none => none
      | some (k, r) =>
        match parseValue fuel r with
        | none => none
        | some (v, r') => (parseEntries fuel r').map (fun p => (.list [k, v] :: p.1, p.2))
end

def schemaOf (s : String) : Option Schema :=
  match parseSchema (s.length + 1) s.toList with
  | some (sch, []) => some sch
  | _ => none

def valueOf (s : String) : Option Value :=
  match parseValue (s.length + 1) s.toList with
  | some (v, []) => some v
  | _ => none

def rowsOf (s : String) : Option (List (List Value)) :=
  if s = "-" then some [] else
  (s.splitOn "|").mapM (fun r => match valueOf r with | some (.list vs) => some vs | _ => none)

/-! ### canonical rendering of values (used to compare the model decoder's output) -/

def hexOrEmpty (bs : List Nat) : String := if bs.isEmpty then "" else toHex bs

mutual
def showValue : Value → String
  | .null => "N"
  | .bool b => if b then "T" else "F"
  | .int x => s!"i{x.toInt};"
  | .long x => s!"l{x.toInt};"
  | .float b => s!"f{b.toNat};"
  | .double b => s!"d{b.toNat};"
  | .bytes bs => s!"y{hexOrEmpty bs};"
  | .fixed bs => s!"x{hexOrEmpty bs};"
  | .none => "_"
  | .some v => "+" ++ showValue v
  | .union i v => s!"u{i}:" ++ showValue v
  | .list vs => "(" ++ showValues vs ++ ")"
  | .dec be => s!"D{hexOrEmpty be};"
def showValues : List Value → String
  | [] => ""
  | v :: vs => showValue v ++ showValues vs
end

def fieldsOf : Schema → Option (List Schema)
  | .record fs => some fs
  | _ => none

/-- encode every row; check the model decoder returns the rows from the concatenation -/
def avroRows (fs : List Schema) (rows : List (List Value)) : Except String (List (List Nat)) :=
  if !(rows.all (wtFields fs)) then .error "ERR:invalid-arg" else
  let encs := rows.map (encodeRow fs)
  match decodeRows fs rows.length (encs.flatten ++ [0xAA]) with
  | some (back, [0xAA]) =>
    if showValues (back.map Value.list) = showValues (rows.map Value.list) then .ok encs
    else .error s!"MODEL-SPEC-MISMATCH model-decode={showValues (back.map Value.list)}"
  | _ => .error "MODEL-SPEC-MISMATCH model-decode=none"

def showRowsHex (encs : List (List Nat)) : String := showList (fun e => toHex e) encs

/-- schemas with a uuid (`U`) or duration (`I`) column are not modelled (harness oracles only) -/
def unmodelled (sch : String) : Bool := sch.toList.any (fun c => c = 'U' || c = 'I')

def handleAvro (toks : List String) : Option String :=
  if (match toks with
      | [op, sch, _] => (op = "avro" || op = "ocf") && unmodelled sch
      | [op, _, sch, _] => (op = "soe" || op = "ocfz" || op = "conf") && unmodelled sch
      | _ => false) then some "SKIP" else
  match toks with
  | ["avro", sch, rows] =>
    match (schemaOf sch).bind fieldsOf, rowsOf rows with
    | some fs, some rs =>
      some (match avroRows fs rs with | .ok encs => showRowsHex encs | .error e => e)
    | _, _ => some "bad-op"
  | ["soe", fp, sch, rows] =>
    match parseHex fp, (schemaOf sch).bind fieldsOf, rowsOf rows with
    | some fpb, some fs, some rs =>
      some (match avroRows fs rs with
        | .ok encs =>
          let frames := encs.map (fun e => soeFrame (leValue fpb) e)
          -- every frame must parse back to (fingerprint, body)
          if frames.all (fun fr => match soeParse fr with | some (f, _) => f == leValue fpb | none => false)
          then toHex frames.flatten else "MODEL-SPEC-MISMATCH soe"
        | .error e => e)
    | _, _, _ => some "bad-op"
  | ["conf", id, sch, rows] =>
    -- Confluent wire format: `Fingerprint::Id(id).make_prefix()` = CONFLUENT_MAGIC ++ id.to_be_bytes()
    match id.toNat?, (schemaOf sch).bind fieldsOf, rowsOf rows with
    | some id, some fs, some rs =>
      some (match avroRows fs rs with
        | .ok encs =>
          let prefix_ := ArrowModel.Generated.C17.CONFLUENT_MAGIC.map Int.toNat ++ (leBytes 4 id).reverse
          toHex (encs.map (fun e => prefix_ ++ e)).flatten
        | .error e => e)
    | _, _, _ => some "bad-op"
  | ["ocf", sch, batches] =>
    match (schemaOf sch).bind fieldsOf, (batches.splitOn "/").mapM rowsOf with
    | some fs, some bs =>
      let sync := List.replicate 16 0
      let blocks := bs.mapM (fun rs => match avroRows fs rs with
        | .ok encs => Except.ok (rs.length, encs.flatten)
        | .error e => Except.error e)
      some (match blocks with
        | .error e => e
        | .ok bl =>
          let bytes := (bl.map (fun (n, p) => ocfBlock n p sync)).flatten
          -- model block decoder must split the stream back into the same blocks
          let rec chk : List (Nat × List Nat) → List Nat → Bool
            | [], rest => rest.isEmpty
            | (n, p) :: more, buf =>
              match decodeBlock buf with
              | some (b, rest) => b.count == n && b.data == p && b.sync == sync && chk more rest
              | none => false
          if chk bl bytes then toHex bytes else "MODEL-SPEC-MISMATCH ocf")
    | _, _ => some "bad-op"
  | ["ocfz", _codec, sch, batches] =>
    match (schemaOf sch).bind fieldsOf, (batches.splitOn "/").mapM rowsOf with
    | some fs, some bs =>
      let rs := bs.flatten
      some (match avroRows fs rs with | .ok _ => s!"rows={rs.length}" | .error e => e)
    | _, _ => some "bad-op"
  | ["dec", sch, hex] =>
    match (schemaOf sch).bind fieldsOf, parseHex hex with
    | some fs, some bytes =>
      some (match decodeFields fs bytes with
        | some (row, []) => showValue (.list row)
        | some (_, _) => "ERR:trailing"
        | none => "ERR:parse")
    | _, _ => some "bad-op"
  | _ => none

/-! ### text formats

  C17 csv <delim> <records>       records `rec|rec|…`, rec = comma-separated hex fields (`-` = empty field)
                                  → hex of the written lines (model writer; model reader must split them back)
  C17 csvq <delim> <quote> <records>   the same with an explicit quote byte
  C17 csvsplit <delim> <k> <hex>  arbitrary input bytes → the records the reader model splits them into
  C17 jsonstr <hex>               UTF-8 string → hex of the quoted, escaped JSON token
  C17 jsonunesc <hex>             a JSON string token → hex of the decoded string, or ERR:parse
  C17 jsonbin <hex>               bytes → hex of the JSON token of a Binary value (lower-case hex string)
  C17 jsonunbin <hex>             the characters of a hex string → hex of the bytes the reader decodes, or ERR:parse
  C17 jsonrt / csvrt …            whole-batch round trips checked in the harness (answer echoes the row count)
-/
def parseRecords (s : String) : Option (List (List (List Nat))) :=
  (s.splitOn "|").mapM (fun r => (r.splitOn ",").mapM parseHex)

def showRecords (recs : List (List (List Nat))) : String :=
  if recs.isEmpty then "-" else "|".intercalate (recs.map (fun r => ",".intercalate (r.map toHex)))

def Text.handleText (toks : List String) : Option String :=
  match toks with
  | ["csv", d, recs] =>
    match d.toNat?, parseRecords recs with
    | some d, some rs =>
      let q := 34
      let out := Csv.writeRecords d q rs
      -- specification of the quoting rule (RFC 4180) next to the model of csv-core
      let specOk := rs.all (fun r => r.all (fun f =>
        Csv.writeField d q f = (if Spec.csvNeedsQuote d q f then Spec.csvQuote q f else f)))
      if !specOk then some "MODEL-SPEC-MISMATCH csv quoting"
      else if Csv.readRecords d q out != rs then
        some s!"MODEL-SPEC-MISMATCH csv split={showRecords (Csv.readRecords d q out)}"
      else some (toHex out)
    | _, _ => some "bad-op"
  | ["csvq", d, q, recs] =>
    -- as `csv`, with an explicit quote byte (the round-trip theorem holds for every legal (delimiter, quote) pair)
    match d.toNat?, q.toNat?, parseRecords recs with
    | some d, some q, some rs =>
      if d = q ∨ d = 10 ∨ d = 13 ∨ q = 10 ∨ q = 13 then some "bad-op" else
      let out := Csv.writeRecords d q rs
      if Csv.readRecords d q out != rs then some s!"MODEL-SPEC-MISMATCH csvq split={showRecords (Csv.readRecords d q out)}"
      else some (toHex out)
    | _, _, _ => some "bad-op"
  | ["csvsplit", d, k, hex] =>
    match d.toNat?, k.toNat?, parseHex hex with
    | some d, some k, some bytes =>
      let recs := Csv.readRecords d 34 bytes
      -- `RecordDecoder::decode`: "incorrect number of fields" unless every record has k fields
      if recs.all (fun r => r.length == k) then some (showRecords recs) else some "ERR:fields"
    | _, _, _ => some "bad-op"
  | ["jsonstr", hex] =>
    match parseHex hex with
    | some s =>
      let enc := Json.encodeString s
      match Json.decodeString (enc ++ [0x2C]) with
      | some (back, [0x2C]) => if back = s then some (toHex enc) else some s!"MODEL-SPEC-MISMATCH json back={toHex back}"
      | _ => some "MODEL-SPEC-MISMATCH json decode=none"
    | none => some "bad-op"
  | ["jsonunesc", hex] =>
    match parseHex hex with
    | some tok =>
      match Json.decodeString tok with
      | some (s, []) => some (toHex s)
      | some (_, _) => some "ERR:trailing"
      | none => some "ERR:parse"
    | none => some "bad-op"
  | ["jsonbin", hex] =>
    match parseHex hex with
    | some bs =>
      let tok := Json.encodeBinary bs
      -- model reader on the model writer's token (and the simple decoder next to the chunked one)
      let inner := (tok.drop 1).take (tok.length - 2)
      if Json.decodeHexToWriter inner != some bs || Json.decodeHexSimple inner != some bs then
        some "MODEL-SPEC-MISMATCH jsonbin"
      else some (toHex tok)
    | none => some "bad-op"
  | ["jsonunbin", hex] =>
    match parseHex hex with
    | some s =>
      let a := Json.decodeHexToWriter s
      if a != Json.decodeHexSimple s then some "MODEL-SPEC-MISMATCH jsonunbin" else
      match a with
      | some bs => some (toHex bs)
      | none => some "ERR:parse"
    | none => some "bad-op"
  | ["jsonrt", _opts, _schema, n, _rows] => some s!"rows={n}"
  | ["csvrt", _opts, _schema, n, _rows] => some s!"rows={n}"
  | _ => none

def handle (toks : List String) : String :=
  match handleAvro toks with
  | some a => a
  | none =>
    match Text.handleText toks with
    | some a => a
    | none => "bad-op"

end ArrowModel.C17
