import ArrowModel.C07.Lemmas
/-
C07 — property theorems.  "Statistics, page indexes and bloom filters never exclude
present data."  All statements quantify over every value sequence / page layout /
truncation length / hash sequence (no bound); the models are the functions of
`Model.lean`, which mirror `parquet/src/column/writer/{mod,encoder}.rs` and
`parquet/src/bloom_filter/mod.rs` and are tied to `/repo` by the correspondence run and
the regenerated constants (`SALT`, `>> 27`, `>> 32`, block size, `0x80`, `0xFF`, `-3`).
-/
namespace ArrowModel.C07
open ArrowModel.Generated.C07

/-! ## (a) `compare_greater` is the strict part of the column's order -/

/-- every comparison of the form `key a > key b` (signed ints: the value; unsigned: the
`as u64` image; floats: the IEEE totalOrder key; equal-length decimals: the integer value)
is the strict part of a total preorder — the hypothesis of the min/max theorems. -/
theorem strictWeak_of_key {α : Type} (key : α → Int) (gt : α → α → Bool)
    (h : ∀ a b, gt a b = decide (key a > key b)) : StrictWeak gt := by
  constructor
  · intro a b hab
    rw [h] at hab ⊢
    simp only [decide_eq_true_eq, decide_eq_false_iff_not] at hab ⊢
    omega
  · intro a b c hab hbc
    rw [h] at hab hbc ⊢
    simp only [decide_eq_false_iff_not] at hab hbc ⊢
    omega

/-- INT32/INT64, SIGNED order -/
theorem signed_strictWeak : StrictWeak compareGreaterSigned :=
  strictWeak_of_key (fun a => a) _ (fun _ _ => rfl)

/-- UINT_32 on INT32: comparing the sign-extended `as u64` images (what the code does) is
comparing the values read as `u32`. -/
theorem unsigned32_compare_correct (a b : Int)
    (ha : -(2 : Int) ^ 31 ≤ a ∧ a < (2 : Int) ^ 31) (hb : -(2 : Int) ^ 31 ≤ b ∧ b < (2 : Int) ^ 31) :
    compareGreaterUnsigned a b = decide (asUnsigned 32 a > asUnsigned 32 b) := by
  unfold compareGreaterUnsigned asU64 asUnsigned
  have e1 : (2 : Int) ^ 64 = 18446744073709551616 := by decide
  have e2 : (2 : Int) ^ 32 = 4294967296 := by decide
  have e3 : (2 : Int) ^ 31 = 2147483648 := by decide
  rw [e1, e2]; rw [e3] at ha hb
  congr 1
  apply propext
  omega

/-- UINT_64 on INT64 -/
theorem unsigned64_compare_correct (a b : Int) :
    compareGreaterUnsigned a b = decide (asUnsigned 64 a > asUnsigned 64 b) := rfl

theorem unsigned_strictWeak : StrictWeak compareGreaterUnsigned :=
  strictWeak_of_key (fun a => (asU64 a : Int)) _ (fun a b => by
    unfold compareGreaterUnsigned
    congr 1
    apply propext
    omega)

example : compareGreaterUnsigned (-1) 1 = true ∧ compareGreaterSigned (-1) 1 = false := by decide

/-- FLOAT/DOUBLE/Float16 under IEEE-754 totalOrder (`w` = 32, 64, 16) -/
theorem total_strictWeak (w : Nat) : StrictWeak (compareGreaterTotal w) :=
  strictWeak_of_key (totalKey w) _ (fun _ _ => rfl)

/-- the totalOrder key is injective on `w`-bit patterns: distinct patterns are strictly
ordered (so `-0 < +0`, and NaNs with different payloads are ordered too) -/
theorem totalKey_injective (w : Nat) (hw : 0 < w) (a b : Nat) (ha : a < 2 ^ w) (hb : b < 2 ^ w)
    (h : totalKey w a = totalKey w b) : a = b := by
  unfold totalKey at h
  have hp : 2 ^ w = 2 * 2 ^ (w - 1) := by
    rw [← Nat.pow_succ']; congr 1; omega
  split at h <;> split at h <;> omega

/-- `-0.0 < +0.0`, `-inf < -0.0`, `+inf < +NaN`, `-NaN < -inf` for f32 bit patterns -/
example : compareGreaterTotal 32 0x00000000 0x80000000 = true ∧
    compareGreaterTotal 32 0x80000000 0xFF800000 = true ∧
    compareGreaterTotal 32 0x7FC00000 0x7F800000 = true ∧
    compareGreaterTotal 32 0xFF800000 0xFFC00000 = true := by decide

/-- `is_nan` for Float16 as written (`uval & 0x7FFF > 0x7C00`, constants regenerated from
the source) is "exponent all ones and mantissa non-zero" -/
theorem isNanF16_spec (bits : Nat) : isNanF16 bits = isNaNBits 16 10 bits := by
  unfold isNanF16 isNaNBits
  have : bits &&& F16_ABS_MASK = bits % 2 ^ 15 := by
    show bits &&& (2 ^ 15 - 1) = _
    exact Nat.and_two_pow_sub_one_eq_mod bits 15
  rw [this]
  rfl

/-- **Decimals, any lengths.**  For non-empty byte arrays of arbitrary (also different)
lengths `compare_greater_byte_array_decimals(a, b)` is `value(a) > value(b)` on the
two's-complement big-endian integers (sign extension handled correctly: `[0,0,9] > [0,7]`,
`[0xFF,0x7F] < [0x80]`). -/
theorem decimal_compare_correct (a b : List Nat) (ha : Bytes a) (hb : Bytes b) (hna : a ≠ []) (hnb : b ≠ []) :
    compareGreaterByteArrayDecimals a b = decide (decimalValue a > decimalValue b) := by
  cases a with
  | nil => exact absurd rfl hna
  | cons fa ta =>
    cases b with
    | nil => exact absurd rfl hnb
    | cons fb tb => exact compareDecimals_full fa fb ta tb ha hb

/-- the empty-operand rule as written: `if a_length == 0 || b_length == 0 { return a_length > 0 }` -/
theorem decimal_compare_empty (a b : List Nat) :
    compareGreaterByteArrayDecimals [] b = false ∧
    compareGreaterByteArrayDecimals a [] = decide (a.length > 0) := by
  constructor
  · rfl
  · cases a <;> simp [compareGreaterByteArrayDecimals]

example : Bytes [0xFF, 0x10] ∧ Bytes [0x00, 0x10] ∧ decimalValue [0xFF, 0x10] = -240 := by
  refine ⟨by decide, by decide, by decide⟩

/-- regression example of the former defect: values 7 = `[0,7]` and 9 = `[0,0,9]` now give
`min = [0,7]`, `max = [0,0,9]`; a redundantly sign-extended negative against a short one. -/
example :
    chunkStats compareGreaterByteArrayDecimals (fun _ => false) [[[[0, 7], [0, 0, 9]]]] = ⟨some [0, 7], some [0, 0, 9]⟩ ∧
    compareGreaterByteArrayDecimals [0x80] [0xFF, 0x7F] = true ∧
    compareGreaterByteArrayDecimals [0xFF, 0xFF, 0x80] [0x80] = false ∧
    compareGreaterByteArrayDecimals [0x80] [0xFF, 0xFF, 0x80] = false := by decide

/-- decimals of all (non-zero, mixed) lengths form a strict weak order under the code's
comparison — the hypothesis `chunk_stats_bound` needs for BYTE_ARRAY and FLBA decimal columns -/
theorem decimal_strictWeak :
    StrictWeak (fun (a b : {bs : List Nat // bs ≠ [] ∧ Bytes bs}) =>
      compareGreaterByteArrayDecimals a.1 b.1) :=
  strictWeak_of_key (fun a => decimalValue a.1) _ (fun a b => by
    show compareGreaterByteArrayDecimals a.1 b.1 = _
    exact decimal_compare_correct a.1 b.1 a.2.2 b.2.2 a.2.1 b.2.1)

/-- **Decimal (and Float16) statistics are never byte-truncated**, whatever the physical type:
`can_truncate_value` is false for them, so `statistics_truncate_length` /
`column_index_truncate_length` do not apply and the bounds above are what is written. -/
theorem decimal_never_truncated (physical : Nat) (isFloat16 : Bool) :
    canTruncateValue physical true isFloat16 = false ∧ canTruncateValue 2 false true = false := by
  unfold canTruncateValue
  refine ⟨?_, by decide⟩
  split
  · simp
  · split <;> simp

/-- plain binary / string columns are truncatable -/
example : canTruncateValue 1 false false = true ∧ canTruncateValue 2 false false = true ∧
    canTruncateValue 0 false false = false := by decide

/-- plain BYTE_ARRAY / FIXED_LEN_BYTE_ARRAY (UNSIGNED order): `a > b` on slices -/
theorem bytes_strictWeak : StrictWeak sliceGt := by
  constructor
  · intro a b h; exact lexLt_asymm b a h
  · intro a b c hab hbc
    unfold sliceGt at *
    -- `lexLt` is total on distinct lists; use transitivity of the strict order on the negation
    cases hca : lexLt c a with
    | false => rfl
    | true =>
      exfalso
      -- c < a, ¬(b < a), ¬(c < b)  ⇒  a ≤ b ≤ c < a
      have key : ∀ x y : List Nat, lexLt x y = false → lexLt y x = false → x = y := by
        intro x
        induction x with
        | nil => intro y h1 h2; cases y with
          | nil => rfl
          | cons _ _ => simp [lexLt] at h1
        | cons p ps ih => intro y h1 h2; cases y with
          | nil => simp [lexLt] at h2
          | cons q qs =>
            simp only [lexLt, Bool.or_eq_false_iff, Bool.and_eq_false_imp, decide_eq_false_iff_not,
              decide_eq_true_eq] at h1 h2
            have hpq : p = q := by omega
            subst hpq
            rw [ih qs (h1.2 rfl) (h2.2 rfl)]
      by_cases hab' : lexLt a b = true
      · by_cases hbc' : lexLt b c = true
        · have := lexLt_trans a b c hab' hbc'
          rw [lexLt_asymm c a hca] at this; cases this
        · have : b = c := key b c (by simpa using hbc') hbc
          subst this
          rw [hca] at hab; cases hab
      · have : a = b := key a b (by simpa using hab') hab
        subst this
        rw [hca] at hbc; cases hbc

/-! ## (b) min/max folds -/

/-- **`update_min` / `update_max` folded over any sequence**: the result is an element of
the sequence; if the sequence has a non-NaN value the result is non-NaN and bounds every
non-NaN value (NaNs never become or stay min/max once a number was seen). -/
theorem fold_update_bounds {α : Type} {gt : α → α → Bool} {nan : α → Bool} (h : StrictWeak gt) (vs : List α) :
    OptIsMin gt nan (vs.foldl (fun acc v => updateMin gt nan v acc) none) vs ∧
    OptIsMax gt nan (vs.foldl (fun acc v => updateMax gt nan v acc) none) vs := by
  have one : ∀ v : α, IsMin gt nan v [v] ∧ IsMax gt nan v [v] := fun v =>
    ⟨⟨by simp, fun ⟨x, hx, hnx⟩ => by simp at hx; subst hx; exact ⟨hnx, fun y hy _ => by simp at hy; subst hy; exact h.irrefl y⟩⟩,
     ⟨by simp, fun ⟨x, hx, hnx⟩ => by simp at hx; subst hx; exact ⟨hnx, fun y hy _ => by simp at hy; subst hy; exact h.irrefl y⟩⟩⟩
  suffices H : ∀ (ys : List α) (a b : Option α), OptIsMin gt nan a ys → OptIsMax gt nan b ys →
      OptIsMin gt nan (vs.foldl (fun acc v => updateMin gt nan v acc) a) (ys ++ vs) ∧
      OptIsMax gt nan (vs.foldl (fun acc v => updateMax gt nan v acc) b) (ys ++ vs) by
    simpa using H [] none none rfl rfl
  induction vs with
  | nil => intro ys a b ha hb; simpa using ⟨ha, hb⟩
  | cons v vs ih =>
    intro ys a b ha hb
    have := ih (ys ++ [v]) _ _ (updateMin_merge h ha (one v).1) (updateMax_merge h hb (one v).2)
    simpa [List.append_assoc] using this

/-- **Chunk and page statistics bound the data and are attained.**  For every layout of the
written values into pages and mini-batches (`get_min_max` per mini-batch → `update_min/max`
into the page → `update_min/max` into the chunk at each page flush), with `compare_greater`
a strict weak order: `min`/`max` are `None` exactly when nothing was written; otherwise they
are written values, and if any non-NaN value was written they are non-NaN and
`min ≤ v ≤ max` for every non-NaN written `v`. -/
theorem chunk_stats_bound {α : Type} {gt : α → α → Bool} {nan : α → Bool} (h : StrictWeak gt)
    (pages : List (List (List α))) :
    let vs := (pages.map List.flatten).flatten
    let r := chunkStats gt nan pages
    (vs = [] → r.min = none ∧ r.max = none) ∧
    (vs ≠ [] → ∃ mn mx, r.min = some mn ∧ r.max = some mx ∧ mn ∈ vs ∧ mx ∈ vs) ∧
    (∀ v ∈ vs, nan v = false → ∃ mn mx, r.min = some mn ∧ r.max = some mx ∧
        nan mn = false ∧ nan mx = false ∧ gt mn v = false ∧ gt v mx = false) := by
  intro vs r
  have hok : MMOk gt nan r vs := chunkStats_ok h pages
  obtain ⟨h1, h2⟩ := hok
  cases hmin : r.min with
  | none =>
    rw [hmin] at h1
    simp only [OptIsMin] at h1
    cases hmax : r.max with
    | none => simp [h1]
    | some mx => rw [hmax] at h2; simp only [OptIsMax, IsMax, h1] at h2; simp at h2
  | some mn =>
    rw [hmin] at h1
    simp only [OptIsMin] at h1
    cases hmax : r.max with
    | none => rw [hmax] at h2; simp only [OptIsMax] at h2; rw [h2] at h1; simp [IsMin] at h1
    | some mx =>
      rw [hmax] at h2
      simp only [OptIsMax] at h2
      refine ⟨fun he => ?_, fun _ => ⟨mn, mx, rfl, rfl, h1.1, h2.1⟩, fun v hv hnv => ?_⟩
      · rw [he] at h1; simp [IsMin] at h1
      · have a := h1.2 ⟨v, hv, hnv⟩
        have b := h2.2 ⟨v, hv, hnv⟩
        exact ⟨mn, mx, rfl, rfl, a.1, b.1, a.2 v hv hnv, b.2 v hv hnv⟩

/-- the same for the statistics of one data page -/
theorem page_stats_bound {α : Type} {gt : α → α → Bool} {nan : α → Bool} (h : StrictWeak gt)
    (miniBatches : List (List α)) :
    MMOk gt nan (pageStats gt nan miniBatches) miniBatches.flatten :=
  pageStats_ok h miniBatches

/-- non-vacuity: f32 values `[NaN, 1.0, -0.0, +0.0, NaN]` in two mini-batches: min = -0.0, max = 1.0 -/
example : chunkStats (compareGreaterTotal 32) isNanF32 [[[0x7FC00000, 0x3F800000], [0x80000000, 0x00000000, 0xFFC00000]]]
    = ⟨some 0x80000000, some 0x3F800000⟩ := by decide

/-- **Decimal columns (BYTE_ARRAY of mixed lengths or FIXED_LEN_BYTE_ARRAY): chunk min/max
bound every written value as an integer and are written values** — for every layout into
pages and mini-batches.  (`chunk_stats_bound` with `decimal_strictWeak`; since decimal
statistics are never truncated, `decimal_never_truncated`, these are the emitted bounds.) -/
theorem decimal_chunk_stats_bound (pages : List (List (List {bs : List Nat // bs ≠ [] ∧ Bytes bs}))) :
    let vs := (pages.map List.flatten).flatten
    let r := chunkStats (fun a b => compareGreaterByteArrayDecimals a.1 b.1) (fun _ => false) pages
    ∀ v ∈ vs, ∃ mn mx, r.min = some mn ∧ r.max = some mx ∧ mn ∈ vs ∧ mx ∈ vs ∧
      decimalValue mn.1 ≤ decimalValue v.1 ∧ decimalValue v.1 ≤ decimalValue mx.1 := by
  intro vs r v hv
  have h := chunk_stats_bound (nan := fun _ => false) decimal_strictWeak pages
  obtain ⟨_, h2, h3⟩ := h
  obtain ⟨mn, mx, e1, e2, _, _, g1, g2⟩ := h3 v hv rfl
  obtain ⟨mn', mx', e1', e2', m1, m2⟩ := h2 (List.ne_nil_of_mem hv)
  have : mn' = mn := by rw [e1] at e1'; exact (Option.some.inj e1').symm
  subst this
  have : mx' = mx := by rw [e2] at e2'; exact (Option.some.inj e2').symm
  subst this
  have c1 := decimal_compare_correct mn'.1 v.1 mn'.2.2 v.2.2 mn'.2.1 v.2.1
  have c2 := decimal_compare_correct v.1 mx'.1 v.2.2 mx'.2.2 v.2.1 mx'.2.1
  rw [g1] at c1
  rw [g2] at c2
  have d1 : ¬ decimalValue mn'.1 > decimalValue v.1 := by simpa using c1.symm
  have d2 : ¬ decimalValue v.1 > decimalValue mx'.1 := by simpa using c2.symm
  exact ⟨mn', mx', e1, e2, m1, m2, by omega, by omega⟩

/-! ## (c) truncation -/

/-- **`truncate_min_value` returns a lower bound**, for every column kind (UTF-8 or not,
valid UTF-8 or not), truncation length and value: the result is a prefix. -/
theorem truncateMin_le (utf8 : Bool) (tl : Option Nat) (data : List Nat) :
    lexLe (truncateMinValue utf8 tl data).1 data = true := by
  have hrefl : lexLe data data = true := by simp [lexLe, lexLt_irrefl]
  unfold truncateMinValue
  cases tl.filter (fun l => decide (data.length > l)) with
  | none => exact hrefl
  | some l =>
    simp only
    by_cases hu : utf8 = true
    · by_cases hv : validUtf8B data = true
      · simp only [hu, hv, if_true]
        unfold truncateUtf8
        cases rfind (isCharBoundary data) 1 l with
        | none => exact hrefl
        | some split => exact lexLe_take data split
      · simp only [hu, hv, if_true, Bool.false_eq_true, if_false]
        exact lexLe_take data l
    · simp only [hu, Bool.false_eq_true, if_false]
      exact lexLe_take data l

/-- the `exact` flag: `is_min_value_exact = !did_truncate`; not truncated ⇒ value unchanged -/
theorem truncateMin_exact (utf8 : Bool) (tl : Option Nat) (data : List Nat)
    (h : (truncateMinValue utf8 tl data).2 = false) : (truncateMinValue utf8 tl data).1 = data := by
  unfold truncateMinValue at h ⊢
  generalize tl.filter (fun l => decide (data.length > l)) = o at h ⊢
  cases o with
  | none => rfl
  | some l =>
    simp only at h ⊢
    split at h
    · simp at h
    · rfl

theorem truncateMax_exact (utf8 : Bool) (tl : Option Nat) (data : List Nat)
    (h : (truncateMaxValue utf8 tl data).2 = false) : (truncateMaxValue utf8 tl data).1 = data := by
  unfold truncateMaxValue at h ⊢
  generalize tl.filter (fun l => decide (data.length > l)) = o at h ⊢
  cases o with
  | none => rfl
  | some l =>
    simp only at h ⊢
    split at h
    · simp at h
    · rfl

/-- **`increment` of a prefix is a strict upper bound** of every extension of the prefix,
has the same length and consists of bytes. -/
theorem increment_upper (p r : List Nat) (h : increment p = some r) :
    r.length = p.length ∧ (∀ s, lexLt (p ++ s) r = true) ∧ (Bytes p → Bytes r) := by
  rw [increment_eq_incL] at h
  exact ⟨(incL_gt p r h).1, (incL_gt p r h).2, fun hp => incL_bytes p hp r h⟩

/-- `increment` returns `None` exactly when every byte is `0xFF` -/
theorem increment_none_iff (p : List Nat) (hp : Bytes p) : increment p = none ↔ ∀ b ∈ p, b = 255 := by
  rw [increment_eq_incL, incL_none]
  constructor
  · intro h b hb; have := h b hb; have := hp b hb; omega
  · intro h b hb; have := h b hb; omega

example : increment [1, 255, 255] = some [2, 0, 0] ∧ increment [255, 255] = none := by decide

/-- **`truncate_max_value` returns an upper bound** on the binary path (column not UTF-8,
or the value is not valid UTF-8). -/
theorem truncateMax_ge_binary (utf8 : Bool) (tl : Option Nat) (data : List Nat)
    (hbin : utf8 = false ∨ validUtf8B data = false) :
    lexLe data (truncateMaxValue utf8 tl data).1 = true := by
  have hrefl : lexLe data data = true := by simp [lexLe, lexLt_irrefl]
  unfold truncateMaxValue
  cases tl.filter (fun l => decide (data.length > l)) with
  | none => exact hrefl
  | some l =>
    simp only
    have hr : (if utf8 = true then (if validUtf8B data = true then truncateAndIncrementUtf8 data l else increment (data.take l))
        else increment (data.take l)) = increment (data.take l) := by
      rcases hbin with h | h <;> simp [h]
    rw [hr]
    cases hi : increment (data.take l) with
    | none => exact hrefl
    | some r =>
      simp only
      have := (increment_upper _ r hi).2.1 (data.drop l)
      rw [List.take_append_drop] at this
      simp [lexLe, lexLt_asymm _ _ this]

/-- **the fallback to the untruncated value happens only when no shorter bound exists**:
on the binary path, if the value is longer than the limit `l` but was not truncated, then
every byte string of length `≤ l` is strictly below the value. -/
theorem truncateMax_fallback_no_bound (l : Nat) (data : List Nat) (hd : Bytes data) (hl : data.length > l)
    (h : (truncateMaxValue false (some l) data).2 = false) :
    ∀ w, Bytes w → w.length ≤ l → lexLt w data = true := by
  unfold truncateMaxValue at h
  have hf : (some l).filter (fun l => decide (data.length > l)) = some l := by simp [Option.filter, hl]
  rw [hf] at h
  simp only [Bool.false_eq_true, if_false] at h
  cases hi : increment (data.take l) with
  | some r => rw [hi] at h; simp at h
  | none =>
    have hall := (incL_none _).1 (by rw [← increment_eq_incL]; exact hi)
    intro w hw hwl
    have := no_short_upper_bound (data.take l) hall w (data.drop l) hw
      (by simp [List.length_take]; omega) (by
        intro hnil
        have := congrArg List.length hnil
        simp at this; omega)
    rwa [List.take_append_drop] at this

example : (truncateMaxValue false (some 2) [255, 255, 7]).2 = false := by decide

/-- `str::from_utf8` (the strict decoder of the model) accepts exactly the encodings of
sequences of Unicode scalar values. -/
theorem validUtf8B_iff (data : List Nat) : validUtf8B data = true ↔ ValidUtf8 data := by
  unfold validUtf8B ValidUtf8
  constructor
  · intro h
    cases hd : decodeChars data with
    | none => rw [hd] at h; simp at h
    | some cs =>
      obtain ⟨e1, e2⟩ := decodeChars_sound data.length data cs (Nat.le_refl _) hd
      exact ⟨cs, e2, e1⟩
  · rintro ⟨cs, hcs, rfl⟩
    rw [decodeChars_encode cs hcs]; rfl

/-- **`truncate_max_value` returns an upper bound — every column kind, every truncation
length, every value** (UTF-8 path: `truncate_and_increment_utf8` / `increment_utf8`;
binary path: `increment`; fallback: the value itself). -/
theorem truncateMax_ge (utf8 : Bool) (tl : Option Nat) (data : List Nat) :
    lexLe data (truncateMaxValue utf8 tl data).1 = true := by
  by_cases hbin : utf8 = false ∨ validUtf8B data = false
  · exact truncateMax_ge_binary utf8 tl data hbin
  · have hu : utf8 = true := by cases utf8 <;> simp_all
    have hv : validUtf8B data = true := by cases h : validUtf8B data <;> simp_all
    obtain ⟨cs, hcs, rfl⟩ := (validUtf8B_iff data).1 hv
    have hrefl : lexLe (utf8Encode cs) (utf8Encode cs) = true := by simp [lexLe, lexLt_irrefl]
    unfold truncateMaxValue
    cases tl.filter (fun l => decide ((utf8Encode cs).length > l)) with
    | none => exact hrefl
    | some l =>
      simp only [hu, hv, if_true]
      cases hr : truncateAndIncrementUtf8 (utf8Encode cs) l with
      | none => exact hrefl
      | some r =>
        have := (truncateAndIncrementUtf8_ok cs hcs l r hr).1
        simp [lexLe, lexLt_asymm _ _ this]

/-- **Truncated bounds of a UTF-8 column stay valid UTF-8** when the value is valid UTF-8. -/
theorem truncate_results_valid_utf8 (tl : Option Nat) (data : List Nat) (hv : ValidUtf8 data) :
    ValidUtf8 (truncateMinValue true tl data).1 ∧ ValidUtf8 (truncateMaxValue true tl data).1 := by
  have hvb := (validUtf8B_iff data).2 hv
  obtain ⟨cs, hcs, rfl⟩ := hv
  constructor
  · unfold truncateMinValue
    cases tl.filter (fun l => decide ((utf8Encode cs).length > l)) with
    | none => exact ⟨cs, hcs, rfl⟩
    | some l =>
      simp only [hvb, if_true]
      cases hr : truncateUtf8 (utf8Encode cs) l with
      | none => exact ⟨cs, hcs, rfl⟩
      | some t =>
        obtain ⟨⟨k, hk⟩, _, _⟩ := truncateUtf8_ok cs l t hr
        exact ⟨cs.take k, fun c hc => hcs c (List.mem_of_mem_take hc), hk⟩
  · unfold truncateMaxValue
    cases tl.filter (fun l => decide ((utf8Encode cs).length > l)) with
    | none => exact ⟨cs, hcs, rfl⟩
    | some l =>
      simp only [hvb, if_true]
      cases hr : truncateAndIncrementUtf8 (utf8Encode cs) l with
      | none => exact ⟨cs, hcs, rfl⟩
      | some r => exact (truncateAndIncrementUtf8_ok cs hcs l r hr).2.1

/-- **A truncated bound respects the requested length.** -/
theorem truncated_length_le (utf8 : Bool) (l : Nat) (data : List Nat) :
    ((truncateMinValue utf8 (some l) data).2 = true → (truncateMinValue utf8 (some l) data).1.length ≤ l) ∧
    ((truncateMaxValue utf8 (some l) data).2 = true → (truncateMaxValue utf8 (some l) data).1.length ≤ l) := by
  by_cases hl : data.length > l
  · have hf : (some l).filter (fun l => decide (data.length > l)) = some l := by simp [Option.filter, hl]
    have htake : (data.take l).length ≤ l := by simp [List.length_take]; omega
    constructor
    · unfold truncateMinValue
      rw [hf]
      simp only
      have key : ∀ t, (if utf8 = true then (if validUtf8B data = true then truncateUtf8 data l else some (data.take l))
          else some (data.take l)) = some t → t.length ≤ l := by
        intro t ht
        by_cases hu : utf8 = true
        · by_cases hv : validUtf8B data = true
          · simp only [hu, hv, if_true] at ht
            obtain ⟨cs, hcs, rfl⟩ := (validUtf8B_iff data).1 hv
            exact (truncateUtf8_ok cs l t ht).2.1
          · simp only [hu, hv, if_true, Bool.false_eq_true, if_false, Option.some.injEq] at ht
            subst ht; exact htake
        · simp only [hu, Bool.false_eq_true, if_false, Option.some.injEq] at ht
          subst ht; exact htake
      generalize (if utf8 = true then (if validUtf8B data = true then truncateUtf8 data l else some (data.take l))
          else some (data.take l)) = r at key
      cases r with
      | none => simp
      | some t => intro _; exact key t rfl
    · unfold truncateMaxValue
      rw [hf]
      simp only
      have key : ∀ t, (if utf8 = true then (if validUtf8B data = true then truncateAndIncrementUtf8 data l else increment (data.take l))
          else increment (data.take l)) = some t → t.length ≤ l := by
        intro t ht
        have hinc : increment (data.take l) = some t → t.length ≤ l := fun h => by
          rw [(increment_upper _ t h).1]; exact htake
        by_cases hu : utf8 = true
        · by_cases hv : validUtf8B data = true
          · simp only [hu, hv, if_true] at ht
            obtain ⟨cs, hcs, rfl⟩ := (validUtf8B_iff data).1 hv
            exact (truncateAndIncrementUtf8_ok cs hcs l t ht).2.2
          · simp only [hu, hv, if_true, Bool.false_eq_true, if_false] at ht
            exact hinc ht
        · simp only [hu, Bool.false_eq_true, if_false] at ht
          exact hinc ht
      generalize (if utf8 = true then (if validUtf8B data = true then truncateAndIncrementUtf8 data l else increment (data.take l))
          else increment (data.take l)) = r at key
      cases r with
      | none => simp
      | some t => intro _; exact key t rfl
  · have hf : (some l).filter (fun l => decide (data.length > l)) = none := by simp [Option.filter, hl]
    constructor
    · unfold truncateMinValue; rw [hf]; simp
    · unfold truncateMaxValue; rw [hf]; simp

/-- `increment_utf8` gives up (`None`, i.e. the untruncated value is kept) exactly when no
char of the prefix has a successor that is a scalar value of the same UTF-8 width (U+7F,
U+7FF, U+D7FF, U+FFFF, U+10FFFF): the code never widens a char and never jumps the surrogate
gap, so this is conservative — sound, but a shorter bound may exist. -/
theorem incrementUtf8_none_iff (cs : List Nat) : incrementUtf8 cs = none ↔
    ∀ c ∈ cs, ¬ (isScalar (c + 1) = true ∧ lenUtf8 (c + 1) = lenUtf8 c) := by
  unfold incrementUtf8
  rw [incrementUtf8Rev_none]
  simp

example : incrementUtf8 [0x61, 0xD7FF, 0x10FFFF] = some [0x62] ∧ incrementUtf8 [0x7F, 0x7FF, 0xD7FF, 0xFFFF, 0x10FFFF] = none := by
  decide

/-! ## (4) boundary order -/

/-- consecutive pages are non-decreasing in both min and max -/
def ascPairs {α : Type} (gt : α → α → Bool) : List (α × α) → Bool
  | a :: b :: rest => !gt a.1 b.1 && !gt a.2 b.2 && ascPairs gt (b :: rest)
  | _ => true

theorem boundaryFlags_asc {α : Type} (gt : α → α → Bool) (ps : List (α × α)) :
    ∀ (last : Option (α × α)) (asc desc : Bool), (boundaryFlags gt last ps (asc, desc)).1 = true →
      asc = true ∧ (match last with | some l => ascPairs gt (l :: ps) = true | none => ascPairs gt ps = true) := by
  induction ps with
  | nil => intro last asc desc h; cases last <;> simpa [boundaryFlags, ascPairs] using h
  | cons p ps ih =>
    intro last asc desc h
    cases last with
    | none =>
      simp only [boundaryFlags] at h
      have := ih (some p) asc desc h
      exact ⟨this.1, this.2⟩
    | some l =>
      obtain ⟨lmin, lmax⟩ := l
      obtain ⟨nmin, nmax⟩ := p
      simp only [boundaryFlags] at h
      have := ih (some (nmin, nmax)) _ _ h
      obtain ⟨h1, h2⟩ := this
      cases asc with
      | false => simp at h1
      | true =>
        simp only [if_true, Bool.not_eq_true', Bool.or_eq_false_iff] at h1
        simp only at h2
        simp [ascPairs, h1.1, h1.2, h2]

/-- **ASCENDING is true of the (untruncated) page statistics it was computed from.** -/
theorem boundaryOrder_ascending_sound {α : Type} (gt : α → α → Bool) (pages : List (α × α))
    (h : boundaryOrder gt pages = 1) : ascPairs gt pages = true := by
  unfold boundaryOrder at h
  have := boundaryFlags_asc gt pages none true true
  cases hf : boundaryFlags gt none pages (true, true) with
  | mk a d =>
    rw [hf] at h this
    cases a with
    | true => exact (this rfl).2
    | false => cases d <;> simp at h

/-- …but **not** of the lists that are emitted when `column_index_truncate_length` cuts
them (`_partial` in spirit: the flag is computed before truncation and truncation is not
monotone).  Pages `[01 ff 05]`, `[02]`, limit 2: maxima are emitted as `[02 00]`, `[02]`
and declared ASCENDING. -/
theorem boundary_order_not_preserved_by_truncation :
    let pages : List (List Nat × List Nat) := [([1, 255, 5], [1, 255, 5]), ([2], [2])]
    boundaryOrder sliceGt pages = 1 ∧
    ascPairs sliceGt (pages.map (fun p => ((truncateMinValue false (some 2) p.1).1, (truncateMaxValue false (some 2) p.2).1))) = false := by
  decide

/-! ## (d) bloom filter -/

/-- `Block::mask` sets exactly one bit per word, at a position `< 32` (so `1 << y` never
overflows the `u32` word); uses the regenerated `>> 27`. -/
theorem mask_one_bit_per_word (x i : Nat) : maskWord x i = 2 ^ maskBit x i ∧ maskBit x i < 32 :=
  ⟨maskWord_eq x i, maskBit_lt x i⟩

/-- `hash_to_block_index` is in range for a non-empty filter (no out-of-bounds panic) -/
theorem block_index_in_range (n hash : Nat) (hn : 0 < n) : hashToBlockIndex n hash < n :=
  hashToBlockIndex_lt n hash hn

/-- **No false negatives**: after inserting any sequence of hashes into any non-empty
filter, every inserted hash tests positive. -/
theorem bloom_no_false_negatives (init : List (List Nat)) (hn : 0 < init.length) (hs : List Nat) :
    ∀ h ∈ hs, sbbfCheck (hs.foldl sbbfInsert init) h = true := by
  intro h hh
  exact (sbbfCheck_iff _ _).2 ((foldl_sbbfInsert hs init hn).2 h hh)

/-- the index lemma behind folding (documented in the source as "empirically demonstrated"):
with `g ∣ n`, `⌊hi·(n/g)/2^32⌋ = ⌊⌊hi·n/2^32⌋/g⌋`. -/
theorem fold_index (n g hash : Nat) (hg : 0 < g) (hd : g ∣ n) :
    hashToBlockIndex (n / g) hash = hashToBlockIndex n hash / g :=
  hashToBlockIndex_fold n g hash hg hd

/-- **Folding keeps every inserted hash positive**: for any insert sequence and any number
of folds `k` with `2^k` dividing the block count (block counts are powers of two). -/
theorem bloom_fold_no_false_negatives (init : List (List Nat)) (hn : 0 < init.length) (hs : List Nat)
    (k : Nat) (hd : 2 ^ k ∣ init.length) :
    ∀ h ∈ hs, sbbfCheck (foldN (hs.foldl sbbfInsert init) k) h = true := by
  intro h hh
  have hle := (foldl_sbbfInsert hs init hn).1
  exact (sbbfCheck_iff _ _).2
    (foldN_holds _ k h (by rw [← hle.1]; exact hd) ((foldl_sbbfInsert hs init hn).2 h hh))

example : sbbfCheck (foldN ([0xdeadbeef12345678, 5].foldl sbbfInsert (List.replicate 4 zeroBlock)) 2) 5 = true := by
  decide

/-! ## source shape ties -/

/-- **The expressions the model mirrors are still written the way the model reads them.**
Each `SHAPE_*` item of `tools/items/C07.py` is the literal text (whitespace-insensitive) of a
guard / update / comparison in `/repo` (argument order of `compare_greater` in `update_min` /
`update_max` / `get_min_max`, the NaN arms, the boundary-order comparisons, the truncation
guards, `increment`, `increment_utf8`, the decimal branches, `Block::insert` / `check`, the
`fold_n` loop, the ArrowWriter byte-array min/max update, …).  An edit of any of them makes
the item LOST and this obligation false, so the theorems above are never silently about code
that is no longer there. -/
theorem source_shape_ties :
    (SHAPE_UPDATE_MIN_lost ||
     SHAPE_UPDATE_MAX_lost ||
     SHAPE_UPDATE_STAT_lost ||
     SHAPE_UPDATE_MIN_NAN_lost ||
     SHAPE_UPDATE_MAX_NAN_lost ||
     SHAPE_IS_NAN_F16_lost ||
     SHAPE_NULL_PAGE_lost ||
     SHAPE_NOT_ASCENDING_lost ||
     SHAPE_NOT_DESCENDING_lost ||
     SHAPE_BOUNDARY_ORDER_lost ||
     SHAPE_LAST_MIN_MAX_lost ||
     SHAPE_TRUNC_FILTER_lost ||
     SHAPE_TRUNC_MIN_BIN_lost ||
     SHAPE_TRUNC_MAX_BIN_lost ||
     SHAPE_TRUNC_EXACT_lost ||
     SHAPE_CAN_TRUNCATE_lost ||
     SHAPE_NO_TRUNCATE_FLBA_lost ||
     SHAPE_NO_TRUNCATE_DECIMAL_lost ||
     SHAPE_TRUNC_STATS_BA_GUARD_lost ||
     SHAPE_TRUNC_STATS_FLBA_GUARD_lost ||
     SHAPE_TRUNCATE_UTF8_lost ||
     SHAPE_TRUNC_INC_UTF8_lost ||
     SHAPE_INC_UTF8_lost ||
     SHAPE_INCREMENT_lost ||
     SHAPE_DEC_EMPTY_lost ||
     SHAPE_DEC_SHORT_lost ||
     SHAPE_DEC_NOT_EQUAL_lost ||
     SHAPE_DEC_TAILS_lost ||
     SHAPE_DEC_EQUAL_lost ||
     SHAPE_GET_MIN_MAX_lost ||
     SHAPE_GET_MIN_MAX_NAN_lost ||
     SHAPE_BLOOM_INSERT_ALL_lost ||
     SHAPE_ARROW_MIN_lost ||
     SHAPE_ARROW_MAX_lost ||
     SHAPE_ARROW_MIN_MAX_lost ||
     SHAPE_MASK_BIT_lost ||
     SHAPE_BLOCK_INSERT_lost ||
     SHAPE_BLOCK_CHECK_lost ||
     SHAPE_SBBF_INSERT_lost ||
     SHAPE_SBBF_CHECK_lost ||
     SHAPE_FOLD_lost ||
     SHAPE_BITOR_ASSIGN_lost) = false := by decide

end ArrowModel.C07
