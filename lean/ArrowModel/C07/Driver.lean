import ArrowModel.Common.Proto
import ArrowModel.C07.Spec
import ArrowModel.C07.Model
/-
C07 driver: one case per line → one canonical answer per line.  Answers come from the
*algorithm model*; the specification (bounds under the column's intended order) is
evaluated next to it and `MODEL-SPEC-MISMATCH` is printed when the model's statistics do
not satisfy it (the theorems say this cannot happen for the comparison itself; it does
happen where the boundary order is declared on truncated column-index lists — known finding).
-/
namespace ArrowModel.C07
open ArrowModel.Proto

/-- little-endian bytes → signed integer of `8 * len` bits -/
def leSigned (bs : List Nat) : Int :=
  let n := bytesToNat bs
  let w := 8 * bs.length
  if n < 2 ^ (w - 1) then (n : Int) else (n : Int) - (2 : Int) ^ w

/-- the per-kind operations: `compare_greater`, `is_nan`, which truncations apply, and the
intended (specification) order `a ≤ b` -/
structure KindOps where
  gt : List Nat → List Nat → Bool
  nan : List Nat → Bool
  truncStats : Bool
  truncIndex : Bool
  utf8 : Bool
  specLe : List Nat → List Nat → Bool

def kindOps (k : String) : Option KindOps :=
  let noNan : List Nat → Bool := fun _ => false
  let prim (gt : List Nat → List Nat → Bool) (nan : List Nat → Bool) (le : List Nat → List Nat → Bool) : KindOps :=
    { gt := gt, nan := nan, truncStats := false, truncIndex := false, utf8 := false, specLe := le }
  if k = "i32" ∨ k = "i64" then
    some (prim (fun a b => compareGreaterSigned (leSigned a) (leSigned b)) noNan
      (fun a b => decide (leSigned a ≤ leSigned b)))
  else if k = "u32" ∨ k = "u64" then
    some (prim (fun a b => compareGreaterUnsigned (leSigned a) (leSigned b)) noNan
      (fun a b => decide (bytesToNat a ≤ bytesToNat b)))
  else if k = "f32" then
    some (prim (fun a b => compareGreaterTotal 32 (bytesToNat a) (bytesToNat b)) (fun a => isNanF32 (bytesToNat a))
      (fun a b => decide (totalKey 32 (bytesToNat a) ≤ totalKey 32 (bytesToNat b))))
  else if k = "f64" then
    some (prim (fun a b => compareGreaterTotal 64 (bytesToNat a) (bytesToNat b)) (fun a => isNanF64 (bytesToNat a))
      (fun a b => decide (totalKey 64 (bytesToNat a) ≤ totalKey 64 (bytesToNat b))))
  else if k = "f16" then
    some (prim (fun a b => compareGreaterTotal 16 (bytesToNat a) (bytesToNat b)) (fun a => isNanF16 (bytesToNat a))
      (fun a b => decide (totalKey 16 (bytesToNat a) ≤ totalKey 16 (bytesToNat b))))
  else if k = "bool" then
    some (prim (fun a b => decide (bytesToNat a > bytesToNat b)) noNan (fun a b => decide (bytesToNat a ≤ bytesToNat b)))
  else if k = "decba" then
    some { gt := compareGreaterByteArrayDecimals, nan := noNan, truncStats := canTruncateValue 1 true false,
           truncIndex := canTruncateValue 1 true false, utf8 := false,
           specLe := fun a b => decide (decimalValue a ≤ decimalValue b) }
  else if k.startsWith "decflba" then
    some { gt := compareGreaterByteArrayDecimals, nan := noNan, truncStats := canTruncateValue 2 true false,
           truncIndex := canTruncateValue 2 true false, utf8 := false,
           specLe := fun a b => decide (decimalValue a ≤ decimalValue b) }
  else if k = "utf8" then
    some { gt := sliceGt, nan := noNan, truncStats := canTruncateValue 1 false false,
           truncIndex := canTruncateValue 1 false false, utf8 := true, specLe := lexLe }
  else if k = "bin" then
    some { gt := sliceGt, nan := noNan, truncStats := canTruncateValue 1 false false,
           truncIndex := canTruncateValue 1 false false, utf8 := false, specLe := lexLe }
  else if k.startsWith "flba" then
    some { gt := sliceGt, nan := noNan, truncStats := canTruncateValue 2 false false,
           truncIndex := canTruncateValue 2 false false, utf8 := false, specLe := lexLe }
  else none

/-- one value: `e` = empty byte string, otherwise hex -/
def parseValue (s : String) : Option (List Nat) :=
  if s = "e" then some [] else if s = "-" ∨ s = "n" then none else parseHex s

def parseBatch (s : String) : Option (List (List Nat)) :=
  if s = "-" then some [] else (s.splitOn ",").mapM parseValue

def parseBatches (s : String) : Option (List (List (List Nat))) := (s.splitOn ";").mapM parseBatch

/-- `write_batch_internal`: consecutive mini-batches of `write_batch_size` values -/
def splitMini {α} (wbs : Nat) : Nat → List α → List (List α)
  | 0, _ => []
  | fuel + 1, xs => if xs.isEmpty then [] else xs.take (max wbs 1) :: splitMini wbs fuel (xs.drop (max wbs 1))

/-- page layout: after each mini-batch a page is cut once `data_page_row_count_limit` rows
are buffered (`should_add_data_page`); `close` flushes the rest -/
def layoutPages {α} (rowlimit : Nat) : List (List α) → List (List α) → Nat → List (List (List α))
  | [], cur, n => if n > 0 then [cur.reverse] else []
  | mb :: rest, cur, n =>
    let n' := n + mb.length
    if n' ≥ rowlimit then (mb :: cur).reverse :: layoutPages rowlimit rest [] 0
    else layoutPages rowlimit rest (mb :: cur) n'

def showOpt (v : Option (List Nat)) : String :=
  match v with
  | none => "none"
  | some [] => "e"
  | some bs => toHex bs

def optTl (n : Nat) : Option Nat := if n = 0 then none else some n

/-- the caller-supplied statistics of `write_batch_with_statistics` as the harness computes them
(`Iterator::min_by` / `max_by` over the non-NaN values under the column order): the FIRST
minimal and the LAST maximal element -/
def providedMinMax (ops : KindOps) (batch : List (List Nat)) : Option (List Nat × List Nat) :=
  match batch.filter (fun v => !(ops.nan v)) with
  | [] => none
  | f :: rest =>
    some (rest.foldl (fun m v => if ops.specLe m v then m else v) f,
          rest.foldl (fun m v => if ops.specLe m v then v else m) f)

/-- state of the column writer while the batches are written: chunk `(min,max)`, the mini-batches
of the current page (newest first), its buffered row count, the finished pages (newest first) -/
structure WState where
  col : MinMax (List Nat)
  cur : List (List (List Nat))
  n : Nat
  pages : List (List (List (List Nat)))

/-- `write_batch_internal` for one batch: optional caller statistics go into the chunk metrics
first, then the mini-batches; a page is cut (and folded into the chunk metrics) as soon as
`data_page_row_count_limit` rows are buffered -/
def writeBatch (ops : KindOps) (withStats : Bool) (wbs rowlimit : Nat) (st : WState) (batch : List (List Nat)) : WState :=
  let st := if withStats then
      match providedMinMax ops batch with
      | some (mn, mx) => { st with col := ⟨updateMin ops.gt ops.nan mn st.col.min, updateMax ops.gt ops.nan mx st.col.max⟩ }
      | none => st
    else st
  (splitMini wbs (batch.length + 1) batch).foldl (fun st mb =>
    let n' := st.n + mb.length
    if n' ≥ rowlimit then
      let page := (mb :: st.cur).reverse
      { col := addPage ops.gt ops.nan st.col (pageStats ops.gt ops.nan page), cur := [], n := 0, pages := page :: st.pages }
    else { st with cur := mb :: st.cur, n := n' }) st

/-- answer of a `stats` case computed with the model, plus the verdict of the specification -/
def statsAnswer (ops : KindOps) (withStats : Bool) (stl cil wbs rowlimit : Nat) (batches : List (List (List Nat))) : String :=
  let st := batches.foldl (writeBatch ops withStats wbs rowlimit) ⟨MinMax.empty, [], 0, []⟩
  -- `close`: the buffered rest becomes the last page
  let st := if st.n > 0 then
      let page := st.cur.reverse
      { st with col := addPage ops.gt ops.nan st.col (pageStats ops.gt ops.nan page), pages := page :: st.pages }
    else st
  let pages := st.pages.reverse
  let chunk := st.col
  let pageMM := pages.map (pageStats ops.gt ops.nan)
  -- chunk statistics → truncate_statistics
  let (cmin, cminExact, cmax, cmaxExact) :=
    match chunk.min, chunk.max with
    | some mn, some mx =>
      if ops.truncStats then
        let a := truncateMinValue ops.utf8 (optTl stl) mn
        let b := truncateMaxValue ops.utf8 (optTl stl) mx
        (some a.1, !a.2, some b.1, !b.2)
      else (some mn, true, some mx, true)
    | mn, mx => (mn, mn.isSome, mx, mx.isSome)
  -- column index: pages (untruncated values decide the boundary order, emitted values are truncated)
  let pm := pageMM.filterMap (fun p => match p.min, p.max with | some a, some b => some (a, b) | _, _ => none)
  let order := boundaryOrder ops.gt pm
  let emitted := pm.map (fun (p : List Nat × List Nat) =>
    if ops.truncIndex then ((truncateMinValue ops.utf8 (optTl cil) p.1).1, (truncateMaxValue ops.utf8 (optTl cil) p.2).1)
    else p)
  let pagesS := showList (fun (p : List Nat × List Nat) => s!"{showOpt (some p.1)}:{showOpt (some p.2)}") emitted
  let model := s!"{showOpt cmin} {showOpt cmax} {showBool cminExact} {showBool cmaxExact} {order} {pagesS}"
  -- specification: the (untruncated) chunk min/max bound every non-NaN value and so do the page ones
  let vals := (batches.flatten).filter (fun v => !(ops.nan v))
  let okChunk :=
    match chunk.min, chunk.max with
    | some mn, some mx => vals.all (fun v => ops.specLe mn v && ops.specLe v mx)
    | _, _ => vals.isEmpty
  let okPages := (pages.zip pageMM).all (fun (pg, mm) =>
    let pv := (pg.flatten).filter (fun v => !(ops.nan v))
    match mm.min, mm.max with
    | some mn, some mx => pv.all (fun v => ops.specLe mn v && ops.specLe v mx)
    | _, _ => pv.isEmpty)
  -- truncated bounds still bound (unsigned byte order kinds only; for decimals this is the intended order)
  let okTrunc :=
    match cmin, cmax with
    | some mn, some mx => vals.all (fun v => ops.specLe mn v && ops.specLe v mx)
    | _, _ => true
  -- emitted (truncated) page bounds still bound, and the declared boundary order is true of the emitted lists
  let okEmitted := ((pages.zip pageMM).filter (fun (_, mm) => mm.min.isSome && mm.max.isSome)).zip emitted |>.all
    (fun ((pg, _), (mn, mx)) => ((pg.flatten).filter (fun v => !(ops.nan v))).all (fun v => ops.specLe mn v && ops.specLe v mx))
  let rec sortedBy (le : List Nat → List Nat → Bool) : List (List Nat) → Bool
    | a :: b :: rest => le a b && sortedBy le (b :: rest)
    | _ => true
  let mins := emitted.map (·.1)
  let maxs := emitted.map (·.2)
  let okOrder :=
    if order = 1 then sortedBy ops.specLe mins && sortedBy ops.specLe maxs
    else if order = 2 then sortedBy (fun a b => ops.specLe b a) mins && sortedBy (fun a b => ops.specLe b a) maxs
    else true
  -- the verdict is about what the file shows (emitted chunk bounds, emitted page bounds, declared order);
  -- the untruncated intermediate values are reported for information only
  if okTrunc && okEmitted && okOrder then model
  else s!"MODEL-SPEC-MISMATCH model={model} spec=bounds(chunk={showBool okChunk},pages={showBool okPages},truncated={showBool okTrunc},emitted={showBool okEmitted},order={showBool okOrder})"

def showBlocks (blocks : List (List Nat)) : String :=
  toHex ((blocks.map (fun b => (b.map (fun w => natToBytes 4 w)).flatten)).flatten)

/-- `optimal_num_of_bytes`: clamp to [MIN, MAX], next power of two -/
def nextPow2 (n : Nat) : Nat := Id.run do
  let mut p := 1
  for _ in [0:64] do
    if p < n then p := p * 2
  return p

def handle (toks : List String) : String :=
  match toks with
  | ["stats", kind, stl, cil, wbs, rowlimit, flags, batches] =>
    match kindOps kind, stl.toNat?, cil.toNat?, wbs.toNat?, rowlimit.toNat?, flags.toNat?, parseBatches batches with
    | some ops, some stl, some cil, some wbs, some rowlimit, some flags, some bs =>
      statsAnswer ops (flags / 32 % 2 == 1) stl cil wbs rowlimit bs
    | _, _, _, _, _, _, _ => "bad-op"
  | ["nested", _rowlimit, _wbs, _flags, rows] =>
    -- specification only: number of rows and of non-null leaf values
    let rs := if rows = "-" then [] else rows.splitOn ";"
    let leaves := (rs.map (fun r => if r = "N" ∨ r = "E" then 0 else ((r.splitOn ",").filter (· ≠ "n")).length)).foldl (· + ·) 0
    s!"{rs.length} {leaves}"
  | ["file", _api, _kind, _stl, _cil, level, _wbs, _rowlimit, _flags, _bloom, _rg, batches] =>
    -- specification only: number of rows and nulls
    let items := ((batches.splitOn ";").map (fun b => if b = "-" then [] else b.splitOn ",")).flatten
    let nulls := (items.filter (· = "n")).length
    s!"{items.length} {if level = "0" ∨ items.length = 0 then "x" else toString nulls}"
  | ["bloom", nbytes, folds, _fpp, _values, hashes] =>
    match nbytes.toNat?, folds.toNat?, parseList (fun s => s.toNat?) hashes with
    | some nbytes, some folds, some hs =>
      let nb := nextPow2 (max (min nbytes Generated.C07.BITSET_MAX_LENGTH) Generated.C07.BITSET_MIN_LENGTH)
      let blocks0 := List.replicate (nb / (4 * Generated.C07.BLOCK_WORDS)) zeroBlock
      let blocks := hs.foldl sbbfInsert blocks0
      let folded := if folds = 0 then blocks else foldN blocks folds
      -- specification: every inserted hash tests positive before and after folding
      if hs.all (sbbfCheck blocks) && hs.all (sbbfCheck folded) then
        s!"{folded.length} {showBlocks folded}"
      else s!"MODEL-SPEC-MISMATCH model={folded.length} {showBlocks folded} spec=inserted-hash-not-found"
    | _, _, _ => "bad-op"
  | _ => "bad-op"

end ArrowModel.C07
