import ArrowModel.C07.Model
/-
C07 — helper lemmas: strict weak orders and the min/max folds, big-endian decimals,
lexicographic byte order and `increment`, bloom-filter blocks and index arithmetic.
-/
namespace ArrowModel.C07
open ArrowModel.Generated.C07

/-! ## min/max folds -/

/-- `gt` is the strict part of a total preorder -/
structure StrictWeak {α} (gt : α → α → Bool) : Prop where
  asymm : ∀ a b, gt a b = true → gt b a = false
  negTrans : ∀ a b c, gt a b = false → gt b c = false → gt a c = false

theorem StrictWeak.irrefl {α} {gt : α → α → Bool} (h : StrictWeak gt) (a : α) : gt a a = false := by
  cases hg : gt a a with
  | false => rfl
  | true => have := h.asymm a a hg; simp [hg] at this

def IsMin {α} (gt : α → α → Bool) (nan : α → Bool) (m : α) (xs : List α) : Prop :=
  m ∈ xs ∧ ((∃ x ∈ xs, nan x = false) → nan m = false ∧ ∀ x ∈ xs, nan x = false → gt m x = false)

def IsMax {α} (gt : α → α → Bool) (nan : α → Bool) (m : α) (xs : List α) : Prop :=
  m ∈ xs ∧ ((∃ x ∈ xs, nan x = false) → nan m = false ∧ ∀ x ∈ xs, nan x = false → gt x m = false)

def OptIsMin {α} (gt : α → α → Bool) (nan : α → Bool) (o : Option α) (xs : List α) : Prop :=
  match o with
  | none => xs = []
  | some m => IsMin gt nan m xs

def OptIsMax {α} (gt : α → α → Bool) (nan : α → Bool) (o : Option α) (xs : List α) : Prop :=
  match o with
  | none => xs = []
  | some m => IsMax gt nan m xs

variable {α : Type} {gt : α → α → Bool} {nan : α → Bool}

theorem updateMin_merge (h : StrictWeak gt) {cur : Option α} {ys xs : List α} {v : α}
    (hc : OptIsMin gt nan cur ys) (hv : IsMin gt nan v xs) :
    OptIsMin gt nan (updateMin gt nan v cur) (ys ++ xs) := by
  cases cur with
  | none =>
    simp only [OptIsMin] at hc
    subst hc
    simpa [updateMin, OptIsMin] using hv
  | some m =>
    simp only [OptIsMin] at hc
    obtain ⟨hm, hmb⟩ := hc
    obtain ⟨hvm, hvb⟩ := hv
    simp only [updateMin]
    cases hnm : nan m <;> cases hnv : nan v <;> simp only [OptIsMin]
    · -- both non-NaN
      have hmb' := hmb ⟨m, hm, hnm⟩
      have hvb' := hvb ⟨v, hvm, hnv⟩
      cases hg : gt m v <;> simp only [if_true, if_false, Bool.false_eq_true]
      · refine ⟨by simp [hm], fun _ => ⟨hnm, ?_⟩⟩
        intro x hx hnx
        rcases List.mem_append.1 hx with hx | hx
        · exact hmb'.2 x hx hnx
        · exact h.negTrans m v x hg (hvb'.2 x hx hnx)
      · refine ⟨by simp [hvm], fun _ => ⟨hnv, ?_⟩⟩
        intro x hx hnx
        rcases List.mem_append.1 hx with hx | hx
        · exact h.negTrans v m x (h.asymm m v hg) (hmb'.2 x hx hnx)
        · exact hvb'.2 x hx hnx
    · -- m non-NaN, v NaN: keep m
      have hmb' := hmb ⟨m, hm, hnm⟩
      refine ⟨by simp [hm], fun _ => ⟨hnm, ?_⟩⟩
      intro x hx hnx
      rcases List.mem_append.1 hx with hx | hx
      · exact hmb'.2 x hx hnx
      · have := (hvb ⟨x, hx, hnx⟩).1; simp [hnv] at this
    · -- m NaN, v non-NaN: take v
      have hvb' := hvb ⟨v, hvm, hnv⟩
      refine ⟨by simp [hvm], fun _ => ⟨hnv, ?_⟩⟩
      intro x hx hnx
      rcases List.mem_append.1 hx with hx | hx
      · have := (hmb ⟨x, hx, hnx⟩).1; simp [hnm] at this
      · exact hvb'.2 x hx hnx
    · -- both NaN: every value so far is NaN
      have hall : ¬ ∃ x ∈ ys ++ xs, nan x = false := by
        rintro ⟨x, hx, hnx⟩
        rcases List.mem_append.1 hx with hx | hx
        · have := (hmb ⟨x, hx, hnx⟩).1; simp [hnm] at this
        · have := (hvb ⟨x, hx, hnx⟩).1; simp [hnv] at this
      cases hg : gt m v <;> simp only [if_true, if_false, Bool.false_eq_true]
      · exact ⟨by simp [hm], fun h' => absurd h' hall⟩
      · exact ⟨by simp [hvm], fun h' => absurd h' hall⟩

theorem updateMax_merge (h : StrictWeak gt) {cur : Option α} {ys xs : List α} {v : α}
    (hc : OptIsMax gt nan cur ys) (hv : IsMax gt nan v xs) :
    OptIsMax gt nan (updateMax gt nan v cur) (ys ++ xs) := by
  cases cur with
  | none =>
    simp only [OptIsMax] at hc
    subst hc
    simpa [updateMax, OptIsMax] using hv
  | some m =>
    simp only [OptIsMax] at hc
    obtain ⟨hm, hmb⟩ := hc
    obtain ⟨hvm, hvb⟩ := hv
    simp only [updateMax]
    cases hnm : nan m <;> cases hnv : nan v <;> simp only [OptIsMax]
    · have hmb' := hmb ⟨m, hm, hnm⟩
      have hvb' := hvb ⟨v, hvm, hnv⟩
      cases hg : gt v m <;> simp only [if_true, if_false, Bool.false_eq_true]
      · refine ⟨by simp [hm], fun _ => ⟨hnm, ?_⟩⟩
        intro x hx hnx
        rcases List.mem_append.1 hx with hx | hx
        · exact hmb'.2 x hx hnx
        · exact h.negTrans x v m (hvb'.2 x hx hnx) hg
      · refine ⟨by simp [hvm], fun _ => ⟨hnv, ?_⟩⟩
        intro x hx hnx
        rcases List.mem_append.1 hx with hx | hx
        · exact h.negTrans x m v (hmb'.2 x hx hnx) (h.asymm v m hg)
        · exact hvb'.2 x hx hnx
    · have hmb' := hmb ⟨m, hm, hnm⟩
      refine ⟨by simp [hm], fun _ => ⟨hnm, ?_⟩⟩
      intro x hx hnx
      rcases List.mem_append.1 hx with hx | hx
      · exact hmb'.2 x hx hnx
      · have := (hvb ⟨x, hx, hnx⟩).1; simp [hnv] at this
    · have hvb' := hvb ⟨v, hvm, hnv⟩
      refine ⟨by simp [hvm], fun _ => ⟨hnv, ?_⟩⟩
      intro x hx hnx
      rcases List.mem_append.1 hx with hx | hx
      · have := (hmb ⟨x, hx, hnx⟩).1; simp [hnm] at this
      · exact hvb'.2 x hx hnx
    · have hall : ¬ ∃ x ∈ ys ++ xs, nan x = false := by
        rintro ⟨x, hx, hnx⟩
        rcases List.mem_append.1 hx with hx | hx
        · have := (hmb ⟨x, hx, hnx⟩).1; simp [hnm] at this
        · have := (hvb ⟨x, hx, hnx⟩).1; simp [hnv] at this
      cases hg : gt v m <;> simp only [if_true, if_false, Bool.false_eq_true]
      · exact ⟨by simp [hm], fun h' => absurd h' hall⟩
      · exact ⟨by simp [hvm], fun h' => absurd h' hall⟩

/-- loop invariant of `get_min_max` -/
def MMInv (gt : α → α → Bool) (nan : α → Bool) (done : List α) (mn mx : α) (mmNan : Bool) : Prop :=
  mn ∈ done ∧ mx ∈ done ∧ gt mn mx = false ∧
  (mmNan = true → ∀ x ∈ done, nan x = true) ∧
  (mmNan = false → nan mn = false ∧ nan mx = false ∧ ∀ x ∈ done, nan x = false → gt mn x = false ∧ gt x mx = false)

theorem getMinMaxLoop_ok (h : StrictWeak gt) (vs : List α) :
    ∀ (done : List α) (mn mx : α) (mmNan : Bool) (n : Nat), MMInv gt nan done mn mx mmNan →
      IsMin gt nan (getMinMaxLoop gt nan vs mn mx mmNan n).1 (done ++ vs) ∧
      IsMax gt nan (getMinMaxLoop gt nan vs mn mx mmNan n).2.1 (done ++ vs) := by
  induction vs with
  | nil =>
    intro done mn mx mmNan n ⟨h1, h2, _, h4, h5⟩
    simp only [getMinMaxLoop, List.append_nil]
    have key : (∃ x ∈ done, nan x = false) → mmNan = false := by
      rintro ⟨x, hx, hnx⟩
      cases hm : mmNan with
      | false => rfl
      | true => have := h4 hm x hx; simp [hnx] at this
    exact ⟨⟨h1, fun he => ⟨(h5 (key he)).1, fun x hx hnx => ((h5 (key he)).2.2 x hx hnx).1⟩⟩,
           ⟨h2, fun he => ⟨(h5 (key he)).2.1, fun x hx hnx => ((h5 (key he)).2.2 x hx hnx).2⟩⟩⟩
  | cons v vs ih =>
    intro done mn mx mmNan n ⟨h1, h2, h3, h4, h5⟩
    have happ : done ++ v :: vs = (done ++ [v]) ++ vs := by simp
    rw [happ]
    simp only [getMinMaxLoop]
    cases hmm : mmNan <;> cases hnv : nan v <;> simp only []
    · -- non-NaN running, non-NaN value
      obtain ⟨a1, a2, a3⟩ := h5 hmm
      by_cases hg1 : gt mn v = true
      · simp only [hg1, if_true]
        apply ih
        refine ⟨by simp, by simp [h2], ?_, by simp, fun _ => ⟨hnv, a2, ?_⟩⟩
        · exact h.negTrans v mn mx (h.asymm mn v hg1) h3
        · intro x hx hnx
          rcases List.mem_append.1 hx with hx | hx
          · exact ⟨h.negTrans v mn x (h.asymm mn v hg1) (a3 x hx hnx).1, (a3 x hx hnx).2⟩
          · simp at hx; subst hx
            exact ⟨h.irrefl x, h.negTrans x mn mx (h.asymm mn x hg1) h3⟩
      · have hg1' : gt mn v = false := by simpa using hg1
        simp only [hg1', Bool.false_eq_true, if_false]
        by_cases hg2 : gt v mx = true
        · simp only [hg2, if_true]
          apply ih
          refine ⟨by simp [h1], by simp, hg1', by simp, fun _ => ⟨a1, hnv, ?_⟩⟩
          intro x hx hnx
          rcases List.mem_append.1 hx with hx | hx
          · exact ⟨(a3 x hx hnx).1, h.negTrans x mx v (a3 x hx hnx).2 (h.asymm v mx hg2)⟩
          · simp at hx; subst hx
            exact ⟨hg1', h.irrefl x⟩
        · have hg2' : gt v mx = false := by simpa using hg2
          simp only [hg2', Bool.false_eq_true, if_false]
          apply ih
          refine ⟨by simp [h1], by simp [h2], h3, by simp, fun _ => ⟨a1, a2, ?_⟩⟩
          intro x hx hnx
          rcases List.mem_append.1 hx with hx | hx
          · exact a3 x hx hnx
          · simp at hx; subst hx
            exact ⟨hg1', hg2'⟩
    · -- non-NaN running, NaN value: skipped
      obtain ⟨a1, a2, a3⟩ := h5 hmm
      apply ih
      refine ⟨by simp [h1], by simp [h2], h3, by simp, fun _ => ⟨a1, a2, ?_⟩⟩
      intro x hx hnx
      rcases List.mem_append.1 hx with hx | hx
      · exact a3 x hx hnx
      · simp at hx; subst hx; simp [hnv] at hnx
    · -- NaN running, non-NaN value: reset
      apply ih
      refine ⟨by simp, by simp, h.irrefl v, by simp, fun _ => ⟨hnv, hnv, ?_⟩⟩
      intro x hx hnx
      rcases List.mem_append.1 hx with hx | hx
      · have := h4 hmm x hx; simp [hnx] at this
      · simp at hx; subst hx; exact ⟨h.irrefl x, h.irrefl x⟩
    · -- everything NaN so far
      have hall : ∀ x ∈ done ++ [v], nan x = true := by
        intro x hx
        rcases List.mem_append.1 hx with hx | hx
        · exact h4 hmm x hx
        · simp at hx; subst hx; exact hnv
      by_cases hg1 : gt mn v = true
      · simp only [hg1, if_true]
        apply ih
        exact ⟨by simp, by simp [h2], h.negTrans v mn mx (h.asymm mn v hg1) h3, fun _ => hall, by simp⟩
      · have hg1' : gt mn v = false := by simpa using hg1
        simp only [hg1', Bool.false_eq_true, if_false]
        by_cases hg2 : gt v mx = true
        · simp only [hg2, if_true]
          apply ih
          exact ⟨by simp [h1], by simp, hg1', fun _ => hall, by simp⟩
        · have hg2' : gt v mx = false := by simpa using hg2
          simp only [hg2', Bool.false_eq_true, if_false]
          apply ih
          exact ⟨by simp [h1], by simp [h2], h3, fun _ => hall, by simp⟩

theorem getMinMax_ok (h : StrictWeak gt) (slice : List α) :
    match getMinMax gt nan slice with
    | none => slice = []
    | some r => IsMin gt nan r.1 slice ∧ IsMax gt nan r.2.1 slice := by
  cases slice with
  | nil => simp [getMinMax]
  | cons f rest =>
    simp only [getMinMax]
    have := getMinMaxLoop_ok (nan := nan) h rest [f] f f (nan f) (if nan f = true then 1 else 0)
      ⟨by simp, by simp, h.irrefl f, by intro hn x hx; simp at hx; subst hx; exact hn,
       by intro hn; refine ⟨hn, hn, ?_⟩; intro x hx _; simp at hx; subst hx; exact ⟨h.irrefl x, h.irrefl x⟩⟩
    simpa using this

/-- both running values describe the same list of values seen so far -/
def MMOk (gt : α → α → Bool) (nan : α → Bool) (acc : MinMax α) (ys : List α) : Prop :=
  OptIsMin gt nan acc.min ys ∧ OptIsMax gt nan acc.max ys

theorem writeSlice_ok (h : StrictWeak gt) {acc : MinMax α} {ys : List α} (slice : List α)
    (hacc : MMOk gt nan acc ys) : MMOk gt nan (writeSlice gt nan acc slice) (ys ++ slice) := by
  have hg := getMinMax_ok (nan := nan) h slice
  unfold writeSlice
  cases hr : getMinMax gt nan slice with
  | none =>
    rw [hr] at hg
    simp only at hg
    subst hg
    simpa using hacc
  | some r =>
    rw [hr] at hg
    obtain ⟨mn, mx, n⟩ := r
    simp only at hg ⊢
    exact ⟨updateMin_merge h hacc.1 hg.1, updateMax_merge h hacc.2 hg.2⟩

theorem foldl_writeSlice_ok (h : StrictWeak gt) (minis : List (List α)) :
    ∀ (acc : MinMax α) (ys : List α), MMOk gt nan acc ys →
      MMOk gt nan (minis.foldl (writeSlice gt nan) acc) (ys ++ minis.flatten) := by
  induction minis with
  | nil => intro acc ys h0; simpa using h0
  | cons m ms ih =>
    intro acc ys h0
    simp only [List.foldl_cons, List.flatten_cons]
    have := ih _ _ (writeSlice_ok h m h0)
    simpa [List.append_assoc] using this

theorem pageStats_ok (h : StrictWeak gt) (minis : List (List α)) :
    MMOk gt nan (pageStats gt nan minis) minis.flatten := by
  have := foldl_writeSlice_ok (nan := nan) h minis MinMax.empty [] ⟨rfl, rfl⟩
  simpa [pageStats] using this

theorem addPage_ok (h : StrictWeak gt) {col page : MinMax α} {ys xs : List α}
    (hc : MMOk gt nan col ys) (hp : MMOk gt nan page xs) :
    MMOk gt nan (addPage gt nan col page) (ys ++ xs) := by
  obtain ⟨pmin, pmax⟩ := page
  obtain ⟨hp1, hp2⟩ := hp
  unfold addPage
  cases pmin with
  | none =>
    simp only [OptIsMin] at hp1
    subst hp1
    simpa using hc
  | some mn =>
    cases pmax with
    | none =>
      simp only [OptIsMax] at hp2
      subst hp2
      simp only [OptIsMin, IsMin] at hp1
      simp at hp1
    | some mx =>
      simp only [OptIsMin, OptIsMax] at hp1 hp2
      exact ⟨updateMin_merge h hc.1 hp1, updateMax_merge h hc.2 hp2⟩

theorem chunkStats_ok (h : StrictWeak gt) (pages : List (List (List α))) :
    MMOk gt nan (chunkStats gt nan pages) (pages.map List.flatten).flatten := by
  unfold chunkStats
  suffices H : ∀ (col : MinMax α) (ys : List α), MMOk gt nan col ys →
      MMOk gt nan ((pages.map (pageStats gt nan)).foldl (addPage gt nan) col)
        (ys ++ (pages.map List.flatten).flatten) by
    simpa using H MinMax.empty [] ⟨rfl, rfl⟩
  induction pages with
  | nil => intro col ys h0; simpa using h0
  | cons p ps ih =>
    intro col ys h0
    simp only [List.map_cons, List.foldl_cons, List.flatten_cons]
    have := ih _ _ (addPage_ok h h0 (pageStats_ok (nan := nan) h p))
    simpa [List.append_assoc] using this

/-! ## decimals -/

theorem beNat_lt (bs : List Nat) (h : Bytes bs) : beNat bs < 256 ^ bs.length := by
  induction bs with
  | nil => simp [beNat]
  | cons b bs ih =>
    have hb : b < 256 := h b (by simp)
    have ih' := ih (fun x hx => h x (by simp [hx]))
    simp only [beNat, List.length_cons, Nat.pow_succ]
    have : b * 256 ^ bs.length + 256 ^ bs.length ≤ 256 * 256 ^ bs.length := by
      have := Nat.mul_le_mul_right (256 ^ bs.length) (show b + 1 ≤ 256 by omega)
      simpa [Nat.add_mul] using this
    omega

theorem mul_step {a b P : Nat} (h : a < b) : a * P + P ≤ b * P := by
  have := Nat.mul_le_mul_right P (show a + 1 ≤ b by omega)
  simpa [Nat.add_mul] using this

theorem lexLt_iff_beNat (as : List Nat) : ∀ (bs : List Nat), as.length = bs.length → Bytes as → Bytes bs →
    (lexLt as bs = true ↔ beNat as < beNat bs) := by
  induction as with
  | nil => intro bs hl _ _; cases bs with
    | nil => simp [lexLt, beNat]
    | cons b bs => simp at hl
  | cons a as ih =>
    intro bs hl ha hb
    cases bs with
    | nil => simp at hl
    | cons b bs =>
      have hl' : as.length = bs.length := by simpa using hl
      have ha' : Bytes as := fun x hx => ha x (by simp [hx])
      have hb' : Bytes bs := fun x hx => hb x (by simp [hx])
      have hA := beNat_lt as ha'
      have hB := beNat_lt bs hb'
      have ih' := ih bs hl' ha' hb'
      simp only [lexLt, beNat, Bool.or_eq_true, Bool.and_eq_true, decide_eq_true_eq]
      rw [hl'] at hA ⊢
      rcases Nat.lt_trichotomy a b with hlt | heq | hgt
      · have := mul_step (P := 256 ^ bs.length) hlt
        constructor
        · intro _; omega
        · intro _; exact Or.inl hlt
      · subst heq
        constructor
        · rintro (h | ⟨_, h⟩)
          · omega
          · have := ih'.1 h; omega
        · intro h; exact Or.inr ⟨rfl, ih'.2 (by omega)⟩
      · have := mul_step (P := 256 ^ bs.length) hgt
        constructor
        · rintro (h | ⟨h, _⟩) <;> omega
        · intro _; omega

theorem decimalValue_cons (f : Nat) (t : List Nat) :
    decimalValue (f :: t) = toI8 f * (256 : Int) ^ t.length + (beNat t : Int) := by
  have hp : (256 : Int) ^ (f :: t).length = 256 * (256 : Int) ^ t.length := by
    rw [List.length_cons, Int.pow_succ, Int.mul_comm]
  have hb : ((beNat (f :: t) : Nat) : Int) = (f : Int) * (256 : Int) ^ t.length + (beNat t : Int) := by
    show ((f * 256 ^ t.length + beNat t : Nat) : Int) = _
    rw [Int.natCast_add, Int.natCast_mul, Int.natCast_pow]; rfl
  show (if 128 ≤ f then ((beNat (f :: t) : Nat) : Int) - (256 : Int) ^ (f :: t).length else ((beNat (f :: t) : Nat) : Int)) = _
  unfold toI8
  by_cases h : 128 ≤ f
  · rw [if_pos h, if_neg (by omega), hp, hb, Int.sub_mul]; omega
  · rw [if_neg h, if_pos (by omega), hb]

set_option maxRecDepth 100000 in
theorem signMask (x : Nat) (h : x < 256) : 128 &&& x = if 128 ≤ x then 128 else 0 := by
  revert x
  decide

theorem toI8_lt_of_lt {a b : Nat} (ha : a < 256) (hb : b < 256)
    (hs : (128 ≤ a) ↔ (128 ≤ b)) (h : a < b) : toI8 a < toI8 b := by
  unfold toI8
  by_cases h1 : a < 128 <;> by_cases h2 : b < 128 <;> simp only [h1, h2, if_true, if_false] <;> omega

theorem compareDecimals_eqLen (a b : List Nat) (hl : a.length = b.length) (ha : Bytes a) (hb : Bytes b) :
    compareGreaterByteArrayDecimals a b = decimalGt a b := by
  cases a with
  | nil =>
    cases b with
    | nil => simp [compareGreaterByteArrayDecimals, decimalGt, decimalValue]
    | cons fb tb => simp at hl
  | cons fa ta =>
    cases b with
    | nil => simp at hl
    | cons fb tb =>
      have hl' : ta.length = tb.length := by simpa using hl
      have hfa : fa < 256 := ha fa (by simp)
      have hfb : fb < 256 := hb fb (by simp)
      have hta : Bytes ta := fun x hx => ha x (by simp [hx])
      have htb : Bytes tb := fun x hx => hb x (by simp [hx])
      have hA := beNat_lt ta hta
      have hB := beNat_lt tb htb
      rw [hl'] at hA
      have hP : (0 : Int) < (256 : Int) ^ tb.length := Int.pow_pos (by omega)
      have hAi : ((beNat ta : Nat) : Int) < (256 : Int) ^ tb.length := by
        have : ((beNat ta : Nat) : Int) < ((256 ^ tb.length : Nat) : Int) := Int.ofNat_lt.2 hA
        rwa [Int.natCast_pow] at this
      have hBi : ((beNat tb : Nat) : Int) < (256 : Int) ^ tb.length := by
        have : ((beNat tb : Nat) : Int) < ((256 ^ tb.length : Nat) : Int) := Int.ofNat_lt.2 hB
        rwa [Int.natCast_pow] at this
      have hA0 : (0 : Int) ≤ ((beNat ta : Nat) : Int) := Int.natCast_nonneg _
      have hB0 : (0 : Int) ≤ ((beNat tb : Nat) : Int) := Int.natCast_nonneg _
      have key : ∀ x y : Int, x < y → x * (256 : Int) ^ tb.length + (256 : Int) ^ tb.length ≤ y * (256 : Int) ^ tb.length := by
        intro x y hxy
        have := Int.mul_le_mul_of_nonneg_right (show x + 1 ≤ y by omega) (Int.le_of_lt hP)
        rwa [Int.add_mul, Int.one_mul] at this
      unfold decimalGt
      rw [decimalValue_cons, decimalValue_cons, hl']
      simp only [compareGreaterByteArrayDecimals, DEC_SIGN_MASK, signMask fa hfa, signMask fb hfb, hl', true_and]
      by_cases hne : fa = fb
      · subst hne
        simp only [ne_eq, not_true_eq_false, or_self, if_false, false_and, sliceGt]
        have hiff := lexLt_iff_beNat tb ta hl'.symm htb hta
        by_cases hlt : lexLt tb ta = true
        · have := hiff.1 hlt
          simp only [hlt]
          symm; simp only [decide_eq_true_eq]; omega
        · have hlt' : lexLt tb ta = false := by simpa using hlt
          have : ¬ beNat tb < beNat ta := fun h => hlt (hiff.2 h)
          simp only [hlt']
          symm; simp only [decide_eq_false_iff_not]; omega
      · have hcond : ((if 128 ≤ fa then 128 else 0) ≠ (if 128 ≤ fb then 128 else 0) ∨ fa ≠ fb) := Or.inr hne
        simp only [hcond, if_true]
        have h8 : toI8 fa ≠ toI8 fb := by
          unfold toI8; intro h; split at h <;> split at h <;> omega
        rcases Int.lt_or_gt_of_ne h8 with hlt | hgt
        · have := key _ _ hlt
          have h1 : decide (toI8 fa > toI8 fb) = false := by simp only [decide_eq_false_iff_not]; omega
          rw [h1]; symm; simp only [decide_eq_false_iff_not]; omega
        · have := key _ _ hgt
          have h1 : decide (toI8 fa > toI8 fb) = true := by simp only [decide_eq_true_eq]; omega
          rw [h1]; symm; simp only [decide_eq_true_eq]; omega

theorem beNat_append (p q : List Nat) : beNat (p ++ q) = beNat p * 256 ^ q.length + beNat q := by
  induction p with
  | nil => simp [beNat]
  | cons x xs ih =>
    simp only [List.cons_append, beNat, ih, List.length_append, Nat.pow_add, Nat.add_mul, Nat.mul_assoc, Nat.add_assoc]

theorem beNat_all_zero (p : List Nat) (h : p.any (fun x => x != 0) = false) : beNat p = 0 := by
  induction p with
  | nil => rfl
  | cons x xs ih =>
    simp only [List.any_cons, Bool.or_eq_false_iff, bne_eq_false_iff_eq] at h
    simp [beNat, h.1, ih h.2]

theorem beNat_pos_of_any (p : List Nat) (h : p.any (fun x => x != 0) = true) : 1 ≤ beNat p := by
  induction p with
  | nil => simp at h
  | cons x xs ih =>
    simp only [List.any_cons, Bool.or_eq_true, bne_iff_ne, ne_eq] at h
    simp only [beNat]
    by_cases hx : x = 0
    · have := ih (by rcases h with h | h; exact absurd hx h; exact h); omega
    · have h1 : 1 ≤ 256 ^ xs.length := Nat.pow_pos (by decide)
      have : 1 * 256 ^ xs.length ≤ x * 256 ^ xs.length := Nat.mul_le_mul_right _ (by omega)
      omega

theorem beNat_all_ff (p : List Nat) (h : p.any (fun x => x != 255) = false) : beNat p + 1 = 256 ^ p.length := by
  induction p with
  | nil => rfl
  | cons x xs ih =>
    simp only [List.any_cons, Bool.or_eq_false_iff, bne_eq_false_iff_eq] at h
    have := ih h.2
    simp only [beNat, h.1, List.length_cons, Nat.pow_succ]
    omega

theorem beNat_not_all_ff (p : List Nat) (hp : Bytes p) (h : p.any (fun x => x != 255) = true) :
    beNat p + 2 ≤ 256 ^ p.length := by
  induction p with
  | nil => simp at h
  | cons x xs ih =>
    have hx : x < 256 := hp x (by simp)
    have hxs : Bytes xs := fun y hy => hp y (by simp [hy])
    have hB := beNat_lt xs hxs
    have h1 : 1 ≤ 256 ^ xs.length := Nat.pow_pos (by decide)
    simp only [List.any_cons, Bool.or_eq_true, bne_iff_ne, ne_eq] at h
    simp only [beNat, List.length_cons, Nat.pow_succ]
    by_cases hx255 : x = 255
    · have := ih hxs (by rcases h with h | h; exact absurd hx255 h; exact h)
      subst hx255; omega
    · have : x * 256 ^ xs.length ≤ 254 * 256 ^ xs.length := Nat.mul_le_mul_right _ (by omega)
      omega

/-- the value as unsigned value minus the sign weight -/
theorem decimalValue_eq (f : Nat) (t : List Nat) :
    decimalValue (f :: t) = ((beNat (f :: t) : Nat) : Int) - (if 128 ≤ f then ((256 ^ (t.length + 1) : Nat) : Int) else 0) := by
  show (if 128 ≤ f then ((beNat (f :: t) : Nat) : Int) - (256 : Int) ^ (f :: t).length else ((beNat (f :: t) : Nat) : Int)) = _
  by_cases h : 128 ≤ f
  · rw [if_pos h, if_pos h, Int.natCast_pow]; rfl
  · rw [if_neg h, if_neg h]; exact (Int.sub_zero _).symm

theorem toI8_neg_iff (f : Nat) (hf : f < 256) : toI8 f < 0 ↔ 128 ≤ f := by
  unfold toI8; split <;> omega

/-- arithmetic core, longer operand `Y = lead ++ tail` against shorter `X` (|tail| = |X|), same sign:
value of `Y` relative to `X` -/
theorem longer_shorter (fy fx : Nat) (ty tx : List Nat) (hy : Bytes (fy :: ty)) (hx : Bytes (fx :: tx))
    (hs : 128 ≤ fy ↔ 128 ≤ fx) (hlen : tx.length < ty.length) :
    let k := (ty.length + 1) - (tx.length + 1)
    let lead := (fy :: ty).take k
    let tail := (fy :: ty).drop k
    let ext : Nat := if toI8 fy < 0 then DEC_NEG_EXT else 0
    tail.length = tx.length + 1 ∧
    (lead.any (fun x => x != ext) = true →
      (if 128 ≤ fy then decimalValue (fy :: ty) < decimalValue (fx :: tx)
       else decimalValue (fx :: tx) < decimalValue (fy :: ty))) ∧
    (lead.any (fun x => x != ext) = false →
      decimalValue (fy :: ty) - decimalValue (fx :: tx) = ((beNat tail : Nat) : Int) - ((beNat (fx :: tx) : Nat) : Int)) := by
  intro k lead tail ext
  have hfy : fy < 256 := hy fy (by simp)
  have hk : k = ty.length - tx.length := by omega
  have htl : tail.length = tx.length + 1 := by simp [tail, List.length_drop]; omega
  have hll : lead.length = k := by simp [lead, List.length_take]; omega
  have hsplit : beNat (fy :: ty) = beNat lead * 256 ^ (tx.length + 1) + beNat tail := by
    have := beNat_append lead tail
    rw [List.take_append_drop, htl] at this
    exact this
  have hpow : 256 ^ (ty.length + 1) = 256 ^ k * 256 ^ (tx.length + 1) := by
    rw [← Nat.pow_add]; congr 1; omega
  have hlead : Bytes lead := fun b hb => hy b (List.mem_of_mem_take hb)
  have htail : Bytes tail := fun b hb => hy b (List.mem_of_mem_drop hb)
  have hT := beNat_lt tail htail
  have hX := beNat_lt (fx :: tx) hx
  rw [htl] at hT
  simp only [List.length_cons] at hX
  have hQ : 1 ≤ 256 ^ (tx.length + 1) := Nat.pow_pos (by decide)
  refine ⟨htl, ?_, ?_⟩
  · intro hany
    rw [decimalValue_eq, decimalValue_eq, hsplit, hpow]
    by_cases hneg : 128 ≤ fy
    · have hnx : 128 ≤ fx := hs.1 hneg
      have hext : ext = 255 := by simp [ext, (toI8_neg_iff fy hfy).2 hneg, DEC_NEG_EXT]
      rw [hext] at hany
      have h2 := beNat_not_all_ff lead hlead hany
      rw [hll] at h2
      have h3 : beNat lead * 256 ^ (tx.length + 1) + 2 * 256 ^ (tx.length + 1) ≤ 256 ^ k * 256 ^ (tx.length + 1) := by
        have := Nat.mul_le_mul_right (256 ^ (tx.length + 1)) h2
        rwa [Nat.add_mul] at this
      simp only [hneg, hnx, if_true]
      generalize 256 ^ (tx.length + 1) = Q at *
      generalize beNat lead * Q = LQ at *
      generalize 256 ^ k * Q = KQ at *
      omega
    · have hnx : ¬ 128 ≤ fx := fun h => hneg (hs.2 h)
      have hext : ext = 0 := by
        have : ¬ toI8 fy < 0 := fun h => hneg ((toI8_neg_iff fy hfy).1 h)
        simp [ext, this]
      rw [hext] at hany
      have h2 := beNat_pos_of_any lead hany
      have h3 : 256 ^ (tx.length + 1) ≤ beNat lead * 256 ^ (tx.length + 1) := by
        have := Nat.mul_le_mul_right (256 ^ (tx.length + 1)) h2
        rwa [Nat.one_mul] at this
      simp only [hneg, hnx, if_false]
      generalize 256 ^ (tx.length + 1) = Q at *
      generalize beNat lead * Q = LQ at *
      omega
  · intro hall
    rw [decimalValue_eq, decimalValue_eq, hsplit, hpow]
    by_cases hneg : 128 ≤ fy
    · have hnx : 128 ≤ fx := hs.1 hneg
      have hext : ext = 255 := by simp [ext, (toI8_neg_iff fy hfy).2 hneg, DEC_NEG_EXT]
      rw [hext] at hall
      have h2 := beNat_all_ff lead hall
      rw [hll] at h2
      have h3 : beNat lead * 256 ^ (tx.length + 1) + 256 ^ (tx.length + 1) = 256 ^ k * 256 ^ (tx.length + 1) := by
        rw [← h2, Nat.add_mul, Nat.one_mul]
      simp only [hneg, hnx, if_true]
      generalize 256 ^ (tx.length + 1) = Q at *
      generalize beNat lead * Q = LQ at *
      generalize 256 ^ k * Q = KQ at *
      omega
    · have hnx : ¬ 128 ≤ fx := fun h => hneg (hs.2 h)
      have hext : ext = 0 := by
        have : ¬ toI8 fy < 0 := fun h => hneg ((toI8_neg_iff fy hfy).1 h)
        simp [ext, this]
      rw [hext] at hall
      have h2 := beNat_all_zero lead hall
      simp only [hneg, hnx, if_false, h2, Nat.zero_mul, Nat.zero_add]
      omega

theorem decide_eq_decide_of_iff {p q : Prop} [Decidable p] [Decidable q] (h : p ↔ q) : decide p = decide q := by
  cases hp : decide p <;> cases hq : decide q <;> simp_all

/-- **`compare_greater_byte_array_decimals` is the comparison of the two's-complement values,
for operands of any (non-zero) lengths** -/
theorem compareDecimals_full (fa fb : Nat) (ta tb : List Nat) (ha : Bytes (fa :: ta)) (hb : Bytes (fb :: tb)) :
    compareGreaterByteArrayDecimals (fa :: ta) (fb :: tb) = decimalGt (fa :: ta) (fb :: tb) := by
  have hfa : fa < 256 := ha fa (by simp)
  have hfb : fb < 256 := hb fb (by simp)
  by_cases hl : ta.length = tb.length
  · exact compareDecimals_eqLen (fa :: ta) (fb :: tb) (by simp [hl]) ha hb
  · unfold decimalGt
    simp only [compareGreaterByteArrayDecimals, DEC_SIGN_MASK, signMask fa hfa, signMask fb hfb]
    have hl' : ¬ (ta.length + 1 = tb.length + 1) := by omega
    by_cases hs : (128 ≤ fa ↔ 128 ≤ fb)
    · -- same sign
      have hc : ¬ ((if 128 ≤ fa then 128 else 0) ≠ (if 128 ≤ fb then 128 else 0) ∨ (ta.length + 1 = tb.length + 1 ∧ fa ≠ fb)) := by
        rintro (h | h)
        · apply h; by_cases h1 : 128 ≤ fa
          · simp [h1, hs.1 h1]
          · have : ¬ 128 ≤ fb := fun h2 => h1 (hs.2 h2)
            simp [h1, this]
        · exact hl' h.1
      rw [if_neg hc]
      simp only [hl', ne_eq, not_false_eq_true, if_true]
      by_cases hlong : ta.length + 1 > tb.length + 1
      · -- a longer
        obtain ⟨htl, h1, h2⟩ := longer_shorter fa fb ta tb ha hb hs (by omega)
        simp only [hlong, if_true, decide_true]
        cases hany : ((fa :: ta).take (ta.length + 1 - (tb.length + 1))).any (fun x => x != if toI8 fa < 0 then DEC_NEG_EXT else 0) with
        | true =>
          have := h1 hany
          simp only [if_true]
          by_cases hneg : 128 ≤ fa
          · simp only [hneg, if_true] at this
            simp only [(toI8_neg_iff fa hfa).2 hneg, decide_true, if_true, Bool.not_true]
            symm; simp only [decide_eq_false_iff_not]; omega
          · simp only [hneg, if_false] at this
            have hn : ¬ toI8 fa < 0 := fun h => hneg ((toI8_neg_iff fa hfa).1 h)
            simp only [hn, decide_false, Bool.false_eq_true, if_false]
            symm; simp only [decide_eq_true_eq]; omega
        | false =>
          have hd := h2 hany
          simp only [Bool.false_eq_true, if_false, sliceGt]
          have hiff := lexLt_iff_beNat (fb :: tb) ((fa :: ta).drop (ta.length + 1 - (tb.length + 1)))
            (by simp only [List.length_cons]; omega) hb (fun x hx => ha x (List.mem_of_mem_drop hx))
          rw [Bool.eq_iff_iff, hiff]
          simp only [decide_eq_true_eq]
          omega
      · -- b longer
        have hsh : tb.length > ta.length := by omega
        obtain ⟨htl, h1, h2⟩ := longer_shorter fb fa tb ta hb ha hs.symm (by omega)
        have hnl : ¬ (ta.length + 1 > tb.length + 1) := hlong
        have hexteq : (if toI8 fb < 0 then DEC_NEG_EXT else 0) = (if toI8 fa < 0 then DEC_NEG_EXT else 0) := by
          by_cases hneg : 128 ≤ fa
          · simp [(toI8_neg_iff fa hfa).2 hneg, (toI8_neg_iff fb hfb).2 (hs.1 hneg)]
          · have hn : ¬ toI8 fa < 0 := fun h => hneg ((toI8_neg_iff fa hfa).1 h)
            have hn' : ¬ toI8 fb < 0 := fun h => hneg (hs.2 ((toI8_neg_iff fb hfb).1 h))
            simp [hn, hn']
        rw [hexteq] at h1 h2
        simp only [hnl, if_false, decide_false]
        cases hany : ((fb :: tb).take (tb.length + 1 - (ta.length + 1))).any (fun x => x != if toI8 fa < 0 then DEC_NEG_EXT else 0) with
        | true =>
          have := h1 hany
          simp only [if_true]
          by_cases hneg : 128 ≤ fa
          · simp only [hs.1 hneg, if_true] at this
            simp only [(toI8_neg_iff fa hfa).2 hneg, decide_true, if_true, Bool.not_false]
            symm; simp only [decide_eq_true_eq]; omega
          · have hnb : ¬ 128 ≤ fb := fun h => hneg (hs.2 h)
            simp only [hnb, if_false] at this
            have hn : ¬ toI8 fa < 0 := fun h => hneg ((toI8_neg_iff fa hfa).1 h)
            simp only [hn, decide_false, Bool.false_eq_true, if_false]
            symm; simp only [decide_eq_false_iff_not]; omega
        | false =>
          have hd := h2 hany
          simp only [Bool.false_eq_true, if_false, sliceGt]
          have hiff := lexLt_iff_beNat ((fb :: tb).drop (tb.length + 1 - (ta.length + 1))) (fa :: ta)
            (by simp only [List.length_cons]; omega) (fun x hx => hb x (List.mem_of_mem_drop hx)) ha
          rw [Bool.eq_iff_iff, hiff]
          simp only [decide_eq_true_eq]
          omega
    · -- different signs
      have hc : ((if 128 ≤ fa then 128 else 0) ≠ (if 128 ≤ fb then 128 else 0) ∨ (ta.length + 1 = tb.length + 1 ∧ fa ≠ fb)) := by
        left
        by_cases h1 : 128 ≤ fa
        · have : ¬ 128 ≤ fb := fun h2 => hs ⟨fun _ => h2, fun _ => h1⟩
          simp [h1, this]
        · have : 128 ≤ fb := by
            apply Classical.byContradiction; intro h2; exact hs ⟨fun h => absurd h h1, fun h => absurd h h2⟩
          simp [h1, this]
      rw [if_pos hc]
      have hA := beNat_lt (fa :: ta) ha
      have hB := beNat_lt (fb :: tb) hb
      rw [decimalValue_eq, decimalValue_eq]
      simp only [List.length_cons] at hA hB
      apply decide_eq_decide_of_iff
      unfold toI8
      by_cases h1 : 128 ≤ fa
      · have h2 : ¬ 128 ≤ fb := fun h2 => hs ⟨fun _ => h2, fun _ => h1⟩
        simp only [h1, h2, if_true, if_false]
        split <;> split <;> omega
      · have h2 : 128 ≤ fb := by
          apply Classical.byContradiction; intro h2; exact hs ⟨fun h => absurd h h1, fun h => absurd h h2⟩
        simp only [h1, h2, if_true, if_false]
        split <;> split <;> omega

/-! ## lexicographic order, `increment` -/

theorem lexLt_irrefl (a : List Nat) : lexLt a a = false := by
  induction a with
  | nil => rfl
  | cons x xs ih => simp [lexLt, ih]

theorem lexLt_asymm (a : List Nat) : ∀ b, lexLt a b = true → lexLt b a = false := by
  induction a with
  | nil => intro b _; cases b <;> rfl
  | cons x xs ih =>
    intro b h
    cases b with
    | nil => simp [lexLt] at h
    | cons y ys =>
      simp only [lexLt, Bool.or_eq_true, Bool.and_eq_true, decide_eq_true_eq] at h
      simp only [lexLt, Bool.or_eq_false_iff, Bool.and_eq_false_imp, decide_eq_false_iff_not, decide_eq_true_eq]
      rcases h with h | ⟨h1, h2⟩
      · exact ⟨by omega, fun h' => by omega⟩
      · exact ⟨by omega, fun _ => ih ys h2⟩

theorem lexLt_trans (a : List Nat) : ∀ b c, lexLt a b = true → lexLt b c = true → lexLt a c = true := by
  induction a with
  | nil =>
    intro b c h1 h2
    cases b with
    | nil => simp [lexLt] at h1
    | cons y ys => cases c with
      | nil => simp [lexLt] at h2
      | cons z zs => rfl
  | cons x xs ih =>
    intro b c h1 h2
    cases b with
    | nil => simp [lexLt] at h1
    | cons y ys =>
      cases c with
      | nil => simp [lexLt] at h2
      | cons z zs =>
        simp only [lexLt, Bool.or_eq_true, Bool.and_eq_true, decide_eq_true_eq] at h1 h2 ⊢
        rcases h1 with h1 | ⟨h1, h1'⟩ <;> rcases h2 with h2 | ⟨h2, h2'⟩
        · exact Or.inl (by omega)
        · exact Or.inl (by omega)
        · exact Or.inl (by omega)
        · exact Or.inr ⟨by omega, ih ys zs h1' h2'⟩

/-- a prefix is never greater: `lexLe p (p ++ s)` -/
theorem lexLt_append_self (p s : List Nat) : lexLt (p ++ s) p = false := by
  induction p with
  | nil => cases s <;> rfl
  | cons x xs ih => simp [lexLt, ih]

theorem lexLe_take (data : List Nat) (l : Nat) : lexLe (data.take l) data = true := by
  have := lexLt_append_self (data.take l) (data.drop l)
  rw [List.take_append_drop] at this
  simp [lexLe, this]

theorem lexLt_append_left (p a b : List Nat) : lexLt (p ++ a) (p ++ b) = lexLt a b := by
  induction p with
  | nil => rfl
  | cons x xs ih => simp [lexLt, ih]

/-! ### `increment` -/

/-- left-to-right characterisation of `increment` -/
def incL : List Nat → Option (List Nat)
  | [] => none
  | b :: bs =>
    match incL bs with
    | some r => some (b :: r)
    | none => if b + 1 < 256 then some ((b + 1) :: bs.map (fun _ => 0)) else none

theorem incrementRev_snoc (xs : List Nat) (b : Nat) :
    incrementRev (xs ++ [b]) =
      match incrementRev xs with
      | some r => some (r ++ [b])
      | none => if b + 1 < 256 then some (xs.map (fun _ => 0) ++ [b + 1]) else none := by
  induction xs with
  | nil => simp [incrementRev]
  | cons x xs ih =>
    simp only [List.cons_append, incrementRev]
    by_cases hx : x + 1 < 256
    · simp [hx]
    · simp only [hx, if_false, ih]
      cases incrementRev xs with
      | some r => simp
      | none => by_cases hb : b + 1 < 256 <;> simp [hb]

theorem increment_eq_incL (data : List Nat) : increment data = incL data := by
  induction data with
  | nil => simp [increment, incrementRev, incL]
  | cons b bs ih =>
    unfold increment at ih ⊢
    rw [List.reverse_cons, incrementRev_snoc]
    simp only [incL]
    rw [← ih]
    cases incrementRev bs.reverse with
    | some r => simp
    | none =>
      by_cases hb : b + 1 < 256
      · simp [hb, List.map_reverse]
      · simp [hb]

theorem incL_gt (p : List Nat) : ∀ r, incL p = some r →
    r.length = p.length ∧ ∀ s, lexLt (p ++ s) r = true := by
  induction p with
  | nil => intro r h; simp [incL] at h
  | cons b bs ih =>
    intro r h
    simp only [incL] at h
    cases hr : incL bs with
    | some r' =>
      rw [hr] at h
      simp only [Option.some.injEq] at h
      subst h
      obtain ⟨h1, h2⟩ := ih r' hr
      exact ⟨by simp [h1], fun s => by simp [lexLt, h2 s]⟩
    | none =>
      rw [hr] at h
      by_cases hb : b + 1 < 256
      · simp only [hb, if_true, Option.some.injEq] at h
        subst h
        exact ⟨by simp, fun s => by simp [lexLt]⟩
      · simp [hb] at h

theorem incL_none (p : List Nat) : incL p = none ↔ ∀ b ∈ p, 255 ≤ b := by
  induction p with
  | nil => simp [incL]
  | cons b bs ih =>
    simp only [incL]
    cases hr : incL bs with
    | some r' =>
      simp only [reduceCtorEq, false_iff]
      intro h
      have : incL bs = none := ih.2 (fun x hx => h x (by simp [hx]))
      rw [hr] at this; cases this
    | none =>
      have hall := ih.1 hr
      by_cases hb : b + 1 < 256
      · simp only [hb, if_true, reduceCtorEq, false_iff]
        intro h; have := h b (by simp); omega
      · simp only [hb, if_false, true_iff]
        intro x hx
        simp at hx
        rcases hx with rfl | hx
        · omega
        · exact hall x hx

theorem incL_bytes (p : List Nat) (hp : Bytes p) : ∀ r, incL p = some r → Bytes r := by
  induction p with
  | nil => intro r h; simp [incL] at h
  | cons b bs ih =>
    intro r h
    simp only [incL] at h
    have hb' : b < 256 := hp b (by simp)
    have hbs : Bytes bs := fun x hx => hp x (by simp [hx])
    cases hr : incL bs with
    | some r' =>
      rw [hr] at h
      simp only [Option.some.injEq] at h
      subst h
      intro x hx
      simp at hx
      rcases hx with rfl | hx
      · exact hb'
      · exact ih hbs r' hr x hx
    | none =>
      rw [hr] at h
      by_cases hb : b + 1 < 256
      · simp only [hb, if_true, Option.some.injEq] at h
        subst h
        intro x hx
        simp at hx
        rcases hx with rfl | ⟨_, _, rfl⟩
        · exact hb
        · omega
      · simp [hb] at h

/-- when every byte of the prefix is `0xFF` no byte string of at most that length bounds a
longer value from above -/
theorem no_short_upper_bound (p : List Nat) (hp : ∀ b ∈ p, 255 ≤ b) :
    ∀ (w s : List Nat), Bytes w → w.length ≤ p.length → s ≠ [] → lexLt w (p ++ s) = true := by
  induction p with
  | nil =>
    intro w s _ hl hs
    have : w = [] := by cases w <;> simp_all
    subst this
    cases s with
    | nil => exact absurd rfl hs
    | cons y ys => rfl
  | cons b bs ih =>
    intro w s hw hl hs
    cases w with
    | nil => rfl
    | cons x xs =>
      have hx : x < 256 := hw x (by simp)
      have hb : 255 ≤ b := hp b (by simp)
      simp only [List.cons_append, lexLt, Bool.or_eq_true, Bool.and_eq_true, decide_eq_true_eq]
      by_cases hxb : x < b
      · exact Or.inl hxb
      · refine Or.inr ⟨by omega, ?_⟩
        exact ih (fun y hy => hp y (by simp [hy])) xs s (fun y hy => hw y (by simp [hy]))
          (by simpa using hl) hs

/-! ## bloom filter -/

theorem maskWord_eq (x i : Nat) : maskWord x i = 2 ^ maskBit x i := by
  simp [maskWord, Nat.one_shiftLeft]

theorem maskBit_lt (x i : Nat) : maskBit x i < 32 := by
  unfold maskBit u32
  simp only [MASK_SHIFT, Nat.shiftRight_eq_div_pow]
  have : u32 x * salt i % 2 ^ 32 < 2 ^ 32 := Nat.mod_lt _ (by decide)
  omega

theorem blockMask_getD (x i : Nat) (hi : i < 8) : (blockMask x).getD i 0 = maskWord x i := by
  simp [blockMask, MASK_WORDS, List.getD_eq_getElem?_getD, hi]

/-- every bit of `a` is a bit of `b`, in each of the eight words -/
def BlockLe (a b : List Nat) : Prop :=
  ∀ w, w < 8 → ∀ k, (a.getD w 0).testBit k = true → (b.getD w 0).testBit k = true

theorem BlockLe.refl (a : List Nat) : BlockLe a a := fun _ _ _ h => h
theorem BlockLe.trans {a b c : List Nat} (h1 : BlockLe a b) (h2 : BlockLe b c) : BlockLe a c :=
  fun w hw k h => h2 w hw k (h1 w hw k h)

/-- the block has all eight bits of `mask(h)` -/
def HasBits (b : List Nat) (h : Nat) : Prop := ∀ i, i < 8 → (b.getD i 0).testBit (maskBit h i) = true

theorem HasBits.mono {a b : List Nat} {h : Nat} (hab : BlockLe a b) (ha : HasBits a h) : HasBits b h :=
  fun i hi => hab i hi _ (ha i hi)

theorem and_two_pow_ne_zero (w k : Nat) : (w &&& 2 ^ k != 0) = w.testBit k := by
  cases hb : w.testBit k with
  | true =>
    have : (w &&& 2 ^ k).testBit k = true := by simp [Nat.testBit_and, hb]
    have hne : w &&& 2 ^ k ≠ 0 := by
      intro h0; rw [h0] at this; simp at this
    simp [hne]
  | false =>
    have : w &&& 2 ^ k = 0 := by
      apply Nat.eq_of_testBit_eq
      intro i
      simp only [Nat.testBit_and, Nat.testBit_two_pow, Nat.zero_testBit]
      by_cases hki : k = i
      · subst hki; simp [hb]
      · simp [hki]
    simp [this]

theorem blockCheck_iff (b : List Nat) (h : Nat) : blockCheck b h = true ↔ HasBits b h := by
  unfold blockCheck HasBits
  simp only [BLOCK_WORDS, List.all_eq_true, List.mem_range]
  constructor
  · intro hh i hi
    have := hh i hi
    rwa [blockMask_getD _ _ hi, maskWord_eq, and_two_pow_ne_zero] at this
  · intro hh i hi
    rw [blockMask_getD _ _ hi, maskWord_eq, and_two_pow_ne_zero]
    exact hh i hi

theorem getD_map_range (f : Nat → Nat) (n i : Nat) (hi : i < n) :
    ((List.range n).map f).getD i 0 = f i := by
  simp [List.getD_eq_getElem?_getD, hi]

theorem blockInsert_le (b : List Nat) (h : Nat) : BlockLe b (blockInsert b h) := by
  intro w hw k hk
  unfold blockInsert
  rw [getD_map_range _ _ _ (by simpa [BLOCK_WORDS] using hw), Nat.testBit_or, hk]
  rfl

theorem blockInsert_has (b : List Nat) (h : Nat) : HasBits (blockInsert b h) h := by
  intro i hi
  unfold blockInsert
  rw [getD_map_range _ _ _ (by simpa [BLOCK_WORDS] using hi), Nat.testBit_or, blockMask_getD _ _ hi,
    maskWord_eq, Nat.testBit_two_pow_self]
  simp

theorem blockOr_le_left (a b : List Nat) : BlockLe a (blockOr a b) := by
  intro w hw k hk
  unfold blockOr
  rw [getD_map_range _ _ _ (by simpa [BLOCK_WORDS] using hw), Nat.testBit_or, hk]
  rfl

theorem blockOr_le_right (a b : List Nat) : BlockLe b (blockOr a b) := by
  intro w hw k hk
  unfold blockOr
  rw [getD_map_range _ _ _ (by simpa [BLOCK_WORDS] using hw), Nat.testBit_or, hk]
  simp

theorem foldl_blockOr_le (xs : List (List Nat)) : ∀ (init : List Nat),
    BlockLe init (xs.foldl blockOr init) ∧ ∀ x ∈ xs, BlockLe x (xs.foldl blockOr init) := by
  induction xs with
  | nil => intro init; exact ⟨BlockLe.refl _, by simp⟩
  | cons y ys ih =>
    intro init
    simp only [List.foldl_cons]
    obtain ⟨h1, h2⟩ := ih (blockOr init y)
    refine ⟨(blockOr_le_left init y).trans h1, ?_⟩
    intro x hx
    simp at hx
    rcases hx with rfl | hx
    · exact (blockOr_le_right init x).trans h1
    · exact h2 x hx

/-! ### index arithmetic -/

theorem hashToBlockIndex_lt (n hash : Nat) (hn : 0 < n) : hashToBlockIndex n hash < n := by
  unfold hashToBlockIndex
  simp only [INDEX_HI_SHIFT, INDEX_LO_SHIFT, Nat.shiftRight_eq_div_pow]
  have h1 : hash % 2 ^ 64 / 2 ^ 32 < 2 ^ 32 := by
    have : hash % 2 ^ 64 < 2 ^ 64 := Nat.mod_lt _ (by decide)
    omega
  rw [Nat.div_lt_iff_lt_mul (by decide)]
  have := Nat.mul_lt_mul_of_lt_of_le' h1 (Nat.le_refl n) hn
  rwa [Nat.mul_comm (2 ^ 32) n] at this

/-- the floor-division lemma that makes folding sound:
`⌊hi·(n/g)/2^32⌋ = ⌊⌊hi·n/2^32⌋/g⌋` when `g ∣ n` -/
theorem hashToBlockIndex_fold (n g hash : Nat) (hg : 0 < g) (hd : g ∣ n) :
    hashToBlockIndex (n / g) hash = hashToBlockIndex n hash / g := by
  unfold hashToBlockIndex
  simp only [INDEX_HI_SHIFT, INDEX_LO_SHIFT, Nat.shiftRight_eq_div_pow]
  generalize hash % 2 ^ 64 / 2 ^ 32 = hi
  obtain ⟨m, rfl⟩ := hd
  rw [Nat.mul_div_cancel_left m hg, Nat.div_div_eq_div_mul]
  rw [show hi * (g * m) = hi * m * g by rw [Nat.mul_comm g m, Nat.mul_assoc]]
  rw [Nat.mul_div_mul_right _ _ hg]

/-! ### the filter -/

/-- hash `h` tests positive: its block exists and has the eight mask bits -/
def Holds (blocks : List (List Nat)) (h : Nat) : Prop :=
  ∃ b, blocks[hashToBlockIndex blocks.length h]? = some b ∧ HasBits b (u32 h)

theorem sbbfCheck_iff (blocks : List (List Nat)) (h : Nat) : sbbfCheck blocks h = true ↔ Holds blocks h := by
  unfold sbbfCheck Holds
  cases hb : blocks[hashToBlockIndex blocks.length h]? with
  | none => simp
  | some b => simp [blockCheck_iff]

def BlocksLe (bs bs' : List (List Nat)) : Prop :=
  bs.length = bs'.length ∧ ∀ (i : Nat) (b : List Nat), bs[i]? = some b → ∃ b', bs'[i]? = some b' ∧ BlockLe b b'

theorem BlocksLe.refl (bs : List (List Nat)) : BlocksLe bs bs := ⟨rfl, fun _ b h => ⟨b, h, BlockLe.refl b⟩⟩

theorem BlocksLe.trans {a b c : List (List Nat)} (h1 : BlocksLe a b) (h2 : BlocksLe b c) : BlocksLe a c := by
  refine ⟨h1.1.trans h2.1, fun i x hx => ?_⟩
  obtain ⟨y, hy, hxy⟩ := h1.2 i x hx
  obtain ⟨z, hz, hyz⟩ := h2.2 i y hy
  exact ⟨z, hz, hxy.trans hyz⟩

theorem Holds.mono {bs bs' : List (List Nat)} {h : Nat} (hle : BlocksLe bs bs') (hh : Holds bs h) : Holds bs' h := by
  obtain ⟨b, hb, hbits⟩ := hh
  obtain ⟨b', hb', hbb⟩ := hle.2 _ b hb
  exact ⟨b', by rw [← hle.1]; exact hb', hbits.mono hbb⟩

theorem sbbfInsert_le (bs : List (List Nat)) (h : Nat) : BlocksLe bs (sbbfInsert bs h) := by
  unfold sbbfInsert
  refine ⟨by simp, fun i b hb => ?_⟩
  rw [List.getElem?_modify]
  by_cases hi : hashToBlockIndex bs.length h = i
  · rw [hb]
    exact ⟨blockInsert b (u32 h), by simp [hi], blockInsert_le b _⟩
  · rw [hb]
    exact ⟨b, by simp [hi], BlockLe.refl b⟩

theorem sbbfInsert_holds (bs : List (List Nat)) (h : Nat) (hn : 0 < bs.length) : Holds (sbbfInsert bs h) h := by
  have hlt := hashToBlockIndex_lt bs.length h hn
  unfold Holds sbbfInsert
  simp only [List.length_modify, List.getElem?_modify, if_true]
  rw [List.getElem?_eq_getElem hlt]
  exact ⟨_, rfl, blockInsert_has _ _⟩

theorem foldl_sbbfInsert (hs : List Nat) : ∀ (bs : List (List Nat)), 0 < bs.length →
    BlocksLe bs (hs.foldl sbbfInsert bs) ∧ ∀ h ∈ hs, Holds (hs.foldl sbbfInsert bs) h := by
  induction hs with
  | nil => intro bs _; exact ⟨BlocksLe.refl bs, by simp⟩
  | cons x xs ih =>
    intro bs hn
    simp only [List.foldl_cons]
    have hle := sbbfInsert_le bs x
    obtain ⟨h1, h2⟩ := ih (sbbfInsert bs x) (by rw [← hle.1]; exact hn)
    refine ⟨hle.trans h1, ?_⟩
    intro h hh
    simp at hh
    rcases hh with rfl | hh
    · exact (sbbfInsert_holds bs h hn).mono h1
    · exact h2 h hh

theorem foldN_length (blocks : List (List Nat)) (k : Nat) : (foldN blocks k).length = blocks.length / 2 ^ k := by
  simp [foldN]

theorem mergedBlock_le (blocks : List (List Nat)) (start g j : Nat) (hj : j < g) :
    BlockLe (blocks.getD (start + j) zeroBlock) (mergedBlock blocks start g) := by
  unfold mergedBlock
  obtain ⟨h1, h2⟩ := foldl_blockOr_le ((List.range (g - 1)).map (fun j => blocks.getD (start + j + 1) zeroBlock))
    (blocks.getD start zeroBlock)
  cases j with
  | zero => simpa using h1
  | succ j' =>
    apply h2
    simp only [List.mem_map, List.mem_range]
    exact ⟨j', by omega, by rw [Nat.add_assoc]⟩

theorem foldN_holds (blocks : List (List Nat)) (k h : Nat) (hd : 2 ^ k ∣ blocks.length)
    (hh : Holds blocks h) : Holds (foldN blocks k) h := by
  obtain ⟨b, hb, hbits⟩ := hh
  have hg : 0 < 2 ^ k := Nat.two_pow_pos k
  have hidx : hashToBlockIndex blocks.length h < blocks.length := by
    have := List.getElem?_eq_some_iff.1 hb
    exact this.1
  unfold Holds
  rw [foldN_length, hashToBlockIndex_fold _ _ _ hg hd]
  have hlt : hashToBlockIndex blocks.length h / 2 ^ k < blocks.length / 2 ^ k :=
    Nat.div_lt_div_of_lt_of_dvd hd hidx
  refine ⟨mergedBlock blocks (hashToBlockIndex blocks.length h / 2 ^ k * 2 ^ k) (2 ^ k), ?_, ?_⟩
  · simp [foldN, hlt]
  · have hle := mergedBlock_le blocks (hashToBlockIndex blocks.length h / 2 ^ k * 2 ^ k) (2 ^ k)
      (hashToBlockIndex blocks.length h % 2 ^ k) (Nat.mod_lt _ hg)
    rw [Nat.div_add_mod'] at hle
    have hget : blocks.getD (hashToBlockIndex blocks.length h) zeroBlock = b := by
      simp [List.getD_eq_getElem?_getD, hb]
    rw [hget] at hle
    exact hbits.mono hle

/-! ## UTF-8 -/

theorem utf8Encode_append (a b : List Nat) : utf8Encode (a ++ b) = utf8Encode a ++ utf8Encode b := by
  induction a with
  | nil => rfl
  | cons c cs ih => simp [utf8Encode, ih, List.append_assoc]

theorem encodeChar_length (c : Nat) : (encodeChar c).length = lenUtf8 c := by
  unfold encodeChar lenUtf8
  split
  · rfl
  · split
    · rfl
    · split <;> rfl

theorem lenUtf8_pos (c : Nat) : 0 < lenUtf8 c := by
  unfold lenUtf8
  split
  · omega
  · split
    · omega
    · split <;> omega

/-- shape of an encoded char: a non-continuation lead byte followed by continuation bytes -/
theorem encodeChar_shape (c : Nat) : ∃ b0 rest, encodeChar c = b0 :: rest ∧ isCont b0 = false ∧
    ∀ b ∈ rest, isCont b = true := by
  unfold encodeChar
  by_cases h1 : c < 0x80
  · refine ⟨c, [], by simp [h1], ?_, by simp⟩
    simp [isCont]; omega
  · by_cases h2 : c < 0x800
    · refine ⟨0xC0 + c / 64, [0x80 + c % 64], by simp [h1, h2], ?_, ?_⟩
      · simp [isCont]
      · intro b hb; simp at hb; subst hb; simp [isCont]; omega
    · by_cases h3 : c < 0x10000
      · refine ⟨0xE0 + c / 4096, [0x80 + c / 64 % 64, 0x80 + c % 64], by simp [h1, h2, h3], ?_, ?_⟩
        · simp [isCont]; omega
        · intro b hb; simp at hb; rcases hb with rfl | rfl <;> (simp [isCont]; omega)
      · refine ⟨0xF0 + c / 262144, [0x80 + c / 4096 % 64, 0x80 + c / 64 % 64, 0x80 + c % 64], by simp [h1, h2, h3], ?_, ?_⟩
        · simp [isCont]; omega
        · intro b hb; simp at hb; rcases hb with rfl | rfl | rfl <;> (simp [isCont]; omega)

theorem isCharBoundary_zero (data : List Nat) : isCharBoundary data 0 = true := by simp [isCharBoundary]

/-- boundaries of `p ++ r` at or after `|p|` are the boundaries of `r` (when `r` starts a char or is empty) -/
theorem isCharBoundary_append (p r : List Nat) (x : Nat) (hx : p.length < x) :
    isCharBoundary (p ++ r) x = isCharBoundary r (x - p.length) := by
  unfold isCharBoundary
  have h1 : x ≠ 0 := by omega
  have h2 : x - p.length ≠ 0 := by omega
  simp only [h1, h2, if_false]
  rw [List.getElem?_append_right (by omega)]
  cases r[x - p.length]? with
  | some b => rfl
  | none => simp only [List.length_append]; congr 1; apply propext; omega

/-- **prefix-code lemma**: a char boundary of an encoded string splits it into the
encodings of a prefix and a suffix of the char sequence -/
theorem boundary_split (cs : List Nat) : ∀ (x : Nat), x ≤ (utf8Encode cs).length →
    isCharBoundary (utf8Encode cs) x = true →
    ∃ k, (utf8Encode cs).take x = utf8Encode (cs.take k) ∧ (utf8Encode cs).drop x = utf8Encode (cs.drop k) := by
  induction cs with
  | nil => intro x hx _; exact ⟨0, by simp [utf8Encode], by simp [utf8Encode]⟩
  | cons c cs ih =>
    intro x hx hb
    obtain ⟨b0, rest, henc, hlead, hcont⟩ := encodeChar_shape c
    have hlen : (encodeChar c).length = rest.length + 1 := by rw [henc]; simp
    by_cases hx0 : x = 0
    · subst hx0; exact ⟨0, by simp [utf8Encode], by simp⟩
    · by_cases hlt : x < (encodeChar c).length
      · -- strictly inside the first char: a continuation byte, not a boundary
        exfalso
        obtain ⟨x', rfl⟩ : ∃ x', x = x' + 1 := ⟨x - 1, by omega⟩
        have hx' : x' < rest.length := by omega
        have hget : (utf8Encode (c :: cs))[x' + 1]? = some rest[x'] := by
          simp only [utf8Encode]
          rw [List.getElem?_append_left hlt]
          simp only [henc, List.getElem?_cons_succ]
          exact List.getElem?_eq_getElem hx'
        unfold isCharBoundary at hb
        simp only [hx0, if_false, hget, Bool.not_eq_true'] at hb
        have := hcont rest[x'] (List.getElem_mem hx')
        rw [this] at hb; cases hb
      · have hge : (encodeChar c).length ≤ x := by omega
        simp only [utf8Encode, List.length_append] at hx
        have hb' : isCharBoundary (utf8Encode cs) (x - (encodeChar c).length) = true := by
          by_cases heq : x = (encodeChar c).length
          · rw [heq]; simp [isCharBoundary]
          · rw [← isCharBoundary_append _ _ _ (by omega)]; exact hb
        obtain ⟨k, hk1, hk2⟩ := ih (x - (encodeChar c).length) (by omega) hb'
        refine ⟨k + 1, ?_, ?_⟩
        · simp only [utf8Encode, List.take_succ_cons]
          rw [List.take_append, List.take_of_length_le hge, hk1]
        · simp only [utf8Encode, List.drop_succ_cons]
          rw [List.drop_append, List.drop_of_length_le hge, hk2]; rfl

theorem isCont_iff (b : Nat) : isCont b = true ↔ 0x80 ≤ b ∧ b < 0xC0 := by
  simp [isCont]

/-- decoding one encoded scalar gives it back -/
theorem decodeChars_encode_cons (c : Nat) (hc : isScalar c = true) (rest : List Nat) :
    decodeChars (encodeChar c ++ rest) = (decodeChars rest).map (fun cs => c :: cs) := by
  have hs : c < 0xD800 ∨ (0xE000 ≤ c ∧ c < 0x110000) := by
    simpa [isScalar] using hc
  unfold encodeChar
  by_cases h1 : c < 0x80
  · simp only [h1, if_true, List.cons_append, List.nil_append]
    rw [decodeChars.eq_def]; simp [h1]
  · by_cases h2 : c < 0x800
    · simp only [h1, h2, if_true, if_false, List.cons_append, List.nil_append]
      rw [decodeChars.eq_def]
      have a1 : ¬ (0xC0 + c / 64 < 0x80) := by omega
      have a2 : 0xC0 + c / 64 < 0xE0 := by omega
      have a3 : (0xC0 + c / 64 - 0xC0) * 64 + (0x80 + c % 64 - 0x80) = c := by omega
      have a4 : isCont (0x80 + c % 64) = true := by rw [isCont_iff]; omega
      have a5 : lenUtf8 c = 2 := by simp [lenUtf8, h1, h2]
      simp only [a1, a2, a3, a4, a5, if_true, if_false, and_self, Nat.le_add_right]
    · by_cases h3 : c < 0x10000
      · simp only [h1, h2, h3, if_true, if_false, List.cons_append, List.nil_append]
        rw [decodeChars.eq_def]
        have a1 : ¬ (0xE0 + c / 4096 < 0x80) := by omega
        have a2 : ¬ (0xE0 + c / 4096 < 0xE0) := by omega
        have a2' : 0xE0 + c / 4096 < 0xF0 := by omega
        have a3 : (0xE0 + c / 4096 - 0xE0) * 4096 + (0x80 + c / 64 % 64 - 0x80) * 64 + (0x80 + c % 64 - 0x80) = c := by omega
        have a4 : isCont (0x80 + c / 64 % 64) = true := by rw [isCont_iff]; omega
        have a4' : isCont (0x80 + c % 64) = true := by rw [isCont_iff]; omega
        have a5 : lenUtf8 c = 3 := by simp [lenUtf8, h1, h2, h3]
        simp only [a1, a2, a2', a3, a4, a4', a5, hc, if_true, if_false, and_self]
      · simp only [h1, h2, h3, if_false, List.cons_append, List.nil_append]
        rw [decodeChars.eq_def]
        have a1 : ¬ (0xF0 + c / 262144 < 0x80) := by omega
        have a2 : ¬ (0xF0 + c / 262144 < 0xE0) := by omega
        have a2' : ¬ (0xF0 + c / 262144 < 0xF0) := by omega
        have a2'' : 0xF0 + c / 262144 < 0xF8 := by omega
        have a3 : (0xF0 + c / 262144 - 0xF0) * 262144 + (0x80 + c / 4096 % 64 - 0x80) * 4096 + (0x80 + c / 64 % 64 - 0x80) * 64 + (0x80 + c % 64 - 0x80) = c := by omega
        have a4 : isCont (0x80 + c / 4096 % 64) = true := by rw [isCont_iff]; omega
        have a4' : isCont (0x80 + c / 64 % 64) = true := by rw [isCont_iff]; omega
        have a4'' : isCont (0x80 + c % 64) = true := by rw [isCont_iff]; omega
        have a5 : lenUtf8 c = 4 := by simp [lenUtf8, h1, h2, h3]
        simp only [a1, a2, a2', a2'', a3, a4, a4', a4'', a5, hc, if_true, if_false, and_self]

theorem decodeChars_encode (cs : List Nat) (hcs : ∀ c ∈ cs, isScalar c = true) :
    decodeChars (utf8Encode cs) = some cs := by
  induction cs with
  | nil => simp [utf8Encode, decodeChars]
  | cons c cs ih =>
    simp only [utf8Encode]
    rw [decodeChars_encode_cons c (hcs c (by simp)), ih (fun x hx => hcs x (by simp [hx]))]
    rfl

theorem lenUtf8_eq_2 (c : Nat) : lenUtf8 c = 2 ↔ 0x80 ≤ c ∧ c < 0x800 := by
  unfold lenUtf8; (repeat' split) <;> omega
theorem lenUtf8_eq_3 (c : Nat) : lenUtf8 c = 3 ↔ 0x800 ≤ c ∧ c < 0x10000 := by
  unfold lenUtf8; (repeat' split) <;> omega
theorem lenUtf8_eq_4 (c : Nat) : lenUtf8 c = 4 ↔ 0x10000 ≤ c := by
  unfold lenUtf8; (repeat' split) <;> omega
theorem lenUtf8_eq_1 (c : Nat) : lenUtf8 c = 1 ↔ c < 0x80 := by
  unfold lenUtf8; (repeat' split) <;> omega

theorem map_cons_eq_some {o : Option (List Nat)} {c : Nat} {cs : List Nat}
    (h : o.map (fun t => c :: t) = some cs) : ∃ cs', o = some cs' ∧ cs = c :: cs' := by
  cases o with
  | none => simp at h
  | some t => simp at h; exact ⟨t, rfl, h.symm⟩

/-- the strict decoder only accepts encodings of scalar sequences (`str::from_utf8` is sound) -/
theorem decodeChars_sound (n : Nat) : ∀ (bs cs : List Nat), bs.length ≤ n → decodeChars bs = some cs →
    bs = utf8Encode cs ∧ ∀ c ∈ cs, isScalar c = true := by
  induction n with
  | zero =>
    intro bs cs hl h
    have : bs = [] := by cases bs <;> simp_all
    subst this
    simp [decodeChars] at h; subst h; simp [utf8Encode]
  | succ n ih =>
    intro bs cs hl h
    cases bs with
    | nil => simp [decodeChars] at h; subst h; simp [utf8Encode]
    | cons b0 rest =>
      rw [decodeChars.eq_def] at h
      simp only at h
      by_cases h0 : b0 < 0x80
      · simp only [h0, if_true] at h
        obtain ⟨cs', hd, rfl⟩ := map_cons_eq_some h
        obtain ⟨e1, e2⟩ := ih rest cs' (by simp at hl; omega) hd
        refine ⟨?_, ?_⟩
        · simp only [utf8Encode, encodeChar, h0, if_true, ← e1]; rfl
        · intro c hc; simp at hc; rcases hc with rfl | hc
          · simp [isScalar]; omega
          · exact e2 c hc
      · simp only [h0, if_false] at h
        cases rest with
        | nil => simp at h
        | cons b1 rest1 =>
          simp only at h
          by_cases h1 : b0 < 0xE0
          · simp only [h1, if_true] at h
            split at h
            · rename_i hcond
              obtain ⟨g1, g2, g3⟩ := hcond
              rw [isCont_iff] at g2
              obtain ⟨cs', hd, rfl⟩ := map_cons_eq_some h
              obtain ⟨e1, e2⟩ := ih rest1 cs' (by simp at hl; omega) hd
              have hc2 : 0x80 ≤ (b0 - 0xC0) * 64 + (b1 - 0x80) ∧ (b0 - 0xC0) * 64 + (b1 - 0x80) < 0x800 := by
                exact (lenUtf8_eq_2 _).1 g3
              refine ⟨?_, ?_⟩
              · simp only [utf8Encode, ← e1]
                have : encodeChar ((b0 - 0xC0) * 64 + (b1 - 0x80)) = [b0, b1] := by
                  unfold encodeChar
                  rw [if_neg (by omega), if_pos (by omega)]
                  have q0 : 0xC0 + ((b0 - 0xC0) * 64 + (b1 - 0x80)) / 64 = b0 := by omega
                  have q1 : 0x80 + ((b0 - 0xC0) * 64 + (b1 - 0x80)) % 64 = b1 := by omega
                  rw [q0, q1]
                rw [this]; rfl
              · intro c hc
                rcases List.mem_cons.1 hc with hc | hc
                · rw [hc]; simp only [isScalar, Bool.or_eq_true, decide_eq_true_eq]; omega
                · exact e2 c hc
            · simp at h
          · simp only [h1, if_false] at h
            cases rest1 with
            | nil => simp at h
            | cons b2 rest2 =>
              simp only at h
              by_cases h2 : b0 < 0xF0
              · simp only [h2, if_true] at h
                split at h
                · rename_i hcond
                  obtain ⟨g1, g2, g3, g4⟩ := hcond
                  rw [isCont_iff] at g1 g2
                  obtain ⟨cs', hd, rfl⟩ := map_cons_eq_some h
                  obtain ⟨e1, e2⟩ := ih rest2 cs' (by simp at hl; omega) hd
                  have hc3 : 0x800 ≤ (b0 - 0xE0) * 4096 + (b1 - 0x80) * 64 + (b2 - 0x80) ∧
                      (b0 - 0xE0) * 4096 + (b1 - 0x80) * 64 + (b2 - 0x80) < 0x10000 := by
                    exact (lenUtf8_eq_3 _).1 g3
                  refine ⟨?_, ?_⟩
                  · simp only [utf8Encode, ← e1]
                    have : encodeChar ((b0 - 0xE0) * 4096 + (b1 - 0x80) * 64 + (b2 - 0x80)) = [b0, b1, b2] := by
                      unfold encodeChar
                      rw [if_neg (by omega), if_neg (by omega), if_pos (by omega)]
                      have q0 : 0xE0 + ((b0 - 0xE0) * 4096 + (b1 - 0x80) * 64 + (b2 - 0x80)) / 4096 = b0 := by omega
                      have q1 : 0x80 + ((b0 - 0xE0) * 4096 + (b1 - 0x80) * 64 + (b2 - 0x80)) / 64 % 64 = b1 := by omega
                      have q2 : 0x80 + ((b0 - 0xE0) * 4096 + (b1 - 0x80) * 64 + (b2 - 0x80)) % 64 = b2 := by omega
                      rw [q0, q1, q2]
                    rw [this]; rfl
                  · intro c hc
                    rcases List.mem_cons.1 hc with hc | hc
                    · rw [hc]; exact g4
                    · exact e2 c hc
                · simp at h
              · simp only [h2, if_false] at h
                cases rest2 with
                | nil => simp at h
                | cons b3 rest3 =>
                  simp only at h
                  split at h
                  · rename_i hcond
                    obtain ⟨g0, g1, g2, g3, g4, g5⟩ := hcond
                    rw [isCont_iff] at g1 g2 g3
                    obtain ⟨cs', hd, rfl⟩ := map_cons_eq_some h
                    obtain ⟨e1, e2⟩ := ih rest3 cs' (by simp at hl; omega) hd
                    have hc4 : 0x10000 ≤ (b0 - 0xF0) * 262144 + (b1 - 0x80) * 4096 + (b2 - 0x80) * 64 + (b3 - 0x80) := by
                      exact (lenUtf8_eq_4 _).1 g4
                    refine ⟨?_, ?_⟩
                    · simp only [utf8Encode, ← e1]
                      have : encodeChar ((b0 - 0xF0) * 262144 + (b1 - 0x80) * 4096 + (b2 - 0x80) * 64 + (b3 - 0x80)) = [b0, b1, b2, b3] := by
                        unfold encodeChar
                        rw [if_neg (by omega), if_neg (by omega), if_neg (by omega)]
                        have q0 : 0xF0 + ((b0 - 0xF0) * 262144 + (b1 - 0x80) * 4096 + (b2 - 0x80) * 64 + (b3 - 0x80)) / 262144 = b0 := by omega
                        have q1 : 0x80 + ((b0 - 0xF0) * 262144 + (b1 - 0x80) * 4096 + (b2 - 0x80) * 64 + (b3 - 0x80)) / 4096 % 64 = b1 := by omega
                        have q2 : 0x80 + ((b0 - 0xF0) * 262144 + (b1 - 0x80) * 4096 + (b2 - 0x80) * 64 + (b3 - 0x80)) / 64 % 64 = b2 := by omega
                        have q3 : 0x80 + ((b0 - 0xF0) * 262144 + (b1 - 0x80) * 4096 + (b2 - 0x80) * 64 + (b3 - 0x80)) % 64 = b3 := by omega
                        rw [q0, q1, q2, q3]
                      rw [this]; rfl
                    · intro c hc
                      rcases List.mem_cons.1 hc with hc | hc
                      · rw [hc]; exact g5
                      · exact e2 c hc
                  · simp at h

theorem lenUtf8_cases (c : Nat) : lenUtf8 c = 1 ∨ lenUtf8 c = 2 ∨ lenUtf8 c = 3 ∨ lenUtf8 c = 4 := by
  unfold lenUtf8; (repeat' split) <;> omega

/-- UTF-8 is order preserving: the successor of a char, when it has the same width, has a
strictly greater encoding -/
theorem encodeChar_succ_lt (c : Nat) (h : lenUtf8 (c + 1) = lenUtf8 c) :
    lexLt (encodeChar c) (encodeChar (c + 1)) = true := by
  rcases lenUtf8_cases c with h1 | h2 | h3 | h4
  · rw [h1] at h
    have a := (lenUtf8_eq_1 _).1 h1
    have b := (lenUtf8_eq_1 _).1 h
    unfold encodeChar
    rw [if_pos a, if_pos b]
    simp [lexLt]
  · rw [h2] at h
    have a := (lenUtf8_eq_2 _).1 h2
    have b := (lenUtf8_eq_2 _).1 h
    unfold encodeChar
    rw [if_neg (by omega), if_pos a.2, if_neg (by omega), if_pos b.2]
    simp only [lexLt, Bool.or_eq_true, Bool.and_eq_true, decide_eq_true_eq, Bool.or_false, Bool.and_false]
    omega
  · rw [h3] at h
    have a := (lenUtf8_eq_3 _).1 h3
    have b := (lenUtf8_eq_3 _).1 h
    unfold encodeChar
    rw [if_neg (by omega), if_neg (by omega), if_pos a.2, if_neg (by omega), if_neg (by omega), if_pos b.2]
    simp only [lexLt, Bool.or_eq_true, Bool.and_eq_true, decide_eq_true_eq, Bool.or_false, Bool.and_false]
    omega
  · rw [h4] at h
    have a := (lenUtf8_eq_4 _).1 h4
    have b := (lenUtf8_eq_4 _).1 h
    unfold encodeChar
    rw [if_neg (by omega), if_neg (by omega), if_neg (by omega), if_neg (by omega), if_neg (by omega), if_neg (by omega)]
    simp only [lexLt, Bool.or_eq_true, Bool.and_eq_true, decide_eq_true_eq, Bool.or_false, Bool.and_false]
    omega

theorem lexLt_append_of_lt (a : List Nat) : ∀ (b s t : List Nat), a.length = b.length → lexLt a b = true →
    lexLt (a ++ s) (b ++ t) = true := by
  induction a with
  | nil => intro b s t hl h; cases b <;> simp_all [lexLt]
  | cons x xs ih =>
    intro b s t hl h
    cases b with
    | nil => simp at hl
    | cons y ys =>
      simp only [lexLt, Bool.or_eq_true, Bool.and_eq_true, decide_eq_true_eq, List.cons_append] at h ⊢
      rcases h with h | ⟨h1, h2⟩
      · exact Or.inl h
      · exact Or.inr ⟨h1, ih ys s t (by simpa using hl) h2⟩

/-- result of `increment_utf8`: some char `c` of the string is replaced by `c+1` (a scalar
of the same width), everything after it is dropped -/
theorem incrementUtf8Rev_some (rcs : List Nat) : ∀ r, incrementUtf8Rev rcs = some r →
    ∃ before c after, rcs.reverse = before ++ c :: after ∧ r = utf8Encode before ++ encodeChar (c + 1) ∧
      isScalar (c + 1) = true ∧ lenUtf8 (c + 1) = lenUtf8 c := by
  induction rcs with
  | nil => intro r h; simp [incrementUtf8Rev] at h
  | cons c before ih =>
    intro r h
    simp only [incrementUtf8Rev] at h
    split at h
    · rename_i hc
      simp only [Option.some.injEq] at h
      exact ⟨before.reverse, c, [], by simp, h.symm, hc.1, hc.2⟩
    · obtain ⟨b, c', a, h1, h2, h3, h4⟩ := ih r h
      exact ⟨b, c', a ++ [c], by simp [h1], h2, h3, h4⟩

theorem incrementUtf8Rev_none (rcs : List Nat) : incrementUtf8Rev rcs = none ↔
    ∀ c ∈ rcs, ¬ (isScalar (c + 1) = true ∧ lenUtf8 (c + 1) = lenUtf8 c) := by
  induction rcs with
  | nil => simp [incrementUtf8Rev]
  | cons c before ih =>
    simp only [incrementUtf8Rev]
    split
    · rename_i hc
      simp only [reduceCtorEq, false_iff]
      intro h; exact h c (by simp) hc
    · rename_i hc
      rw [ih]
      constructor
      · intro h x hx; simp at hx; rcases hx with rfl | hx
        · exact hc
        · exact h x hx
      · intro h x hx; exact h x (by simp [hx])

theorem rfind_some (p : Nat → Bool) (lo : Nat) : ∀ (hi x : Nat), rfind p lo hi = some x →
    lo ≤ x ∧ x ≤ hi ∧ p x = true := by
  intro hi
  induction hi with
  | zero =>
    intro x h
    simp only [rfind] at h
    split at h
    · rename_i hc; simp at h; subst h; exact ⟨by omega, by omega, hc.2⟩
    · simp at h
  | succ n ih =>
    intro x h
    simp only [rfind] at h
    split at h
    · simp at h
    · split at h
      · rename_i h1 h2; simp at h; subst h; exact ⟨by omega, by omega, h2⟩
      · obtain ⟨a, b, c⟩ := ih x h; exact ⟨a, by omega, c⟩

/-- **`truncate_and_increment_utf8` returns a strict upper bound and valid UTF-8** -/
theorem truncateAndIncrementUtf8_ok (cs : List Nat) (hcs : ∀ c ∈ cs, isScalar c = true) (l : Nat) (r : List Nat)
    (h : truncateAndIncrementUtf8 (utf8Encode cs) l = some r) :
    lexLt (utf8Encode cs) r = true ∧ ValidUtf8 r ∧ r.length ≤ l := by
  simp only [truncateAndIncrementUtf8] at h
  cases hf : rfind (isCharBoundary (utf8Encode cs)) (l - UTF8_BACK) l with
  | none => rw [hf] at h; simp at h
  | some split =>
    rw [hf] at h
    simp only [Option.bind_some] at h
    split at h
    · rename_i hb
      obtain ⟨k, hk1, hk2⟩ := boundary_split cs split hb.2 hb.1
      have hsc : ∀ c ∈ cs.take k, isScalar c = true := fun c hc => hcs c (List.mem_of_mem_take hc)
      rw [hk1, decodeChars_encode _ hsc] at h
      simp only [Option.bind_some, incrementUtf8] at h
      obtain ⟨before, c, after, e1, e2, e3, e4⟩ := incrementUtf8Rev_some _ r h
      rw [List.reverse_reverse] at e1
      have hdata : utf8Encode cs = utf8Encode before ++ (encodeChar c ++ (utf8Encode after ++ utf8Encode (cs.drop k))) := by
        conv => lhs; rw [← List.take_append_drop k cs, utf8Encode_append, e1, utf8Encode_append]
        simp [utf8Encode, List.append_assoc]
      refine ⟨?_, ?_, ?_⟩
      · rw [hdata, e2, lexLt_append_left]
        have := lexLt_append_of_lt (encodeChar c) (encodeChar (c + 1)) (utf8Encode after ++ utf8Encode (cs.drop k)) []
          (by rw [encodeChar_length, encodeChar_length, e4]) (encodeChar_succ_lt c e4)
        simpa using this
      · refine ⟨before ++ [c + 1], ?_, ?_⟩
        · intro x hx
          simp at hx
          rcases hx with hx | rfl
          · exact hsc x (by rw [e1]; simp [hx])
          · exact e3
        · rw [e2, utf8Encode_append]; simp [utf8Encode]
      · -- the result is no longer than the prefix it was computed from
        have hlen : r.length ≤ ((utf8Encode cs).take split).length := by
          rw [hk1, e1, e2, utf8Encode_append]
          simp only [utf8Encode, List.length_append, encodeChar_length, e4]
          omega
        have hsl : split ≤ l := (rfind_some _ _ _ _ hf).2.1
        simp only [List.length_take] at hlen
        omega
    · simp at h

theorem isCharBoundary_le (data : List Nat) (x : Nat) (h : isCharBoundary data x = true) : x ≤ data.length := by
  unfold isCharBoundary at h
  by_cases hx : x = 0
  · omega
  · simp only [hx, if_false] at h
    cases hg : data[x]? with
    | none => rw [hg] at h; simp at h; omega
    | some b =>
      have := (List.getElem?_eq_some_iff.1 hg).1
      omega

/-- `truncate_utf8` returns the encoding of a non-empty prefix of the char sequence, at most `l` bytes -/
theorem truncateUtf8_ok (cs : List Nat) (l : Nat) (t : List Nat) (h : truncateUtf8 (utf8Encode cs) l = some t) :
    (∃ k, t = utf8Encode (cs.take k)) ∧ t.length ≤ l ∧ 1 ≤ t.length := by
  unfold truncateUtf8 at h
  cases hf : rfind (isCharBoundary (utf8Encode cs)) 1 l with
  | none => rw [hf] at h; simp at h
  | some split =>
    rw [hf] at h
    simp only [Option.map_some, Option.some.injEq] at h
    obtain ⟨h1, h2, h3⟩ := rfind_some _ _ _ _ hf
    have hle := isCharBoundary_le _ _ h3
    obtain ⟨k, hk1, _⟩ := boundary_split cs split hle h3
    subst h
    exact ⟨⟨k, hk1⟩, by simp [List.length_take]; omega, by simp [List.length_take]; omega⟩

end ArrowModel.C07
