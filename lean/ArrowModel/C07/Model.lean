import ArrowModel.C07.Spec
import ArrowModel.Generated.C07
/-
C07 — algorithm model of the statistics / truncation / bloom-filter code of the parquet
writer, mirroring the Rust **as written** (`parquet/src/column/writer/mod.rs`,
`parquet/src/column/writer/encoder.rs`, `parquet/src/bloom_filter/mod.rs`).
Total, computable, core-only.  Byte strings are `List Nat` (each `< 256`).
-/
namespace ArrowModel.C07
open ArrowModel.Generated.C07

/-! ## compare_greater -/

/-- `x as i8` for a byte `x` -/
def toI8 (b : Nat) : Int := if b < 128 then (b : Int) else (b : Int) - 256

/-- `<[u8] as PartialOrd>::gt` : `a > b` on slices -/
def sliceGt (a b : List Nat) : Bool := lexLt b a

/-- `compare_greater_byte_array_decimals(a, b)` (column/writer/mod.rs), statement by
statement (as of the fix of the unequal-length case: once the leading bytes of the longer
operand are pure sign extension, its remaining bytes are compared with the shorter operand). -/
def compareGreaterByteArrayDecimals (a b : List Nat) : Bool :=
  match a, b with
  | [], _ => false                       -- a_length == 0            → a_length > 0 = false
  | _ :: _, [] => true                   -- b_length == 0, a_length>0 → true
  | fa :: ta, fb :: tb =>
    let aLen := ta.length + 1
    let bLen := tb.length + 1
    if (DEC_SIGN_MASK &&& fa) ≠ (DEC_SIGN_MASK &&& fb) ∨ (aLen = bLen ∧ fa ≠ fb) then
      decide (toI8 fa > toI8 fb)
    else
      let ext : Nat := if toI8 fa < 0 then DEC_NEG_EXT else 0
      if aLen ≠ bLen then
        let notEqual : Bool :=
          if aLen > bLen then ((fa :: ta).take (aLen - bLen)).any (fun x => x != ext)
          else ((fb :: tb).take (bLen - aLen)).any (fun x => x != ext)
        if notEqual = true then
          let negative : Bool := decide (toI8 fa < 0)
          let aLonger : Bool := decide (aLen > bLen)
          if negative then !aLonger else aLonger
        else if aLen > bLen then
          sliceGt ((fa :: ta).drop (aLen - bLen)) (fb :: tb)      -- a[a_length - b_length..] > *b
        else
          sliceGt (fa :: ta) ((fb :: tb).drop (bLen - aLen))      -- *a > b[b_length - a_length..]
      else
        sliceGt ta tb                                             -- (a[1..]) > (b[1..])

/-- `compare_greater` for INT32/INT64 with SIGNED order: `a > b` on `iN` -/
def compareGreaterSigned (a b : Int) : Bool := decide (a > b)

/-- `T::as_u64` for `i32`/`i64`: `*self as i64 as u64` (sign-extending, wrapping) -/
def asU64 (x : Int) : Nat := (x % (2 : Int) ^ 64).toNat

/-- `compare_greater_unsigned_int`: `a.as_u64() > b.as_u64()` -/
def compareGreaterUnsigned (a b : Int) : Bool := decide (asU64 a > asU64 b)

/-- `f32/f64/f16::total_cmp(a, b) == Greater` on bit patterns of width `w`
(`total_cmp` is std/half library code documented as IEEE-754 totalOrder; taken as such) -/
def compareGreaterTotal (w : Nat) (a b : Nat) : Bool := decide (totalKey w a > totalKey w b)

/-- `is_nan` for FLOAT/DOUBLE (`val != val`): exponent all ones and mantissa non-zero -/
def isNanF32 (bits : Nat) : Bool := decide (bits % 2 ^ 31 > 0x7F800000)
def isNanF64 (bits : Nat) : Bool := decide (bits % 2 ^ 63 > 0x7FF0000000000000)
/-- `is_nan` for Float16 as written: `uval & 0x7FFF > 0x7C00` -/
def isNanF16 (bits : Nat) : Bool := decide (bits &&& F16_ABS_MASK > F16_INF)

/-! ## update_min / update_max / get_min_max -/

/-- `update_min(descr, val, &mut min)` : returns the new `min` -/
def updateMin {α} (gt : α → α → Bool) (nan : α → Bool) (val : α) : Option α → Option α
  | none => some val
  | some m =>
    match nan m, nan val with
    | false, true => some m
    | true, false => some val
    | _, _ => if gt m val then some val else some m     -- update_stat(.., |cur| compare_greater(cur, val))

/-- `update_max(descr, val, &mut max)` -/
def updateMax {α} (gt : α → α → Bool) (nan : α → Bool) (val : α) : Option α → Option α
  | none => some val
  | some m =>
    match nan m, nan val with
    | false, true => some m
    | true, false => some val
    | _, _ => if gt val m then some val else some m

/-- loop of `get_min_max` (encoder.rs): `(min, max, min_max_nan, nan_count)` -/
def getMinMaxLoop {α} (gt : α → α → Bool) (nan : α → Bool) :
    List α → α → α → Bool → Nat → α × α × Nat
  | [], mn, mx, _, n => (mn, mx, n)
  | v :: vs, mn, mx, mmNan, n =>
    match mmNan, nan v with
    | false, true => getMinMaxLoop gt nan vs mn mx false (n + 1)
    | true, false => getMinMaxLoop gt nan vs v v false n
    | mm, vn =>
      let n' := n + (if vn then 1 else 0)
      if gt mn v then getMinMaxLoop gt nan vs v mx mm n'
      else if gt v mx then getMinMaxLoop gt nan vs mn v mm n'
      else getMinMaxLoop gt nan vs mn mx mm n'

/-- `get_min_max(basic_type_info, iter)` -/
def getMinMax {α} (gt : α → α → Bool) (nan : α → Bool) : List α → Option (α × α × Nat)
  | [] => none
  | f :: rest => some (getMinMaxLoop gt nan rest f f (nan f) (if nan f then 1 else 0))

/-- running `(min, max)` of the encoder (page level) or of `ColumnMetrics` (chunk level) -/
structure MinMax (α : Type) where
  min : Option α
  max : Option α
deriving Repr, DecidableEq

def MinMax.empty {α} : MinMax α := ⟨none, none⟩

/-- `ColumnValueEncoderImpl::write_slice`: statistics part -/
def writeSlice {α} (gt : α → α → Bool) (nan : α → Bool) (acc : MinMax α) (slice : List α) : MinMax α :=
  match getMinMax gt nan slice with
  | none => acc
  | some (mn, mx, _) => ⟨updateMin gt nan mn acc.min, updateMax gt nan mx acc.max⟩

/-- statistics of one data page: `write_slice` over its mini-batches, then `flush_data_page` -/
def pageStats {α} (gt : α → α → Bool) (nan : α → Bool) (miniBatches : List (List α)) : MinMax α :=
  miniBatches.foldl (writeSlice gt nan) MinMax.empty

/-- `add_data_page`: fold the page's `(min,max)` into the column metrics -/
def addPage {α} (gt : α → α → Bool) (nan : α → Bool) (col : MinMax α) (page : MinMax α) : MinMax α :=
  match page.min, page.max with
  | some mn, some mx => ⟨updateMin gt nan mn col.min, updateMax gt nan mx col.max⟩
  | _, _ => col

/-- chunk statistics: pages → `ColumnMetrics.{min,max}_column_value` -/
def chunkStats {α} (gt : α → α → Bool) (nan : α → Bool) (pages : List (List (List α))) : MinMax α :=
  (pages.map (pageStats gt nan)).foldl (addPage gt nan) MinMax.empty

/-! ## boundary order (`update_column_offset_index` + `close`) -/

/-- the ascending/descending flags after visiting the non-null pages' `(min,max)` in order -/
def boundaryFlags {α} (gt : α → α → Bool) : Option (α × α) → List (α × α) → Bool × Bool → Bool × Bool
  | _, [], f => f
  | none, p :: ps, f => boundaryFlags gt (some p) ps f
  | some (lmin, lmax), (nmin, nmax) :: ps, (asc, desc) =>
    let asc' := if asc then !(gt lmin nmin || gt lmax nmax) else false
    let desc' := if desc then !(gt nmin lmin || gt nmax lmax) else false
    boundaryFlags gt (some (nmin, nmax)) ps (asc', desc')

/-- `BoundaryOrder` chosen in `close`: 0 = UNORDERED, 1 = ASCENDING, 2 = DESCENDING -/
def boundaryOrder {α} (gt : α → α → Bool) (pages : List (α × α)) : Nat :=
  match boundaryFlags gt none pages (true, true) with
  | (true, _) => 1
  | (false, true) => 2
  | (false, false) => 0

/-! ## truncation -/

/-- `increment(data)` on the reversed byte vector: bytes are visited right to left,
an overflowing byte becomes 0 and the walk continues; `None` if every byte overflowed -/
def incrementRev : List Nat → Option (List Nat)
  | [] => none
  | b :: rest =>
    if b + 1 < 256 then some ((b + 1) :: rest)
    else (incrementRev rest).map (fun r => 0 :: r)

/-- `increment(data: Vec<u8>) -> Option<Vec<u8>>` -/
def increment (data : List Nat) : Option (List Nat) := (incrementRev data.reverse).map List.reverse

/-- UTF-8 continuation byte `10xxxxxx` -/
def isCont (b : Nat) : Bool := decide (0x80 ≤ b) && decide (b < 0xC0)

/-- `str::is_char_boundary(index)` on the bytes of the string -/
def isCharBoundary (data : List Nat) (i : Nat) : Bool :=
  if i = 0 then true
  else match data[i]? with
    | none => decide (i = data.length)
    | some b => !(isCont b)

/-- `(lo..=hi).rfind(p)` : the largest `x` with `lo ≤ x ≤ hi` and `p x` -/
def rfind (p : Nat → Bool) (lo : Nat) : Nat → Option Nat
  | 0 => if lo = 0 ∧ p 0 = true then some 0 else none
  | hi + 1 => if hi + 1 < lo then none else if p (hi + 1) then some (hi + 1) else rfind p lo hi

/-- `truncate_utf8(data, length)` -/
def truncateUtf8 (data : List Nat) (length : Nat) : Option (List Nat) :=
  (rfind (isCharBoundary data) 1 length).map (fun split => data.take split)

/-- strict UTF-8 decoder = `str::from_utf8(data)` followed by `.chars()`:
`none` iff the bytes are not valid UTF-8 (overlong forms, surrogates, > U+10FFFF, stray
or missing continuation bytes) -/
def decodeChars : List Nat → Option (List Nat)
  | [] => some []
  | b0 :: rest =>
    if b0 < 0x80 then (decodeChars rest).map (fun cs => b0 :: cs)
    else match rest with
      | [] => none
      | b1 :: rest1 =>
        if b0 < 0xE0 then
          let c := (b0 - 0xC0) * 64 + (b1 - 0x80)
          if 0xC0 ≤ b0 ∧ isCont b1 = true ∧ lenUtf8 c = 2 then (decodeChars rest1).map (fun cs => c :: cs) else none
        else match rest1 with
          | [] => none
          | b2 :: rest2 =>
            if b0 < 0xF0 then
              let c := (b0 - 0xE0) * 4096 + (b1 - 0x80) * 64 + (b2 - 0x80)
              if isCont b1 = true ∧ isCont b2 = true ∧ lenUtf8 c = 3 ∧ isScalar c = true then
                (decodeChars rest2).map (fun cs => c :: cs) else none
            else match rest2 with
              | [] => none
              | b3 :: rest3 =>
                let c := (b0 - 0xF0) * 262144 + (b1 - 0x80) * 4096 + (b2 - 0x80) * 64 + (b3 - 0x80)
                if b0 < 0xF8 ∧ isCont b1 = true ∧ isCont b2 = true ∧ isCont b3 = true ∧ lenUtf8 c = 4 ∧ isScalar c = true then
                  (decodeChars rest3).map (fun cs => c :: cs) else none

/-- `increment_utf8` on the reversed char sequence (`data.char_indices().rev()`): the first
(from the right) char whose successor is a char (`char::from_u32`) of the same UTF-8
width is replaced by it and everything after it dropped; result as bytes -/
def incrementUtf8Rev : List Nat → Option (List Nat)
  | [] => none
  | c :: before =>
    if isScalar (c + 1) = true ∧ lenUtf8 (c + 1) = lenUtf8 c then
      some (utf8Encode before.reverse ++ encodeChar (c + 1))
    else incrementUtf8Rev before

/-- `increment_utf8(data: &str)` with the string given as its chars -/
def incrementUtf8 (cs : List Nat) : Option (List Nat) := incrementUtf8Rev cs.reverse

/-- `truncate_and_increment_utf8(data, length)`; `data` = bytes of a valid `&str`
(`data.get(..split)?` is `None` off a char boundary; the prefix is re-read as chars) -/
def truncateAndIncrementUtf8 (data : List Nat) (length : Nat) : Option (List Nat) :=
  let lower := length - UTF8_BACK
  (rfind (isCharBoundary data) lower length).bind fun split =>
    if isCharBoundary data split = true ∧ split ≤ data.length then
      (decodeChars (data.take split)).bind incrementUtf8
    else none

/-- `str::from_utf8(data).is_ok()` -/
def validUtf8B (data : List Nat) : Bool := (decodeChars data).isSome

/-- `can_truncate_value()`: `physical` = 1 for BYTE_ARRAY, 2 for FIXED_LEN_BYTE_ARRAY, anything else
for the other physical types.  FIXED_LEN_BYTE_ARRAY is truncatable unless it is a Decimal or
Float16, BYTE_ARRAY unless it is a Decimal (their order is not the unsigned byte order). -/
def canTruncateValue (physical : Nat) (isDecimal isFloat16 : Bool) : Bool :=
  if physical = 2 then !(isDecimal || isFloat16)
  else if physical = 1 then !isDecimal
  else false

/-- `truncate_min_value(truncation_length, data)`; `utf8` = `self.is_utf8()` -/
def truncateMinValue (utf8 : Bool) (tl : Option Nat) (data : List Nat) : List Nat × Bool :=
  match tl.filter (fun l => decide (data.length > l)) with
  | none => (data, false)
  | some l =>
    let r := if utf8 then (if validUtf8B data then truncateUtf8 data l else some (data.take l))
             else some (data.take l)
    match r with
    | some t => (t, true)
    | none => (data, false)

/-- `truncate_max_value(truncation_length, data)` -/
def truncateMaxValue (utf8 : Bool) (tl : Option Nat) (data : List Nat) : List Nat × Bool :=
  match tl.filter (fun l => decide (data.length > l)) with
  | none => (data, false)
  | some l =>
    let r := if utf8 then (if validUtf8B data then truncateAndIncrementUtf8 data l else increment (data.take l))
             else increment (data.take l)
    match r with
    | some t => (t, true)
    | none => (data, false)

/-! ## split-block bloom filter -/

def u32 (x : Nat) : Nat := x % 2 ^ 32

/-- salt `i` as a natural -/
def salt (i : Nat) : Nat := (SALT.getD i 0).toNat

/-- bit position chosen in word `i` by `Block::mask(x)`: `(x.wrapping_mul(SALT[i])) >> 27` -/
def maskBit (x : Nat) (i : Nat) : Nat := u32 (u32 x * salt i) >>> MASK_SHIFT

/-- word `i` of `Block::mask(x)`: `1 << y` -/
def maskWord (x : Nat) (i : Nat) : Nat := 1 <<< maskBit x i

/-- `Block::mask(x)`: `for i in 0..8 { result[i] = 1 << ((x.wrapping_mul(SALT[i])) >> 27) }` -/
def blockMask (x : Nat) : List Nat := (List.range MASK_WORDS).map (maskWord x)

/-- `Block::insert(hash)`: `for i in 0..8 { self[i] |= mask[i] }` -/
def blockInsert (block : List Nat) (hash : Nat) : List Nat :=
  (List.range BLOCK_WORDS).map (fun i => block.getD i 0 ||| (blockMask hash).getD i 0)

/-- `Block::check(hash)`: `for i in 0..8 { if self[i] & mask[i] == 0 { return false } } true` -/
def blockCheck (block : List Nat) (hash : Nat) : Bool :=
  (List.range BLOCK_WORDS).all (fun i => (block.getD i 0 &&& (blockMask hash).getD i 0) != 0)

/-- `Sbbf::hash_to_block_index`: `((hash >> 32).saturating_mul(len)) >> 32`
(the product of two numbers `< 2^32`… `len ≤ 2^22` never saturates) -/
def hashToBlockIndex (numBlocks : Nat) (hash : Nat) : Nat :=
  (((hash % 2 ^ 64) >>> INDEX_HI_SHIFT) * numBlocks) >>> INDEX_LO_SHIFT

/-- `Sbbf::insert_hash` -/
def sbbfInsert (blocks : List (List Nat)) (hash : Nat) : List (List Nat) :=
  let i := hashToBlockIndex blocks.length hash
  blocks.modify i (fun b => blockInsert b (u32 hash))

/-- `Sbbf::check_hash` -/
def sbbfCheck (blocks : List (List Nat)) (hash : Nat) : Bool :=
  match blocks[hashToBlockIndex blocks.length hash]? with
  | some b => blockCheck b (u32 hash)
  | none => false        -- index out of bounds would panic; unreachable for non-empty filters

def zeroBlock : List Nat := List.replicate BLOCK_WORDS 0

/-- `impl BitOr for Block`: word-wise OR -/
def blockOr (a b : List Nat) : List Nat :=
  (List.range BLOCK_WORDS).map (fun i => a.getD i 0 ||| b.getD i 0)

/-- one output block of `fold_n`: OR of `group` adjacent blocks starting at `start` -/
def mergedBlock (blocks : List (List Nat)) (start group : Nat) : List Nat :=
  ((List.range (group - 1)).map (fun j => blocks.getD (start + j + 1) zeroBlock)).foldl blockOr
    (blocks.getD start zeroBlock)

/-- `Sbbf::fold_n(num_folds)` (requires `0 < num_folds`, `2^num_folds ≤ len`).  The Rust loop
works in place; output block `i` is written after its inputs `i*group ..` (all `≥ i`) were
read and inputs of later outputs lie at indices `≥ (i+1)*group > i`, so the in-place loop
computes this function. -/
def foldN (blocks : List (List Nat)) (numFolds : Nat) : List (List Nat) :=
  let group := 2 ^ numFolds
  (List.range (blocks.length / group)).map (fun i => mergedBlock blocks (i * group) group)

end ArrowModel.C07
