/-
C07 — specification: the orders the statistics are supposed to respect, "is a bound",
"is attained", UTF-8 as a code, and bloom-filter membership.  Import-free.

Bytes are naturals `< 256` (`Bytes bs`); a byte string is a `List Nat`.
-/
namespace ArrowModel.C07

/-- every element is a byte -/
def Bytes (bs : List Nat) : Prop := ∀ b ∈ bs, b < 256

instance (bs : List Nat) : Decidable (Bytes bs) := inferInstanceAs (Decidable (∀ b ∈ bs, b < 256))

def bytesB (bs : List Nat) : Bool := bs.all (· < 256)

/-! ### unsigned lexicographic order on byte strings (`<[u8] as Ord>`), the UNSIGNED
sort order of BYTE_ARRAY / FIXED_LEN_BYTE_ARRAY columns -/

/-- `a < b` lexicographically (a proper prefix is smaller) -/
def lexLt : List Nat → List Nat → Bool
  | _, [] => false
  | [], _ :: _ => true
  | a :: as, b :: bs => decide (a < b) || (decide (a = b) && lexLt as bs)

/-- `a ≤ b` lexicographically -/
def lexLe (a b : List Nat) : Bool := !lexLt b a

/-! ### two's-complement big-endian integers (DECIMAL on byte arrays) -/

/-- unsigned big-endian value -/
def beNat : List Nat → Nat
  | [] => 0
  | b :: bs => b * 256 ^ bs.length + beNat bs

/-- the integer a DECIMAL byte array denotes: big-endian two's complement, any length ≥ 1
(the empty string, which is not a valid decimal, denotes 0) -/
def decimalValue (bs : List Nat) : Int :=
  match bs with
  | [] => 0
  | b :: _ => if 128 ≤ b then (beNat bs : Int) - (256 : Int) ^ bs.length else (beNat bs : Int)

/-- intended meaning of `compare_greater` on decimals -/
def decimalGt (a b : List Nat) : Bool := decide (decimalValue a > decimalValue b)

/-! ### integers -/

/-- value of an `iN` bit pattern read as unsigned `uN` (UINT_8..UINT_64 logical types) -/
def asUnsigned (bits : Nat) (x : Int) : Nat := (x % (2 : Int) ^ bits).toNat

/-! ### IEEE-754 totalOrder on bit patterns of width `w` (sign-magnitude integers) -/

/-- key of the IEEE 754 `totalOrder` predicate: positive patterns map to their magnitude,
negative patterns to `-(magnitude) - 1`; `-NaN < -inf < … < -0 < +0 < … < +inf < +NaN` -/
def totalKey (w : Nat) (bits : Nat) : Int :=
  if bits < 2 ^ (w - 1) then (bits : Int) else -((bits - 2 ^ (w - 1) : Nat) : Int) - 1

/-- NaN: exponent all ones, mantissa non-zero (`mant` = number of mantissa bits) -/
def isNaNBits (w mant : Nat) (bits : Nat) : Bool :=
  decide (bits % 2 ^ (w - 1) > 2 ^ (w - 1) - 2 ^ mant)

/-! ### bounds -/

/-- `m` bounds every element of `xs` from below w.r.t. `le` -/
def LowerBound {α} (le : α → α → Bool) (m : α) (xs : List α) : Prop := ∀ x ∈ xs, le m x = true
/-- `m` bounds every element of `xs` from above w.r.t. `le` -/
def UpperBound {α} (le : α → α → Bool) (m : α) (xs : List α) : Prop := ∀ x ∈ xs, le x m = true

/-- naive minimum under a `gt` test (first minimal element) -/
def specMin {α} (gt : α → α → Bool) : List α → Option α
  | [] => none
  | x :: xs => match specMin gt xs with
    | none => some x
    | some m => if gt x m then some m else some x

def specMax {α} (gt : α → α → Bool) : List α → Option α
  | [] => none
  | x :: xs => match specMax gt xs with
    | none => some x
    | some m => if gt m x then some m else some x

/-! ### UTF-8 -/

/-- Unicode scalar value -/
def isScalar (c : Nat) : Bool := decide (c < 0xD800) || (decide (0xE000 ≤ c) && decide (c < 0x110000))

/-- UTF-8 encoding of one scalar value -/
def encodeChar (c : Nat) : List Nat :=
  if c < 0x80 then [c]
  else if c < 0x800 then [0xC0 + c / 64, 0x80 + c % 64]
  else if c < 0x10000 then [0xE0 + c / 4096, 0x80 + c / 64 % 64, 0x80 + c % 64]
  else [0xF0 + c / 262144, 0x80 + c / 4096 % 64, 0x80 + c / 64 % 64, 0x80 + c % 64]

/-- `char::len_utf8` -/
def lenUtf8 (c : Nat) : Nat :=
  if c < 0x80 then 1 else if c < 0x800 then 2 else if c < 0x10000 then 3 else 4

def utf8Encode : List Nat → List Nat
  | [] => []
  | c :: cs => encodeChar c ++ utf8Encode cs

/-- the byte string is the UTF-8 encoding of a sequence of scalar values -/
def ValidUtf8 (bs : List Nat) : Prop := ∃ cs : List Nat, (∀ c ∈ cs, isScalar c = true) ∧ bs = utf8Encode cs

/-! ### bloom filter -/

/-- bit `i` of word `w` of a block is set -/
def blockBit (block : List Nat) (w i : Nat) : Bool := (block.getD w 0).testBit i

end ArrowModel.C07
