/-
C03 — algorithm model of the selection kernels of `arrow-select` and of the
`BatchCoalescer`, at the level of value lists + validity lists (the bit-packed layer below
is property C19's).  Every function names the Rust function it mirrors.

An array is `Arr α`: a values buffer `vals` plus an optional validity buffer `nulls`
(`true` = valid, `none` = no null buffer); `decode` is the abstraction function to the
logical column `List (Option α)`.
-/
import ArrowModel.C03.Spec
import ArrowModel.Generated.C03
namespace ArrowModel.C03

/-- physical array: values + optional validity bitmap (same length as `vals`) -/
structure Arr (α : Type) where
  vals : List α
  nulls : Option (List Bool)

instance {α : Type} : Inhabited (Arr α) := ⟨{ vals := [], nulls := none }⟩

/-- logical content of an array -/
def decodeWith {α : Type} : List α → List Bool → List (Option α)
  | v :: vs, b :: bs => (if b then some v else none) :: decodeWith vs bs
  | _, _ => []

def Arr.decode {α : Type} (a : Arr α) : List (Option α) :=
  match a.nulls with
  | none => a.vals.map some
  | some bs => decodeWith a.vals bs

def Arr.len {α : Type} (a : Arr α) : Nat := a.vals.length

/-- `BooleanBuffer::count_set_bits` -/
def countSet (bs : List Bool) : Nat := (bs.filter id).length

/-- `NullBuffer::null_count` -/
def nullCount (bs : List Bool) : Nat := bs.length - countSet bs

/-! ### filter.rs -/

/-- `prep_null_mask_filter` / the `match filter.null_count()` of `FilterBuilder::new_with_count`:
`values & validity`.  A predicate is given as `List (Option Bool)` (validity folded in). -/
def prepMask (p : List (Option Bool)) : List Bool := p.map (fun b => b == some true)

/-- `BooleanArray::true_count` -/
def trueCount (p : List (Option Bool)) : Nat := countSet (prepMask p)

/-- `SlicesIterator` / `BitSliceIterator`: maximal runs `[start, end)` of set bits.
`i` = current position, `cur` = start of the run being extended. -/
def slicesAux : List Bool → Nat → Option Nat → List (Nat × Nat)
  | [], i, some s => [(s, i)]
  | [], _, none => []
  | true :: bs, i, some s => slicesAux bs (i + 1) (some s)
  | true :: bs, i, none => slicesAux bs (i + 1) (some i)
  | false :: bs, i, some s => (s, i) :: slicesAux bs (i + 1) none
  | false :: bs, i, none => slicesAux bs (i + 1) none

def slicesOf (m : List Bool) : List (Nat × Nat) := slicesAux m 0 none

/-- `BitIndexIterator`: positions of set bits, ascending -/
def indicesAux : List Bool → Nat → List Nat
  | [], _ => []
  | true :: bs, i => i :: indicesAux bs (i + 1)
  | false :: bs, i => indicesAux bs (i + 1)

/-- `IndexIterator::new(filter, remaining)`: yields exactly `remaining` indices
(it would panic on early exhaustion; `remaining` is always the true count) -/
def indexIter (m : List Bool) (remaining : Nat) : List Nat := (indicesAux m 0).take remaining

/-- `IterationStrategy` -/
inductive Strategy where
  | slicesIterator
  | indexIterator
  | indices (ix : List Nat)
  | slices (sl : List (Nat × Nat))
  | all
  | none
  deriving Repr, DecidableEq

/-- `IterationStrategy::default_strategy(filter_length, filter_count)`.
`useSlices len count` stands for the `f64` test
`count as f64 / len as f64 > FILTER_SLICES_SELECTIVITY_THRESHOLD`; it is a parameter so that
the theorems hold for every heuristic. -/
def defaultStrategy (useSlices : Nat → Nat → Bool) (len count : Nat) : Strategy :=
  if len = 0 ∨ count = 0 then .none
  else if count = len then .all
  else if useSlices len count then .slicesIterator
  else .indexIterator

/-- the heuristic as written (exact rational comparison instead of `f64` division) -/
def useSlicesRepo (len count : Nat) : Bool :=
  decide (count * Generated.C03.FILTER_SLICES_SELECTIVITY_THRESHOLD_den >
          Generated.C03.FILTER_SLICES_SELECTIVITY_THRESHOLD_num * len)

/-- `FilterPredicate { filter, count, strategy }` -/
structure Predicate where
  filter : List Bool
  count : Nat
  strategy : Strategy

/-- `FilterBuilder::new_with_count(filter, count)` + `.build()` -/
def Predicate.new (useSlices : Nat → Nat → Bool) (p : List (Option Bool)) : Predicate :=
  let f := prepMask p
  let c := trueCount p
  { filter := f, count := c, strategy := defaultStrategy useSlices f.length c }

/-- `FilterBuilder::optimize` -/
def Predicate.optimize (p : Predicate) : Predicate :=
  match p.strategy with
  | .slicesIterator => { p with strategy := .slices (slicesOf p.filter) }
  | .indexIterator => { p with strategy := .indices (indexIter p.filter p.count) }
  | _ => p

/-- `values.get_unchecked(start..end)` appended -/
def copyRange {α : Type} (vals : List α) (se : Nat × Nat) : List α := (vals.drop se.1).take (se.2 - se.1)

/-- `filter_native(values, predicate)` (strategies `All`/`None` are `unreachable!()` there;
the model returns `[]`) -/
def filterNative {α : Type} [Inhabited α] (vals : List α) (p : Predicate) : List α :=
  match p.strategy with
  | .slicesIterator => (slicesOf p.filter).flatMap (copyRange vals)
  | .slices sl => sl.flatMap (copyRange vals)
  | .indexIterator => (indexIter p.filter p.count).map (fun i => vals.getD i default)
  | .indices ix => ix.map (fun i => vals.getD i default)
  | .all => []
  | .none => []

/-- `filter_bits(buffer, predicate)`: the same selection on a bitmap -/
def filterBits (bits : List Bool) (p : Predicate) : List Bool :=
  match p.strategy with
  | .slicesIterator => (slicesOf p.filter).flatMap (copyRange bits)
  | .slices sl => sl.flatMap (copyRange bits)
  | .indexIterator => (indexIter p.filter p.count).map (fun i => bits.getD i false)
  | .indices ix => ix.map (fun i => bits.getD i false)
  | .all => []
  | .none => []

/-- `FilterPredicate::filter_nulls(nulls)` -/
def filterNulls (nulls : Option (List Bool)) (p : Predicate) : Option (List Bool) :=
  match nulls with
  | none => none
  | some bs =>
    if nullCount bs = 0 then none else
    let out := filterBits bs p
    -- "the filtered nulls has a length of self.count bits"
    let nc := p.count - countSet (out.take p.count)
    if nc = 0 then none else some (out.take p.count)

/-- `filter_primitive(array, predicate)` -/
def filterPrimitive {α : Type} [Inhabited α] (a : Arr α) (p : Predicate) : Arr α :=
  { vals := (filterNative a.vals p).take p.count, nulls := filterNulls a.nulls p }

/-- `Array::slice(offset, len)` -/
def Arr.slice {α : Type} (a : Arr α) (off len : Nat) : Arr α :=
  { vals := (a.vals.drop off).take len, nulls := a.nulls.map (fun b => (b.drop off).take len) }

/-- `filter_array(values, predicate)` for a primitive array.  `none` = `Err(InvalidArgumentError)`. -/
def filterArray {α : Type} [Inhabited α] (a : Arr α) (p : Predicate) : Option (Arr α) :=
  if p.filter.length > a.len then none else
  match p.strategy with
  | .none => some { vals := [], nulls := none }
  | .all => some (a.slice 0 p.count)
  | _ => some (filterPrimitive a p)

/-- `filter(values, predicate)` / `FilterBuilder::new(p)[.optimize()].build().filter(values)` -/
def filterKernel {α : Type} [Inhabited α] (useSlices : Nat → Nat → Bool) (opt : Bool)
    (a : Arr α) (p : List (Option Bool)) : Option (Arr α) :=
  let pr := Predicate.new useSlices p
  filterArray a (if opt then pr.optimize else pr)

/-! ### take.rs -/

/-- outcome of a kernel that can fail in two ways -/
inductive Res (α : Type) where
  | ok (a : α)
  /-- `Err(ArrowError::ComputeError)` from `check_bounds` -/
  | err
  /-- a Rust panic (index out of bounds without `check_bounds`) -/
  | panic
  deriving Repr

/-- `values.get(index.as_usize())`: a negative index wraps to ≥ 2^63, beyond any slice -/
def getIdx {α : Type} (vals : List α) (i : Int) : Option α :=
  if i < 0 then none else vals[i.toNat]?

/-- index array: raw values (whatever sits under a null slot is arbitrary) + validity -/
abbrev IdxArr := Arr Int

/-- `n.null_count() > 0` filter used by `take_native`/`take_bits`/`take_nulls` -/
def nullsIfAny (n : Option (List Bool)) : Option (List Bool) :=
  match n with
  | some bs => if nullCount bs > 0 then some bs else none
  | none => none

/-- `take_native(values, indices)`; `none` = panic -/
def takeNative {α : Type} [Inhabited α] (vals : List α) (idx : IdxArr) : Option (List α) :=
  match nullsIfAny idx.nulls with
  | some n =>
    (List.zip idx.vals n).mapM (fun (iv : Int × Bool) =>
      match getIdx vals iv.1 with
      | some v => some v
      | none => if iv.2 then none else some default)
  | none => idx.vals.mapM (fun i => getIdx vals i)

/-- `take_bits(values, indices)`; `none` = panic (`BooleanBuffer::value` asserts the bound) -/
def takeBits (bits : List Bool) (idx : IdxArr) : Option (List Bool) :=
  match nullsIfAny idx.nulls with
  | some n =>
    (List.zip idx.vals n).mapM (fun (iv : Int × Bool) =>
      if iv.2 then getIdx bits iv.1 else some false)
  | none => idx.vals.mapM (fun i => getIdx bits i)

/-- `take_nulls(values_nulls, indices)`; outer `none` = panic.
`NullBuffer::from_unsliced_buffer` drops an all-valid result. -/
def takeNulls (nulls : Option (List Bool)) (idx : IdxArr) : Option (Option (List Bool)) :=
  match nullsIfAny nulls with
  | some n =>
    match takeBits n idx with
    | some out => some (if nullCount out = 0 then none else some out)
    | none => none
  | none => some idx.nulls

/-- `check_bounds(len, indices)`.  `maxIdx` = largest value of the index type: when `len`
is not representable (`T::Native::from_usize(len)` fails) the check is skipped. -/
def checkBounds (maxIdx : Nat) (len : Nat) (idx : IdxArr) : Bool :=
  if len > maxIdx then true else
  match nullsIfAny idx.nulls with
  | some n => (List.zip idx.vals n).all (fun iv => !iv.2 || decide (iv.1 < (len : Int)))
  | none => idx.vals.all (fun i => decide (0 ≤ i) && decide (i < (len : Int)))

/-- `take(values, indices, options)` on a primitive array: `check_bounds`, then `take_impl`
→ `take_primitive` = `take_native` + `take_nulls`. -/
def takeKernel {α : Type} [Inhabited α] (maxIdx : Nat) (check : Bool) (a : Arr α) (idx : IdxArr) : Res (Arr α) :=
  if check && !checkBounds maxIdx a.len idx then .err else
  if idx.vals.isEmpty then .ok { vals := [], nulls := none } else
  match takeNative a.vals idx, takeNulls a.nulls idx with
  | some v, some n => .ok { vals := v, nulls := n }
  | _, _ => .panic

/-! ### concat.rs / interleave.rs / window.rs / nullif.rs -/

/-- validity to append for one input (`append_array`: `append_buffer` or `append_n_non_nulls`) -/
def validityOf {α : Type} (a : Arr α) : List Bool :=
  match a.nulls with
  | some b => b
  | none => List.replicate a.len true

/-- `NullBufferBuilder::finish`: no buffer is materialised when no null was appended -/
def finishNulls (bs : List Bool) : Option (List Bool) := if nullCount bs = 0 then none else some bs

/-- `concat_primitives`: `PrimitiveBuilder::append_array` for every input -/
def concatPrimitive {α : Type} (arrs : List (Arr α)) : Arr α :=
  { vals := (arrs.map (·.vals)).flatten, nulls := finishNulls (arrs.map validityOf).flatten }

/-- `interleave_primitive` + `Interleave::new` (nulls only when some input has nulls);
`none` = panic (index out of range). -/
def interleavePrimitive {α : Type} (arrs : List (Arr α)) (idx : List (Nat × Nat)) : Option (Arr α) :=
  let hasNulls := arrs.any (fun a => match a.nulls with | some b => decide (nullCount b ≠ 0) | none => false)
  match idx.mapM (fun p => (arrs[p.1]?).bind (fun a => a.vals[p.2]?)),
        idx.mapM (fun p => (arrs[p.1]?).bind (fun a => (validityOf a)[p.2]?)) with
  | some v, some n => some { vals := v, nulls := if hasNulls then some n else none }
  | _, _ => none

/-- `new_null_array(type, n)` -/
def nullArr {α : Type} [Inhabited α] (n : Nat) : Arr α :=
  { vals := List.replicate n default, nulls := some (List.replicate n false) }

/-- `shift(array, offset)` (window.rs) -/
def shiftKernel {α : Type} [Inhabited α] (a : Arr α) (offset : Int) : Arr α :=
  let len := a.len
  if offset = 0 then a
  else if offset.natAbs ≥ len then nullArr len
  else if offset > 0 then
    let k := offset.toNat
    concatPrimitive [nullArr k, a.slice 0 (len - k)]
  else
    let k := (-offset).toNat
    concatPrimitive [a.slice k (len - k), nullArr k]

/-- `nullif(left, right)`: validity `left & !(right_values & right_validity)`; `none` = length mismatch -/
def nullifKernel {α : Type} (a : Arr α) (r : List (Option Bool)) : Option (Arr α) :=
  if a.len ≠ r.length then none else
  if a.len = 0 then some a else
  let rm := prepMask r
  some { vals := a.vals, nulls := some (List.zipWith (fun l m => l && !m) (validityOf a) rm) }

/-! ### coalesce.rs -/

/-- configuration of a `BatchCoalescer` -/
structure Config where
  /-- `target_batch_size` -/
  target : Nat
  /-- `biggest_coalesce_batch_size` -/
  limit : Option Nat
  /-- `has_non_specialized_filter_columns` -/
  nonSpecialized : Bool
  /-- `SPARSE_FILTER_COPY_MAX_SELECTIVITY_DENOMINATOR` -/
  sparseDenom : Nat
  /-- the slices-vs-indices heuristic of the filter kernel -/
  useSlices : Nat → Nat → Bool

/-- `BatchCoalescer` state: the rows inside `in_progress_arrays`, the separately tracked
`buffered_rows` counter, the `completed` queue; `diverged` records that `push_batch`'s
`while` loop can no longer make progress (`target_batch_size = 0`). -/
structure CState (α : Type) where
  inProgress : List α
  bufferedRows : Nat
  completed : List (List α)
  diverged : Bool

def CState.init {α : Type} : CState α := { inProgress := [], bufferedRows := 0, completed := [], diverged := false }

/-- `finish_buffered_batch` -/
def finishBuffered {α : Type} (s : CState α) : CState α :=
  if s.bufferedRows = 0 then s
  else { s with inProgress := [], bufferedRows := 0, completed := s.completed ++ [s.inProgress] }

/-- the loop `while num_rows > target - buffered_rows { copy_rows(offset, remaining); … finish }`
of `push_batch`; `rest` = the rows from `offset` on.  `none` = no progress possible
(`remaining_rows = 0`, the Rust loop spins forever). -/
def pushLoop {α : Type} (target : Nat) (s : CState α) (rest : List α) : Option (CState α × List α) :=
  let remaining := target - s.bufferedRows
  if _h : rest.length > remaining then
    if _hr : remaining = 0 then none
    else
      let s1 := { s with inProgress := s.inProgress ++ rest.take remaining,
                         bufferedRows := s.bufferedRows + remaining }
      pushLoop target (finishBuffered s1) (rest.drop remaining)
  else some (s, rest)
termination_by rest.length
decreasing_by simp; omega

/-- `push_batch(batch)` -/
def pushBatch {α : Type} (c : Config) (s : CState α) (batch : List α) : CState α :=
  let batchSize := batch.length
  if batchSize = 0 then s else
  -- large batch bypass
  if c.limit.any (fun limit => batchSize > limit) ∧ s.bufferedRows = 0 then
    { s with completed := s.completed ++ [batch] }                       -- case 1
  else if c.limit.any (fun limit => batchSize > limit ∧ s.bufferedRows > limit) then
    let s := finishBuffered s                                             -- case 2
    { s with completed := s.completed ++ [batch] }
  else
    match pushLoop c.target s batch with
    | none => { s with diverged := true }
    | some (s, rest) =>
      let s := { s with bufferedRows := s.bufferedRows + rest.length,
                        inProgress := if rest.length > 0 then s.inProgress ++ rest else s.inProgress }
      if s.bufferedRows ≥ c.target then finishBuffered s else s

/-- `FilterPredicate::selection()` consumed by `copy_rows_by_selection` / the primitive and
view `copy_rows_by_filter`: rows appended to the in-progress arrays -/
def copyBySelection {α : Type} (rows : List α) (p : Predicate) : List α :=
  match p.strategy with
  | .none => []
  | .all => copyRange rows (0, p.count)
  | .slicesIterator => (slicesOf p.filter).flatMap (copyRange rows)
  | .slices sl => sl.flatMap (copyRange rows)
  | .indexIterator => (indexIter p.filter p.count).flatMap (fun i => copyRange rows (i, i + 1))
  | .indices ix => ix.flatMap (fun i => copyRange rows (i, i + 1))

/-- rows of `predicate.filter_record_batch(batch)` (each column through `filter_array`);
a row is an atomic value here -/
def filterRows {α : Type} (rows : List α) (p : Predicate) : List α :=
  match p.strategy with
  | .none => []
  | .all => rows.take p.count
  | _ => copyBySelection rows p

/-- `push_batch_with_filter(batch, filter)` = `push_batch_with_filtered_columns`.
Second component `false` = `Err(InvalidArgumentError)` (state untouched). -/
def pushFiltered {α : Type} (c : Config) (s : CState α) (rows : List α) (mask : List (Option Bool)) : CState α × Bool :=
  let filterLen := mask.length
  let batchRows := rows.length
  if filterLen > batchRows then (s, false) else
  let selected := trueCount mask
  if selected = 0 then (s, true) else
  if selected = batchRows ∧ filterLen = batchRows then (pushBatch c s rows, true) else
  let exceeds := c.limit.any (fun limit => selected > limit)
  let doesNotFit := decide (selected > c.target - s.bufferedRows)
  let materialize := exceeds || c.nonSpecialized || doesNotFit
                      || !(decide (selected ≤ filterLen / c.sparseDenom))
  -- `filter_predicate_for_batch` (optimize() or not gives the same selection)
  let pred := Predicate.new c.useSlices mask
  if materialize then (pushBatch c s (filterRows rows pred), true)
  else
    let s := { s with inProgress := s.inProgress ++ copyBySelection rows pred,
                      bufferedRows := s.bufferedRows + selected }
    (if s.bufferedRows ≥ c.target then finishBuffered s else s, true)

/-- `next_completed_batch` -/
def nextCompleted {α : Type} (s : CState α) : CState α × Option (List α) :=
  match s.completed with
  | [] => (s, none)
  | b :: rest => ({ s with completed := rest }, some b)

/-- what one operation reports back -/
inductive Out (α : Type) where
  | unit
  | error
  | batch (b : Option (List α))

/-- row-level `take_record_batch(batch, indices)` used by `push_batch_with_indices`
(rows are atomic values `Option β`; a null index yields a null row) -/
def takeRows {β : Type} (rows : List (Option β)) (idx : List (Option Int)) : Option (List (Option β)) :=
  idx.mapM (fun
    | none => some none
    | some i => getIdx rows i)

/-- one operation of the coalescer.  Once `diverged`, nothing happens any more. -/
def step {β : Type} (c : Config) (s : CState (Option β)) (op : Op (Option β)) : CState (Option β) × Out (Option β) :=
  if s.diverged then (s, .unit) else
  match op with
  | .push rows => (pushBatch c s rows, .unit)
  | .pushFiltered rows mask =>
    let r := pushFiltered c s rows mask
    (r.1, if r.2 then .unit else .error)
  | .pushIndices rows idx =>
    match takeRows rows idx with
    | some taken => (pushBatch c s taken, .unit)
    | none => (s, .error)
  | .finish => (finishBuffered s, .unit)
  | .next => let r := nextCompleted s; (r.1, .batch r.2)

/-- run a history; returns the final state and the batches handed out by `next`, in order -/
def run {β : Type} (c : Config) : CState (Option β) → List (Op (Option β)) → CState (Option β) × List (List (Option β))
  | s, [] => (s, [])
  | s, op :: ops =>
    let r := step c s op
    let rest := run c r.1 ops
    (rest.1, (match r.2 with | .batch (some b) => [b] | _ => []) ++ rest.2)

end ArrowModel.C03
