/-
C03 — algorithm model of the selection kernels of `arrow-select` and of the
`BatchCoalescer`, at the level of value lists + validity lists (the bit-packed layer below
is property C19's).  Every function names the Rust function it mirrors.

An array is `Arr α`: a values buffer `vals` plus an optional validity buffer `nulls`
(`true` = valid, `none` = no null buffer); `decode` is the abstraction function to the
logical column `List (Option α)`.
-/
import ArrowModel.C03.Spec
import ArrowModel.Generated.C03
namespace ArrowModel.C03

/-- physical array: values + optional validity bitmap (same length as `vals`) -/
structure Arr (α : Type) where
  vals : List α
  nulls : Option (List Bool)

instance {α : Type} : Inhabited (Arr α) := ⟨{ vals := [], nulls := none }⟩

/-- logical content of an array -/
def decodeWith {α : Type} : List α → List Bool → List (Option α)
  | v :: vs, b :: bs => (if b then some v else none) :: decodeWith vs bs
  | _, _ => []

def Arr.decode {α : Type} (a : Arr α) : List (Option α) :=
  match a.nulls with
  | none => a.vals.map some
  | some bs => decodeWith a.vals bs

def Arr.len {α : Type} (a : Arr α) : Nat := a.vals.length

/-- `BooleanBuffer::count_set_bits` -/
def countSet (bs : List Bool) : Nat := (bs.filter id).length

/-- `NullBuffer::null_count` -/
def nullCount (bs : List Bool) : Nat := bs.length - countSet bs

/-! ### filter.rs -/

/-- `prep_null_mask_filter` / the `match filter.null_count()` of `FilterBuilder::new_with_count`:
`values & validity`.  A predicate is given as `List (Option Bool)` (validity folded in). -/
def prepMask (p : List (Option Bool)) : List Bool := p.map (fun b => b == some true)

/-- `BooleanArray::true_count` -/
def trueCount (p : List (Option Bool)) : Nat := countSet (prepMask p)

/-- `SlicesIterator` / `BitSliceIterator`: maximal runs `[start, end)` of set bits.
`i` = current position, `cur` = start of the run being extended. -/
def slicesAux : List Bool → Nat → Option Nat → List (Nat × Nat)
  | [], i, some s => [(s, i)]
  | [], _, none => []
  | true :: bs, i, some s => slicesAux bs (i + 1) (some s)
  | true :: bs, i, none => slicesAux bs (i + 1) (some i)
  | false :: bs, i, some s => (s, i) :: slicesAux bs (i + 1) none
  | false :: bs, i, none => slicesAux bs (i + 1) none

def slicesOf (m : List Bool) : List (Nat × Nat) := slicesAux m 0 none

/-- `BitIndexIterator`: positions of set bits, ascending -/
def indicesAux : List Bool → Nat → List Nat
  | [], _ => []
  | true :: bs, i => i :: indicesAux bs (i + 1)
  | false :: bs, i => indicesAux bs (i + 1)

/-- `IndexIterator::new(filter, remaining)`: yields exactly `remaining` indices
(it would panic on early exhaustion; `remaining` is always the true count) -/
def indexIter (m : List Bool) (remaining : Nat) : List Nat := (indicesAux m 0).take remaining

/-- `IterationStrategy` -/
inductive Strategy where
  | slicesIterator
  | indexIterator
  | indices (ix : List Nat)
  | slices (sl : List (Nat × Nat))
  | all
  | none
  deriving Repr, DecidableEq

/-- `IterationStrategy::default_strategy(filter_length, filter_count)`.
`useSlices len count` stands for the `f64` test
`count as f64 / len as f64 > FILTER_SLICES_SELECTIVITY_THRESHOLD`; it is a parameter so that
the theorems hold for every heuristic. -/
def defaultStrategy (useSlices : Nat → Nat → Bool) (len count : Nat) : Strategy :=
  if len = 0 ∨ count = 0 then .none
  else if count = len then .all
  else if useSlices len count then .slicesIterator
  else .indexIterator

/-- the heuristic as written (exact rational comparison instead of `f64` division) -/
def useSlicesRepo (len count : Nat) : Bool :=
  decide (count * Generated.C03.FILTER_SLICES_SELECTIVITY_THRESHOLD_den >
          Generated.C03.FILTER_SLICES_SELECTIVITY_THRESHOLD_num * len)

/-- `FilterPredicate { filter, count, strategy }` -/
structure Predicate where
  filter : List Bool
  count : Nat
  strategy : Strategy

/-- `FilterBuilder::new_with_count(filter, count)` + `.build()` -/
def Predicate.new (useSlices : Nat → Nat → Bool) (p : List (Option Bool)) : Predicate :=
  let f := prepMask p
  let c := trueCount p
  { filter := f, count := c, strategy := defaultStrategy useSlices f.length c }

/-- `FilterBuilder::optimize` -/
def Predicate.optimize (p : Predicate) : Predicate :=
  match p.strategy with
  | .slicesIterator => { p with strategy := .slices (slicesOf p.filter) }
  | .indexIterator => { p with strategy := .indices (indexIter p.filter p.count) }
  | _ => p

/-- `values.get_unchecked(start..end)` appended -/
def copyRange {α : Type} (vals : List α) (se : Nat × Nat) : List α := (vals.drop se.1).take (se.2 - se.1)

/-- `filter_native(values, predicate)` (strategies `All`/`None` are `unreachable!()` there;
the model returns `[]`) -/
def filterNative {α : Type} [Inhabited α] (vals : List α) (p : Predicate) : List α :=
  match p.strategy with
  | .slicesIterator => (slicesOf p.filter).flatMap (copyRange vals)
  | .slices sl => sl.flatMap (copyRange vals)
  | .indexIterator => (indexIter p.filter p.count).map (fun i => vals.getD i default)
  | .indices ix => ix.map (fun i => vals.getD i default)
  | .all => []
  | .none => []

/-- `filter_bits(buffer, predicate)`: the same selection on a bitmap -/
def filterBits (bits : List Bool) (p : Predicate) : List Bool :=
  match p.strategy with
  | .slicesIterator => (slicesOf p.filter).flatMap (copyRange bits)
  | .slices sl => sl.flatMap (copyRange bits)
  | .indexIterator => (indexIter p.filter p.count).map (fun i => bits.getD i false)
  | .indices ix => ix.map (fun i => bits.getD i false)
  | .all => []
  | .none => []

/-- `FilterPredicate::filter_nulls(nulls)` -/
def filterNulls (nulls : Option (List Bool)) (p : Predicate) : Option (List Bool) :=
  match nulls with
  | none => none
  | some bs =>
    if nullCount bs = 0 then none else
    let out := filterBits bs p
    -- "the filtered nulls has a length of self.count bits"
    let nc := p.count - countSet (out.take p.count)
    if nc = 0 then none else some (out.take p.count)

/-- `filter_primitive(array, predicate)` -/
def filterPrimitive {α : Type} [Inhabited α] (a : Arr α) (p : Predicate) : Arr α :=
  { vals := (filterNative a.vals p).take p.count, nulls := filterNulls a.nulls p }

/-- `Array::slice(offset, len)` -/
def Arr.slice {α : Type} (a : Arr α) (off len : Nat) : Arr α :=
  { vals := (a.vals.drop off).take len, nulls := a.nulls.map (fun b => (b.drop off).take len) }

/-- `filter_array(values, predicate)` for a primitive array.  `none` = `Err(InvalidArgumentError)`. -/
def filterArray {α : Type} [Inhabited α] (a : Arr α) (p : Predicate) : Option (Arr α) :=
  if p.filter.length > a.len then none else
  match p.strategy with
  | .none => some { vals := [], nulls := none }
  | .all => some (a.slice 0 p.count)
  | _ => some (filterPrimitive a p)

/-- `filter(values, predicate)` / `FilterBuilder::new(p)[.optimize()].build().filter(values)` -/
def filterKernel {α : Type} [Inhabited α] (useSlices : Nat → Nat → Bool) (opt : Bool)
    (a : Arr α) (p : List (Option Bool)) : Option (Arr α) :=
  let pr := Predicate.new useSlices p
  filterArray a (if opt then pr.optimize else pr)

/-! ### take.rs -/

/-- outcome of a kernel that can fail in two ways -/
inductive Res (α : Type) where
  | ok (a : α)
  /-- `Err(ArrowError::ComputeError)` from `check_bounds` -/
  | err
  /-- a Rust panic (index out of bounds without `check_bounds`) -/
  | panic
  deriving Repr

/-- `values.get(index.as_usize())`: a negative index wraps to ≥ 2^63, beyond any slice -/
def getIdx {α : Type} (vals : List α) (i : Int) : Option α :=
  if i < 0 then none else vals[i.toNat]?

/-- index array: raw values (whatever sits under a null slot is arbitrary) + validity -/
abbrev IdxArr := Arr Int

/-- `n.null_count() > 0` filter used by `take_native`/`take_bits`/`take_nulls` -/
def nullsIfAny (n : Option (List Bool)) : Option (List Bool) :=
  match n with
  | some bs => if nullCount bs > 0 then some bs else none
  | none => none

/-- `take_native(values, indices)`; `none` = panic -/
def takeNative {α : Type} [Inhabited α] (vals : List α) (idx : IdxArr) : Option (List α) :=
  match nullsIfAny idx.nulls with
  | some n =>
    (List.zip idx.vals n).mapM (fun (iv : Int × Bool) =>
      match getIdx vals iv.1 with
      | some v => some v
      | none => if iv.2 then none else some default)
  | none => idx.vals.mapM (fun i => getIdx vals i)

/-- `take_bits(values, indices)`; `none` = panic (`BooleanBuffer::value` asserts the bound) -/
def takeBits (bits : List Bool) (idx : IdxArr) : Option (List Bool) :=
  match nullsIfAny idx.nulls with
  | some n =>
    (List.zip idx.vals n).mapM (fun (iv : Int × Bool) =>
      if iv.2 then getIdx bits iv.1 else some false)
  | none => idx.vals.mapM (fun i => getIdx bits i)

/-- `take_nulls(values_nulls, indices)`; outer `none` = panic.
`NullBuffer::from_unsliced_buffer` drops an all-valid result. -/
def takeNulls (nulls : Option (List Bool)) (idx : IdxArr) : Option (Option (List Bool)) :=
  match nullsIfAny nulls with
  | some n =>
    match takeBits n idx with
    | some out => some (if nullCount out = 0 then none else some out)
    | none => none
  | none => some idx.nulls

/-- `check_bounds(len, indices)`.  `maxIdx` = largest value of the index type: when `len`
is not representable (`T::Native::from_usize(len)` fails) the check is skipped. -/
def checkBounds (maxIdx : Nat) (len : Nat) (idx : IdxArr) : Bool :=
  if len > maxIdx then true else
  match nullsIfAny idx.nulls with
  | some n => (List.zip idx.vals n).all (fun iv => !iv.2 || decide (iv.1 < (len : Int)))
  | none => idx.vals.all (fun i => decide (0 ≤ i) && decide (i < (len : Int)))

/-- `take(values, indices, options)` on a primitive array: `check_bounds`, then `take_impl`
→ `take_primitive` = `take_native` + `take_nulls`. -/
def takeKernel {α : Type} [Inhabited α] (maxIdx : Nat) (check : Bool) (a : Arr α) (idx : IdxArr) : Res (Arr α) :=
  if check && !checkBounds maxIdx a.len idx then .err else
  if idx.vals.isEmpty then .ok { vals := [], nulls := none } else
  match takeNative a.vals idx, takeNulls a.nulls idx with
  | some v, some n => .ok { vals := v, nulls := n }
  | _, _ => .panic

/-! ### concat.rs / interleave.rs / window.rs / nullif.rs -/

/-- validity to append for one input (`append_array`: `append_buffer` or `append_n_non_nulls`) -/
def validityOf {α : Type} (a : Arr α) : List Bool :=
  match a.nulls with
  | some b => b
  | none => List.replicate a.len true

/-- `NullBufferBuilder::finish`: no buffer is materialised when no null was appended -/
def finishNulls (bs : List Bool) : Option (List Bool) := if nullCount bs = 0 then none else some bs

/-- `concat_primitives`: `PrimitiveBuilder::append_array` for every input -/
def concatPrimitive {α : Type} (arrs : List (Arr α)) : Arr α :=
  { vals := (arrs.map (·.vals)).flatten, nulls := finishNulls (arrs.map validityOf).flatten }

/-- `interleave_primitive` + `Interleave::new` (nulls only when some input has nulls);
`none` = panic (index out of range). -/
def interleavePrimitive {α : Type} (arrs : List (Arr α)) (idx : List (Nat × Nat)) : Option (Arr α) :=
  let hasNulls := arrs.any (fun a => match a.nulls with | some b => decide (nullCount b ≠ 0) | none => false)
  match idx.mapM (fun p => (arrs[p.1]?).bind (fun a => a.vals[p.2]?)),
        idx.mapM (fun p => (arrs[p.1]?).bind (fun a => (validityOf a)[p.2]?)) with
  | some v, some n => some { vals := v, nulls := if hasNulls then some n else none }
  | _, _ => none

/-- `new_null_array(type, n)` -/
def nullArr {α : Type} [Inhabited α] (n : Nat) : Arr α :=
  { vals := List.replicate n default, nulls := some (List.replicate n false) }

/-- `shift(array, offset)` (window.rs) -/
def shiftKernel {α : Type} [Inhabited α] (a : Arr α) (offset : Int) : Arr α :=
  let len := a.len
  if offset = 0 then a
  else if offset.natAbs ≥ len then nullArr len
  else if offset > 0 then
    let k := offset.toNat
    concatPrimitive [nullArr k, a.slice 0 (len - k)]
  else
    let k := (-offset).toNat
    concatPrimitive [a.slice k (len - k), nullArr k]

/-- `nullif(left, right)`: validity `left & !(right_values & right_validity)`; `none` = length mismatch -/
def nullifKernel {α : Type} (a : Arr α) (r : List (Option Bool)) : Option (Arr α) :=
  if a.len ≠ r.length then none else
  if a.len = 0 then some a else
  let rm := prepMask r
  some { vals := a.vals, nulls := some (List.zipWith (fun l m => l && !m) (validityOf a) rm) }


/-! ### variable-width (byte) arrays: filter.rs `FilterBytes`, take.rs `take_bytes`,
concat.rs `concat_bytes`, interleave.rs `interleave_bytes` -/

/-- physical `GenericByteArray`: `offsets` (len + 1 entries, absolute positions in `data`,
the first one need not be 0 for a sliced array), the value bytes, optional validity -/
structure BArr where
  offsets : List Nat
  data : List Nat
  nulls : Option (List Bool)

def BArr.len (b : BArr) : Nat := b.offsets.length - 1

/-- `array.value(i)`: bytes `[offsets[i], offsets[i+1])` -/
def slotOf (offsets data : List Nat) (i : Nat) : List Nat :=
  copyRange data (offsets.getD i 0, offsets.getD (i + 1) 0)

def BArr.slots (b : BArr) : List (List Nat) := (List.range b.len).map (slotOf b.offsets b.data)

/-- the array of slot values with the same validity: byte kernels are compared with the
primitive kernels on this view -/
def BArr.view (b : BArr) : Arr (List Nat) := { vals := b.slots, nulls := b.nulls }

def BArr.decode (b : BArr) : List (Option (List Nat)) := b.view.decode

/-- `FilterBytes::extend_offsets_idx`: `cur_offset += len(idx); push(cur_offset)` -/
def extendOffsetsIdx (src : List Nat) : List Nat → Nat → List Nat
  | [], _ => []
  | i :: is, cur =>
    let c := cur + (src.getD (i + 1) 0 - src.getD i 0)
    c :: extendOffsetsIdx src is c

/-- `FilterBytes::extend_idx`: `dst_values.extend_from_slice(&src_values[start..end])` per index -/
def extendIdx (src data : List Nat) (idx : List Nat) : List Nat :=
  idx.flatMap (fun i => copyRange data (src.getD i 0, src.getD (i + 1) 0))

/-- `FilterBytes::extend_offsets_slices`: the same per-row offset pushes, row by row inside each run -/
def extendOffsetsSlices (src : List Nat) (sl : List (Nat × Nat)) : List Nat :=
  extendOffsetsIdx src (sl.flatMap (fun se => (List.range (se.2 - se.1)).map (· + se.1))) 0

/-- `FilterBytes::extend_slices`: one contiguous copy `src_values[off[start]..off[end]]` per run -/
def extendSlices (src data : List Nat) (sl : List (Nat × Nat)) : List Nat :=
  sl.flatMap (fun se => copyRange data (src.getD se.1 0, src.getD se.2 0))

/-- `filter_bytes(array, predicate)` (strategies `All`/`None` never reach it) -/
def filterBytes (b : BArr) (p : Predicate) : BArr :=
  let od : List Nat × List Nat :=
    match p.strategy with
    | .slicesIterator => (extendOffsetsSlices b.offsets (slicesOf p.filter), extendSlices b.offsets b.data (slicesOf p.filter))
    | .slices sl => (extendOffsetsSlices b.offsets sl, extendSlices b.offsets b.data sl)
    | .indexIterator => (extendOffsetsIdx b.offsets (indexIter p.filter p.count) 0, extendIdx b.offsets b.data (indexIter p.filter p.count))
    | .indices ix => (extendOffsetsIdx b.offsets ix 0, extendIdx b.offsets b.data ix)
    | _ => ([], [])
  { offsets := 0 :: od.1, data := od.2, nulls := filterNulls b.nulls p }

/-- `Array::slice(0, count)` of a byte array (strategy `All`): offsets are shared, not rebased -/
def BArr.slice0 (b : BArr) (n : Nat) : BArr :=
  { offsets := b.offsets.take (n + 1), data := b.data, nulls := b.nulls.map (·.take n) }

/-- `filter_array` for a byte array; `none` = rejected predicate -/
def filterBytesKernel (useSlices : Nat → Nat → Bool) (opt : Bool) (b : BArr) (mask : List (Option Bool)) : Option BArr :=
  let pr := Predicate.new useSlices mask
  let p := if opt then pr.optimize else pr
  if p.filter.length > b.len then none else
  match p.strategy with
  | .none => some { offsets := [0], data := [], nulls := none }
  | .all => some (b.slice0 p.count)
  | _ => some (filterBytes b p)

/-- `take_bytes`, fast path (no null in the output): offsets from the running capacity, bytes
copied per index.  `none` = panic (index out of range). -/
def takeBytesDense (b : BArr) (idx : List Int) : Option (List Nat × List Nat) :=
  if idx.all (fun i => decide (0 ≤ i) && decide (i.toNat < b.len)) then
    let ix := idx.map Int.toNat
    some (0 :: extendOffsetsIdx b.offsets ix 0, extendIdx b.offsets b.data ix)
  else none

/-- `take_bytes`, nullable path, pass 1 as written: `offsets` pre-filled with zeros, valid output
positions `i` back-fill `offsets[last_filled+1..=i]` with the current capacity and set
`offsets[i+1]`; state = (offsets, capacity, last_filled, ranges). -/
def takeBytesSparseLoop (b : BArr) (idx : List Int) :
    List Nat → List Nat × Nat × Nat × List (Nat × Nat) → Option (List Nat × Nat × Nat × List (Nat × Nat))
  | [], st => some st
  | i :: is, (offs, cap, lastFilled, ranges) =>
    match idx[i]? with
    | none => none
    | some raw =>
      if raw < 0 ∨ raw.toNat ≥ b.len then none else
      let index := raw.toNat
      let start := b.offsets.getD index 0
      let stop := b.offsets.getD (index + 1) 0
      -- offsets[last_filled + 1 ..= i].fill(current_offset)
      let offs := if lastFilled < i then
          offs.mapIdx (fun k o => if lastFilled + 1 ≤ k ∧ k ≤ i then cap else o) else offs
      let cap' := cap + (stop - start)
      let offs := offs.set (i + 1) cap'
      takeBytesSparseLoop b idx is (offs, cap', i + 1, ranges ++ [(start, stop)])

/-- `take_bytes`, nullable path: `outNulls` = validity of the output (from `take_nulls`) -/
def takeBytesSparse (b : BArr) (idx : List Int) (outNulls : List Bool) : Option (List Nat × List Nat) :=
  let n := idx.length
  let validIdx := (List.range n).filter (fun i => outNulls.getD i false)
  match takeBytesSparseLoop b idx validIdx (List.replicate (n + 1) 0, 0, 0, []) with
  | none => none
  | some (offs, cap, lastFilled, ranges) =>
    -- offsets[last_filled + 1..].fill(final_offset)
    let offs := offs.mapIdx (fun k o => if lastFilled + 1 ≤ k then cap else o)
    some (offs, ranges.flatMap (copyRange b.data))

/-- `take_bytes(array, indices)`; `none` = panic -/
def takeBytes (b : BArr) (idx : IdxArr) : Option BArr :=
  if idx.vals.isEmpty then some { offsets := [0], data := [], nulls := none } else
  match takeNulls b.nulls idx with
  | none => none
  | some nulls =>
    match nullsIfAny nulls with
    | none => (takeBytesDense b idx.vals).map (fun od => { offsets := od.1, data := od.2, nulls := nulls })
    | some outNulls => (takeBytesSparse b idx.vals outNulls).map (fun od => { offsets := od.1, data := od.2, nulls := nulls })

/-- `concat_bytes` = `GenericByteBuilder::append_array` per input: offsets shifted by
`next_offset - offsets[0]`, bytes `[offsets[0], offsets[len])` appended; empty inputs skipped -/
def concatBytesStep (acc : List Nat × List Nat × List Bool) (b : BArr) : List Nat × List Nat × List Bool :=
  if b.len = 0 then acc else
  let next := acc.1.getLastD 0
  let first := b.offsets.getD 0 0
  let last := b.offsets.getD b.len 0
  (acc.1 ++ (b.offsets.drop 1).map (fun o => o + next - first),
   acc.2.1 ++ copyRange b.data (first, last),
   acc.2.2 ++ (match b.nulls with | some n => n | none => List.replicate b.len true))

def concatBytes (arrs : List BArr) : BArr :=
  let r := arrs.foldl concatBytesStep ([0], [], [])
  { offsets := r.1, data := r.2.1, nulls := finishNulls r.2.2 }

/-- `interleave_bytes`; `none` = panic -/
def interleaveBytes (arrs : List BArr) (idx : List (Nat × Nat)) : Option BArr :=
  if idx.isEmpty then some { offsets := [0], data := [], nulls := none } else
  let hasNulls := arrs.any (fun a => match a.nulls with | some b => decide (nullCount b ≠ 0) | none => false)
  match idx.mapM (fun p => (arrs[p.1]?).bind (fun a => if p.2 < a.len then some (slotOf a.offsets a.data p.2) else none)),
        idx.mapM (fun p => (arrs[p.1]?).bind (fun a => (match a.nulls with | some n => n | none => List.replicate a.len true)[p.2]?)) with
  | some sl, some n =>
    some { offsets := 0 :: (sl.foldl (fun (acc : List Nat × Nat) s => (acc.1 ++ [acc.2 + s.length], acc.2 + s.length)) ([], 0)).1,
           data := sl.flatten, nulls := if hasNulls then some n else none }
  | _, _ => none


/-! ### offset-based nested arrays: concat.rs `concat_lists` / `concat_maps`

A List / LargeList / Map array is a `BArr` whose `data` are the child rows (values / entries). -/

/-- `offsets.last()` -/
def BArr.lastOffset (l : BArr) : Nat := l.offsets.getD l.len 0

/-- `list_has_slices` / `map_has_slices` contribution of one input:
`offsets[0] > 0 || offsets.last() < child.len()` -/
def listHasSlices (l : BArr) : Bool :=
  decide (l.offsets.getD 0 0 > 0) || decide (l.lastOffset < l.data.length)

/-- `child.slice(start_offset, end_offset - start_offset)`: the child range the input refers to -/
def referencedChild (l : BArr) : List Nat := copyRange l.data (l.offsets.getD 0 0, l.lastOffset)

/-- `OffsetBuffer::lengths()` -/
def offsetLengths (o : List Nat) : List Nat :=
  (List.range (o.length - 1)).map (fun i => o.getD (i + 1) 0 - o.getD i 0)

/-- `OffsetBuffer::from_lengths` (without the leading 0) -/
def fromLengths : List Nat → Nat → List Nat
  | [], _ => []
  | n :: ns, cur => (cur + n) :: fromLengths ns (cur + n)

/-- `concat_lists` / `concat_maps`: the children are re-sliced to the referenced ranges as soon as
ANY input is a slice (non-zero first offset, or child rows past the last offset); offsets are
rebuilt from the slot lengths; validity is materialised when some input has nulls -/
def concatLists (ls : List BArr) : BArr :=
  let children := if ls.any listHasSlices then ls.map referencedChild else ls.map (·.data)
  let hasNulls := ls.any (fun a => match a.nulls with | some b => decide (nullCount b ≠ 0) | none => false)
  { offsets := 0 :: fromLengths (ls.flatMap (fun l => offsetLengths l.offsets)) 0,
    data := children.flatten,
    nulls := if hasNulls then some (ls.flatMap (fun a => match a.nulls with | some n => n | none => List.replicate a.len true)) else none }

/-! ### fixed-size binary: `filter_fixed_size_binary`, `take_fixed_size_binary` -/

/-- value bytes of slot `i` of a `FixedSizeBinary(w)` buffer -/
def fsbSlot (w : Nat) (data : List Nat) (i : Nat) : List Nat := copyRange data (i * w, (i + 1) * w)

/-- `filter_fixed_size_binary`: byte ranges `[start*w, end*w)` per run / `[i*w, (i+1)*w)` per index -/
def filterFsb (w : Nat) (data : List Nat) (nulls : Option (List Bool)) (p : Predicate) : List Nat × Option (List Bool) :=
  let d := match p.strategy with
    | .slicesIterator => (slicesOf p.filter).flatMap (fun se => copyRange data (se.1 * w, se.2 * w))
    | .slices sl => sl.flatMap (fun se => copyRange data (se.1 * w, se.2 * w))
    | .indexIterator => (indexIter p.filter p.count).flatMap (fsbSlot w data)
    | .indices ix => ix.flatMap (fsbSlot w data)
    | _ => []
  (d, filterNulls nulls p)

/-- `take_fixed_size_binary` (`take_fixed_size::<N>` and the dynamic-length variant agree):
a null index slot contributes `w` zero bytes; validity = `take_nulls(values) ∪ indices.nulls` -/
def takeFsb (w : Nat) (data : List Nat) (n : Nat) (nulls : Option (List Bool)) (idx : IdxArr) : Option (List Nat × Option (List Bool)) :=
  let pairs := match idx.nulls with
    | some v => List.zip idx.vals v
    | none => idx.vals.map (fun i => (i, true))
  match pairs.mapM (fun (iv : Int × Bool) =>
          if iv.2 then (if 0 ≤ iv.1 ∧ iv.1.toNat < n then some (fsbSlot w data iv.1.toNat) else none)
          else some (if 0 ≤ iv.1 ∧ iv.1.toNat < n ∧ (nullsIfAny idx.nulls).isSome ∧ w ∈ [1, 2, 4, 8, 16]
                     then fsbSlot w data iv.1.toNat else List.replicate w 0)),
        takeNulls nulls idx with
  | some d, some vn =>
    let a := match vn with | some x => x | none => List.replicate idx.vals.length true
    let b := match idx.nulls with | some x => x | none => List.replicate idx.vals.length true
    let u := List.zipWith (· && ·) a b
    some (d.flatten, if vn.isNone ∧ idx.nulls.isNone then none else some u)
  | _, _ => none

/-- `take_value_indices_from_fixed_size_list` (with the in-kernel bounds test): child indices
`[index*len, (index+1)*len)` per valid index, `len` nulls per null index; `none` = `ComputeError` -/
def takeValueIndicesFsl (listLen size : Nat) (idx : List (Option Int)) : Option (List (Option Nat)) :=
  (idx.mapM (fun (x : Option Int) =>
    match x with
    | none => some (List.replicate size (none : Option Nat))
    | some i => if i < 0 ∨ i.toNat ≥ listLen then none
                else some ((List.range size).map (fun j => some (i.toNat * size + j))))).map List.flatten

/-! ### run-end encoded: `filter_run_end_array` -/

/-- `RunEndBuffer::get_physical_index(i)`: first run whose end exceeds `offset + i` -/
def physIndex (ends : List Nat) (offset i : Nat) : Nat := (ends.takeWhile (fun e => e ≤ offset + i)).length

/-- the `collect_bool` closure of `filter_run_end_array`, run by run: `(count, keep)` per physical run -/
def reeLoop (offset : Nat) (f : List Bool) : List Nat → Nat → Nat → List (Nat × Bool)
  | [], _, _ => []
  | e :: es, start, count =>
    let stop := min (e - offset) f.length
    let seg := (f.drop start).take (stop - start)
    let count' := count + countSet seg
    (count', seg.any id) :: reeLoop offset f es stop count'

/-- `filter_run_end_array`: new run ends + the predicate applied to the physical values
(`ends`/`vals` = physical runs, `offset`/`len` = logical slice, `f` = prepared mask) -/
def filterRee {α : Type} [Inhabited α] (useSlices : Nat → Nat → Bool) (ends : List Nat) (vals : Arr α)
    (offset len : Nat) (f : List Bool) : Option (List Nat × Arr α) :=
  let sp := if offset = 0 ∨ len = 0 then 0 else physIndex ends offset 0
  let ep := if len = 0 then 0 else physIndex ends offset (len - 1)
  let physLen := ep - sp + 1
  let steps := reeLoop offset f ((ends.drop sp).take physLen) 0 0
  let newEnds := (steps.filter (·.2)).map (·.1)
  let pred := steps.map (fun s => some s.2)
  (filterKernel useSlices false (vals.slice sp physLen) pred).map (fun v => (newEnds, v))

/-! ### zip.rs / merge.rs -/

/-- rows `[a, b)` of an operand: a scalar repeats its single row -/
def operandRows {α : Type} (rows : List α) (scalar : Bool) (a b : Nat) : List α :=
  if scalar then (List.replicate (b - a) (rows.head?)).filterMap id else copyRange rows (a, b)

/-- `zip_impl`: truthy runs from `SlicesIterator`, gaps (and the tail) from falsy -/
def zipRun {α : Type} (t : List α) (ts : Bool) (f : List α) (fs : Bool) (n : Nat) : List (Nat × Nat) → Nat → List α
  | [], filled => if filled < n then operandRows f fs filled n else []
  | (s, e) :: rest, filled =>
    (if s > filled then operandRows f fs filled s else []) ++ operandRows t ts s e ++ zipRun t ts f fs n rest e

def zipModel {α : Type} (mask : List (Option Bool)) (t : List α) (ts : Bool) (f : List α) (fs : Bool) : List α :=
  zipRun t ts f fs mask.length (slicesOf (prepMask mask)) 0

/-- `PrimitiveScalarImpl::create_output` (both operands scalars of a primitive type) -/
def zipScalars {α : Type} [Inhabited α] (mask : List (Option Bool)) (t f : Option α) : Arr α :=
  let p := prepMask mask
  match t, f with
  | some tv, some fv => { vals := p.map (fun b => if b then tv else fv), nulls := none }
  | some tv, none => { vals := List.replicate p.length tv, nulls := some p }
  | none, some fv => { vals := List.replicate p.length fv, nulls := some (p.map (!·)) }
  | none, none => { vals := List.replicate p.length default, nulls := some (List.replicate p.length false) }

/-- `merge`: like `zip_impl` but each operand is consumed sequentially (`truthy_offset`/`falsy_offset`) -/
def mergeRun {α : Type} (t : List α) (ts : Bool) (f : List α) (fs : Bool) (n : Nat) :
    List (Nat × Nat) → Nat → Nat → Nat → List α
  | [], filled, _, fo => if filled < n then operandRows f fs (if fs then filled else fo) (if fs then n else fo + (n - filled)) else []
  | (s, e) :: rest, filled, to, fo =>
    let gap := if s > filled then s - filled else 0
    (if s > filled then operandRows f fs fo (fo + gap) else []) ++ operandRows t ts to (to + (e - s))
      ++ mergeRun t ts f fs n rest e (to + (e - s)) (fo + gap)

def mergeModel {α : Type} (mask : List (Option Bool)) (t : List α) (ts : Bool) (f : List α) (fs : Bool) : List α :=
  mergeRun t ts f fs mask.length (slicesOf (prepMask mask)) 0 0 0

/-- `merge_n`: maximal runs of equal indices, each copied as one range; `take_offsets` per array -/
def mergeNRun {α : Type} (arrs : List (List (Option α))) : Nat → List (Option Nat) → List Nat → Option (List (Option α))
  | 0, _, _ => some []
  | _, [], _ => some []
  | fuel + 1, ix :: rest, offs =>
    let runLen := 1 + (rest.takeWhile (· == ix)).length
    let rest' := rest.drop (runLen - 1)
    match ix with
    | none => (mergeNRun arrs fuel rest' offs).map (List.replicate runLen none ++ ·)
    | some k =>
      let start := offs.getD k 0
      match arrs[k]? with
      | none => none
      | some a =>
        if start + runLen > a.length then none else
        (mergeNRun arrs fuel rest' (offs.set k (start + runLen))).map (copyRange a (start, start + runLen) ++ ·)


/-! ### dictionary.rs: `merge_dictionary_values` (value level) -/

abbrev Bytes := List Nat

/-- a dictionary array at value level: keys (`none` = null key) and the VALUES array, each slot
`some bytes` or `none` (= a null slot, whatever bytes lie under it) -/
structure Dict where
  keys : List (Option Nat)
  values : List (Option Bytes)

/-- logical column: a row is null when its key is null OR the value slot it points at is null -/
def Dict.decode (d : Dict) : List (Option Bytes) :=
  d.keys.map (fun k => k.bind (fun i => (d.values[i]?).join))

/-- `compute_values_mask`: the value slots referenced by a valid key at a selected position -/
def valuesMask (d : Dict) (mask : Option (List Bool)) : List Bool :=
  (List.range d.values.length).map (fun v =>
    (List.range d.keys.length).any (fun i =>
      d.keys[i]? == some (some v) && (match mask with | some m => m.getD i false | none => true)))

/-- `get_masked_values` / `masked_bytes`: `(idx, array.is_valid(idx).then_some(array.value(idx)))`
for every set index — a null slot is interned as `None`, never by the bytes under it -/
def maskedValues (d : Dict) (vm : List Bool) : List (Nat × Option Bytes) :=
  (indicesAux vm 0).map (fun v => (v, (d.values[v]?).join))

/-- state of the merge: `Interner` buckets (`bucket ↦ (current value, new key)`, hash collisions
replace the bucket) and the `indices` (dictionary, value slot) of the merged values so far -/
structure MergeState where
  buckets : List (Nat × (Option Bytes × Nat))
  indices : List (Nat × Nat)

/-- `Interner::intern(value, || { indices.push((dictionary_idx, value_idx)); indices.len() })`.
`hash` is an arbitrary bucket function; `none` = `DictionaryKeyOverflowError`.
The comparison `*current != new` is on `Option<&[u8]>`: `None` is distinct from `Some("")`. -/
def internStep (hash : Option Bytes → Nat) (maxKey : Nat) (st : MergeState) (dIdx : Nat)
    (vv : Nat × Option Bytes) : Option (MergeState × Nat) :=
  let fresh : Option (MergeState × Nat) :=
    let n := st.indices.length
    if n > maxKey then none
    else some ({ buckets := (hash vv.2, (vv.2, n)) :: st.buckets, indices := st.indices ++ [(dIdx, vv.1)] }, n)
  match st.buckets.lookup (hash vv.2) with
  | some (cur, v) => if cur = vv.2 then some (st, v) else fresh
  | none => fresh

/-- the `for (value_idx, value) in values { mapping[value_idx] = intern(..) }` loop of one dictionary -/
def mapDict (hash : Option Bytes → Nat) (maxKey : Nat) (dIdx : Nat) :
    List (Nat × Option Bytes) → MergeState → List Nat → Option (MergeState × List Nat)
  | [], st, mapping => some (st, mapping)
  | vv :: rest, st, mapping =>
    match internStep hash maxKey st dIdx vv with
    | none => none
    | some (st', k) => mapDict hash maxKey dIdx rest st' (mapping.set vv.1 k)

/-- all dictionaries in order; `masks[i]` restricts the keys of dictionary `i` (interleave) -/
def mergeLoop (hash : Option Bytes → Nat) (maxKey : Nat) (masks : Option (List (List Bool))) :
    List Dict → Nat → MergeState → Option (MergeState × List (List Nat))
  | [], _, st => some (st, [])
  | d :: ds, dIdx, st =>
    let mask := masks.bind (·[dIdx]?)
    match mapDict hash maxKey dIdx (maskedValues d (valuesMask d mask)) st (List.replicate d.values.length 0) with
    | none => none
    | some (st', mapping) =>
      match mergeLoop hash maxKey masks ds (dIdx + 1) st' with
      | none => none
      | some (st'', mappings) => some (st'', mapping :: mappings)

/-- value of slot `(dictionary, value index)` — `interleave(&values_arrays, &indices)` row by row -/
def valAt (dicts : List Dict) (p : Nat × Nat) : Option Bytes :=
  ((dicts[p.1]?).bind (fun d => d.values[p.2]?)).join

/-- `merge_dictionary_values(dictionaries, masks)`: key mappings + merged values -/
def mergeDictionaryValues (hash : Option Bytes → Nat) (maxKey : Nat) (dicts : List Dict)
    (masks : Option (List (List Bool))) : Option (List (List Nat) × List (Option Bytes)) :=
  (mergeLoop hash maxKey masks dicts 0 { buckets := [], indices := [] }).map
    (fun r => (r.2, r.1.indices.map (valAt dicts)))

/-- `concat_dictionaries` on the merge path: keys remapped through `key_mappings`
(`mapping.get(key).unwrap_or_default()`), null keys kept -/
def concatDictionaries (hash : Option Bytes → Nat) (maxKey : Nat) (dicts : List Dict) : Option Dict :=
  (mergeDictionaryValues hash maxKey dicts none).map (fun r =>
    { keys := (List.zipWith (fun (d : Dict) (m : List Nat) => d.keys.map (Option.map (fun k => m.getD k 0))) dicts r.1).flatten,
      values := r.2 })

/-! ### coalesce.rs -/

/-- configuration of a `BatchCoalescer` -/
structure Config where
  /-- `target_batch_size` -/
  target : Nat
  /-- `biggest_coalesce_batch_size` -/
  limit : Option Nat
  /-- `has_non_specialized_filter_columns` -/
  nonSpecialized : Bool
  /-- `SPARSE_FILTER_COPY_MAX_SELECTIVITY_DENOMINATOR` -/
  sparseDenom : Nat
  /-- the slices-vs-indices heuristic of the filter kernel -/
  useSlices : Nat → Nat → Bool

/-- `BatchCoalescer` state: the rows inside `in_progress_arrays`, the separately tracked
`buffered_rows` counter, the `completed` queue; `diverged` records that `push_batch`'s
`while` loop can no longer make progress (`target_batch_size = 0`). -/
structure CState (α : Type) where
  inProgress : List α
  bufferedRows : Nat
  completed : List (List α)
  diverged : Bool

def CState.init {α : Type} : CState α := { inProgress := [], bufferedRows := 0, completed := [], diverged := false }

/-- `finish_buffered_batch` -/
def finishBuffered {α : Type} (s : CState α) : CState α :=
  if s.bufferedRows = 0 then s
  else { s with inProgress := [], bufferedRows := 0, completed := s.completed ++ [s.inProgress] }

/-- the loop `while num_rows > target - buffered_rows { copy_rows(offset, remaining); … finish }`
of `push_batch`; `rest` = the rows from `offset` on.  `none` = no progress possible
(`remaining_rows = 0`, the Rust loop spins forever). -/
def pushLoop {α : Type} (target : Nat) (s : CState α) (rest : List α) : Option (CState α × List α) :=
  let remaining := target - s.bufferedRows
  if _h : rest.length > remaining then
    if _hr : remaining = 0 then none
    else
      let s1 := { s with inProgress := s.inProgress ++ rest.take remaining,
                         bufferedRows := s.bufferedRows + remaining }
      pushLoop target (finishBuffered s1) (rest.drop remaining)
  else some (s, rest)
termination_by rest.length
decreasing_by simp; omega

/-- `push_batch(batch)` -/
def pushBatch {α : Type} (c : Config) (s : CState α) (batch : List α) : CState α :=
  let batchSize := batch.length
  if batchSize = 0 then s else
  -- large batch bypass
  if c.limit.any (fun limit => batchSize > limit) ∧ s.bufferedRows = 0 then
    { s with completed := s.completed ++ [batch] }                       -- case 1
  else if c.limit.any (fun limit => batchSize > limit ∧ s.bufferedRows > limit) then
    let s := finishBuffered s                                             -- case 2
    { s with completed := s.completed ++ [batch] }
  else
    match pushLoop c.target s batch with
    | none => { s with diverged := true }
    | some (s, rest) =>
      let s := { s with bufferedRows := s.bufferedRows + rest.length,
                        inProgress := if rest.length > 0 then s.inProgress ++ rest else s.inProgress }
      if s.bufferedRows ≥ c.target then finishBuffered s else s

/-- `FilterPredicate::selection()` consumed by `copy_rows_by_selection` / the primitive and
view `copy_rows_by_filter`: rows appended to the in-progress arrays -/
def copyBySelection {α : Type} (rows : List α) (p : Predicate) : List α :=
  match p.strategy with
  | .none => []
  | .all => copyRange rows (0, p.count)
  | .slicesIterator => (slicesOf p.filter).flatMap (copyRange rows)
  | .slices sl => sl.flatMap (copyRange rows)
  | .indexIterator => (indexIter p.filter p.count).flatMap (fun i => copyRange rows (i, i + 1))
  | .indices ix => ix.flatMap (fun i => copyRange rows (i, i + 1))

/-- rows of `predicate.filter_record_batch(batch)` (each column through `filter_array`);
a row is an atomic value here -/
def filterRows {α : Type} (rows : List α) (p : Predicate) : List α :=
  match p.strategy with
  | .none => []
  | .all => rows.take p.count
  | _ => copyBySelection rows p

/-- `push_batch_with_filter(batch, filter)` = `push_batch_with_filtered_columns`.
Second component `false` = `Err(InvalidArgumentError)` (state untouched). -/
def pushFiltered {α : Type} (c : Config) (s : CState α) (rows : List α) (mask : List (Option Bool)) : CState α × Bool :=
  let filterLen := mask.length
  let batchRows := rows.length
  if filterLen > batchRows then (s, false) else
  let selected := trueCount mask
  if selected = 0 then (s, true) else
  if selected = batchRows ∧ filterLen = batchRows then (pushBatch c s rows, true) else
  let exceeds := c.limit.any (fun limit => selected > limit)
  let doesNotFit := decide (selected > c.target - s.bufferedRows)
  let materialize := exceeds || c.nonSpecialized || doesNotFit
                      || !(decide (selected ≤ filterLen / c.sparseDenom))
  -- `filter_predicate_for_batch` (optimize() or not gives the same selection)
  let pred := Predicate.new c.useSlices mask
  if materialize then (pushBatch c s (filterRows rows pred), true)
  else
    let s := { s with inProgress := s.inProgress ++ copyBySelection rows pred,
                      bufferedRows := s.bufferedRows + selected }
    (if s.bufferedRows ≥ c.target then finishBuffered s else s, true)

/-- `next_completed_batch` -/
def nextCompleted {α : Type} (s : CState α) : CState α × Option (List α) :=
  match s.completed with
  | [] => (s, none)
  | b :: rest => ({ s with completed := rest }, some b)

/-- what one operation reports back -/
inductive Out (α : Type) where
  | unit
  | error
  | batch (b : Option (List α))

/-- row-level `take_record_batch(batch, indices)` used by `push_batch_with_indices`
(rows are atomic values `Option β`; a null index yields a null row) -/
def takeRows {β : Type} (rows : List (Option β)) (idx : List (Option Int)) : Option (List (Option β)) :=
  idx.mapM (fun
    | none => some none
    | some i => getIdx rows i)

/-- one operation of the coalescer.  Once `diverged`, nothing happens any more. -/
def step {β : Type} (c : Config) (s : CState (Option β)) (op : Op (Option β)) : CState (Option β) × Out (Option β) :=
  if s.diverged then (s, .unit) else
  match op with
  | .push rows => (pushBatch c s rows, .unit)
  | .pushFiltered rows mask =>
    let r := pushFiltered c s rows mask
    (r.1, if r.2 then .unit else .error)
  | .pushIndices rows idx =>
    match takeRows rows idx with
    | some taken => (pushBatch c s taken, .unit)
    | none => (s, .error)
  | .finish => (finishBuffered s, .unit)
  | .next => let r := nextCompleted s; (r.1, .batch r.2)

/-- run a history; returns the final state and the batches handed out by `next`, in order -/
def run {β : Type} (c : Config) : CState (Option β) → List (Op (Option β)) → CState (Option β) × List (List (Option β))
  | s, [] => (s, [])
  | s, op :: ops =>
    let r := step c s op
    let rest := run c r.1 ops
    (rest.1, (match r.2 with | .batch (some b) => [b] | _ => []) ++ rest.2)

end ArrowModel.C03
