import ArrowModel.Common.Proto
import ArrowModel.C03.Spec
import ArrowModel.C03.Model
/-
C03 driver: one case per line → one canonical answer per line.

Rows are small integer ids (`n` = null row); the harness builds the typed arrays from the
ids, so the model only reasons about row ids.  Answers are computed by the *algorithm model*
(for filter: under every iteration strategy, optimised and not) and compared with the
specification; a difference prints `MODEL-SPEC-MISMATCH`.
-/
namespace ArrowModel.C03
open ArrowModel.Proto

abbrev Row := Option Nat

def parseRow (s : String) : Option Row :=
  if s = "n" then some none else s.toNat?.map some

def parseRows (s : String) : Option (List Row) := parseList parseRow s

def showRow : Row → String
  | none => "n"
  | some k => toString k

def showRows (r : List Row) : String := showList showRow r

/-- predicate: `1` true, `0` false, `n` null -/
def parseMask (s : String) : Option (List (Option Bool)) :=
  if s = "-" then some [] else
  s.toList.mapM (fun c =>
    if c = '1' then some (some true) else if c = '0' then some (some false)
    else if c = 'n' then some none else none)

/-- index item: `<int>` valid, `n` / `n<int>` null slot (with the raw value stored under it) -/
def parseIdxItem (s : String) : Option (Int × Bool) :=
  match s.toList with
  | 'n' :: rest => if rest.isEmpty then some (0, false) else (parseInt (String.ofList rest)).map (fun i => (i, false))
  | _ => (parseInt s).map (fun i => (i, true))

def parseIdx (s : String) : Option (List (Int × Bool)) := parseList parseIdxItem s

def idxLogical (ix : List (Int × Bool)) : List (Option Int) := ix.map (fun p => if p.2 then some p.1 else none)

/-- physical representations of an index array (with / without a validity buffer when all valid) -/
def idxArrs (ix : List (Int × Bool)) : List IdxArr :=
  let withN : IdxArr := { vals := ix.map (·.1), nulls := some (ix.map (·.2)) }
  if ix.all (·.2) then [withN, { vals := ix.map (·.1), nulls := none }] else [withN]

/-- physical representations of a column of row ids -/
def mkArrs (rows : List Row) : List (Arr Nat) :=
  let withN : Arr Nat := { vals := rows.map (·.getD 0), nulls := some (rows.map (·.isSome)) }
  if rows.all (·.isSome) then [withN, { vals := rows.map (·.getD 0), nulls := none }]
  else [withN, { vals := rows.map (·.getD 7), nulls := some (rows.map (·.isSome)) }]

def maxIdxOf (ity : String) : Option Nat :=
  match ity with
  | "i8" => some (2 ^ 7 - 1) | "u8" => some (2 ^ 8 - 1)
  | "i16" => some (2 ^ 15 - 1) | "u16" => some (2 ^ 16 - 1)
  | "i32" => some (2 ^ 31 - 1) | "u32" => some (2 ^ 32 - 1)
  | "i64" => some (2 ^ 63 - 1) | "u64" => some (2 ^ 64 - 1)
  | _ => none

def mismatch (what model spec : String) : String :=
  s!"MODEL-SPEC-MISMATCH {what} model={model} spec={spec}"

/-- all model answers must equal the spec answer -/
def agree (what : String) (models : List String) (spec : String) : String :=
  match models.find? (· ≠ spec) with
  | some m => mismatch what m spec
  | none => spec

def heuristics : List (Nat → Nat → Bool) := [useSlicesRepo, fun _ _ => true, fun _ _ => false]

def showFilter (r : Option (Arr Nat)) : String :=
  match r with
  | some a => showRows a.decode
  | none => "ERR:arg"

def showRes (r : Res (Arr Nat)) : String :=
  match r with
  | .ok a => showRows a.decode
  | .err => "ERR:oob"
  | .panic => "FAIL"

def splitArrs (s : String) : Option (List (List Row)) :=
  if s = "-" then some [] else
  (s.splitOn ";").mapM (fun a =>
    match a.splitOn ":" with
    | [_off, rows] => parseRows rows
    | _ => none)

def parsePairs (s : String) : Option (List (Nat × Nat)) :=
  parseList (fun p => match p.splitOn "." with
    | [a, b] => match a.toNat?, b.toNat? with
      | some a, some b => some (a, b)
      | _, _ => none
    | _ => none) s

/-- zip operand: `a:<off>:<rows>` array, `s:<row>` scalar (broadcast to `n` rows) -/
def parseDatum (n : Nat) (s : String) : Option (List Row × Bool) :=
  match s.splitOn ":" with
  | ["a", _off, rows] => (parseRows rows).map (fun r => (r, false))
  | ["s", row] => (parseRow row).map (fun r => (List.replicate n r, true))
  | _ => none

/-! ### coalescer -/

def parseOp (s : String) : Option (Op Row) :=
  match s.splitOn ":" with
  | ["p", _off, rows] => (parseRows rows).map .push
  | ["f", _off, rows, _moff, mask] =>
    match parseRows rows, parseMask mask with
    | some r, some m => some (.pushFiltered r m)
    | _, _ => none
  | ["i", _ity, rows, idx] =>
    match parseRows rows, parseIdx idx with
    | some r, some ix => some (.pushIndices r (idxLogical ix))
    | _, _ => none
  | ["x"] => some .finish
  | ["n"] => some .next
  | _ => none

def showBatches (bs : List (List Row)) : String :=
  if bs.isEmpty then "-" else "|".intercalate (bs.map showRows)

/-- run the model over a history, recording what every `next` returned and which ops failed -/
def runObs (c : Config) : CState Row → Nat → List (Op Row) → CState Row × List String × List Nat
  | s, _, [] => (s, [], [])
  | s, k, op :: ops =>
    let r := step c s op
    let rest := runObs c r.1 (k + 1) ops
    match r.2 with
    | .batch (some b) => (rest.1, showRows b :: rest.2.1, rest.2.2)
    | .batch none => (rest.1, "_" :: rest.2.1, rest.2.2)
    | .error => (rest.1, rest.2.1, k :: rest.2.2)
    | .unit => rest

def nonSpecializedOf (ty : String) : Option Bool :=
  match ty with
  | "i32" | "i64" | "sv" | "i32+i64" | "i32+sv" => some false
  | "utf8" | "i32+utf8" | "bool" | "dict" | "list" | "struct" | "fsb" => some true
  | _ => none

def handleCoalesce (ty target limit ops : String) : String :=
  match nonSpecializedOf ty, target.toNat?, (if limit = "-" then some none else limit.toNat?.map some),
        (if ops = "-" then some [] else (ops.splitOn ";").mapM parseOp) with
  | some ns, some target, some limit, some ops =>
    if target = 0 then "SKIP" else
    -- a push_batch_with_indices with an out-of-range valid index panics inside take
    if ops.any (fun op => match op with
        | .pushIndices rows idx => (takeSpec rows idx).isNone
        | _ => false) then "PANIC" else
    let c : Config := { target := target, limit := limit, nonSpecialized := ns,
                        sparseDenom := Generated.C03.SPARSE_FILTER_COPY_MAX_SELECTIVITY_DENOMINATOR,
                        useSlices := useSlicesRepo }
    let (s, outs, errs) := runObs c CState.init 0 ops
    if s.diverged then "DIVERGED" else
    let fin := finishBuffered s
    let tail := match fin.completed.drop s.completed.length with
      | [b] => showRows b
      | _ => "-"
    let model := s!"out={if outs.isEmpty then "-" else "|".intercalate outs} queue={showBatches s.completed} buf={s.bufferedRows} tail={tail} errs={showList toString errs}"
    -- specification side: the emitted row sequence (always), the exact batches (no bypass limit)
    let r := run c CState.init ops
    let emitted := r.2 ++ r.1.completed
    let selected := (ops.map Op.selected).flatten
    if emitted.flatten ++ r.1.inProgress ≠ selected then
      mismatch "coalesce-rows" (showRows (emitted.flatten ++ r.1.inProgress)) (showRows selected)
    else if limit.isNone ∧ (emitted, r.1.inProgress) ≠ coalesceSpec target [] ops then
      mismatch "coalesce-batches" (showBatches emitted) (showBatches (coalesceSpec target [] ops).1)
    else model
  | _, _, _, _ => "bad-op"

def handle (toks : List String) : String :=
  match toks with
  | ["filter", _ty, _var, _off, rows, _moff, mask] =>
    match parseRows rows, parseMask mask with
    | some rows, some mask =>
      let spec := if mask.length > rows.length then "ERR:arg" else showRows (filterSpec rows mask)
      let models := (mkArrs rows).flatMap (fun a => heuristics.flatMap (fun h =>
        [showFilter (filterKernel h false a mask), showFilter (filterKernel h true a mask)]))
      agree "filter" models spec
    | _, _ => "bad-op"
  | ["take", ty, ity, check, _off, rows, _ioff, idx] =>
    match parseRows rows, parseIdx idx, maxIdxOf ity with
    | some rows, some ix, some maxIdx =>
      let check := check = "1"
      let models := (mkArrs rows).flatMap (fun a => (idxArrs ix).map (fun ia =>
        showRes (takeKernel maxIdx check a ia)))
      match takeSpec rows (idxLogical ix) with
      | some r => agree "take" models (showRows r)
      | none =>
        -- the specification only says "error"; the model says which kind
        match models with
        | m :: _ =>
          -- FixedSizeList has its own bounds test inside the kernel (same error class as
          -- `check_bounds`), so for it the two failure kinds are not distinguished
          if models.all (· = m) ∧ (m = "FAIL" ∨ m = "ERR:oob") then (if ty = "fsl" then "FAIL" else m)
          else mismatch "take" (" / ".intercalate models) "error"
        | [] => "bad-op"
    | _, _, _ => "bad-op"
  | ["concat", _ty, _var, arrs] =>
    match splitArrs arrs with
    | some arrs =>
      if arrs.isEmpty then "ERR:compute" else
      let model := showRows (concatPrimitive (arrs.map (fun r => (mkArrs r).head!))).decode
      let model2 := showRows (concatPrimitive (arrs.map (fun r => (mkArrs r).getLast!))).decode
      agree "concat" [model, model2] (showRows (concatSpec arrs))
    | none => "bad-op"
  | ["interleave", _ty, arrs, pairs] =>
    match splitArrs arrs, parsePairs pairs with
    | some arrs, some pairs =>
      if arrs.isEmpty then "ERR:arg" else
      let sh := fun (r : Option (Arr Nat)) => match r with | some a => showRows a.decode | none => "PANIC"
      let model := sh (if pairs.isEmpty then some { vals := [], nulls := none } else interleavePrimitive (arrs.map (fun r => (mkArrs r).head!)) pairs)
      let model2 := sh (if pairs.isEmpty then some { vals := [], nulls := none } else interleavePrimitive (arrs.map (fun r => (mkArrs r).getLast!)) pairs)
      let spec := match interleaveSpec arrs pairs with | some r => showRows r | none => "PANIC"
      agree "interleave" [model, model2] spec
    | _, _ => "bad-op"
  | ["zip", _ty, _moff, mask, t, f] =>
    match parseMask mask with
    | some mask =>
      match parseDatum mask.length t, parseDatum mask.length f with
      | some (t, ts), some (f, fs) =>
        if (!ts ∧ t.length ≠ mask.length) ∨ (!fs ∧ f.length ≠ mask.length) then "ERR:arg"
        else showRows (zipSpec mask t f)
      | _, _ => "bad-op"
    | none => "bad-op"
  | ["nullif", _ty, _off, rows, _moff, mask] =>
    match parseRows rows, parseMask mask with
    | some rows, some mask =>
      if rows.length ≠ mask.length then "ERR:compute" else
      let models := (mkArrs rows).map (fun a => match nullifKernel a mask with
        | some r => showRows r.decode
        | none => "ERR:compute")
      agree "nullif" models (showRows (nullifSpec rows mask))
    | _, _ => "bad-op"
  | ["shift", _ty, _off, rows, k] =>
    match parseRows rows, parseInt k with
    | some rows, some k =>
      let models := (mkArrs rows).map (fun a => showRows (shiftKernel a k).decode)
      agree "shift" models (showRows (shiftSpec rows k))
    | _, _ => "bad-op"
  | ["coalesce", ty, target, limit, ops] => handleCoalesce ty target limit ops
  | _ => "bad-op"

end ArrowModel.C03
