import ArrowModel.Common.Proto
import ArrowModel.C03.Spec
import ArrowModel.C03.Model
/-
C03 driver: one case per line → one canonical answer per line.

Rows are small integer ids (`n` = null row); the harness builds the typed arrays from the
ids, so the model only reasons about row ids.  Answers are computed by the *algorithm model*
(for filter: under every iteration strategy, optimised and not) and compared with the
specification; a difference prints `MODEL-SPEC-MISMATCH`.
-/
namespace ArrowModel.C03
open ArrowModel.Proto

abbrev Row := Option Nat

def parseRow (s : String) : Option Row :=
  if s = "n" then some none else s.toNat?.map some

def parseRows (s : String) : Option (List Row) := parseList parseRow s

def showRow : Row → String
  | none => "n"
  | some k => toString k

def showRows (r : List Row) : String := showList showRow r

/-- predicate: `1` true, `0` false, `n` null -/
def parseMask (s : String) : Option (List (Option Bool)) :=
  if s = "-" then some [] else
  s.toList.mapM (fun c =>
    if c = '1' then some (some true) else if c = '0' then some (some false)
    else if c = 'n' then some none else none)

/-- index item: `<int>` valid, `n` / `n<int>` null slot (with the raw value stored under it) -/
def parseIdxItem (s : String) : Option (Int × Bool) :=
  match s.toList with
  | 'n' :: rest => if rest.isEmpty then some (0, false) else (parseInt (String.ofList rest)).map (fun i => (i, false))
  | _ => (parseInt s).map (fun i => (i, true))

def parseIdx (s : String) : Option (List (Int × Bool)) := parseList parseIdxItem s

def idxLogical (ix : List (Int × Bool)) : List (Option Int) := ix.map (fun p => if p.2 then some p.1 else none)

/-- physical representations of an index array (with / without a validity buffer when all valid) -/
def idxArrs (ix : List (Int × Bool)) : List IdxArr :=
  let withN : IdxArr := { vals := ix.map (·.1), nulls := some (ix.map (·.2)) }
  if ix.all (·.2) then [withN, { vals := ix.map (·.1), nulls := none }] else [withN]

/-- physical representations of a column of row ids -/
def mkArrs (rows : List Row) : List (Arr Nat) :=
  let withN : Arr Nat := { vals := rows.map (·.getD 0), nulls := some (rows.map (·.isSome)) }
  if rows.all (·.isSome) then [withN, { vals := rows.map (·.getD 0), nulls := none }]
  else [withN, { vals := rows.map (·.getD 7), nulls := some (rows.map (·.isSome)) }]

def maxIdxOf (ity : String) : Option Nat :=
  match ity with
  | "i8" => some (2 ^ 7 - 1) | "u8" => some (2 ^ 8 - 1)
  | "i16" => some (2 ^ 15 - 1) | "u16" => some (2 ^ 16 - 1)
  | "i32" => some (2 ^ 31 - 1) | "u32" => some (2 ^ 32 - 1)
  | "i64" => some (2 ^ 63 - 1) | "u64" => some (2 ^ 64 - 1)
  | _ => none

def mismatch (what model spec : String) : String :=
  s!"MODEL-SPEC-MISMATCH {what} model={model} spec={spec}"

/-- all model answers must equal the spec answer -/
def agree (what : String) (models : List String) (spec : String) : String :=
  match models.find? (· ≠ spec) with
  | some m => mismatch what m spec
  | none => spec

def heuristics : List (Nat → Nat → Bool) := [useSlicesRepo, fun _ _ => true, fun _ _ => false]

def showFilter (r : Option (Arr Nat)) : String :=
  match r with
  | some a => showRows a.decode
  | none => "ERR:arg"

def showRes (r : Res (Arr Nat)) : String :=
  match r with
  | .ok a => showRows a.decode
  | .err => "ERR:oob"
  | .panic => "FAIL"

def splitArrs (s : String) : Option (List (List Row)) :=
  if s = "-" then some [] else
  (s.splitOn ";").mapM (fun a =>
    match a.splitOn ":" with
    | [_off, rows] => parseRows rows
    | _ => none)

def parsePairs (s : String) : Option (List (Nat × Nat)) :=
  parseList (fun p => match p.splitOn "." with
    | [a, b] => match a.toNat?, b.toNat? with
      | some a, some b => some (a, b)
      | _, _ => none
    | _ => none) s

/-- zip operand: `a:<off>:<rows>` array, `s:<row>` scalar (broadcast to `n` rows) -/
def parseDatum (n : Nat) (s : String) : Option (List Row × Bool) :=
  match s.splitOn ":" with
  | ["a", _off, rows] => (parseRows rows).map (fun r => (r, false))
  | ["s", row] => (parseRow row).map (fun r => (List.replicate n r, true))
  | ["s", row, _off] => (parseRow row).map (fun r => (List.replicate n r, true))
  | _ => none


/-! ### physical observables -/

def parseBArr (s : String) : Option BArr :=
  match s.splitOn "/" with
  | [o, d, n] =>
    match parseList (fun x => x.toNat?) o, parseHex d, (if n = "-" then some none else (parseBits n).map some) with
    | some o, some d, some n => some { offsets := o, data := d, nulls := n }
    | _, _, _ => none
  | _ => none

/-- validity is reported as `-` when there is no null -/
def showNulls (n : Option (List Bool)) : String :=
  match n with
  | some b => if b.all id then "-" else showBits b
  | none => "-"

def showBArr (b : BArr) : String :=
  s!"o={showList toString b.offsets} d={toHex b.data} n={showNulls b.nulls}"

def showCell : Option (List Nat) → String
  | none => "n"
  | some b => toHex b

/-- zero the value bytes under null slots of a fixed-size-binary buffer -/
def fsbCanon (w : Nat) (d : List Nat) (n : Option (List Bool)) : List Nat :=
  match n with
  | none => d
  | some bs => ((List.range bs.length).map (fun i => if bs.getD i true then fsbSlot w d i else List.replicate w 0)).flatten

def fsbDecode (w : Nat) (d : List Nat) (cnt : Nat) (n : Option (List Bool)) : List (Option (List Nat)) :=
  (List.range cnt).map (fun i => if (n.map (·.getD i true)).getD true then some (fsbSlot w d i) else none)

/-- logical content of a run-end encoded array -/
def reeExpand (ends : List Nat) (vals : List Row) (offset len : Nat) : List Row :=
  (List.range len).map (fun i => (vals[physIndex ends offset i]?).getD none)

def handlePhys (toks : List String) : String :=
  match toks with
  | ["bfilter", _wide, _var, tok, _moff, mask] =>
    match parseBArr tok, parseMask mask with
    | some b, some mask =>
      let spec := if mask.length > b.len then "ERR:arg" else showList showCell (filterSpec b.decode mask)
      let results := heuristics.flatMap (fun h => [filterBytesKernel h false b mask, filterBytesKernel h true b mask])
      let logical := results.map (fun r => match r with | some x => showList showCell x.decode | none => "ERR:arg")
      match logical.find? (· ≠ spec) with
      | some m => mismatch "bfilter" m spec
      | none =>
        let phys := results.map (fun r => match r with | some x => showBArr x | none => "ERR:arg")
        match phys with
        | p0 :: _ => if phys.all (· = p0) then p0 else mismatch "bfilter-phys" (" / ".intercalate phys) p0
        | [] => "bad-op"
    | _, _ => "bad-op"
  | ["btake", _wide, _ity, tok, _ioff, idx] =>
    match parseBArr tok, parseIdx idx with
    | some b, some ix =>
      let spec := match takeSpec b.decode (idxLogical ix) with | some r => showList showCell r | none => "PANIC"
      let results := (idxArrs ix).map (fun ia => takeBytes b ia)
      let logical := results.map (fun r => match r with | some x => showList showCell x.decode | none => "PANIC")
      match logical.find? (· ≠ spec) with
      | some m => mismatch "btake" m spec
      | none =>
        match results with
        | some x :: _ => showBArr x
        | _ => "PANIC"
    | _, _ => "bad-op"
  | ["bconcat", _wide, toks] =>
    match (toks.splitOn ";").mapM parseBArr with
    | some arrs =>
      let out := match arrs with
        | [one] => one
        | _ => concatBytes arrs
      let spec := showList showCell (concatSpec (arrs.map BArr.decode))
      if showList showCell out.decode ≠ spec then mismatch "bconcat" (showList showCell out.decode) spec
      else showBArr out
    | none => "bad-op"
  | ["binterleave", _wide, toks, pairs] =>
    match (toks.splitOn ";").mapM parseBArr, parsePairs pairs with
    | some arrs, some pairs =>
      let spec := match interleaveSpec (arrs.map BArr.decode) pairs with | some r => showList showCell r | none => "PANIC"
      match interleaveBytes arrs pairs with
      | some out => if showList showCell out.decode ≠ spec then mismatch "binterleave" (showList showCell out.decode) spec else showBArr out
      | none => if spec = "PANIC" then "PANIC" else mismatch "binterleave" "PANIC" spec
    | _, _ => "bad-op"
  | ["fsbfilter", w, _var, d, n, _moff, mask] =>
    match w.toNat?, parseHex d, (if n = "-" then some none else (parseBits n).map some), parseMask mask with
    | some w, some d, some n, some mask =>
      let len := d.length / w
      if mask.length > len then "ERR:arg" else
      let spec := showList showCell (filterSpec (fsbDecode w d len n) mask)
      let outs := heuristics.flatMap (fun h => [false, true].map (fun opt =>
        let pr := Predicate.new h mask
        let p := if opt then pr.optimize else pr
        match p.strategy with
        | .none => (([] : List Nat), (none : Option (List Bool)), 0)
        | .all => (d.take (p.count * w), n.map (fun (x : List Bool) => x.take p.count), p.count)
        | _ => let r := filterFsb w d n p; (r.1, r.2, p.count)))
      let shown := outs.map (fun o => s!"d={toHex (fsbCanon w o.1 o.2.1)} n={showNulls o.2.1}")
      let logical := outs.map (fun o => showList showCell (fsbDecode w o.1 o.2.2 o.2.1))
      match logical.find? (· ≠ spec), shown with
      | some m, _ => mismatch "fsbfilter" m spec
      | none, s0 :: _ => if shown.all (· = s0) then s0 else mismatch "fsbfilter-phys" (" / ".intercalate shown) s0
      | none, [] => "bad-op"
    | _, _, _, _ => "bad-op"
  | ["fsbtake", w, _ity, d, n, _ioff, idx] =>
    match w.toNat?, parseHex d, (if n = "-" then some none else (parseBits n).map some), parseIdx idx with
    | some w, some d, some n, some ix =>
      let len := d.length / w
      if ix.isEmpty then "d=- n=-" else
      let spec := match takeSpec (fsbDecode w d len n) (idxLogical ix) with | some r => showList showCell r | none => "PANIC"
      let outs := (idxArrs ix).map (fun ia => takeFsb w d len n ia)
      let logical := outs.map (fun o => match o with | some r => showList showCell (fsbDecode w r.1 ix.length r.2) | none => "PANIC")
      match logical.find? (· ≠ spec), outs with
      | some m, _ => mismatch "fsbtake" m spec
      | none, some r :: _ => s!"d={toHex (fsbCanon w r.1 r.2)} n={showNulls r.2}"
      | none, _ => "PANIC"
    | _, _, _, _ => "bad-op"
  | ["lconcat", _kind, _var, toks] =>
    match (toks.splitOn ";").mapM parseBArr with
    | some arrs =>
      let spec := showList showCell (concatSpec (arrs.map BArr.decode))
      -- a single input is returned as is (`concat` of one array); the coalescer path and concat_batches agree row-wise
      let out := concatLists arrs
      if showList showCell out.decode ≠ spec then mismatch "lconcat" (showList showCell out.decode) spec else spec
    | none => "bad-op"
  | ["slices", _moff, mask] =>
    match parseMask mask with
    | some mask =>
      -- `SlicesIterator` reads the raw value bits (a null slot keeps a set bit underneath in the harness)
      let raw := mask.map (fun b => b != some false)
      s!"s={showList (fun (p : Nat × Nat) => s!"{p.1}:{p.2}") (slicesOf raw)} c={trueCount mask}"
    | none => "bad-op"
  | ["prepmask", _moff, mask] =>
    match parseMask mask with
    | some mask => if mask.all (·.isSome) then "SKIP" else s!"{showBits (prepMask mask)} nulls=0"
    | none => "bad-op"
  | ["filternulls", var, bits, _moff, mask] =>
    match var.toNat?, (if bits = "-" then some none else (parseBits bits).map some), parseMask mask with
    | some var, some bits, some mask =>
      let pr := Predicate.new useSlicesRepo mask
      let p := if var % 2 = 0 then pr else pr.optimize
      if p.strategy = .all ∨ p.strategy = .none then "SKIP" else
      match filterNulls bits p with
      | none => "-"
      | some n => s!"{showBits n}/{nullCount n}"
    | _, _, _ => "bad-op"
  | ["gc", _ty, _off, rows] =>
    match parseRows rows with
    | some rows => showRows rows
    | none => "bad-op"
  | ["slice", _ty, _off, rows, a, len] =>
    match parseRows rows, a.toNat?, len.toNat? with
    | some rows, some a, some len => showRows ((rows.drop a).take len)
    | _, _, _ => "bad-op"
  | ["ree", _var, ends, vals, off, len, _moff, mask] =>
    match parseList (fun x => x.toNat?) ends, parseRows vals, off.toNat?, len.toNat?, parseMask mask with
    | some ends, some vals, some off, some len, some mask =>
      if mask.length > len then "ERR:arg" else
      let input := reeExpand ends vals off len
      let spec := showRows (filterSpec input mask)
      let cnt := trueCount mask
      if mask.length = 0 ∨ cnt = 0 then "ends=- vals=-"
      else if cnt = mask.length then s!"ends={showList toString ends} vals={showRows vals}"
      else
        let outs := (mkArrs vals).flatMap (fun va => heuristics.map (fun h => filterRee h ends va off len (prepMask mask)))
        let shown := outs.map (fun o => match o with
          | some (e, v) => s!"ends={showList toString e} vals={showRows v.decode}"
          | none => "ERR:arg")
        let logical := outs.map (fun o => match o with
          | some (e, v) => showRows (reeExpand e v.decode 0 cnt)
          | none => "ERR:arg")
        match logical.find? (· ≠ spec), shown with
        | some m, _ => mismatch "ree" m spec
        | none, s0 :: _ => if shown.all (· = s0) then s0 else mismatch "ree-phys" (" / ".intercalate shown) s0
        | none, [] => "bad-op"
    | _, _, _, _, _ => "bad-op"
  | _ => "bad-op"


/-! ### explicit dictionaries -/

def parseDictValue (s : String) : Option (Option Bytes) :=
  if s = "e" then some (some []) else
  match s.toList with
  | 'n' :: _ => some none
  | _ => (parseHex s).map some

def parseDict (s : String) : Option Dict :=
  match s.splitOn "/" with
  | [ks, vs] =>
    match parseList (fun k => if k = "n" then some none else k.toNat?.map some) ks, parseList parseDictValue vs with
    | some k, some v => some { keys := k, values := v }
    | _, _ => none
  | _ => none

def showDictRow : Option Bytes → String
  | none => "n"
  | some [] => "e"
  | some b => toHex b

/-- bucket functions the merge model is run with: everything collides / by length / by first byte -/
def hashes : List (Option Bytes → Nat) :=
  [fun _ => 0, fun v => match v with | none => 0 | some b => b.length + 1, fun v => match v with | none => 7 | some b => b.headD 3]

def handleDict (toks : List String) : String :=
  match toks with
  | ["dconcat", kt, var, ds, pairs] =>
    match (ds.splitOn ";").mapM parseDict, var.toNat?, parsePairs pairs with
    | some dicts, some var, some pairs =>
      let maxKey := if kt = "i8" then 127 else if kt = "u16" then 65535 else 2 ^ 31 - 1
      if var % 4 < 2 then
        let spec := showList showDictRow (concatSpec (dicts.map Dict.decode))
        let models := hashes.map (fun h => match concatDictionaries h maxKey dicts with
          | some d => showList showDictRow d.decode
          | none => "ERR:overflow")
        agree "dconcat" models spec
      else
        let spec := match interleaveSpec (dicts.map Dict.decode) pairs with | some r => showList showDictRow r | none => "PANIC"
        -- `interleave_dictionaries`: key masks from the pairs, keys remapped through the merge
        let masks := (List.range dicts.length).map (fun a =>
          (List.range ((dicts[a]?).map (·.keys.length) |>.getD 0)).map (fun b => pairs.any (fun p => p.1 == a && p.2 == b)))
        let models := hashes.map (fun h => match mergeDictionaryValues h maxKey dicts (some masks) with
          | some (maps, merged) =>
            match pairs.mapM (fun p => (dicts[p.1]?).bind (fun d => (d.keys[p.2]?).map (fun k =>
                k.bind (fun kk => (merged[(maps.getD p.1 []).getD kk 0]?).join)))) with
            | some rows => showList showDictRow rows
            | none => "PANIC"
          | none => "ERR:overflow")
        agree "dinterleave" models spec
    | _, _, _ => "bad-op"
  | _ => "bad-op"

/-! ### coalescer -/

def parseOp (s : String) : Option (Op Row) :=
  match s.splitOn ":" with
  | ["p", _off, rows] => (parseRows rows).map .push
  | ["f", _off, rows, _moff, mask] =>
    match parseRows rows, parseMask mask with
    | some r, some m => some (.pushFiltered r m)
    | _, _ => none
  | ["i", _ity, rows, idx] =>
    match parseRows rows, parseIdx idx with
    | some r, some ix => some (.pushIndices r (idxLogical ix))
    | _, _ => none
  | ["x"] => some .finish
  | ["n"] => some .next
  | _ => none

def showBatches (bs : List (List Row)) : String :=
  if bs.isEmpty then "-" else "|".intercalate (bs.map showRows)

/-- driver-level operation: a coalescer `Op`, the accessor query `q`, or `set_biggest_coalesce_batch_size` -/
inductive DOp where
  | op (o : Op Row)
  | query
  | setLimit (l : Option Nat)

def parseDOp (s : String) : Option DOp :=
  match s.splitOn ":" with
  | ["q"] => some .query
  | ["l", l] => if l = "-" then some (.setLimit none) else l.toNat?.map (fun n => .setLimit (some n))
  | _ => (parseOp s).map .op

/-- run the model over a history, recording what every `next`/`q` returned, which ops failed, and
the batches handed out (for the conservation check); the limit may change between steps -/
def runObs : Config → CState Row → Nat → List DOp → CState Row × List String × List Nat × List (List Row)
  | _, s, _, [] => (s, [], [], [])
  | c, s, k, .setLimit l :: ops => runObs { c with limit := l } s (k + 1) ops
  | c, s, k, .query :: ops =>
    let rest := runObs c s (k + 1) ops
    let b := fun (x : Bool) => if x then "1" else "0"
    let q := s!"E{b (s.bufferedRows == 0 && s.completed.isEmpty)}C{b (!s.completed.isEmpty)}B{s.bufferedRows}L{match c.limit with | some l => toString l | none => "-"}"
    (rest.1, q :: rest.2.1, rest.2.2.1, rest.2.2.2)
  | c, s, k, .op o :: ops =>
    let r := step c s o
    let rest := runObs c r.1 (k + 1) ops
    match r.2 with
    | .batch (some b) => (rest.1, showRows b :: rest.2.1, rest.2.2.1, b :: rest.2.2.2)
    | .batch none => (rest.1, "_" :: rest.2.1, rest.2.2.1, rest.2.2.2)
    | .error => (rest.1, rest.2.1, k :: rest.2.2.1, rest.2.2.2)
    | .unit => rest

/-- `has_non_specialized_filter_columns`: some column is neither primitive nor a byte view -/
def nonSpecializedOf (ty : String) : Option Bool :=
  let known := ["i32", "i64", "f64", "ts", "dec", "sv", "bv", "bool", "utf8", "lutf8", "bin", "lbin", "dict", "dicts",
    "dicti8", "dictu8", "dictu16", "dictu64", "dictp", "fsb", "list", "llist", "lv", "fsl", "map", "struct", "ree",
    "sunion", "dunion"]
  let cols := ty.splitOn "+"
  if cols.all (fun c => known.contains c) then
    some (cols.any (fun c => !(["i32", "i64", "f64", "ts", "dec", "sv", "bv"].contains c)))
  else none

def handleCoalesce (ty target limit ops : String) : String :=
  match nonSpecializedOf ty, target.toNat?, (if limit = "-" then some none else limit.toNat?.map some),
        (if ops = "-" then some [] else (ops.splitOn ";").mapM parseDOp) with
  | some ns, some target, some limit, some dops =>
    if target = 0 then "SKIP" else
    let ops := dops.filterMap (fun d => match d with | .op o => some o | _ => none)
    -- a push_batch_with_indices with an out-of-range valid index panics inside take
    if ops.any (fun op => match op with
        | .pushIndices rows idx => (takeSpec rows idx).isNone
        | _ => false) then "PANIC" else
    let c : Config := { target := target, limit := limit, nonSpecialized := ns,
                        sparseDenom := Generated.C03.SPARSE_FILTER_COPY_MAX_SELECTIVITY_DENOMINATOR,
                        useSlices := useSlicesRepo }
    let (s, outs, errs, popped) := runObs c CState.init 0 dops
    if s.diverged then "DIVERGED" else
    let fin := finishBuffered s
    let tail := match fin.completed.drop s.completed.length with
      | [b] => showRows b
      | _ => "-"
    let model := s!"out={if outs.isEmpty then "-" else "|".intercalate outs} queue={showBatches s.completed} buf={s.bufferedRows} tail={tail} errs={showList toString errs}"
    -- specification side: the emitted row sequence (always), the exact batches (never a bypass limit)
    let emitted := popped ++ s.completed
    let selected := (ops.map Op.selected).flatten
    let neverLimited := limit.isNone ∧ dops.all (fun d => match d with | .setLimit (some _) => false | _ => true)
    if emitted.flatten ++ s.inProgress ≠ selected then
      mismatch "coalesce-rows" (showRows (emitted.flatten ++ s.inProgress)) (showRows selected)
    else if neverLimited ∧ (emitted, s.inProgress) ≠ coalesceSpec target [] ops then
      mismatch "coalesce-batches" (showBatches emitted) (showBatches (coalesceSpec target [] ops).1)
    else model
  | _, _, _, _ => "bad-op"

def handle (toks : List String) : String :=
  match toks with
  | ["filter", _ty, _var, _off, rows, _moff, mask] =>
    match parseRows rows, parseMask mask with
    | some rows, some mask =>
      let spec := if mask.length > rows.length then "ERR:arg" else showRows (filterSpec rows mask)
      let models := (mkArrs rows).flatMap (fun a => heuristics.flatMap (fun h =>
        [showFilter (filterKernel h false a mask), showFilter (filterKernel h true a mask)]))
      agree "filter" models spec
    | _, _ => "bad-op"
  | ["take", ty, ity, check, _off, rows, _ioff, idx] =>
    match parseRows rows, parseIdx idx, maxIdxOf ity with
    | some rows, some ix, some maxIdx =>
      let check := check = "1"
      let models := (mkArrs rows).flatMap (fun a => (idxArrs ix).map (fun ia =>
        showRes (takeKernel maxIdx check a ia)))
      match takeSpec rows (idxLogical ix) with
      | some r => agree "take" models (showRows r)
      | none =>
        -- the specification only says "error"; the model says which kind
        match models with
        | m :: _ =>
          -- FixedSizeList has its own bounds test inside the kernel (same error class as
          -- `check_bounds`), so for it the two failure kinds are not distinguished
          if models.all (· = m) ∧ (m = "FAIL" ∨ m = "ERR:oob") then (if ty = "fsl" then "FAIL" else m)
          else mismatch "take" (" / ".intercalate models) "error"
        | [] => "bad-op"
    | _, _, _ => "bad-op"
  | ["concat", _ty, _var, arrs] =>
    match splitArrs arrs with
    | some arrs =>
      if arrs.isEmpty then "ERR:compute" else
      let model := showRows (concatPrimitive (arrs.map (fun r => (mkArrs r).head!))).decode
      let model2 := showRows (concatPrimitive (arrs.map (fun r => (mkArrs r).getLast!))).decode
      agree "concat" [model, model2] (showRows (concatSpec arrs))
    | none => "bad-op"
  | ["interleave", _ty, arrs, pairs] =>
    match splitArrs arrs, parsePairs pairs with
    | some arrs, some pairs =>
      if arrs.isEmpty then "ERR:arg" else
      let sh := fun (r : Option (Arr Nat)) => match r with | some a => showRows a.decode | none => "PANIC"
      let model := sh (if pairs.isEmpty then some { vals := [], nulls := none } else interleavePrimitive (arrs.map (fun r => (mkArrs r).head!)) pairs)
      let model2 := sh (if pairs.isEmpty then some { vals := [], nulls := none } else interleavePrimitive (arrs.map (fun r => (mkArrs r).getLast!)) pairs)
      let spec := match interleaveSpec arrs pairs with | some r => showRows r | none => "PANIC"
      agree "interleave" [model, model2] spec
    | _, _ => "bad-op"
  | ["zip", _ty, _moff, mask, t, f] =>
    match parseMask mask with
    | some mask =>
      match parseDatum mask.length t, parseDatum mask.length f with
      | some (t, ts), some (f, fs) =>
        if (!ts ∧ t.length ≠ mask.length) ∨ (!fs ∧ f.length ≠ mask.length) then "ERR:arg"
        else
          let spec := showRows (zipSpec mask t f)
          -- `zip_impl` (operands as the kernel sees them: a scalar is one row)
          let m1 := showRows (zipModel mask (if ts then t.take 1 else t) (ts && !mask.isEmpty) (if fs then f.take 1 else f) (fs && !mask.isEmpty))
          -- `PrimitiveScalarImpl` when both are scalars
          let m2 := if ts ∧ fs ∧ !mask.isEmpty then showRows (zipScalars mask (t.head!) (f.head!)).decode else spec
          agree "zip" [m1, m2] spec
      | _, _ => "bad-op"
    | none => "bad-op"
  | ["merge", _ty, _moff, mask, t, f] =>
    match parseMask mask with
    | some mask =>
      match parseDatum mask.length t, parseDatum mask.length f with
      | some (t, ts), some (f, fs) =>
        match mergeSpec mask t f with
        | some r =>
          let m := if ts ∧ fs then showRows (zipSpec mask t f)
                   else showRows (mergeModel mask (if ts then t.take 1 else t) (ts && !mask.isEmpty) (if fs then f.take 1 else f) (fs && !mask.isEmpty))
          agree "merge" [m] (showRows r)
        | none => "SKIP"
      | _, _ => "bad-op"
    | none => "bad-op"
  | ["mergen", _ty, arrs, idx] =>
    match splitArrs arrs, parseList (fun x => if x = "n" then some none else x.toNat?.map some) idx with
    | some arrs, some idx =>
      if arrs.isEmpty then "ERR:arg" else
      match mergeNSpec arrs idx (List.replicate arrs.length 0) with
      | some r =>
        let m := match mergeNRun arrs (idx.length + 1) idx (List.replicate (arrs.length + 1) 0) with
          | some x => showRows x
          | none => "PANIC"
        agree "mergen" [m] (showRows r)
      | none => "SKIP"
    | _, _ => "bad-op"
  | ["nullif", _ty, _off, rows, _moff, mask] =>
    match parseRows rows, parseMask mask with
    | some rows, some mask =>
      if rows.length ≠ mask.length then "ERR:compute" else
      let models := (mkArrs rows).map (fun a => match nullifKernel a mask with
        | some r => showRows r.decode
        | none => "ERR:compute")
      agree "nullif" models (showRows (nullifSpec rows mask))
    | _, _ => "bad-op"
  | ["shift", _ty, _off, rows, k] =>
    match parseRows rows, parseInt k with
    | some rows, some k =>
      let models := (mkArrs rows).map (fun a => showRows (shiftKernel a k).decode)
      agree "shift" models (showRows (shiftSpec rows k))
    | _, _ => "bad-op"
  | ["coalesce", ty, target, limit, ops] => handleCoalesce ty target limit ops
  | "dconcat" :: _ => handleDict toks
  | _ => handlePhys toks

end ArrowModel.C03
