/-
C03 — specification: the naive row-by-row definitions the selection kernels of
`arrow-select` are supposed to agree with.  A column is a `List (Option α)` (`none` = null
row).  Import-free.
-/
namespace ArrowModel.C03

/-! ### filter -/

/-- `filter(values, predicate)`: keep row `i` iff `predicate[i]` is a *valid* `true`
(a null predicate slot selects nothing).  A predicate shorter than the values simply ends
the selection (arrow-rs accepts `predicate.len() ≤ values.len()`). -/
def filterSpec {α : Type} : List α → List (Option Bool) → List α
  | v :: vs, some true :: ms => v :: filterSpec vs ms
  | _ :: vs, _ :: ms => filterSpec vs ms
  | _, _ => []

/-- number of rows a predicate selects -/
def selectedCount : List (Option Bool) → Nat
  | [] => 0
  | some true :: ms => selectedCount ms + 1
  | _ :: ms => selectedCount ms

/-! ### take -/

/-- one row of `take`: a null index gives a null row; a valid index must be in range -/
def takeRow {α : Type} (vs : List (Option α)) : Option Int → Option (Option α)
  | none => some none
  | some i => if i < 0 then none else vs[i.toNat]?

/-- `take(values, indices)`: `none` = error (some *valid* index is out of range). -/
def takeSpec {α : Type} (vs : List (Option α)) (idx : List (Option Int)) : Option (List (Option α)) :=
  idx.mapM (takeRow vs)

/-! ### concat / interleave / zip / nullif / shift -/

/-- `concat(arrays)` -/
def concatSpec {α : Type} (arrs : List (List α)) : List α := arrs.flatten

/-- `interleave(values, indices)`: row `k` is `values[a_k][b_k]`; `none` = out of range -/
def interleaveSpec {α : Type} (arrs : List (List α)) (idx : List (Nat × Nat)) : Option (List α) :=
  idx.mapM (fun p => (arrs[p.1]?).bind (fun a => a[p.2]?))

/-- `zip(mask, truthy, falsy)`: row `i` comes from `truthy` iff `mask[i]` is a valid `true` -/
def zipSpec {α : Type} : List (Option Bool) → List α → List α → List α
  | m :: ms, t :: ts, f :: fs => (if m = some true then t else f) :: zipSpec ms ts fs
  | _, _, _ => []

/-- `nullif(left, right)`: row `i` becomes null iff `right[i]` is a valid `true` -/
def nullifSpec {α : Type} : List (Option α) → List (Option Bool) → List (Option α)
  | v :: vs, m :: ms => (if m = some true then none else v) :: nullifSpec vs ms
  | _, _ => []

/-- `shift(array, k)`: row `i` of the result is row `i - k` of the input, null when that is
out of range (the length is unchanged). -/
def shiftSpec {α : Type} (vs : List (Option α)) (k : Int) : List (Option α) :=
  (List.range vs.length).map (fun (i : Nat) =>
    let j : Int := (i : Int) - k
    if j < 0 then none else (vs[j.toNat]?).getD none)


/-- `merge(mask, truthy, falsy)`: row `i` is the *next unused* row of `truthy` when `mask[i]`
is a valid `true`, else the next unused row of `falsy` (`none` = an operand ran out) -/
def mergeSpec {α : Type} : List (Option Bool) → List α → List α → Option (List α)
  | [], _, _ => some []
  | some true :: ms, t :: ts, fs => (mergeSpec ms ts fs).map (t :: ·)
  | some true :: _, [], _ => none
  | _ :: ms, ts, f :: fs => (mergeSpec ms ts fs).map (f :: ·)
  | _ :: _, _, [] => none

/-- `merge_n(values, indices)`: index `some k` takes the next unused row of `values[k]`,
`none` gives a null row; `cursors[k]` = rows of array `k` already used -/
def mergeNSpec {α : Type} (arrs : List (List (Option α))) : List (Option Nat) → List Nat → Option (List (Option α))
  | [], _ => some []
  | none :: is, cur => (mergeNSpec arrs is cur).map (none :: ·)
  | some k :: is, cur =>
    match (arrs[k]?).bind (fun a => a[cur.getD k 0]?) with
    | some row => (mergeNSpec arrs is (cur.set k (cur.getD k 0 + 1))).map (row :: ·)
    | none => none

/-! ### batch coalescer -/

/-- the operations of a `BatchCoalescer` history; a batch is its list of rows -/
inductive Op (α : Type) where
  /-- `push_batch(rows)` -/
  | push (rows : List α)
  /-- `push_batch_with_filter(rows, mask)` -/
  | pushFiltered (rows : List α) (mask : List (Option Bool))
  /-- `push_batch_with_indices(rows, indices)` -/
  | pushIndices (rows : List α) (idx : List (Option Int))
  /-- `finish_buffered_batch()` -/
  | finish
  /-- `next_completed_batch()` -/
  | next

/-- the rows an operation feeds into the coalescer (nothing when the operation is rejected:
a filter longer than the batch, an index out of range).  Rows of the coalescer are whole
rows `Option β`; a null index produces a null row. -/
def Op.selected {β : Type} : Op (Option β) → List (Option β)
  | .push rows => rows
  | .pushFiltered rows mask => if mask.length > rows.length then [] else filterSpec rows mask
  | .pushIndices rows idx => (takeSpec rows idx).getD []
  | .finish => []
  | .next => []

/-- cut `rows` into batches of exactly `target` rows; the second component is the remainder
(fewer than `target` rows) -/
def chunkAll {α : Type} (target : Nat) (rows : List α) : List (List α) × List α :=
  if _h : 0 < target ∧ target ≤ rows.length then
    let r := chunkAll target (rows.drop target)
    (rows.take target :: r.1, r.2)
  else ([], rows)
termination_by rows.length
decreasing_by simp; omega

/-- **Abstract coalescer** (no large-batch bypass): the batches a history emits, in order,
and the rows still buffered at its end.  `carry` = rows buffered so far.  Pushed rows are
appended to the carry and every full `target` rows leave as one batch; `finish` emits the
carry (if any) as a short batch; `next` only hands out what was already emitted. -/
def coalesceSpec {β : Type} (target : Nat) : List (Option β) → List (Op (Option β)) → List (List (Option β)) × List (Option β)
  | carry, [] => ([], carry)
  | carry, .finish :: ops =>
    let r := coalesceSpec target [] ops
    ((if carry.isEmpty then [] else [carry]) ++ r.1, r.2)
  | carry, .next :: ops => coalesceSpec target carry ops
  | carry, op :: ops =>
    let c := chunkAll target (carry ++ op.selected)
    let r := coalesceSpec target c.2 ops
    (c.1 ++ r.1, r.2)

end ArrowModel.C03
