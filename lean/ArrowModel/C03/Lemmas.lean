import ArrowModel.C03.Model
/-
C03 — helper lemmas: selection by a boolean mask (`filt`), the slice/index iterators, the
filter strategies, and the coalescer state machine.
-/
namespace ArrowModel.C03

/-- selection by a plain boolean mask -/
def filt {α : Type} : List α → List Bool → List α
  | v :: vs, true :: ms => v :: filt vs ms
  | _ :: vs, false :: ms => filt vs ms
  | _, _ => []

theorem filterSpec_eq_filt {α : Type} (vs : List α) (p : List (Option Bool)) :
    filterSpec vs p = filt vs (prepMask p) := by
  induction vs generalizing p with
  | nil => cases p <;> simp [filterSpec, filt, prepMask]
  | cons v vs ih =>
    cases p with
    | nil => simp [filterSpec, filt, prepMask]
    | cons b p =>
      have := ih p
      rcases b with _ | _ | _ <;> simp_all [filterSpec, filt, prepMask]

@[simp] theorem filt_nil_left {α : Type} (m : List Bool) : filt ([] : List α) m = [] := by
  cases m with
  | nil => rfl
  | cons b m => cases b <;> rfl

@[simp] theorem filt_nil_right {α : Type} (vs : List α) : filt vs [] = [] := by
  cases vs <;> rfl

theorem length_filt {α : Type} (vs : List α) (m : List Bool) (h : m.length ≤ vs.length) :
    (filt vs m).length = countSet m := by
  induction vs generalizing m with
  | nil => cases m <;> simp_all [countSet]
  | cons v vs ih =>
    cases m with
    | nil => simp [countSet]
    | cons b m =>
      have := ih m (by simpa using h)
      cases b <;> simp_all [filt, countSet]

theorem drop_eq_cons {α : Type} (vals : List α) (i : Nat) (h : i < vals.length) :
    vals.drop i = vals[i] :: vals.drop (i + 1) := by
  exact List.drop_eq_getElem_cons h

theorem slicesAux_flatMap {α : Type} (vals : List α) (m : List Bool) :
    ∀ i, i + m.length ≤ vals.length →
      (slicesAux m i none).flatMap (copyRange vals) = filt (vals.drop i) m ∧
      ∀ s, s ≤ i → (slicesAux m i (some s)).flatMap (copyRange vals)
        = (vals.drop s).take (i - s) ++ filt (vals.drop i) m := by
  induction m with
  | nil =>
    intro i _
    refine ⟨by simp [slicesAux], ?_⟩
    intro s _
    simp [slicesAux, copyRange]
  | cons b m ih =>
    intro i hi
    have hlt : i < vals.length := by simp at hi; omega
    have ih' := ih (i + 1) (by simp at hi; omega)
    rw [drop_eq_cons vals i hlt]
    cases b with
    | false =>
      refine ⟨by simpa [slicesAux, filt] using ih'.1, ?_⟩
      intro s hs
      simp only [slicesAux, List.flatMap_cons, filt]
      rw [ih'.1]
      simp [copyRange]
    | true =>
      constructor
      · simp only [slicesAux, filt]
        rw [ih'.2 i (by omega)]
        have : i + 1 - i = 1 := by omega
        rw [this, drop_eq_cons vals i hlt]
        rfl
      · intro s hs
        simp only [slicesAux, filt]
        rw [ih'.2 s (by omega)]
        have e : i + 1 - s = (i - s) + 1 := by omega
        rw [e, List.take_add_one]
        simp only [List.append_assoc]
        congr 1
        have : (vals.drop s)[i - s]? = some vals[i] := by
          rw [List.getElem?_drop]
          have : s + (i - s) = i := by omega
          simp [this, hlt]
        simp [this]

theorem indicesAux_map {α : Type} (vals : List α) (d : α) (m : List Bool) :
    ∀ i, i + m.length ≤ vals.length →
      (indicesAux m i).map (fun j => vals.getD j d) = filt (vals.drop i) m := by
  induction m with
  | nil => intro i _; simp [indicesAux]
  | cons b m ih =>
    intro i hi
    have hlt : i < vals.length := by simp at hi; omega
    have ih' := ih (i + 1) (by simp at hi; omega)
    rw [drop_eq_cons vals i hlt]
    cases b
    · simp only [indicesAux, filt, ih']
    · simp only [indicesAux, filt, List.map_cons, ih']
      congr 1
      simp [List.getD_eq_getElem?_getD, hlt]

theorem indicesAux_flatMap {α : Type} (vals : List α) (m : List Bool) :
    ∀ i, i + m.length ≤ vals.length →
      (indicesAux m i).flatMap (fun j => copyRange vals (j, j + 1)) = filt (vals.drop i) m := by
  induction m with
  | nil => intro i _; simp [indicesAux]
  | cons b m ih =>
    intro i hi
    have hlt : i < vals.length := by simp at hi; omega
    have ih' := ih (i + 1) (by simp at hi; omega)
    rw [drop_eq_cons vals i hlt]
    cases b
    · simp [indicesAux, filt, ih']
    · simp only [indicesAux, filt, List.flatMap_cons, ih']
      have e : i + 1 - i = 1 := by omega
      simp only [copyRange, e]
      rw [drop_eq_cons vals i hlt]
      rfl

theorem length_indicesAux (m : List Bool) (i : Nat) : (indicesAux m i).length = countSet m := by
  induction m generalizing i with
  | nil => simp [indicesAux, countSet]
  | cons b m ih => cases b <;> simp_all [indicesAux, countSet]

/-! ### counting -/

theorem countSet_le (m : List Bool) : countSet m ≤ m.length := by
  unfold countSet; exact List.length_filter_le _ _

theorem countSet_cons (b : Bool) (m : List Bool) : countSet (b :: m) = (if b then 1 else 0) + countSet m := by
  cases b <;> simp [countSet] <;> omega

theorem filt_all {α : Type} (vs : List α) (m : List Bool) (h : countSet m = m.length) :
    filt vs m = vs.take m.length := by
  induction vs generalizing m with
  | nil => simp
  | cons v vs ih =>
    cases m with
    | nil => simp
    | cons b m =>
      have hle := countSet_le m
      rw [countSet_cons] at h
      cases b
      · simp at h; omega
      · simp at h
        simp [filt, ih m (by omega)]

theorem filt_none {α : Type} (vs : List α) (m : List Bool) (h : countSet m = 0) : filt vs m = [] := by
  induction vs generalizing m with
  | nil => simp
  | cons v vs ih =>
    cases m with
    | nil => simp
    | cons b m =>
      rw [countSet_cons] at h
      cases b
      · simp at h; simp [filt, ih m h]
      · simp at h

theorem decodeWith_filt {α : Type} (vals : List α) (bits : List Bool) (m : List Bool)
    (h : vals.length = bits.length) :
    decodeWith (filt vals m) (filt bits m) = filt (decodeWith vals bits) m := by
  induction vals generalizing bits m with
  | nil => cases bits <;> simp_all [decodeWith]
  | cons v vals ih =>
    cases bits with
    | nil => simp at h
    | cons b bits =>
      cases m with
      | nil => simp [decodeWith]
      | cons x m =>
        have := ih bits m (by simpa using h)
        cases x <;> simp [filt, decodeWith, this]

theorem map_some_filt {α : Type} (vals : List α) (m : List Bool) :
    (filt vals m).map some = filt (vals.map some) m := by
  induction vals generalizing m with
  | nil => simp
  | cons v vals ih =>
    cases m with
    | nil => simp
    | cons x m => cases x <;> simp [filt, ih]

theorem decodeWith_all_valid {α : Type} (vals : List α) (bs : List Bool)
    (h : countSet bs = bs.length) (hl : vals.length = bs.length) :
    decodeWith vals bs = vals.map some := by
  induction vals generalizing bs with
  | nil => cases bs <;> simp [decodeWith]
  | cons v vals ih =>
    cases bs with
    | nil => simp at hl
    | cons b bs =>
      have hle := countSet_le bs
      rw [countSet_cons] at h
      cases b
      · simp at h; omega
      · simp at h
        simp [decodeWith, ih bs (by omega) (by simpa using hl)]

theorem length_decodeWith {α : Type} (vals : List α) (bs : List Bool) (hl : vals.length = bs.length) :
    (decodeWith vals bs).length = vals.length := by
  induction vals generalizing bs with
  | nil => cases bs <;> simp [decodeWith]
  | cons v vals ih =>
    cases bs with
    | nil => simp at hl
    | cons b bs => simp [decodeWith, ih bs (by simpa using hl)]

theorem decodeWith_take {α : Type} (vals : List α) (bs : List Bool) (c : Nat) :
    decodeWith (vals.take c) (bs.take c) = (decodeWith vals bs).take c := by
  induction vals generalizing bs c with
  | nil => cases bs <;> cases c <;> simp [decodeWith]
  | cons v vals ih =>
    cases bs with
    | nil => cases c <;> simp [decodeWith]
    | cons b bs =>
      cases c with
      | zero => simp [decodeWith]
      | succ c => simp [decodeWith, ih]

/-! ### well-formed arrays and consistent predicates -/

/-- the validity buffer, when present, has one bit per value -/
def Arr.WF {α : Type} (a : Arr α) : Prop := ∀ bs, a.nulls = some bs → bs.length = a.vals.length

theorem Arr.length_decode {α : Type} (a : Arr α) (h : a.WF) : a.decode.length = a.len := by
  unfold Arr.decode Arr.len
  cases hn : a.nulls with
  | none => simp
  | some bs => simp [length_decodeWith _ _ (h bs hn).symm]

/-- a predicate whose pre-computed `count`/`strategy` agree with its mask — what
`FilterBuilder` always builds.  `slicesIterator`/`indexIterator` are allowed for *every*
mask (not only where the heuristic would choose them). -/
def Predicate.Valid (p : Predicate) : Prop :=
  p.count = countSet p.filter ∧
  match p.strategy with
  | .none => p.count = 0
  | .all => p.count = p.filter.length
  | .slices sl => sl = slicesOf p.filter
  | .indices ix => ix = indicesAux p.filter 0
  | .slicesIterator => True
  | .indexIterator => True

theorem indexIter_eq (m : List Bool) : indexIter m (countSet m) = indicesAux m 0 := by
  unfold indexIter
  rw [← length_indicesAux m 0, List.take_length]

/-- every non-trivial strategy of `filter_native` copies exactly the selected values -/
theorem filterNative_eq {α : Type} [Inhabited α] (vals : List α) (p : Predicate) (hv : p.Valid)
    (hl : p.filter.length ≤ vals.length)
    (hs : p.strategy ≠ .all ∧ p.strategy ≠ .none) : filterNative vals p = filt vals p.filter := by
  obtain ⟨hc, hstr⟩ := hv
  unfold filterNative
  have hsl := (slicesAux_flatMap vals p.filter 0 (by omega)).1
  have hix := indicesAux_map vals default p.filter 0 (by omega)
  simp only [List.drop_zero] at hsl hix
  cases hst : p.strategy with
  | slicesIterator => simpa [slicesOf] using hsl
  | slices sl => rw [hst] at hstr; simp only at hstr; subst hstr; simpa [slicesOf] using hsl
  | indexIterator => simp only; rw [hc, indexIter_eq]; exact hix
  | indices ix => rw [hst] at hstr; simp only at hstr; subst hstr; exact hix
  | all => simp [hst] at hs
  | none => simp [hst] at hs

theorem filterBits_eq (bits : List Bool) (p : Predicate) (hv : p.Valid)
    (hl : p.filter.length ≤ bits.length)
    (hs : p.strategy ≠ .all ∧ p.strategy ≠ .none) : filterBits bits p = filt bits p.filter := by
  obtain ⟨hc, hstr⟩ := hv
  unfold filterBits
  have hsl := (slicesAux_flatMap bits p.filter 0 (by omega)).1
  have hix := indicesAux_map bits false p.filter 0 (by omega)
  simp only [List.drop_zero] at hsl hix
  cases hst : p.strategy with
  | slicesIterator => simpa [slicesOf] using hsl
  | slices sl => rw [hst] at hstr; simp only at hstr; subst hstr; simpa [slicesOf] using hsl
  | indexIterator => simp only; rw [hc, indexIter_eq]; exact hix
  | indices ix => rw [hst] at hstr; simp only at hstr; subst hstr; exact hix
  | all => simp [hst] at hs
  | none => simp [hst] at hs

/-- `copy_rows_by_selection` appends exactly the selected rows, for every strategy -/
theorem copyBySelection_eq {α : Type} (rows : List α) (p : Predicate) (hv : p.Valid)
    (hl : p.filter.length ≤ rows.length) : copyBySelection rows p = filt rows p.filter := by
  obtain ⟨hc, hstr⟩ := hv
  unfold copyBySelection
  have hsl := (slicesAux_flatMap rows p.filter 0 (by omega)).1
  have hix := indicesAux_flatMap rows p.filter 0 (by omega)
  simp only [List.drop_zero] at hsl hix
  cases hst : p.strategy with
  | slicesIterator => simpa [slicesOf] using hsl
  | slices sl => rw [hst] at hstr; simp only at hstr; subst hstr; simpa [slicesOf] using hsl
  | indexIterator => simp only; rw [hc, indexIter_eq]; exact hix
  | indices ix => rw [hst] at hstr; simp only at hstr; subst hstr; exact hix
  | all =>
    rw [hst] at hstr; simp only at hstr
    simp only [copyRange, List.drop_zero, Nat.sub_zero]
    rw [filt_all rows p.filter (by omega), hstr]
  | none =>
    rw [hst] at hstr; simp only at hstr
    rw [filt_none rows p.filter (by omega)]

theorem filterRows_eq {α : Type} (rows : List α) (p : Predicate) (hv : p.Valid)
    (hl : p.filter.length ≤ rows.length) : filterRows rows p = filt rows p.filter := by
  have h := copyBySelection_eq rows p hv hl
  obtain ⟨hc, hstr⟩ := hv
  unfold filterRows
  cases hst : p.strategy with
  | all =>
    rw [hst] at hstr; simp only at hstr
    simp only
    rw [filt_all rows p.filter (by omega), hstr]
  | none =>
    rw [hst] at hstr; simp only at hstr
    rw [filt_none rows p.filter (by omega)]
  | _ => simpa [hst] using h

/-- `filter_array` on a well-formed array, for every consistent predicate (every strategy) -/
theorem filterArray_decode {α : Type} [Inhabited α] (a : Arr α) (hwf : a.WF) (p : Predicate)
    (hv : p.Valid) (hl : p.filter.length ≤ a.len) :
    ∃ r, filterArray a p = some r ∧ r.decode = filt a.decode p.filter ∧ r.WF := by
  have hv' := hv
  obtain ⟨hc, hstr⟩ := hv
  unfold filterArray
  rw [if_neg (by omega)]
  by_cases hnone : p.strategy = .none
  · rw [hnone] at hstr; simp only at hstr
    refine ⟨_, by rw [hnone], ?_, ?_⟩
    · rw [filt_none _ _ (by omega)]; rfl
    · intro bs h; simp at h
  by_cases hall : p.strategy = .all
  · rw [hall] at hstr; simp only at hstr
    refine ⟨_, by rw [hall], ?_, ?_⟩
    · rw [filt_all _ _ (by omega)]
      unfold Arr.slice Arr.decode
      cases hn : a.nulls with
      | none => simp [hstr]
      | some bs => simp [decodeWith_take, hstr]
    · intro bs h
      unfold Arr.slice at h ⊢
      cases hn : a.nulls with
      | none => simp [hn] at h
      | some b0 =>
        simp [hn] at h
        subst h
        have := hwf b0 hn
        simp [this]
  have hs : p.strategy ≠ .all ∧ p.strategy ≠ .none := ⟨hall, hnone⟩
  refine ⟨filterPrimitive a p, ?_, ?_, ?_⟩
  · cases hst : p.strategy <;> simp_all
  · unfold filterPrimitive
    have hvals := filterNative_eq a.vals p hv' hl hs
    have hlen : (filt a.vals p.filter).length = p.count := by rw [length_filt _ _ hl, hc]
    have htake : (filterNative a.vals p).take p.count = filt a.vals p.filter := by
      rw [hvals, ← hlen, List.take_length]
    unfold Arr.decode filterNulls
    cases hn : a.nulls with
    | none => simp [htake, map_some_filt]
    | some bs =>
      have hb := hwf bs hn
      have hbits := filterBits_eq bs p hv' (by unfold Arr.len at hl; omega) hs
      have hblen : (filt bs p.filter).length = p.count := by
        rw [length_filt _ _ (by unfold Arr.len at hl; omega), hc]
      have hbtake : (filterBits bs p).take p.count = filt bs p.filter := by
        rw [hbits, ← hblen, List.take_length]
      simp only [htake, hbtake]
      by_cases hz : nullCount bs = 0
      · simp only [hz, if_true]
        rw [decodeWith_all_valid a.vals bs (by unfold nullCount at hz; have := countSet_le bs; omega) hb.symm]
        exact map_some_filt _ _
      · simp only [hz, if_false]
        by_cases hz2 : p.count - countSet (filt bs p.filter) = 0
        · simp only [hz2, if_true]
          rw [← decodeWith_filt a.vals bs p.filter hb.symm]
          rw [decodeWith_all_valid (filt a.vals p.filter) (filt bs p.filter)
            (by have := countSet_le (filt bs p.filter); omega) (by omega)]
        · simp only [hz2, if_false]
          exact decodeWith_filt a.vals bs p.filter hb.symm
  · intro bs h
    unfold filterPrimitive filterNulls at h
    unfold filterPrimitive
    simp only at h ⊢
    cases hn : a.nulls with
    | none => simp [hn] at h
    | some b0 =>
      have hb := hwf b0 hn
      have hbits := filterBits_eq b0 p hv' (by unfold Arr.len at hl; omega) hs
      have hvals := filterNative_eq a.vals p hv' hl hs
      simp only [hn] at h
      split at h
      · simp at h
      · split at h
        · simp at h
        · simp at h
          subst h
          rw [hbits, hvals]
          simp [length_filt _ _ hl, length_filt b0 p.filter (by unfold Arr.len at hl; omega)]


/-! ### chunkAll -/

theorem chunkAll_lt {α : Type} (target : Nat) (rows : List α) (h : rows.length < target) :
    chunkAll target rows = ([], rows) := by
  rw [chunkAll]; simp; omega

theorem chunkAll_ge {α : Type} (target : Nat) (rows : List α) (ht : 0 < target) (h : target ≤ rows.length) :
    chunkAll target rows =
      (rows.take target :: (chunkAll target (rows.drop target)).1, (chunkAll target (rows.drop target)).2) := by
  rw [chunkAll]; simp [ht, h]

theorem chunkAll_flatten {α : Type} (target : Nat) (rows : List α) :
    (chunkAll target rows).1.flatten ++ (chunkAll target rows).2 = rows := by
  induction h : rows.length using Nat.strongRecOn generalizing rows with
  | _ n ih =>
    by_cases hc : 0 < target ∧ target ≤ rows.length
    · rw [chunkAll_ge target rows hc.1 hc.2]
      simp only [List.flatten_cons, List.append_assoc]
      rw [ih (rows.drop target).length (by simp; omega) (rows.drop target) rfl]
      simp
    · rw [chunkAll]; simp [hc]

theorem chunkAll_sizes {α : Type} (target : Nat) (ht : 0 < target) (rows : List α) :
    (∀ b ∈ (chunkAll target rows).1, b.length = target) ∧ (chunkAll target rows).2.length < target := by
  induction h : rows.length using Nat.strongRecOn generalizing rows with
  | _ n ih =>
    by_cases hc : target ≤ rows.length
    · rw [chunkAll_ge target rows ht hc]
      have := ih (rows.drop target).length (by simp; omega) (rows.drop target) rfl
      refine ⟨?_, this.2⟩
      intro b hb
      simp only [List.mem_cons] at hb
      rcases hb with hb | hb
      · subst hb; simp; omega
      · exact this.1 b hb
    · rw [chunkAll_lt target rows (by omega)]
      simp; omega

theorem chunkAll_eq {α : Type} (target : Nat) (ht : 0 < target) (rows : List α) (h : rows.length = target) :
    chunkAll target rows = ([rows], []) := by
  rw [chunkAll_ge target rows ht (by omega)]
  have : rows.drop target = [] := by simp [h]
  rw [this, chunkAll_lt target [] (by simpa using ht)]
  simp [← h]

/-! ### coalescer invariant -/

/-- `buffered_rows` counts the rows in the in-progress arrays and stays below the target -/
def Inv {α : Type} (c : Config) (s : CState α) : Prop :=
  s.bufferedRows = s.inProgress.length ∧ s.bufferedRows < c.target ∧ s.diverged = false

/-- what one push does to the state, in terms of `chunkAll` -/
def Chunked {α : Type} (target : Nat) (s s' : CState α) (rows : List α) : Prop :=
  s'.completed = s.completed ++ (chunkAll target (s.inProgress ++ rows)).1 ∧
  s'.inProgress = (chunkAll target (s.inProgress ++ rows)).2 ∧
  s'.bufferedRows = s'.inProgress.length ∧ s'.diverged = s.diverged

/-- appending rows that still fit, then `if buffered_rows >= target { finish }` -/
theorem append_fit {α : Type} (target : Nat) (ht : 0 < target) (s : CState α) (extra : List α)
    (hb : s.bufferedRows = s.inProgress.length) (hfit : s.bufferedRows + extra.length ≤ target) :
    let s1 : CState α := { s with inProgress := s.inProgress ++ extra, bufferedRows := s.bufferedRows + extra.length }
    Chunked target s (if s1.bufferedRows ≥ target then finishBuffered s1 else s1) extra := by
  intro s1
  by_cases hge : s1.bufferedRows ≥ target
  · have hlen : (s.inProgress ++ extra).length = target := by simp [s1] at hge; simp; omega
    rw [if_pos hge]
    unfold finishBuffered Chunked
    have : s1.bufferedRows ≠ 0 := by omega
    simp only [this, if_false]
    rw [chunkAll_eq target ht _ hlen]
    simp [s1]
  · rw [if_neg hge]
    have hlen : (s.inProgress ++ extra).length < target := by simp [s1] at hge; simp; omega
    unfold Chunked
    rw [chunkAll_lt target _ hlen]
    simp [s1, hb]

theorem pushLoop_spec {α : Type} (target : Nat) (ht : 0 < target) :
    ∀ (n : Nat) (rest : List α) (s : CState α), rest.length = n →
      s.bufferedRows = s.inProgress.length → s.bufferedRows < target →
      ∃ s' rest', pushLoop target s rest = some (s', rest') ∧
        s'.bufferedRows = s'.inProgress.length ∧ s'.bufferedRows < target ∧ s'.diverged = s.diverged ∧
        s'.bufferedRows + rest'.length ≤ target ∧
        s.completed ++ (chunkAll target (s.inProgress ++ rest)).1
          = s'.completed ++ (chunkAll target (s'.inProgress ++ rest')).1 ∧
        (chunkAll target (s.inProgress ++ rest)).2 = (chunkAll target (s'.inProgress ++ rest')).2 := by
  intro n
  induction n using Nat.strongRecOn with
  | _ n ih =>
    intro rest s hn hb hlt
    rw [pushLoop]
    by_cases hgt : rest.length > target - s.bufferedRows
    · have hr : ¬ (target - s.bufferedRows = 0) := by omega
      simp only [hgt, hr, dite_true, dite_false]
      -- the state after copying `remaining` rows and finishing
      have hfin : finishBuffered { s with inProgress := s.inProgress ++ rest.take (target - s.bufferedRows), bufferedRows := s.bufferedRows + (target - s.bufferedRows) } = { s with inProgress := [], bufferedRows := 0, completed := s.completed ++ [s.inProgress ++ rest.take (target - s.bufferedRows)] } := by
        unfold finishBuffered
        have : s.bufferedRows + (target - s.bufferedRows) ≠ 0 := by omega
        simp only [this, if_false]
      rw [hfin]
      obtain ⟨s', rest', h1, h2, h3, h4, h5, h6, h7⟩ :=
        ih (rest.drop (target - s.bufferedRows)).length (by simp; omega)
          (rest.drop (target - s.bufferedRows))
          { s with inProgress := [], bufferedRows := 0, completed := s.completed ++ [s.inProgress ++ rest.take (target - s.bufferedRows)] }
          rfl (by simp) (by simpa using ht)
      refine ⟨s', rest', h1, h2, h3, by simpa using h4, h5, ?_, ?_⟩
      · rw [chunkAll_ge target (s.inProgress ++ rest) ht (by simp; omega)]
        have e1 : (s.inProgress ++ rest).take target = s.inProgress ++ rest.take (target - s.bufferedRows) := by
          rw [List.take_append, hb]
          congr 1
          exact List.take_of_length_le (by omega)
        have e2 : (s.inProgress ++ rest).drop target = rest.drop (target - s.bufferedRows) := by
          rw [List.drop_append, hb]
          have : s.inProgress.drop target = [] := List.drop_of_length_le (by omega)
          simp [this]
        rw [e1, e2]
        simp only [List.nil_append, List.append_assoc, List.cons_append] at h6 ⊢
        exact h6
      · rw [chunkAll_ge target (s.inProgress ++ rest) ht (by simp; omega)]
        have e2 : (s.inProgress ++ rest).drop target = rest.drop (target - s.bufferedRows) := by
          rw [List.drop_append, hb]
          have : s.inProgress.drop target = [] := List.drop_of_length_le (by omega)
          simp [this]
        rw [e2]
        simpa using h7
    · simp only [hgt, dite_false]
      exact ⟨s, rest, rfl, hb, hlt, rfl, by omega, rfl, rfl⟩


theorem Chunked.inv {α : Type} (c : Config) (ht : 0 < c.target) (s s' : CState α) (rows : List α)
    (hi : Inv c s) (h : Chunked c.target s s' rows) : Inv c s' := by
  obtain ⟨_, h2, h3, h4⟩ := h
  refine ⟨h3, ?_, by rw [h4]; exact hi.2.2⟩
  rw [h3, h2]
  exact (chunkAll_sizes c.target ht _).2

theorem Chunked.conserve {α : Type} (target : Nat) (s s' : CState α) (rows : List α)
    (h : Chunked target s s' rows) :
    s'.completed.flatten ++ s'.inProgress = s.completed.flatten ++ s.inProgress ++ rows := by
  obtain ⟨h1, h2, _, _⟩ := h
  rw [h1, h2, List.flatten_append, List.append_assoc, chunkAll_flatten]
  simp

/-- the normal (coalescing) path of `push_batch`: loop, append the rest, finish when full -/
theorem pushNormal_spec {α : Type} (target : Nat) (ht : 0 < target) (s : CState α) (batch : List α)
    (hb : s.bufferedRows = s.inProgress.length) (hlt : s.bufferedRows < target) :
    ∃ s' rest', pushLoop target s batch = some (s', rest') ∧
      Chunked target s
        (let s2 : CState α := { s' with bufferedRows := s'.bufferedRows + rest'.length,
                                        inProgress := if rest'.length > 0 then s'.inProgress ++ rest' else s'.inProgress }
         if s2.bufferedRows ≥ target then finishBuffered s2 else s2) batch := by
  obtain ⟨s', rest', h1, h2, h3, h4, h5, h6, h7⟩ := pushLoop_spec target ht batch.length batch s rfl hb hlt
  refine ⟨s', rest', h1, ?_⟩
  have hif : (if rest'.length > 0 then s'.inProgress ++ rest' else s'.inProgress) = s'.inProgress ++ rest' := by
    by_cases h : rest'.length > 0
    · simp [h]
    · have : rest' = [] := by cases rest' <;> simp_all
      simp [this]
  simp only [hif]
  have := append_fit target ht s' rest' h2 h5
  simp only at this
  obtain ⟨a1, a2, a3, a4⟩ := this
  refine ⟨?_, ?_, a3, by rw [a4, h4]⟩
  · rw [a1, h6]
  · rw [a2, h7]

/-- `push_batch` either coalesces (`Chunked`) or, with a bypass limit, appends whole batches;
in every case rows are conserved in order, the queue only grows at its end and the
invariant is kept. -/
theorem pushBatch_spec {α : Type} (c : Config) (ht : 0 < c.target) (s : CState α) (batch : List α)
    (hi : Inv c s) :
    Inv c (pushBatch c s batch) ∧
    (∃ L, (pushBatch c s batch).completed = s.completed ++ L) ∧
    (pushBatch c s batch).completed.flatten ++ (pushBatch c s batch).inProgress
      = s.completed.flatten ++ s.inProgress ++ batch ∧
    (c.limit = none → Chunked c.target s (pushBatch c s batch) batch) := by
  obtain ⟨hb, hlt, hd⟩ := hi
  unfold pushBatch
  by_cases h0 : batch.length = 0
  · have : batch = [] := by cases batch <;> simp_all
    subst this
    simp only [List.length_nil, if_true]
    refine ⟨⟨hb, hlt, hd⟩, ⟨[], by simp⟩, by simp, ?_⟩
    intro _
    unfold Chunked
    rw [List.append_nil, chunkAll_lt c.target s.inProgress (by omega)]
    simp [hb]
  simp only [h0, if_false]
  by_cases h1 : c.limit.any (fun limit => batch.length > limit) = true ∧ s.bufferedRows = 0
  · rw [if_pos h1]
    have hnil : s.inProgress = [] := by
      have : s.inProgress.length = 0 := by omega
      cases hs : s.inProgress <;> simp_all
    refine ⟨⟨hb, hlt, hd⟩, ⟨[batch], rfl⟩, by simp [hnil], ?_⟩
    intro hnone; rw [hnone] at h1; simp at h1
  rw [if_neg h1]
  by_cases h2 : c.limit.any (fun limit => decide (batch.length > limit ∧ s.bufferedRows > limit)) = true
  · rw [if_pos h2]
    have hne : s.bufferedRows ≠ 0 := by
      intro h
      cases hl : c.limit with
      | none => simp [hl] at h2
      | some v => simp [hl] at h2; omega
    have hfin : finishBuffered s = { s with inProgress := [], bufferedRows := 0, completed := s.completed ++ [s.inProgress] } := by
      unfold finishBuffered; simp only [hne, if_false]
    rw [hfin]
    refine ⟨⟨rfl, ht, hd⟩, ⟨[s.inProgress, batch], by simp⟩, by simp, ?_⟩
    intro hnone; rw [hnone] at h2; simp at h2
  rw [if_neg h2]
  obtain ⟨s', rest', hl, hch⟩ := pushNormal_spec c.target ht s batch hb hlt
  rw [hl]
  simp only
  simp only at hch
  have hinv := Chunked.inv c ht s _ batch ⟨hb, hlt, hd⟩ hch
  exact ⟨hinv, ⟨_, hch.1⟩, Chunked.conserve c.target s _ batch hch, fun _ => hch⟩

theorem prepMask_length (p : List (Option Bool)) : (prepMask p).length = p.length := by simp [prepMask]

/-- `FilterBuilder::new(..).build()` always yields a consistent predicate -/
theorem Predicate.new_valid (h : Nat → Nat → Bool) (mask : List (Option Bool)) :
    (Predicate.new h mask).Valid ∧ (Predicate.new h mask).filter = prepMask mask := by
  refine ⟨⟨rfl, ?_⟩, rfl⟩
  unfold Predicate.new defaultStrategy trueCount
  simp only
  by_cases h1 : (prepMask mask).length = 0 ∨ countSet (prepMask mask) = 0
  · rw [if_pos h1]
    simp only
    rcases h1 with h1 | h1
    · have := countSet_le (prepMask mask); omega
    · exact h1
  · rw [if_neg h1]
    by_cases h2 : countSet (prepMask mask) = (prepMask mask).length
    · rw [if_pos h2]; exact h2
    · rw [if_neg h2]
      cases h (prepMask mask).length (countSet (prepMask mask)) <;> simp

theorem Predicate.optimize_valid (p : Predicate) (hv : p.Valid) :
    p.optimize.Valid ∧ p.optimize.filter = p.filter := by
  obtain ⟨hc, hs⟩ := hv
  unfold Predicate.optimize
  split
  · exact ⟨⟨hc, rfl⟩, rfl⟩
  · refine ⟨⟨hc, ?_⟩, rfl⟩
    show indexIter p.filter p.count = indicesAux p.filter 0
    rw [hc, indexIter_eq]
  · exact ⟨⟨hc, hs⟩, rfl⟩

theorem trueCount_eq (mask : List (Option Bool)) : trueCount mask = countSet (prepMask mask) := rfl

/-- `push_batch_with_filter`: a rejected filter leaves the state alone; otherwise it behaves
like `push_batch` of the selected rows (conservation always; exact chunking without a limit). -/
theorem pushFiltered_spec {α : Type} (c : Config) (ht : 0 < c.target) (s : CState α)
    (rows : List α) (mask : List (Option Bool)) (hi : Inv c s) :
    (mask.length > rows.length → pushFiltered c s rows mask = (s, false)) ∧
    (mask.length ≤ rows.length →
      (pushFiltered c s rows mask).2 = true ∧
      Inv c (pushFiltered c s rows mask).1 ∧
      (∃ L, (pushFiltered c s rows mask).1.completed = s.completed ++ L) ∧
      (pushFiltered c s rows mask).1.completed.flatten ++ (pushFiltered c s rows mask).1.inProgress
        = s.completed.flatten ++ s.inProgress ++ filterSpec rows mask ∧
      (c.limit = none → Chunked c.target s (pushFiltered c s rows mask).1 (filterSpec rows mask))) := by
  constructor
  · intro h; unfold pushFiltered; simp [h]
  intro hle
  have hspec : filterSpec rows mask = filt rows (prepMask mask) := filterSpec_eq_filt rows mask
  have hml : (prepMask mask).length ≤ rows.length := by rw [prepMask_length]; exact hle
  have hlenf : (filt rows (prepMask mask)).length = trueCount mask := length_filt rows _ hml
  obtain ⟨hb, hlt, hd⟩ := hi
  unfold pushFiltered
  simp only [show ¬ mask.length > rows.length by omega, if_false]
  by_cases h0 : trueCount mask = 0
  · simp only [h0, if_true]
    have hnil : filterSpec rows mask = [] := by rw [hspec]; exact filt_none _ _ h0
    rw [hnil]
    refine ⟨by first | trivial | rfl, ⟨hb, hlt, hd⟩, ⟨[], by simp⟩, by simp, ?_⟩
    intro _
    unfold Chunked
    rw [List.append_nil, chunkAll_lt c.target s.inProgress (by omega)]
    simp [hb]
  simp only [h0, if_false]
  by_cases hall : trueCount mask = rows.length ∧ mask.length = rows.length
  · rw [if_pos hall]
    have hrows : filterSpec rows mask = rows := by
      rw [hspec, filt_all rows (prepMask mask) (by rw [← trueCount_eq, prepMask_length]; omega),
        prepMask_length, hall.2, List.take_length]
    rw [hrows]
    have := pushBatch_spec c ht s rows ⟨hb, hlt, hd⟩
    exact ⟨by first | trivial | rfl, this.1, this.2.1, this.2.2.1, this.2.2.2⟩
  rw [if_neg hall]
  obtain ⟨hpv, hpf⟩ := Predicate.new_valid c.useSlices mask
  split
  · -- materialised filter, then push_batch
    rw [filterRows_eq rows _ hpv (by rw [hpf]; exact hml), hpf, ← hspec]
    have := pushBatch_spec c ht s (filterSpec rows mask) ⟨hb, hlt, hd⟩
    exact ⟨by first | trivial | rfl, this.1, this.2.1, this.2.2.1, this.2.2.2⟩
  · -- fused sparse copy
    rename_i hmat
    rw [copyBySelection_eq rows _ hpv (by rw [hpf]; exact hml), hpf, ← hspec]
    have hfit : s.bufferedRows + (filterSpec rows mask).length ≤ c.target := by
      rw [hspec, hlenf]
      simp at hmat
      omega
    have hch := append_fit c.target ht s (filterSpec rows mask) hb hfit
    simp only at hch
    have hcnt : (filterSpec rows mask).length = trueCount mask := by rw [hspec, hlenf]
    rw [hcnt] at hch
    have hinv := Chunked.inv c ht s _ _ ⟨hb, hlt, hd⟩ hch
    exact ⟨by first | trivial | rfl, hinv, ⟨_, hch.1⟩, Chunked.conserve c.target s _ _ hch, fun _ => hch⟩


/-- batches and carry produced by a single operation of the abstract coalescer -/
def opSpec {β : Type} (target : Nat) (carry : List (Option β)) : Op (Option β) → List (List (Option β)) × List (Option β)
  | .finish => (if carry.isEmpty then [] else [carry], [])
  | .next => ([], carry)
  | op => chunkAll target (carry ++ op.selected)

theorem coalesceSpec_cons {β : Type} (target : Nat) (carry : List (Option β)) (op : Op (Option β))
    (ops : List (Op (Option β))) :
    coalesceSpec target carry (op :: ops) =
      ((opSpec target carry op).1 ++ (coalesceSpec target (opSpec target carry op).2 ops).1,
       (coalesceSpec target (opSpec target carry op).2 ops).2) := by
  cases op <;> simp [coalesceSpec, opSpec]

theorem takeRows_eq_takeSpec {β : Type} (rows : List (Option β)) (idx : List (Option Int)) :
    takeRows rows idx = takeSpec rows idx := by
  unfold takeRows takeSpec
  congr 1

/-- the batch (if any) an operation hands out -/
def Out.batches {α : Type} : Out α → List (List α)
  | .batch (some b) => [b]
  | _ => []

theorem run_cons {β : Type} (c : Config) (s : CState (Option β)) (op : Op (Option β)) (ops : List (Op (Option β))) :
    run c s (op :: ops) = ((run c (step c s op).1 ops).1, (step c s op).2.batches ++ (run c (step c s op).1 ops).2) := by
  simp only [run, Out.batches]
  cases (step c s op).2 with
  | batch b => cases b <;> rfl
  | _ => rfl

theorem step_spec {β : Type} (c : Config) (ht : 0 < c.target) (s : CState (Option β)) (op : Op (Option β))
    (hi : Inv c s) :
    Inv c (step c s op).1 ∧
    (∃ L, (step c s op).2.batches ++ (step c s op).1.completed = s.completed ++ L) ∧
    ((step c s op).2.batches ++ (step c s op).1.completed).flatten ++ (step c s op).1.inProgress
      = s.completed.flatten ++ s.inProgress ++ op.selected ∧
    (c.limit = none →
      (step c s op).2.batches ++ (step c s op).1.completed = s.completed ++ (opSpec c.target s.inProgress op).1 ∧
      (step c s op).1.inProgress = (opSpec c.target s.inProgress op).2) := by
  have hd : s.diverged = false := hi.2.2
  unfold step
  simp only [hd, Bool.false_eq_true, if_false]
  cases op with
  | push rows =>
    have := pushBatch_spec c ht s rows hi
    simp only [Out.batches, List.nil_append, Op.selected, opSpec]
    exact ⟨this.1, this.2.1, this.2.2.1, fun h => ⟨(this.2.2.2 h).1, (this.2.2.2 h).2.1⟩⟩
  | pushFiltered rows mask =>
    have hs := pushFiltered_spec c ht s rows mask hi
    simp only [Op.selected, opSpec]
    by_cases hl : mask.length > rows.length
    · rw [hs.1 hl]
      simp only [hl, if_true, Out.batches, List.nil_append, List.append_nil, Bool.false_eq_true, if_false]
      refine ⟨hi, ⟨[], by simp⟩, trivial, ?_⟩
      intro _
      rw [chunkAll_lt c.target s.inProgress (by have := hi.1; have := hi.2.1; omega)]
      simp
    · have := hs.2 (by omega)
      simp only [this.1, if_true, hl, if_false, Out.batches, List.nil_append]
      exact ⟨this.2.1, this.2.2.1, this.2.2.2.1, fun h => ⟨(this.2.2.2.2 h).1, (this.2.2.2.2 h).2.1⟩⟩
  | pushIndices rows idx =>
    simp only [Op.selected, opSpec, takeRows_eq_takeSpec]
    cases hts : takeSpec rows idx with
    | none =>
      simp only [Out.batches, List.nil_append, Option.getD_none, List.append_nil]
      refine ⟨hi, ⟨[], by simp⟩, trivial, ?_⟩
      intro _
      rw [chunkAll_lt c.target s.inProgress (by have := hi.1; have := hi.2.1; omega)]
      simp
    | some taken =>
      have := pushBatch_spec c ht s taken hi
      simp only [Out.batches, List.nil_append, Option.getD_some]
      exact ⟨this.1, this.2.1, this.2.2.1, fun h => ⟨(this.2.2.2 h).1, (this.2.2.2 h).2.1⟩⟩
  | finish =>
    obtain ⟨hb, hlt, _⟩ := hi
    simp only [Out.batches, List.nil_append, Op.selected, opSpec, List.append_nil]
    unfold finishBuffered
    by_cases h0 : s.bufferedRows = 0
    · have hnil : s.inProgress = [] := by
        have : s.inProgress.length = 0 := by omega
        cases hs : s.inProgress <;> simp_all
      simp only [h0, if_true]
      exact ⟨⟨hb, hlt, hd⟩, ⟨[], by simp⟩, trivial, fun _ => by simp [hnil]⟩
    · have hne : s.inProgress.isEmpty = false := by
        cases hs : s.inProgress with
        | nil => simp [hs] at hb; omega
        | cons x xs => rfl
      simp only [h0, if_false]
      exact ⟨⟨rfl, ht, hd⟩, ⟨[s.inProgress], rfl⟩, by simp, fun _ => by simp [hne]⟩
  | next =>
    simp only [Op.selected, opSpec, List.append_nil]
    unfold nextCompleted
    cases hc : s.completed with
    | nil =>
      simp only [Out.batches, List.nil_append]
      exact ⟨hi, ⟨[], by simp [hc]⟩, by simp [hc], fun _ => by simp [hc]⟩
    | cons b rest =>
      simp only [Out.batches]
      exact ⟨⟨hi.1, hi.2.1, hd⟩, ⟨[], by simp⟩, by simp, fun _ => by simp⟩

/-! ### take -/

theorem getIdx_decodeWith {α : Type} (vals : List α) (bits : List Bool) (hl : vals.length = bits.length) (i : Int) :
    getIdx (decodeWith vals bits) i =
      match getIdx vals i, getIdx bits i with
      | some v, some b => some (if b then some v else none)
      | _, _ => none := by
  unfold getIdx
  by_cases hneg : i < 0
  · simp [hneg]
  · simp only [hneg, if_false]
    generalize i.toNat = k
    induction vals generalizing bits k with
    | nil => cases bits <;> simp [decodeWith]
    | cons v vals ih =>
      cases bits with
      | nil => simp at hl
      | cons b bits =>
        cases k with
        | zero => simp [decodeWith]
        | succ k => simpa [decodeWith] using ih bits (by simpa using hl) k

/-- per-element form of `take_native` / `take_bits` on (index, valid) pairs -/
def nativeStep {α : Type} [Inhabited α] (vals : List α) (iv : Int × Bool) : Option α :=
  match getIdx vals iv.1 with
  | some v => some v
  | none => if iv.2 then none else some default

def bitsStep (bits : List Bool) (iv : Int × Bool) : Option Bool :=
  if iv.2 then getIdx bits iv.1 else some false

def specStep {α : Type} (d : List (Option α)) (iv : Int × Bool) : Option (Option α) :=
  takeRow d (if iv.2 then some iv.1 else none)

theorem take_pairs {α : Type} [Inhabited α] (vals : List α) (bits : List Bool)
    (hl : vals.length = bits.length) (ivs : List (Int × Bool)) :
    match ivs.mapM (specStep (decodeWith vals bits)) with
    | some r => ∃ v b, ivs.mapM (nativeStep vals) = some v ∧ ivs.mapM (bitsStep bits) = some b ∧
        decodeWith v b = r ∧ v.length = ivs.length ∧ b.length = ivs.length
    | none => ivs.mapM (nativeStep vals) = none := by
  induction ivs with
  | nil => simp [decodeWith]
  | cons iv ivs ih =>
    obtain ⟨i, valid⟩ := iv
    simp only [List.mapM_cons]
    have hg := getIdx_decodeWith vals bits hl i
    have hsame : (getIdx vals i).isSome = (getIdx bits i).isSome := by
      unfold getIdx
      by_cases hneg : i < 0
      · simp [hneg]
      · simp only [hneg, if_false]
        by_cases hk : i.toNat < vals.length
        · rw [List.getElem?_eq_getElem hk, List.getElem?_eq_getElem (by omega)]; rfl
        · rw [List.getElem?_eq_none (by omega), List.getElem?_eq_none (by omega)]; rfl
    cases valid with
    | false =>
      have e1 : specStep (decodeWith vals bits) (i, false) = some none := rfl
      have e3 : bitsStep bits (i, false) = some false := rfl
      have e2 : ∃ x, nativeStep vals (i, false) = some x := by
        unfold nativeStep; cases getIdx vals i <;> simp
      obtain ⟨x, e2⟩ := e2
      rw [e1, e2, e3]
      cases hs : ivs.mapM (specStep (decodeWith vals bits)) with
      | none => rw [hs] at ih; simp [ih]
      | some r =>
        rw [hs] at ih
        obtain ⟨v, b, h1, h2, h3, h4, h5⟩ := ih
        simp [h1, h2, decodeWith, h3, h4, h5]
    | true =>
      have e1 : specStep (decodeWith vals bits) (i, true) = getIdx (decodeWith vals bits) i := by
        unfold specStep takeRow getIdx; rfl
      have e3 : bitsStep bits (i, true) = getIdx bits i := rfl
      have e2 : nativeStep vals (i, true) = getIdx vals i := by
        unfold nativeStep; cases getIdx vals i <;> simp
      rw [e1, e2, e3, hg]
      cases hv : getIdx vals i with
      | none => simp
      | some x =>
        cases hb : getIdx bits i with
        | none => rw [hv, hb] at hsame; simp at hsame
        | some y =>
          simp only
          cases hs : ivs.mapM (specStep (decodeWith vals bits)) with
          | none => rw [hs] at ih; simp [ih]
          | some r =>
            rw [hs] at ih
            obtain ⟨v, b, h1, h2, h3, h4, h5⟩ := ih
            simp [h1, h2, decodeWith, h3, h4, h5]


theorem mapM_map_opt {α β γ : Type} (g : α → β) (f : β → Option γ) (l : List α) :
    (l.map g).mapM f = l.mapM (fun x => f (g x)) := by
  induction l with
  | nil => simp
  | cons x l ih => simp [List.mapM_cons, ih]

/-- the (index, valid) pairs the take kernels iterate over -/
def idxPairs (idx : IdxArr) : List (Int × Bool) :=
  match nullsIfAny idx.nulls with
  | some n => List.zip idx.vals n
  | none => idx.vals.map (fun i => (i, true))

theorem nullsIfAny_some {n : Option (List Bool)} {bs : List Bool} (h : nullsIfAny n = some bs) :
    n = some bs ∧ nullCount bs > 0 := by
  unfold nullsIfAny at h
  cases n with
  | none => simp at h
  | some b =>
    by_cases hc : nullCount b > 0
    · simp [hc] at h; subst h; exact ⟨rfl, hc⟩
    · simp [hc] at h

theorem nullsIfAny_none {n : Option (List Bool)} (h : nullsIfAny n = none) :
    n = none ∨ ∃ bs, n = some bs ∧ countSet bs = bs.length := by
  unfold nullsIfAny at h
  cases n with
  | none => exact Or.inl rfl
  | some b =>
    by_cases hc : nullCount b > 0
    · simp [hc] at h
    · right
      refine ⟨b, rfl, ?_⟩
      unfold nullCount at hc
      have := countSet_le b
      omega

theorem takeNative_pairs {α : Type} [Inhabited α] (vals : List α) (idx : IdxArr) :
    takeNative vals idx = (idxPairs idx).mapM (nativeStep vals) := by
  unfold takeNative idxPairs
  cases h : nullsIfAny idx.nulls with
  | some n => rfl
  | none =>
    simp only
    rw [mapM_map_opt]
    congr 1
    funext i
    unfold nativeStep
    cases getIdx vals i <;> simp

theorem takeBits_pairs (bits : List Bool) (idx : IdxArr) :
    takeBits bits idx = (idxPairs idx).mapM (bitsStep bits) := by
  unfold takeBits idxPairs
  cases h : nullsIfAny idx.nulls with
  | some n => rfl
  | none =>
    simp only
    rw [mapM_map_opt]
    rfl

theorem mapM_decodeWith_zip {α : Type} (d : List (Option α)) (ivals : List Int) (n : List Bool)
    (hl : n.length = ivals.length) :
    (decodeWith ivals n).mapM (takeRow d) = (List.zip ivals n).mapM (specStep d) := by
  induction ivals generalizing n with
  | nil => cases n <;> simp [decodeWith]
  | cons i ivals ih =>
    cases n with
    | nil => simp at hl
    | cons b n =>
      simp only [decodeWith, List.zip_cons_cons, List.mapM_cons, ih n (by simpa using hl)]
      cases b <;> rfl

theorem takeSpec_pairs {α : Type} (d : List (Option α)) (idx : IdxArr) (hw : idx.WF) :
    takeSpec d idx.decode = (idxPairs idx).mapM (specStep d) := by
  unfold takeSpec idxPairs
  cases h : nullsIfAny idx.nulls with
  | some n =>
    obtain ⟨hn, _⟩ := nullsIfAny_some h
    have hdec : idx.decode = decodeWith idx.vals n := by unfold Arr.decode; simp only [hn]
    rw [hdec]
    exact mapM_decodeWith_zip d idx.vals n (hw n hn)
  | none =>
    simp only
    have hdec : idx.decode = idx.vals.map some := by
      unfold Arr.decode
      rcases nullsIfAny_none h with hn | ⟨bs, hn, hall⟩
      · simp only [hn]
      · simp only [hn]
        exact decodeWith_all_valid idx.vals bs hall (hw bs hn).symm
    rw [hdec, mapM_map_opt, mapM_map_opt]
    rfl

theorem length_idxPairs (idx : IdxArr) (hw : idx.WF) : (idxPairs idx).length = idx.vals.length := by
  unfold idxPairs
  cases h : nullsIfAny idx.nulls with
  | some n =>
    obtain ⟨hn, _⟩ := nullsIfAny_some h
    simp [hw n hn]
  | none => simp

theorem decode_with_idx_nulls {α : Type} (v : List α) (idx : IdxArr) (hw : idx.WF)
    (hl : v.length = idx.vals.length) :
    decodeWith v ((idxPairs idx).map (·.2)) = Arr.decode { vals := v, nulls := idx.nulls } := by
  unfold idxPairs Arr.decode
  cases h : nullsIfAny idx.nulls with
  | some n =>
    obtain ⟨hn, _⟩ := nullsIfAny_some h
    simp only [hn]
    congr 1
    exact List.map_snd_zip (by rw [hw n hn]; omega)
  | none =>
    have hrep : ∀ l : List Int, (l.map (fun i => (i, true))).map (·.2) = List.replicate l.length true := by
      intro l; induction l <;> simp_all [List.replicate_succ]
    have hrep := hrep idx.vals
    simp only [hrep]
    have hall : decodeWith v (List.replicate idx.vals.length true) = v.map some :=
      decodeWith_all_valid v _ (by simp [countSet]) (by simp [hl])
    rcases nullsIfAny_none h with hn | ⟨bs, hn, hb⟩
    · simp [hn, hall]
    · simp only [hn]
      rw [hall, decodeWith_all_valid v bs hb (by rw [hw bs hn]; exact hl)]

theorem bits_all_true (k : Nat) (ivs : List (Int × Bool)) (b : List Bool)
    (h : ivs.mapM (bitsStep (List.replicate k true)) = some b) : b = ivs.map (·.2) := by
  induction ivs generalizing b with
  | nil => simp at h; simp [h]
  | cons iv ivs ih =>
    obtain ⟨i, valid⟩ := iv
    simp only [List.mapM_cons] at h
    cases hb : bitsStep (List.replicate k true) (i, valid) with
    | none => simp [hb] at h
    | some y =>
      cases hr : ivs.mapM (bitsStep (List.replicate k true)) with
      | none => simp [hb, hr] at h
      | some bs =>
        simp [hb, hr] at h
        subst h
        have := ih bs hr
        subst this
        simp only [List.map_cons, List.cons.injEq, and_true]
        unfold bitsStep getIdx at hb
        cases valid with
        | false => simpa using hb.symm
        | true =>
          simp only [if_true] at hb
          split at hb
          · simp at hb
          · have := List.mem_of_getElem? hb
            simpa using (List.eq_of_mem_replicate this)

theorem spec_in_range {α : Type} (d : List (Option α)) (ivs : List (Int × Bool)) (r : List (Option α))
    (h : ivs.mapM (specStep d) = some r) :
    ∀ iv ∈ ivs, iv.2 = true → 0 ≤ iv.1 ∧ iv.1 < (d.length : Int) := by
  induction ivs generalizing r with
  | nil => simp
  | cons iv ivs ih =>
    simp only [List.mapM_cons] at h
    cases hs : specStep d iv with
    | none => simp [hs] at h
    | some x =>
      cases hr : ivs.mapM (specStep d) with
      | none => simp [hs, hr] at h
      | some rs =>
        intro jv hj hvalid
        simp only [List.mem_cons] at hj
        rcases hj with hj | hj
        · subst hj
          obtain ⟨i, valid⟩ := jv
          simp only at hvalid
          subst hvalid
          unfold specStep takeRow at hs
          simp only [if_true] at hs
          split at hs
          · simp at hs
          · rename_i hneg
            have := (List.getElem?_eq_some_iff.mp hs).1
            simp only
            omega
        · exact ih rs hr jv hj hvalid


theorem all_true_eq_replicate (bs : List Bool) (h : countSet bs = bs.length) :
    bs = List.replicate bs.length true := by
  induction bs with
  | nil => rfl
  | cons b bs ih =>
    have hle := countSet_le bs
    rw [countSet_cons] at h
    cases b
    · simp at h; omega
    · simp at h
      rw [List.length_cons, List.replicate_succ, ← ih (by omega)]

theorem decode_validityOf {α : Type} (a : Arr α) (hwf : a.WF) :
    a.decode = decodeWith a.vals (validityOf a) ∧ a.vals.length = (validityOf a).length := by
  unfold Arr.decode validityOf Arr.len
  cases hn : a.nulls with
  | none =>
    simp only
    refine ⟨(decodeWith_all_valid a.vals _ (by simp [countSet]) (by simp)).symm, by simp⟩
  | some bs => exact ⟨rfl, (hwf bs hn).symm⟩

theorem checkBounds_of_in_range (maxIdx len : Nat) (idx : IdxArr)
    (h : ∀ iv ∈ idxPairs idx, iv.2 = true → 0 ≤ iv.1 ∧ iv.1 < (len : Int)) :
    checkBounds maxIdx len idx = true := by
  unfold checkBounds
  by_cases hm : len > maxIdx
  · simp [hm]
  · simp only [hm, if_false]
    unfold idxPairs at h
    cases hn : nullsIfAny idx.nulls with
    | some n =>
      rw [hn] at h
      simp only at h ⊢
      rw [List.all_eq_true]
      intro iv hiv
      cases hv : iv.2 with
      | false => simp
      | true => simpa using (h iv hiv hv).2
    | none =>
      rw [hn] at h
      simp only at h ⊢
      rw [List.all_eq_true]
      intro i hi
      have := h (i, true) (by simpa using hi) rfl
      simpa using this

/-- `take_primitive` (`take_native` + `take_nulls`) agrees with `takeSpec` -/
theorem takeKernel_spec {α : Type} [Inhabited α] (maxIdx : Nat) (check : Bool) (a : Arr α) (hwf : a.WF)
    (idx : IdxArr) (hiw : idx.WF) :
    match takeSpec a.decode idx.decode with
    | some r => ∃ out, takeKernel maxIdx check a idx = .ok out ∧ out.decode = r
    | none => ∀ out, takeKernel maxIdx check a idx ≠ .ok out := by
  obtain ⟨hD, hbl⟩ := decode_validityOf a hwf
  rw [takeSpec_pairs a.decode idx hiw]
  have tp := take_pairs a.vals (validityOf a) hbl (idxPairs idx)
  rw [← hD] at tp
  have hplen := length_idxPairs idx hiw
  cases hs : (idxPairs idx).mapM (specStep a.decode) with
  | none =>
    rw [hs] at tp
    simp only at tp ⊢
    intro out
    unfold takeKernel
    split
    · simp
    · split
      · rename_i hemp
        have : idxPairs idx = [] := by
          have : idx.vals = [] := by simpa using hemp
          rw [this] at hplen
          exact List.eq_nil_of_length_eq_zero hplen
        rw [this] at hs
        simp at hs
      · rw [takeNative_pairs, tp]
        simp
  | some r =>
    rw [hs] at tp
    simp only at tp ⊢
    obtain ⟨v, b, hN, hB, hdec, hvl, hbl2⟩ := tp
    have hrange := spec_in_range a.decode (idxPairs idx) r hs
    rw [Arr.length_decode a hwf] at hrange
    have hcb := checkBounds_of_in_range maxIdx a.len idx hrange
    unfold takeKernel
    simp only [hcb, Bool.not_true, Bool.and_false, Bool.false_eq_true, if_false]
    by_cases hemp : idx.vals.isEmpty = true
    · simp only [hemp, if_true]
      have : idxPairs idx = [] := by
        have : idx.vals = [] := by simpa using hemp
        rw [this] at hplen
        exact List.eq_nil_of_length_eq_zero hplen
      rw [this] at hs
      simp at hs
      subst hs
      exact ⟨_, rfl, rfl⟩
    · simp only [hemp, Bool.false_eq_true, if_false]
      rw [takeNative_pairs, hN]
      unfold takeNulls
      cases hna : nullsIfAny a.nulls with
      | some bs =>
        obtain ⟨hn, _⟩ := nullsIfAny_some hna
        have hv : validityOf a = bs := by unfold validityOf; simp only [hn]
        rw [hv] at hB
        simp only
        rw [takeBits_pairs, hB]
        simp only
        refine ⟨_, rfl, ?_⟩
        unfold Arr.decode
        by_cases hz : nullCount b = 0
        · simp only [hz, if_true]
          rw [← hdec, decodeWith_all_valid v b (by unfold nullCount at hz; have := countSet_le b; omega) (by omega)]
        · simp only [hz, if_false]
          exact hdec
      | none =>
        simp only
        refine ⟨_, rfl, ?_⟩
        rw [← decode_with_idx_nulls v idx hiw (by omega), ← hdec]
        congr 1
        have hrep : validityOf a = List.replicate (validityOf a).length true := by
          rcases nullsIfAny_none hna with hn | ⟨bs, hn, hall⟩
          · unfold validityOf; simp [hn]
          · have : validityOf a = bs := by unfold validityOf; simp only [hn]
            rw [this]; exact all_true_eq_replicate bs hall
        rw [hrep] at hB
        exact (bits_all_true _ _ _ hB).symm

/-! ### concat / nullif -/

theorem decodeWith_append {α : Type} (A B : List α) (a b : List Bool) (h : A.length = a.length) :
    decodeWith (A ++ B) (a ++ b) = decodeWith A a ++ decodeWith B b := by
  induction A generalizing a with
  | nil => cases a <;> simp_all [decodeWith]
  | cons x A ih =>
    cases a with
    | nil => simp at h
    | cons y a => simp [decodeWith, ih a (by simpa using h)]

theorem concat_flatten {α : Type} (arrs : List (Arr α)) (hwf : ∀ a ∈ arrs, a.WF) :
    decodeWith (arrs.map (·.vals)).flatten (arrs.map validityOf).flatten = (arrs.map Arr.decode).flatten ∧
    (arrs.map (·.vals)).flatten.length = (arrs.map validityOf).flatten.length := by
  induction arrs with
  | nil => simp [decodeWith]
  | cons a arrs ih =>
    obtain ⟨h1, h2⟩ := ih (fun x hx => hwf x (by simp [hx]))
    obtain ⟨hD, hl⟩ := decode_validityOf a (hwf a (by simp))
    simp only [List.map_cons, List.flatten_cons]
    rw [decodeWith_append _ _ _ _ hl, h1, hD]
    exact ⟨rfl, by simp only [List.length_append]; omega⟩

theorem decode_none {α : Type} (v : List α) : Arr.decode { vals := v, nulls := none } = v.map some := rfl
theorem decode_some {α : Type} (v : List α) (b : List Bool) :
    Arr.decode { vals := v, nulls := some b } = decodeWith v b := rfl

theorem concatPrimitive_decode {α : Type} (arrs : List (Arr α)) (hwf : ∀ a ∈ arrs, a.WF) :
    (concatPrimitive arrs).decode = concatSpec (arrs.map Arr.decode) ∧ (concatPrimitive arrs).WF := by
  obtain ⟨h1, h2⟩ := concat_flatten arrs hwf
  unfold concatPrimitive concatSpec finishNulls
  constructor
  · by_cases hz : nullCount (arrs.map validityOf).flatten = 0
    · simp only [hz, if_true]
      rw [decode_none, ← h1, decodeWith_all_valid _ _ (by unfold nullCount at hz; have := countSet_le (arrs.map validityOf).flatten; omega) h2]
    · simp only [hz, if_false]
      rw [decode_some]
      exact h1
  · intro bs hbs
    by_cases hz : nullCount (arrs.map validityOf).flatten = 0
    · simp [hz] at hbs
    · simp [hz] at hbs
      subst hbs
      exact h2.symm

theorem decodeWith_zipWith_nullif {α : Type} (vals : List α) (bits : List Bool) (r : List (Option Bool))
    (h1 : vals.length = bits.length) (h2 : vals.length = r.length) :
    decodeWith vals (List.zipWith (fun l m => l && !m) bits (prepMask r)) = nullifSpec (decodeWith vals bits) r := by
  induction vals generalizing bits r with
  | nil => cases bits <;> cases r <;> simp_all [decodeWith, nullifSpec, prepMask]
  | cons v vals ih =>
    cases bits with
    | nil => simp at h1
    | cons b bits =>
      cases r with
      | nil => simp at h2
      | cons m r =>
        have := ih bits r (by simpa using h1) (by simpa using h2)
        simp only [prepMask, List.map_cons, List.zipWith_cons_cons, decodeWith, nullifSpec] at this ⊢
        rw [this]
        rcases m with _ | _ | _ <;> cases b <;> simp

theorem nullifKernel_decode {α : Type} (a : Arr α) (hwf : a.WF) (r : List (Option Bool)) :
    (a.len = r.length → ∃ out, nullifKernel a r = some out ∧ out.decode = nullifSpec a.decode r) ∧
    (a.len ≠ r.length → nullifKernel a r = none) := by
  obtain ⟨hD, hl⟩ := decode_validityOf a hwf
  constructor
  · intro hlen
    unfold nullifKernel
    simp only [hlen, ne_eq, not_true_eq_false, if_false]
    by_cases h0 : r.length = 0
    · have hr : r = [] := List.eq_nil_of_length_eq_zero h0
      have hv : a.vals = [] := List.eq_nil_of_length_eq_zero (by unfold Arr.len at hlen; omega)
      simp only [h0, if_true]
      refine ⟨a, rfl, ?_⟩
      rw [hD, hr, hv]
      cases validityOf a <;> simp [decodeWith, nullifSpec]
    · simp only [h0, if_false]
      refine ⟨_, rfl, ?_⟩
      rw [hD]
      exact decodeWith_zipWith_nullif a.vals (validityOf a) r hl (by unfold Arr.len at hlen; exact hlen)
  · intro hne
    unfold nullifKernel
    simp [hne]

/-! ### interleave -/

theorem getIdx_ofNat {α : Type} (l : List α) (k : Nat) : getIdx l (k : Int) = l[k]? := by
  unfold getIdx
  have : ¬ ((k : Int) < 0) := by omega
  simp [this]

theorem getElem?_decodeWith {α : Type} (vals : List α) (bits : List Bool) (hl : vals.length = bits.length) (k : Nat) :
    (decodeWith vals bits)[k]? =
      (vals[k]?).bind (fun v => (bits[k]?).map (fun b => if b then some v else none)) := by
  have := getIdx_decodeWith vals bits hl (k : Int)
  rw [getIdx_ofNat, getIdx_ofNat, getIdx_ofNat] at this
  rw [this]
  cases vals[k]? <;> cases bits[k]? <;> rfl

/-- per-element lookups of `interleave` -/
def ivStep {α : Type} (arrs : List (Arr α)) (p : Nat × Nat) : Option α := (arrs[p.1]?).bind (fun a => a.vals[p.2]?)
def inStep {α : Type} (arrs : List (Arr α)) (p : Nat × Nat) : Option Bool := (arrs[p.1]?).bind (fun a => (validityOf a)[p.2]?)
def isStep {α : Type} (arrs : List (Arr α)) (p : Nat × Nat) : Option (Option α) :=
  ((arrs.map Arr.decode)[p.1]?).bind (fun a => a[p.2]?)

theorem interleave_elem {α : Type} (arrs : List (Arr α)) (hwf : ∀ a ∈ arrs, a.WF) (p : Nat × Nat) :
    isStep arrs p =
      (ivStep arrs p).bind (fun v => (inStep arrs p).map (fun b => if b then some v else none)) := by
  unfold isStep ivStep inStep
  rw [List.getElem?_map]
  cases ha : arrs[p.1]? with
  | none => simp
  | some a =>
    have hmem : a ∈ arrs := List.mem_of_getElem? ha
    obtain ⟨hD, hl⟩ := decode_validityOf a (hwf a hmem)
    simp only [Option.map_some, Option.bind_some]
    rw [hD]
    exact getElem?_decodeWith a.vals (validityOf a) hl p.2

theorem interleave_lists {α : Type} (arrs : List (Arr α)) (hwf : ∀ a ∈ arrs, a.WF) (idx : List (Nat × Nat)) :
    match idx.mapM (isStep arrs) with
    | some r => ∃ v b, idx.mapM (ivStep arrs) = some v ∧ idx.mapM (inStep arrs) = some b ∧
        decodeWith v b = r ∧ v.length = b.length
    | none => idx.mapM (ivStep arrs) = none ∨ idx.mapM (inStep arrs) = none := by
  induction idx with
  | nil => simp [decodeWith]
  | cons p idx ih =>
    simp only [List.mapM_cons]
    rw [interleave_elem arrs hwf p]
    cases hv : ivStep arrs p with
    | none => simp
    | some x =>
      cases hb : inStep arrs p with
      | none => simp
      | some y =>
        simp only [Option.bind_some, Option.map_some]
        cases hs : idx.mapM (isStep arrs) with
        | none =>
          rw [hs] at ih
          rcases ih with ih | ih <;> simp [ih]
        | some r =>
          rw [hs] at ih
          obtain ⟨v, b, h1, h2, h3, h4⟩ := ih
          simp [h1, h2, decodeWith, h3, h4]

theorem inStep_all_true {α : Type} (arrs : List (Arr α))
    (hno : ∀ a ∈ arrs, countSet (validityOf a) = (validityOf a).length)
    (idx : List (Nat × Nat)) (b : List Bool) (h : idx.mapM (inStep arrs) = some b) :
    countSet b = b.length := by
  induction idx generalizing b with
  | nil => simp at h; subst h; rfl
  | cons p idx ih =>
    simp only [List.mapM_cons] at h
    cases hb : inStep arrs p with
    | none => simp [hb] at h
    | some y =>
      cases hr : idx.mapM (inStep arrs) with
      | none => simp [hb, hr] at h
      | some bs =>
        simp [hb, hr] at h
        subst h
        have hy : y = true := by
          unfold inStep at hb
          cases ha : arrs[p.1]? with
          | none => simp [ha] at hb
          | some a =>
            simp only [ha, Option.bind_some] at hb
            have hmem : a ∈ arrs := List.mem_of_getElem? ha
            have hrep := all_true_eq_replicate (validityOf a) (hno a hmem)
            rw [hrep] at hb
            have := List.mem_of_getElem? hb
            exact List.eq_of_mem_replicate this
        subst hy
        rw [countSet_cons, ih bs hr]
        simp; omega

theorem interleavePrimitive_spec {α : Type} (arrs : List (Arr α)) (hwf : ∀ a ∈ arrs, a.WF) (idx : List (Nat × Nat)) :
    match interleaveSpec (arrs.map Arr.decode) idx with
    | some r => ∃ out, interleavePrimitive arrs idx = some out ∧ out.decode = r
    | none => interleavePrimitive arrs idx = none := by
  have h := interleave_lists arrs hwf idx
  have e1 : interleaveSpec (arrs.map Arr.decode) idx = idx.mapM (isStep arrs) := rfl
  rw [e1]
  unfold interleavePrimitive
  change match idx.mapM (isStep arrs) with
    | some r => ∃ out, (match idx.mapM (ivStep arrs), idx.mapM (inStep arrs) with
        | some v, some n => some ({ vals := v, nulls := if (arrs.any (fun a => match a.nulls with | some b => decide (nullCount b ≠ 0) | none => false)) = true then some n else none } : Arr α)
        | _, _ => none) = some out ∧ out.decode = r
    | none => (match idx.mapM (ivStep arrs), idx.mapM (inStep arrs) with
        | some v, some n => some ({ vals := v, nulls := if (arrs.any (fun a => match a.nulls with | some b => decide (nullCount b ≠ 0) | none => false)) = true then some n else none } : Arr α)
        | _, _ => none) = none
  cases hs : idx.mapM (isStep arrs) with
  | none =>
    rw [hs] at h
    simp only at h ⊢
    rcases h with h | h
    · rw [h]
    · rw [h]; cases idx.mapM (ivStep arrs) <;> rfl
  | some r =>
    rw [hs] at h
    simp only at h ⊢
    obtain ⟨v, b, h1, h2, h3, h4⟩ := h
    rw [h1, h2]
    refine ⟨_, rfl, ?_⟩
    by_cases hn : (arrs.any (fun a => match a.nulls with | some b => decide (nullCount b ≠ 0) | none => false)) = true
    · simp only [hn, if_true]
      rw [decode_some]; exact h3
    · simp only [hn, Bool.false_eq_true, if_false]
      rw [decode_none, ← h3]
      have hno : ∀ a ∈ arrs, countSet (validityOf a) = (validityOf a).length := by
        intro a ha
        unfold validityOf
        cases hnl : a.nulls with
        | none => simp [countSet]
        | some bs =>
          simp only
          have : ¬ (decide (nullCount bs ≠ 0) = true) := by
            intro hc
            apply hn
            rw [List.any_eq_true]
            exact ⟨a, ha, by simp only [hnl]; exact hc⟩
          have hz : nullCount bs = 0 := by simpa using this
          unfold nullCount at hz
          have := countSet_le bs
          omega
      exact (decodeWith_all_valid v b (inStep_all_true arrs hno idx b h2) h4).symm

/-! ### shift -/

theorem decodeWith_drop {α : Type} (vals : List α) (bs : List Bool) (c : Nat) :
    decodeWith (vals.drop c) (bs.drop c) = (decodeWith vals bs).drop c := by
  induction vals generalizing bs c with
  | nil => cases bs <;> cases c <;> simp [decodeWith]
  | cons v vals ih =>
    cases bs with
    | nil => cases c <;> simp [decodeWith]
    | cons b bs =>
      cases c with
      | zero => simp [decodeWith]
      | succ c => simp [decodeWith, ih]

theorem slice_decode {α : Type} (a : Arr α) (hwf : a.WF) (off n : Nat) :
    (a.slice off n).decode = (a.decode.drop off).take n ∧ (a.slice off n).WF := by
  unfold Arr.slice
  cases hn : a.nulls with
  | none =>
    constructor
    · unfold Arr.decode; simp [hn]
    · intro bs h; simp at h
  | some bs =>
    constructor
    · unfold Arr.decode; simp [hn, decodeWith_take, decodeWith_drop]
    · intro b h
      simp at h
      subst h
      simp [hwf bs hn]

theorem nullArr_decode {α : Type} [Inhabited α] (n : Nat) :
    (nullArr n : Arr α).decode = List.replicate n none ∧ (nullArr n : Arr α).WF := by
  constructor
  · unfold nullArr Arr.decode
    simp only
    induction n with
    | zero => simp [decodeWith]
    | succ n ih => simp [List.replicate_succ, decodeWith, ih]
  · intro bs h
    unfold nullArr at h ⊢
    simp at h
    subst h
    simp

theorem shift_right_list {α : Type} (vs : List (Option α)) (k : Nat) (hk : 0 < k) (hlt : k < vs.length) :
    List.replicate k none ++ vs.take (vs.length - k) = shiftSpec vs (k : Int) := by
  apply List.ext_getElem?
  intro i
  unfold shiftSpec
  rw [List.getElem?_map]
  by_cases hi : i < vs.length
  · rw [List.getElem?_range hi]
    simp only [Option.map_some]
    by_cases hik : i < k
    · rw [List.getElem?_append_left (by simpa using hik)]
      have : (i : Int) - (k : Int) < 0 := by omega
      simp [this, hik]
    · rw [List.getElem?_append_right (by simp; omega)]
      have hneg : ¬ ((i : Int) - (k : Int) < 0) := by omega
      have htn : ((i : Int) - (k : Int)).toNat = i - k := by omega
      simp only [hneg, if_false, htn, List.length_replicate]
      rw [List.getElem?_take]
      have : i - k < vs.length - k := by omega
      simp only [this, if_true]
      rw [List.getElem?_eq_getElem (by omega)]
      simp
  · rw [List.getElem?_eq_none (by simp; omega), List.getElem?_eq_none (by simp; omega)]
    rfl

theorem shift_left_list {α : Type} (vs : List (Option α)) (m : Nat) (hm : 0 < m) (hlt : m < vs.length) :
    vs.drop m ++ List.replicate m none = shiftSpec vs (-(m : Int)) := by
  apply List.ext_getElem?
  intro i
  unfold shiftSpec
  rw [List.getElem?_map]
  by_cases hi : i < vs.length
  · rw [List.getElem?_range hi]
    simp only [Option.map_some]
    have hneg : ¬ ((i : Int) - -(m : Int) < 0) := by omega
    have htn : ((i : Int) - -(m : Int)).toNat = i + m := by omega
    simp only [hneg, if_false, htn]
    by_cases him : i < vs.length - m
    · rw [List.getElem?_append_left (by simp; omega), List.getElem?_drop]
      have : m + i = i + m := by omega
      rw [this, List.getElem?_eq_getElem (by omega)]
      simp
    · have hlen' : (vs.drop m).length = vs.length - m := by simp
      rw [List.getElem?_append_right (by omega), hlen', List.getElem?_replicate]
      have hx : i - (vs.length - m) < m := by omega
      simp only [hx, if_true]
      rw [List.getElem?_eq_none (l := vs) (by omega)]
      rfl
  · rw [List.getElem?_eq_none (by simp; omega), List.getElem?_eq_none (by simp; omega)]
    rfl

theorem shift_all_null_list {α : Type} (vs : List (Option α)) (k : Int) (hk : k.natAbs ≥ vs.length) (h0 : k ≠ 0) :
    List.replicate vs.length none = shiftSpec vs k := by
  apply List.ext_getElem?
  intro i
  unfold shiftSpec
  rw [List.getElem?_map]
  by_cases hi : i < vs.length
  · rw [List.getElem?_range hi]
    simp only [Option.map_some]
    rw [List.getElem?_replicate]
    simp only [hi, if_true]
    by_cases hneg : (i : Int) - k < 0
    · simp [hneg]
    · simp only [hneg, if_false]
      rw [List.getElem?_eq_none (by omega)]
      rfl
  · rw [List.getElem?_eq_none (by simp; omega), List.getElem?_eq_none (by simp; omega)]
    rfl

theorem shift_zero_list {α : Type} (vs : List (Option α)) : vs = shiftSpec vs 0 := by
  apply List.ext_getElem?
  intro i
  unfold shiftSpec
  rw [List.getElem?_map]
  by_cases hi : i < vs.length
  · rw [List.getElem?_range hi]
    have h1 : ¬ ((i : Int) - 0 < 0) := by omega
    have h2 : ((i : Int) - 0).toNat = i := by omega
    simp only [Option.map_some, h1, if_false, h2]
    rw [List.getElem?_eq_getElem hi]
    rfl
  · rw [List.getElem?_eq_none (by omega), List.getElem?_eq_none (by simp; omega)]
    rfl

theorem shiftKernel_decode {α : Type} [Inhabited α] (a : Arr α) (hwf : a.WF) (k : Int) :
    (shiftKernel a k).decode = shiftSpec a.decode k := by
  have hlen := Arr.length_decode a hwf
  unfold shiftKernel
  by_cases h0 : k = 0
  · subst h0; simp only [if_true]; exact shift_zero_list _
  simp only [h0, if_false]
  by_cases habs : k.natAbs ≥ a.len
  · simp only [habs, if_true]
    rw [(nullArr_decode a.len).1, ← hlen]
    exact shift_all_null_list a.decode k (by omega) h0
  simp only [habs, if_false]
  by_cases hpos : k > 0
  · simp only [hpos, if_true]
    have hw : ∀ x ∈ [nullArr k.toNat, a.slice 0 (a.len - k.toNat)], Arr.WF x := by
      intro x hx
      simp only [List.mem_cons, List.mem_nil_iff, or_false] at hx
      rcases hx with hx | hx
      · subst hx; exact (nullArr_decode _).2
      · subst hx; exact (slice_decode a hwf _ _).2
    rw [(concatPrimitive_decode _ hw).1]
    simp only [concatSpec, List.map_cons, List.map_nil, List.flatten_cons, List.flatten_nil, List.append_nil]
    rw [(nullArr_decode _).1, (slice_decode a hwf _ _).1, List.drop_zero, ← hlen]
    have hk : (k.toNat : Int) = k := by omega
    rw [← hk]
    exact shift_right_list a.decode k.toNat (by omega) (by omega)
  · simp only [hpos, if_false]
    have hw : ∀ x ∈ [a.slice (-k).toNat (a.len - (-k).toNat), nullArr (-k).toNat], Arr.WF x := by
      intro x hx
      simp only [List.mem_cons, List.mem_nil_iff, or_false] at hx
      rcases hx with hx | hx
      · subst hx; exact (slice_decode a hwf _ _).2
      · subst hx; exact (nullArr_decode _).2
    rw [(concatPrimitive_decode _ hw).1]
    simp only [concatSpec, List.map_cons, List.map_nil, List.flatten_cons, List.flatten_nil, List.append_nil]
    rw [(nullArr_decode _).1, (slice_decode a hwf _ _).1]
    have hk : k = -(((-k).toNat : Nat) : Int) := by omega
    have htake : (a.decode.drop (-k).toNat).take (a.len - (-k).toNat) = a.decode.drop (-k).toNat := by
      apply List.take_of_length_le
      simp; omega
    rw [htake]
    conv => rhs; rw [hk]
    exact shift_left_list a.decode (-k).toNat (by omega) (by omega)

/-! ### byte arrays -/

/-- running end offsets of a list of slot values, starting after `cur` bytes -/
def scanEnds : List (List Nat) → Nat → List Nat
  | [], _ => []
  | l :: ls, cur => (cur + l.length) :: scanEnds ls (cur + l.length)

theorem copyRange_append_mid {α : Type} (pre l post : List α) :
    copyRange (pre ++ l ++ post) (pre.length, pre.length + l.length) = l := by
  unfold copyRange
  simp

theorem slotOf_cons (o : Nat) (os data : List Nat) (i : Nat) :
    slotOf (o :: os) data (i + 1) = slotOf os data i := by
  unfold slotOf; simp

/-- slots of an array built from running offsets and concatenated values are the values -/
theorem slots_build (L : List (List Nat)) : ∀ (pre : List Nat),
    (List.range L.length).map (slotOf (pre.length :: scanEnds L pre.length) (pre ++ L.flatten)) = L := by
  induction L with
  | nil => intro pre; simp
  | cons l ls ih =>
    intro pre
    rw [List.length_cons, List.range_succ_eq_map, List.map_cons, List.map_map]
    have h0 : slotOf (pre.length :: scanEnds (l :: ls) pre.length) (pre ++ (l :: ls).flatten) 0 = l := by
      unfold slotOf scanEnds
      simp only [List.getD_cons_zero, List.getD_cons_succ, List.flatten_cons, Nat.zero_add]
      rw [← List.append_assoc]
      exact copyRange_append_mid pre l ls.flatten
    rw [h0]
    congr 1
    have := ih (pre ++ l)
    simp only [List.length_append, List.append_assoc] at this
    refine Eq.trans ?_ this
    apply List.map_congr_left
    intro i _
    simp only [Function.comp, scanEnds, List.flatten_cons, Nat.succ_eq_add_one]
    rw [slotOf_cons]

/-- well-formed byte array: monotone offsets inside the value buffer, one validity bit per slot -/
structure BArr.WF (b : BArr) : Prop where
  nonempty : 0 < b.offsets.length
  mono : ∀ i j, i ≤ j → j < b.offsets.length → b.offsets.getD i 0 ≤ b.offsets.getD j 0
  bound : ∀ j, j < b.offsets.length → b.offsets.getD j 0 ≤ b.data.length
  nulls : ∀ bs, b.nulls = some bs → bs.length = b.len

theorem length_copyRange {α : Type} (l : List α) (a c : Nat) (h : c ≤ l.length) :
    (copyRange l (a, c)).length = c - a := by
  unfold copyRange; simp; omega

theorem length_slot (b : BArr) (hw : b.WF) (i : Nat) (hi : i < b.len) :
    (slotOf b.offsets b.data i).length = b.offsets.getD (i + 1) 0 - b.offsets.getD i 0 := by
  unfold slotOf
  exact length_copyRange _ _ _ (hw.bound (i + 1) (by unfold BArr.len at hi; omega))

theorem extendOffsetsIdx_eq (b : BArr) (hw : b.WF) (idx : List Nat) (hin : ∀ i ∈ idx, i < b.len) (cur : Nat) :
    extendOffsetsIdx b.offsets idx cur = scanEnds (idx.map (slotOf b.offsets b.data)) cur := by
  induction idx generalizing cur with
  | nil => rfl
  | cons i is ih =>
    simp only [extendOffsetsIdx, List.map_cons, scanEnds]
    rw [length_slot b hw i (hin i (by simp)), ih (fun j hj => hin j (by simp [hj]))]

theorem extendIdx_eq (b : BArr) (idx : List Nat) :
    extendIdx b.offsets b.data idx = (idx.map (slotOf b.offsets b.data)).flatten := by
  unfold extendIdx slotOf
  rw [List.flatMap_def]

/-- the byte array `FilterBytes` / `take_bytes` / `interleave_bytes` build from a list of source
slots holds exactly those slot values -/
theorem built_slots (b : BArr) (hw : b.WF) (idx : List Nat) (hin : ∀ i ∈ idx, i < b.len) (n : Option (List Bool)) :
    (BArr.mk (0 :: extendOffsetsIdx b.offsets idx 0) (extendIdx b.offsets b.data idx) n).slots
      = idx.map (slotOf b.offsets b.data) := by
  unfold BArr.slots BArr.len
  rw [extendOffsetsIdx_eq b hw idx hin, extendIdx_eq]
  have := slots_build (idx.map (slotOf b.offsets b.data)) []
  simp only [List.length_nil, List.nil_append, List.length_map] at this
  simp only [List.length_cons]
  have hsl : ∀ (L : List (List Nat)) c, (scanEnds L c).length = L.length := by
    intro L; induction L <;> simp_all [scanEnds]
  have hl : (scanEnds (idx.map (slotOf b.offsets b.data)) 0).length = idx.length := by
    rw [hsl]; simp
  rw [hl]
  simpa using this


theorem copyRange_split {α : Type} (l : List α) (a b c : Nat) (hab : a ≤ b) (hbc : b ≤ c) :
    copyRange l (a, c) = copyRange l (a, b) ++ copyRange l (b, c) := by
  unfold copyRange
  simp only
  have e : c - a = (b - a) + (c - b) := by omega
  rw [e, List.take_add, List.drop_drop]
  have : a + (b - a) = b := by omega
  rw [this]

theorem indicesAux_lt (m : List Bool) (k : Nat) : ∀ i ∈ indicesAux m k, i < k + m.length := by
  induction m generalizing k with
  | nil => simp [indicesAux]
  | cons b m ih =>
    intro i hi
    cases b
    · simp only [indicesAux] at hi
      have := ih (k + 1) i hi
      simp; omega
    · simp only [indicesAux, List.mem_cons] at hi
      rcases hi with hi | hi
      · subst hi; simp
      · have := ih (k + 1) i hi
        simp; omega

/-- the rows visited run by run (`for idx in start..end`) are the set-bit indices -/
theorem slices_rows (m : List Bool) : ∀ i,
    (slicesAux m i none).flatMap (fun se => (List.range (se.2 - se.1)).map (· + se.1)) = indicesAux m i ∧
    ∀ s, s ≤ i → (slicesAux m i (some s)).flatMap (fun se => (List.range (se.2 - se.1)).map (· + se.1))
      = (List.range (i - s)).map (· + s) ++ indicesAux m i := by
  induction m with
  | nil => intro i; simp [slicesAux, indicesAux]
  | cons b m ih =>
    intro i
    have ih' := ih (i + 1)
    cases b with
    | false =>
      refine ⟨by simpa [slicesAux, indicesAux] using ih'.1, ?_⟩
      intro s hs
      simp only [slicesAux, indicesAux, List.flatMap_cons]
      rw [ih'.1]
    | true =>
      constructor
      · simp only [slicesAux, indicesAux]
        rw [ih'.2 i (by omega)]
        have : i + 1 - i = 1 := by omega
        rw [this]; simp
      · intro s hs
        simp only [slicesAux, indicesAux]
        rw [ih'.2 s (by omega)]
        have e : i + 1 - s = (i - s) + 1 := by omega
        rw [e, List.range_succ, List.map_append]
        have : i - s + s = i := by omega
        simp [this]

/-- one contiguous copy per run moves the same bytes as one copy per row -/
theorem slices_bytes (b : BArr) (hw : b.WF) (m : List Bool) : ∀ i, i + m.length < b.offsets.length →
    (slicesAux m i none).flatMap (fun se => copyRange b.data (b.offsets.getD se.1 0, b.offsets.getD se.2 0))
      = extendIdx b.offsets b.data (indicesAux m i) ∧
    ∀ s, s ≤ i → (slicesAux m i (some s)).flatMap (fun se => copyRange b.data (b.offsets.getD se.1 0, b.offsets.getD se.2 0))
      = copyRange b.data (b.offsets.getD s 0, b.offsets.getD i 0) ++ extendIdx b.offsets b.data (indicesAux m i) := by
  induction m with
  | nil => intro i _; simp [slicesAux, indicesAux, extendIdx]
  | cons x m ih =>
    intro i hi
    have ih' := ih (i + 1) (by simp at hi; omega)
    cases x with
    | false =>
      refine ⟨by simpa [slicesAux, indicesAux] using ih'.1, ?_⟩
      intro s hs
      simp only [slicesAux, indicesAux, List.flatMap_cons]
      rw [ih'.1]
    | true =>
      have hlt : i + 1 < b.offsets.length := by simp at hi; omega
      constructor
      · simp only [slicesAux, indicesAux]
        rw [ih'.2 i (by omega)]
        simp [extendIdx]
      · intro s hs
        simp only [slicesAux, indicesAux]
        rw [ih'.2 s (by omega)]
        rw [copyRange_split b.data _ (b.offsets.getD i 0) _ (hw.mono s i hs (by omega)) (hw.mono i (i + 1) (by omega) hlt)]
        simp [extendIdx]

/-- **`FilterBytes`, all four strategies**: the filtered array holds exactly the slot values
under set bits, in order -/
theorem filterBytes_slots (b : BArr) (hw : b.WF) (p : Predicate) (hv : p.Valid)
    (hl : p.filter.length ≤ b.len) (hs : p.strategy ≠ .all ∧ p.strategy ≠ .none) :
    (filterBytes b p).slots = filt b.slots p.filter := by
  obtain ⟨hc, hstr⟩ := hv
  have hin := indicesAux_lt p.filter 0
  have hin' : ∀ i ∈ indicesAux p.filter 0, i < b.len := fun i hi => by have := hin i hi; omega
  have hslots : b.slots.length = b.len := by simp [BArr.slots]
  have hmap : (indicesAux p.filter 0).map (slotOf b.offsets b.data) = filt b.slots p.filter := by
    have h := indicesAux_map b.slots [] p.filter 0 (by omega)
    rw [List.drop_zero] at h
    rw [← h]
    apply List.map_congr_left
    intro j hj
    have hj' := hin' j hj
    unfold BArr.slots
    rw [List.getD_eq_getElem?_getD, List.getElem?_map, List.getElem?_range hj']
    rfl
  have hidx := built_slots b hw (indicesAux p.filter 0) hin' (filterNulls b.nulls p)
  have hlen1 : 0 + p.filter.length < b.offsets.length := by unfold BArr.len at hl; have := hw.nonempty; omega
  have hsl : extendOffsetsSlices b.offsets (slicesOf p.filter) = extendOffsetsIdx b.offsets (indicesAux p.filter 0) 0 := by
    unfold extendOffsetsSlices slicesOf
    rw [(slices_rows p.filter 0).1]
  have hsd : extendSlices b.offsets b.data (slicesOf p.filter) = extendIdx b.offsets b.data (indicesAux p.filter 0) := by
    unfold extendSlices slicesOf
    exact (slices_bytes b hw p.filter 0 hlen1).1
  unfold filterBytes
  cases hst : p.strategy with
  | slicesIterator => simp only; rw [hsl, hsd, hidx, hmap]
  | slices sl => rw [hst] at hstr; simp only at hstr; subst hstr; simp only; rw [hsl, hsd, hidx, hmap]
  | indexIterator => simp only; rw [hc, indexIter_eq, hidx, hmap]
  | indices ix => rw [hst] at hstr; simp only at hstr; subst hstr; simp only; rw [hidx, hmap]
  | all => simp [hst] at hs
  | none => simp [hst] at hs

/-- **`filter_bytes` = `filterSpec`**: decoding the physical result (offsets + value bytes +
validity) gives exactly the rows the predicate selects from the decoded input, for every
iteration strategy -/
theorem filterBytes_decode (b : BArr) (hw : b.WF) (p : Predicate) (hv : p.Valid)
    (hl : p.filter.length ≤ b.len) (hs : p.strategy ≠ .all ∧ p.strategy ≠ .none) :
    (filterBytes b p).decode = filt b.decode p.filter := by
  have hslots := filterBytes_slots b hw p hv hl hs
  have hvw : b.view.WF := by
    intro bs h
    rw [hw.nulls bs h]; simp [BArr.view, BArr.slots]
  have hlen : p.filter.length ≤ b.view.len := by simp [BArr.view, Arr.len, BArr.slots]; exact hl
  obtain ⟨r, h1, h2, _⟩ := filterArray_decode b.view hvw p hv hlen
  have hr : r = filterPrimitive b.view p := by
    unfold filterArray at h1
    rw [if_neg (by omega)] at h1
    cases hst : p.strategy <;> simp_all
  have hn : filterNative b.view.vals p = filt b.slots p.filter :=
    filterNative_eq b.slots p hv (by simp [BArr.slots]; exact hl) hs
  unfold BArr.decode
  rw [← h2, hr]
  unfold filterPrimitive BArr.view
  simp only
  rw [hslots]
  have hcnt : (filt b.slots p.filter).length = p.count := by
    rw [length_filt _ _ (by simp [BArr.slots]; exact hl), hv.1]
  have : (filterNative b.slots p).take p.count = filt b.slots p.filter := by
    have := hn; simp only [BArr.view] at this
    rw [this, ← hcnt, List.take_length]
  rw [this]
  rfl

/-! ### zip of two primitive scalars -/

theorem zipScalars_decode {α : Type} [Inhabited α] (mask : List (Option Bool)) (t f : Option α) :
    (zipScalars mask t f).decode = zipSpec mask (List.replicate mask.length t) (List.replicate mask.length f) := by
  unfold zipScalars
  cases t <;> cases f <;> simp only [Arr.decode] <;>
  · induction mask with
    | nil => simp [prepMask, zipSpec, decodeWith]
    | cons m ms ih =>
      simp only [prepMask, List.map_cons, List.length_cons, List.replicate_succ, zipSpec, decodeWith, List.length_map] at ih ⊢
      rw [ih]
      rcases m with _ | _ | _ <;> simp

/-! ### dictionary -/

/-- dictionary arrays: kernels touch only the keys, the logical value is looked up afterwards -/
theorem filterSpec_map {α β : Type} (g : α → β) (l : List α) (m : List (Option Bool)) :
    filterSpec (l.map g) m = (filterSpec l m).map g := by
  induction l generalizing m with
  | nil => cases m <;> simp [filterSpec]
  | cons v vs ih =>
    cases m with
    | nil => simp [filterSpec]
    | cons b m => rcases b with _ | _ | _ <;> simp [filterSpec, ih]

/-! ### dictionary merge -/

theorem lookup_mem {α β : Type} [BEq α] [LawfulBEq α] (l : List (α × β)) (a : α) (b : β)
    (h : l.lookup a = some b) : (a, b) ∈ l := by
  induction l with
  | nil => simp [List.lookup] at h
  | cons x xs ih =>
    obtain ⟨k, v⟩ := x
    simp only [List.lookup] at h
    by_cases hk : a == k
    · simp [hk] at h
      have : a = k := by simpa using hk
      subst this; subst h; simp
    · simp [hk] at h
      exact List.mem_cons_of_mem _ (ih h)

/-- every interner bucket points at a merged value equal to the value it remembers -/
def MInv (dicts : List Dict) (st : MergeState) : Prop :=
  ∀ b cur v, (b, (cur, v)) ∈ st.buckets → (st.indices[v]?).map (valAt dicts) = some cur

theorem getElem?_append_stable {α : Type} (l ext : List α) (j : Nat) (x : α) (h : l[j]? = some x) :
    (l ++ ext)[j]? = some x := by
  have hj : j < l.length := by
    rcases Nat.lt_or_ge j l.length with h' | h'
    · exact h'
    · rw [List.getElem?_eq_none h'] at h; cases h
  rw [List.getElem?_append_left hj]; exact h

theorem map_getElem?_stable {α β : Type} (f : α → β) (l ext : List α) (j : Nat) (y : β)
    (h : (l[j]?).map f = some y) : ((l ++ ext)[j]?).map f = some y := by
  cases hx : l[j]? with
  | none => rw [hx] at h; cases h
  | some x => rw [getElem?_append_stable l ext j x hx]; rw [hx] at h; exact h

theorem internStep_spec (hash : Option Bytes → Nat) (maxKey : Nat) (dicts : List Dict) (st st' : MergeState)
    (dIdx : Nat) (vv : Nat × Option Bytes) (k : Nat)
    (hinv : MInv dicts st) (hval : vv.2 = valAt dicts (dIdx, vv.1))
    (h : internStep hash maxKey st dIdx vv = some (st', k)) :
    MInv dicts st' ∧ (∃ ext, st'.indices = st.indices ++ ext) ∧
    (st'.indices[k]?).map (valAt dicts) = some vv.2 := by
  have hfresh : ∀ (hh : (if st.indices.length > maxKey then none
      else some ({ buckets := (hash vv.2, (vv.2, st.indices.length)) :: st.buckets,
                   indices := st.indices ++ [(dIdx, vv.1)] }, st.indices.length) : Option (MergeState × Nat)) = some (st', k)),
      MInv dicts st' ∧ (∃ ext, st'.indices = st.indices ++ ext) ∧ (st'.indices[k]?).map (valAt dicts) = some vv.2 := by
    intro hh
    by_cases ho : st.indices.length > maxKey
    · simp [ho] at hh
    · simp only [ho, if_false, Option.some.injEq, Prod.mk.injEq] at hh
      obtain ⟨h1, h2⟩ := hh
      subst h1; subst h2
      refine ⟨?_, ⟨[(dIdx, vv.1)], rfl⟩, ?_⟩
      · intro b cur v hm
        simp only [List.mem_cons, Prod.mk.injEq] at hm
        rcases hm with ⟨_, h2, h3⟩ | hm
        · subst h2; subst h3
          simp [hval]
        · exact map_getElem?_stable _ _ _ _ _ (hinv b cur v hm)
      · simp [hval]
  unfold internStep at h
  simp only at h
  cases hl : st.buckets.lookup (hash vv.2) with
  | none => rw [hl] at h; exact hfresh h
  | some cv =>
    obtain ⟨cur, v⟩ := cv
    rw [hl] at h
    simp only at h
    by_cases hc : cur = vv.2
    · simp only [hc, if_true, Option.some.injEq, Prod.mk.injEq] at h
      obtain ⟨h1, h2⟩ := h
      subst h1; subst h2
      exact ⟨hinv, ⟨[], by simp⟩, by rw [← hc]; exact hinv _ _ _ (lookup_mem _ _ _ hl)⟩
    · simp only [hc, if_false] at h
      exact hfresh h

theorem mapDict_spec (hash : Option Bytes → Nat) (maxKey : Nat) (dicts : List Dict) (dIdx : Nat) :
    ∀ (mv : List (Nat × Option Bytes)) (st st' : MergeState) (mapping m' : List Nat) (done : List (Nat × Option Bytes)),
      MInv dicts st →
      (∀ vv ∈ mv ++ done, vv.2 = valAt dicts (dIdx, vv.1) ∧ vv.1 < mapping.length) →
      (∀ vv ∈ done, (st.indices[mapping.getD vv.1 0]?).map (valAt dicts) = some vv.2) →
      mapDict hash maxKey dIdx mv st mapping = some (st', m') →
      MInv dicts st' ∧ (∃ ext, st'.indices = st.indices ++ ext) ∧ m'.length = mapping.length ∧
      (∀ vv ∈ mv ++ done, (st'.indices[m'.getD vv.1 0]?).map (valAt dicts) = some vv.2) := by
  intro mv
  induction mv with
  | nil =>
    intro st st' mapping m' done hinv _ hdone h
    simp only [mapDict, Option.some.injEq, Prod.mk.injEq] at h
    obtain ⟨h1, h2⟩ := h
    subst h1; subst h2
    exact ⟨hinv, ⟨[], by simp⟩, rfl, by simpa using hdone⟩
  | cons vv rest ih =>
    intro st st' mapping m' done hinv hvals hdone h
    simp only [mapDict] at h
    cases hi : internStep hash maxKey st dIdx vv with
    | none => rw [hi] at h; cases h
    | some r =>
      obtain ⟨st1, k⟩ := r
      rw [hi] at h
      simp only at h
      have hvv := hvals vv (by simp)
      obtain ⟨i1, ⟨ext1, e1⟩, i3⟩ := internStep_spec hash maxKey dicts st st1 dIdx vv k hinv hvv.1 hi
      have hstep := ih st1 st' (mapping.set vv.1 k) m' (vv :: done) i1
        (by
          intro x hx
          have : x ∈ (vv :: rest) ++ done := by
            simp only [List.mem_append, List.mem_cons] at hx ⊢
            rcases hx with hx | hx | hx
            · exact Or.inl (Or.inr hx)
            · exact Or.inl (Or.inl hx)
            · exact Or.inr hx
          have := hvals x this
          simpa using this)
        (by
          intro x hx
          simp only [List.mem_cons] at hx
          by_cases hxe : x.1 = vv.1
          · -- the slot just written: same value index, hence the same value
            have hx2 : x.2 = vv.2 := by
              have hxm : x ∈ (vv :: rest) ++ done := by
                rcases hx with hx | hx
                · subst hx; simp
                · simp [hx]
              rw [(hvals x hxm).1, hvv.1, hxe]
            rw [hxe, hx2]
            have : (mapping.set vv.1 k).getD vv.1 0 = k := by
              simp [List.getD_eq_getElem?_getD, List.getElem?_set, hvv.2]
            rw [this]; exact i3
          · rcases hx with hx | hx
            · subst hx; exact absurd rfl hxe
            · have : (mapping.set vv.1 k).getD x.1 0 = mapping.getD x.1 0 := by
                simp only [List.getD_eq_getElem?_getD, List.getElem?_set]
                have : ¬ vv.1 = x.1 := fun e => hxe e.symm
                simp [this]
              rw [this, e1]
              exact map_getElem?_stable _ _ _ _ _ (hdone x hx))
        h
      obtain ⟨j1, ⟨ext2, e2⟩, j3, j4⟩ := hstep
      refine ⟨j1, ⟨ext1 ++ ext2, by rw [e2, e1, List.append_assoc]⟩, by simpa using j3, ?_⟩
      intro x hx
      apply j4 x
      simp only [List.mem_append, List.mem_cons] at hx ⊢
      rcases hx with (hx | hx) | hx
      · exact Or.inr (Or.inl hx)
      · exact Or.inl hx
      · exact Or.inr (Or.inr hx)


theorem mem_indicesAux (m : List Bool) : ∀ k v, v ∈ indicesAux m k ↔ (k ≤ v ∧ m[v - k]? = some true) := by
  induction m with
  | nil => intro k v; simp [indicesAux]
  | cons b m ih =>
    intro k v
    cases b
    · simp only [indicesAux]
      rw [ih (k + 1) v]
      constructor
      · rintro ⟨h1, h2⟩
        refine ⟨by omega, ?_⟩
        have : v - k = (v - (k + 1)) + 1 := by omega
        rw [this]; simpa using h2
      · rintro ⟨h1, h2⟩
        by_cases hv : v = k
        · subst hv; simp at h2
        · refine ⟨by omega, ?_⟩
          have : v - k = (v - (k + 1)) + 1 := by omega
          rw [this] at h2; simpa using h2
    · simp only [indicesAux, List.mem_cons]
      rw [ih (k + 1) v]
      constructor
      · rintro (h | ⟨h1, h2⟩)
        · subst h; simp
        · refine ⟨by omega, ?_⟩
          have : v - k = (v - (k + 1)) + 1 := by omega
          rw [this]; simpa using h2
      · rintro ⟨h1, h2⟩
        by_cases hv : v = k
        · exact Or.inl hv
        · right
          refine ⟨by omega, ?_⟩
          have : v - k = (v - (k + 1)) + 1 := by omega
          rw [this] at h2; simpa using h2

theorem length_valuesMask (d : Dict) (mask : Option (List Bool)) : (valuesMask d mask).length = d.values.length := by
  simp [valuesMask]

theorem mergeLoop_spec (hash : Option Bytes → Nat) (maxKey : Nat) (dicts : List Dict) (masks : Option (List (List Bool))) :
    ∀ (ds : List Dict) (dIdx : Nat) (st st' : MergeState) (mappings : List (List Nat)),
      (∀ i, ds[i]? = dicts[dIdx + i]?) → MInv dicts st →
      mergeLoop hash maxKey masks ds dIdx st = some (st', mappings) →
      MInv dicts st' ∧ (∃ ext, st'.indices = st.indices ++ ext) ∧
      ∀ i d, ds[i]? = some d → ∀ v, (valuesMask d (masks.bind (·[dIdx + i]?)))[v]? = some true →
        (st'.indices[(mappings.getD i []).getD v 0]?).map (valAt dicts) = some ((d.values[v]?).join) := by
  intro ds
  induction ds with
  | nil =>
    intro dIdx st st' mappings _ hinv h
    simp only [mergeLoop, Option.some.injEq, Prod.mk.injEq] at h
    obtain ⟨h1, h2⟩ := h
    subst h1; subst h2
    exact ⟨hinv, ⟨[], by simp⟩, by intro i d hd; simp at hd⟩
  | cons d ds ih =>
    intro dIdx st st' mappings hds hinv h
    simp only [mergeLoop] at h
    cases hm : mapDict hash maxKey dIdx (maskedValues d (valuesMask d (masks.bind (·[dIdx]?)))) st
        (List.replicate d.values.length 0) with
    | none => rw [hm] at h; cases h
    | some r =>
      obtain ⟨st1, mapping⟩ := r
      rw [hm] at h
      simp only at h
      cases hr : mergeLoop hash maxKey masks ds (dIdx + 1) st1 with
      | none => rw [hr] at h; cases h
      | some r2 =>
        obtain ⟨st2, rest⟩ := r2
        rw [hr] at h
        simp only [Option.some.injEq, Prod.mk.injEq] at h
        obtain ⟨h1, h2⟩ := h
        subst h1; subst h2
        have hd0 : dicts[dIdx]? = some d := by have := hds 0; simpa using this.symm
        have hentries : ∀ vv ∈ maskedValues d (valuesMask d (masks.bind (·[dIdx]?))) ++ [],
            vv.2 = valAt dicts (dIdx, vv.1) ∧ vv.1 < (List.replicate d.values.length 0).length := by
          intro vv hvv
          simp only [List.append_nil, maskedValues, List.mem_map] at hvv
          obtain ⟨v, hv, rfl⟩ := hvv
          have hlt := indicesAux_lt _ 0 v hv
          rw [length_valuesMask] at hlt
          constructor
          · simp [valAt, hd0]
          · simpa using hlt
        obtain ⟨a1, ⟨ext1, e1⟩, a3, a4⟩ := mapDict_spec hash maxKey dicts dIdx _ st st1 _ mapping [] hinv hentries
          (by intro vv hvv; simp at hvv) hm
        obtain ⟨b1, ⟨ext2, e2⟩, b3⟩ := ih (dIdx + 1) st1 st2 rest
          (by intro i; have := hds (i + 1); simp only [List.getElem?_cons_succ] at this; rw [this]; congr 1; omega) a1 hr
        refine ⟨b1, ⟨ext1 ++ ext2, by rw [e2, e1, List.append_assoc]⟩, ?_⟩
        intro i d' hd' v hv
        cases i with
        | zero =>
          simp only [List.getElem?_cons_zero, Option.some.injEq] at hd'
          subst hd'
          simp only [Nat.add_zero] at hv
          have hmem : (v, (d.values[v]?).join) ∈ maskedValues d (valuesMask d (masks.bind (·[dIdx]?))) ++ [] := by
            simp only [List.append_nil, maskedValues, List.mem_map]
            exact ⟨v, (mem_indicesAux _ 0 v).2 ⟨by omega, by simpa using hv⟩, rfl⟩
          have := a4 _ hmem
          simp only [List.getD_cons_zero] at this ⊢
          rw [e2]
          exact map_getElem?_stable _ _ _ _ _ this
        | succ i =>
          simp only [List.getElem?_cons_succ] at hd'
          have := b3 i d' hd' v (by have e : dIdx + 1 + i = dIdx + (i + 1) := by omega
                                    rw [e]; exact hv)
          simpa using this

/-- **`merge_dictionary_values` is sound**: for every bucket function (hash collisions included)
and key width, every value slot referenced by a selected valid key is mapped to a slot of the
merged values that holds the same `Option bytes` — in particular a null slot stays null and is
never identified with a valid empty string. -/
theorem mergeDictionaryValues_sound (hash : Option Bytes → Nat) (maxKey : Nat) (dicts : List Dict)
    (masks : Option (List (List Bool))) (mappings : List (List Nat)) (merged : List (Option Bytes))
    (h : mergeDictionaryValues hash maxKey dicts masks = some (mappings, merged)) :
    ∀ i d, dicts[i]? = some d → ∀ v, (valuesMask d (masks.bind (·[i]?)))[v]? = some true →
      merged[(mappings.getD i []).getD v 0]? = some ((d.values[v]?).join) := by
  unfold mergeDictionaryValues at h
  cases hr : mergeLoop hash maxKey masks dicts 0 { buckets := [], indices := [] } with
  | none => rw [hr] at h; cases h
  | some r =>
    obtain ⟨st', ms⟩ := r
    rw [hr] at h
    simp only [Option.map_some, Option.some.injEq, Prod.mk.injEq] at h
    obtain ⟨h1, h2⟩ := h
    subst h1; subst h2
    have := mergeLoop_spec hash maxKey dicts masks dicts 0 _ st' ms (by intro i; simp)
      (by intro b cur v hm; simp at hm) hr
    intro i d hd v hv
    have := this.2.2 i d hd v (by simpa using hv)
    rw [List.getElem?_map]
    exact this


/-- remapping the keys of input `i` through its key mapping and reading them against the merged
values gives back exactly the logical rows of input `i` (concat: no key mask) -/
theorem remapped_keys_decode (hash : Option Bytes → Nat) (maxKey : Nat) (dicts : List Dict)
    (mappings : List (List Nat)) (merged : List (Option Bytes))
    (h : mergeDictionaryValues hash maxKey dicts none = some (mappings, merged))
    (i : Nat) (d : Dict) (hd : dicts[i]? = some d)
    (hkeys : ∀ k, some k ∈ d.keys → k < d.values.length) :
    (Dict.mk (d.keys.map (Option.map (fun k => (mappings.getD i []).getD k 0))) merged).decode = d.decode := by
  have hs := mergeDictionaryValues_sound hash maxKey dicts none mappings merged h i d hd
  unfold Dict.decode
  simp only [List.map_map]
  apply List.map_congr_left
  intro k hk
  cases k with
  | none => rfl
  | some k =>
    simp only [Function.comp, Option.map_some, Option.bind_some]
    have hlt := hkeys k hk
    have hbit : (valuesMask d none)[k]? = some true := by
      unfold valuesMask
      rw [List.getElem?_map, List.getElem?_range hlt]
      simp only [Option.map_some, Option.some.injEq, List.any_eq_true, List.mem_range]
      obtain ⟨p, hp, hpk⟩ := List.getElem_of_mem hk
      exact ⟨p, hp, by rw [List.getElem?_eq_getElem hp, hpk]; simp⟩
    have := hs k (by simpa using hbit)
    rw [this]
    rfl

/-! ### concat of offset-based nested arrays -/

theorem referenced_prefix (l : BArr) (hw : l.WF) : ∀ n, n ≤ l.len →
    copyRange l.data (l.offsets.getD 0 0, l.offsets.getD n 0) = ((List.range n).map (slotOf l.offsets l.data)).flatten := by
  intro n
  induction n with
  | zero => intro _; simp [copyRange]
  | succ n ih =>
    intro hn
    have hlen : n + 1 < l.offsets.length := by unfold BArr.len at hn; have := hw.nonempty; omega
    rw [copyRange_split l.data _ (l.offsets.getD n 0) _ (hw.mono 0 n (by omega) (by omega)) (hw.mono n (n + 1) (by omega) hlen)]
    rw [ih (by omega), List.range_succ, List.map_append, List.flatten_append]
    simp [slotOf]

/-- the child range an input refers to is the concatenation of its slot values -/
theorem referencedChild_eq (l : BArr) (hw : l.WF) : referencedChild l = l.slots.flatten := by
  unfold referencedChild BArr.lastOffset BArr.slots
  exact referenced_prefix l hw l.len (Nat.le_refl _)

theorem offsetLengths_eq (l : BArr) (hw : l.WF) : offsetLengths l.offsets = l.slots.map List.length := by
  unfold offsetLengths BArr.slots
  rw [List.map_map]
  apply List.map_congr_left
  intro i hi
  have : i < l.len := by simpa [BArr.len] using hi
  simp only [Function.comp]
  rw [length_slot l hw i this]

theorem fromLengths_eq (L : List (List Nat)) (c : Nat) : fromLengths (L.map List.length) c = scanEnds L c := by
  induction L generalizing c with
  | nil => rfl
  | cons x xs ih => simp [fromLengths, scanEnds, ih]

/-- **the concatenated child is exactly the concatenation of each input's referenced child range**
— in both branches of `list_has_slices` / `map_has_slices`: when no input is a slice every child
is referenced from 0 to its end, so taking the whole children is the same thing -/
theorem concatLists_child (ls : List BArr) (hw : ∀ l ∈ ls, l.WF) :
    (concatLists ls).data = (ls.map referencedChild).flatten := by
  unfold concatLists
  simp only
  by_cases hs : ls.any listHasSlices = true
  · simp [hs]
  · simp only [hs, Bool.false_eq_true, if_false]
    congr 1
    apply List.map_congr_left
    intro l hl
    have hno : listHasSlices l = false := by
      cases h : listHasSlices l with
      | false => rfl
      | true => exact absurd (List.any_eq_true.2 ⟨l, hl, h⟩) hs
    unfold listHasSlices at hno
    simp only [Bool.or_eq_false_iff, decide_eq_false_iff_not] at hno
    have hb := (hw l hl).bound l.len (by unfold BArr.len; have := (hw l hl).nonempty; omega)
    unfold referencedChild copyRange
    unfold BArr.lastOffset at hno ⊢
    have h0 : l.offsets.getD 0 0 = 0 := by omega
    have h1 : l.offsets.getD l.len 0 = l.data.length := by omega
    simp only []
    rw [h0, h1]
    simp

/-- **`concat_lists` / `concat_maps` preserve every row**: the slots of the result (rebuilt offsets
over the concatenated child) are the slots of the inputs, in order -/
theorem concatLists_slots (ls : List BArr) (hw : ∀ l ∈ ls, l.WF) :
    (concatLists ls).slots = (ls.map BArr.slots).flatten := by
  have hchild := concatLists_child ls hw
  have hdata : (concatLists ls).data = ((ls.map BArr.slots).flatten).flatten := by
    rw [hchild]
    have : ls.map referencedChild = ls.map (fun l => l.slots.flatten) :=
      List.map_congr_left (fun l hl => referencedChild_eq l (hw l hl))
    rw [this]
    have hff : ∀ xs : List (List (List Nat)), (xs.map List.flatten).flatten = xs.flatten.flatten := by
      intro xs; induction xs with
      | nil => rfl
      | cons x xs ih => simp [List.flatten_append, ih]
    have := hff (ls.map BArr.slots)
    rw [List.map_map] at this
    exact this
  have hoff : (concatLists ls).offsets = 0 :: scanEnds ((ls.map BArr.slots).flatten) 0 := by
    unfold concatLists
    simp only
    congr 1
    have : ls.flatMap (fun l => offsetLengths l.offsets) = ((ls.map BArr.slots).flatten).map List.length := by
      rw [List.flatMap_def, List.map_flatten, List.map_map]
      congr 1
      exact List.map_congr_left (fun l hl => offsetLengths_eq l (hw l hl))
    rw [this, fromLengths_eq]
  have hsl : ∀ (L : List (List Nat)) c, (scanEnds L c).length = L.length := by
    intro L; induction L <;> simp_all [scanEnds]
  have := slots_build ((ls.map BArr.slots).flatten) []
  simp only [List.length_nil, List.nil_append] at this
  rw [show (concatLists ls).slots = (List.range ((concatLists ls).offsets.length - 1)).map
        (slotOf (concatLists ls).offsets (concatLists ls).data) from rfl, hoff, hdata]
  simp only [List.length_cons, hsl, Nat.add_sub_cancel]
  exact this

end ArrowModel.C03
