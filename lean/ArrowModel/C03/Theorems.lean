import ArrowModel.C03.Lemmas
/-
C03 — property theorems.  "Selection kernels move exactly the selected rows, in order; the
batch coalescer emits, in input order, exactly the concatenation of the selected rows, in
batches of exactly the target size except for the remainder emitted by each finish."

All statements quantify over *every* array content, predicate, index list, history and
configuration (no bound).  `Arr.decode` is the abstraction function from the physical
(values + validity) representation to the logical column the specification talks about.
-/
namespace ArrowModel.C03

/-! ### filter -/

/-- **Every iteration strategy filters correctly** (`filter_array` → `filter_primitive` =
`filter_native` + `filter_nulls`/`filter_bits`).  For every well-formed array, every predicate
`mask` (nulls allowed, possibly shorter than the array) and every `FilterPredicate` whose
`count`/`strategy` are consistent with the mask — `SlicesIterator`, `IndexIterator`,
`Slices`, `Indices` for *any* mask, `All` only when every bit is set, `None` only when no bit
is set — the result decodes to exactly the rows `filterSpec` selects, in order, and is itself
well formed.  The heuristic (0.8 threshold) therefore cannot affect the result. -/
theorem filter_every_strategy {α : Type} [Inhabited α] (a : Arr α) (hwf : a.WF)
    (mask : List (Option Bool)) (p : Predicate) (hv : p.Valid) (hf : p.filter = prepMask mask)
    (hl : mask.length ≤ a.len) :
    ∃ r, filterArray a p = some r ∧ r.decode = filterSpec a.decode mask ∧ r.WF := by
  obtain ⟨r, h1, h2, h3⟩ := filterArray_decode a hwf p hv (by rw [hf, prepMask_length]; exact hl)
  exact ⟨r, h1, by rw [h2, hf, filterSpec_eq_filt], h3⟩

/-- non-vacuity: a sparse mask with a null slot, under the index strategy and under the slices strategy -/
example : (Predicate.mk [true, false, false, true] 2 .indexIterator).Valid ∧
    (Predicate.mk [true, false, false, true] 2 (.slices [(0, 1), (3, 4)])).Valid := by
  constructor <;> exact ⟨by decide, by decide⟩

/-- **The public kernel** (`filter`, `FilterBuilder::new(p)[.optimize()].build().filter(a)`):
for every slices-vs-indices heuristic `h` and with or without `optimize()`, the result is
`filterSpec`; a predicate longer than the array is rejected. -/
theorem filterKernel_correct {α : Type} [Inhabited α] (h : Nat → Nat → Bool) (opt : Bool)
    (a : Arr α) (hwf : a.WF) (mask : List (Option Bool)) :
    (mask.length ≤ a.len →
      ∃ r, filterKernel h opt a mask = some r ∧ r.decode = filterSpec a.decode mask ∧ r.WF) ∧
    (mask.length > a.len → filterKernel h opt a mask = none) := by
  obtain ⟨hv, hf⟩ := Predicate.new_valid h mask
  obtain ⟨hv', hf'⟩ := Predicate.optimize_valid _ hv
  cases opt
  · refine ⟨fun hl => ?_, fun hl => ?_⟩
    · have := filter_every_strategy a hwf mask (Predicate.new h mask) hv hf hl
      simpa only [filterKernel, Bool.false_eq_true, if_false] using this
    unfold filterKernel filterArray
    simp only [Bool.false_eq_true, if_false]
    rw [hf, prepMask_length, if_pos hl]
  · refine ⟨fun hl => ?_, fun hl => ?_⟩
    · have := filter_every_strategy a hwf mask (Predicate.new h mask).optimize hv' (by rw [hf', hf]) hl
      simpa only [filterKernel, if_true] using this
    unfold filterKernel filterArray
    simp only [if_true]
    rw [hf', hf, prepMask_length, if_pos hl]

example : (⟨[1, 2, 3], some [true, false, true]⟩ : Arr Nat).WF := by
  intro bs h; cases h; rfl

/-- the number of rows `filter` returns is the predicate's true count (`FilterPredicate::count`) -/
theorem filter_length {α : Type} (vs : List α) (mask : List (Option Bool)) (hl : mask.length ≤ vs.length) :
    (filterSpec vs mask).length = trueCount mask := by
  rw [filterSpec_eq_filt]
  exact length_filt vs _ (by rw [prepMask_length]; exact hl)

/-- **Selection iterators.**  Copying the runs yielded by `SlicesIterator`, or the single rows
yielded by `IndexIterator`, in iteration order, gives exactly the rows under set bits. -/
theorem slices_and_indices_select {α : Type} (rows : List α) (m : List Bool) (hl : m.length ≤ rows.length) :
    (slicesOf m).flatMap (copyRange rows) = filt rows m ∧
    (indicesAux m 0).flatMap (fun i => copyRange rows (i, i + 1)) = filt rows m ∧
    (indicesAux m 0).length = countSet m := by
  have h1 := (slicesAux_flatMap rows m 0 (by omega)).1
  have h2 := indicesAux_flatMap rows m 0 (by omega)
  simp only [List.drop_zero] at h1 h2
  exact ⟨h1, h2, length_indicesAux m 0⟩

/-! ### take -/

/-- **`take` = `takeSpec`** (`take` → `check_bounds` → `take_impl` → `take_primitive` =
`take_native` + `take_nulls`/`take_bits`), for every index type (`maxIdx`), with or without
`check_bounds`, for index arrays with or without a validity buffer (whatever raw value sits
under a null slot, in or out of range), duplicates and the empty index list included:
* if every *valid* index is in range the kernel succeeds and the result decodes to
  `values[index]` for a valid index and a null row for a null index;
* if some valid index is out of range (negative or ≥ len) the kernel never returns rows
  (it returns `Err` or panics, depending on `check_bounds`). -/
theorem take_correct {α : Type} [Inhabited α] (maxIdx : Nat) (check : Bool) (a : Arr α) (hwf : a.WF)
    (idx : IdxArr) (hiw : idx.WF) :
    match takeSpec a.decode idx.decode with
    | some r => ∃ out, takeKernel maxIdx check a idx = .ok out ∧ out.decode = r
    | none => ∀ out, takeKernel maxIdx check a idx ≠ .ok out :=
  takeKernel_spec maxIdx check a hwf idx hiw

/-- non-vacuity: an index array with a null slot holding an out-of-range raw value -/
example : (⟨[2, 99, 0], some [true, false, true]⟩ : IdxArr).WF ∧
    takeSpec [some 'a', none, some 'c'] (⟨[2, 99, 0], some [true, false, true]⟩ : IdxArr).decode
      = some [some 'c', none, some 'a'] := by
  constructor
  · intro bs h; cases h; rfl
  · decide

/-! ### concat, nullif, interleave, shift -/

/-- **`concat`** (`concat_primitives`: `append_array` per input, validity materialised only when
a null was appended): the result decodes to the concatenation of the inputs' rows and is
well formed. -/
theorem concat_correct {α : Type} (arrs : List (Arr α)) (hwf : ∀ a ∈ arrs, a.WF) :
    (concatPrimitive arrs).decode = concatSpec (arrs.map Arr.decode) ∧ (concatPrimitive arrs).WF :=
  concatPrimitive_decode arrs hwf

/-- **`nullif`**: validity `left & !(right_values & right_validity)` — row `i` becomes null
exactly when `right[i]` is a valid `true`; everything else (values, other nulls) is kept;
a length mismatch is rejected. -/
theorem nullif_correct {α : Type} (a : Arr α) (hwf : a.WF) (r : List (Option Bool)) :
    (a.len = r.length → ∃ out, nullifKernel a r = some out ∧ out.decode = nullifSpec a.decode r) ∧
    (a.len ≠ r.length → nullifKernel a r = none) :=
  nullifKernel_decode a hwf r

/-- **`interleave`** (`interleave_primitive` + `Interleave::new`, validity collected only when
some input has nulls): row `k` of the result is row `b_k` of input `a_k`; an out-of-range
pair never yields rows (the Rust code panics). -/
theorem interleave_correct {α : Type} (arrs : List (Arr α)) (hwf : ∀ a ∈ arrs, a.WF) (idx : List (Nat × Nat)) :
    match interleaveSpec (arrs.map Arr.decode) idx with
    | some r => ∃ out, interleavePrimitive arrs idx = some out ∧ out.decode = r
    | none => interleavePrimitive arrs idx = none :=
  interleavePrimitive_spec arrs hwf idx

/-- **`shift`** (window.rs: `offset = 0` copy, `|offset| ≥ len` all null, otherwise `concat` of a
null array and a slice): row `i` of the result is row `i - offset` of the input, null when
that falls outside; the length is unchanged — for every offset including `i64::MIN`. -/
theorem shift_correct {α : Type} [Inhabited α] (a : Arr α) (hwf : a.WF) (k : Int) :
    (shiftKernel a k).decode = shiftSpec a.decode k :=
  shiftKernel_decode a hwf k

/-! ### variable-width arrays, scalars, dictionaries -/

/-- **`FilterBytes` moves exactly the selected slots** (physical level): for a well-formed
byte array (monotone offsets — the first one need not be 0 — inside the value buffer) and
every consistent predicate under the `SlicesIterator`/`Slices` variant (`extend_offsets_slices`
+ one contiguous `extend_slices` copy per run) or the `IndexIterator`/`Indices` variant
(`extend_offsets_idx` + `extend_idx`), the rebuilt offsets and value bytes describe exactly
the slot values under set bits, in order. -/
theorem filterBytes_physical (b : BArr) (hw : b.WF) (p : Predicate) (hv : p.Valid)
    (hl : p.filter.length ≤ b.len) (hs : p.strategy ≠ .all ∧ p.strategy ≠ .none) :
    (filterBytes b p).slots = filt b.slots p.filter :=
  filterBytes_slots b hw p hv hl hs

/-- **`filter_bytes` = `filterSpec`**: `decode (filter_bytes phys) = filterSpec (decode phys)`
for every mask (nulls allowed), every strategy, null slots of any length included. -/
theorem filterBytes_correct (b : BArr) (hw : b.WF) (mask : List (Option Bool)) (p : Predicate)
    (hv : p.Valid) (hf : p.filter = prepMask mask) (hl : mask.length ≤ b.len)
    (hs : p.strategy ≠ .all ∧ p.strategy ≠ .none) :
    (filterBytes b p).decode = filterSpec b.decode mask := by
  rw [filterBytes_decode b hw p hv (by rw [hf, prepMask_length]; exact hl) hs, hf, filterSpec_eq_filt]

/-- non-vacuity: a sliced byte array (first offset 2) with an empty slot -/
example : (BArr.mk [2, 4, 4, 7] [9, 9, 1, 2, 3, 4, 5, 9] (some [true, false, true])).WF :=
  ⟨by decide, by
    intro i j hij hj
    simp only [List.length_cons, List.length_nil] at hj
    have : j = 0 ∨ j = 1 ∨ j = 2 ∨ j = 3 := by omega
    rcases this with h | h | h | h <;> subst h <;>
      (have : i = 0 ∨ i = 1 ∨ i = 2 ∨ i = 3 := by omega) <;> rcases this with h | h | h | h <;> subst h <;> first | decide | omega,
   by
    intro j hj
    simp only [List.length_cons, List.length_nil] at hj
    have : j = 0 ∨ j = 1 ∨ j = 2 ∨ j = 3 := by omega
    rcases this with h | h | h | h <;> subst h <;> decide,
   by intro bs h; cases h; rfl⟩

/-- **byte arrays built from a list of source rows** (`take_bytes` fast path, `FilterBytes`
index variant): running offsets + concatenated value bytes hold exactly those rows' values. -/
theorem bytes_built_from_rows (b : BArr) (hw : b.WF) (idx : List Nat) (hin : ∀ i ∈ idx, i < b.len)
    (n : Option (List Bool)) :
    (BArr.mk (0 :: extendOffsetsIdx b.offsets idx 0) (extendIdx b.offsets b.data idx) n).slots
      = idx.map (slotOf b.offsets b.data) :=
  built_slots b hw idx hin n

/-- **`zip` of two primitive scalars** (`PrimitiveScalarImpl::create_output`, all four
null/non-null combinations) equals `zipSpec` of the broadcast scalars; a null mask slot
selects the falsy scalar. -/
theorem zip_scalars_correct {α : Type} [Inhabited α] (mask : List (Option Bool)) (t f : Option α) :
    (zipScalars mask t f).decode = zipSpec mask (List.replicate mask.length t) (List.replicate mask.length f) :=
  zipScalars_decode mask t f

/-- **dictionary filter** touches only the keys: filtering the keys and then looking the
values up gives `filterSpec` of the looked-up rows (with `filterKernel_correct` on the keys). -/
theorem dictionary_filter_commutes {α β : Type} (lookup : α → β) (keys : List α) (mask : List (Option Bool)) :
    filterSpec (keys.map lookup) mask = (filterSpec keys mask).map lookup :=
  filterSpec_map lookup keys mask

/-! ### dictionary merge (`merge_dictionary_values`) -/

/-- **T-tie for the interner input**: `masked_bytes` / `masked_primitives_to_bytes` in
`arrow-select/src/dictionary.rs` still hand a NULL value slot to the interner as `None`
(`array.is_valid(idx).then_some(..)`) — the shape `maskedValues` models.  If the expression
is edited the generated item is LOST and this lemma no longer checks. -/
theorem masked_bytes_null_aware :
    Generated.C03.MASKED_BYTES_NULL_AWARE_lost = false ∧
    Generated.C03.MASKED_PRIMITIVES_NULL_AWARE_lost = false := ⟨rfl, rfl⟩

/-- **`merge_dictionary_values` preserves every referenced value**: for every bucket function
(so for every hash and every pattern of hash collisions), every key width and every key mask,
each value slot referenced by a selected valid key is mapped to a slot of the merged values
array holding the same `Option bytes`.  A NULL value slot therefore stays null — it is never
merged with a valid value that has the same bytes underneath (e.g. the empty string). -/
theorem merge_dictionary_values_sound (hash : Option Bytes → Nat) (maxKey : Nat) (dicts : List Dict)
    (masks : Option (List (List Bool))) (mappings : List (List Nat)) (merged : List (Option Bytes))
    (h : mergeDictionaryValues hash maxKey dicts masks = some (mappings, merged)) :
    ∀ i d, dicts[i]? = some d → ∀ v, (valuesMask d (masks.bind (·[i]?)))[v]? = some true →
      merged[(mappings.getD i []).getD v 0]? = some ((d.values[v]?).join) :=
  mergeDictionaryValues_sound hash maxKey dicts masks mappings merged h

/-- **merged dictionary + remapped keys denote the same rows** (`concat_dictionaries`): reading
the remapped keys of input `i` against the merged values gives exactly the logical rows of
input `i` (null if the key is null OR the value slot is null); the concatenated key arrays are
then covered by `concat_correct`. -/
theorem dictionary_merge_same_rows (hash : Option Bytes → Nat) (maxKey : Nat) (dicts : List Dict)
    (mappings : List (List Nat)) (merged : List (Option Bytes))
    (h : mergeDictionaryValues hash maxKey dicts none = some (mappings, merged))
    (i : Nat) (d : Dict) (hd : dicts[i]? = some d)
    (hkeys : ∀ k, some k ∈ d.keys → k < d.values.length) :
    (Dict.mk (d.keys.map (Option.map (fun k => (mappings.getD i []).getD k 0))) merged).decode = d.decode :=
  remapped_keys_decode hash maxKey dicts mappings merged h i d hd hkeys

/-- non-vacuity: a dictionary whose values hold a NULL slot and a valid empty string, both referenced -/
example : (Dict.mk [some 0, some 1, none, some 2] [none, some [], some [120]]).decode
    = [none, some [], none, some [120]] := by decide

/-! ### concat of List / LargeList / Map arrays -/

/-- **`concat_lists` / `concat_maps`: the concatenated child is exactly the concatenation of each
input's referenced child range** `child[offsets[0] .. offsets.last()]` — whether or not the
re-slicing branch is taken.  The branch may only be skipped when NO input has a non-zero first
offset AND NO input has child rows past its last offset (both halves of `list_has_slices` /
`map_has_slices`, T-tied by `SH_CONCAT_LISTS_SLICES` / `SH_CONCAT_MAPS_SLICES`). -/
theorem concat_lists_child_ranges (ls : List BArr) (hw : ∀ l ∈ ls, l.WF) :
    (concatLists ls).data = (ls.map referencedChild).flatten :=
  concatLists_child ls hw

/-- **`concat_lists` / `concat_maps` preserve every row**: reading the rebuilt offsets
(`from_lengths` of all slot lengths) against the concatenated child gives the slot values of the
inputs, in order — for head slices with unused trailing child rows, tail / middle slices, empty
inputs and arrays whose offsets do not start at 0, in any position. -/
theorem concat_lists_rows (ls : List BArr) (hw : ∀ l ∈ ls, l.WF) :
    (concatLists ls).slots = (ls.map BArr.slots).flatten :=
  concatLists_slots ls hw

/-! ### shape ties -/

/-- **T-tie for the guards and expressions the models mirror** (tools/items/C03.py `SHAPES`): the
coalescer's loop / finish / bypass / fit / sparse-copy guards, `default_strategy`'s `None`/`All`
side conditions, `All => slice(0, count)`, the predicate-length guard, `values & validity`,
`count - popcount`, the `+ offset` of every `filter_bits` arm, the `FilterBytes` copies,
`take_nulls`/`take_native`/`check_bounds`, the FixedSizeList bounds test, `nullif`'s `l & !r`,
`shift`'s guard, the interner comparison, the byte-builder offset shift and the slice conditions /
child ranges / offset lengths of `concat_lists` and `concat_maps` are still written
the way `Model.lean` models them.  An edit of any of them makes the item LOST and this lemma
stop checking. -/
theorem selection_shapes_intact :
    Generated.C03.SH_COAL_LOOP_GUARD_lost = false ∧
    Generated.C03.SH_COAL_LOOP_BODY_lost = false ∧
    Generated.C03.SH_COAL_FINISH_GUARD_lost = false ∧
    Generated.C03.SH_COAL_EMPTY_SKIP_lost = false ∧
    Generated.C03.SH_COAL_BYPASS_lost = false ∧
    Generated.C03.SH_COAL_FITS_lost = false ∧
    Generated.C03.SH_COAL_EXCEEDS_lost = false ∧
    Generated.C03.SH_COAL_SPARSE_lost = false ∧
    Generated.C03.SH_COAL_MATERIALIZE_lost = false ∧
    Generated.C03.SH_COAL_FILTER_SHORTCUTS_lost = false ∧
    Generated.C03.SH_COAL_SPARSE_TAIL_lost = false ∧
    Generated.C03.SH_COAL_FINISH_FN_lost = false ∧
    Generated.C03.SH_COAL_NEXT_lost = false ∧
    Generated.C03.SH_FILTER_DEFAULT_STRATEGY_lost = false ∧
    Generated.C03.SH_FILTER_ALL_NONE_lost = false ∧
    Generated.C03.SH_FILTER_LEN_GUARD_lost = false ∧
    Generated.C03.SH_FILTER_PREP_MASK_lost = false ∧
    Generated.C03.SH_FILTER_NEW_WITH_COUNT_lost = false ∧
    Generated.C03.SH_FILTER_NULLS_COUNT_lost = false ∧
    Generated.C03.SH_FILTER_BITS_OFFSETS_lost = false ∧
    Generated.C03.SH_FILTER_BYTES_SLICES_lost = false ∧
    Generated.C03.SH_FILTER_BYTES_IDX_lost = false ∧
    Generated.C03.SH_TAKE_NULLS_lost = false ∧
    Generated.C03.SH_TAKE_NATIVE_NULL_lost = false ∧
    Generated.C03.SH_TAKE_CHECK_BOUNDS_lost = false ∧
    Generated.C03.SH_TAKE_FSL_BOUND_lost = false ∧
    Generated.C03.SH_NULLIF_EXPR_lost = false ∧
    Generated.C03.SH_NULLIF_RIGHT_lost = false ∧
    Generated.C03.SH_SHIFT_GUARD_lost = false ∧
    Generated.C03.SH_INTERNER_CMP_lost = false ∧
    Generated.C03.SH_CONCAT_LISTS_SLICES_lost = false ∧
    Generated.C03.SH_CONCAT_MAPS_SLICES_lost = false ∧
    Generated.C03.SH_CONCAT_LISTS_RANGE_lost = false ∧
    Generated.C03.SH_CONCAT_MAPS_RANGE_lost = false ∧
    Generated.C03.SH_CONCAT_LISTS_BRANCH_lost = false ∧
    Generated.C03.SH_CONCAT_MAPS_BRANCH_lost = false ∧
    Generated.C03.SH_CONCAT_LISTS_LENGTHS_lost = false ∧
    Generated.C03.SH_CONCAT_MAPS_LENGTHS_lost = false ∧
    Generated.C03.SH_CONCAT_BYTES_SHIFT_lost = false := ⟨rfl, rfl, rfl, rfl, rfl, rfl, rfl, rfl, rfl, rfl, rfl, rfl, rfl, rfl, rfl, rfl, rfl, rfl, rfl, rfl, rfl, rfl, rfl, rfl, rfl, rfl, rfl, rfl, rfl, rfl, rfl, rfl, rfl, rfl, rfl, rfl, rfl, rfl, rfl⟩

/-! ### batch coalescer -/

/-- the freshly constructed coalescer satisfies the invariant -/
theorem inv_init {α : Type} (c : Config) (ht : 0 < c.target) : Inv c (CState.init : CState α) :=
  ⟨rfl, ht, rfl⟩

/-- **Invariant** (`buffered_rows` "Always less than `batch_size`"): after every operation of
every history with `target_batch_size > 0` — with or without a bypass limit —
`buffered_rows` equals the number of rows actually held in the in-progress arrays, is
`< target`, and `push_batch`'s loop has terminated. -/
theorem coalescer_invariant {β : Type} (c : Config) (ht : 0 < c.target)
    (ops : List (Op (Option β))) (s : CState (Option β)) (hi : Inv c s) :
    Inv c (run c s ops).1 := by
  induction ops generalizing s with
  | nil => exact hi
  | cons op ops ih =>
    rw [run_cons]
    exact ih _ (step_spec c ht s op hi).1

/-- **Conservation, in order, for every configuration** (any `biggest_coalesce_batch_size`):
the batches handed out by `next_completed_batch`, then the batches still queued, then the
buffered rows, concatenated, are exactly the rows selected by the pushes of the history, in
push order — nothing lost, duplicated or reordered. -/
theorem coalescer_conservation {β : Type} (c : Config) (ht : 0 < c.target)
    (ops : List (Op (Option β))) (s : CState (Option β)) (hi : Inv c s) :
    ((run c s ops).2 ++ (run c s ops).1.completed).flatten ++ (run c s ops).1.inProgress
      = s.completed.flatten ++ s.inProgress ++ (ops.map Op.selected).flatten := by
  induction ops generalizing s with
  | nil => simp [run]
  | cons op ops ih =>
    obtain ⟨h1, _, h3, _⟩ := step_spec c ht s op hi
    rw [run_cons]
    have := ih _ h1
    simp only [List.flatten_append, List.append_assoc, List.map_cons, List.flatten_cons] at this h3 ⊢
    rw [this]
    have h3' := congrArg (· ++ (ops.map Op.selected).flatten) h3
    simpa only [List.append_assoc] using h3'

/-- conservation from the initial state: `concat(emitted) ++ buffered = concat(selected)` -/
theorem coalescer_conservation_init {β : Type} (c : Config) (ht : 0 < c.target)
    (ops : List (Op (Option β))) :
    ((run c CState.init ops).2 ++ (run c CState.init ops).1.completed).flatten
        ++ (run c CState.init ops).1.inProgress
      = (ops.map Op.selected).flatten := by
  have := coalescer_conservation c ht ops CState.init (inv_init c ht)
  simpa [CState.init] using this

/-- **Exact batches without a bypass limit**: the batches emitted by any history (handed out
plus queued, in order) and the rows left in the buffer are exactly those of the abstract
coalescer `coalesceSpec` — full `target`-row batches cut from the stream of selected rows,
plus one short batch per `finish` that found rows buffered. -/
theorem coalescer_exact {β : Type} (c : Config) (ht : 0 < c.target) (hl : c.limit = none)
    (ops : List (Op (Option β))) (s : CState (Option β)) (hi : Inv c s) :
    (run c s ops).2 ++ (run c s ops).1.completed
        = s.completed ++ (coalesceSpec c.target s.inProgress ops).1 ∧
    (run c s ops).1.inProgress = (coalesceSpec c.target s.inProgress ops).2 := by
  induction ops generalizing s with
  | nil => simp [run, coalesceSpec]
  | cons op ops ih =>
    obtain ⟨h1, _, _, h4⟩ := step_spec c ht s op hi
    obtain ⟨e1, e2⟩ := h4 hl
    rw [run_cons, coalesceSpec_cons]
    have := ih _ h1
    simp only [List.append_assoc]
    rw [this.1, this.2, e2, ← List.append_assoc, e1, List.append_assoc]
    exact ⟨rfl, rfl⟩

theorem coalescer_exact_init {β : Type} (c : Config) (ht : 0 < c.target) (hl : c.limit = none)
    (ops : List (Op (Option β))) :
    ((run c CState.init ops).2 ++ (run c CState.init ops).1.completed,
      (run c CState.init ops).1.inProgress) = coalesceSpec c.target [] ops := by
  obtain ⟨h1, h2⟩ := coalescer_exact c ht hl ops CState.init (inv_init c ht)
  have e1 : (CState.init : CState (Option β)).completed = [] := rfl
  have e2 : (CState.init : CState (Option β)).inProgress = [] := rfl
  rw [e1, e2, List.nil_append] at h1
  rw [e2] at h2
  rw [h1, h2]

/-- **Exact size.**  In the abstract coalescer every batch produced by an operation other than
`finish` has exactly `target` rows; a batch produced by `finish` is the non-empty carry;
the carry stays below `target`. -/
theorem opSpec_sizes {β : Type} (target : Nat) (ht : 0 < target) (carry : List (Option β))
    (hc : carry.length < target) (op : Op (Option β)) :
    (∀ b ∈ (opSpec target carry op).1,
        (b.length = target ∨ (op = .finish ∧ b = carry ∧ 0 < b.length))) ∧
    (opSpec target carry op).2.length < target := by
  cases op with
  | finish =>
    simp only [opSpec]
    refine ⟨?_, by simpa using ht⟩
    intro b hb
    cases hcar : carry with
    | nil => simp [hcar] at hb
    | cons x xs => simp [hcar] at hb; subst hb; right; simp
  | next => simp only [opSpec]; exact ⟨by simp, hc⟩
  | push rows =>
    have := chunkAll_sizes target ht (carry ++ (Op.push rows).selected)
    exact ⟨fun b hb => Or.inl (this.1 b hb), this.2⟩
  | pushFiltered rows mask =>
    have := chunkAll_sizes target ht (carry ++ (Op.pushFiltered rows mask).selected)
    exact ⟨fun b hb => Or.inl (this.1 b hb), this.2⟩
  | pushIndices rows idx =>
    have := chunkAll_sizes target ht (carry ++ (Op.pushIndices rows idx).selected)
    exact ⟨fun b hb => Or.inl (this.1 b hb), this.2⟩

/-- every batch of the abstract coalescer has between 1 and `target` rows, and exactly
`target` rows when the history contains no `finish` -/
theorem coalesceSpec_sizes {β : Type} (target : Nat) (ht : 0 < target)
    (ops : List (Op (Option β))) (carry : List (Option β)) (hc : carry.length < target) :
    (∀ b ∈ (coalesceSpec target carry ops).1, 0 < b.length ∧ b.length ≤ target ∧
        ((∀ op ∈ ops, op ≠ Op.finish) → b.length = target)) ∧
    (coalesceSpec target carry ops).2.length < target := by
  induction ops generalizing carry with
  | nil => simp [coalesceSpec, hc]
  | cons op ops ih =>
    rw [coalesceSpec_cons]
    obtain ⟨h1, h2⟩ := opSpec_sizes target ht carry hc op
    obtain ⟨i1, i2⟩ := ih _ h2
    refine ⟨?_, i2⟩
    intro b hb
    simp only [List.mem_append] at hb
    rcases hb with hb | hb
    · rcases h1 b hb with h | ⟨h, h', h''⟩
      · exact ⟨by omega, by omega, fun _ => h⟩
      · refine ⟨h'', by rw [h']; omega, fun hno => ?_⟩
        exact absurd h (hno op (by simp))
    · obtain ⟨a, b', c'⟩ := i1 b hb
      exact ⟨a, b', fun hno => c' (fun o ho => hno o (by simp [ho]))⟩

/-- **Exact size for the implementation** (no bypass limit, `target > 0`): every batch the
coalescer ever hands out or queues has between 1 and `target` rows, and exactly `target`
rows as long as the history contains no explicit `finish`; fewer than `target` rows stay
buffered. -/
theorem coalescer_batch_sizes {β : Type} (c : Config) (ht : 0 < c.target) (hl : c.limit = none)
    (ops : List (Op (Option β))) :
    (∀ b ∈ (run c CState.init ops).2 ++ (run c CState.init ops).1.completed,
        0 < b.length ∧ b.length ≤ c.target ∧ ((∀ op ∈ ops, op ≠ Op.finish) → b.length = c.target)) ∧
    (run c CState.init ops).1.inProgress.length < c.target := by
  have h := coalescer_exact_init (β := β) c ht hl ops
  have hs := coalesceSpec_sizes c.target ht ops ([] : List (Option β)) (by simpa using ht)
  rw [← h] at hs
  exact hs

/-- non-vacuity: a state with queued and buffered rows satisfies the invariant -/
example : Inv { target := 3, limit := some 2, nonSpecialized := false, sparseDenom := 16, useSlices := fun _ _ => false }
    ({ inProgress := [some 1, none], bufferedRows := 2, completed := [[some 7, some 8, some 9]], diverged := false } : CState (Option Nat)) :=
  ⟨rfl, by decide, rfl⟩

end ArrowModel.C03
